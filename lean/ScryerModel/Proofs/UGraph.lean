import ScryerModel.Model.UGraph
import Mathlib.Data.List.Sort
import Mathlib.Logic.Relation
/-!
# Lemmas about the `library(ugraphs)` model: ordered sets, `sort/2`, graph basics,
and the vertex/edge characterisation of every non-iterative operation.
(Closure, reachability and topological sorting are in `Proofs/UGraphClosure`, `Proofs/UGraphTopSort`.)
-/
set_option linter.unnecessarySeqFocus false
set_option linter.unusedSimpArgs false
namespace Scryer.UGraph

/-! ## strictly ascending lists -/

theorem sorted_cons {a : Nat} {l : List Nat} : Sorted (a :: l) ↔ (∀ b ∈ l, a < b) ∧ Sorted l := by
  simp [Sorted]

@[simp] theorem sorted_nil : Sorted [] := by simp [Sorted]

theorem Sorted.nodup {l : List Nat} (h : Sorted l) : l.Nodup :=
  List.Pairwise.imp (fun h => Nat.ne_of_lt h) h

/-- a strictly ascending list is determined by its members. -/
theorem sorted_ext : ∀ {l1 l2 : List Nat}, Sorted l1 → Sorted l2 → (∀ x, x ∈ l1 ↔ x ∈ l2) → l1 = l2
  | [], [], _, _, _ => rfl
  | [], b :: _, _, _, h => by have := (h b).2 (by simp); simp at this
  | a :: _, [], _, _, h => by have := (h a).1 (by simp); simp at this
  | a :: as, b :: bs, h1, h2, h => by
    rw [sorted_cons] at h1 h2
    have hab : a = b := by
      have ha := (h a).1 (by simp)
      have hb := (h b).2 (by simp)
      simp at ha hb
      rcases ha with ha | ha
      · exact ha
      · rcases hb with hb | hb
        · exact hb.symm
        · have := h1.1 b hb; have := h2.1 a ha; omega
    subst hab
    congr 1
    apply sorted_ext h1.2 h2.2
    intro x
    constructor
    · intro hx
      have := (h x).1 (by simp [hx])
      simp at this
      rcases this with rfl | h'
      · have := h1.1 x hx; omega
      · exact h'
    · intro hx
      have := (h x).2 (by simp [hx])
      simp at this
      rcases this with rfl | h'
      · have := h2.1 x hx; omega
      · exact h'

/-! ## ordsets -/

@[simp] theorem ordUnion_nil_right (l : List Nat) : ordUnion l [] = l := by cases l <;> simp [ordUnion]
@[simp] theorem ordSubtract_nil_right (l : List Nat) : ordSubtract l [] = l := by cases l <;> simp [ordSubtract]

theorem mem_ordUnion {x : Nat} {l1 l2 : List Nat} : x ∈ ordUnion l1 l2 ↔ x ∈ l1 ∨ x ∈ l2 := by
  fun_induction ordUnion l1 l2 <;> simp_all <;> grind

theorem sorted_ordUnion {l1 l2 : List Nat} (h1 : Sorted l1) (h2 : Sorted l2) : Sorted (ordUnion l1 l2) := by
  fun_induction ordUnion l1 l2 <;> simp_all [sorted_cons, mem_ordUnion] <;> grind

theorem ordSubtract_sublist {l1 l2 : List Nat} : (ordSubtract l1 l2).Sublist l1 := by
  fun_induction ordSubtract l1 l2 <;> simp_all

theorem sorted_ordSubtract {l1 l2 : List Nat} (h1 : Sorted l1) : Sorted (ordSubtract l1 l2) :=
  List.Pairwise.sublist ordSubtract_sublist h1

theorem mem_ordSubtract {x : Nat} {l1 l2 : List Nat} (h1 : Sorted l1) (h2 : Sorted l2) :
    x ∈ ordSubtract l1 l2 ↔ x ∈ l1 ∧ x ∉ l2 := by
  fun_induction ordSubtract l1 l2 <;> simp_all [sorted_cons] <;> grind

theorem mem_ordAddElement {x e : Nat} {l : List Nat} : x ∈ ordAddElement l e ↔ x = e ∨ x ∈ l := by
  fun_induction ordAddElement l e <;> simp_all <;> grind

theorem sorted_ordAddElement {e : Nat} {l : List Nat} (h : Sorted l) : Sorted (ordAddElement l e) := by
  fun_induction ordAddElement l e <;> simp_all [sorted_cons, mem_ordAddElement] <;> grind

theorem ordUnionNew_fst (l1 l2 : List Nat) : (ordUnionNew l1 l2).1 = ordUnion l1 l2 := by
  fun_induction ordUnionNew l1 l2 <;> simp_all [ordUnion, consFst, consBoth]

theorem ordUnionNew_snd (l1 l2 : List Nat) : (ordUnionNew l1 l2).2 = ordSubtract l2 l1 := by
  fun_induction ordUnionNew l1 l2 <;> simp_all [ordSubtract, consFst, consBoth] <;> grind [ordSubtract]

theorem length_ordUnion (l1 l2 : List Nat) :
    (ordUnion l1 l2).length = l1.length + (ordSubtract l2 l1).length := by
  fun_induction ordUnion l1 l2 <;> simp_all [ordSubtract] <;> grind [ordSubtract]

/-! ## `sort/2` and `msort_/2` -/

/-- the laws `sortSet` needs from its comparison. -/
structure StrictOrder {α} (lt : α → α → Bool) : Prop where
  irrefl : ∀ a, lt a a = false
  trans : ∀ a b c, lt a b = true → lt b c = true → lt a c = true
  tri : ∀ a b, lt a b = false → lt b a = false → a = b

theorem natLt_strict : StrictOrder natLt where
  irrefl := by simp [natLt]
  trans := by simp [natLt]; omega
  tri := by simp [natLt]; omega

theorem edgeLt_strict : StrictOrder edgeLt where
  irrefl := by simp [edgeLt]
  trans := by
    rintro ⟨a1, a2⟩ ⟨b1, b2⟩ ⟨c1, c2⟩
    simp [edgeLt]; omega
  tri := by
    rintro ⟨a1, a2⟩ ⟨b1, b2⟩
    simp [edgeLt]; omega

variable {α : Type} {lt : α → α → Bool}

theorem mem_insertSet (h : StrictOrder lt) {x y : α} {l : List α} :
    y ∈ insertSet lt x l ↔ y = x ∨ y ∈ l := by
  fun_induction insertSet lt x l <;> simp_all
  · grind
  · rename_i y' ys h1 h2
    have := h.tri _ _ (by simpa using h1) (by simpa using h2)
    grind

theorem pairwise_insertSet (h : StrictOrder lt) {x : α} {l : List α}
    (hl : l.Pairwise (fun a b => lt a b = true)) : (insertSet lt x l).Pairwise (fun a b => lt a b = true) := by
  fun_induction insertSet lt x l <;> simp_all [mem_insertSet h]
  · rename_i y ys h1
    intro a ha
    exact h.trans _ _ _ h1 (hl.1 a ha)

theorem mem_sortSet (h : StrictOrder lt) {y : α} {l : List α} : y ∈ sortSet lt l ↔ y ∈ l := by
  induction l with
  | nil => simp [sortSet]
  | cons a l ih => simp only [sortSet, List.foldr_cons] at ih ⊢; simp [mem_insertSet h, ih]

theorem pairwise_sortSet (h : StrictOrder lt) (l : List α) : (sortSet lt l).Pairwise (fun a b => lt a b = true) := by
  induction l with
  | nil => simp [sortSet]
  | cons a l ih => simp only [sortSet, List.foldr_cons] at ih ⊢; exact pairwise_insertSet h ih

@[simp] theorem mem_sortNat {y : Nat} {l : List Nat} : y ∈ sortNat l ↔ y ∈ l := mem_sortSet natLt_strict

theorem sorted_sortNat (l : List Nat) : Sorted (sortNat l) := by
  have := pairwise_sortSet natLt_strict l
  simpa [natLt, Sorted, sortNat] using this

@[simp] theorem mem_sortEdges {y : Nat × Nat} {l : List (Nat × Nat)} : y ∈ sortEdges l ↔ y ∈ l :=
  mem_sortSet edgeLt_strict

/-- lexicographic strict order on edges. -/
def EdgeLt (a b : Nat × Nat) : Prop := a.1 < b.1 ∨ (a.1 = b.1 ∧ a.2 < b.2)

theorem edgeLt_iff {a b : Nat × Nat} : edgeLt a b = true ↔ EdgeLt a b := by
  simp [edgeLt, EdgeLt]

theorem sorted_sortEdges (l : List (Nat × Nat)) : (sortEdges l).Pairwise EdgeLt := by
  have := pairwise_sortSet edgeLt_strict l
  simpa [edgeLt_iff, sortEdges] using this

theorem mem_insertDup {x y : Nat} {l : List Nat} : y ∈ insertDup x l ↔ y = x ∨ y ∈ l := by
  fun_induction insertDup x l <;> simp_all <;> grind

@[simp] theorem mem_msortNat {y : Nat} {l : List Nat} : y ∈ msortNat l ↔ y ∈ l := by
  induction l with
  | nil => simp [msortNat]
  | cons a l ih => simp only [msortNat, List.foldr_cons] at ih ⊢; simp [mem_insertDup, ih]

theorem insertDup_eq_insertSet {x : Nat} {l : List Nat} (hx : x ∉ l) : insertDup x l = insertSet natLt x l := by
  fun_induction insertDup x l <;> simp_all [insertSet, natLt] <;> grind

/-- on a list without duplicates `msort_/2` and `sort/2` agree. -/
theorem msortNat_eq_sortNat {l : List Nat} (h : l.Nodup) : msortNat l = sortNat l := by
  induction l with
  | nil => rfl
  | cons a l ih =>
    rw [List.nodup_cons] at h
    simp only [msortNat, sortNat, sortSet, List.foldr_cons] at ih ⊢
    rw [ih h.2, insertDup_eq_insertSet]
    have : a ∉ sortNat l := by simp [h.1]
    exact this

theorem sortNat_eq_nil {l : List Nat} : sortNat l = [] ↔ l = [] := by
  constructor
  · intro h
    cases l with
    | nil => rfl
    | cons a l => have : a ∈ sortNat (a :: l) := by simp
                  rw [h] at this; simp at this
  · rintro rfl; rfl

/-! ## graph basics -/

@[simp] theorem edge_nil {x y : Nat} : Edge [] x y ↔ False := by simp [Edge]

@[simp] theorem edge_cons {v : Nat} {ns : List Nat} {g : Graph} {x y : Nat} :
    Edge ((v, ns) :: g) x y ↔ (x = v ∧ y ∈ ns) ∨ Edge g x y := by
  simp [Edge]; grind

theorem vertices_eq_map (g : Graph) : vertices g = g.map Prod.fst := by
  induction g with
  | nil => rfl
  | cons p g ih => obtain ⟨v, ns⟩ := p; simp [vertices, ih]

theorem mem_vertices {v : Nat} {g : Graph} : v ∈ vertices g ↔ ∃ ns, (v, ns) ∈ g := by
  simp [vertices_eq_map]

theorem mem_vertices_of_mem {v : Nat} {ns : List Nat} {g : Graph} (h : (v, ns) ∈ g) : v ∈ vertices g :=
  mem_vertices.2 ⟨ns, h⟩

theorem Edge.src {g : Graph} {x y : Nat} (h : Edge g x y) : x ∈ vertices g := by
  obtain ⟨ns, h1, _⟩ := h; exact mem_vertices_of_mem h1

@[simp] theorem vertices_nil : vertices [] = [] := rfl
@[simp] theorem vertices_cons {v : Nat} {ns : List Nat} {g : Graph} : vertices ((v, ns) :: g) = v :: vertices g := rfl

theorem WF.dst {g : Graph} (h : WF g) {x y : Nat} (e : Edge g x y) : y ∈ vertices g := by
  obtain ⟨ns, h1, h2⟩ := e; exact h.closed _ h1 _ h2

theorem wf_iff {g : Graph} : WF g ↔ Sorted (vertices g) ∧ (∀ p ∈ g, Sorted p.2) ∧ ∀ x y, Edge g x y → y ∈ vertices g := by
  constructor
  · intro h; exact ⟨h.keys, h.nbrs, fun x y e => h.dst e⟩
  · rintro ⟨h1, h2, h3⟩
    exact ⟨h1, h2, fun p hp y hy => h3 p.1 y ⟨p.2, hp, hy⟩⟩

theorem neighbours_some_mem {v : Nat} {g : Graph} {ns : List Nat} (h : neighbours v g = some ns) : (v, ns) ∈ g := by
  fun_induction neighbours v g <;> simp_all

theorem neighbours_eq_some {v : Nat} {g : Graph} {ns : List Nat} (hk : Sorted (vertices g)) :
    neighbours v g = some ns ↔ (v, ns) ∈ g := by
  fun_induction neighbours v g
  · simp
  · rename_i ns0 g
    simp [sorted_cons] at hk
    simp
    constructor
    · rintro rfl; simp
    · rintro (h1 | h1)
      · exact h1.symm
      · have := hk.1 _ (mem_vertices_of_mem h1); omega
  · rename_i v0 ns0 g h ih
    simp [sorted_cons] at hk
    simp [ih hk.2]
    grind

theorem neighbours_eq_none {v : Nat} {g : Graph} : neighbours v g = none ↔ v ∉ vertices g := by
  fun_induction neighbours v g <;> simp_all

theorem neighbours_isSome {v : Nat} {g : Graph} (h : v ∈ vertices g) : ∃ ns, neighbours v g = some ns := by
  cases h' : neighbours v g with
  | none => exact absurd h (neighbours_eq_none.1 h')
  | some ns => exact ⟨ns, rfl⟩

/-- with distinct keys, `x → y` iff `y` is in the neighbour list stored under `x`. -/
theorem edge_iff_neighbours {g : Graph} (hk : Sorted (vertices g)) {x y : Nat} :
    Edge g x y ↔ ∃ ns, neighbours x g = some ns ∧ y ∈ ns := by
  simp [Edge, neighbours_eq_some hk]

/-- Canonical form: two well-formed graphs with the same vertices and the same edges are equal. -/
theorem graph_ext : ∀ {g h : Graph}, Sorted (vertices g) → Sorted (vertices h) → (∀ p ∈ g, Sorted p.2) →
    (∀ p ∈ h, Sorted p.2) → (∀ v, v ∈ vertices g ↔ v ∈ vertices h) → (∀ x y, Edge g x y ↔ Edge h x y) → g = h := by
  intro g h kg kh ng nh hv he
  have hvs : vertices g = vertices h := sorted_ext kg kh hv
  clear hv
  induction g generalizing h with
  | nil => cases h with
    | nil => rfl
    | cons p h => obtain ⟨v, ns⟩ := p; simp at hvs
  | cons p g ih =>
    obtain ⟨v, ns⟩ := p
    cases h with
    | nil => simp at hvs
    | cons q h =>
      obtain ⟨w, ms⟩ := q
      simp at hvs
      obtain ⟨rfl, hvs⟩ := hvs
      simp [sorted_cons] at kg kh
      have hns : ns = ms := by
        apply sorted_ext (ng (v, ns) (by simp)) (nh (v, ms) (by simp))
        intro y
        have := he v y
        simp at this
        constructor
        · intro hy
          rcases this.1 (Or.inl hy) with h1 | h1
          · exact h1
          · have := kh.1 _ h1.src; omega
        · intro hy
          rcases this.2 (Or.inl hy) with h1 | h1
          · exact h1
          · have := kg.1 _ h1.src; omega
      subst hns
      congr 1
      apply ih kg.2 kh.2 (fun p hp => ng p (by simp [hp])) (fun p hp => nh p (by simp [hp])) _ hvs
      intro x y
      have := he x y
      simp at this
      constructor
      · intro e
        rcases this.1 (Or.inr e) with h1 | h1
        · have := kg.1 _ e.src; omega
        · exact h1
      · intro e
        rcases this.2 (Or.inr e) with h1 | h1
        · have := kh.1 _ e.src; omega
        · exact h1

/-! ## edges / p_to_s_group -/

theorem sToPGraph1_eq (ns : List Nat) (v : Nat) (rest : List (Nat × Nat)) :
    sToPGraph1 ns v rest = ns.map (fun n => (v, n)) ++ rest := by
  induction ns with
  | nil => rfl
  | cons n ns ih => simp [sToPGraph1, ih]

theorem mem_edges {g : Graph} {x y : Nat} : (x, y) ∈ edges g ↔ Edge g x y := by
  induction g with
  | nil => simp [edges]
  | cons p g ih => obtain ⟨v, ns⟩ := p; simp [edges, sToPGraph1_eq, ih]; grind

/-- `edges/2` lists the edges in standard order without duplicates. -/
theorem sorted_edges {g : Graph} (hk : Sorted (vertices g)) (hn : ∀ p ∈ g, Sorted p.2) :
    (edges g).Pairwise EdgeLt := by
  induction g with
  | nil => simp [edges]
  | cons p g ih =>
    obtain ⟨v, ns⟩ := p
    simp [sorted_cons] at hk
    have hns : Sorted ns := hn (v, ns) (by simp)
    simp only [edges, sToPGraph1_eq]
    rw [List.pairwise_append]
    refine ⟨?_, ih hk.2 (fun p hp => hn p (by simp [hp])), ?_⟩
    · rw [List.pairwise_map]
      exact List.Pairwise.imp (fun h => Or.inr ⟨rfl, h⟩) hns
    · rintro ⟨a, b⟩ ha ⟨c, d⟩ hc
      simp at ha
      have := hk.1 c (mem_edges.1 hc).src
      left; simp; omega

theorem mem_pToSVertices {es : List (Nat × Nat)} {v : Nat} :
    v ∈ pToSVertices es ↔ ∃ e ∈ es, v = e.1 ∨ v = e.2 := by
  induction es with
  | nil => simp [pToSVertices]
  | cons e es ih => obtain ⟨a, z⟩ := e; simp [pToSVertices, ih]; grind

theorem pToSGroup1_split (es : List (Nat × Nat)) (v : Nat) :
    (pToSGroup1 es v).1.map (fun n => (v, n)) ++ (pToSGroup1 es v).2 = es := by
  induction es with
  | nil => simp [pToSGroup1]
  | cons e es ih =>
    obtain ⟨a, b⟩ := e
    by_cases h : a = v
    · subst h; simp [pToSGroup1, consFst, ih]
    · simp [pToSGroup1, h]

theorem pToSGroup1_head (es : List (Nat × Nat)) (v : Nat) :
    ∀ e, (pToSGroup1 es v).2.head? = some e → e.1 ≠ v := by
  induction es with
  | nil => simp [pToSGroup1]
  | cons e es ih =>
    obtain ⟨a, b⟩ := e
    by_cases h : a = v
    · subst h; simpa [pToSGroup1, consFst] using ih
    · simp [pToSGroup1, h]

theorem vertices_pToSGroup (vs : List Nat) (es : List (Nat × Nat)) : vertices (pToSGroup vs es) = vs := by
  induction vs generalizing es with
  | nil => rfl
  | cons v vs ih => simp [pToSGroup, ih]

theorem pToSGroup_spec {vs : List Nat} {es : List (Nat × Nat)} (hvs : Sorted vs) (hes : es.Pairwise EdgeLt)
    (hsrc : ∀ e ∈ es, e.1 ∈ vs) :
    (∀ x y, Edge (pToSGroup vs es) x y ↔ (x, y) ∈ es) ∧ ∀ p ∈ pToSGroup vs es, Sorted p.2 := by
  induction vs generalizing es with
  | nil =>
    cases es with
    | nil => simp [pToSGroup]
    | cons e es => have := hsrc e (by simp); simp at this
  | cons v vs ih =>
    have hsplit := pToSGroup1_split es v
    have hhead := pToSGroup1_head es v
    simp only [pToSGroup]
    generalize pToSGroup1 es v = r at hsplit hhead ⊢
    obtain ⟨ns, rest⟩ := r
    simp only at hsplit hhead ⊢
    subst hsplit
    rw [sorted_cons] at hvs
    rw [List.pairwise_append] at hes
    obtain ⟨hes1, hes2, hes3⟩ := hes
    -- all sources in `rest` are in `vs`
    have hgt : ∀ e ∈ rest, v < e.1 := by
      intro e he
      cases rest with
      | nil => simp at he
      | cons e0 rest =>
        have h0 : e0.1 ≠ v := hhead e0 rfl
        have h0' : e0.1 ∈ v :: vs := hsrc e0 (by simp)
        have h0'' : v < e0.1 := by
          simp at h0'; rcases h0' with h | h
          · exact absurd h h0
          · exact hvs.1 _ h
        simp at he
        rcases he with rfl | he
        · exact h0''
        · rw [List.pairwise_cons] at hes2
          have := hes2.1 e he
          simp [EdgeLt] at this; omega
    have hrest : ∀ e ∈ rest, e.1 ∈ vs := by
      intro e he
      have h1 : e.1 ∈ v :: vs := hsrc e (by simp [he])
      have h2 := hgt e he
      simp at h1; rcases h1 with h | h
      · omega
      · exact h
    obtain ⟨ih1, ih2⟩ := ih hvs.2 hes2 hrest
    constructor
    · intro x y
      simp [ih1]
      grind
    · intro p hp
      simp at hp
      rcases hp with rfl | hp
      · simp
        rw [List.pairwise_map] at hes1
        exact List.Pairwise.imp (fun h => by simpa [EdgeLt] using h) hes1
      · exact ih2 p hp


/-! ## vertices_edges_to_ugraph, p_to_s_graph, transpose -/

theorem vetu_vertices {vs : List Nat} {es : List (Nat × Nat)} {v : Nat} :
    v ∈ vertices (verticesEdgesToUgraph vs es) ↔ v ∈ vs ∨ ∃ e ∈ es, v = e.1 ∨ v = e.2 := by
  simp [verticesEdgesToUgraph, vertices_pToSGroup, mem_pToSVertices]

theorem vetu_spec (vs : List Nat) (es : List (Nat × Nat)) :
    (∀ x y, Edge (verticesEdgesToUgraph vs es) x y ↔ (x, y) ∈ es) ∧ WF (verticesEdgesToUgraph vs es) := by
  have h := pToSGroup_spec (vs := sortNat (vs ++ pToSVertices (sortEdges es))) (es := sortEdges es)
    (sorted_sortNat _) (sorted_sortEdges es) (by
      intro e he
      simp [mem_pToSVertices]
      right; exact ⟨e.1, e.2, by simpa using he, Or.inl rfl⟩)
  have hE : ∀ x y, Edge (verticesEdgesToUgraph vs es) x y ↔ (x, y) ∈ es := by
    intro x y; simpa [verticesEdgesToUgraph] using h.1 x y
  refine ⟨hE, wf_iff.2 ⟨?_, ?_, ?_⟩⟩
  · simp only [verticesEdgesToUgraph, vertices_pToSGroup]; exact sorted_sortNat _
  · exact h.2
  · intro x y e
    rw [vetu_vertices]
    right; exact ⟨(x, y), (hE x y).1 e, Or.inr rfl⟩

theorem pToSGraph_eq (es : List (Nat × Nat)) : pToSGraph es = verticesEdgesToUgraph [] es := rfl

theorem mem_flipEdges {es : List (Nat × Nat)} {x y : Nat} : (x, y) ∈ flipEdges es ↔ (y, x) ∈ es := by
  induction es with
  | nil => simp [flipEdges]
  | cons e es ih => obtain ⟨a, b⟩ := e; simp [flipEdges, ih]; grind

theorem transpose_vertices {g : Graph} (h : WF g) : vertices (transposeUgraph g) = vertices g := by
  apply sorted_ext (vetu_spec _ _).2.keys h.keys
  intro v
  simp only [transposeUgraph, vetu_vertices]
  constructor
  · rintro (h1 | ⟨⟨a, b⟩, he, h1 | h1⟩)
    · exact h1
    · rw [mem_flipEdges, mem_edges] at he; simp at h1; subst h1; exact h.dst he
    · rw [mem_flipEdges, mem_edges] at he; simp at h1; subst h1; exact he.src
  · exact Or.inl

theorem transpose_edge {g : Graph} {x y : Nat} : Edge (transposeUgraph g) x y ↔ Edge g y x := by
  simp [transposeUgraph, (vetu_spec _ _).1, mem_flipEdges, mem_edges]

/-! ## add_vertices -/

theorem vertices_addEmptyVertices (l : List Nat) : vertices (addEmptyVertices l) = l := by
  induction l with
  | nil => rfl
  | cons a l ih => simp [addEmptyVertices, ih]

theorem mem_addEmptyVertices {l : List Nat} {p : Nat × List Nat} (h : p ∈ addEmptyVertices l) : p.2 = [] := by
  induction l with
  | nil => simp [addEmptyVertices] at h
  | cons a l ih => simp [addEmptyVertices] at h; rcases h with rfl | h; · rfl
                   exact ih h

theorem vertices_addVerticesToSGraph (l : List Nat) (g : Graph) :
    vertices (addVerticesToSGraph l g) = ordUnion l (vertices g) := by
  fun_induction addVerticesToSGraph l g <;> simp_all [vertices_addEmptyVertices, ordUnion]

theorem mem_addVerticesToSGraph {l : List Nat} {g : Graph} {p : Nat × List Nat}
    (h : p ∈ addVerticesToSGraph l g) : p ∈ g ∨ p.2 = [] := by
  fun_induction addVerticesToSGraph l g <;> simp_all
  · exact mem_addEmptyVertices h
  all_goals grind

theorem edge_addVerticesToSGraph {l : List Nat} {g : Graph} {x y : Nat} :
    Edge (addVerticesToSGraph l g) x y ↔ Edge g x y := by
  constructor
  · rintro ⟨ns, h1, h2⟩
    rcases mem_addVerticesToSGraph h1 with h | h
    · exact ⟨ns, h, h2⟩
    · simp at h; subst h; simp at h2
  · intro h
    fun_induction addVerticesToSGraph l g <;> simp_all
    all_goals grind

theorem addVerticesToSGraph_spec {l : List Nat} {g : Graph} (hl : Sorted l) (hg : WF g) :
    WF (addVerticesToSGraph l g) ∧ (∀ v, v ∈ vertices (addVerticesToSGraph l g) ↔ v ∈ vertices g ∨ v ∈ l) ∧
    ∀ x y, Edge (addVerticesToSGraph l g) x y ↔ Edge g x y := by
  have hv : ∀ v, v ∈ vertices (addVerticesToSGraph l g) ↔ v ∈ vertices g ∨ v ∈ l := by
    intro v; rw [vertices_addVerticesToSGraph, mem_ordUnion, or_comm]
  refine ⟨wf_iff.2 ⟨?_, ?_, ?_⟩, hv, fun x y => edge_addVerticesToSGraph⟩
  · rw [vertices_addVerticesToSGraph]; exact sorted_ordUnion hl hg.keys
  · intro p hp
    rcases mem_addVerticesToSGraph hp with h | h
    · exact hg.nbrs p h
    · rw [h]; exact sorted_nil
  · intro x y e
    rw [hv]; left; exact hg.dst (edge_addVerticesToSGraph.1 e)

/-! ## del_vertices -/

theorem vertices_delRemaining (g : Graph) (v1 : List Nat) : vertices (delRemaining g v1) = vertices g := by
  fun_induction delRemaining g v1 <;> simp_all

theorem mem_delRemaining {g : Graph} {v1 : List Nat} {x : Nat} {ns : List Nat} :
    (x, ns) ∈ delRemaining g v1 ↔ ∃ e, (x, e) ∈ g ∧ ns = ordSubtract e v1 := by
  fun_induction delRemaining g v1 <;> simp_all
  grind

theorem vertices_delVerticesAuxFixed (g : Graph) (vs v1 : List Nat) :
    vertices (delVerticesAuxFixed g vs v1) = ordSubtract (vertices g) vs := by
  fun_induction delVerticesAuxFixed g vs v1 <;> simp_all [vertices_delRemaining, ordSubtract]

theorem mem_delVerticesAuxFixed {g : Graph} {vs v1 : List Nat} (hg : Sorted (vertices g)) (hvs : Sorted vs)
    {x : Nat} {ns : List Nat} :
    (x, ns) ∈ delVerticesAuxFixed g vs v1 ↔ ∃ e, (x, e) ∈ g ∧ x ∉ vs ∧ ns = ordSubtract e v1 := by
  fun_induction delVerticesAuxFixed g vs v1
  · simp [mem_delRemaining]
  · simp
  · rename_i v e g v0 vs v1 hlt ih
    simp [sorted_cons] at hg hvs
    have ih := ih hg.2 (by simp [sorted_cons]; exact hvs)
    simp [ih]
    constructor
    · rintro (⟨rfl, rfl⟩ | ⟨e', h1, h2, h3⟩)
      · refine ⟨e, Or.inl ⟨rfl, rfl⟩, ⟨by omega, ?_⟩, rfl⟩
        intro hx; have := hvs.1 _ hx; omega
      · exact ⟨e', Or.inr h1, h2, h3⟩
    · rintro ⟨e', (⟨rfl, rfl⟩ | h1), h2, h3⟩
      · exact Or.inl ⟨rfl, h3⟩
      · exact Or.inr ⟨e', h1, h2, h3⟩
  · rename_i v e g vs v1 hlt ih
    simp [sorted_cons] at hg hvs
    have ih := ih hg.2 hvs.2
    simp [ih]
    constructor
    · rintro ⟨e', h1, h2, h3⟩
      refine ⟨e', Or.inr h1, ⟨?_, h2⟩, h3⟩
      have := hg.1 _ (mem_vertices_of_mem h1); omega
    · rintro ⟨e', (⟨rfl, rfl⟩ | h1), h2, h3⟩
      · simp at h2
      · exact ⟨e', h1, h2.2, h3⟩
  · rename_i v e g v0 vs v1 hlt hne ih
    simp [sorted_cons] at hg hvs
    have ih := ih (by simp [sorted_cons]; exact hg) hvs.2
    simp [ih]
    constructor
    · rintro ⟨e', h1, h2, h3⟩
      refine ⟨e', h1, ⟨?_, h2⟩, h3⟩
      rcases h1 with ⟨rfl, rfl⟩ | h1
      · omega
      · have := hg.1 _ (mem_vertices_of_mem h1); omega
    · rintro ⟨e', h1, h2, h3⟩
      exact ⟨e', h1, h2.2, h3⟩

/-- the literal algorithm agrees with the repaired one when every vertex to delete is in the graph. -/
theorem delVerticesAux_eq_fixed {g : Graph} {vs v1 : List Nat} (hg : Sorted (vertices g)) (hvs : Sorted vs)
    (hsub : ∀ v ∈ vs, v ∈ vertices g) : delVerticesAux g vs v1 = delVerticesAuxFixed g vs v1 := by
  fun_induction delVerticesAux g vs v1
  · simp [delVerticesAuxFixed]
  · simp [delVerticesAuxFixed]
  · rename_i v e g v0 vs v1 hlt ih
    simp [sorted_cons] at hg hvs
    simp [delVerticesAuxFixed, hlt]
    apply ih hg.2 (by simp [sorted_cons]; exact hvs)
    intro w hw
    have h1 := hsub w hw
    simp at hw h1
    rcases hw with rfl | hw
    · rcases h1 with h1 | h1
      · omega
      · exact h1
    · have := hvs.1 _ hw
      rcases h1 with h1 | h1
      · omega
      · exact h1
  · rename_i v e g vs v1 hlt ih
    simp [sorted_cons] at hg hvs
    simp [delVerticesAuxFixed]
    apply ih hg.2 hvs.2
    intro w hw
    have h1 := hsub w (by simp [hw])
    have := hvs.1 _ hw
    simp at h1
    rcases h1 with h1 | h1
    · omega
    · exact h1
  · rename_i v e g v0 vs v1 hlt hne ih
    exfalso
    simp [sorted_cons] at hg
    have h1 := hsub v0 (by simp)
    simp at h1
    rcases h1 with h1 | h1
    · omega
    · have := hg.1 _ h1; omega


theorem delVerticesFixed_spec {g : Graph} (hg : WF g) (vs : List Nat) :
    WF (delVerticesFixed g vs) ∧ (∀ v, v ∈ vertices (delVerticesFixed g vs) ↔ v ∈ vertices g ∧ v ∉ vs) ∧
    ∀ x y, Edge (delVerticesFixed g vs) x y ↔ Edge g x y ∧ x ∉ vs ∧ y ∉ vs := by
  unfold delVerticesFixed
  simp only
  split
  · rename_i h
    rw [sortNat_eq_nil] at h
    subst h
    simp
    exact hg
  · have hs := sorted_sortNat vs
    have hv : ∀ v, v ∈ vertices (delVerticesAuxFixed g (sortNat vs) (sortNat vs)) ↔ v ∈ vertices g ∧ v ∉ vs := by
      intro v
      rw [vertices_delVerticesAuxFixed, mem_ordSubtract hg.keys hs]; simp
    have he : ∀ x y, Edge (delVerticesAuxFixed g (sortNat vs) (sortNat vs)) x y ↔ Edge g x y ∧ x ∉ vs ∧ y ∉ vs := by
      intro x y
      simp only [Edge, mem_delVerticesAuxFixed hg.keys hs]
      constructor
      · rintro ⟨ns, ⟨e, h1, h2, rfl⟩, h3⟩
        rw [mem_ordSubtract (hg.nbrs _ h1) hs] at h3
        simp at h2 h3
        exact ⟨⟨e, h1, h3.1⟩, h2, h3.2⟩
      · rintro ⟨⟨e, h1, h3⟩, h2, h4⟩
        refine ⟨_, ⟨e, h1, by simpa using h2, rfl⟩, ?_⟩
        rw [mem_ordSubtract (hg.nbrs _ h1) hs]
        simp [h3, h4]
    refine ⟨wf_iff.2 ⟨?_, ?_, ?_⟩, hv, he⟩
    · rw [vertices_delVerticesAuxFixed]; exact sorted_ordSubtract hg.keys
    · rintro ⟨x, ns⟩ hp
      rw [mem_delVerticesAuxFixed hg.keys hs] at hp
      obtain ⟨e, h1, _, rfl⟩ := hp
      exact sorted_ordSubtract (hg.nbrs _ h1)
    · intro x y e
      rw [he] at e
      rw [hv]; exact ⟨hg.dst e.1, e.2.2⟩

theorem delVertices_eq_fixed {g : Graph} (hg : Sorted (vertices g)) {vs : List Nat}
    (hsub : ∀ v ∈ vs, v ∈ vertices g) : delVertices g vs = delVerticesFixed g vs := by
  unfold delVertices delVerticesFixed
  simp only
  split
  · rfl
  · exact delVerticesAux_eq_fixed hg (sorted_sortNat vs) (by simpa using hsub)

/-! ## ugraph_union / add_edges -/

theorem vertices_ugraphUnion (g1 g2 : Graph) :
    vertices (ugraphUnion g1 g2) = ordUnion (vertices g1) (vertices g2) := by
  fun_induction ugraphUnion g1 g2 <;> simp_all [ordUnion]

theorem edge_ugraphUnion {g1 g2 : Graph} {x y : Nat} :
    Edge (ugraphUnion g1 g2) x y ↔ Edge g1 x y ∨ Edge g2 x y := by
  fun_induction ugraphUnion g1 g2 <;> simp_all [mem_ordUnion]
  all_goals grind

theorem nbrs_ugraphUnion {g1 g2 : Graph} (h1 : ∀ p ∈ g1, Sorted p.2) (h2 : ∀ p ∈ g2, Sorted p.2) :
    ∀ p ∈ ugraphUnion g1 g2, Sorted p.2 := by
  fun_induction ugraphUnion g1 g2 <;> simp_all
  case case3 => exact ⟨sorted_ordUnion h1.1 h2.1, by assumption⟩
  all_goals assumption

theorem ugraphUnion_spec {g1 g2 : Graph} (h1 : WF g1) (h2 : WF g2) :
    WF (ugraphUnion g1 g2) ∧ (∀ v, v ∈ vertices (ugraphUnion g1 g2) ↔ v ∈ vertices g1 ∨ v ∈ vertices g2) ∧
    ∀ x y, Edge (ugraphUnion g1 g2) x y ↔ Edge g1 x y ∨ Edge g2 x y := by
  have hv : ∀ v, v ∈ vertices (ugraphUnion g1 g2) ↔ v ∈ vertices g1 ∨ v ∈ vertices g2 := by
    intro v; rw [vertices_ugraphUnion, mem_ordUnion]
  refine ⟨wf_iff.2 ⟨?_, nbrs_ugraphUnion h1.nbrs h2.nbrs, ?_⟩, hv, fun x y => edge_ugraphUnion⟩
  · rw [vertices_ugraphUnion]; exact sorted_ordUnion h1.keys h2.keys
  · intro x y e
    rw [hv]
    rcases edge_ugraphUnion.1 e with e | e
    · exact Or.inl (h1.dst e)
    · exact Or.inr (h2.dst e)

/-! ## graph_subtract / del_edges -/

theorem vertices_graphSubtract (g1 g2 : Graph) : vertices (graphSubtract g1 g2) = vertices g1 := by
  fun_induction graphSubtract g1 g2 <;> simp_all

theorem nbrs_graphSubtract {g1 g2 : Graph} (h1 : ∀ p ∈ g1, Sorted p.2) :
    ∀ p ∈ graphSubtract g1 g2, Sorted p.2 := by
  fun_induction graphSubtract g1 g2 <;> simp_all
  case case3 => exact ⟨sorted_ordSubtract h1.1, by assumption⟩
  all_goals assumption

theorem edge_graphSubtract {g1 g2 : Graph} (k1 : Sorted (vertices g1)) (k2 : Sorted (vertices g2))
    (n1 : ∀ p ∈ g1, Sorted p.2) (n2 : ∀ p ∈ g2, Sorted p.2) {x y : Nat} :
    Edge (graphSubtract g1 g2) x y ↔ Edge g1 x y ∧ ¬ Edge g2 x y := by
  fun_induction graphSubtract g1 g2
  · simp
  · simp
  · rename_i e1 t1 h1 e2 t2 ih
    simp [sorted_cons] at k1 k2
    have ih := ih k1.2 k2.2 (fun p hp => n1 p (by simp [hp])) (fun p hp => n2 p (by simp [hp]))
    simp [ih, mem_ordSubtract (n1 (h1, e1) (by simp)) (n2 (h1, e2) (by simp))]
    have a1 : ∀ z, Edge t1 h1 z → False := fun z e => by have := k1.1 _ e.src; omega
    have a2 : ∀ z, Edge t2 h1 z → False := fun z e => by have := k2.1 _ e.src; omega
    grind
  · rename_i h1 e1 t1 h2 e2 t2 hne hlt ih
    simp [sorted_cons] at k1 k2
    have ih := ih k1.2 (by simp [sorted_cons]; exact k2) (fun p hp => n1 p (by simp [hp])) n2
    simp [ih]
    have a2 : ∀ z, Edge t2 h1 z → False := fun z e => by have := k2.1 _ e.src; omega
    grind
  · rename_i h1 e1 t1 h2 e2 t2 hne hlt ih
    simp [sorted_cons] at k1 k2
    have ih := ih (by simp [sorted_cons]; exact k1) k2.2 n1 (fun p hp => n2 p (by simp [hp]))
    simp [ih]
    have a1 : ∀ z, Edge t1 h2 z → False := fun z e => by have := k1.1 _ e.src; omega
    grind

theorem addVerticesFixed_spec {g : Graph} (hg : WF g) (vs : List Nat) :
    WF (addVerticesFixed g vs) ∧ (∀ v, v ∈ vertices (addVerticesFixed g vs) ↔ v ∈ vertices g ∨ v ∈ vs) ∧
    ∀ x y, Edge (addVerticesFixed g vs) x y ↔ Edge g x y := by
  simpa [addVerticesFixed] using addVerticesToSGraph_spec (sorted_sortNat vs) hg

theorem addVertices_eq_fixed (g : Graph) {vs : List Nat} (h : vs.Nodup) :
    addVertices g vs = addVerticesFixed g vs := by
  simp [addVertices, addVerticesFixed, msortNat_eq_sortNat h]

theorem addEdges_spec {g : Graph} (hg : WF g) (es : List (Nat × Nat)) :
    WF (addEdges g es) ∧
    (∀ v, v ∈ vertices (addEdges g es) ↔ v ∈ vertices g ∨ ∃ e ∈ es, v = e.1 ∨ v = e.2) ∧
    ∀ x y, Edge (addEdges g es) x y ↔ Edge g x y ∨ (x, y) ∈ es := by
  have h2 := vetu_spec [] es
  have h := ugraphUnion_spec hg h2.2
  refine ⟨h.1, ?_, ?_⟩
  · intro v; rw [addEdges, pToSGraph_eq, h.2.1, vetu_vertices]; simp
  · intro x y; rw [addEdges, pToSGraph_eq, h.2.2, h2.1]

theorem delEdges_spec {g : Graph} (hg : WF g) (es : List (Nat × Nat)) :
    WF (delEdges g es) ∧ vertices (delEdges g es) = vertices g ∧
    ∀ x y, Edge (delEdges g es) x y ↔ Edge g x y ∧ (x, y) ∉ es := by
  have h2 := vetu_spec [] es
  have he : ∀ x y, Edge (delEdges g es) x y ↔ Edge g x y ∧ (x, y) ∉ es := by
    intro x y
    rw [delEdges, pToSGraph_eq, edge_graphSubtract hg.keys h2.2.keys hg.nbrs h2.2.nbrs, h2.1]
  refine ⟨wf_iff.2 ⟨?_, nbrs_graphSubtract hg.nbrs, ?_⟩, vertices_graphSubtract _ _, he⟩
  · rw [delEdges, vertices_graphSubtract]; exact hg.keys
  · intro x y e
    rw [delEdges, vertices_graphSubtract]; exact hg.dst ((he x y).1 e).1

/-! ## complement -/

theorem vertices_complementAux (g : Graph) (vs : List Nat) : vertices (complementAux g vs) = vertices g := by
  fun_induction complementAux g vs <;> simp_all

theorem mem_complementAux {g : Graph} {vs : List Nat} {x : Nat} {ns : List Nat} :
    (x, ns) ∈ complementAux g vs ↔ ∃ e, (x, e) ∈ g ∧ ns = ordSubtract vs (ordAddElement e x) := by
  fun_induction complementAux g vs <;> simp_all
  grind

theorem complement_spec {g : Graph} (hg : WF g) :
    WF (complement g) ∧ vertices (complement g) = vertices g ∧
    ∀ x y, Edge (complement g) x y ↔ x ∈ vertices g ∧ y ∈ vertices g ∧ x ≠ y ∧ ¬ Edge g x y := by
  have hm : ∀ x e, (x, e) ∈ g → ∀ y, y ∈ ordSubtract (vertices g) (ordAddElement e x) ↔
      y ∈ vertices g ∧ y ≠ x ∧ y ∉ e := by
    intro x e h y
    rw [mem_ordSubtract hg.keys (sorted_ordAddElement (hg.nbrs _ h)), mem_ordAddElement]
    simp
  have he : ∀ x y, Edge (complement g) x y ↔ x ∈ vertices g ∧ y ∈ vertices g ∧ x ≠ y ∧ ¬ Edge g x y := by
    intro x y
    simp only [Edge, complement, mem_complementAux]
    constructor
    · rintro ⟨ns, ⟨e, h1, rfl⟩, h3⟩
      rw [hm x e h1] at h3
      refine ⟨mem_vertices_of_mem h1, h3.1, fun h => h3.2.1 h.symm, ?_⟩
      rintro ⟨e', h4, h5⟩
      have := (neighbours_eq_some hg.keys).2 h1
      rw [(neighbours_eq_some hg.keys).2 h4] at this
      simp at this; subst this
      exact h3.2.2 h5
    · rintro ⟨h1, h2, h3, h4⟩
      obtain ⟨e, h1⟩ := mem_vertices.1 h1
      refine ⟨_, ⟨e, h1, rfl⟩, ?_⟩
      rw [hm x e h1]
      exact ⟨h2, fun h => h3 h.symm, fun h => h4 ⟨e, h1, h⟩⟩
  refine ⟨wf_iff.2 ⟨?_, ?_, ?_⟩, vertices_complementAux _ _, he⟩
  · rw [complement, vertices_complementAux]; exact hg.keys
  · rintro ⟨x, ns⟩ hp
    rw [complement, mem_complementAux] at hp
    obtain ⟨e, _, rfl⟩ := hp
    exact sorted_ordSubtract hg.keys
  · intro x y e
    rw [complement, vertices_complementAux]; exact ((he x y).1 e).2.1

/-! ## compose -/

theorem mem_compose1 {ns : List Nat} {g2 : Graph} {acc : List Nat} (hns : Sorted ns) (hk : Sorted (vertices g2))
    {z : Nat} : z ∈ compose1 ns g2 acc ↔ z ∈ acc ∨ ∃ y ∈ ns, Edge g2 y z := by
  fun_induction compose1 ns g2 acc
  · simp
  · simp
  · rename_i v1 vs1 v2 n2 g2 soFar hlt ih
    simp [sorted_cons] at hns hk
    rw [ih hns.2 (by simp [sorted_cons]; exact hk)]
    have a : ∀ z, Edge g2 v1 z → False := fun z e => by have := hk.1 _ e.src; omega
    simp; grind
  · rename_i vs1 v1 n2 g2 soFar _ ih
    simp [sorted_cons] at hns hk
    rw [ih hns.2 hk.2]
    have a : ∀ z, Edge g2 v1 z → False := fun z e => by have := hk.1 _ e.src; omega
    have b : ∀ y ∈ vs1, y ≠ v1 := fun y hy => by have := hns.1 _ hy; omega
    simp [mem_ordUnion]; grind
  · rename_i v1 vs1 v2 n2 g2 soFar hlt hne ih
    simp [sorted_cons] at hns hk
    rw [ih (by simp [sorted_cons]; exact hns) hk.2]
    have b : ∀ y ∈ vs1, y ≠ v2 := fun y hy => by have := hns.1 _ hy; omega
    simp; grind

theorem sorted_compose1 {ns : List Nat} {g2 : Graph} {acc : List Nat} (hacc : Sorted acc)
    (hn : ∀ p ∈ g2, Sorted p.2) : Sorted (compose1 ns g2 acc) := by
  fun_induction compose1 ns g2 acc <;> simp_all
  · rename_i ih; exact ih (sorted_ordUnion hn.1 hacc)

theorem vertices_composeAux (vs : List Nat) (g1 g2 : Graph) : vertices (composeAux vs g1 g2) = vs := by
  fun_induction composeAux vs g1 g2 <;> simp_all


theorem nbrs_composeAux {vs : List Nat} {g1 g2 : Graph} (hn : ∀ p ∈ g2, Sorted p.2) :
    ∀ p ∈ composeAux vs g1 g2, Sorted p.2 := by
  fun_induction composeAux vs g1 g2
  · simp
  · rename_i ih
    intro p hp; simp at hp
    rcases hp with rfl | hp
    · exact sorted_nil
    · exact ih hn p hp
  · rename_i ih
    intro p hp; simp at hp
    rcases hp with rfl | hp
    · exact sorted_compose1 sorted_nil hn
    · exact ih hn p hp
  · rename_i ih
    intro p hp; simp at hp
    rcases hp with rfl | hp
    · exact sorted_nil
    · exact ih hn p hp

theorem edge_composeAux {vs : List Nat} {g1 g2 : Graph} (hvs : Sorted vs) (k1 : Sorted (vertices g1))
    (hsub : ∀ v ∈ vertices g1, v ∈ vs) (n1 : ∀ p ∈ g1, Sorted p.2) (k2 : Sorted (vertices g2)) {x z : Nat} :
    Edge (composeAux vs g1 g2) x z ↔ ∃ y, Edge g1 x y ∧ Edge g2 y z := by
  fun_induction composeAux vs g1 g2
  · rename_i g1 g2
    cases g1 with
    | nil => simp
    | cons p g1 => obtain ⟨v, ns⟩ := p; have := hsub v (by simp); simp at this
  · rename_i v vs g2 ih
    simp [sorted_cons] at hvs
    simp [ih hvs.2 (by simp) (by simp) (by simp) k2]
  · rename_i vs v ns g1 g2 ih
    simp [sorted_cons] at hvs k1
    have hsub' : ∀ w ∈ vertices g1, w ∈ vs := by
      intro w hw
      have h1 := hsub w (by simp [hw])
      have := k1.1 _ hw
      simp at h1; rcases h1 with h1 | h1
      · omega
      · exact h1
    have ih := ih hvs.2 k1.2 hsub' (fun p hp => n1 p (by simp [hp])) k2
    simp [ih, mem_compose1 (n1 (v, ns) (by simp)) k2]
    grind
  · rename_i v vs v' ns g1 g2 hne ih
    simp [sorted_cons] at hvs k1
    have hv' : v' ∈ vs := by
      have h1 := hsub v' (by simp)
      simp at h1; rcases h1 with h1 | h1
      · exact absurd h1.symm hne
      · exact h1
    have hsub' : ∀ w ∈ vertices ((v', ns) :: g1), w ∈ vs := by
      intro w hw
      have h1 := hsub w hw
      simp at hw h1
      have := hvs.1 _ hv'
      rcases hw with rfl | hw
      · exact hv'
      · have := k1.1 _ hw
        rcases h1 with h1 | h1
        · omega
        · exact h1
    have ih := ih hvs.2 (by simp [sorted_cons]; exact k1) hsub' n1 k2
    simp [ih]

theorem compose_spec {g1 g2 : Graph} (h1 : WF g1) (h2 : WF g2) :
    WF (compose g1 g2) ∧ (∀ v, v ∈ vertices (compose g1 g2) ↔ v ∈ vertices g1 ∨ v ∈ vertices g2) ∧
    ∀ x z, Edge (compose g1 g2) x z ↔ ∃ y, Edge g1 x y ∧ Edge g2 y z := by
  have hs := sorted_ordUnion h1.keys h2.keys
  have hv : ∀ v, v ∈ vertices (compose g1 g2) ↔ v ∈ vertices g1 ∨ v ∈ vertices g2 := by
    intro v; rw [compose, vertices_composeAux, mem_ordUnion]
  have he : ∀ x z, Edge (compose g1 g2) x z ↔ ∃ y, Edge g1 x y ∧ Edge g2 y z := by
    intro x z
    exact edge_composeAux hs h1.keys (fun v hv => mem_ordUnion.2 (Or.inl hv)) h1.nbrs h2.keys
  refine ⟨wf_iff.2 ⟨?_, nbrs_composeAux h2.nbrs, ?_⟩, hv, he⟩
  · rw [compose, vertices_composeAux]; exact hs
  · intro x z e
    obtain ⟨y, _, e2⟩ := (he x z).1 e
    rw [hv]; exact Or.inr (h2.dst e2)

end Scryer.UGraph
