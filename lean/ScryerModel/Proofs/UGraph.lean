import ScryerModel.Model.UGraph
namespace Scryer.UGraph
end Scryer.UGraph
