import ScryerModel.Model.OpTable
/-! Helper lemmas for the operator table model (C43). -/
namespace Scryer.OpTable

end Scryer.OpTable
