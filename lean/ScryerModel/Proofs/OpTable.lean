import ScryerModel.Model.OpTable
/-! Helper lemmas for the operator table model (C43). -/
namespace Scryer.OpTable

/-! ### the association list -/

theorem hasKey_iff (e : Entry) (n : String) (c : Cls) :
    e.hasKey n c = true ↔ e.name = n ∧ e.spec.cls = c := by
  simp [Entry.hasKey]

theorem get_cons (e : Entry) (r : Table) (n : String) (c : Cls) :
    get (e :: r) n c = if e.name = n ∧ e.spec.cls = c then some e else get r n c := by
  simp only [get, List.find?_cons]
  by_cases h : e.name = n ∧ e.spec.cls = c
  · rw [(hasKey_iff e n c).2 h, if_pos h]
  · have : e.hasKey n c = false := by
      cases hk : e.hasKey n c
      · rfl
      · exact absurd ((hasKey_iff e n c).1 hk) h
    rw [this, if_neg h]

theorem set_cons (e : Entry) (r : Table) (n : String) (p : Nat) (s : Spec) :
    set (e :: r) n p s =
      if e.name = n ∧ e.spec.cls = s.cls then ⟨n, p, s⟩ :: r else e :: set r n p s := by
  simp only [set]
  by_cases h : e.name = n ∧ e.spec.cls = s.cls
  · rw [(hasKey_iff e n s.cls).2 h, if_pos h]; rfl
  · have : e.hasKey n s.cls = false := by
      cases hk : e.hasKey n s.cls
      · rfl
      · exact absurd ((hasKey_iff e n s.cls).1 hk) h
    rw [this, if_neg h]; rfl

@[simp] theorem get_nil (n : String) (c : Cls) : get [] n c = none := rfl

theorem get_some_key {t : Table} {n c e} (h : get t n c = some e) :
    e.name = n ∧ e.spec.cls = c := by
  have := List.find?_some h
  exact (hasKey_iff e n c).1 this

theorem get_some_mem {t : Table} {n c e} (h : get t n c = some e) : e ∈ t :=
  List.mem_of_find?_eq_some h

/-- `insert_into_op_dir` followed by a lookup. -/
theorem get_set (t : Table) (n : String) (p : Nat) (s : Spec) (m : String) (c : Cls) :
    get (set t n p s) m c = if m = n ∧ c = s.cls then some ⟨n, p, s⟩ else get t m c := by
  induction t with
  | nil =>
    simp only [set, get_cons, get_nil]
    by_cases h : m = n ∧ c = s.cls
    · obtain ⟨rfl, rfl⟩ := h; simp
    · rw [if_neg h, if_neg]; intro h'; exact h ⟨h'.1.symm, h'.2.symm⟩
  | cons e r ih =>
    rw [set_cons]
    by_cases hk : e.name = n ∧ e.spec.cls = s.cls
    · rw [if_pos hk, get_cons, get_cons]
      by_cases h : m = n ∧ c = s.cls
      · obtain ⟨rfl, rfl⟩ := h; simp
      · rw [if_neg h, if_neg (fun h' => h ⟨h'.1.symm, h'.2.symm⟩), if_neg]
        intro h'; exact h ⟨h'.1.symm.trans hk.1, h'.2.symm.trans hk.2⟩
    · rw [if_neg hk, get_cons, ih, get_cons]
      by_cases h : m = n ∧ c = s.cls
      · obtain ⟨rfl, rfl⟩ := h; simp [hk]
      · simp [h]

theorem lookup_def (t : Table) (n : String) (c : Cls) :
    lookup t n c = (get t n c).bind fun e => if e.prio = 0 then none else some (e.prio, e.spec) := by
  unfold lookup; cases get t n c <;> rfl

theorem prio_def (t : Table) (n : String) (c : Cls) :
    prio t n c = ((get t n c).map (·.prio)).getD 0 := by
  unfold prio; cases get t n c <;> rfl

/-- the visible table after `insert_into_op_dir`. -/
theorem lookup_set (t : Table) (n : String) (p : Nat) (s : Spec) (m : String) (c : Cls) :
    lookup (set t n p s) m c =
      if m = n ∧ c = s.cls then (if p = 0 then none else some (p, s)) else lookup t m c := by
  rw [lookup_def, get_set]
  by_cases h : m = n ∧ c = s.cls
  · simp [h]
  · simp only [h, if_false]; rw [← lookup_def]

theorem prio_set (t : Table) (n : String) (p : Nat) (s : Spec) (m : String) (c : Cls) :
    prio (set t n p s) m c = if m = n ∧ c = s.cls then p else prio t m c := by
  rw [prio_def, get_set]
  by_cases h : m = n ∧ c = s.cls
  · simp [h]
  · simp only [h, if_false]; rw [← prio_def]

theorem lookup_none_iff (t : Table) (n : String) (c : Cls) :
    lookup t n c = none ↔ prio t n c = 0 := by
  unfold lookup prio
  cases get t n c with
  | none => simp
  | some e => by_cases h : e.prio = 0 <;> simp [h]

theorem lookup_some_prio {t : Table} {n c p s} (h : lookup t n c = some (p, s)) :
    prio t n c = p ∧ p ≠ 0 := by
  unfold lookup at h; unfold prio
  cases hg : get t n c with
  | none => simp [hg] at h
  | some e =>
    simp only [hg] at h ⊢
    by_cases h0 : e.prio = 0
    · simp [h0] at h
    · simp only [h0, if_false, Option.some.injEq, Prod.mk.injEq] at h
      exact ⟨h.1, h.1 ▸ h0⟩

/-! ### unique keys, `current_op/3` -/

theorem wf_set {t : Table} (h : wf t) (n : String) (p : Nat) (s : Spec) : wf (set t n p s) := by
  induction t with
  | nil => exact ⟨rfl, trivial⟩
  | cons e r ih =>
    rw [set_cons]
    by_cases hk : e.name = n ∧ e.spec.cls = s.cls
    · rw [if_pos hk]
      refine ⟨?_, h.2⟩
      have := h.1
      rw [hk.1, hk.2] at this
      exact this
    · rw [if_neg hk]
      refine ⟨?_, ih h.2⟩
      rw [get_set, if_neg hk]
      exact h.1

theorem wf_get_of_mem {t : Table} (h : wf t) {e : Entry} (he : e ∈ t) :
    get t e.name e.spec.cls = some e := by
  induction t with
  | nil => cases he
  | cons x r ih =>
    rw [get_cons]
    rcases List.mem_cons.1 he with rfl | hr
    · simp
    · have := ih h.2 hr
      by_cases hk : x.name = e.name ∧ x.spec.cls = e.spec.cls
      · have h1 := h.1
        rw [hk.1, hk.2, this] at h1
        cases h1
      · rw [if_neg hk]; exact this

theorem visible_some {e : Entry} {x : Nat × Spec × String} :
    visible e = some x ↔ e.prio ≠ 0 ∧ x = (e.prio, e.spec, e.name) := by
  unfold visible
  by_cases h : e.prio = 0
  · simp [h]
  · simp [h, eq_comm]

theorem mem_currentOp {t : Table} {x : Nat × Spec × String} :
    x ∈ currentOp t ↔ ∃ e ∈ t, visible e = some x := by
  simp only [currentOp, List.mem_filterMap]

/-- with unique keys, `current_op/3` enumerates exactly the visible table. -/
theorem mem_currentOp_iff_lookup {t : Table} (h : wf t) (p : Nat) (s : Spec) (n : String) :
    (p, s, n) ∈ currentOp t ↔ lookup t n s.cls = some (p, s) := by
  rw [mem_currentOp]
  constructor
  · rintro ⟨e, he, hv⟩
    obtain ⟨h0, hx⟩ := visible_some.1 hv
    simp only [Prod.mk.injEq] at hx
    obtain ⟨rfl, rfl, rfl⟩ := hx
    rw [lookup_def, wf_get_of_mem h he]
    simp [h0]
  · intro hl
    rw [lookup_def] at hl
    cases hg : get t n s.cls with
    | none => simp [hg] at hl
    | some e =>
      simp only [hg, Option.bind_some] at hl
      have hk := get_some_key hg
      by_cases h0 : e.prio = 0
      · simp [h0] at hl
      · simp only [h0, if_false, Option.some.injEq, Prod.mk.injEq] at hl
        refine ⟨e, get_some_mem hg, visible_some.2 ⟨h0, ?_⟩⟩
        rw [hl.1, hl.2, hk.1]

/-! ### the update of an accepted call -/

theorem setAll_cons (t : Table) (p : Nat) (s : Spec) (n : String) (ns : List String) :
    setAll t p s (n :: ns) = setAll (set t n p s) p s ns := rfl

@[simp] theorem setAll_nil (t : Table) (p : Nat) (s : Spec) : setAll t p s [] = t := rfl

theorem wf_setAll {t : Table} (h : wf t) (p : Nat) (s : Spec) (ns : List String) :
    wf (setAll t p s ns) := by
  induction ns generalizing t with
  | nil => exact h
  | cons n r ih => rw [setAll_cons]; exact ih (wf_set h n p s)

theorem lookup_setAll (t : Table) (p : Nat) (s : Spec) (ns : List String) (m : String) (c : Cls) :
    lookup (setAll t p s ns) m c =
      if m ∈ ns ∧ c = s.cls then (if p = 0 then none else some (p, s)) else lookup t m c := by
  induction ns generalizing t with
  | nil => simp
  | cons n r ih =>
    rw [setAll_cons, ih, lookup_set]
    by_cases h1 : m ∈ r ∧ c = s.cls
    · have : m ∈ n :: r ∧ c = s.cls := ⟨List.mem_cons_of_mem _ h1.1, h1.2⟩
      rw [if_pos h1, if_pos this]
    · rw [if_neg h1]
      by_cases h2 : m = n ∧ c = s.cls
      · have : m ∈ n :: r ∧ c = s.cls := ⟨h2.1 ▸ List.mem_cons_self, h2.2⟩
        rw [if_pos h2, if_pos this]
      · have : ¬(m ∈ n :: r ∧ c = s.cls) := by
          rintro ⟨hm, hc⟩
          rcases List.mem_cons.1 hm with rfl | hm
          · exact h2 ⟨rfl, hc⟩
          · exact h1 ⟨hm, hc⟩
        rw [if_neg h2, if_neg this]

theorem prio_setAll_other (t : Table) (p : Nat) (s : Spec) (ns : List String) (m : String) (c : Cls)
    (hc : c ≠ s.cls) : prio (setAll t p s ns) m c = prio t m c := by
  induction ns generalizing t with
  | nil => rfl
  | cons n r ih => rw [setAll_cons, ih, prio_set, if_neg (fun h => hc h.2)]

/-! ### argument checks -/

theorem checkPriority_ok {a : Arg} {p : Nat} (h : checkPriority a = .ok p) :
    ∃ i : Int, a = .int i ∧ 0 ≤ i ∧ i ≤ 1200 ∧ p = i.toNat := by
  cases a with
  | int i =>
    simp only [checkPriority] at h
    by_cases hi : i < 0 ∨ 1200 < i
    · simp [hi] at h
    · simp only [hi, if_false, Except.ok.injEq] at h
      exact ⟨i, rfl, by omega, by omega, h.symm⟩
  | var => simp [checkPriority] at h
  | atom x => simp [checkPriority] at h
  | other x => simp [checkPriority] at h

theorem checkPriority_le {a : Arg} {p : Nat} (h : checkPriority a = .ok p) : p ≤ 1200 := by
  obtain ⟨i, -, h0, h1, rfl⟩ := checkPriority_ok h
  omega

theorem checkPriority_error {a : Arg} {e : Err} (h : checkPriority a = .error e) :
    (∃ i : Int, a = .int i ∧ (i < 0 ∨ 1200 < i) ∧ e = .domPriority i) ∨
    ((∀ i, a ≠ .int i) ∧ e = .typeInteger a) := by
  cases a with
  | int i =>
    simp only [checkPriority] at h
    by_cases hi : i < 0 ∨ 1200 < i
    · simp only [hi, if_true, Except.error.injEq] at h
      exact .inl ⟨i, rfl, hi, h.symm⟩
    · simp [hi] at h
  | var => right; simp only [checkPriority, Except.error.injEq] at h; exact ⟨by simp, h.symm⟩
  | atom x => right; simp only [checkPriority, Except.error.injEq] at h; exact ⟨by simp, h.symm⟩
  | other x => right; simp only [checkPriority, Except.error.injEq] at h; exact ⟨by simp, h.symm⟩

theorem checkSpec_ok {a : Arg} {s : Spec} (h : checkSpec a = .ok s) :
    ∃ x, a = .atom x ∧ Spec.ofAtom? x = some s := by
  cases a with
  | atom x =>
    simp only [checkSpec] at h
    cases hx : Spec.ofAtom? x with
    | none => simp [hx] at h
    | some s' => simp only [hx, Except.ok.injEq] at h; exact ⟨x, rfl, by rw [hx, h]⟩
  | var => simp [checkSpec] at h
  | int i => simp [checkSpec] at h
  | other x => simp [checkSpec] at h

theorem checkSpec_error {a : Arg} {e : Err} (h : checkSpec a = .error e) :
    (∃ x, a = .atom x ∧ Spec.ofAtom? x = none ∧ e = .domSpecifier x) ∨
    ((∀ x, a ≠ .atom x) ∧ e = .typeAtom a) := by
  cases a with
  | atom x =>
    simp only [checkSpec] at h
    cases hx : Spec.ofAtom? x with
    | none => simp only [hx, Except.error.injEq] at h; exact .inl ⟨x, rfl, hx, h.symm⟩
    | some s' => simp [hx] at h
  | var => right; simp only [checkSpec, Except.error.injEq] at h; exact ⟨by simp, h.symm⟩
  | int i => right; simp only [checkSpec, Except.error.injEq] at h; exact ⟨by simp, h.symm⟩
  | other x => right; simp only [checkSpec, Except.error.injEq] at h; exact ⟨by simp, h.symm⟩

theorem validOp_none {a : String} : validOp a = none ↔ a ≠ "," ∧ a ≠ "{}" ∧ a ≠ "[]" := by
  unfold validOp
  by_cases h1 : a = ","
  · simp [h1]
  · by_cases h2 : a = "{}"
    · simp [h2]
    · by_cases h3 : a = "[]"
      · simp [h3]
      · simp [h1, h2, h3]

theorem validOp_some {a : String} {e : Err} (h : validOp a = some e) :
    (a = "," ∧ e = .permModify ",") ∨ (a = "{}" ∧ e = .permCreate "{}") ∨
    (a = "[]" ∧ e = .permCreate "[]") := by
  unfold validOp at h
  split at h
  · next h1 => exact .inl ⟨h1, (Option.some.inj h).symm⟩
  · split at h
    · next h2 => exact .inr (.inl ⟨h2, (Option.some.inj h).symm⟩)
    · split at h
      · next h3 => exact .inr (.inr ⟨h3, (Option.some.inj h).symm⟩)
      · cases h

theorem listCheck_some {es : List Arg} {tl : Arg} {ns : List String}
    (h : listCheck es tl = .ok (some ns)) :
    tl = .atom "[]" ∧ es = ns.map .atom ∧ ∀ n ∈ ns, validOp n = none := by
  induction es generalizing ns with
  | nil =>
    cases tl with
    | atom a =>
      simp only [listCheck] at h
      by_cases ha : a = "[]"
      · simp only [ha, if_true, Except.ok.injEq, Option.some.injEq] at h
        subst h; subst ha; simp
      · simp [ha] at h
    | var => simp [listCheck] at h
    | int i => simp [listCheck] at h
    | other x => simp [listCheck] at h
  | cons x r ih =>
    cases x with
    | atom a =>
      simp only [listCheck] at h
      cases hv : validOp a with
      | some e => simp [hv] at h
      | none =>
        simp only [hv] at h
        cases hr : listCheck r tl with
        | error e => simp [hr] at h
        | ok o =>
          cases o with
          | none => simp [hr] at h
          | some ns' =>
            simp only [hr, Except.ok.injEq, Option.some.injEq] at h
            obtain ⟨h1, h2, h3⟩ := ih hr
            subst h
            refine ⟨h1, by simp [h2], ?_⟩
            intro n hn
            rcases List.mem_cons.1 hn with rfl | hn
            · exact hv
            · exact h3 n hn
    | var => simp [listCheck] at h
    | int i => simp [listCheck] at h
    | other y => simp [listCheck] at h

theorem listCheck_none {es : List Arg} {tl : Arg} (h : listCheck es tl = .ok none) :
    tl ≠ .var ∧ tl ≠ .atom "[]" := by
  induction es with
  | nil =>
    cases tl with
    | atom a =>
      simp only [listCheck] at h
      by_cases ha : a = "[]"
      · simp [ha] at h
      · exact ⟨by simp, by simpa using ha⟩
    | var => simp [listCheck] at h
    | int i => exact ⟨by simp, by simp⟩
    | other x => exact ⟨by simp, by simp⟩
  | cons x r ih =>
    cases x with
    | atom a =>
      simp only [listCheck] at h
      cases hv : validOp a with
      | some e => simp [hv] at h
      | none =>
        simp only [hv] at h
        cases hr : listCheck r tl with
        | error e => simp [hr] at h
        | ok o =>
          cases o with
          | none => exact ih hr
          | some ns' => simp [hr] at h
    | var => simp [listCheck] at h
    | int i => simp [listCheck] at h
    | other y => simp [listCheck] at h

theorem listCheck_error {es : List Arg} {tl : Arg} {e : Err} (h : listCheck es tl = .error e) :
    (e = .inst ∧ (Arg.var ∈ es ∨ tl = .var)) ∨
    (∃ x ∈ es, x ≠ .var ∧ (∀ a, x ≠ .atom a) ∧ e = .typeAtom x) ∨
    (∃ a, Arg.atom a ∈ es ∧ validOp a = some e) := by
  induction es with
  | nil =>
    cases tl with
    | atom a =>
      simp only [listCheck] at h
      by_cases ha : a = "[]" <;> simp [ha] at h
    | var => simp only [listCheck, Except.error.injEq] at h; exact .inl ⟨h.symm, .inr rfl⟩
    | int i => simp [listCheck] at h
    | other x => simp [listCheck] at h
  | cons x r ih =>
    cases x with
    | atom a =>
      simp only [listCheck] at h
      cases hv : validOp a with
      | some e' =>
        simp only [hv, Except.error.injEq] at h
        exact .inr (.inr ⟨a, List.mem_cons_self, h ▸ hv⟩)
      | none =>
        simp only [hv] at h
        cases hr : listCheck r tl with
        | error e' =>
          simp only [hr, Except.error.injEq] at h
          subst h
          rcases ih hr with ⟨h1, h2⟩ | ⟨y, hy, h2⟩ | ⟨b, hb, h2⟩
          · exact .inl ⟨h1, h2.imp (List.mem_cons_of_mem _) id⟩
          · exact .inr (.inl ⟨y, List.mem_cons_of_mem _ hy, h2⟩)
          · exact .inr (.inr ⟨b, List.mem_cons_of_mem _ hb, h2⟩)
        | ok o =>
          cases o with
          | none => simp [hr] at h
          | some ns' => simp [hr] at h
    | var =>
      simp only [listCheck, Except.error.injEq] at h
      exact .inl ⟨h.symm, .inl List.mem_cons_self⟩
    | int i =>
      simp only [listCheck, Except.error.injEq] at h
      exact .inr (.inl ⟨.int i, List.mem_cons_self, by simp, by simp, h.symm⟩)
    | other y =>
      simp only [listCheck, Except.error.injEq] at h
      exact .inr (.inl ⟨.other y, List.mem_cons_self, by simp, by simp, h.symm⟩)

/-! ### `'$op'/3` and the list traversal -/

theorem declare_ok {t : Table} {p : Nat} {s : Spec} {n : String} {t' : Table}
    (h : declare t p s n = .ok t') : t' = set t n p s ∧ (p ≠ 0 → conflict t s n = false) := by
  unfold declare at h
  by_cases h0 : p = 0
  · simp only [h0, if_true, Except.ok.injEq] at h
    exact ⟨by rw [h0, h], fun hp => absurd h0 hp⟩
  · simp only [h0, if_false] at h
    cases hc : conflict t s n with
    | true => simp [hc] at h
    | false =>
      simp only [hc, Bool.false_eq_true, if_false, Except.ok.injEq] at h
      exact ⟨h.symm, fun _ => rfl⟩

theorem declare_error {t : Table} {p : Nat} {s : Spec} {n : String} {e : Err}
    (h : declare t p s n = .error e) : p ≠ 0 ∧ conflict t s n = true ∧ e = .permCreate n := by
  unfold declare at h
  by_cases h0 : p = 0
  · simp [h0] at h
  · simp only [h0, if_false] at h
    cases hc : conflict t s n with
    | true =>
      simp only [hc, if_true, Except.error.injEq] at h
      exact ⟨h0, rfl, h.symm⟩
    | false => simp [hc] at h

theorem declare_of_noClash {t : Table} {p : Nat} {s : Spec} {n : String}
    (h : p ≠ 0 → conflict t s n = false) : declare t p s n = .ok (set t n p s) := by
  unfold declare
  by_cases h0 : p = 0
  · simp [h0]
  · simp [h0, h h0]

/-- an update in class `s.cls` does not change the outcome of the infix/postfix test for `s`. -/
theorem conflict_set (t : Table) (n : String) (p : Nat) (s : Spec) (m : String) :
    conflict (set t n p s) s m = conflict t s m := by
  unfold conflict
  rw [prio_set, prio_set]
  cases s <;> simp [Spec.cls]

theorem applyList_ok (t : Table) (p : Nat) (s : Spec) (ns : List String)
    (h : p ≠ 0 → ∀ n ∈ ns, conflict t s n = false) :
    applyList t p s ns = (setAll t p s ns, none) := by
  induction ns generalizing t with
  | nil => rfl
  | cons n r ih =>
    have hn : declare t p s n = .ok (set t n p s) :=
      declare_of_noClash fun hp => h hp n List.mem_cons_self
    simp only [applyList, hn, setAll_cons]
    apply ih
    intro hp m hm
    rw [conflict_set]
    exact h hp m (List.mem_cons_of_mem _ hm)

theorem find_conflict_none {t : Table} {s : Spec} {ns : List String}
    (h : ns.find? (conflict t s) = none) : ∀ n ∈ ns, conflict t s n = false := by
  intro n hn
  have := List.find?_eq_none.1 h n hn
  simpa using this

/-! ### case analysis of the ISO step -/

/-- what a successful `op/3` call has established. -/
structure Accepted (t : Table) (c : Call) (p : Nat) (s : Spec) (ns : List String) : Prop where
  prio : checkPriority c.prio = .ok p
  spec : checkSpec c.spec = .ok s
  names : opNames c.op = some ns
  valid : ∀ n ∈ ns, validOp n = none
  bar : "|" ∈ ns → barOk p s = true
  noClash : p ≠ 0 → ∀ n ∈ ns, conflict t s n = false

/-- the error exits of `finish`/`finishBar`, as ISO conditions on the names being declared. -/
inductive FinishErr (t : Table) (P S : Arg) (ns : List String) : Err → Prop
  | prio (e) : checkPriority P = .error e → FinishErr t P S ns e
  | spec (p e) : checkPriority P = .ok p → checkSpec S = .error e → FinishErr t P S ns e
  | bar (p s) : checkPriority P = .ok p → checkSpec S = .ok s → "|" ∈ ns → barOk p s = false →
      FinishErr t P S ns (.permCreate "|")
  | clash (p s n) : checkPriority P = .ok p → checkSpec S = .ok s → p ≠ 0 → n ∈ ns →
      conflict t s n = true → FinishErr t P S ns (.permCreate n)

/-- outcome of the common tail: either an ISO error with the table untouched, or all updates. -/
def FinishSpec (t : Table) (P S : Arg) (bar : Bool) (ns : List String) (r : Table × Option Err) :
    Prop :=
  (∃ e, r = (t, some e) ∧ FinishErr t P S ns e) ∨
  (∃ p s, checkPriority P = .ok p ∧ checkSpec S = .ok s ∧ (bar = true → "|" ∈ ns → barOk p s = true) ∧
    (p ≠ 0 → ∀ n ∈ ns, conflict t s n = false) ∧ r = (setAll t p s ns, none))

theorem finish_list (t : Table) (P S : Arg) (ns : List String) :
    FinishSpec t P S true ns (finish ⟨true, true⟩ t P S true ns) := by
  unfold finish
  cases hp : checkPriority P with
  | error e => exact .inl ⟨e, rfl, .prio e hp⟩
  | ok p =>
    cases hs : checkSpec S with
    | error e => exact .inl ⟨e, rfl, .spec p e hp hs⟩
    | ok s =>
      simp only [Bool.true_and]
      by_cases hb : (ns.contains "|" && !barOk p s) = true
      · rw [if_pos hb]
        simp only [Bool.and_eq_true, List.contains_iff_mem, Bool.not_eq_true'] at hb
        exact .inl ⟨_, rfl, .bar p s hp hs hb.1 hb.2⟩
      · rw [if_neg hb]
        have hb' : "|" ∈ ns → barOk p s = true := by
          intro hm
          cases hk : barOk p s with
          | true => rfl
          | false =>
            exact absurd (by simp [hm, hk]) hb
        by_cases h0 : p = 0
        · have : decide (p ≠ 0) = false := by simp [h0]
          rw [this]
          simp only [Bool.false_eq_true, if_false]
          have hnc : p ≠ 0 → ∀ n ∈ ns, conflict t s n = false := fun h => absurd h0 h
          exact .inr ⟨p, s, hp, hs, fun _ => hb', hnc, applyList_ok t p s ns hnc⟩
        · have : decide (p ≠ 0) = true := by simp [h0]
          rw [this]
          simp only [if_true]
          cases hf : ns.find? (conflict t s) with
          | some n =>
            have h1 := List.find?_some hf
            have h2 := List.mem_of_find?_eq_some hf
            exact .inl ⟨_, rfl, .clash p s n hp hs h0 h2 h1⟩
          | none =>
            have hnc : p ≠ 0 → ∀ n ∈ ns, conflict t s n = false := fun _ => find_conflict_none hf
            exact .inr ⟨p, s, hp, hs, fun _ => hb', hnc, applyList_ok t p s ns hnc⟩

theorem finish_one (fx : Fixes) (t : Table) (P S : Arg) (a : String) :
    FinishSpec t P S false [a] (finish fx t P S false [a]) := by
  unfold finish
  cases hp : checkPriority P with
  | error e => exact .inl ⟨e, rfl, .prio e hp⟩
  | ok p =>
    cases hs : checkSpec S with
    | error e => exact .inl ⟨e, rfl, .spec p e hp hs⟩
    | ok s =>
      simp only [Bool.and_false, Bool.false_and, Bool.false_eq_true, if_false, applyList]
      cases hd : declare t p s a with
      | ok t' =>
        obtain ⟨h1, h2⟩ := declare_ok hd
        refine .inr ⟨p, s, hp, hs, fun h => Bool.noConfusion h, ?_, ?_⟩
        · intro h0 n hn
          rw [List.mem_singleton.1 hn]; exact h2 h0
        · subst h1; rfl
      | error e =>
        obtain ⟨h0, h1, rfl⟩ := declare_error hd
        exact .inl ⟨_, rfl, .clash p s a hp hs h0 List.mem_cons_self h1⟩

theorem finishBar_spec (t : Table) (P S : Arg) :
    FinishSpec t P S true ["|"] (finishBar t P S) := by
  unfold finishBar
  cases hp : checkPriority P with
  | error e => exact .inl ⟨e, rfl, .prio e hp⟩
  | ok p =>
    cases hs : checkSpec S with
    | error e => exact .inl ⟨e, rfl, .spec p e hp hs⟩
    | ok s =>
      cases hb : barOk p s with
      | false =>
        simp only [hb, Bool.false_eq_true, if_false]
        exact .inl ⟨_, rfl, .bar p s hp hs List.mem_cons_self hb⟩
      | true =>
        simp only [hb, if_true, applyList]
        cases hd : declare t p s "|" with
        | ok t' =>
          obtain ⟨h1, h2⟩ := declare_ok hd
          refine .inr ⟨p, s, hp, hs, fun _ _ => hb, ?_, ?_⟩
          · intro h0 n hn
            rw [List.mem_singleton.1 hn]; exact h2 h0
          · subst h1; rfl
        | error e =>
          obtain ⟨h0, h1, rfl⟩ := declare_error hd
          exact .inl ⟨_, rfl, .clash p s "|" hp hs h0 List.mem_cons_self h1⟩

theorem atomsOf_map (ns : List String) : atomsOf (ns.map .atom) = some ns := by
  induction ns with
  | nil => rfl
  | cons n r ih => simp [atomsOf, ih]

theorem atomsOf_some {es : List Arg} {ns : List String} (h : atomsOf es = some ns) :
    es = ns.map .atom := by
  induction es generalizing ns with
  | nil => simp only [atomsOf, Option.some.injEq] at h; subst h; rfl
  | cons x r ih =>
    cases x with
    | atom a =>
      simp only [atomsOf, Option.map_eq_some_iff] at h
      obtain ⟨ns', h1, rfl⟩ := h
      simp [ih h1]
    | var => simp [atomsOf] at h
    | int i => simp [atomsOf] at h
    | other y => simp [atomsOf] at h

theorem finishErr_iso {t : Table} {c : Call} {ns : List String} {e : Err}
    (hP : c.prio ≠ .var) (hS : c.spec ≠ .var) (hel : ∀ n ∈ ns, Arg.atom n ∈ c.op.elems)
    (h : FinishErr t c.prio c.spec ns e) : IsoErr t c e := by
  cases h with
  | prio e hp =>
    rcases checkPriority_error hp with ⟨i, h1, h2, rfl⟩ | ⟨h1, rfl⟩
    · exact .domPrio i h1 h2
    · exact .typePrio hP h1
  | spec p e hp hs =>
    rcases checkSpec_error hs with ⟨x, h1, h2, rfl⟩ | ⟨h1, rfl⟩
    · exact .domSpec x h1 h2
    · exact .typeSpec hS h1
  | bar p s hp hs hm hb => exact .bar p s (hel _ hm) hp hs hb
  | clash p s n hp hs h0 hm hc => exact .clash n p s (hel _ hm) hp h0 hs hc

/-- the two possible outcomes of a call under the ISO step. -/
def StepSpec (t : Table) (c : Call) (r : Table × Option Err) : Prop :=
  (∃ e, r = (t, some e) ∧ IsoErr t c e) ∨
  (∃ p s ns, Accepted t c p s ns ∧ r = (setAll t p s ns, none))

theorem finishSpec_step {t : Table} {c : Call} {ns : List String} {b : Bool} {r : Table × Option Err}
    (hP : c.prio ≠ .var) (hS : c.spec ≠ .var) (hn : opNames c.op = some ns)
    (hel : ∀ n ∈ ns, Arg.atom n ∈ c.op.elems) (hv : ∀ n ∈ ns, validOp n = none)
    (hb : b = false → "|" ∉ ns) (h : FinishSpec t c.prio c.spec b ns r) : StepSpec t c r := by
  rcases h with ⟨e, rfl, he⟩ | ⟨p, s, hp, hs, hbar, hnc, rfl⟩
  · exact .inl ⟨e, rfl, finishErr_iso hP hS hel he⟩
  · refine .inr ⟨p, s, ns, ⟨hp, hs, hn, hv, ?_, hnc⟩, rfl⟩
    intro hm
    cases b with
    | true => exact hbar rfl hm
    | false => exact absurd hm (hb rfl)

/-- all-or-nothing variant: every call either is rejected with an error whose ISO condition holds,
    leaving the table as it was, or is accepted and performs exactly the updates of its names. -/
theorem opStepAtomic_spec (t : Table) (c : Call) : StepSpec t c (opStepAtomic t c) := by
  obtain ⟨P, S, O⟩ := c
  unfold opStepAtomic opStepImpl
  by_cases hP : P = .var
  · subst hP; exact .inl ⟨_, rfl, .instPrio rfl⟩
  by_cases hS : S = .var
  · subst hS; simp only [hP, if_false, if_true]; exact .inl ⟨_, rfl, .instSpec rfl⟩
  simp only [hP, hS, if_false]
  cases O with
  | one a =>
    cases a with
    | var => exact .inl ⟨_, rfl, .instOp (by simp [OpArg.elems])⟩
    | int i => exact .inl ⟨_, rfl, .typeList1 (.int i) rfl (by simp) (by simp)⟩
    | other x => exact .inl ⟨_, rfl, .typeList1 (.other x) rfl (by simp) (by simp)⟩
    | atom a =>
      simp only
      by_cases hbar : a = "|"
      · subst hbar
        simp only [if_true]
        refine finishSpec_step (c := ⟨P, S, .one (.atom "|")⟩) hP hS rfl ?_ ?_ (by simp)
          (finishBar_spec t P S)
        · intro n hn; rw [List.mem_singleton.1 hn]; simp [OpArg.elems]
        · intro n hn; rw [List.mem_singleton.1 hn]; decide
      · simp only [hbar, if_false]
        cases hv : validOp a with
        | some e =>
          simp only
          rcases validOp_some hv with ⟨rfl, rfl⟩ | ⟨rfl, rfl⟩ | ⟨rfl, rfl⟩
          · exact .inl ⟨_, rfl, .comma (by simp [OpArg.elems])⟩
          · exact .inl ⟨_, rfl, .curly (by simp [OpArg.elems])⟩
          · exact .inl ⟨_, rfl, .nil (by simp [OpArg.elems])⟩
        | none =>
          simp only
          refine finishSpec_step (c := ⟨P, S, .one (.atom a)⟩) hP hS rfl ?_ ?_ ?_
            (finish_one _ t P S a)
          · intro n hn; rw [List.mem_singleton.1 hn]; simp [OpArg.elems]
          · intro n hn; rw [List.mem_singleton.1 hn]; exact hv
          · intro _ hm; exact hbar (List.mem_singleton.1 hm).symm
  | cons hd tl tail =>
    simp only
    cases hl : listCheck (hd :: tl) tail with
    | error e =>
      simp only
      rcases listCheck_error hl with ⟨rfl, h1 | h1⟩ | ⟨x, hx, h1, h2, rfl⟩ | ⟨a, ha, hv⟩
      · exact .inl ⟨_, rfl, .instOp (by simpa [OpArg.elems] using h1)⟩
      · subst h1; exact .inl ⟨_, rfl, .instTail hd tl rfl⟩
      · exact .inl ⟨_, rfl, .typeElem hd tl tail x rfl hx h1 h2⟩
      · rcases validOp_some hv with ⟨rfl, rfl⟩ | ⟨rfl, rfl⟩ | ⟨rfl, rfl⟩
        · exact .inl ⟨_, rfl, .comma (by simpa [OpArg.elems] using ha)⟩
        · exact .inl ⟨_, rfl, .curly (by simpa [OpArg.elems] using ha)⟩
        · exact .inl ⟨_, rfl, .nil (by simpa [OpArg.elems] using ha)⟩
    | ok o =>
      cases o with
      | none =>
        simp only
        obtain ⟨h1, h2⟩ := listCheck_none hl
        exact .inl ⟨_, rfl, .typeList2 hd tl tail rfl h1 h2⟩
      | some ns =>
        simp only
        obtain ⟨h1, h2, h3⟩ := listCheck_some hl
        refine finishSpec_step (c := ⟨P, S, .cons hd tl tail⟩) hP hS ?_ ?_ h3 (by simp)
          (finish_list t P S ns)
        · simp only [opNames, h1, if_true, h2, atomsOf_map]
        · intro n hn
          simp only [OpArg.elems, h2]
          exact List.mem_map.2 ⟨n, hn, rfl⟩

/-! ### an accepted call meets no ISO error condition -/

theorem opNames_shape {o : OpArg} {ns : List String} (h : opNames o = some ns) :
    o.elems = ns.map .atom ∧ (∀ hd tl tail, o = .cons hd tl tail → tail = .atom "[]") ∧
    (∀ x, o = .one x → ∃ a, x = .atom a) := by
  cases o with
  | one a =>
    cases a with
    | atom a =>
      simp only [opNames, Option.some.injEq] at h
      subst h
      exact ⟨rfl, fun _ _ _ h => OpArg.noConfusion h, fun x hx => ⟨a, by cases hx; rfl⟩⟩
    | var => simp [opNames] at h
    | int i => simp [opNames] at h
    | other y => simp [opNames] at h
  | cons hd tl tail =>
    simp only [opNames] at h
    by_cases ht : tail = .atom "[]"
    · simp only [ht, if_true] at h
      refine ⟨atomsOf_some h, ?_, fun x hx => OpArg.noConfusion hx⟩
      intro hd' tl' tail' heq
      cases heq; exact ht
    · simp [ht] at h

theorem accepted_no_isoErr {t : Table} {c : Call} {p : Nat} {s : Spec} {ns : List String}
    (ha : Accepted t c p s ns) (e : Err) : ¬ IsoErr t c e := by
  obtain ⟨i, hpi, hi0, hi1, hpe⟩ := checkPriority_ok ha.prio
  obtain ⟨x, hsx, hxs⟩ := checkSpec_ok ha.spec
  obtain ⟨hel, htail, hone⟩ := opNames_shape ha.names
  have hatom : ∀ y, y ∈ c.op.elems → ∃ n, n ∈ ns ∧ y = .atom n := by
    intro y hy
    rw [hel] at hy
    obtain ⟨n, hn, rfl⟩ := List.mem_map.1 hy
    exact ⟨n, hn, rfl⟩
  have hname : ∀ n, Arg.atom n ∈ c.op.elems → n ∈ ns := by
    intro n hn
    obtain ⟨m, hm, heq⟩ := hatom _ hn
    cases heq; exact hm
  intro h
  cases h with
  | instPrio h => rw [hpi] at h; cases h
  | instSpec h => rw [hsx] at h; cases h
  | instOp h => obtain ⟨n, _, heq⟩ := hatom _ h; cases heq
  | instTail hd tl h => have := htail _ _ _ h; cases this
  | typePrio _ h => exact h i hpi
  | typeSpec _ h => exact h x hsx
  | typeList1 y h1 _ h3 => obtain ⟨a, rfl⟩ := hone y h1; exact h3 a rfl
  | typeList2 hd tl tail h1 _ h3 => exact h3 (htail _ _ _ h1)
  | typeElem hd tl tail y h1 h2 _ h4 =>
    have : y ∈ c.op.elems := by rw [h1]; exact h2
    obtain ⟨n, _, rfl⟩ := hatom _ this
    exact h4 n rfl
  | domPrio j h1 h2 =>
    rw [hpi] at h1; cases h1; omega
  | domSpec a h1 h2 =>
    rw [hsx] at h1; cases h1; rw [hxs] at h2; cases h2
  | comma h => have := ha.valid _ (hname _ h); revert this; decide
  | nil h => have := ha.valid _ (hname _ h); revert this; decide
  | curly h => have := ha.valid _ (hname _ h); revert this; decide
  | bar p' s' h1 h2 h3 h4 =>
    rw [ha.prio] at h2; rw [ha.spec] at h3
    cases h2; cases h3
    rw [ha.bar (hname _ h1)] at h4; cases h4
  | clash n p' s' h1 h2 h3 h4 h5 =>
    rw [ha.prio] at h2; rw [ha.spec] at h4
    cases h2; cases h4
    rw [ha.noClash h3 n (hname _ h1)] at h5; cases h5

/-! ### invariants -/

theorem protected_setAll {t : Table} {p : Nat} {s : Spec} {ns : List String}
    (hv : ∀ n ∈ ns, validOp n = none) {n : String} (hn : validOp n ≠ none) (cl : Cls) :
    lookup (setAll t p s ns) n cl = lookup t n cl := by
  rw [lookup_setAll, if_neg]
  rintro ⟨hm, _⟩
  exact hn (hv n hm)

theorem accepted_protected {t : Table} {c : Call} {p : Nat} {s : Spec} {ns : List String}
    (ha : Accepted t c p s ns) {n : String} (hn : validOp n ≠ none) (cl : Cls) :
    lookup (setAll t p s ns) n cl = lookup t n cl :=
  protected_setAll ha.valid hn cl

/-- the updates of a list of admissible, non-clashing names preserve the invariants. -/
theorem inv_setAll {t : Table} {p : Nat} {s : Spec} {ns : List String} (hle : p ≤ 1200)
    (hvalid : ∀ n ∈ ns, validOp n = none) (hbar : "|" ∈ ns → barOk p s = true)
    (hnoClash : p ≠ 0 → ∀ n ∈ ns, conflict t s n = false) (hi : Inv t) :
    Inv (setAll t p s ns) := by
  refine ⟨wf_setAll hi.wf p s ns, ?_, ?_, ?_, ?_⟩
  · -- no infix + postfix
    intro n
    rw [lookup_setAll, lookup_setAll]
    by_cases h0 : p = 0
    · rcases hi.noInfPost n with h | h
      · left; split <;> simp [h]
      · right; split <;> simp [h]
    · by_cases hn : n ∈ ns
      · have hc := hnoClash h0 n hn
        unfold conflict at hc
        cases hcls : s.cls with
        | inf =>
          right
          rw [if_neg (by simp)]
          rw [lookup_none_iff]
          simpa [hcls] using hc
        | post =>
          left
          rw [if_neg (by simp)]
          rw [lookup_none_iff]
          simpa [hcls] using hc
        | pre =>
          rw [if_neg (by simp), if_neg (by simp)]
          exact hi.noInfPost n
      · rw [if_neg (fun h => hn h.1), if_neg (fun h => hn h.1)]
        exact hi.noInfPost n
  · -- range
    intro n cl p' s' h
    rw [lookup_setAll] at h
    by_cases hc : n ∈ ns ∧ cl = s.cls
    · rw [if_pos hc] at h
      by_cases h0 : p = 0
      · simp [h0] at h
      · simp only [h0, if_false, Option.some.injEq, Prod.mk.injEq] at h
        obtain ⟨rfl, rfl⟩ := h
        exact ⟨by omega, hle, hc.2.symm⟩
    · rw [if_neg hc] at h
      exact hi.range n cl p' s' h
  · -- [] and {}
    intro cl
    rw [protected_setAll hvalid (by decide), protected_setAll hvalid (by decide)]
    exact hi.nilCurly cl
  · -- '|'
    have hb : "|" ∈ ns → s.cls = .inf ∧ (1001 ≤ p ∨ p = 0) := by
      intro hm
      have := hbar hm
      simpa [barOk] using this
    refine ⟨?_, ?_, ?_⟩
    · rw [lookup_setAll, if_neg]
      · exact hi.bar.1
      · rintro ⟨hm, hc⟩; rw [(hb hm).1] at hc; cases hc
    · rw [lookup_setAll, if_neg]
      · exact hi.bar.2.1
      · rintro ⟨hm, hc⟩; rw [(hb hm).1] at hc; cases hc
    · intro p' s' h
      rw [lookup_setAll] at h
      by_cases hc : "|" ∈ ns ∧ Cls.inf = s.cls
      · rw [if_pos hc] at h
        by_cases h0 : p = 0
        · simp [h0] at h
        · simp only [h0, if_false, Option.some.injEq, Prod.mk.injEq] at h
          obtain ⟨rfl, rfl⟩ := h
          rcases (hb hc.1).2 with h1 | h1
          · exact h1
          · exact absurd h1 h0
      · rw [if_neg hc] at h
        exact hi.bar.2.2 p' s' h

theorem accepted_inv {t : Table} {c : Call} {p : Nat} {s : Spec} {ns : List String}
    (ha : Accepted t c p s ns) (hi : Inv t) : Inv (setAll t p s ns) :=
  inv_setAll (checkPriority_le ha.prio) ha.valid ha.bar ha.noClash hi

/-! ### `current_op/3` in every instantiation mode -/

theorem mem_currentOpQ {t : Table} (h : wf t) (q : Pat) (x : Nat × Spec × String) :
    x ∈ currentOpQ true t q ↔ x ∈ currentOp t ∧ q.matches x = true := by
  obtain ⟨qp, qs, qn⟩ := q
  simp only [currentOpQ, List.mem_filter]
  refine and_congr_left fun hm => ?_
  rw [mem_currentOp]
  cases qp with
  | none =>
    cases qn with
    | some n =>
      simp only [List.mem_filterMap, List.mem_cons, List.not_mem_nil, or_false, id]
      constructor
      · rintro ⟨e, ⟨o, ho, rfl⟩, hv⟩
        rcases ho with ho | ho | ho
        all_goals exact ⟨e, get_some_mem ho.symm, hv⟩
      · rintro ⟨e, he, hv⟩
        obtain ⟨h0, rfl⟩ := visible_some.1 hv
        have hname : n = e.name := by
          simp only [Pat.matches, Bool.and_eq_true, decide_eq_true_eq] at hm
          exact hm.2
        have hg := wf_get_of_mem h he
        refine ⟨e, ⟨some e, ?_, rfl⟩, hv⟩
        subst hname
        cases hc : e.spec.cls with
        | inf => left; rw [← hc]; exact hg.symm
        | pre => right; left; rw [← hc]; exact hg.symm
        | post => right; right; rw [← hc]; exact hg.symm
    | none =>
      simp only [List.mem_filterMap, List.mem_filter]
      constructor
      · rintro ⟨e, ⟨he, _⟩, hv⟩; exact ⟨e, he, hv⟩
      · rintro ⟨e, he, hv⟩
        refine ⟨e, ⟨he, ?_⟩, hv⟩
        obtain ⟨h0, rfl⟩ := visible_some.1 hv
        cases qs with
        | none => rfl
        | some s' =>
          have : s' = e.spec := by simpa [Pat.matches] using hm
          simp [this]
  | some p' =>
    cases qs with
    | none => simp only [if_true, List.mem_filterMap]
    | some s' =>
      cases qn with
      | none => simp only [if_true, List.mem_filterMap]
      | some n =>
        simp only
        constructor
        · intro hx
          cases hg : get t n s'.cls with
          | none => simp [hg] at hx
          | some e =>
            simp only [hg, Option.mem_toList] at hx
            exact ⟨e, get_some_mem hg, hx⟩
        · rintro ⟨e, he, hv⟩
          obtain ⟨h0, rfl⟩ := visible_some.1 hv
          have hmm : s' = e.spec ∧ n = e.name := by
            have : (p' = e.prio ∧ s' = e.spec) ∧ n = e.name := by simpa [Pat.matches] using hm
            exact ⟨this.1.2, this.2⟩
          have hg := wf_get_of_mem h he
          rw [hmm.1, hmm.2, hg]
          simpa using hv

/-! ### the list form as the code runs it (no look-ahead for clashes) -/

theorem find_conflict_split {t : Table} {s : Spec} {pre : List String} {n : String}
    {post : List String} (hpre : ∀ m ∈ pre, conflict t s m = false) (hn : conflict t s n = true) :
    (pre ++ n :: post).find? (conflict t s) = some n := by
  induction pre with
  | nil => simp [hn]
  | cons a r ih =>
    have ha := hpre a List.mem_cons_self
    simp only [List.cons_append, List.find?_cons, ha]
    exact ih fun m hm => hpre m (List.mem_cons_of_mem _ hm)

/-- `maplist(op_(P,S), Names)` with a non-zero priority: all updates, or the updates of the
    elements in front of the first clashing one together with that element's permission error. -/
theorem applyList_split (t : Table) (p : Nat) (s : Spec) (ns : List String) (h0 : p ≠ 0) :
    ((∀ n ∈ ns, conflict t s n = false) ∧ applyList t p s ns = (setAll t p s ns, none)) ∨
    (∃ pre n post, ns = pre ++ n :: post ∧ (∀ m ∈ pre, conflict t s m = false) ∧
      conflict t s n = true ∧ applyList t p s ns = (setAll t p s pre, some (.permCreate n))) := by
  induction ns generalizing t with
  | nil => exact .inl ⟨by simp, rfl⟩
  | cons a r ih =>
    cases hc : conflict t s a with
    | true =>
      right
      refine ⟨[], a, r, rfl, by simp, hc, ?_⟩
      simp [applyList, declare, h0, hc]
    | false =>
      have hd : declare t p s a = .ok (set t a p s) := declare_of_noClash fun _ => hc
      rcases ih (set t a p s) with ⟨h1, h2⟩ | ⟨pre, n, post, h1, h2, h3, h4⟩
      · left
        refine ⟨?_, ?_⟩
        · intro n hn
          rcases List.mem_cons.1 hn with rfl | hn
          · exact hc
          · rw [← conflict_set t a p s n]; exact h1 n hn
        · simp only [applyList, hd, setAll_cons]; exact h2
      · right
        refine ⟨a :: pre, n, post, by rw [h1]; rfl, ?_, ?_, ?_⟩
        · intro m hm
          rcases List.mem_cons.1 hm with rfl | hm
          · exact hc
          · rw [← conflict_set t a p s m]; exact h2 m hm
        · rw [← conflict_set t a p s n]; exact h3
        · simp only [applyList, hd, setAll_cons]; exact h4

/-- outcome `r` of the list form without look-ahead against outcome `ra` of the all-or-nothing
    variant, when they differ. -/
def PartialUpdate (t : Table) (P S : Arg) (ns : List String) (r ra : Table × Option Err) : Prop :=
  ∃ p s pre n post, checkPriority P = .ok p ∧ checkSpec S = .ok s ∧ p ≠ 0 ∧
    ("|" ∈ ns → barOk p s = true) ∧ ns = pre ++ n :: post ∧
    (∀ m ∈ pre, conflict t s m = false) ∧ conflict t s n = true ∧
    ra = (t, some (.permCreate n)) ∧ r = (setAll t p s pre, some (.permCreate n))

theorem finish_list_lax (t : Table) (P S : Arg) (ns : List String) :
    finish ⟨true, false⟩ t P S true ns = finish ⟨true, true⟩ t P S true ns ∨
    PartialUpdate t P S ns (finish ⟨true, false⟩ t P S true ns)
      (finish ⟨true, true⟩ t P S true ns) := by
  unfold PartialUpdate finish
  cases hp : checkPriority P with
  | error e => exact .inl rfl
  | ok p =>
    cases hs : checkSpec S with
    | error e => exact .inl rfl
    | ok s =>
      simp only [Bool.true_and, Bool.false_and, Bool.false_eq_true, if_false]
      cases hb : (ns.contains "|" && !barOk p s) with
      | true => left; simp only [if_true]
      | false =>
        simp only [Bool.false_eq_true, if_false]
        have hb' : "|" ∈ ns → barOk p s = true := by
          intro hm
          cases hk : barOk p s with
          | true => rfl
          | false => simp [hm, hk] at hb
        by_cases h0 : p = 0
        · left; simp [h0]
        · have hdec : decide (p ≠ 0) = true := by simp [h0]
          rw [hdec]
          simp only [if_true]
          rcases applyList_split t p s ns h0 with ⟨h1, h2⟩ | ⟨pre, n, post, h1, h2, h3, h4⟩
          · left
            have hf : ns.find? (conflict t s) = none := by
              rw [List.find?_eq_none]
              intro n hn
              simp [h1 n hn]
            rw [hf]
          · right
            have hf : ns.find? (conflict t s) = some n := by
              rw [h1]; exact find_conflict_split h2 h3
            rw [hf]
            exact ⟨p, s, pre, n, post, rfl, rfl, h0, hb', h1, h2, h3, rfl, h4⟩

theorem opStepImpl_list {fx : Fixes} {t : Table} {c : Call} {hd : Arg} {tl : List Arg} {tail : Arg}
    {ns : List String} (hP : c.prio ≠ .var) (hS : c.spec ≠ .var) (ho : c.op = .cons hd tl tail)
    (hl : listCheck (hd :: tl) tail = .ok (some ns)) :
    opStepImpl fx t c = finish fx t c.prio c.spec true ns := by
  unfold opStepImpl
  simp only [hP, hS, if_false, ho, hl]

theorem finish_nonlist (fx fx' : Fixes) (t : Table) (P S : Arg) (ns : List String) :
    finish fx t P S false ns = finish fx' t P S false ns := by
  unfold finish
  cases checkPriority P with
  | error e => rfl
  | ok p =>
    cases checkSpec S with
    | error e => rfl
    | ok s => simp

/-- two variants of `op/3` can differ only on a list that passes `list_of_op_atoms`. -/
theorem opStepImpl_eq_or_list (fx fx' : Fixes) (t : Table) (c : Call) :
    opStepImpl fx t c = opStepImpl fx' t c ∨
    ∃ hd tl tail ns, c.prio ≠ .var ∧ c.spec ≠ .var ∧ c.op = .cons hd tl tail ∧
      listCheck (hd :: tl) tail = .ok (some ns) := by
  obtain ⟨P, S, O⟩ := c
  by_cases hP : P = .var
  · left; unfold opStepImpl; simp [hP]
  by_cases hS : S = .var
  · left; unfold opStepImpl; simp [hS]
  cases O with
  | one a =>
    left
    unfold opStepImpl
    simp only [hP, hS, if_false]
    cases a with
    | var => rfl
    | int i => rfl
    | other x => rfl
    | atom a =>
      simp only
      by_cases hbar : a = "|"
      · simp [hbar]
      · simp only [hbar, if_false]
        cases validOp a with
        | some e => rfl
        | none => exact finish_nonlist _ _ t P S [a]
  | cons hd' tl tail =>
    cases hl : listCheck (hd' :: tl) tail with
    | error e => left; unfold opStepImpl; simp only [hP, hS, if_false, hl]
    | ok o =>
      cases o with
      | none => left; unfold opStepImpl; simp only [hP, hS, if_false, hl]
      | some ns => exact .inr ⟨hd', tl, tail, ns, hP, hS, rfl, hl⟩

/-- ISO 8.14.3.1: "in the event of an error being detected in an Operator list argument, it is
    undefined which, if any, of the atoms in the list is made an operator". What the code does in
    that event: the call is `op(p, s, [pre…, n, post…])` with admissible names, priority not 0,
    `n` the first element that clashes (infix against postfix), the error is
    `permission_error(create, operator, n)` and exactly the elements in front of `n` have been
    made operators (`t'` is the resulting table). -/
def PrefixMade (t : Table) (c : Call) (e : Err) (t' : Table) : Prop :=
  ∃ hd tl p s pre n post, c.op = .cons hd tl (.atom "[]") ∧
    hd :: tl = (pre ++ n :: post).map .atom ∧ (∀ m ∈ pre ++ n :: post, validOp m = none) ∧
    checkPriority c.prio = .ok p ∧ p ≠ 0 ∧ checkSpec c.spec = .ok s ∧
    ("|" ∈ pre ++ n :: post → barOk p s = true) ∧
    (∀ m ∈ pre, conflict t s m = false) ∧ conflict t s n = true ∧
    e = .permCreate n ∧ t' = setAll t p s pre

/-- the step of the code (with C43-1 repaired) against the all-or-nothing variant: identical, or
    the ISO-undefined event, in which both raise the same error. -/
theorem opStep_lax (t : Table) (c : Call) :
    opStep t c = opStepAtomic t c ∨
    ∃ e, (opStep t c).2 = some e ∧ opStepAtomic t c = (t, some e) ∧
      PrefixMade t c e (opStep t c).1 := by
  rcases opStepImpl_eq_or_list ⟨true, false⟩ ⟨true, true⟩ t c with h | ⟨hd, tl, tail, ns, hP, hS, ho, hl⟩
  · exact .inl h
  · have h1 : opStep t c = finish ⟨true, false⟩ t c.prio c.spec true ns := opStepImpl_list hP hS ho hl
    have h2 : opStepAtomic t c = finish ⟨true, true⟩ t c.prio c.spec true ns :=
      opStepImpl_list hP hS ho hl
    rcases finish_list_lax t c.prio c.spec ns with h | ⟨p, s, pre, n, post, hp, hs, h0, hb, hns, hpre, hn, hra, hr⟩
    · left; rw [h1, h2, h]
    · right
      obtain ⟨ht, hes, hv⟩ := listCheck_some hl
      refine ⟨.permCreate n, by rw [h1, hr], by rw [h2, hra], ?_⟩
      refine ⟨hd, tl, p, s, pre, n, post, by rw [ho, ht], by rw [hes, hns], ?_, hp, h0, hs, ?_, hpre, hn,
        rfl, by rw [h1, hr]⟩
      · intro m hm; exact hv m (hns ▸ hm)
      · intro hm; exact hb (hns ▸ hm)

/-- outcome of a call under the ISO step `opStep`: rejected with an ISO error and the table
    untouched, accepted with exactly the updates of its names, or the ISO-undefined event. -/
def StepSpecLax (t : Table) (c : Call) (r : Table × Option Err) : Prop :=
  StepSpec t c r ∨ ∃ e, r.2 = some e ∧ IsoErr t c e ∧ PrefixMade t c e r.1

theorem opStep_spec (t : Table) (c : Call) : StepSpecLax t c (opStep t c) := by
  rcases opStep_lax t c with h | ⟨e, he, ha, hpm⟩
  · left; rw [h]; exact opStepAtomic_spec t c
  · right
    refine ⟨e, he, ?_, hpm⟩
    rcases opStepAtomic_spec t c with ⟨e', hr, hi⟩ | ⟨p, s, ns, _, hr⟩
    · rw [ha] at hr
      cases hr
      exact hi
    · rw [ha] at hr
      have h2 := congrArg Prod.snd hr
      simp at h2

theorem prefixMade_inv {t : Table} {c : Call} {e : Err} {t' : Table} (h : PrefixMade t c e t')
    (hi : Inv t) : Inv t' := by
  obtain ⟨hd, tl, p, s, pre, n, post, -, -, hv, hp, -, -, hb, hpre, -, -, rfl⟩ := h
  exact inv_setAll (checkPriority_le hp) (fun m hm => hv m (List.mem_append_left _ hm))
    (fun hm => hb (List.mem_append_left _ hm)) (fun _ => hpre) hi

theorem prefixMade_protected {t : Table} {c : Call} {e : Err} {t' : Table} (h : PrefixMade t c e t')
    {n : String} (hn : validOp n ≠ none) (cl : Cls) : lookup t' n cl = lookup t n cl := by
  obtain ⟨hd, tl, p, s, pre, n', post, -, -, hv, -, -, -, -, -, -, -, rfl⟩ := h
  exact protected_setAll (fun m hm => hv m (List.mem_append_left _ hm)) hn cl

/-! ### the code as written versus the ISO step -/

/-- the inputs on which `op/3` as written leaves the ISO step: a list whose elements pass
    `list_of_op_atoms`, valid priority and specifier, and `'|'` among the elements with a
    priority/specifier the `'|'` rule forbids. -/
def Deviates (c : Call) : Prop :=
  ∃ hd tl tail ns p s, c.op = .cons hd tl tail ∧ listCheck (hd :: tl) tail = .ok (some ns) ∧
    checkPriority c.prio = .ok p ∧ checkSpec c.spec = .ok s ∧ "|" ∈ ns ∧ barOk p s = false

theorem finish_list_asIs {t : Table} {P S : Arg} {ns : List String}
    (h : ∀ p s, checkPriority P = .ok p → checkSpec S = .ok s → "|" ∈ ns → barOk p s = true) :
    finish asIs t P S true ns = finish ⟨true, false⟩ t P S true ns := by
  unfold finish asIs
  cases hp : checkPriority P with
  | error e => rfl
  | ok p =>
    cases hs : checkSpec S with
    | error e => rfl
    | ok s =>
      have h1 := h p s hp hs
      have hb : (ns.contains "|" && !barOk p s) = false := by
        cases hc : ns.contains "|" with
        | false => rfl
        | true => simp [h1 (List.contains_iff_mem.1 hc)]
      simp only [Bool.false_and, Bool.false_eq_true, if_false, Bool.true_and, hb]

theorem impl_eq_iso_or_deviates (t : Table) (c : Call) :
    opStepImpl asIs t c = opStep t c ∨ Deviates c := by
  rcases opStepImpl_eq_or_list asIs ⟨true, false⟩ t c with h | ⟨hd, tl, tail, ns, hP, hS, ho, hl⟩
  · exact .inl h
  · by_cases hd' : Deviates c
    · exact .inr hd'
    left
    have h1 : opStepImpl asIs t c = finish asIs t c.prio c.spec true ns := opStepImpl_list hP hS ho hl
    have h2 : opStep t c = finish ⟨true, false⟩ t c.prio c.spec true ns := opStepImpl_list hP hS ho hl
    rw [h1, h2]
    apply finish_list_asIs
    intro p s hp hs hm
    cases hb : barOk p s with
    | true => rfl
    | false => exact absurd ⟨hd, tl, tail, ns, p, s, ho, hl, hp, hs, hm, hb⟩ hd'

/-! ### the default table -/

theorem get_none_of_cls {t : Table} {c : Cls} (h : ∀ e ∈ t, e.spec.cls ≠ c) (n : String) :
    get t n c = none := by
  cases hg : get t n c with
  | none => rfl
  | some e => exact absurd (get_some_key hg).2 (h e (get_some_mem hg))

theorem get_none_of_name {t : Table} {n : String} (h : ∀ e ∈ t, e.name ≠ n) (c : Cls) :
    get t n c = none := by
  cases hg : get t n c with
  | none => rfl
  | some e => exact absurd (get_some_key hg).1 (h e (get_some_mem hg))

theorem lookup_none_of_get {t : Table} {n : String} {c : Cls} (h : get t n c = none) :
    lookup t n c = none := by
  rw [lookup_def, h]; rfl

def wfDec : (t : Table) → Decidable (wf t)
  | [] => isTrue trivial
  | e :: r =>
    match wfDec r with
    | isTrue h =>
      if hg : get r e.name e.spec.cls = none then isTrue ⟨hg, h⟩ else isFalse fun h' => hg h'.1
    | isFalse h => isFalse fun h' => h h'.2

instance (t : Table) : Decidable (wf t) := wfDec t

theorem default_wf : wf defaultTable := by decide

theorem default_inv : Inv defaultTable := by
  have hpost : ∀ e ∈ defaultTable, e.spec.cls ≠ .post := by decide
  have hrange : ∀ e ∈ defaultTable, 1 ≤ e.prio ∧ e.prio ≤ 1200 := by decide
  have hnil : ∀ e ∈ defaultTable, e.name ≠ "[]" := by decide
  have hcurly : ∀ e ∈ defaultTable, e.name ≠ "{}" := by decide
  have hbar : ∀ e ∈ defaultTable, e.name ≠ "|" := by decide
  refine ⟨default_wf, ?_, ?_, ?_, ?_⟩
  · intro n; right; exact lookup_none_of_get (get_none_of_cls hpost n)
  · intro n c p s h
    rw [lookup_def] at h
    cases hg : get defaultTable n c with
    | none => simp [hg] at h
    | some e =>
      simp only [hg, Option.bind_some] at h
      by_cases h0 : e.prio = 0
      · simp [h0] at h
      · simp only [h0, if_false, Option.some.injEq, Prod.mk.injEq] at h
        obtain ⟨rfl, rfl⟩ := h
        have := hrange e (get_some_mem hg)
        exact ⟨this.1, this.2, (get_some_key hg).2⟩
  · intro c
    exact ⟨lookup_none_of_get (get_none_of_name hnil c), lookup_none_of_get (get_none_of_name hcurly c)⟩
  · refine ⟨lookup_none_of_get (get_none_of_name hbar _), lookup_none_of_get (get_none_of_name hbar _), ?_⟩
    intro p s h
    rw [lookup_none_of_get (get_none_of_name hbar _)] at h
    cases h

end Scryer.OpTable
