import ScryerModel.Proofs.UGraph
import Mathlib.Data.List.Perm.Subperm
/-! Warshall closure and reachability for the `library(ugraphs)` model. -/
set_option linter.unnecessarySeqFocus false
set_option linter.unusedSimpArgs false
namespace Scryer.UGraph
open Relation

/-! ## Warshall's algorithm -/

theorem vertices_warshallStep (e : Graph) (v : Nat) (y : List Nat) :
    vertices (warshallStep e v y) = vertices e := by
  fun_induction warshallStep e v y <;> simp_all

theorem edge_warshallStep {e : Graph} {v : Nat} {y : List Nat} {a b : Nat} :
    Edge (warshallStep e v y) a b ↔ Edge e a b ∨ (Edge e a v ∧ b ∈ y) := by
  fun_induction warshallStep e v y <;> simp_all [mem_ordUnion]
  all_goals grind

theorem nbrs_warshallStep {e : Graph} {v : Nat} {y : List Nat} (hy : Sorted y) (hn : ∀ p ∈ e, Sorted p.2) :
    ∀ p ∈ warshallStep e v y, Sorted p.2 := by
  fun_induction warshallStep e v y
  · simp
  · rename_i x ns g v y hv ih
    intro p hp; simp at hp
    rcases hp with rfl | hp
    · exact sorted_ordUnion (hn (x, ns) (by simp)) hy
    · exact ih hy (fun p hp => hn p (by simp [hp])) p hp
  · rename_i x ns g v y hv ih
    intro p hp; simp at hp
    rcases hp with rfl | hp
    · exact hn (x, ns) (by simp)
    · exact ih hy (fun p hp => hn p (by simp [hp])) p hp

/-- a path of length ≥ 1 in `g` from `a` to `b` whose intermediate vertices all satisfy `S`. -/
inductive PathThrough (g : Graph) (S : Nat → Prop) : Nat → Nat → Prop
  | single {a b} : Edge g a b → PathThrough g S a b
  | cons {a c b} : Edge g a c → S c → PathThrough g S c b → PathThrough g S a b

theorem PathThrough.mono {g : Graph} {S T : Nat → Prop} (h : ∀ x, S x → T x) {a b : Nat}
    (p : PathThrough g S a b) : PathThrough g T a b := by
  induction p with
  | single e => exact .single e
  | cons e s _ ih => exact .cons e (h _ s) ih

/-- the key step of Warshall's correctness proof: a path whose intermediates are in `S ∪ {v}`
    either avoids `v` or splits into two `S`-paths at `v`. -/
theorem PathThrough.split {g : Graph} {S : Nat → Prop} {v a b : Nat}
    (p : PathThrough g (fun x => S x ∨ x = v) a b) :
    PathThrough g S a b ∨ (PathThrough g S a v ∧ PathThrough g S v b) := by
  induction p with
  | single e => exact Or.inl (.single e)
  | cons e s _ ih =>
    rcases s with s | rfl
    · rcases ih with ih | ⟨ih1, ih2⟩
      · exact Or.inl (.cons e s ih)
      · exact Or.inr ⟨.cons e s ih1, ih2⟩
    · rcases ih with ih | ⟨_, ih2⟩
      · exact Or.inr ⟨.single e, ih⟩
      · exact Or.inr ⟨.single e, ih2⟩

theorem PathThrough.transGen {g : Graph} {S : Nat → Prop} {a b : Nat} (p : PathThrough g S a b) :
    TransGen (Edge g) a b := by
  induction p with
  | single e => exact .single e
  | cons e _ _ ih => exact .head e ih

theorem pathThrough_of_transGen {g : Graph} {a b : Nat} (h : TransGen (Edge g) a b) :
    PathThrough g (fun x => x ∈ vertices g) a b := by
  induction h using TransGen.head_induction_on with
  | single e => exact .single e
  | head e h ih =>
    refine .cons e ?_ ih
    cases ih with
    | single e' => exact e'.src
    | cons e' _ _ => exact e'.src

/-- invariants of the Warshall loop. `S` = vertices already processed. -/
structure WInv (g : Graph) (S : Nat → Prop) (e : Graph) : Prop where
  keys : vertices e = vertices g
  nbrs : ∀ p ∈ e, Sorted p.2
  sound : ∀ a b, Edge e a b → TransGen (Edge g) a b
  complete : ∀ a b, PathThrough g S a b → Edge e a b

theorem warshall_spec {g : Graph} (hk : Sorted (vertices g)) :
    ∀ (rest : Graph) (e : Graph) (S : Nat → Prop), WInv g S e → (∀ v ∈ vertices rest, v ∈ vertices g) →
      ∃ c, warshall rest e = some c ∧ WInv g (fun x => S x ∨ x ∈ vertices rest) c := by
  intro rest
  induction rest with
  | nil =>
    intro e S h _
    exact ⟨e, rfl, ⟨h.keys, h.nbrs, h.sound, fun a b p => h.complete a b (p.mono (by simp))⟩⟩
  | cons p rest ih =>
    obtain ⟨v, ns0⟩ := p
    intro e S h hsub
    have hke : Sorted (vertices e) := by rw [h.keys]; exact hk
    obtain ⟨y, hy⟩ := neighbours_isSome (g := e) (v := v) (by rw [h.keys]; exact hsub v (by simp))
    have hymem := neighbours_some_mem hy
    have hy' : ∀ b, b ∈ y ↔ Edge e v b := by
      intro b
      rw [edge_iff_neighbours hke]; simp [hy]
    have step : WInv g (fun x => S x ∨ x = v) (warshallStep e v y) := by
      refine ⟨by rw [vertices_warshallStep, h.keys], nbrs_warshallStep (h.nbrs _ hymem) h.nbrs, ?_, ?_⟩
      · intro a b hab
        rcases edge_warshallStep.1 hab with h1 | ⟨h1, h2⟩
        · exact h.sound a b h1
        · exact (h.sound a v h1).trans (h.sound v b ((hy' b).1 h2))
      · intro a b p
        rw [edge_warshallStep]
        rcases p.split with p | ⟨p1, p2⟩
        · exact Or.inl (h.complete a b p)
        · exact Or.inr ⟨h.complete a v p1, (hy' b).2 (h.complete v b p2)⟩
    obtain ⟨c, hc, hinv⟩ := ih (warshallStep e v y) _ step (fun w hw => hsub w (by simp [hw]))
    refine ⟨c, by simp [warshall, hy, hc], ⟨hinv.keys, hinv.nbrs, hinv.sound, ?_⟩⟩
    intro a b p
    apply hinv.complete
    apply p.mono
    intro x hx
    simp at hx ⊢
    grind

/-- `transitive_closure/2` succeeds and its result is exactly the transitive closure relation. -/
theorem transitiveClosure_spec {g : Graph} (hg : WF g) :
    ∃ c, transitiveClosure g = some c ∧ WF c ∧ vertices c = vertices g ∧
      ∀ a b, Edge c a b ↔ TransGen (Edge g) a b := by
  have h0 : WInv g (fun _ => False) g :=
    ⟨rfl, hg.nbrs, fun a b e => .single e, fun a b p => by
      cases p with
      | single e => exact e
      | cons _ s _ => exact absurd s id⟩
  obtain ⟨c, hc, hinv⟩ := warshall_spec hg.keys g g _ h0 (fun v hv => hv)
  have hE : ∀ a b, Edge c a b ↔ TransGen (Edge g) a b := by
    intro a b
    constructor
    · exact hinv.sound a b
    · intro h
      apply hinv.complete
      exact (pathThrough_of_transGen h).mono (fun x hx => Or.inr hx)
  refine ⟨c, hc, wf_iff.2 ⟨by rw [hinv.keys]; exact hg.keys, hinv.nbrs, ?_⟩, hinv.keys, hE⟩
  intro x y e
  rw [hinv.keys]
  have := (hE x y).1 e
  clear e
  -- the last edge of the path ends in a vertex
  induction this with
  | single e => exact hg.dst e
  | tail _ e _ => exact hg.dst e


/-! ## reachable -/

theorem length_le_of_sorted_subset {rs l : List Nat} (h : Sorted rs) (hsub : ∀ x ∈ rs, x ∈ l) :
    rs.length ≤ l.length :=
  (List.Nodup.subperm h.nodup (fun x hx => hsub x hx)).length_le

theorem reachableLoop_spec {g : Graph} (hg : WF g) {v : Nat} :
    ∀ (fuel : Nat) (q rs : List Nat), Sorted rs → (∀ x ∈ q, x ∈ rs) → v ∈ rs →
      (∀ x ∈ rs, ReflTransGen (Edge g) v x) → (∀ x ∈ rs, x ∈ vertices g) →
      (∀ x ∈ rs, x ∉ q → ∀ y, Edge g x y → y ∈ rs) →
      q.length + (vertices g).length + 1 ≤ rs.length + fuel →
      ∃ out, reachableLoop fuel q g rs = some out ∧ Sorted out ∧ ∀ x, x ∈ out ↔ ReflTransGen (Edge g) v x := by
  intro fuel
  induction fuel with
  | zero =>
    intro q rs hs hq hv hr hV hc hm
    cases q with
    | nil =>
      refine ⟨rs, by simp [reachableLoop], hs, fun x => ⟨hr x, fun h => ?_⟩⟩
      induction h with
      | refl => exact hv
      | tail _ e ih => exact hc _ ih (by simp) _ e
    | cons n ns =>
      have := length_le_of_sorted_subset hs hV
      simp at hm; omega
  | succ fuel ih =>
    intro q rs hs hq hv hr hV hc hm
    cases q with
    | nil =>
      refine ⟨rs, by simp [reachableLoop], hs, fun x => ⟨hr x, fun h => ?_⟩⟩
      induction h with
      | refl => exact hv
      | tail _ e ih => exact hc _ ih (by simp) _ e
    | cons n ns =>
      have hn : n ∈ rs := hq n (by simp)
      obtain ⟨nei, hnei⟩ := neighbours_isSome (hV n hn)
      have hmem := neighbours_some_mem hnei
      have hsn : Sorted nei := hg.nbrs _ hmem
      have hnei' : ∀ y, y ∈ nei ↔ Edge g n y := by
        intro y; rw [edge_iff_neighbours hg.keys]; simp [hnei]
      simp only [reachableLoop, hnei, ordUnionNew_fst, ordUnionNew_snd]
      apply ih
      · exact sorted_ordUnion hs hsn
      · intro x hx
        rw [mem_ordUnion]
        simp at hx
        rcases hx with hx | hx
        · exact Or.inl (hq x (by simp [hx]))
        · exact Or.inr ((mem_ordSubtract hsn hs).1 hx).1
      · exact mem_ordUnion.2 (Or.inl hv)
      · intro x hx
        rcases mem_ordUnion.1 hx with hx | hx
        · exact hr x hx
        · exact (hr n hn).tail ((hnei' x).1 hx)
      · intro x hx
        rcases mem_ordUnion.1 hx with hx | hx
        · exact hV x hx
        · exact hg.dst ((hnei' x).1 hx)
      · intro x hx hxq y e
        rw [mem_ordUnion]
        simp at hxq
        by_cases hxr : x ∈ rs
        · by_cases hxn : x = n
          · subst hxn; exact Or.inr ((hnei' y).2 e)
          · exact Or.inl (hc x hxr (by simp [hxn, hxq.1]) y e)
        · rcases mem_ordUnion.1 hx with hx | hx
          · exact absurd hx hxr
          · exact absurd ((mem_ordSubtract hsn hs).2 ⟨hx, hxr⟩) hxq.2
      · rw [length_ordUnion]
        simp at hm ⊢; omega

/-- `reachable/3` from a vertex of a well-formed graph: the ordered set of vertices related to
    it by the reflexive-transitive closure of the edge relation. -/
theorem reachable_spec {g : Graph} (hg : WF g) {v : Nat} (hv : v ∈ vertices g) :
    ∃ out, reachable v g = some out ∧ Sorted out ∧ ∀ x, x ∈ out ↔ ReflTransGen (Edge g) v x := by
  apply reachableLoop_spec hg
  · simp [Sorted]
  · simp
  · simp
  · intro x hx; simp at hx; subst hx; exact .refl
  · intro x hx; simp at hx; subst hx; exact hv
  · intro x hx hxq; simp at hx hxq; exact absurd hx hxq
  · simp [vertices_eq_map]; omega

theorem reachable_none {g : Graph} {v : Nat} (hv : v ∉ vertices g) : reachable v g = none := by
  simp [reachable, reachableLoop, neighbours_eq_none.2 hv]

end Scryer.UGraph
