import ScryerModel.Model.Codec
/-! Helper lemmas for the codec models (C37). -/
namespace Scryer.Codec

theorem Bytes.nil : Bytes [] := by intro b h; cases h

theorem Bytes.cons_iff {b : Nat} {bs : List Nat} : Bytes (b :: bs) ↔ b < 256 ∧ Bytes bs := by
  simp [Bytes]

/-! ## Hex -/

theorem shr4 (b : Nat) : b >>> 4 = b / 16 := Nat.shiftRight_eq_div_pow b 4
theorem and15 (b : Nat) : b &&& 0xf = b % 16 := Nat.and_two_pow_sub_one_eq_mod b 4

theorem hexVal_hexDigit : ∀ n, n < 16 → hexVal (hexDigit n) = some n := by decide

theorem hexDigit_lower : ∀ n, n < 16 → hexDigit n ∈ lowerHex := by decide

theorem hexVal_lt {c : Char} {v : Nat} (h : hexVal c = some v) : v < 16 := by
  unfold hexVal at h
  simp only at h
  split at h
  · cases h; assumption
  · split at h
    · cases h; assumption
    · cases h

theorem hexEncode_cons (b : Nat) (bs : List Nat) :
    hexEncode (b :: bs) = hexDigit (b / 16) :: hexDigit (b % 16) :: hexEncode bs := by
  simp [hexEncode, shr4, and15]

theorem hex_roundtrip (bs : List Nat) (h : Bytes bs) : hexDecode (hexEncode bs) = some bs := by
  induction bs with
  | nil => rfl
  | cons b bs ih =>
    have ⟨hb, hbs⟩ := Bytes.cons_iff.mp h
    rw [hexEncode_cons]
    simp only [hexDecode, hexVal_hexDigit (b / 16) (by omega), hexVal_hexDigit (b % 16) (by omega), ih hbs]
    congr 2
    omega

theorem hex_length (bs : List Nat) : (hexEncode bs).length = 2 * bs.length := by
  induction bs with
  | nil => rfl
  | cons b bs ih => simp [hexEncode, ih]; omega

theorem hex_lower (bs : List Nat) (h : Bytes bs) : ∀ c ∈ hexEncode bs, c ∈ lowerHex := by
  induction bs with
  | nil => intro c hc; cases hc
  | cons b bs ih =>
    have ⟨hb, hbs⟩ := Bytes.cons_iff.mp h
    intro c hc
    rw [hexEncode_cons] at hc
    simp only [List.mem_cons] at hc
    rcases hc with rfl | rfl | hc
    · exact hexDigit_lower _ (by omega)
    · exact hexDigit_lower _ (by omega)
    · exact ih hbs c hc

theorem hexDecode_sound (hs : List Char) (bs : List Nat) (h : hexDecode hs = some bs) :
    Bytes bs ∧ hs.length = 2 * bs.length := by
  fun_induction hexDecode hs generalizing bs with
  | case1 => cases h; exact ⟨Bytes.nil, rfl⟩
  | case2 => cases h
  | case3 h1 h2 hs hi lo r e3 e2 e1 ih =>
    cases h
    have ⟨hb, hl⟩ := ih r e3
    have := hexVal_lt e1; have := hexVal_lt e2
    exact ⟨Bytes.cons_iff.mpr ⟨by omega, hb⟩, by simp [hl]; omega⟩
  | case4 => cases h

/-- the error condition of `hex_bytes/2`: odd length or a character that is no hex digit -/
theorem hexDecode_none_iff (hs : List Char) :
    hexDecode hs = none ↔ hs.length % 2 = 1 ∨ ∃ c ∈ hs, hexVal c = none := by
  fun_induction hexDecode hs with
  | case1 => simp
  | case2 c => simp
  | case3 h1 h2 hs hi lo r e3 e2 e1 ih =>
    simp only [false_iff, reduceCtorEq] at ih ⊢
    simp only [List.length_cons, List.mem_cons, not_or, not_exists, not_and] at ih ⊢
    rw [e3] at ih
    simp at ih
    refine ⟨by omega, ?_⟩
    intro c hc
    rcases hc with rfl | rfl | hc
    · simp [e1]
    · simp [e2]
    · exact ih.2 c hc
  | case4 h1 h2 hs hno ih =>
    simp only [true_iff]
    cases e1 : hexVal h1 with
    | none => exact Or.inr ⟨h1, by simp, e1⟩
    | some hi =>
      cases e2 : hexVal h2 with
      | none => exact Or.inr ⟨h2, by simp, e2⟩
      | some lo =>
        cases e3 : hexDecode hs with
        | some r => exact (hno hi lo r e1 e2 e3).elim
        | none =>
          rcases ih.mp e3 with h | ⟨c, hc, hv⟩
          · left; simp; omega
          · right; exact ⟨c, by simp [hc], hv⟩

/-! ## Base64 -/

theorem b64Val_b64Char : ∀ (url : Bool) (n : Nat), n < 64 → b64Val url (b64Char url n) = some n := by
  decide

theorem b64Char_mem : ∀ (url : Bool) (n : Nat), n < 64 → b64Char url n ∈ b64Alphabet url := by
  decide

theorem b64Char_notPad : ∀ (url : Bool) (n : Nat), n < 64 → notPad (b64Char url n) = true := by
  decide

theorem b64Alphabet_length (url : Bool) : (b64Alphabet url).length = 64 := by
  cases url <;> rfl

theorem getD_idxOf {l : List Char} {c d : Char} (h : l.idxOf c < l.length) :
    l.getD (l.idxOf c) d = c := by
  induction l with
  | nil => simp at h
  | cons a l ih =>
    rw [List.idxOf_cons] at h ⊢
    by_cases hac : a = c
    · subst hac; simp
    · have : (a == c) = false := by simpa using hac
      simp only [this, cond_false, List.length_cons] at h ⊢
      simp only [List.getD_cons_succ]
      exact ih (by omega)

theorem b64Val_some {url : Bool} {c : Char} {v : Nat} (h : b64Val url c = some v) :
    v < 64 ∧ b64Char url v = c := by
  unfold b64Val at h
  simp only at h
  split at h
  · cases h
    next hlt =>
    refine ⟨hlt, ?_⟩
    unfold b64Char
    exact getD_idxOf (by rw [b64Alphabet_length]; exact hlt)
  · cases h

def Sext (ss : List Nat) : Prop := ∀ s ∈ ss, s < 64

theorem Sext.cons_iff {s : Nat} {ss : List Nat} : Sext (s :: ss) ↔ s < 64 ∧ Sext ss := by
  simp [Sext]

theorem sextets_sext (bs : List Nat) (h : Bytes bs) : Sext (sextets bs) := by
  fun_induction sextets bs with
  | case1 => intro s hs; cases hs
  | case2 a =>
    have := h a (by simp)
    intro s hs; simp at hs; rcases hs with rfl | rfl <;> omega
  | case3 a b =>
    have := h a (by simp); have := h b (by simp)
    intro s hs; simp at hs; rcases hs with rfl | rfl | rfl <;> omega
  | case4 a b c rest ih =>
    have := h a (by simp); have := h b (by simp); have := h c (by simp)
    have hr : Bytes rest := fun x hx => h x (by simp [hx])
    intro s hs; simp only [List.mem_cons] at hs
    rcases hs with rfl | rfl | rfl | rfl | hs
    · omega
    · omega
    · omega
    · omega
    · exact ih hr s hs

theorem unsextets_sextets (bs : List Nat) (h : Bytes bs) : unsextets (sextets bs) = some bs := by
  fun_induction sextets bs with
  | case1 => rfl
  | case2 a =>
    have := h a (by simp)
    simp only [unsextets]
    rw [if_pos (by omega)]; congr 2; omega
  | case3 a b =>
    have := h a (by simp); have := h b (by simp)
    simp only [unsextets]
    rw [if_pos (by omega)]
    have e1 : a / 4 * 4 + (a % 4 * 16 + b / 16) / 16 = a := by omega
    have e2 : (a % 4 * 16 + b / 16) % 16 * 16 + b % 16 * 4 / 4 = b := by omega
    rw [e1, e2]
  | case4 a b c rest ih =>
    have := h a (by simp); have := h b (by simp); have := h c (by simp)
    have hr : Bytes rest := fun x hx => h x (by simp [hx])
    simp only [unsextets, ih hr]
    have e1 : a / 4 * 4 + (a % 4 * 16 + b / 16) / 16 = a := by omega
    have e2 : (a % 4 * 16 + b / 16) % 16 * 16 + (b % 16 * 4 + c / 64) / 4 = b := by omega
    have e3 : (b % 16 * 4 + c / 64) % 4 * 64 + c % 64 = c := by omega
    rw [e1, e2, e3]

theorem b64Vals_map (url : Bool) (ss : List Nat) (h : Sext ss) :
    b64Vals url (ss.map (b64Char url)) = some ss := by
  induction ss with
  | nil => rfl
  | cons s ss ih =>
    have ⟨h1, h2⟩ := Sext.cons_iff.mp h
    simp [b64Vals, b64Val_b64Char url s h1, ih h2]

theorem sextets_length (bs : List Nat) : (sextets bs).length = (4 * bs.length + 2) / 3 := by
  fun_induction sextets bs with
  | case1 => rfl
  | case2 => simp
  | case3 => simp
  | case4 a b c rest ih => simp only [List.length_cons, ih]; omega

theorem padFor_sextets (bs : List Nat) : padFor (sextets bs).length = some (padCount bs.length) := by
  fun_induction sextets bs with
  | case1 => rfl
  | case2 => rfl
  | case3 => rfl
  | case4 a b c rest ih =>
    simp only [List.length_cons]
    have e1 : padFor ((sextets rest).length + 1 + 1 + 1 + 1) = padFor (sextets rest).length := by
      unfold padFor
      have : ((sextets rest).length + 1 + 1 + 1 + 1) % 4 = (sextets rest).length % 4 := by omega
      rw [this]
    have e2 : padCount (rest.length + 1 + 1 + 1) = padCount rest.length := by
      unfold padCount
      have : (rest.length + 1 + 1 + 1) % 3 = rest.length % 3 := by omega
      rw [this]
    rw [e1, e2, ih]

theorem takeWhile_body_pad (body : List Char) (k : Nat) (hb : ∀ c ∈ body, notPad c = true) :
    (body ++ List.replicate k '=').takeWhile notPad = body
    ∧ (body ++ List.replicate k '=').dropWhile notPad = List.replicate k '=' := by
  rw [List.takeWhile_append_of_pos hb, List.dropWhile_append_of_pos hb]
  cases k with
  | zero => simp
  | succ k => simp [List.replicate_succ, notPad]

theorem tailOk_pad (n k : Nat) (h : padFor n = some k) :
    tailOk true n (List.replicate k '=') = true := by
  simp [tailOk, h]

theorem tailOk_nopad (n : Nat) : tailOk false n [] = true := by
  simp [tailOk]

theorem tailOk_elim {pad : Bool} {n : Nat} {tail : List Char} (h : tailOk pad n tail = true) :
    (pad = true ∧ ∃ k, padFor n = some k ∧ tail = List.replicate k '=') ∨ (pad = false ∧ tail = []) := by
  unfold tailOk at h
  cases pad with
  | true =>
    left
    simp only [if_true] at h
    cases hp : padFor n with
    | none => simp [hp] at h
    | some k => simp [hp] at h; exact ⟨rfl, k, rfl, h⟩
  | false =>
    right
    simpa using h

theorem b64_roundtrip (o : B64Opts) (bs : List Nat) (h : Bytes bs) :
    b64Decode o (b64Encode o bs) = some bs := by
  have hs := sextets_sext bs h
  have hbody : ∀ c ∈ (sextets bs).map (b64Char o.url), notPad c = true := by
    intro c hc
    rcases List.mem_map.mp hc with ⟨s, hs', rfl⟩
    exact b64Char_notPad o.url s (hs s hs')
  unfold b64Decode b64Encode
  cases hp : o.pad with
  | true =>
    have ⟨e1, e2⟩ := takeWhile_body_pad _ (padCount bs.length) hbody
    simp only [if_true, e1, e2, List.length_map, tailOk_pad _ _ (padFor_sextets bs),
      b64Vals_map o.url _ hs, unsextets_sextets bs h]
  | false =>
    have ⟨e1, e2⟩ := takeWhile_body_pad _ 0 hbody
    simp only [List.replicate_zero, List.append_nil] at e1 e2
    simp [e1, e2, tailOk_nopad, b64Vals_map o.url _ hs, unsextets_sextets bs h]

theorem b64_length (o : B64Opts) (bs : List Nat) :
    (b64Encode o bs).length =
      if o.pad then 4 * ((bs.length + 2) / 3) else (4 * bs.length + 2) / 3 := by
  unfold b64Encode
  cases o.pad with
  | true => simp [sextets_length, padCount]; omega
  | false => simp [sextets_length]


theorem b64Vals_some {url : Bool} {cs : List Char} {vs : List Nat} (h : b64Vals url cs = some vs) :
    Sext vs ∧ vs.map (b64Char url) = cs := by
  induction cs generalizing vs with
  | nil =>
    simp [b64Vals] at h; subst h
    exact ⟨fun _ h => (by cases h), rfl⟩
  | cons c cs ih =>
    simp only [b64Vals] at h
    cases e1 : b64Val url c with
    | none => simp [e1] at h
    | some v =>
      cases e2 : b64Vals url cs with
      | none => simp [e1, e2] at h
      | some r =>
        simp [e1, e2] at h
        subst h
        have ⟨hv, hc⟩ := b64Val_some e1
        have ⟨hr, hm⟩ := ih e2
        exact ⟨Sext.cons_iff.mpr ⟨hv, hr⟩, by simp [hc, hm]⟩

theorem sextets_unsextets (vs bs : List Nat) (hv : Sext vs) (h : unsextets vs = some bs) :
    sextets bs = vs ∧ Bytes bs := by
  fun_induction unsextets vs generalizing bs with
  | case1 => cases h; exact ⟨rfl, Bytes.nil⟩
  | case2 => cases h
  | case3 a b hb =>
    cases h
    have := hv a (by simp); have := hv b (by simp)
    refine ⟨?_, Bytes.cons_iff.mpr ⟨by omega, Bytes.nil⟩⟩
    simp only [sextets]
    have e1 : (a * 4 + b / 16) / 4 = a := by omega
    have e2 : (a * 4 + b / 16) % 4 * 16 = b := by omega
    rw [e1, e2]
  | case4 a b hb => cases h
  | case5 a b c hc =>
    cases h
    have := hv a (by simp); have := hv b (by simp); have := hv c (by simp)
    refine ⟨?_, Bytes.cons_iff.mpr ⟨by omega, Bytes.cons_iff.mpr ⟨by omega, Bytes.nil⟩⟩⟩
    simp only [sextets]
    have e1 : (a * 4 + b / 16) / 4 = a := by omega
    have e2 : (a * 4 + b / 16) % 4 * 16 + (b % 16 * 16 + c / 4) / 16 = b := by omega
    have e3 : (b % 16 * 16 + c / 4) % 16 * 4 = c := by omega
    rw [e1, e2, e3]
  | case6 a b c hc => cases h
  | case7 a b c d rest r e ih =>
    cases h
    have := hv a (by simp); have := hv b (by simp); have := hv c (by simp); have := hv d (by simp)
    have hr : Sext rest := fun x hx => hv x (by simp [hx])
    have ⟨i1, i2⟩ := ih r hr e
    refine ⟨?_, Bytes.cons_iff.mpr ⟨by omega, Bytes.cons_iff.mpr ⟨by omega, Bytes.cons_iff.mpr ⟨by omega, i2⟩⟩⟩⟩
    simp only [sextets, i1]
    have e1 : (a * 4 + b / 16) / 4 = a := by omega
    have e2 : (a * 4 + b / 16) % 4 * 16 + (b % 16 * 16 + c / 4) / 16 = b := by omega
    have e3 : (b % 16 * 16 + c / 4) % 16 * 4 + (c % 4 * 64 + d) / 64 = c := by omega
    have e4 : (c % 4 * 64 + d) % 64 = d := by omega
    rw [e1, e2, e3, e4]
  | case8 a b c d rest e ih => cases h

theorem b64_decode_canonical (o : B64Opts) (cs : List Char) (bs : List Nat)
    (h : b64Decode o cs = some bs) : Bytes bs ∧ b64Encode o bs = cs := by
  unfold b64Decode at h
  simp only at h
  have hcs : cs = cs.takeWhile notPad ++ cs.dropWhile notPad :=
    (List.takeWhile_append_dropWhile).symm
  generalize cs.takeWhile notPad = body at h hcs
  generalize cs.dropWhile notPad = tail at h hcs
  by_cases hok : tailOk o.pad body.length tail = true
  · rw [if_pos hok] at h
    cases hv : b64Vals o.url body with
    | none => simp [hv] at h
    | some vs =>
      simp only [hv] at h
      have ⟨hsx, hmap⟩ := b64Vals_some hv
      have ⟨hse, hby⟩ := sextets_unsextets vs bs hsx h
      refine ⟨hby, ?_⟩
      unfold b64Encode
      rw [hse, hmap, hcs]
      congr 1
      have hlen : body.length = (sextets bs).length := by rw [hse, ← hmap]; simp
      rcases tailOk_elim hok with ⟨hp, k, hk, ht⟩ | ⟨hp, ht⟩
      · rw [hlen, padFor_sextets] at hk
        cases hk
        simp [hp, ht]
      · simp [hp, ht]
  · rw [if_neg hok] at h; cases h


/-! ## UTF-8 -/

theorem utf8Decode_1 (b0 : Nat) (r : List Nat) (h : b0 < 0x80) :
    utf8Decode (b0 :: r) = (utf8Decode r).map (b0 :: ·) := by
  rw [utf8Decode.eq_def]
  simp only [if_pos h]

theorem utf8Decode_2 (b0 b1 : Nat) (r : List Nat) (h0 : 0xC0 ≤ b0) (h0' : b0 < 0xE0)
    (h1 : isCont b1) (hc : 0x80 ≤ cp2 b0 b1) :
    utf8Decode (b0 :: b1 :: r) = (utf8Decode r).map (cp2 b0 b1 :: ·) := by
  rw [utf8Decode.eq_def]
  simp only []
  rw [if_neg (by omega), if_neg (by omega), if_pos h0', if_pos ⟨h1, hc⟩]

theorem utf8Decode_3 (b0 b1 b2 : Nat) (r : List Nat) (h0 : 0xE0 ≤ b0) (h0' : b0 < 0xF0)
    (h1 : isCont b1) (h2 : isCont b2) (hc : 0x800 ≤ cp3 b0 b1 b2) (hs : isScalar (cp3 b0 b1 b2)) :
    utf8Decode (b0 :: b1 :: b2 :: r) = (utf8Decode r).map (cp3 b0 b1 b2 :: ·) := by
  rw [utf8Decode.eq_def]
  simp only []
  rw [if_neg (by omega), if_neg (by omega), if_neg (by omega), if_pos h0', if_pos ⟨h1, h2, hc, hs⟩]

theorem utf8Decode_4 (b0 b1 b2 b3 : Nat) (r : List Nat) (h0 : 0xF0 ≤ b0) (h0' : b0 < 0xF8)
    (h1 : isCont b1) (h2 : isCont b2) (h3 : isCont b3) (hc : 0x10000 ≤ cp4 b0 b1 b2 b3)
    (hc' : cp4 b0 b1 b2 b3 < 0x110000) :
    utf8Decode (b0 :: b1 :: b2 :: b3 :: r) = (utf8Decode r).map (cp4 b0 b1 b2 b3 :: ·) := by
  rw [utf8Decode.eq_def]
  simp only []
  rw [if_neg (by omega), if_neg (by omega), if_neg (by omega), if_neg (by omega), if_pos h0',
    if_pos ⟨h1, h2, h3, hc, hc'⟩]

theorem utf8Decode_encodeChar (c : Nat) (r : List Nat) (hc : isScalar c) :
    utf8Decode (utf8EncodeChar c ++ r) = (utf8Decode r).map (c :: ·) := by
  unfold utf8EncodeChar
  unfold isScalar at hc
  split
  · exact utf8Decode_1 c r (by assumption)
  · split
    · have e : cp2 (0xC0 + c / 64) (0x80 + c % 64) = c := by unfold cp2; omega
      have := utf8Decode_2 (0xC0 + c / 64) (0x80 + c % 64) r (by omega) (by omega)
        (by unfold isCont; omega) (by rw [e]; omega)
      rw [e] at this
      simpa using this
    · split
      · have e : cp3 (0xE0 + c / 4096) (0x80 + c / 64 % 64) (0x80 + c % 64) = c := by
          unfold cp3; omega
        have := utf8Decode_3 (0xE0 + c / 4096) (0x80 + c / 64 % 64) (0x80 + c % 64) r
          (by omega) (by omega) (by unfold isCont; omega) (by unfold isCont; omega)
          (by rw [e]; omega) (by rw [e]; exact hc)
        rw [e] at this
        simpa using this
      · have e : cp4 (0xF0 + c / 262144) (0x80 + c / 4096 % 64) (0x80 + c / 64 % 64) (0x80 + c % 64) = c := by
          unfold cp4; omega
        have := utf8Decode_4 (0xF0 + c / 262144) (0x80 + c / 4096 % 64) (0x80 + c / 64 % 64)
          (0x80 + c % 64) r
          (by omega) (by omega) (by unfold isCont; omega) (by unfold isCont; omega)
          (by unfold isCont; omega) (by rw [e]; omega) (by rw [e]; omega)
        rw [e] at this
        simpa using this

def Scalars (cs : List Nat) : Prop := ∀ c ∈ cs, isScalar c

theorem utf8_roundtrip (cs : List Nat) (h : Scalars cs) : utf8Decode (utf8Encode cs) = some cs := by
  induction cs with
  | nil => rfl
  | cons c cs ih =>
    have hc : isScalar c := h c (by simp)
    have hcs : Scalars cs := fun x hx => h x (by simp [hx])
    simp only [utf8Encode]
    rw [utf8Decode_encodeChar c _ hc, ih hcs]
    rfl

theorem utf8EncodeChar_bytes (c : Nat) (h : c < 0x110000) : Bytes (utf8EncodeChar c) := by
  unfold utf8EncodeChar
  intro b hb
  split at hb
  · simp at hb; omega
  · split at hb
    · simp at hb; omega
    · split at hb
      · simp at hb; omega
      · simp at hb; omega

theorem utf8EncodeChar_length (c : Nat) :
    1 ≤ (utf8EncodeChar c).length ∧ (utf8EncodeChar c).length ≤ 4 := by
  unfold utf8EncodeChar
  split
  · simp
  · split
    · simp
    · split <;> simp


theorem enc1 (c : Nat) (h : c < 0x80) : utf8EncodeChar c = [c] := by
  unfold utf8EncodeChar; rw [if_pos h]

theorem enc2 (b0 b1 : Nat) (h0 : 0xC0 ≤ b0) (h0' : b0 < 0xE0) (h1 : isCont b1)
    (hc : 0x80 ≤ cp2 b0 b1) : utf8EncodeChar (cp2 b0 b1) = [b0, b1] := by
  unfold isCont at h1
  unfold utf8EncodeChar
  unfold cp2 at hc ⊢
  rw [if_neg (by omega), if_pos (by omega)]
  simp only [List.cons.injEq, and_true]
  omega

theorem enc3 (b0 b1 b2 : Nat) (h0 : 0xE0 ≤ b0) (h0' : b0 < 0xF0) (h1 : isCont b1) (h2 : isCont b2)
    (hc : 0x800 ≤ cp3 b0 b1 b2) : utf8EncodeChar (cp3 b0 b1 b2) = [b0, b1, b2] := by
  unfold isCont at h1 h2
  unfold utf8EncodeChar
  unfold cp3 at hc ⊢
  rw [if_neg (by omega), if_neg (by omega), if_pos (by omega)]
  simp only [List.cons.injEq, and_true]
  omega

theorem enc4 (b0 b1 b2 b3 : Nat) (h0 : 0xF0 ≤ b0) (h0' : b0 < 0xF8) (h1 : isCont b1)
    (h2 : isCont b2) (h3 : isCont b3) (hc : 0x10000 ≤ cp4 b0 b1 b2 b3) :
    utf8EncodeChar (cp4 b0 b1 b2 b3) = [b0, b1, b2, b3] := by
  unfold isCont at h1 h2 h3
  unfold utf8EncodeChar
  unfold cp4 at hc ⊢
  rw [if_neg (by omega), if_neg (by omega), if_neg (by omega)]
  simp only [List.cons.injEq, and_true]
  omega

theorem Scalars.cons {c : Nat} {cs : List Nat} (hc : isScalar c) (h : Scalars cs) :
    Scalars (c :: cs) := by
  intro x hx
  rcases List.mem_cons.mp hx with rfl | hx
  · exact hc
  · exact h x hx

/-- the strict decoder accepts exactly the encodings of scalar values -/
theorem utf8Decode_canonical (bs cs : List Nat) (h : utf8Decode bs = some cs) :
    Scalars cs ∧ utf8Encode cs = bs := by
  fun_induction utf8Decode bs generalizing cs with
  | case1 => cases h; exact ⟨fun _ h => (by cases h), rfl⟩
  | case2 b bs hb ih =>
    rcases Option.map_eq_some_iff.mp h with ⟨r, e, rfl⟩
    have ⟨i1, i2⟩ := ih r e
    exact ⟨Scalars.cons (by unfold isScalar; omega) i1, by simp [utf8Encode, enc1 b hb, i2]⟩
  | case4 b h1 h2 h3 b1 r hc ih =>
    rcases Option.map_eq_some_iff.mp h with ⟨r', e, rfl⟩
    have ⟨i1, i2⟩ := ih r' e
    have hlt : cp2 b b1 < 0x800 := by unfold cp2; omega
    exact ⟨Scalars.cons (by unfold isScalar; omega) i1,
      by simp [utf8Encode, enc2 b b1 (by omega) h3 hc.1 hc.2, i2]⟩
  | case7 b h1 h2 h3 h4 b1 b2 r hc ih =>
    rcases Option.map_eq_some_iff.mp h with ⟨r', e, rfl⟩
    have ⟨i1, i2⟩ := ih r' e
    exact ⟨Scalars.cons hc.2.2.2 i1,
      by simp [utf8Encode, enc3 b b1 b2 (by omega) h4 hc.1 hc.2.1 hc.2.2.1, i2]⟩
  | case10 b h1 h2 h3 h4 h5 b1 b2 b3 r hc ih =>
    rcases Option.map_eq_some_iff.mp h with ⟨r', e, rfl⟩
    have ⟨i1, i2⟩ := ih r' e
    exact ⟨Scalars.cons (by unfold isScalar; omega) i1,
      by simp [utf8Encode, enc4 b b1 b2 b3 (by omega) h5 hc.1 hc.2.1 hc.2.2.1 hc.2.2.2.1, i2]⟩
  | case3 => cases h
  | case5 => cases h
  | case6 => cases h
  | case8 => cases h
  | case9 => cases h
  | case11 => cases h
  | case12 => cases h
  | case13 => cases h


theorem or80 : ∀ x, x < 64 → 0x80 ||| x = 0x80 + x := by decide
theorem orC0 : ∀ x, x < 32 → 0xC0 ||| x = 0xC0 + x := by decide
theorem orE0 : ∀ x, x < 16 → 0xE0 ||| x = 0xE0 + x := by decide
theorem orF0 : ∀ x, x < 8 → 0xF0 ||| x = 0xF0 + x := by decide

theorem shr_and (c k : Nat) : (c >>> k) &&& 0x3F = c / 2 ^ k % 64 := by
  rw [Nat.shiftRight_eq_div_pow]
  exact Nat.and_two_pow_sub_one_eq_mod _ 6

set_option maxRecDepth 100000 in
theorem lead_bits : ∀ b, b < 256 →
    ((b &&& 0x80 = 0) = (b < 0x80)) ∧ ((b &&& 0xE0 = 0xC0) = (0xC0 ≤ b ∧ b < 0xE0))
    ∧ ((b &&& 0xF0 = 0xE0) = (0xE0 ≤ b ∧ b < 0xF0)) ∧ ((b &&& 0xF8 = 0xF0) = (0xF0 ≤ b ∧ b < 0xF8))
    ∧ ((b &&& 0xC0 = 0x80) = (0x80 ≤ b ∧ b < 0xC0)) := by
  decide

/-- the clauses of `code_to_utf8//1` / `encode//3` compute the RFC 3629 table -/
theorem utf8EncodeCharMech_eq (c : Nat) (h : c < 0x110000) :
    utf8EncodeCharMech c = some (utf8EncodeChar c) := by
  unfold utf8EncodeCharMech utf8EncodeChar
  split
  · rfl
  · split
    · simp only [encodeGo, shr_and, Nat.mul_zero, Nat.mul_one, Nat.pow_zero, Nat.div_one]
      rw [orC0 _ (by omega), or80 _ (by omega)]
      simp only [Option.some.injEq, List.cons.injEq, and_true]
      omega
    · split
      · simp only [encodeGo, shr_and, Nat.mul_zero, Nat.mul_one, Nat.pow_zero, Nat.div_one]
        rw [orE0 _ (by omega), or80 _ (by omega), or80 _ (by omega)]
        simp only [Option.some.injEq, List.cons.injEq, and_true]
        omega
      · simp only [encodeGo, shr_and, Nat.mul_zero, Nat.mul_one, Nat.pow_zero, Nat.div_one]
        rw [orF0 _ (by omega), or80 _ (by omega), or80 _ (by omega), or80 _ (by omega)]
        simp only [Option.some.injEq, List.cons.injEq, and_true]
        omega


theorem utf8DecodeMech_cons (fix : Bool) (b : Nat) (rest : List Nat) :
    utf8DecodeMech fix (b :: rest) =
    match mechStep fix b rest with
    | .fail => .fail
    | .reprErr => .reprErr
    | .char c r =>
      match utf8DecodeMech fix r with
      | .ok cs => .ok (c :: cs)
      | d => d := by
  rw [utf8DecodeMech]
  split
  · simp_all
  · simp_all
  · next c r hm =>
    rw [hm]
    simp only []
    cases utf8DecodeMech fix r <;> rfl

theorem shl_or (a x : Nat) (hx : x < 64) : (a <<< 6) ||| x = a * 64 + x := by
  rw [← Nat.shiftLeft_add_eq_or_of_lt (by simpa using hx), Nat.shiftLeft_eq]

theorem contStep_one (min code : Nat) (bs : List Nat) (hm : min ≤ code) (h : isScalar code) :
    contStep min code 1 bs = .char code bs := by
  simp only [contStep]
  rw [if_neg (by omega), if_pos h]

theorem contStep_cont (min code nb b : Nat) (r : List Nat) (hb : isCont b) (c : Nat)
    (r' : List Nat) (h : contStep min (code * 64 + (b - 0x80)) (nb + 1) r = .char c r') :
    contStep min code (nb + 2) (b :: r) = .char c r' := by
  unfold isCont at hb
  have hb' : b &&& 0xC0 = 0x80 := by
    have := (lead_bits b (by omega)).2.2.2.2
    rw [this]; exact hb
  simp only [contStep, if_pos hb', shl_or code (b - 0x80) (by omega), h]

theorem leading_1 (b : Nat) (h : b < 0x80) : leading b = some (1, b) := by
  unfold leading
  rw [if_pos (by rw [(lead_bits b (by omega)).1]; exact h)]

theorem leading_2 (b : Nat) (h : 0xC0 ≤ b) (h' : b < 0xE0) : leading b = some (2, b - 0xC0) := by
  unfold leading
  have l := lead_bits b (by omega)
  rw [if_neg (by rw [l.1]; omega), if_pos (by rw [l.2.1]; omega)]

theorem leading_3 (b : Nat) (h : 0xE0 ≤ b) (h' : b < 0xF0) : leading b = some (3, b - 0xE0) := by
  unfold leading
  have l := lead_bits b (by omega)
  rw [if_neg (by rw [l.1]; omega), if_neg (by rw [l.2.1]; omega), if_pos (by rw [l.2.2.1]; omega)]

theorem leading_4 (b : Nat) (h : 0xF0 ≤ b) (h' : b < 0xF8) : leading b = some (4, b - 0xF0) := by
  unfold leading
  have l := lead_bits b (by omega)
  rw [if_neg (by rw [l.1]; omega), if_neg (by rw [l.2.1]; omega), if_neg (by rw [l.2.2.1]; omega),
    if_pos (by rw [l.2.2.2.1]; omega)]

theorem mechStep_1 (fix : Bool) (b : Nat) (r : List Nat) (h : b < 0x80) :
    mechStep fix b r = .char b r := by
  unfold mechStep
  rw [leading_1 b h]
  have : (if fix = true then minCode 1 else 0) = 0 := by cases fix <;> rfl
  simp only [this, contStep_one 0 b r (by omega) (by unfold isScalar; omega)]

theorem mechStep_2 (fix : Bool) (b0 b1 : Nat) (r : List Nat) (h0 : 0xC0 ≤ b0) (h0' : b0 < 0xE0)
    (h1 : isCont b1) (hc : 0x80 ≤ cp2 b0 b1) :
    mechStep fix b0 (b1 :: r) = .char (cp2 b0 b1) r := by
  unfold mechStep
  rw [leading_2 b0 h0 h0']
  have e : (b0 - 0xC0) * 64 + (b1 - 0x80) = cp2 b0 b1 := by unfold isCont at h1; unfold cp2; omega
  have hm : (if fix = true then minCode 2 else 0) ≤ cp2 b0 b1 := by
    cases fix <;> simp [minCode] <;> omega
  have := contStep_cont (if fix = true then minCode 2 else 0) (b0 - 0xC0) 0 b1 r h1 (cp2 b0 b1) r (by
    rw [e]; exact contStep_one _ _ _ hm (by unfold isScalar cp2; omega))
  simp only [this]

theorem mechStep_3 (fix : Bool) (b0 b1 b2 : Nat) (r : List Nat) (h0 : 0xE0 ≤ b0) (h0' : b0 < 0xF0)
    (h1 : isCont b1) (h2 : isCont b2) (hc : 0x800 ≤ cp3 b0 b1 b2) (hs : isScalar (cp3 b0 b1 b2)) :
    mechStep fix b0 (b1 :: b2 :: r) = .char (cp3 b0 b1 b2) r := by
  unfold mechStep
  rw [leading_3 b0 h0 h0']
  have e : ((b0 - 0xE0) * 64 + (b1 - 0x80)) * 64 + (b2 - 0x80) = cp3 b0 b1 b2 := by
    unfold isCont at h1 h2; unfold cp3; omega
  have hm : (if fix = true then minCode 3 else 0) ≤ cp3 b0 b1 b2 := by
    cases fix <;> simp [minCode] <;> omega
  have := contStep_cont (if fix = true then minCode 3 else 0) (b0 - 0xE0) 1 b1 (b2 :: r) h1
    (cp3 b0 b1 b2) r
    (contStep_cont _ _ 0 b2 r h2 (cp3 b0 b1 b2) r (by rw [e]; exact contStep_one _ _ _ hm hs))
  simp only [this]

theorem mechStep_4 (fix : Bool) (b0 b1 b2 b3 : Nat) (r : List Nat) (h0 : 0xF0 ≤ b0)
    (h0' : b0 < 0xF8) (h1 : isCont b1) (h2 : isCont b2) (h3 : isCont b3)
    (hc : 0x10000 ≤ cp4 b0 b1 b2 b3) (hs : isScalar (cp4 b0 b1 b2 b3)) :
    mechStep fix b0 (b1 :: b2 :: b3 :: r) = .char (cp4 b0 b1 b2 b3) r := by
  unfold mechStep
  rw [leading_4 b0 h0 h0']
  have e : (((b0 - 0xF0) * 64 + (b1 - 0x80)) * 64 + (b2 - 0x80)) * 64 + (b3 - 0x80)
      = cp4 b0 b1 b2 b3 := by
    unfold isCont at h1 h2 h3; unfold cp4; omega
  have hm : (if fix = true then minCode 4 else 0) ≤ cp4 b0 b1 b2 b3 := by
    cases fix <;> simp [minCode] <;> omega
  have := contStep_cont (if fix = true then minCode 4 else 0) (b0 - 0xF0) 2 b1 (b2 :: b3 :: r) h1
    (cp4 b0 b1 b2 b3) r
    (contStep_cont _ _ 1 b2 (b3 :: r) h2 (cp4 b0 b1 b2 b3) r
      (contStep_cont _ _ 0 b3 r h3 (cp4 b0 b1 b2 b3) r (by
        rw [e]; exact contStep_one _ _ _ hm hs)))
  simp only [this]

/-- on well-formed UTF-8 the clauses of `decode_utf8//1` (at HEAD and with the proposed patch)
    compute the strict decoder's result -/
theorem utf8DecodeMech_of_strict (fix : Bool) (bs cs : List Nat) (h : utf8Decode bs = some cs) :
    utf8DecodeMech fix bs = .ok cs := by
  fun_induction utf8Decode bs generalizing cs with
  | case1 => cases h; rw [utf8DecodeMech]
  | case2 b bs hb ih =>
    rcases Option.map_eq_some_iff.mp h with ⟨r, e, rfl⟩
    rw [utf8DecodeMech_cons, mechStep_1 fix b bs hb]
    simp only [ih r e]
  | case4 b h1 h2 h3 b1 r hc ih =>
    rcases Option.map_eq_some_iff.mp h with ⟨r', e, rfl⟩
    rw [utf8DecodeMech_cons, mechStep_2 fix b b1 r (by omega) h3 hc.1 hc.2]
    simp only [ih r' e]
  | case7 b h1 h2 h3 h4 b1 b2 r hc ih =>
    rcases Option.map_eq_some_iff.mp h with ⟨r', e, rfl⟩
    rw [utf8DecodeMech_cons, mechStep_3 fix b b1 b2 r (by omega) h4 hc.1 hc.2.1 hc.2.2.1 hc.2.2.2]
    simp only [ih r' e]
  | case10 b h1 h2 h3 h4 h5 b1 b2 b3 r hc ih =>
    rcases Option.map_eq_some_iff.mp h with ⟨r', e, rfl⟩
    rw [utf8DecodeMech_cons, mechStep_4 fix b b1 b2 b3 r (by omega) h5 hc.1 hc.2.1 hc.2.2.1
      hc.2.2.2.1 (by unfold isScalar; omega)]
    simp only [ih r' e]
  | case3 => cases h
  | case5 => cases h
  | case6 => cases h
  | case8 => cases h
  | case9 => cases h
  | case11 => cases h
  | case12 => cases h
  | case13 => cases h

theorem mechStep_ne_fail (fix : Bool) (b : Nat) (r : List Nat) : mechStep fix b r ≠ .fail := by
  unfold mechStep
  split
  · split <;> simp_all
  · simp

theorem utf8DecodeMech_ne_fail (fix : Bool) (bs : List Nat) : utf8DecodeMech fix bs ≠ .fail := by
  induction h : bs.length using Nat.strongRecOn generalizing bs with
  | _ n ih =>
    cases bs with
    | nil => rw [utf8DecodeMech]; simp
    | cons b rest =>
      rw [utf8DecodeMech_cons]
      have := mechStep_ne_fail fix b rest
      split
      · contradiction
      · simp
      · next c r hm =>
        have hle := mechStep_rest_le fix b rest c r hm
        have := ih r.length (by subst h; simp; omega) r rfl
        split <;> simp_all


def accum (code : Nat) (conts : List Nat) : Nat :=
  conts.foldl (fun a x => a * 64 + (x - 0x80)) code

theorem contStep_inv (min : Nat) (k : Nat) : ∀ (code : Nat) (bs : List Nat) (c : Nat) (r : List Nat),
    Bytes bs → contStep min code (k + 1) bs = .char c r → c ≠ 0xFFFD →
    ∃ conts, conts.length = k ∧ (∀ x ∈ conts, isCont x) ∧ bs = conts ++ r ∧ c = accum code conts
      ∧ min ≤ c ∧ isScalar c := by
  induction k with
  | zero =>
    intro code bs c r hb h hc
    simp only [contStep] at h
    split at h
    · cases h; exact absurd rfl hc
    · split at h
      · next hmin hsc =>
        cases h
        exact ⟨[], rfl, by simp, by simp, rfl, by omega, hsc⟩
      · cases h
  | succ k ih =>
    intro code bs c r hb h hc
    cases bs with
    | nil => simp [contStep] at h
    | cons b rest =>
      have ⟨hb0, hbr⟩ := Bytes.cons_iff.mp hb
      simp only [contStep] at h
      split at h
      · next hbit =>
        have hcont : isCont b := by
          have := (lead_bits b hb0).2.2.2.2
          rw [this] at hbit; exact hbit
        rw [shl_or code (b - 0x80) (by unfold isCont at hcont; omega)] at h
        split at h
        · cases h; exact absurd rfl hc
        · have ⟨conts, hl, hall, hrest, hacc, hmin, hsc⟩ := ih _ rest c r hbr h hc
          refine ⟨b :: conts, by simp [hl], ?_, by simp [hrest], ?_, hmin, hsc⟩
          · intro x hx
            rcases List.mem_cons.mp hx with rfl | hx
            · exact hcont
            · exact hall x hx
          · simpa [accum] using hacc
      · cases h; exact absurd rfl hc


theorem leading_none (b : Nat) (hb : b < 256) (h : (0x80 ≤ b ∧ b < 0xC0) ∨ 0xF8 ≤ b) :
    leading b = none := by
  unfold leading
  have l := lead_bits b hb
  rw [if_neg (by rw [l.1]; omega), if_neg (by rw [l.2.1]; omega), if_neg (by rw [l.2.2.1]; omega),
    if_neg (by rw [l.2.2.2.1]; omega)]

theorem list_len1 {l : List Nat} (h : l.length = 1) : ∃ a, l = [a] := by
  match l, h with
  | [a], _ => exact ⟨a, rfl⟩

theorem list_len2 {l : List Nat} (h : l.length = 2) : ∃ a b, l = [a, b] := by
  match l, h with
  | [a, b], _ => exact ⟨a, b, rfl⟩

theorem list_len3 {l : List Nat} (h : l.length = 3) : ∃ a b c, l = [a, b, c] := by
  match l, h with
  | [a, b, c], _ => exact ⟨a, b, c, rfl⟩

/-- with the proposed patch, a step that yields a character other than U+FFFD has consumed
    exactly one well-formed UTF-8 sequence of that character -/
theorem mechStep_fix_inv (b : Nat) (rest : List Nat) (c : Nat) (r : List Nat)
    (hb : Bytes (b :: rest)) (h : mechStep true b rest = .char c r) (hc : c ≠ 0xFFFD) :
    utf8Decode (b :: rest) = (utf8Decode r).map (c :: ·) := by
  have ⟨hb0, hbr⟩ := Bytes.cons_iff.mp hb
  unfold mechStep at h
  by_cases h1 : b < 0x80
  · rw [leading_1 b h1] at h
    simp only [if_true] at h
    split at h
    · cases h; exact absurd rfl hc
    · have ⟨conts, hl, _, hrest, hacc, _, _⟩ := contStep_inv _ 0 _ _ _ _ hbr h hc
      have : conts = [] := List.eq_nil_of_length_eq_zero hl
      subst this
      simp only [List.nil_append] at hrest
      simp only [accum, List.foldl_nil] at hacc
      rw [hacc, ← hrest]
      exact utf8Decode_1 b rest h1
  · by_cases h2 : b < 0xC0
    · rw [leading_none b hb0 (Or.inl ⟨by omega, h2⟩)] at h
      cases h; exact absurd rfl hc
    · by_cases h3 : b < 0xE0
      · rw [leading_2 b (by omega) h3] at h
        simp only [if_true] at h
        split at h
        · cases h; exact absurd rfl hc
        · have ⟨conts, hl, hall, hrest, hacc, hmin, _⟩ := contStep_inv _ 1 _ _ _ _ hbr h hc
          have ⟨b1, e⟩ := list_len1 hl
          subst e
          have hc1 : isCont b1 := hall b1 (by simp)
          have e : c = cp2 b b1 := by
            simp only [accum, List.foldl_cons, List.foldl_nil] at hacc
            unfold isCont at hc1; unfold cp2; omega
          subst e
          simp only [minCode] at hmin
          rw [hrest]
          exact utf8Decode_2 b b1 r (by omega) h3 hc1 hmin
      · by_cases h4 : b < 0xF0
        · rw [leading_3 b (by omega) h4] at h
          simp only [if_true] at h
          split at h
          · cases h; exact absurd rfl hc
          · have ⟨conts, hl, hall, hrest, hacc, hmin, hsc⟩ := contStep_inv _ 2 _ _ _ _ hbr h hc
            have ⟨b1, b2, e⟩ := list_len2 hl
            subst e
            have hc1 : isCont b1 := hall b1 (by simp)
            have hc2 : isCont b2 := hall b2 (by simp)
            have e : c = cp3 b b1 b2 := by
              simp only [accum, List.foldl_cons, List.foldl_nil] at hacc
              unfold isCont at hc1 hc2; unfold cp3; omega
            subst e
            simp only [minCode] at hmin
            rw [hrest]
            exact utf8Decode_3 b b1 b2 r (by omega) h4 hc1 hc2 hmin hsc
        · by_cases h5 : b < 0xF8
          · rw [leading_4 b (by omega) h5] at h
            simp only [if_true] at h
            split at h
            · cases h; exact absurd rfl hc
            · have ⟨conts, hl, hall, hrest, hacc, hmin, hsc⟩ := contStep_inv _ 3 _ _ _ _ hbr h hc
              have ⟨b1, b2, b3, e⟩ := list_len3 hl
              subst e
              have hc1 : isCont b1 := hall b1 (by simp)
              have hc2 : isCont b2 := hall b2 (by simp)
              have hc3 : isCont b3 := hall b3 (by simp)
              have e : c = cp4 b b1 b2 b3 := by
                simp only [accum, List.foldl_cons, List.foldl_nil] at hacc
                unfold isCont at hc1 hc2 hc3; unfold cp4; omega
              subst e
              simp only [minCode] at hmin
              rw [hrest]
              exact utf8Decode_4 b b1 b2 b3 r (by omega) h5 hc1 hc2 hc3 hmin
                (by unfold isScalar at hsc; omega)
          · rw [leading_none b hb0 (Or.inr (by omega))] at h
            cases h; exact absurd rfl hc

theorem contStep_suffix (min code nb : Nat) (bs : List Nat) (c : Nat) (r : List Nat)
    (h : contStep min code nb bs = .char c r) : r <:+ bs := by
  induction nb using Nat.strongRecOn generalizing code bs with
  | _ nb ih =>
    match nb, bs with
    | 0, _ => simp [contStep] at h
    | 1, bs =>
      simp only [contStep] at h
      split at h
      · cases h; exact List.suffix_refl _
      · split at h
        · cases h; exact List.suffix_refl _
        · cases h
    | nb + 2, [] => simp [contStep] at h
    | nb + 2, b :: r' =>
      simp only [contStep] at h
      split at h
      · split at h
        · cases h; exact List.suffix_cons _ _
        · exact List.IsSuffix.trans (ih (nb + 1) (by omega) _ r' h) (List.suffix_cons _ _)
      · cases h; exact List.suffix_cons _ _

theorem mechStep_suffix (fix : Bool) (b : Nat) (rest : List Nat) (c : Nat) (r : List Nat)
    (h : mechStep fix b rest = .char c r) : r <:+ rest := by
  unfold mechStep at h
  split at h
  · split at h
    · cases h; exact List.suffix_refl _
    · exact contStep_suffix _ _ _ _ _ _ h
  · cases h; exact List.suffix_refl _

/-- with the proposed patch: if the decoder returns characters none of which is U+FFFD, the input
    was well-formed UTF-8 and the characters are its strict decoding -/
theorem utf8DecodeMech_fix_sound (bs cs : List Nat) (hb : Bytes bs)
    (h : utf8DecodeMech true bs = .ok cs) (hf : 0xFFFD ∉ cs) : utf8Decode bs = some cs := by
  induction hn : bs.length using Nat.strongRecOn generalizing bs cs with
  | _ n ih =>
    cases bs with
    | nil => rw [utf8DecodeMech] at h; cases h; rfl
    | cons b rest =>
      rw [utf8DecodeMech_cons] at h
      split at h
      · cases h
      · cases h
      · next c r hm =>
        have hle := mechStep_rest_le true b rest c r hm
        have hsuf := mechStep_suffix true b rest c r hm
        have hbr : Bytes r := fun x hx => hb x (List.mem_cons_of_mem _ (hsuf.subset hx))
        cases hd : utf8DecodeMech true r with
        | fail => simp [hd] at h
        | reprErr => simp [hd] at h
        | ok cs' =>
          simp only [hd] at h
          cases h
          have hc : c ≠ 0xFFFD := fun e => hf (by simp [e])
          have hf' : 0xFFFD ∉ cs' := fun e => hf (by simp [e])
          have := ih r.length (by subst hn; simp; omega) r cs' hbr hd hf' rfl
          rw [mechStep_fix_inv b rest c r hb hm hc, this]
          rfl


theorem firstNonByte_none_iff (bs : List Int) :
    firstNonByte bs = none ↔ ∀ b ∈ bs, 0 ≤ b ∧ b ≤ 255 := by
  induction bs with
  | nil => simp [firstNonByte]
  | cons b bs ih =>
    by_cases hb : 0 ≤ b ∧ b ≤ 255
    · rw [firstNonByte, if_pos hb, ih]
      simp only [List.mem_cons, forall_eq_or_imp]
      exact ⟨fun h => ⟨hb, h⟩, fun h => h.2⟩
    · rw [firstNonByte, if_neg hb]
      simp only [List.mem_cons, forall_eq_or_imp]
      exact ⟨fun h => (by cases h), fun h => absurd h.1 hb⟩

theorem firstNonByte_some (bs : List Int) (b : Int) (h : firstNonByte bs = some b) :
    b ∈ bs ∧ ¬ (0 ≤ b ∧ b ≤ 255) := by
  induction bs with
  | nil => simp [firstNonByte] at h
  | cons a bs ih =>
    by_cases ha : 0 ≤ a ∧ a ≤ 255
    · rw [firstNonByte, if_pos ha] at h
      have := ih h
      exact ⟨List.mem_cons_of_mem _ this.1, this.2⟩
    · rw [firstNonByte, if_neg ha] at h
      cases h
      exact ⟨by simp, ha⟩


end Scryer.Codec
