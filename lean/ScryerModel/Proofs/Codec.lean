import ScryerModel.Model.Codec
/-! Helper lemmas for the codec models (C37). -/
namespace Scryer.Codec

theorem Bytes.nil : Bytes [] := by intro b h; cases h

theorem Bytes.cons_iff {b : Nat} {bs : List Nat} : Bytes (b :: bs) ↔ b < 256 ∧ Bytes bs := by
  simp [Bytes]

/-! ## Hex -/

theorem shr4 (b : Nat) : b >>> 4 = b / 16 := Nat.shiftRight_eq_div_pow b 4
theorem and15 (b : Nat) : b &&& 0xf = b % 16 := Nat.and_two_pow_sub_one_eq_mod b 4

theorem hexVal_hexDigit : ∀ n, n < 16 → hexVal (hexDigit n) = some n := by decide

theorem hexDigit_lower : ∀ n, n < 16 → hexDigit n ∈ lowerHex := by decide

theorem hexVal_lt {c : Char} {v : Nat} (h : hexVal c = some v) : v < 16 := by
  unfold hexVal at h
  simp only at h
  split at h
  · cases h; assumption
  · split at h
    · cases h; assumption
    · cases h

theorem hexEncode_cons (b : Nat) (bs : List Nat) :
    hexEncode (b :: bs) = hexDigit (b / 16) :: hexDigit (b % 16) :: hexEncode bs := by
  simp [hexEncode, shr4, and15]

theorem hex_roundtrip (bs : List Nat) (h : Bytes bs) : hexDecode (hexEncode bs) = some bs := by
  induction bs with
  | nil => rfl
  | cons b bs ih =>
    have ⟨hb, hbs⟩ := Bytes.cons_iff.mp h
    rw [hexEncode_cons]
    simp only [hexDecode, hexVal_hexDigit (b / 16) (by omega), hexVal_hexDigit (b % 16) (by omega), ih hbs]
    congr 2
    omega

theorem hex_length (bs : List Nat) : (hexEncode bs).length = 2 * bs.length := by
  induction bs with
  | nil => rfl
  | cons b bs ih => simp [hexEncode, ih]; omega

theorem hex_lower (bs : List Nat) (h : Bytes bs) : ∀ c ∈ hexEncode bs, c ∈ lowerHex := by
  induction bs with
  | nil => intro c hc; cases hc
  | cons b bs ih =>
    have ⟨hb, hbs⟩ := Bytes.cons_iff.mp h
    intro c hc
    rw [hexEncode_cons] at hc
    simp only [List.mem_cons] at hc
    rcases hc with rfl | rfl | hc
    · exact hexDigit_lower _ (by omega)
    · exact hexDigit_lower _ (by omega)
    · exact ih hbs c hc

theorem hexDecode_soundX (hs : List Char) (bs : List Nat) (h : hexDecode hs = some bs) :
    Bytes bs ∧ hs.length = 2 * bs.length := by
  fun_induction hexDecode hs generalizing bs with
  | case1 => cases h; exact ⟨Bytes.nil, rfl⟩
  | case2 => cases h
  | case3 h1 h2 hs hi lo r e1 e2 e3 ih =>
    cases h
    have ⟨hb, hl⟩ := ih r e3
    have := hexVal_lt e1; have := hexVal_lt e2
    exact ⟨Bytes.cons_iff.mpr ⟨by omega, hb⟩, by simp [hl]; omega⟩
  | case4 => cases h

end Scryer.Codec
