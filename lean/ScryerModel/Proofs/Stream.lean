import ScryerModel.Proofs.CharReader
import ScryerModel.Model.Stream
/-! Lemmas for C19 (`Model/Stream.lean`). -/
namespace Scryer.Stream
open Scryer.Utf8

theorem textCore_result_eq (s : St) : (textCore true s).2 = (textCore false s).2 := by
  unfold textCore
  split
  · rfl
  · split <;> rfl

theorem textOp_result_eq (s : St) : (textOp true s).2 = (textOp false s).2 := by
  unfold textOp
  split
  · rfl
  · split
    · split
      · rfl
      · rfl
      · exact textCore_result_eq _
    · exact textCore_result_eq _

end Scryer.Stream
