import ScryerModel.Proofs.CharReader
import ScryerModel.Model.Stream
/-! Lemmas for C19 (`Model/Stream.lean`). -/
namespace Scryer.Stream
open Scryer.Utf8

theorem textCore_result_eq (s : St) : (textCore true s).2 = (textCore false s).2 := by
  unfold textCore
  split
  · rfl
  · split <;> rfl

theorem textOp_result_eq (s : St) : (textOp true s).2 = (textOp false s).2 := by
  unfold textOp
  split
  · rfl
  · split
    · split
      · rfl
      · rfl
      · exact textCore_result_eq _
    · exact textCore_result_eq _
theorem rest_length (s : St) : (rest s).length = s.content.length - s.cur := by
  unfold rest; simp

theorem check_text_none {s : St} (h : check s .text true = none) : s.output = false ∧ s.ty = .text := by
  unfold check at h
  simp only [if_true] at h
  cases ho : s.output
  · simp only [ho] at h
    by_cases ht : s.ty = .text
    · exact ⟨rfl, ht⟩
    · simp [ht] at h
  · simp [ho] at h

theorem check_text_of {s : St} (ho : s.output = false) (ht : s.ty = .text) : check s .text true = none := by
  unfold check; simp [ho, ht]

theorem check_reset (s : St) (t : Ty) (b : Bool) : check (resetSt s) t b = check s t b := rfl

/-! ### peeking -/

theorem textCore_peek_state (s : St) : (textCore false s).1 = s := by
  unfold textCore
  split
  · rfl
  · split <;> rfl

theorem textOp_peek_state_cases (s : St) :
    (textOp false s).1 = s ∨
      (s.past = true ∧ s.eofAction = .reset ∧ check s .text true = none ∧ (textOp false s).1 = resetSt s) := by
  unfold textOp
  split
  · left; rfl
  · rename_i hc
    split
    · rename_i hp
      split
      · left; rfl
      · left; rfl
      · rename_i hr
        right; exact ⟨hp, hr, hc, textCore_peek_state _⟩
    · left; exact textCore_peek_state _

theorem textOp_peek_state (s : St) (h : s.past = false ∨ s.eofAction ≠ .reset) : (textOp false s).1 = s := by
  rcases textOp_peek_state_cases s with h1 | ⟨hp, hr, _, _⟩
  · exact h1
  · rcases h with h | h
    · rw [hp] at h; cases h
    · exact absurd hr h

theorem textOp_of_none {s : St} (c : Bool) (hc : check s .text true = none) (hp : s.past = false) :
    textOp c s = textCore c s := by
  unfold textOp; rw [hc]; simp [hp]

theorem textOp_reset {s : St} (c : Bool) (hc : check s .text true = none) (hp : s.past = true)
    (hr : s.eofAction = .reset) : textOp c s = textCore c (resetSt s) := by
  unfold textOp; rw [hc]; simp [hp, hr]

theorem textOp_peek_then (c : Bool) (s : St) : textOp c (textOp false s).1 = textOp c s := by
  rcases textOp_peek_state_cases s with h1 | ⟨hp, hr, hc, h2⟩
  · rw [h1]
  · rw [h2, textOp_reset c hc hp hr, textOp_of_none c (by rw [check_reset]; exact hc) rfl]


/-! ### bytes -/
theorem byteCore_result_eq (s : St) : (byteCore true s).2 = (byteCore false s).2 := by
  unfold byteCore; split <;> rfl

theorem byteCore_peek_state (s : St) : (byteCore false s).1 = s := by
  unfold byteCore; split <;> rfl

theorem byteOp_result_eq (s : St) : (byteOp true s).2 = (byteOp false s).2 := by
  unfold byteOp
  split
  · rfl
  · split
    · split
      · rfl
      · rfl
      · exact byteCore_result_eq _
    · exact byteCore_result_eq _

theorem byteOp_peek_state (s : St) (h : s.past = false ∨ s.eofAction ≠ .reset) : (byteOp false s).1 = s := by
  unfold byteOp
  split
  · rfl
  · split
    · rename_i hp
      split
      · rfl
      · rfl
      · rename_i hr
        rcases h with h | h
        · rw [hp] at h; cases h
        · exact absurd hr h
    · exact byteCore_peek_state _

/-! ### at_end_of_stream -/
theorem atEnd_iff_peek_eof {s : St} (hc : check s .text true = none) (hp : s.past = false) (hi : Inv s) :
    atEnd s = true ↔ (textOp false s).2 = .ok .eof := by
  have ⟨ho, _⟩ := check_text_none hc
  have hle : s.cur ≤ s.content.length := by
    rcases hi with h | h
    · exact h
    · rw [hp] at h; cases h
  rw [textOp_of_none false hc hp]
  unfold atEnd endPos textCore
  simp only [ho, hp, Bool.not_false, Bool.true_and, Bool.false_eq_true, if_false]
  by_cases he : s.cur = s.content.length
  · simp [he]
  · have hlt : s.cur < s.content.length := by omega
    simp only [he, hlt, if_false, if_true]
    constructor
    · intro h; simp at h
    · intro h
      split at h <;> simp at h

/-! ### what a successful get does -/
theorem textCore_get_char {s s' : St} {cp : Nat} (h : textCore true s = (s', .ok (.char cp))) :
    s'.cur = s.cur + lenUtf8 cp ∧ (rest s).take (lenUtf8 cp) = encode cp ∧
      s'.lines = s.lines + nlCount cp ∧ s'.past = s.past ∧ s'.content = s.content ∧
      s.cur + lenUtf8 cp ≤ s.content.length := by
  unfold textCore at h
  split at h
  · simp at h
  · split at h
    · rename_i cp' n hd
      simp only [if_true, Prod.mk.injEq, Res.ok.injEq, Val.char.injEq] at h
      obtain ⟨hs, hcp⟩ := h
      subst hcp
      have hok := decodeFirst_ok hd
      have hn : n = lenUtf8 cp' := hok.1
      have hlen := hok.2.1
      rw [rest_length] at hlen
      subst hs
      refine ⟨by simp [hn], ?_, by simp, rfl, rfl, ?_⟩
      · rw [← hn]; exact decodeFirst_ok_take hd
      · rw [← hn]; omega
    · simp at h

theorem countNl_append (a b : List Nat) : countNl (a ++ b) = countNl a + countNl b := by
  induction a with
  | nil => simp [countNl]
  | cons x r ih => simp [countNl, ih, Nat.add_assoc]

theorem countNl_encode (cp : Nat) : countNl (encode cp) = nlCount cp := by
  unfold encode
  split
  · simp [countNl]
  · rename_i h1
    have hne : nlCount cp = 0 := by unfold nlCount; split <;> omega
    rw [hne]
    split
    · simp only [countNl, nlCount]
      split <;> split <;> omega
    · split
      · simp only [countNl, nlCount]
        split <;> split <;> split <;> omega
      · simp only [countNl, nlCount]
        split <;> split <;> split <;> split <;> omega

theorem take_add_rest (s : St) (n : Nat) :
    s.content.take (s.cur + n) = s.content.take s.cur ++ (rest s).take n := by
  unfold rest
  rw [List.take_add]

/-- the newline count of the consumed prefix after consuming `n` more bytes. -/
theorem countNl_take_add (s : St) (n : Nat) :
    countNl (s.content.take (s.cur + n)) = countNl (s.content.take s.cur) + countNl ((rest s).take n) := by
  rw [take_add_rest, countNl_append]

theorem takeWhile_append_drop (p : Nat → Bool) (l : List Nat) :
    l.takeWhile p ++ l.drop (l.takeWhile p).length = l := by
  induction l with
  | nil => rfl
  | cons a r ih =>
    by_cases h : p a = true
    · simp [h, ih]
    · simp [h]

/-- `takeChars`: the characters taken span `m` bytes of the input, and contain as many newline
    characters as these bytes contain newline bytes. -/
theorem takeChars_spec : ∀ (n : Nat) (l : List Nat),
    (takeChars n l).2 ≤ l.length ∧ countNl (l.take (takeChars n l).2) = countNl (takeChars n l).1
  | 0, l => by simp [takeChars, countNl]
  | n+1, l => by
    unfold takeChars
    split
    · rename_i cp k hd
      have hok := decodeFirst_ok hd
      have ih := takeChars_spec n (l.drop k)
      simp only
      constructor
      · have := ih.1; simp at this; omega
      · rw [List.take_add, countNl_append, ih.2, decodeFirst_ok_take hd, countNl_encode]
        simp [countNl]
    · simp [countNl]


/-- the strong invariant of input text streams that are never repositioned. -/
def Good (s : St) : Prop := s.cur ≤ s.content.length ∧ LinesInv s

theorem good_reset (s : St) : Good (resetSt s) := by
  refine ⟨Nat.zero_le _, ?_⟩
  show 0 = countNl (s.content.take 0)
  simp [countNl]

theorem good_textCore (c : Bool) {s : St} (h : Good s) :
    Good (textCore c s).1 ∧ (textCore c s).1.content = s.content := by
  unfold textCore
  split
  · cases c
    · exact ⟨h, rfl⟩
    · exact ⟨⟨h.1, h.2⟩, rfl⟩
  · split
    · rename_i cp n hd
      cases c
      · exact ⟨h, rfl⟩
      · have hok := decodeFirst_ok hd
        have hlen := hok.2.1
        rw [rest_length] at hlen
        refine ⟨⟨?_, ?_⟩, rfl⟩
        · show s.cur + n ≤ s.content.length
          have := h.1; have := hok.2.2.1; omega
        · show s.lines + nlCount cp = countNl (s.content.take (s.cur + n))
          rw [countNl_take_add, decodeFirst_ok_take hd, countNl_encode, ← h.2]
    · exact ⟨h, rfl⟩

theorem good_textOp (c : Bool) {s : St} (h : Good s) :
    Good (textOp c s).1 ∧ (textOp c s).1.content = s.content := by
  unfold textOp
  split
  · exact ⟨h, rfl⟩
  · split
    · split
      · exact ⟨h, rfl⟩
      · exact ⟨h, rfl⟩
      · exact good_textCore c (good_reset s)
    · exact good_textCore c h

theorem good_getNChars (n : Nat) {s : St} (h : Good s) (ht : s.ty = .text) :
    Good (getNChars n s).1 ∧ (getNChars n s).1.content = s.content := by
  unfold getNChars
  split
  · exact ⟨h, rfl⟩
  · rw [ht]
    simp only
    have sp := takeChars_spec n (rest s)
    rw [rest_length] at sp
    refine ⟨⟨?_, ?_⟩, trivial⟩
    · show s.cur + (takeChars n (rest s)).2 ≤ s.content.length
      have := h.1; omega
    · show s.lines + countNl (takeChars n (rest s)).1 = countNl (s.content.take (s.cur + (takeChars n (rest s)).2))
      rw [countNl_take_add, sp.2, ← h.2]

theorem good_advance {s : St} (h : Good s) (pre suf : List Nat) (hr : rest s = pre ++ suf) :
    Good { s with cur := s.cur + pre.length, lines := s.lines + countNl pre } := by
  have hl := rest_length s
  rw [hr] at hl
  simp only [List.length_append] at hl
  refine ⟨?_, ?_⟩
  · show s.cur + pre.length ≤ s.content.length
    have := h.1; omega
  · show s.lines + countNl pre = countNl (s.content.take (s.cur + pre.length))
    rw [countNl_take_add, hr, List.take_left', ← h.2]
    rfl

theorem good_readCore {s : St} (h : Good s) :
    Good (readCore s).1 ∧ (readCore s).1.content = s.content := by
  unfold readCore
  simp only
  have e1 := takeWhile_append_drop isLayout (rest s)
  split
  · split
    · exact ⟨⟨h.1, h.2⟩, rfl⟩
    · exact ⟨good_advance h _ _ e1.symm, rfl⟩
  · have e2 := takeWhile_append_drop (fun b => b != 46) ((rest s).drop ((rest s).takeWhile isLayout).length)
    split
    · rename_i after hd
      rw [hd] at e2
      refine ⟨?_, rfl⟩
      cases after with
      | nil =>
        have hr : rest s = ((rest s).takeWhile isLayout ++ ((rest s).drop ((rest s).takeWhile isLayout).length).takeWhile (fun b => b != 46) ++ [46]) ++ [] := by
          rw [List.append_nil, List.append_assoc, e2, e1]
        have := good_advance h _ _ hr
        simpa [countNl_append, countNl, nlCount, Nat.add_assoc] using this
      | cons x a' =>
        by_cases hx : x = 10
        · subst hx
          have hr : rest s = ((rest s).takeWhile isLayout ++ ((rest s).drop ((rest s).takeWhile isLayout).length).takeWhile (fun b => b != 46) ++ [46, 10]) ++ a' := by
            rw [List.append_assoc, List.append_assoc]
            simp only [List.cons_append, List.nil_append]
            rw [e2, e1]
          have := good_advance h _ _ hr
          simpa [countNl_append, countNl, nlCount, Nat.add_assoc] using this
        · have hr : rest s = ((rest s).takeWhile isLayout ++ ((rest s).drop ((rest s).takeWhile isLayout).length).takeWhile (fun b => b != 46) ++ [46]) ++ (x :: a') := by
            rw [List.append_assoc, List.append_assoc]
            simp only [List.cons_append, List.nil_append]
            rw [e2, e1]
          have := good_advance h _ _ hr
          simpa [countNl_append, countNl, nlCount, Nat.add_assoc, hx] using this
    · refine ⟨?_, rfl⟩
      have hr : rest s = ((rest s).takeWhile isLayout ++ ((rest s).drop ((rest s).takeWhile isLayout).length).takeWhile (fun b => b != 46)) ++ ((rest s).drop ((rest s).takeWhile isLayout).length).drop (((rest s).drop ((rest s).takeWhile isLayout).length).takeWhile (fun b => b != 46)).length := by
        rw [List.append_assoc, e2, e1]
      have := good_advance h _ _ hr
      simpa [countNl_append, Nat.add_assoc] using this




/-- static part of a stream. -/
def SameStream (a b : St) : Prop :=
  a.content = b.content ∧ a.ty = b.ty ∧ a.output = b.output ∧ a.eofAction = b.eofAction ∧ a.reposition = b.reposition

theorem same_textCore (c : Bool) (s : St) : SameStream (textCore c s).1 s := by
  unfold textCore
  split
  · cases c <;> exact ⟨rfl, rfl, rfl, rfl, rfl⟩
  · split
    · cases c <;> exact ⟨rfl, rfl, rfl, rfl, rfl⟩
    · exact ⟨rfl, rfl, rfl, rfl, rfl⟩

theorem same_textOp (c : Bool) (s : St) : SameStream (textOp c s).1 s := by
  unfold textOp
  split
  · exact ⟨rfl, rfl, rfl, rfl, rfl⟩
  · split
    · split
      · exact ⟨rfl, rfl, rfl, rfl, rfl⟩
      · exact ⟨rfl, rfl, rfl, rfl, rfl⟩
      · exact same_textCore c (resetSt s)
    · exact same_textCore c s

theorem byteOp_text (c : Bool) {s : St} (ht : s.ty = .text) : (byteOp c s).1 = s := by
  unfold byteOp check
  simp only [if_true]
  cases ho : s.output
  · simp [ht]
  · simp

theorem putOp_input (t : Ty) (bs : List Nat) {s : St} (ho : s.output = false) : (putOp t bs s).1 = s := by
  unfold putOp check
  simp [ho]

theorem same_getNChars (n : Nat) (s : St) : SameStream (getNChars n s).1 s := by
  unfold getNChars
  split
  · exact ⟨rfl, rfl, rfl, rfl, rfl⟩
  · split <;> exact ⟨rfl, rfl, rfl, rfl, rfl⟩

theorem same_readOp (s : St) : SameStream (readOp s).1 s := by
  have hcore : ∀ t : St, SameStream (readCore t).1 t := by
    intro t
    unfold readCore
    simp only
    split
    · split <;> exact ⟨rfl, rfl, rfl, rfl, rfl⟩
    · split <;> exact ⟨rfl, rfl, rfl, rfl, rfl⟩
  unfold readOp
  split
  · exact ⟨rfl, rfl, rfl, rfl, rfl⟩
  · split
    · split
      · exact ⟨rfl, rfl, rfl, rfl, rfl⟩
      · exact ⟨rfl, rfl, rfl, rfl, rfl⟩
      · exact hcore (resetSt s)
    · exact hcore s

theorem good_readOp {s : St} (h : Good s) : Good (readOp s).1 := by
  unfold readOp
  split
  · exact h
  · split
    · split
      · exact h
      · exact h
      · exact (good_readCore (good_reset s)).1
    · exact (good_readCore h).1

def noReposition : Op → Bool
  | .setPosition _ => false
  | _ => true

/-- every builtin other than `set_stream_position` keeps an input text stream `Good`. -/
theorem good_step {s : St} (h : Good s) (ho : s.output = false) (ht : s.ty = .text) (op : Op)
    (hop : noReposition op = true) : Good (step s op).1 ∧ SameStream (step s op).1 s := by
  cases op with
  | getChar => exact ⟨(good_textOp true h).1, same_textOp true s⟩
  | getCode => exact ⟨(good_textOp true h).1, same_textOp true s⟩
  | peekChar => exact ⟨(good_textOp false h).1, same_textOp false s⟩
  | peekCode => exact ⟨(good_textOp false h).1, same_textOp false s⟩
  | getByte => have e : (step s Op.getByte).1 = s := byteOp_text true ht; rw [e]; exact ⟨h, rfl, rfl, rfl, rfl, rfl⟩
  | peekByte => have e : (step s Op.peekByte).1 = s := byteOp_text false ht; rw [e]; exact ⟨h, rfl, rfl, rfl, rfl, rfl⟩
  | getNChars n => exact ⟨(good_getNChars n h ht).1, same_getNChars n s⟩
  | atEnd => exact ⟨h, rfl, rfl, rfl, rfl, rfl⟩
  | endOfStream => exact ⟨h, rfl, rfl, rfl, rfl, rfl⟩
  | position => exact ⟨h, rfl, rfl, rfl, rfl, rfl⟩
  | setPosition p => simp [noReposition] at hop
  | readTerm => exact ⟨good_readOp h, same_readOp s⟩
  | putChar cp => have e : (step s (Op.putChar cp)).1 = s := putOp_input _ _ ho; rw [e]; exact ⟨h, rfl, rfl, rfl, rfl, rfl⟩
  | putByte b => have e : (step s (Op.putByte b)).1 = s := putOp_input _ _ ho; rw [e]; exact ⟨h, rfl, rfl, rfl, rfl, rfl⟩
  | putChars cps => have e : (step s (Op.putChars cps)).1 = s := putOp_input _ _ ho; rw [e]; exact ⟨h, rfl, rfl, rfl, rfl, rfl⟩

theorem good_run : ∀ (ops : List Op) (s : St), Good s → s.output = false → s.ty = .text →
    (∀ op ∈ ops, noReposition op = true) → Good (run s ops).2 ∧ SameStream (run s ops).2 s
  | [], s, h, _, _, _ => ⟨h, rfl, rfl, rfl, rfl, rfl⟩
  | op :: ops, s, h, ho, ht, hops => by
    have h1 := good_step h ho ht op (hops op (List.mem_cons_self))
    obtain ⟨g1, sc, sty, sout, se, sr⟩ := h1
    have ih := good_run ops (step s op).1 g1 (by rw [sout]; exact ho) (by rw [sty]; exact ht)
      (fun o ho' => hops o (List.mem_cons_of_mem _ ho'))
    show Good (run (step s op).1 ops).2 ∧ SameStream (run (step s op).1 ops).2 s
    obtain ⟨g2, c2, t2, o2, e2, r2⟩ := ih
    exact ⟨g2, c2.trans sc, t2.trans sty, o2.trans sout, e2.trans se, r2.trans sr⟩

theorem good_openIn (content : List Nat) (ty : Ty) (eof : EofAction) (r : Bool) : Good (openIn content ty eof r) := by
  refine ⟨Nat.zero_le _, ?_⟩
  show 0 = countNl (content.take 0)
  simp [countNl]



/-! ### round trip: characters -/

theorem encode_ne_nil (cp : Nat) : encode cp ≠ [] := by
  intro h
  have := encode_length cp
  rw [h] at this
  have := (lenUtf8_le cp).1
  simp at *
  omega

theorem rest_advance (s : St) (n : Nat) (l : Nat) :
    rest { s with cur := s.cur + n, lines := l } = (rest s).drop n := by
  unfold rest
  simp [List.drop_drop, Nat.add_comm]

/-- reading `cps.length` characters from a text input stream whose unread bytes are the
    encoding of `cps`. -/
theorem getChars_encodeAll : ∀ (cps : List Nat) (s : St), (∀ c ∈ cps, isScalar c = true) →
    check s .text true = none → s.past = false → s.cur ≤ s.content.length → rest s = encodeAll cps →
    getChars cps.length s = (cps.map (fun c => Res.ok (.char c)),
      { s with cur := s.content.length, lines := s.lines + countNl cps })
  | [], s, _, _, hp, hle, hr => by
    have hl := rest_length s
    rw [hr] at hl
    simp [encodeAll] at hl
    have hcur : s.cur = s.content.length := by omega
    simp only [List.length_nil, getChars, List.map_nil, countNl, Nat.add_zero]
    rw [← hcur]
  | c :: r, s, hs, hc, hp, hle, hr => by
    have hsc : isScalar c = true := hs c (List.mem_cons_self)
    have hd : decodeFirst (rest s) = .ok c (lenUtf8 c) := by
      rw [hr]; exact decodeFirst_encode hsc _
    have hne : s.cur ≠ s.content.length := by
      intro he
      have hl := rest_length s
      rw [hr, he] at hl
      simp [encodeAll] at hl
      exact encode_ne_nil c hl.1
    have hstep : textOp true s = ({ s with cur := s.cur + lenUtf8 c, lines := s.lines + nlCount c }, .ok (.char c)) := by
      rw [textOp_of_none true hc hp]
      unfold textCore
      rw [if_neg hne, hd]
      rfl
    have hrest : rest { s with cur := s.cur + lenUtf8 c, lines := s.lines + nlCount c } = encodeAll r := by
      rw [rest_advance, hr]
      show (encode c ++ encodeAll r).drop (lenUtf8 c) = encodeAll r
      rw [← encode_length c, List.drop_left]
    have hlen : s.cur + lenUtf8 c ≤ s.content.length := by
      have hl := rest_length s
      rw [hr] at hl
      simp only [encodeAll, List.length_append, encode_length] at hl
      omega
    have ih := getChars_encodeAll r { s with cur := s.cur + lenUtf8 c, lines := s.lines + nlCount c }
      (fun x hx => hs x (List.mem_cons_of_mem _ hx)) hc hp hlen hrest
    show getChars (r.length + 1) s = _
    unfold getChars
    rw [hstep]
    simp only
    rw [ih]
    simp [countNl, Nat.add_assoc]



theorem encodeAll_append (a b : List Nat) : encodeAll (a ++ b) = encodeAll a ++ encodeAll b := by
  induction a with
  | nil => rfl
  | cons x r ih => simp [encodeAll, ih, List.append_assoc]

/-- writing characters one by one with `put_char` to a text output stream appends their encodings
    and never fails. -/
theorem run_putChars : ∀ (cps : List Nat) (s : St), s.output = true → s.ty = .text →
    (run s (cps.map Op.putChar)).2 = { s with content := s.content ++ encodeAll cps } ∧
      (run s (cps.map Op.putChar)).1 = cps.map (fun _ => Res.ok .unit)
  | [], s, _, _ => by simp [run, encodeAll]
  | c :: r, s, ho, ht => by
    have hstep : step s (.putChar c) = ({ s with content := s.content ++ encode c }, .ok .unit) := by
      show putOp .text (encode c) s = _
      unfold putOp check
      simp [ho, ht]
    have ih := run_putChars r { s with content := s.content ++ encode c } ho ht
    simp only [List.map_cons, run, hstep]
    rw [ih.1, ih.2]
    simp [encodeAll, List.append_assoc]

theorem run_putBytes : ∀ (bs : List Nat) (s : St), s.output = true → s.ty = .binary →
    (run s (bs.map Op.putByte)).2 = { s with content := s.content ++ bs } ∧
      (run s (bs.map Op.putByte)).1 = bs.map (fun _ => Res.ok .unit)
  | [], s, _, _ => by simp [run]
  | c :: r, s, ho, ht => by
    have hstep : step s (.putByte c) = ({ s with content := s.content ++ [c] }, .ok .unit) := by
      show putOp .binary [c] s = _
      unfold putOp check
      simp [ho, ht]
    have ih := run_putBytes r { s with content := s.content ++ [c] } ho ht
    simp only [List.map_cons, run, hstep]
    rw [ih.1, ih.2]
    simp [List.append_assoc]

theorem check_binary_of {s : St} (ho : s.output = false) (ht : s.ty = .binary) : check s .binary true = none := by
  unfold check; simp [ho, ht]

theorem getBytes_all : ∀ (bs : List Nat) (s : St), check s .binary true = none → s.past = false →
    rest s = bs →
    getBytes bs.length s = (bs.map (fun b => Res.ok (.byte b)), { s with cur := s.cur + bs.length })
  | [], s, _, _, _ => by simp [getBytes]
  | b :: r, s, hc, hp, hr => by
    have hstep : byteOp true s = ({ s with cur := s.cur + 1 }, .ok (.byte b)) := by
      unfold byteOp
      rw [hc]
      show (if s.past = true then _ else byteCore true s) = _
      rw [if_neg (by rw [hp]; exact Bool.false_ne_true)]
      unfold byteCore
      rw [hr]
      rfl
    have hrest : rest { s with cur := s.cur + 1 } = r := by
      have : rest { s with cur := s.cur + 1 } = (rest s).drop 1 := by
        unfold rest; simp [List.drop_drop]
      rw [this, hr]; rfl
    have ih := getBytes_all r { s with cur := s.cur + 1 } hc hp hrest
    show getBytes (r.length + 1) s = _
    unfold getBytes
    rw [hstep]
    simp only
    rw [ih]
    simp [Nat.add_assoc, Nat.add_comm 1]

/-! ### Inv -/
theorem inv_reset (s : St) : Inv (resetSt s) := Or.inl (Nat.zero_le _)

theorem inv_of_good {s : St} (h : Good s) : Inv s := Or.inl h.1

theorem inv_byteCore (c : Bool) {s : St} (h : Inv s) : Inv (byteCore c s).1 := by
  unfold byteCore
  split
  · cases c
    · exact h
    · right; rfl
  · rename_i b tl hr
    cases c
    · exact h
    · rcases h with h | h
      · left
        show s.cur + 1 ≤ s.content.length
        have := rest_length s
        rw [hr] at this
        simp at this
        omega
      · right; exact h



/-! ### past the end: the eof_action table -/
theorem textOp_past {s : St} (c : Bool) (hc : check s .text true = none) (hp : s.past = true) :
    (s.eofAction = .error → textOp c s = (s, .error .inputPastEnd)) ∧
    (s.eofAction = .eofCode → textOp c s = (s, .ok .eof)) ∧
    (s.eofAction = .reset → textOp c s = textCore c (resetSt s)) := by
  unfold textOp; rw [hc]
  refine ⟨fun h => ?_, fun h => ?_, fun h => ?_⟩ <;> simp [hp, h]

theorem byteOp_past {s : St} (c : Bool) (hc : check s .binary true = none) (hp : s.past = true) :
    (s.eofAction = .error → byteOp c s = (s, .error .inputPastEnd)) ∧
    (s.eofAction = .eofCode → byteOp c s = (s, .ok .eof)) ∧
    (s.eofAction = .reset → byteOp c s = byteCore c (resetSt s)) := by
  unfold byteOp; rw [hc]
  refine ⟨fun h => ?_, fun h => ?_, fun h => ?_⟩ <;> simp [hp, h]

/-! ### the file mechanism -/
open Scryer.CharReader in
theorem filePosition_eq {total : Nat} {r : CharReader.St} (h : CharReader.WF r)
    (ht : (CharReader.pending r).length ≤ total) :
    filePosition total r = total - (CharReader.pending r).length := by
  unfold filePosition CharReader.pending
  have := h.1
  simp only [List.length_append, List.length_drop]
  unfold CharReader.pending at ht
  simp only [List.length_append, List.length_drop] at ht
  omega

/-! ### get_n_chars = repeated get_char -/

/-- the characters among a list of results. -/
def charsOf : List Res → List Nat
  | [] => []
  | .ok (.char c) :: r => c :: charsOf r
  | _ :: r => charsOf r

/-- a state in which `get_char` makes no progress (past the end without reset, or invalid bytes
    ahead): it stays there. -/
theorem getChars_stuck : ∀ (n : Nat) (s : St) (x : Res), textOp true s = (s, x) → (∀ c, x ≠ .ok (.char c)) →
    charsOf (getChars n s).1 = [] ∧ (getChars n s).2 = s
  | 0, s, _, _, _ => ⟨rfl, rfl⟩
  | n+1, s, x, h, hx => by
    have ih := getChars_stuck n s x h hx
    unfold getChars
    rw [h]
    simp only
    refine ⟨?_, ih.2⟩
    cases x with
    | ok v =>
      cases v with
      | char c => exact absurd rfl (hx c)
      | _ => exact ih.1
    | error e => exact ih.1
    | fail => exact ih.1

theorem getNChars_text {s : St} (n : Nat) (ho : s.output = false) (ht : s.ty = .text) :
    getNChars n s = ({ s with cur := s.cur + (takeChars n (rest s)).2,
                              lines := s.lines + countNl (takeChars n (rest s)).1 },
                     .ok (.chars (takeChars n (rest s)).1)) := by
  unfold getNChars
  rw [ho, ht]
  rfl

theorem takeChars_eq_getChars : ∀ (n : Nat) (s : St), check s .text true = none → s.past = false →
    s.eofAction ≠ .reset → s.cur ≤ s.content.length →
    (takeChars n (rest s)).1 = charsOf (getChars n s).1 ∧
      (getChars n s).2.cur = s.cur + (takeChars n (rest s)).2 ∧
      (getChars n s).2.lines = s.lines + countNl (takeChars n (rest s)).1
  | 0, s, _, _, _, _ => by simp [takeChars, getChars, charsOf, countNl]
  | n+1, s, hc, hp, hr, hle => by
    rw [show getChars (n+1) s = ((textOp true s).2 :: (getChars n (textOp true s).1).1, (getChars n (textOp true s).1).2) from rfl]
    rw [textOp_of_none true hc hp]
    by_cases he : s.cur = s.content.length
    · -- at the end: get_char returns end_of_file and the stream is past; nothing more is read
      have hrest : rest s = [] := by unfold rest; rw [he]; simp
      have htc : textCore true s = ({ s with past := true }, .ok .eof) := by
        unfold textCore; rw [if_pos he]; rfl
      have hstuck : textOp true { s with past := true } = ({ s with past := true }, match s.eofAction with
          | .error => Res.error .inputPastEnd | .eofCode => .ok .eof | .reset => .ok .eof) := by
        unfold textOp
        rw [show check { s with past := true } .text true = check s .text true from rfl, hc]
        simp only [if_true]
        cases hea : s.eofAction
        · rfl
        · rfl
        · exact absurd hea hr
      have hx : ∀ c, (match s.eofAction with
          | .error => Res.error .inputPastEnd | .eofCode => .ok .eof | .reset => .ok .eof) ≠ .ok (.char c) := by
        intro c; cases s.eofAction <;> simp
      have st := getChars_stuck n _ _ hstuck hx
      rw [htc, hrest]
      simp only [takeChars, decodeFirst, charsOf, st.1, st.2, countNl, Nat.add_zero, and_self]
    · cases hd : decodeFirst (rest s) with
      | ok cp k =>
        have htc : textCore true s = ({ s with cur := s.cur + k, lines := s.lines + nlCount cp }, .ok (.char cp)) := by
          unfold textCore; rw [if_neg he, hd]; rfl
        have hok := decodeFirst_ok hd
        have hlen := hok.2.1
        rw [rest_length] at hlen
        have ih := takeChars_eq_getChars n { s with cur := s.cur + k, lines := s.lines + nlCount cp } hc hp hr
          (by show s.cur + k ≤ s.content.length; omega)
        rw [rest_advance] at ih
        rw [htc]
        simp only [takeChars, hd, charsOf]
        obtain ⟨i1, i2, i3⟩ := ih
        refine ⟨by rw [i1], ?_, ?_⟩
        · rw [i2]; show s.cur + k + _ = _; omega
        · rw [i3]; show s.lines + nlCount cp + _ = _; simp [countNl, Nat.add_assoc]
      | invalid k =>
        have htc : textCore true s = (s, .error .badEncoding) := by
          unfold textCore; rw [if_neg he, hd]
        have st := getChars_stuck n s _ (by rw [textOp_of_none true hc hp]; exact htc) (by intro c; simp)
        rw [htc]
        simp only [takeChars, hd, charsOf, st.1, st.2, countNl, Nat.add_zero, and_self]
      | incomplete =>
        have htc : textCore true s = (s, .error .badEncoding) := by
          unfold textCore; rw [if_neg he, hd]
        have st := getChars_stuck n s _ (by rw [textOp_of_none true hc hp]; exact htc) (by intro c; simp)
        rw [htc]
        simp only [takeChars, hd, charsOf, st.1, st.2, countNl, Nat.add_zero, and_self]



theorem getChars_append_one : ∀ (n : Nat) (s : St),
    getChars (n+1) s = ((getChars n s).1 ++ [(textOp true (getChars n s).2).2], (textOp true (getChars n s).2).1)
  | 0, s => rfl
  | n+1, s => by
    have ih := getChars_append_one n (textOp true s).1
    show ((textOp true s).2 :: (getChars (n+1) (textOp true s).1).1, (getChars (n+1) (textOp true s).1).2) = _
    rw [ih]
    rfl

end Scryer.Stream
