import ScryerModel.Proofs.CharReader
import ScryerModel.Model.Stream
/-! Lemmas for C19 (`Model/Stream.lean`). -/
namespace Scryer.Stream
open Scryer.Utf8

theorem textCore_result_eq (s : St) : (textCore true s).2 = (textCore false s).2 := by
  unfold textCore
  split
  · rfl
  · split <;> rfl

theorem textOp_result_eq (s : St) : (textOp true s).2 = (textOp false s).2 := by
  unfold textOp
  split
  · rfl
  · split
    · split
      · rfl
      · rfl
      · exact textCore_result_eq _
    · exact textCore_result_eq _
theorem rest_length (s : St) : (rest s).length = s.content.length - s.cur := by
  unfold rest; simp

theorem check_text_none {s : St} (h : check s .text true = none) : s.output = false ∧ s.ty = .text := by
  unfold check at h
  simp only [if_true] at h
  cases ho : s.output
  · simp only [ho] at h
    by_cases ht : s.ty = .text
    · exact ⟨rfl, ht⟩
    · simp [ht] at h
  · simp [ho] at h

theorem check_text_of {s : St} (ho : s.output = false) (ht : s.ty = .text) : check s .text true = none := by
  unfold check; simp [ho, ht]

theorem check_reset (s : St) (t : Ty) (b : Bool) : check (resetSt s) t b = check s t b := rfl

/-! ### peeking -/

theorem textCore_peek_state (s : St) : (textCore false s).1 = s := by
  unfold textCore
  split
  · rfl
  · split <;> rfl

theorem textOp_peek_state_cases (s : St) :
    (textOp false s).1 = s ∨
      (s.past = true ∧ s.eofAction = .reset ∧ check s .text true = none ∧ (textOp false s).1 = resetSt s) := by
  unfold textOp
  split
  · left; rfl
  · rename_i hc
    split
    · rename_i hp
      split
      · left; rfl
      · left; rfl
      · rename_i hr
        right; exact ⟨hp, hr, hc, textCore_peek_state _⟩
    · left; exact textCore_peek_state _

theorem textOp_peek_state (s : St) (h : s.past = false ∨ s.eofAction ≠ .reset) : (textOp false s).1 = s := by
  rcases textOp_peek_state_cases s with h1 | ⟨hp, hr, _, _⟩
  · exact h1
  · rcases h with h | h
    · rw [hp] at h; cases h
    · exact absurd hr h

theorem textOp_of_none {s : St} (c : Bool) (hc : check s .text true = none) (hp : s.past = false) :
    textOp c s = textCore c s := by
  unfold textOp; rw [hc]; simp [hp]

theorem textOp_reset {s : St} (c : Bool) (hc : check s .text true = none) (hp : s.past = true)
    (hr : s.eofAction = .reset) : textOp c s = textCore c (resetSt s) := by
  unfold textOp; rw [hc]; simp [hp, hr]

theorem textOp_peek_then (c : Bool) (s : St) : textOp c (textOp false s).1 = textOp c s := by
  rcases textOp_peek_state_cases s with h1 | ⟨hp, hr, hc, h2⟩
  · rw [h1]
  · rw [h2, textOp_reset c hc hp hr, textOp_of_none c (by rw [check_reset]; exact hc) rfl]


/-! ### bytes -/
theorem byteCore_result_eq (s : St) : (byteCore true s).2 = (byteCore false s).2 := by
  unfold byteCore; split <;> rfl

theorem byteCore_peek_state (s : St) : (byteCore false s).1 = s := by
  unfold byteCore; split <;> rfl

theorem byteOp_result_eq (s : St) : (byteOp true s).2 = (byteOp false s).2 := by
  unfold byteOp
  split
  · rfl
  · split
    · split
      · rfl
      · rfl
      · exact byteCore_result_eq _
    · exact byteCore_result_eq _

theorem byteOp_peek_state (s : St) (h : s.past = false ∨ s.eofAction ≠ .reset) : (byteOp false s).1 = s := by
  unfold byteOp
  split
  · rfl
  · split
    · rename_i hp
      split
      · rfl
      · rfl
      · rename_i hr
        rcases h with h | h
        · rw [hp] at h; cases h
        · exact absurd hr h
    · exact byteCore_peek_state _

/-! ### at_end_of_stream -/
theorem atEnd_iff_peek_eof {s : St} (hc : check s .text true = none) (hp : s.past = false) (hi : Inv s) :
    atEnd s = true ↔ (textOp false s).2 = .ok .eof := by
  have ⟨ho, _⟩ := check_text_none hc
  have hle : s.cur ≤ s.content.length := by
    rcases hi with h | h
    · exact h
    · rw [hp] at h; cases h
  rw [textOp_of_none false hc hp]
  unfold atEnd endPos textCore
  simp only [ho, hp, Bool.not_false, Bool.true_and, Bool.false_eq_true, if_false]
  by_cases he : s.cur = s.content.length
  · simp [he]
  · have hlt : s.cur < s.content.length := by omega
    simp only [he, hlt, if_false, if_true]
    constructor
    · intro h; simp at h
    · intro h
      split at h <;> simp at h

/-! ### what a successful get does -/
theorem textCore_get_char {s s' : St} {cp : Nat} (h : textCore true s = (s', .ok (.char cp))) :
    s'.cur = s.cur + lenUtf8 cp ∧ (rest s).take (lenUtf8 cp) = encode cp ∧
      s'.lines = s.lines + nlCount cp ∧ s'.past = s.past ∧ s'.content = s.content ∧
      s.cur + lenUtf8 cp ≤ s.content.length := by
  unfold textCore at h
  split at h
  · simp at h
  · split at h
    · rename_i cp' n hd
      simp only [if_true, Prod.mk.injEq, Res.ok.injEq, Val.char.injEq] at h
      obtain ⟨hs, hcp⟩ := h
      subst hcp
      have hok := decodeFirst_ok hd
      have hn : n = lenUtf8 cp' := hok.1
      have hlen := hok.2.1
      rw [rest_length] at hlen
      subst hs
      refine ⟨by simp [hn], ?_, by simp, rfl, rfl, ?_⟩
      · rw [← hn]; exact decodeFirst_ok_take hd
      · rw [← hn]; omega
    · simp at h

theorem countNl_append (a b : List Nat) : countNl (a ++ b) = countNl a + countNl b := by
  induction a with
  | nil => simp [countNl]
  | cons x r ih => simp [countNl, ih, Nat.add_assoc]

theorem countNl_encode (cp : Nat) : countNl (encode cp) = nlCount cp := by
  unfold encode
  split
  · simp [countNl]
  · rename_i h1
    have hne : nlCount cp = 0 := by unfold nlCount; split <;> omega
    rw [hne]
    split
    · simp only [countNl, nlCount]
      split <;> split <;> omega
    · split
      · simp only [countNl, nlCount]
        split <;> split <;> split <;> omega
      · simp only [countNl, nlCount]
        split <;> split <;> split <;> split <;> omega

theorem take_add_rest (s : St) (n : Nat) :
    s.content.take (s.cur + n) = s.content.take s.cur ++ (rest s).take n := by
  unfold rest
  rw [List.take_add]

/-- the newline count of the consumed prefix after consuming `n` more bytes. -/
theorem countNl_take_add (s : St) (n : Nat) :
    countNl (s.content.take (s.cur + n)) = countNl (s.content.take s.cur) + countNl ((rest s).take n) := by
  rw [take_add_rest, countNl_append]

theorem takeWhile_append_drop (p : Nat → Bool) (l : List Nat) :
    l.takeWhile p ++ l.drop (l.takeWhile p).length = l := by
  induction l with
  | nil => rfl
  | cons a r ih =>
    by_cases h : p a = true
    · simp [h, ih]
    · simp [h]

/-- `takeChars`: the characters taken span `m` bytes of the input, and contain as many newline
    characters as these bytes contain newline bytes. -/
theorem takeChars_spec : ∀ (n : Nat) (l : List Nat),
    (takeChars n l).2 ≤ l.length ∧ countNl (l.take (takeChars n l).2) = countNl (takeChars n l).1
  | 0, l => by simp [takeChars, countNl]
  | n+1, l => by
    unfold takeChars
    split
    · rename_i cp k hd
      have hok := decodeFirst_ok hd
      have ih := takeChars_spec n (l.drop k)
      simp only
      constructor
      · have := ih.1; simp at this; omega
      · rw [List.take_add, countNl_append, ih.2, decodeFirst_ok_take hd, countNl_encode]
        simp [countNl]
    · simp [countNl]


/-- the strong invariant of input text streams that are never repositioned. -/
def Good (s : St) : Prop := s.cur ≤ s.content.length ∧ LinesInv s

theorem good_reset (s : St) : Good (resetSt s) := by
  refine ⟨Nat.zero_le _, ?_⟩
  show 0 = countNl (s.content.take 0)
  simp [countNl]

theorem good_textCore (c : Bool) {s : St} (h : Good s) :
    Good (textCore c s).1 ∧ (textCore c s).1.content = s.content := by
  unfold textCore
  split
  · cases c
    · exact ⟨h, rfl⟩
    · exact ⟨⟨h.1, h.2⟩, rfl⟩
  · split
    · rename_i cp n hd
      cases c
      · exact ⟨h, rfl⟩
      · have hok := decodeFirst_ok hd
        have hlen := hok.2.1
        rw [rest_length] at hlen
        refine ⟨⟨?_, ?_⟩, rfl⟩
        · show s.cur + n ≤ s.content.length
          have := h.1; have := hok.2.2.1; omega
        · show s.lines + nlCount cp = countNl (s.content.take (s.cur + n))
          rw [countNl_take_add, decodeFirst_ok_take hd, countNl_encode, ← h.2]
    · exact ⟨h, rfl⟩

theorem good_textOp (c : Bool) {s : St} (h : Good s) :
    Good (textOp c s).1 ∧ (textOp c s).1.content = s.content := by
  unfold textOp
  split
  · exact ⟨h, rfl⟩
  · split
    · split
      · exact ⟨h, rfl⟩
      · exact ⟨h, rfl⟩
      · exact good_textCore c (good_reset s)
    · exact good_textCore c h

theorem good_getNChars (n : Nat) {s : St} (h : Good s) (ht : s.ty = .text) :
    Good (getNChars n s).1 ∧ (getNChars n s).1.content = s.content := by
  unfold getNChars
  split
  · exact ⟨h, rfl⟩
  · rw [ht]
    simp only
    have sp := takeChars_spec n (rest s)
    rw [rest_length] at sp
    refine ⟨⟨?_, ?_⟩, trivial⟩
    · show s.cur + (takeChars n (rest s)).2 ≤ s.content.length
      have := h.1; omega
    · show s.lines + countNl (takeChars n (rest s)).1 = countNl (s.content.take (s.cur + (takeChars n (rest s)).2))
      rw [countNl_take_add, sp.2, ← h.2]

theorem good_advance {s : St} (h : Good s) (pre suf : List Nat) (hr : rest s = pre ++ suf) :
    Good { s with cur := s.cur + pre.length, lines := s.lines + countNl pre } := by
  have hl := rest_length s
  rw [hr] at hl
  simp only [List.length_append] at hl
  refine ⟨?_, ?_⟩
  · show s.cur + pre.length ≤ s.content.length
    have := h.1; omega
  · show s.lines + countNl pre = countNl (s.content.take (s.cur + pre.length))
    rw [countNl_take_add, hr, List.take_left', ← h.2]
    rfl

theorem good_readCore {s : St} (h : Good s) :
    Good (readCore s).1 ∧ (readCore s).1.content = s.content := by
  unfold readCore
  simp only
  have e1 := takeWhile_append_drop isLayout (rest s)
  split
  · split
    · exact ⟨⟨h.1, h.2⟩, rfl⟩
    · exact ⟨good_advance h _ _ e1.symm, rfl⟩
  · have e2 := takeWhile_append_drop (fun b => b != 46) ((rest s).drop ((rest s).takeWhile isLayout).length)
    split
    · rename_i after hd
      rw [hd] at e2
      refine ⟨?_, rfl⟩
      cases after with
      | nil =>
        have hr : rest s = ((rest s).takeWhile isLayout ++ ((rest s).drop ((rest s).takeWhile isLayout).length).takeWhile (fun b => b != 46) ++ [46]) ++ [] := by
          rw [List.append_nil, List.append_assoc, e2, e1]
        have := good_advance h _ _ hr
        simpa [countNl_append, countNl, nlCount, Nat.add_assoc] using this
      | cons x a' =>
        by_cases hx : x = 10
        · subst hx
          have hr : rest s = ((rest s).takeWhile isLayout ++ ((rest s).drop ((rest s).takeWhile isLayout).length).takeWhile (fun b => b != 46) ++ [46, 10]) ++ a' := by
            rw [List.append_assoc, List.append_assoc]
            simp only [List.cons_append, List.nil_append]
            rw [e2, e1]
          have := good_advance h _ _ hr
          simpa [countNl_append, countNl, nlCount, Nat.add_assoc] using this
        · have hr : rest s = ((rest s).takeWhile isLayout ++ ((rest s).drop ((rest s).takeWhile isLayout).length).takeWhile (fun b => b != 46) ++ [46]) ++ (x :: a') := by
            rw [List.append_assoc, List.append_assoc]
            simp only [List.cons_append, List.nil_append]
            rw [e2, e1]
          have := good_advance h _ _ hr
          simpa [countNl_append, countNl, nlCount, Nat.add_assoc, hx] using this
    · refine ⟨?_, rfl⟩
      have hr : rest s = ((rest s).takeWhile isLayout ++ ((rest s).drop ((rest s).takeWhile isLayout).length).takeWhile (fun b => b != 46)) ++ ((rest s).drop ((rest s).takeWhile isLayout).length).drop (((rest s).drop ((rest s).takeWhile isLayout).length).takeWhile (fun b => b != 46)).length := by
        rw [List.append_assoc, e2, e1]
      have := good_advance h _ _ hr
      simpa [countNl_append, Nat.add_assoc] using this


end Scryer.Stream
