import ScryerModel.Model.Cwil
/-! Helper lemmas for property C40 (Model/Cwil.lean). -/
namespace Scryer.Cwil
open Scryer Scryer.Solve

variable (bind : String → St → Option St) (s0 : St)

@[simp] theorem ticks_nil : ticks [] = 0 := rfl
@[simp] theorem ticks_tick (es : List Ev) : ticks (.tick :: es) = ticks es + 1 := rfl
@[simp] theorem ticks_probe (es : List Ev) : ticks (.probe :: es) = ticks es := rfl
@[simp] theorem ticks_ans (s : St) (es : List Ev) : ticks (.ans s :: es) = ticks es := rfl

theorem ticks_append (a b : List Ev) : ticks (a ++ b) = ticks a + ticks b := by
  induction a with
  | nil => simp
  | cons e a ih => cases e <;> simp [ih] <;> omega

@[simp] theorem cons_evs (e : Ev) (r : Res) : (r.cons e).evs = e :: r.evs := rfl
@[simp] theorem cons_fin (e : Ev) (r : Res) : (r.cons e).fin = r.fin := rfl

theorem ticks_exceeded : ticks (exceededRes bind s0).evs = 0 := by
  unfold exceededRes; split <;> simp

theorem exceeded_fin : (exceededRes bind s0).fin = .done := by
  unfold exceededRes; split <;> rfl

theorem ticks_emitAns (a : String) (s : St) (r : Res) : ticks (emitAns bind a s r).evs = ticks r.evs := by
  unfold emitAns; split <;> simp

theorem ticks_ansStep_le (s : St) (es : List Ev) (fin : Fin) (r : Res) :
    ticks (ansStep bind s es fin r).evs ≤ ticks r.evs := by
  unfold ansStep; split
  · simp
  · rw [ticks_emitAns]; exact Nat.le_refl _

/-! ### fires / passed -/

theorem fires_mono : ∀ (es : List Ev) (b b' : Nat), b ≤ b' → fires b' es = true → fires b es = true := by
  intro es
  induction es with
  | nil => intro b b' _ h; simp [fires] at h
  | cons e es ih =>
    intro b b' hb h
    cases e with
    | tick =>
      cases b with
      | zero => simp [fires]
      | succ b =>
        cases b' with
        | zero => omega
        | succ b' => simp only [fires] at h ⊢; exact ih b b' (by omega) h
    | probe =>
      cases b with
      | zero => simp [fires]
      | succ b =>
        cases b' with
        | zero => omega
        | succ b' => simp only [fires] at h ⊢; exact ih (b+1) (b'+1) (by omega) h
    | ans s => simp only [fires] at h ⊢; exact ih b b' hb h

/-- when the limit fires the whole budget has been used. -/
theorem ticks_passed_of_fires : ∀ (es : List Ev) (b : Nat), fires b es = true → ticks (passed b es) = b := by
  intro es
  induction es with
  | nil => intro b h; simp [fires] at h
  | cons e es ih =>
    intro b h
    cases e with
    | tick =>
      cases b with
      | zero => simp [passed]
      | succ b => simp only [fires] at h; simp [passed, ih b h]
    | probe =>
      cases b with
      | zero => simp [passed]
      | succ b => simp only [fires] at h; simp [passed, ih (b+1) h]
    | ans s => simp only [fires] at h; simp [passed, ih b h]

theorem passed_of_not_fires : ∀ (es : List Ev) (b : Nat), fires b es = false → passed b es = es := by
  intro es
  induction es with
  | nil => intro b _; rfl
  | cons e es ih =>
    intro b h
    cases e with
    | tick =>
      cases b with
      | zero => simp [fires] at h
      | succ b => simp only [fires] at h; simp [passed, ih b h]
    | probe =>
      cases b with
      | zero => simp [fires] at h
      | succ b => simp only [fires] at h; simp [passed, ih (b+1) h]
    | ans s => simp only [fires] at h; simp [passed, ih b h]

/-- without inner limits the limit fires exactly when the goal needs more inferences than `b`. -/
theorem fires_iff_ticks : ∀ (es : List Ev) (b : Nat), hasProbe es = false → (fires b es = true ↔ b < ticks es) := by
  intro es
  induction es with
  | nil => intro b _; simp [fires]
  | cons e es ih =>
    intro b hp
    cases e with
    | tick =>
      simp only [hasProbe] at hp
      cases b with
      | zero => simp [fires]
      | succ b => simp only [fires, ticks_tick]; rw [ih b hp]; omega
    | probe => simp [hasProbe] at hp
    | ans s => simp only [hasProbe] at hp; simp only [fires, ticks_ans]; exact ih b hp

theorem fires_of_lt : ∀ (es : List Ev) (b : Nat), ticks es < b → fires b es = false := by
  intro es
  induction es with
  | nil => intro b _; rfl
  | cons e es ih =>
    intro b h
    cases e with
    | tick =>
      cases b with
      | zero => omega
      | succ b => simp only [fires]; exact ih b (by simp at h; omega)
    | probe =>
      cases b with
      | zero => omega
      | succ b => simp only [fires]; exact ih (b+1) (by simpa using h)
    | ans s => simp only [fires]; exact ih b (by simpa using h)

/-! ### the two shapes of a limited trace -/

/-- the limit does not fire: the limited trace is the trace of `call(G)` with `R` added. -/
theorem limitGo_of_not_fires : ∀ (es : List Ev) (b : Nat) (fin : Fin), fires b es = false →
    limitGo bind s0 b es fin = passGo bind es fin := by
  intro es
  induction es with
  | nil => intro b fin _; simp [limitGo, passGo]
  | cons e es ih =>
    intro b fin h
    cases e with
    | tick =>
      cases b with
      | zero => simp [fires] at h
      | succ b => simp only [fires] at h; simp [limitGo, passGo, ih b fin h]
    | probe =>
      cases b with
      | zero => simp [fires] at h
      | succ b => simp only [fires] at h; simp [limitGo, passGo, ih (b+1) fin h]
    | ans s => simp only [fires] at h; simp [limitGo, passGo, ih b fin h]

theorem annotTrue_append (a b : List Ev) : annotTrue bind (a ++ b) = annotTrue bind a ++ annotTrue bind b := by
  induction a with
  | nil => rfl
  | cons e a ih =>
    cases e with
    | tick => simp [annotTrue, ih]
    | probe => simp [annotTrue, ih]
    | ans s => simp only [List.cons_append, annotTrue]; split <;> simp [ih]

theorem fires_ne_nil {b : Nat} {es : List Ev} (h : fires b es = true) : es ≠ [] := by
  intro e; subst e; simp [fires] at h

/-- the limit fires: what was delivered before is the consumed part of the goal's trace with
`R = true` on every solution (a choice point is certainly left: the search goes on), followed by
the `inference_limit_exceeded` solution; nothing is left to retry. -/
theorem limitGo_of_fires : ∀ (es : List Ev) (b : Nat) (fin : Fin), fires b es = true →
    limitGo bind s0 b es fin =
      ⟨annotTrue bind (passed b es) ++ (exceededRes bind s0).evs, .done⟩ := by
  intro es
  induction es with
  | nil => intro b fin h; simp [fires] at h
  | cons e es ih =>
    intro b fin h
    cases e with
    | tick =>
      cases b with
      | zero => simp [limitGo, passed, annotTrue]; rw [← exceeded_fin bind s0]
      | succ b =>
        simp only [fires] at h
        simp [limitGo, passed, annotTrue, ih b fin h, Res.cons]
    | probe =>
      cases b with
      | zero => simp [limitGo, passed, annotTrue]; rw [← exceeded_fin bind s0]
      | succ b =>
        simp only [fires] at h
        simp [limitGo, passed, annotTrue, ih (b+1) fin h, Res.cons]
    | ans s =>
      simp only [fires] at h
      have hne := fires_ne_nil h
      simp only [limitGo, passed, annotTrue, ih b fin h]
      unfold ansStep
      split
      · exact absurd rfl hne
      · have hr : rAtom es fin = "true" := by
          unfold rAtom
          split
          · exact absurd rfl hne
          · rfl
        rw [hr]
        unfold emitAns
        split <;> simp_all [Res.cons]

/-! ### passGo -/

theorem ticks_passGo_le : ∀ (es : List Ev) (fin : Fin), ticks (passGo bind es fin).evs ≤ ticks es := by
  intro es
  induction es with
  | nil => intro fin; simp [passGo]
  | cons e es ih =>
    intro fin
    cases e with
    | tick => simp [passGo]; exact ih fin
    | probe => simp [passGo]; exact ih fin
    | ans s => simp only [passGo, ticks_ans]; exact Nat.le_trans (ticks_ansStep_le ..) (ih fin)

/-- an undecided last solution is the only way a tick count can change. -/
theorem ticks_passGo : ∀ (es : List Ev) (fin : Fin), ticks (passGo bind es fin).evs = ticks es := by
  intro es
  induction es with
  | nil => intro fin; simp [passGo]
  | cons e es ih =>
    intro fin
    cases e with
    | tick => simp [passGo, ih fin]
    | probe => simp [passGo, ih fin]
    | ans s =>
      simp only [passGo, ticks_ans]
      unfold ansStep
      split
      · simp
      · rw [ticks_emitAns]; exact ih fin

theorem ticks_annotTrue (es : List Ev) : ticks (annotTrue bind es) = ticks es := by
  induction es with
  | nil => rfl
  | cons e es ih =>
    cases e with
    | tick => simp [annotTrue, ih]
    | probe => simp [annotTrue, ih]
    | ans s => simp only [annotTrue, ticks_ans]; split <;> simp [ih]

/-- `passed` is monotone in the budget (as a prefix). -/
theorem passed_prefix : ∀ (es : List Ev) (b b' : Nat), b ≤ b' → ∃ t, passed b' es = passed b es ++ t := by
  intro es
  induction es with
  | nil => intro b b' _; exact ⟨[], rfl⟩
  | cons e es ih =>
    intro b b' hb
    cases e with
    | tick =>
      cases b with
      | zero => exact ⟨passed b' (.tick :: es), by simp [passed]⟩
      | succ b =>
        cases b' with
        | zero => omega
        | succ b' =>
          obtain ⟨t, ht⟩ := ih b b' (by omega)
          exact ⟨t, by simp [passed, ht]⟩
    | probe =>
      cases b with
      | zero => exact ⟨passed b' (.probe :: es), by simp [passed]⟩
      | succ b =>
        cases b' with
        | zero => omega
        | succ b' =>
          obtain ⟨t, ht⟩ := ih (b+1) (b'+1) (by omega)
          exact ⟨t, by simp [passed, ht]⟩
    | ans s =>
      obtain ⟨t, ht⟩ := ih b b' hb
      exact ⟨t, by simp [passed, ht]⟩

/-- in the unlimited trace the part before a firing point is annotated with `true` as well. -/
theorem passGo_prefix_of_fires : ∀ (es : List Ev) (b : Nat) (fin : Fin), fires b es = true →
    ∃ t, (passGo bind es fin).evs = annotTrue bind (passed b es) ++ t := by
  intro es
  induction es with
  | nil => intro b fin h; simp [fires] at h
  | cons e es ih =>
    intro b fin h
    cases e with
    | tick =>
      cases b with
      | zero => exact ⟨(passGo bind (.tick :: es) fin).evs, by simp [passed, annotTrue]⟩
      | succ b =>
        simp only [fires] at h
        obtain ⟨t, ht⟩ := ih b fin h
        exact ⟨t, by simp [passGo, passed, annotTrue, ht]⟩
    | probe =>
      cases b with
      | zero => exact ⟨(passGo bind (.probe :: es) fin).evs, by simp [passed, annotTrue]⟩
      | succ b =>
        simp only [fires] at h
        obtain ⟨t, ht⟩ := ih (b+1) fin h
        exact ⟨t, by simp [passGo, passed, annotTrue, ht]⟩
    | ans s =>
      simp only [fires] at h
      have hne := fires_ne_nil h
      obtain ⟨t, ht⟩ := ih b fin h
      refine ⟨t, ?_⟩
      simp only [passGo, passed, annotTrue]
      unfold ansStep
      split
      · exact absurd rfl hne
      · have hr : rAtom es fin = "true" := by
          unfold rAtom
          split
          · exact absurd rfl hne
          · rfl
        rw [hr]
        unfold emitAns
        split <;> simp_all [Res.cons]

end Scryer.Cwil

namespace Scryer.Cwil
open Scryer Scryer.Solve
variable (bind : String → St → Option St) (s0 : St)

theorem fires_exceeded (bo : Nat) : fires bo (exceededRes bind s0).evs = (bo == 0) := by
  unfold exceededRes
  split <;> cases bo <;> simp [fires]

theorem fires_emitAns (bo : Nat) (a : String) (s : St) (r : Res) :
    fires bo (emitAns bind a s r).evs = fires bo r.evs := by
  unfold emitAns; split <;> simp [fires]

/-- two nested limits on a goal without further inner limits: the outer one fires iff it is at
least as tight as the inner one (a tie goes to the outer limit) and the goal needs more. -/
theorem fires_nested : ∀ (es : List Ev) (bo bi : Nat) (fin : Fin), hasProbe es = false →
    fires bo (limitGo bind s0 bi es fin).evs = (decide (bo ≤ bi) && fires bo es) := by
  intro es
  induction es with
  | nil => intro bo bi fin _; simp [limitGo, fires]
  | cons e es ih =>
    intro bo bi fin hp
    cases e with
    | probe => simp [hasProbe] at hp
    | tick =>
      simp only [hasProbe] at hp
      cases bi with
      | zero =>
        simp only [limitGo, fires_exceeded]
        cases bo <;> simp [fires]
      | succ bi =>
        simp only [limitGo, cons_evs]
        cases bo with
        | zero => simp [fires]
        | succ bo => simp only [fires]; rw [ih bo bi fin hp]; simp
    | ans s =>
      simp only [hasProbe] at hp
      simp only [limitGo, fires]
      unfold ansStep
      split
      · simp [fires]
      · rw [fires_emitAns]; exact ih bo bi fin hp

end Scryer.Cwil
