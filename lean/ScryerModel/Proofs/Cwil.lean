import ScryerModel.Model.Cwil
/-! Helper lemmas for property C40 (Model/Cwil.lean). -/
namespace Scryer.Cwil
open Scryer Scryer.Solve

@[simp] theorem ticks_nil : ticks [] = 0 := rfl
@[simp] theorem ticks_tick (es : List Ev) : ticks (.tick :: es) = ticks es + 1 := rfl
@[simp] theorem ticks_probe (es : List Ev) : ticks (.probe :: es) = ticks es := rfl
@[simp] theorem ticks_ans (s : St) (es : List Ev) : ticks (.ans s :: es) = ticks es := rfl

end Scryer.Cwil
