import ScryerModel.Model.Loader
/-
Helper lemmas for C35: assignment tables (last write wins), the closed form of the per-predicate
load (`loadKey = specKey` for texts whose declarations precede the clauses) and its idempotence.
-/
namespace Scryer.Loader

/-! ## foreign / ownCls -/

@[simp] theorem foreign_nil (src : Src) : foreign src [] = [] := rfl

theorem foreign_append (src : Src) (a b : List Cl) :
    foreign src (a ++ b) = foreign src a ++ foreign src b := by
  simp [foreign]

theorem foreign_ownCls (src : Src) (vs : List Nat) : foreign src (ownCls src vs) = [] := by
  induction vs with
  | nil => rfl
  | cons v vs ih =>
    simp only [ownCls, List.map_cons, foreign, List.filter_cons] at ih ⊢
    simp [ih]

theorem foreign_idem (src : Src) (cs : List Cl) : foreign src (foreign src cs) = foreign src cs := by
  simp [foreign]

theorem foreign_of_not_any (src : Src) (cs : List Cl)
    (h : cs.any (fun c => c.own == src) = false) : foreign src cs = cs := by
  induction cs with
  | nil => rfl
  | cons c cs ih =>
    simp only [List.any_cons, Bool.or_eq_false_iff] at h
    simp only [foreign, List.filter_cons]
    have : (c.own != src) = true := by simp [bne, h.1]
    simp only [this, if_true]
    congr 1
    exact ih h.2

/-- the retraction of the source's clauses, whichever way the guard evaluates. -/
theorem retract_own (src : Src) (cs : List Cl) :
    (if cs.any (fun c => c.own == src) = true then foreign src cs else cs) = foreign src cs := by
  by_cases h : cs.any (fun c => c.own == src) = true
  · simp [h]
  · simp only [h, if_false]
    exact (foreign_of_not_any src cs (by simpa using h)).symm

theorem ownCls_append (src : Src) (a b : List Nat) :
    ownCls src (a ++ b) = ownCls src a ++ ownCls src b := by
  simp [ownCls]

/-! ## assignment tables -/

theorem applyAssigns_eq (as : List (Nat × Option Nat)) (t : Tbl) (o : Nat) :
    applyAssigns as t o = match lastAssign o as with
      | some v => v
      | none => t o := by
  induction as generalizing t with
  | nil => rfl
  | cons a as ih =>
    simp only [applyAssigns, List.foldl_cons] at ih ⊢
    rw [ih (upd t a)]
    simp only [lastAssign]
    cases h : lastAssign o as with
    | some v => rfl
    | none =>
      by_cases ho : o = a.1
      · simp [upd, ho]
      · simp [upd, ho]

theorem lastAssign_none_iff (o : Nat) (as : List (Nat × Option Nat)) :
    lastAssign o as = none ↔ mentions o as = false := by
  induction as with
  | nil => simp [lastAssign, mentions]
  | cons a as ih =>
    simp only [lastAssign, mentions, List.any_cons] at ih ⊢
    cases h : lastAssign o as with
    | some v =>
      have : ¬ (as.any (fun a => a.1 == o) = false) := by
        intro hc; have := ih.mpr hc; simp [h] at this
      simp only [Bool.or_eq_false_iff]
      constructor
      · intro hc; cases hc
      · intro hc; exact absurd hc.2 this
    | none =>
      have h2 := ih.mp h
      by_cases ho : o = a.1
      · subst ho; simp
      · have : (a.1 == o) = false := by simp [beq_eq_false_iff_ne]; exact fun e => ho e.symm
        simp [ho, this, h2]

/-- erasing the entries a source owned and re-applying its assignments, twice = once. -/
theorem assigns_idem (as : List (Nat × Option Nat)) (own : Nat → Bool) (t : Tbl) :
    applyAssigns as (fun o => if mentions o as then none
        else applyAssigns as (fun o => if own o then none else t o) o)
      = applyAssigns as (fun o => if own o then none else t o) := by
  funext o
  rw [applyAssigns_eq, applyAssigns_eq]
  cases h : lastAssign o as with
  | some v => rfl
  | none =>
    have hm := (lastAssign_none_iff o as).mp h
    simp only [hm]
    simp

theorem assigns_twice (as : List (Nat × Option Nat)) (t : Tbl) :
    applyAssigns as (applyAssigns as t) = applyAssigns as t := by
  funext o
  rw [applyAssigns_eq, applyAssigns_eq]
  cases h : lastAssign o as with
  | some v => rfl
  | none => simp [h]

/-! ## well-formedness is preserved -/

/-- well-formed predicate records, with the code index invariant. -/
def Pred.wf2 (p : Pred) : Prop := p.wf ∧ (p.tracked = true → p.defined = true)

theorem setFl_fields (p : Pred) (f : Fl) :
    (p.setFl f).ext = p.ext ∧ (p.setFl f).tracked = p.tracked ∧ (p.setFl f).cls = p.cls ∧
    (p.setFl f).defined = p.defined := by
  cases f <;> simp [Pred.setFl]

theorem stepK_wf2 (src : Src) (p : Pred) (e : KEv) (h : p.wf2) : (stepK src p e).wf2 := by
  obtain ⟨⟨h1, h2, h3⟩, h4⟩ := h
  cases e with
  | decl f =>
    cases f <;> simp only [stepK, Pred.wf2, Pred.wf, Pred.setFl] <;>
      (split <;> simp_all)
  | group vs =>
    simp only [stepK, Pred.wf2, Pred.wf]
    split
    · simp_all
    · refine ⟨⟨?_, ?_, ?_⟩, ?_⟩ <;> simp_all

theorem wipeK_wf2 (src : Src) (inS : Bool) (p : Pred) (h : p.wf2) : (wipeK src inS p).wf2 := by
  obtain ⟨⟨h1, h2, h3⟩, h4⟩ := h
  simp only [wipeK, Pred.wf2, Pred.wf]
  split
  · split <;> simp_all
  · split
    · refine ⟨⟨?_, ?_, ?_⟩, ?_⟩ <;> simp_all
    · simp_all

theorem foldl_stepK_wf2 (src : Src) (evs : List KEv) (p : Pred) (h : p.wf2) :
    (evs.foldl (stepK src) p).wf2 := by
  induction evs generalizing p with
  | nil => exact h
  | cons e es ih => exact ih _ (stepK_wf2 src p e h)

theorem loadKey_wf2 (fm : Bool) (src : Src) (inS : Bool) (evs : List KEv) (p : Pred) (h : p.wf2) :
    (loadKey fm src inS evs p).wf2 := by
  unfold loadKey
  apply foldl_stepK_wf2
  cases fm
  · exact h
  · exact wipeK_wf2 src inS p h

/-! ## closed form of a run of groups -/

theorem closed_nil (src : Src) (p : Pred) : closed src p [] = p := rfl

theorem closed_snoc (src : Src) (p : Pred) (gs : List (List Nat)) (g : List Nat) :
    closed src p (gs ++ [g]) =
      { p with
        cls := (if p.tracked then
                  (if p.disc then p.cls else if p.multi then foreign src p.cls else [])
                else []) ++
               (if p.disc then ownCls src (gs ++ [g]).flatten else ownCls src g)
        tracked := p.ext
        defined := true } := by
  simp [closed]

theorem append_eq_nil' {α} {a b : List α} (h : (a ++ b).isEmpty = true) : a = [] ∧ b = [] := by
  simpa [List.isEmpty_iff] using h

/-- one more group after the closed form of the groups so far. -/
theorem stepK_closed (src : Src) (p : Pred) (h : p.wf2) (gs : List (List Nat)) (g : List Nat) :
    stepK src (closed src p gs) (.group g) = closed src p (gs ++ [g]) := by
  obtain ⟨⟨h1, h2, h3⟩, h4⟩ := h
  rw [closed_snoc]
  cases p with
  | mk ext dyn disc multi defined tracked cls =>
  simp only at h1 h2 h3 h4
  rcases List.eq_nil_or_concat gs with rfl | ⟨init, last, rfl⟩
  · -- first group
    simp only [closed_nil, stepK, List.nil_append, List.flatten_cons, List.flatten_nil,
      List.append_nil]
    cases tracked
    · simp
    · have hext : ext = true := h1 rfl
      have hdef : defined = true := h4 rfl
      subst hext hdef
      cases disc
      · cases multi
        · simp
        · simp only [Bool.true_and, Bool.or_true, Bool.and_true, Bool.not_false, if_true]
          rw [retract_own]
          cases cls with
          | nil => simp [foreign]
          | cons c cs => simp
      · cases cls with
        | nil => simp
        | cons c cs => simp
  · -- a later group
    simp only [List.concat_eq_append]
    rw [closed_snoc]
    simp only [stepK]
    cases ext
    · have ht : tracked = false := by
        cases tracked
        · rfl
        · exact absurd (h1 rfl) (by simp)
      have hd : disc = false := by
        cases disc
        · rfl
        · exact absurd (h2 rfl) (by simp)
      subst ht hd
      simp
    · cases disc
      · cases multi
        · simp
        · simp only [Bool.true_and, Bool.or_true, Bool.and_true, Bool.not_false,
            if_true, Bool.false_eq_true, if_false]
          rw [retract_own, foreign_append, foreign_ownCls, List.append_nil]
          have hk : foreign src (if tracked = true then foreign src cls else [])
              = (if tracked = true then foreign src cls else []) := by
            split
            · exact foreign_idem _ _
            · rfl
          rw [hk]
          cases hc : ((if tracked = true then foreign src cls else []) ++ ownCls src last).isEmpty
          · simp
          · have := append_eq_nil' hc
            simp [this.1]
      · simp only [Bool.true_and, Bool.true_or, Bool.and_true, Bool.not_true, Bool.and_false,
          if_true, Bool.false_eq_true, if_false]
        cases hc : ((if tracked = true then cls else []) ++
            ownCls src (init ++ [last]).flatten).isEmpty
        · simp [ownCls_append, List.append_assoc]
        · have := append_eq_nil' hc
          have e : ownCls src (init ++ [last] ++ [g]).flatten
              = ownCls src (init ++ [last]).flatten ++ ownCls src g := by
            rw [List.flatten_append, ownCls_append]; simp
          simp only [Bool.not_true, Bool.false_eq_true, if_false]
          rw [e, this.1, this.2]; simp

theorem foldl_groups_closed_aux (src : Src) (p : Pred) (h : p.wf2) (gs done : List (List Nat)) :
    (gs.map KEv.group).foldl (stepK src) (closed src p done) = closed src p (done ++ gs) := by
  induction gs generalizing done with
  | nil => simp
  | cons g gs ih =>
    simp only [List.map_cons, List.foldl_cons]
    rw [stepK_closed src p h done g, ih (done ++ [g])]
    simp

theorem foldl_groups_closed (src : Src) (p : Pred) (h : p.wf2) (gs : List (List Nat)) :
    (gs.map KEv.group).foldl (stepK src) p = closed src p gs := by
  have := foldl_groups_closed_aux src p h gs []
  simpa [closed_nil] using this

theorem foldl_decls (src : Src) (D : List Fl) (p : Pred) :
    (D.map KEv.decl).foldl (stepK src) p = D.foldl (fun q f => stepK src q (.decl f)) p := by
  induction D generalizing p with
  | nil => rfl
  | cons f D ih => simp only [List.map_cons, List.foldl_cons]; exact ih _

theorem foldl_decls_wf2 (src : Src) (D : List Fl) (p : Pred) (h : p.wf2) :
    (D.foldl (fun q f => stepK src q (.decl f)) p).wf2 := by
  rw [← foldl_decls]
  exact foldl_stepK_wf2 src _ p h

/-- for texts whose declarations precede the clauses, the load is its closed form. -/
theorem loadKey_eq_specKey (fm : Bool) (src : Src) (inS : Bool) (evs : List KEv) (p : Pred)
    (hc : canonK evs) (h : p.wf2) : loadKey fm src inS evs p = specKey fm src inS evs p := by
  unfold loadKey specKey
  have hw : (if fm = true then wipeK src inS p else p).wf2 := by
    cases fm
    · exact h
    · exact wipeK_wf2 src inS p h
  generalize (if fm = true then wipeK src inS p else p) = q at hw
  rw [hc, List.foldl_append, foldl_decls]
  have e1 : declsOf ((declsOf evs).map KEv.decl ++ (groupsOf evs).map KEv.group) = declsOf evs := by
    rw [← hc]
  have e2 : groupsOf ((declsOf evs).map KEv.decl ++ (groupsOf evs).map KEv.group) = groupsOf evs := by
    rw [← hc]
  rw [e1, e2]
  exact foldl_groups_closed src _ (foldl_decls_wf2 src _ q hw) _

/-! ## idempotence of the per-predicate load -/

def declsFold (src : Src) (D : List Fl) (p : Pred) : Pred :=
  D.foldl (fun q f => stepK src q (.decl f)) p

/-- explicit form of a run of declarations. -/
theorem declsFold_eq (src : Src) (D : List Fl) (p : Pred) :
    declsFold src D p =
      { ext := p.ext || !D.isEmpty
        dyn := p.dyn || D.contains .dyn
        disc := p.disc || D.contains .disc
        multi := p.multi || D.contains .multi
        defined := p.defined || !D.isEmpty
        tracked := p.tracked
        cls := if D.contains .disc && p.tracked then foreign src p.cls else p.cls } := by
  induction D generalizing p with
  | nil => cases p; simp [declsFold]
  | cons f D ih =>
    unfold declsFold at ih ⊢
    rw [List.foldl_cons, ih]
    cases p with
    | mk ext dyn disc multi defined tracked cls =>
    cases f <;> cases tracked <;> by_cases hD : Fl.disc ∈ D <;>
      simp [stepK, Pred.setFl, hD, foreign_idem, Bool.or_assoc, Bool.or_comm, Bool.or_left_comm]

theorem specKey_eq (fm : Bool) (src : Src) (inS : Bool) (evs : List KEv) (p : Pred) :
    specKey fm src inS evs p =
      closed src (declsFold src (declsOf evs) (if fm then wipeK src inS p else p)) (groupsOf evs) := rfl

/-- after the wipe of a file load no tracked clause of the file is left. -/
theorem wipeK_idem (src : Src) (inS : Bool) (p : Pred) :
    wipeK src inS (wipeK src inS p) = wipeK src inS p := by
  cases p with
  | mk ext dyn disc multi defined tracked cls =>
  cases ext <;> cases tracked <;> cases inS <;> simp [wipeK, foreign_idem]

theorem wipeK_clean (src : Src) (inS : Bool) (p : Pred) (h : p.wf2) :
    (wipeK src inS p).tracked = true →
      foreign src (wipeK src inS p).cls = (wipeK src inS p).cls := by
  obtain ⟨⟨h1, _, _⟩, _⟩ := h
  cases p with
  | mk ext dyn disc multi defined tracked cls =>
  simp only at h1
  cases ext <;> cases tracked <;> cases inS <;> simp_all [wipeK, foreign_idem]

/-- second file load of the same (canonical) text on the result of the first, closed forms. -/
theorem spec_idem_file (src : Src) (inS : Bool) (D : List Fl) (gs : List (List Nat)) (q : Pred)
    (hw : q.wf2) (hclean : q.tracked = true → foreign src q.cls = q.cls)
    (hfix : wipeK src inS q = q) :
    closed src (declsFold src D
        (wipeK src (if gs.isEmpty then inS else true) (closed src (declsFold src D q) gs))) gs
      = closed src (declsFold src D q) gs := by
  obtain ⟨⟨h1, h2, h3⟩, h4⟩ := hw
  cases q with
  | mk ext dyn disc multi defined tracked cls =>
  simp only at h1 h2 h3 h4 hclean
  rcases List.eq_nil_or_concat gs with rfl | ⟨init, last, rfl⟩
  · simp only [closed_nil, List.isEmpty_nil, if_true, declsFold_eq]
    by_cases hd : Fl.disc ∈ D <;> by_cases hD : D = [] <;>
      cases ext <;> cases tracked <;> cases inS <;>
      simp_all [wipeK, foreign_idem]
  · simp only [List.concat_eq_append, closed_snoc, declsFold_eq]
    have hne : (init ++ [last]).isEmpty = false := by simp
    simp only [hne, Bool.false_eq_true, if_false]
    by_cases hd : Fl.disc ∈ D <;> by_cases hm : Fl.multi ∈ D <;> by_cases hD : D = [] <;>
      cases ext <;> cases tracked <;> cases disc <;> cases multi <;>
      simp_all [wipeK, foreign_idem, foreign_append, foreign_ownCls]

end Scryer.Loader
