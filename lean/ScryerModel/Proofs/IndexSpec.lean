import ScryerModel.Proofs.IndexDyn
/-!
The specification side of C06 for dynamic predicates: a *reference database* (the list of live
clauses in textual order, with no index at all) updated by assertz/asserta/retract, and the proof
that the indexed predicate tracks it.
-/
namespace Scryer.Index

/-- the clause database as the standard describes it: live clauses `(identifier, head)` in textual
order, and the identifier the next asserted clause gets. -/
structure RefDb where
  clauses : List (Nat × Head)
  next : Nat
  deriving Repr

/-- ISO 8.9: `assertz` adds at the end, `asserta` at the front, `retract` removes the clause. -/
def RefDb.apply (db : RefDb) : Op → RefDb
  | .assertz h => { clauses := db.clauses ++ [(db.next, h)], next := db.next + 1 }
  | .asserta h => { clauses := (db.next, h) :: db.clauses, next := db.next + 1 }
  | .retract id => { db with clauses := db.clauses.filter (fun p => p.1 ≠ id) }

/-- the clauses of the reference database whose head could unify with the call, in order: the
property's own oracle. -/
def RefDb.matching (db : RefDb) (call : Call) : List (Nat × Head) :=
  db.clauses.filter (fun p => compatHead p.2 call)

/-- the live clauses of an indexed predicate with their heads. -/
def Index.liveClauses (idx : Index) : List (Nat × Head) := idx.live.map (fun id => (id, idx.hd id))

/-- the indexed predicate and the reference database hold the same clauses. -/
structure Tracks (idx : Index) (db : RefDb) : Prop where
  next : idx.next = db.next
  clauses : idx.liveClauses = db.clauses

theorem live_lt {idx : Index} (inv : Inv idx) (id : Nat) (h : id ∈ idx.live) : id < idx.next := by
  unfold Index.live at h
  exact inv.order_lt id (List.mem_filter.1 h).1

theorem Tracks.apply {idx : Index} {db : RefDb} (inv : Inv idx) (t : Tracks idx db) (op : Op) :
    Tracks (op.apply idx) (db.apply op) := by
  cases op with
  | assertz h =>
    refine ⟨by simp [Op.apply, RefDb.apply, next_addBack, t.next], ?_⟩
    simp only [Op.apply, RefDb.apply, Index.liveClauses, live_addBack inv h, List.map_append,
      List.map_cons, List.map_nil]
    rw [← t.clauses, ← t.next]
    congr 1
    · apply List.map_congr_left
      intro id hid
      have := live_lt inv id hid
      rw [hd_addBack' idx h id]
      simp [Nat.ne_of_lt this]
    · simp [hd_addBack' idx h idx.next]
  | asserta h =>
    refine ⟨by simp [Op.apply, RefDb.apply, next_addFront, t.next], ?_⟩
    simp only [Op.apply, RefDb.apply, Index.liveClauses, live_addFront inv h, List.map_cons]
    rw [← t.clauses, ← t.next]
    congr 1
    · simp [hd_addFront' idx h idx.next]
    · apply List.map_congr_left
      intro id hid
      have := live_lt inv id hid
      rw [hd_addFront' idx h id]
      simp [Nat.ne_of_lt this]
  | retract id =>
    refine ⟨by simp [Op.apply, RefDb.apply, next_remove, t.next], ?_⟩
    simp only [Op.apply, RefDb.apply, Index.liveClauses, live_remove inv id]
    rw [← t.clauses]
    simp only [Index.liveClauses, List.filter_map]
    congr 1
    · funext i; exact hd_remove idx id i ▸ rfl

theorem tracks_foldl (ops : List Op) (idx : Index) (db : RefDb) (inv : Inv idx) (t : Tracks idx db) :
    Tracks (ops.foldl Op.apply idx) (ops.foldl RefDb.apply db) := by
  induction ops generalizing idx db with
  | nil => exact t
  | cons op r ih => exact ih _ _ (inv.apply op) (t.apply inv op)

/-- **the answers of an indexed predicate that satisfies the invariant are the reference answers**:
select by the index, then unify heads = filter the reference database by head unification. -/
theorem Tracks.answers {idx : Index} {db : RefDb} (inv : Inv idx) (t : Tracks idx db) (call : Call)
    (wf : CallWF call) :
    ((select idx call).filter (fun id => compatHead (idx.hd id) call)).map (fun id => (id, idx.hd id))
      = db.matching call := by
  rw [inv.select_exact call wf, RefDb.matching, ← t.clauses, Index.liveClauses, List.filter_map]
  rfl

end Scryer.Index
