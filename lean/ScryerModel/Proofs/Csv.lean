import ScryerModel.Model.Csv
import Mathlib.Tactic.IntervalCases
/-! Lemmas for property C51 (library(csv) model). -/
namespace Scryer.Csv

/-! ### digits -/

theorem digitChar_toNat {d : Nat} (h : d < 10) : (digitChar d).toNat = d + 48 := by
  interval_cases d <;> decide

theorem isDigit_digitChar {d : Nat} (h : d < 10) : isDigit (digitChar d) = true := by
  interval_cases d <;> decide

theorem digitVal_digitChar {d : Nat} (h : d < 10) : digitVal (digitChar d) = d := by
  interval_cases d <;> decide

theorem natOfDigits_append_single (ds : List Char) (c : Char) :
    natOfDigits (ds ++ [c]) = 10 * natOfDigits ds + digitVal c := by
  simp [natOfDigits, List.foldl_append]

/-- reference definition by well-founded recursion -/
def natDigitsW (n : Nat) : List Char :=
  if n < 10 then [digitChar n] else natDigitsW (n / 10) ++ [digitChar (n % 10)]
termination_by n
decreasing_by omega

theorem natDigitsAux_eq_W : ∀ (k n : Nat), n < 2 ^ k → natDigitsAux k n = natDigitsW n := by
  intro k
  induction k with
  | zero =>
    intro n hn
    have : n = 0 := by simpa using hn
    subst this
    rw [natDigitsW]
    rfl
  | succ k ih =>
    intro n hn
    unfold natDigitsAux
    rw [natDigitsW]
    by_cases h : n < 10
    · simp [h]
    · simp only [h, ↓reduceIte]
      have hp : 2 ^ (k + 1) = 2 ^ k * 2 := Nat.pow_succ 2 k
      have : n / 10 < 2 ^ k := Nat.div_lt_of_lt_mul (by omega)
      rw [ih (n / 10) this]

theorem natDigits_eq_W (n : Nat) : natDigits n = natDigitsW n :=
  natDigitsAux_eq_W _ n Nat.lt_log2_self

theorem natDigits_eq (n : Nat) :
    natDigits n = if n < 10 then [digitChar n] else natDigits (n / 10) ++ [digitChar (n % 10)] := by
  rw [natDigits_eq_W, natDigits_eq_W]
  exact natDigitsW.eq_1 n

theorem natOfDigits_natDigits (n : Nat) : natOfDigits (natDigits n) = n := by
  induction n using Nat.strongRecOn with
  | _ n ih =>
    rw [natDigits_eq]
    split
    · rename_i h
      simp [natOfDigits, digitVal_digitChar h]
    · rename_i h
      rw [natOfDigits_append_single, ih (n / 10) (by omega), digitVal_digitChar (by omega)]
      omega

theorem natDigits_all_digit (n : Nat) : ∀ c ∈ natDigits n, isDigit c = true := by
  induction n using Nat.strongRecOn with
  | _ n ih =>
    rw [natDigits_eq]
    split
    · rename_i h
      intro c hc
      simp at hc
      subst hc
      exact isDigit_digitChar h
    · rename_i h
      intro c hc
      simp at hc
      rcases hc with hc | hc
      · exact ih (n / 10) (by omega) c hc
      · subst hc
        exact isDigit_digitChar (by omega)

theorem natDigits_ne_nil (n : Nat) : natDigits n ≠ [] := by
  rw [natDigits_eq]
  split <;> simp

/-! ### character classes -/

theorem digit_ne {c : Char} (h : isDigit c = true) :
    c ≠ ' ' ∧ c ≠ '\t' ∧ c ≠ '-' ∧ c ≠ '"' ∧ c ≠ '\n' ∧ c ≠ '\r' ∧ c ≠ '.' ∧ c ≠ '+' := by
  refine ⟨?_, ?_, ?_, ?_, ?_, ?_, ?_, ?_⟩ <;> (rintro rfl; revert h; decide)

theorem isWs_of_digit {c : Char} (h : isDigit c = true) : isWs c = false := by
  have := digit_ne h
  simp [isWs, this.1, this.2.1]

theorem numChar_ne {c : Char} (h : isNumChar c = true) : c ≠ '"' ∧ c ≠ '\n' ∧ c ≠ '\r' := by
  refine ⟨?_, ?_, ?_⟩ <;> (rintro rfl; revert h; decide)

theorem isNumChar_of_digit {c : Char} (h : isDigit c = true) : isNumChar c = true := by
  simp [isNumChar, h]

theorem takeWhile_all {p : Char → Bool} {l : List Char} (h : ∀ c ∈ l, p c = true) :
    l.takeWhile p = l := by
  induction l with
  | nil => rfl
  | cons a l ih =>
    simp only [List.takeWhile_cons, h a (by simp)]
    simp only [↓reduceIte]
    rw [ih (fun c hc => h c (by simp [hc]))]

theorem dropWhile_all {p : Char → Bool} {l : List Char} (h : ∀ c ∈ l, p c = true) :
    l.dropWhile p = [] := by
  induction l with
  | nil => rfl
  | cons a l ih =>
    simp only [List.dropWhile_cons, h a (by simp)]
    simp only [↓reduceIte]
    exact ih (fun c hc => h c (by simp [hc]))

theorem skipWs_cons_of_not {c : Char} {l : List Char} (h : isWs c = false) :
    skipWs (c :: l) = c :: l := by
  simp [skipWs, h]

/-! ### typing of written numbers -/

theorem classifyUnsigned_natDigits (n : Nat) : classifyUnsigned (natDigits n) = some (.inl n) := by
  have hall := natDigits_all_digit n
  have hne := natDigits_ne_nil n
  unfold classifyUnsigned
  rw [takeWhile_all hall, dropWhile_all hall]
  cases hd : natDigits n with
  | nil => exact absurd hd hne
  | cons a l => simp [← hd, natOfDigits_natDigits, hne]

theorem skipWs_natDigits (n : Nat) : skipWs (natDigits n) = natDigits n := by
  have hall := natDigits_all_digit n
  cases hd : natDigits n with
  | nil => rfl
  | cons a l =>
    rw [hd] at hall
    exact skipWs_cons_of_not (isWs_of_digit (hall a (by simp)))

theorem natDigits_head_ne_minus (n : Nat) : ∀ r, natDigits n ≠ '-' :: r := by
  intro r h
  have hall := natDigits_all_digit n
  rw [h] at hall
  exact absurd (hall '-' (by simp)) (by decide)

theorem classify_renderInt (i : Int) : classify (renderInt i) = .int i := by
  unfold renderInt
  split
  · rename_i h
    unfold classify
    rw [skipWs_cons_of_not (by decide)]
    have e : -((i.natAbs : Nat) : Int) = i := by omega
    simp only [classifySigned, skipWs_natDigits, classifyUnsigned_natDigits, ↓reduceIte, e]
  · rename_i h
    unfold classify
    rw [skipWs_natDigits]
    split
    · rename_i r hr
      exact absurd hr (natDigits_head_ne_minus _ _)
    · have e : ((i.toNat : Nat) : Int) = i := by omega
      simp only [classifySigned, classifyUnsigned_natDigits, e]
      simp

theorem renderInt_numChars (i : Int) : ∀ c ∈ renderInt i, isNumChar c = true := by
  unfold renderInt
  split
  · intro c hc
    simp at hc
    rcases hc with rfl | hc
    · decide
    · exact isNumChar_of_digit (natDigits_all_digit _ c hc)
  · intro c hc
    exact isNumChar_of_digit (natDigits_all_digit _ c hc)

theorem renderInt_ne_nil (i : Int) : renderInt i ≠ [] := by
  unfold renderInt
  split
  · simp
  · exact natDigits_ne_nil _

/-! ### float lexemes -/

theorem allDigits_mem {l : List Char} (h : allDigits l = true) : ∀ c ∈ l, isDigit c = true := by
  simp [allDigits] at h
  exact h.2

theorem expOk_numChars {x : List Char} (h : expOk x = true) : ∀ c ∈ x, isNumChar c = true := by
  unfold expOk at h
  split at h
  · intro c hc
    simp at hc
    rcases hc with rfl | hc
    · decide
    · exact isNumChar_of_digit (allDigits_mem h c hc)
  · intro c hc
    simp at hc
    rcases hc with rfl | hc
    · decide
    · exact isNumChar_of_digit (allDigits_mem h c hc)
  · intro c hc
    exact isNumChar_of_digit (allDigits_mem h c hc)

theorem mem_takeWhile_sat {p : Char → Bool} (l : List Char) : ∀ c ∈ l.takeWhile p, p c = true := by
  induction l with
  | nil => simp
  | cons a l ih =>
    intro c hc
    by_cases ha : p a = true
    · simp only [List.takeWhile_cons, ha, ↓reduceIte, List.mem_cons] at hc
      rcases hc with rfl | hc
      · exact ha
      · exact ih c hc
    · simp [ha] at hc

theorem takeWhile_digits_numChars (l : List Char) : ∀ c ∈ l.takeWhile isDigit, isNumChar c = true :=
  fun c hc => isNumChar_of_digit (mem_takeWhile_sat l c hc)

theorem classifyUnsigned_inr {l x : List Char} (h : classifyUnsigned l = some (.inr x)) :
    x = l ∧ (∀ c ∈ l, isNumChar c = true) ∧ ∃ a r, l = a :: r ∧ isDigit a = true := by
  unfold classifyUnsigned at h
  split at h
  · simp at h
  · rename_i htw
    have hhead : ∃ a r, l = a :: r ∧ isDigit a = true := by
      cases l with
      | nil => simp at htw
      | cons a r =>
        refine ⟨a, r, rfl, ?_⟩
        by_cases ha : isDigit a = true
        · exact ha
        · simp [ha] at htw
    have hsplit := List.takeWhile_append_dropWhile (p := isDigit) (l := l)
    split at h
    · simp at h
    · rename_i c r hdw
      split at h
      · simp at h
      · rename_i hc
        have hc' : c = '.' := by simpa using hc
        split at h
        · simp at h
        · have hsplit2 := List.takeWhile_append_dropWhile (p := isDigit) (l := r)
          have key : (∀ c ∈ r.dropWhile isDigit, isNumChar c = true) → x = l ∧ (∀ c ∈ l, isNumChar c = true) := by
            intro hk
            have hx : x = l := by
              split at h
              · simpa using h.symm
              · split at h
                · simpa using h.symm
                · simp at h
            refine ⟨hx, ?_⟩
            intro d hd
            rw [← hsplit, hdw] at hd
            simp only [List.mem_append, List.mem_cons] at hd
            rcases hd with hd | hd | hd
            · exact takeWhile_digits_numChars l d hd
            · subst hd; subst hc'; decide
            · rw [← hsplit2] at hd
              simp only [List.mem_append] at hd
              rcases hd with hd | hd
              · exact takeWhile_digits_numChars r d hd
              · exact hk d hd
          have hk : ∀ c ∈ r.dropWhile isDigit, isNumChar c = true := by
            split at h
            · rename_i hnil
              simp [hnil]
            · rename_i e y hey
              split at h
              · rename_i hcond
                simp only [Bool.and_eq_true, Bool.or_eq_true, beq_iff_eq] at hcond
                intro d hd
                rw [hey] at hd
                simp only [List.mem_cons] at hd
                rcases hd with hd | hd
                · subst hd
                  rcases hcond.1 with rfl | rfl <;> decide
                · exact expOk_numChars hcond.2 d hd
              · simp at h
          exact ⟨(key hk).1, (key hk).2, hhead⟩

theorem isFloatLex_cases {l : List Char} (h : isFloatLex l = true) :
    (∃ r, l = '-' :: r ∧ classifyUnsigned r = some (.inr r)) ∨
    ((∀ r, l ≠ '-' :: r) ∧ classifyUnsigned l = some (.inr l)) := by
  have aux : ∀ m : List Char, unsignedFloatLex m = true → classifyUnsigned m = some (.inr m) := by
    intro m hm
    unfold unsignedFloatLex at hm
    split at hm
    · rename_i y hy
      rw [hy, (classifyUnsigned_inr hy).1]
    · simp at hm
  unfold isFloatLex at h
  split at h
  · rename_i r
    exact Or.inl ⟨r, rfl, aux r h⟩
  · rename_i hneg
    exact Or.inr ⟨fun r hr => hneg r hr, aux l h⟩

theorem classify_floatLex {l : List Char} (h : isFloatLex l = true) : classify l = .flt l := by
  rcases isFloatLex_cases h with ⟨r, rfl, hr⟩ | ⟨hneg, hl⟩
  · obtain ⟨_, _, a, r', rfl, ha⟩ := classifyUnsigned_inr hr
    unfold classify
    rw [skipWs_cons_of_not (by decide)]
    simp only [skipWs_cons_of_not (isWs_of_digit ha), classifySigned, hr]
    simp
  · obtain ⟨_, _, a, r', rfl, ha⟩ := classifyUnsigned_inr hl
    unfold classify
    rw [skipWs_cons_of_not (isWs_of_digit ha)]
    split
    · rename_i r hr
      exact absurd hr (hneg r)
    · simp only [classifySigned, hl]
      simp

theorem floatLex_numChars {l : List Char} (h : isFloatLex l = true) :
    (∀ c ∈ l, isNumChar c = true) ∧ l ≠ [] := by
  rcases isFloatLex_cases h with ⟨r, rfl, hr⟩ | ⟨_, hl⟩
  · refine ⟨?_, by simp⟩
    intro c hc
    simp only [List.mem_cons] at hc
    rcases hc with rfl | hc
    · decide
    · exact (classifyUnsigned_inr hr).2.1 c hc
  · obtain ⟨_, hc, a, r', rfl, _⟩ := classifyUnsigned_inr hl
    exact ⟨hc, by simp⟩

/-! ### reader on written fields -/

/-- what may follow an unquoted field: end of text, the separator, or a line end -/
def Follow (sep : Char) (r : List Char) : Prop :=
  r = [] ∨ ∃ c r', r = c :: r' ∧ (c = sep ∨ c = '\n' ∨ c = '\r')

/-- what may follow a line: end of text or a line end -/
def RowFollow (r : List Char) : Prop :=
  r = [] ∨ ∃ c r', r = c :: r' ∧ (c = '\n' ∨ c = '\r')

/-- the text does not begin with a line-end character -/
def NoNLHead (t : List Char) : Prop := ∀ a x, t = a :: x → a ≠ '\n' ∧ a ≠ '\r'

theorem RowFollow.follow {sep : Char} {r : List Char} (h : RowFollow r) : Follow sep r := by
  rcases h with h | ⟨c, r', h, hc⟩
  · exact Or.inl h
  · exact Or.inr ⟨c, r', h, Or.inr hc⟩

theorem tokens_follow {sep : Char} {r : List Char} (hr : Follow sep r) : tokens sep r = ([], r) := by
  rcases hr with rfl | ⟨c, r', rfl, hc⟩
  · rfl
  · unfold tokens
    rcases hc with rfl | rfl | rfl
    · simp
    · by_cases h : '\n' = sep <;> simp [h]
    · by_cases h : '\r' = sep <;> simp [h]

theorem tokens_append {sep : Char} {t r : List Char}
    (ht : ∀ c ∈ t, c ≠ sep ∧ c ≠ '\n' ∧ c ≠ '\r') (hr : Follow sep r) :
    tokens sep (t ++ r) = (t, r) := by
  induction t with
  | nil => simpa using tokens_follow hr
  | cons a t ih =>
    have ha := ht a (by simp)
    have ih' := ih (fun c hc => ht c (by simp [hc]))
    simp only [List.cons_append]
    unfold tokens
    simp [ha.1, ha.2.1, ha.2.2, ih']

theorem stringTokens_escapeQ (s r : List Char) (hr : ∀ r', r ≠ '"' :: r') :
    stringTokens (escapeQ s ++ '"' :: r) = some (s, r) := by
  induction s with
  | nil =>
    simp only [escapeQ, List.nil_append]
    unfold stringTokens
    cases r with
    | nil => simp
    | cons d ds =>
      have : d ≠ '"' := fun h => hr ds (by rw [h])
      simp [this]
  | cons a s ih =>
    unfold escapeQ
    by_cases ha : a = '"'
    · subst ha
      simp only [↓reduceIte, List.cons_append]
      unfold stringTokens
      simp [ih]
    · simp only [ha, ↓reduceIte, List.cons_append]
      unfold stringTokens
      simp [ha, ih]

theorem follow_not_quote {sep : Char} {r : List Char} (hs : sep ≠ '"') (hr : Follow sep r) :
    ∀ r', r ≠ '"' :: r' := by
  intro r' h
  rcases hr with rfl | ⟨c, r'', rfl, hc⟩
  · simp at h
  · simp only [List.cons.injEq] at h
    rcases hc with rfl | rfl | rfl
    · exact hs h.1
    · exact absurd h.1 (by decide)
    · exact absurd h.1 (by decide)

theorem field_unquoted {sep : Char} {t r : List Char} (hne : t ≠ [])
    (ht : ∀ c ∈ t, c ≠ sep ∧ c ≠ '\n' ∧ c ≠ '\r' ∧ c ≠ '"') (hr : Follow sep r) :
    field sep (t ++ r) = some (classify t, r) := by
  cases t with
  | nil => exact absurd rfl hne
  | cons a t' =>
    have ha := ht a (by simp)
    have htk := tokens_append (sep := sep) (t := a :: t') (r := r)
      (fun c hc => ⟨(ht c hc).1, (ht c hc).2.1, (ht c hc).2.2.1⟩) hr
    simp only [List.cons_append] at htk ⊢
    unfold field
    simp [ha.2.2.2, htk]

theorem field_empty {sep : Char} {r : List Char} (hs : sep ≠ '"') (hr : Follow sep r) :
    field sep r = some (.null, r) := by
  rcases hr with rfl | ⟨c, r', rfl, hc⟩
  · rfl
  · have hq : c ≠ '"' := by
      rcases hc with rfl | rfl | rfl
      · exact hs
      · decide
      · decide
    have htk := tokens_follow (sep := sep) (r := c :: r') (Or.inr ⟨c, r', rfl, hc⟩)
    unfold field
    simp [hq, htk]

theorem sepOk_iff {o : Opts} : sepOk o = true ↔ o.sep ≠ '"' ∧ o.sep ≠ '\n' ∧ o.sep ≠ '\r' := by
  simp [sepOk, and_assoc]

theorem numChars_field_chars {sep : Char} {t : List Char} (hn : ∀ c ∈ t, isNumChar c = true)
    (hsep : t.contains sep = false) : ∀ c ∈ t, c ≠ sep ∧ c ≠ '\n' ∧ c ≠ '\r' ∧ c ≠ '"' := by
  intro c hc
  have h := numChar_ne (hn c hc)
  refine ⟨?_, h.2.1, h.2.2, h.1⟩
  rintro rfl
  simp at hsep
  exact hsep hc

/-- the reader gives back a written field (documented format), whatever follows it -/
theorem field_renderField {o : Opts} {f : Field} {r : List Char} (hs : sepOk o = true)
    (hf : fieldOk o f = true) (hr : Follow o.sep r) :
    field o.sep (renderField o f ++ r) = some (f, r) := by
  have hs' := sepOk_iff.mp hs
  cases f with
  | null =>
    simp only [fieldOk, Option.isNone_iff_eq_none] at hf
    simp only [renderField, renderNull, hf, Option.getD_none, List.nil_append]
    exact field_empty hs'.1 hr
  | str s =>
    have hne : s ≠ [] := by
      intro h; simp [fieldOk, h] at hf
    simp only [renderField, hne, ↓reduceIte, quoteField, List.cons_append, List.append_assoc,
      List.nil_append]
    unfold field
    simp only [↓reduceIte]
    rw [stringTokens_escapeQ s r (follow_not_quote hs'.1 hr)]
    cases s with
    | nil => exact absurd rfl hne
    | cons a s' => simp [mkStr]
  | int i =>
    simp only [fieldOk, Bool.not_eq_true'] at hf
    simp only [renderField]
    rw [field_unquoted (renderInt_ne_nil i) (numChars_field_chars (renderInt_numChars i) hf) hr,
      classify_renderInt]
  | flt l =>
    simp only [fieldOk, Bool.and_eq_true, Bool.not_eq_true'] at hf
    have hl := floatLex_numChars hf.1
    simp only [renderField]
    rw [field_unquoted hl.2 (numChars_field_chars hl.1 hf.2) hr, classify_floatLex hf.1]

/-! ### reader on written lines -/

theorem writeRow_length {rf : Field → List Char} {sep : Char} :
    ∀ (fs : List Field) (t : List Char), writeRow rf sep fs = some t → fs.length ≤ t.length + 1 := by
  intro fs
  induction fs with
  | nil => intro t h; simp [writeRow] at h
  | cons f fs ih =>
    intro t h
    cases fs with
    | nil => simp
    | cons g rest =>
      simp only [writeRow, Option.map_eq_some_iff] at h
      obtain ⟨t', ht', rfl⟩ := h
      have := ih t' ht'
      simp only [List.length_cons, List.length_append] at this ⊢
      omega

theorem endToken_nil : endToken [] = [] := rfl

theorem rowF_render {o : Opts} (hs : sepOk o = true) :
    ∀ (fs : List Field) (t r : List Char) (n : Nat),
      fs.all (fieldOk o) = true → writeRow (renderField o) o.sep fs = some t → RowFollow r →
      fs.length ≤ n → rowF o.sep n (t ++ r) = some (fs, endToken r) := by
  have hs' := sepOk_iff.mp hs
  intro fs
  induction fs with
  | nil => intro t r n _ h; simp [writeRow] at h
  | cons f fs ih =>
    intro t r n hall hw hr hn
    have hf : fieldOk o f = true := by simp only [List.all_cons, Bool.and_eq_true] at hall; exact hall.1
    have hrest : fs.all (fieldOk o) = true := by
      simp only [List.all_cons, Bool.and_eq_true] at hall; exact hall.2
    cases n with
    | zero => simp at hn
    | succ n =>
      cases fs with
      | nil =>
        simp only [writeRow, Option.some.injEq] at hw
        subst hw
        unfold rowF
        rw [field_renderField hs hf hr.follow]
        rcases hr with rfl | ⟨c, r', rfl, hc⟩
        · rfl
        · have hcs : c ≠ o.sep := by
            rcases hc with rfl | rfl
            · exact fun h => hs'.2.1 h.symm
            · exact fun h => hs'.2.2 h.symm
          simp [hcs]
      | cons g rest =>
        simp only [writeRow, Option.map_eq_some_iff] at hw
        obtain ⟨t', ht', rfl⟩ := hw
        have hfol : Follow o.sep (o.sep :: (t' ++ r)) := Or.inr ⟨o.sep, t' ++ r, rfl, Or.inl rfl⟩
        have e : (renderField o f ++ o.sep :: t') ++ r = renderField o f ++ (o.sep :: (t' ++ r)) := by simp
        rw [e]
        unfold rowF
        rw [field_renderField hs hf hfol]
        have := ih t' r n hrest ht' hr (by simpa using hn)
        simp [this]

theorem row_render {o : Opts} (hs : sepOk o = true) {fs : List Field} {t r : List Char}
    (hall : fs.all (fieldOk o) = true) (hw : writeRow (renderField o) o.sep fs = some t)
    (hr : RowFollow r) : row o.sep (t ++ r) = some (fs, endToken r) := by
  unfold row
  apply rowF_render hs fs t r _ hall hw hr
  have := writeRow_length fs t hw
  simp only [List.length_append]
  omega

/-! ### line ends -/

theorem endToken_noNL {t : List Char} (h : NoNLHead t) : endToken t = t := by
  cases t with
  | nil => rfl
  | cons a x =>
    have := h a x rfl
    unfold endToken
    split
    · rename_i heq; simp only [List.cons.injEq] at heq; exact absurd heq.1 this.2
    · rename_i heq; simp only [List.cons.injEq] at heq; exact absurd heq.1 this.1
    · rename_i heq; simp only [List.cons.injEq] at heq; exact absurd heq.1 this.2
    · rfl

theorem lineSepOk_cases {o : Opts} (h : lineSepOk o = true) :
    o.lineSep = ['\n'] ∨ o.lineSep = ['\r', '\n'] ∨ o.lineSep = ['\r'] := by
  simpa [lineSepOk, or_assoc] using h

theorem endToken_lineSep {o : Opts} (h : lineSepOk o = true) {t : List Char} (ht : NoNLHead t) :
    endToken (o.lineSep ++ t) = t := by
  rcases lineSepOk_cases h with e | e | e <;> rw [e]
  · rfl
  · rfl
  · cases t with
    | nil => rfl
    | cons a x =>
      have := ht a x rfl
      simp only [List.singleton_append]
      unfold endToken
      split
      · rename_i heq; simp only [List.cons.injEq] at heq; exact absurd heq.2.1 this.1
      · rename_i heq; simp at heq
      · rename_i heq; simp only [List.cons.injEq] at heq; exact heq.2.symm
      · rename_i h1 h2 h3; exact absurd rfl (h3 _)

theorem rowFollow_lineSep {o : Opts} (h : lineSepOk o = true) (t : List Char) :
    RowFollow (o.lineSep ++ t) := by
  rcases lineSepOk_cases h with e | e | e <;> rw [e]
  · exact Or.inr ⟨'\n', t, rfl, Or.inl rfl⟩
  · exact Or.inr ⟨'\r', '\n' :: t, rfl, Or.inr rfl⟩
  · exact Or.inr ⟨'\r', t, rfl, Or.inr rfl⟩

theorem lineSep_length {o : Opts} (h : lineSepOk o = true) : 1 ≤ o.lineSep.length := by
  rcases lineSepOk_cases h with e | e | e <;> rw [e] <;> simp

/-! ### how written lines begin -/

theorem noNLHead_nil : NoNLHead [] := by intro a x h; simp at h

theorem noNLHead_append {a b : List Char} (ha : NoNLHead a) (hne : a ≠ []) : NoNLHead (a ++ b) := by
  cases a with
  | nil => exact absurd rfl hne
  | cons c a' =>
    intro d x h
    simp only [List.cons_append, List.cons.injEq] at h
    exact h.1 ▸ ha c a' rfl

theorem noNLHead_numChars {t : List Char} (h : ∀ c ∈ t, isNumChar c = true) : NoNLHead t := by
  intro a x e
  have := numChar_ne (h a (by simp [e]))
  exact ⟨this.2.1, this.2.2⟩

theorem renderField_head {o : Opts} {f : Field} (hf : fieldOk o f = true) :
    NoNLHead (renderField o f) := by
  cases f with
  | null =>
    simp only [fieldOk, Option.isNone_iff_eq_none] at hf
    simp only [renderField, renderNull, hf, Option.getD_none]
    exact noNLHead_nil
  | str s =>
    have hne : s ≠ [] := by intro h; simp [fieldOk, h] at hf
    simp only [renderField, hne, ↓reduceIte, quoteField]
    intro a x e
    simp only [List.cons.injEq] at e
    rw [← e.1]
    exact ⟨by decide, by decide⟩
  | int i => exact noNLHead_numChars (renderInt_numChars i)
  | flt l =>
    simp only [fieldOk, Bool.and_eq_true] at hf
    exact noNLHead_numChars (floatLex_numChars hf.1).1

theorem renderField_ne_nil {o : Opts} {f : Field} (hf : fieldOk o f = true) (hn : f ≠ .null) :
    renderField o f ≠ [] := by
  cases f with
  | null => exact absurd rfl hn
  | str s =>
    have hne : s ≠ [] := by intro h; simp [fieldOk, h] at hf
    simp [renderField, hne, quoteField]
  | int i => exact renderInt_ne_nil i
  | flt l =>
    simp only [fieldOk, Bool.and_eq_true] at hf
    exact (floatLex_numChars hf.1).2

theorem rowOk_iff {o : Opts} {r : List Field} :
    rowOk o r = true ↔ r ≠ [] ∧ r ≠ [Field.null] ∧ r.all (fieldOk o) = true := by
  simp [rowOk, and_assoc]

theorem writeRow_head {o : Opts} (hs : sepOk o = true) {fs : List Field} {t : List Char}
    (hrow : rowOk o fs = true) (hw : writeRow (renderField o) o.sep fs = some t) :
    NoNLHead t ∧ t ≠ [] := by
  have hs' := sepOk_iff.mp hs
  obtain ⟨hne, hnn, hall⟩ := rowOk_iff.mp hrow
  cases fs with
  | nil => exact absurd rfl hne
  | cons f fs =>
    have hf : fieldOk o f = true := by simp only [List.all_cons, Bool.and_eq_true] at hall; exact hall.1
    cases fs with
    | nil =>
      simp only [writeRow, Option.some.injEq] at hw
      subst hw
      have hfn : f ≠ .null := by intro h; exact hnn (by rw [h])
      exact ⟨renderField_head hf, renderField_ne_nil hf hfn⟩
    | cons g rest =>
      simp only [writeRow, Option.map_eq_some_iff] at hw
      obtain ⟨t', _, rfl⟩ := hw
      refine ⟨?_, by simp⟩
      by_cases he : renderField o f = []
      · rw [he]
        intro a x e
        simp only [List.nil_append, List.cons.injEq] at e
        rw [← e.1]
        exact ⟨hs'.2.1, hs'.2.2⟩
      · exact noNLHead_append (renderField_head hf) he

theorem writeRows_cons_cons {rf : Field → List Char} {b : Bool} {sep : Char} {ls : List Char}
    {r s : List Field} {t : List (List Field)} {T : List Char}
    (h : writeRows rf b sep ls (r :: s :: t) = some T) :
    ∃ a c, writeRow rf sep r = some a ∧ writeRows rf b sep ls (s :: t) = some c ∧ T = a ++ ls ++ c := by
  unfold writeRows at h
  cases hA : writeRow rf sep r with
  | none => simp [hA] at h
  | some a =>
    cases hB : writeRows rf b sep ls (s :: t) with
    | none => simp [hA, hB] at h
    | some c =>
      simp only [hA, hB, Option.some.injEq] at h
      exact ⟨a, c, rfl, rfl, h.symm⟩

theorem writeRows_head_len {o : Opts} (hs : sepOk o = true) :
    ∀ (rs : List (List Field)) (T : List Char), rs.all (rowOk o) = true →
      writeRows (renderField o) true o.sep o.lineSep rs = some T →
      NoNLHead T ∧ rs.length ≤ T.length := by
  intro rs
  induction rs with
  | nil =>
    intro T _ h
    simp only [writeRows, ↓reduceIte, Option.some.injEq] at h
    subst h
    exact ⟨noNLHead_nil, by simp⟩
  | cons r rs ih =>
    intro T hall h
    have hr : rowOk o r = true := by simp only [List.all_cons, Bool.and_eq_true] at hall; exact hall.1
    have hrest : rs.all (rowOk o) = true := by
      simp only [List.all_cons, Bool.and_eq_true] at hall; exact hall.2
    cases rs with
    | nil =>
      simp only [writeRows] at h
      have := writeRow_head hs hr h
      refine ⟨this.1, ?_⟩
      have : 0 < T.length := List.length_pos_iff.mpr this.2
      simp only [List.length_cons, List.length_nil]
      omega
    | cons s t =>
      obtain ⟨a, c, ha, hc, rfl⟩ := writeRows_cons_cons h
      have h1 := writeRow_head hs hr ha
      have h2 := ih c hrest hc
      refine ⟨?_, ?_⟩
      · rw [List.append_assoc]; exact noNLHead_append h1.1 h1.2
      · have : 0 < a.length := List.length_pos_iff.mpr h1.2
        simp only [List.length_cons, List.length_append] at h2 ⊢
        omega

/-! ### reader on written tables -/

theorem rows_nil (sep : Char) (n : Nat) : rowsF sep (n + 1) [] = some ([], []) := by
  simp [rowsF, row, rowF, field]

theorem rowsF_render {o : Opts} (hs : sepOk o = true) (hl : lineSepOk o = true) :
    ∀ (rs : List (List Field)) (T : List Char) (n : Nat), rs.all (rowOk o) = true →
      writeRows (renderField o) true o.sep o.lineSep rs = some T → rs.length + 1 ≤ n →
      rowsF o.sep n T = some (rs, []) := by
  intro rs
  induction rs with
  | nil =>
    intro T n _ h hn
    simp only [writeRows, ↓reduceIte, Option.some.injEq] at h
    subst h
    cases n with
    | zero => simp at hn
    | succ n => exact rows_nil _ n
  | cons r rs ih =>
    intro T n hall h hn
    have hr : rowOk o r = true := by simp only [List.all_cons, Bool.and_eq_true] at hall; exact hall.1
    have hrest : rs.all (rowOk o) = true := by
      simp only [List.all_cons, Bool.and_eq_true] at hall; exact hall.2
    obtain ⟨_, hnn, hfields⟩ := rowOk_iff.mp hr
    cases n with
    | zero => simp at hn
    | succ n =>
      cases rs with
      | nil =>
        simp only [writeRows] at h
        have hrow := row_render hs hfields h (Or.inl rfl : RowFollow [])
        simp only [List.append_nil, endToken_nil] at hrow
        unfold rowsF
        rw [hrow]
        cases n with
        | zero => simp at hn
        | succ n => simp [hnn, rows_nil]
      | cons s t =>
        obtain ⟨a, c, ha, hc, rfl⟩ := writeRows_cons_cons h
        have hc' := writeRows_head_len hs (s :: t) c hrest hc
        have hrow := row_render hs hfields ha (rowFollow_lineSep hl c)
        rw [endToken_lineSep hl hc'.1] at hrow
        unfold rowsF
        rw [List.append_assoc, hrow]
        have := ih c n hrest hc (by simpa using hn)
        simp [hnn, this]

theorem rows_render {o : Opts} (hs : sepOk o = true) (hl : lineSepOk o = true)
    {rs : List (List Field)} {T : List Char} (hall : rs.all (rowOk o) = true)
    (h : writeRows (renderField o) true o.sep o.lineSep rs = some T) :
    rows o.sep T = some (rs, []) := by
  unfold rows
  apply rowsF_render hs hl rs T _ hall h
  have := (writeRows_head_len hs rs T hall h).2
  omega

/-! ### the writer succeeds on well-formed frames -/

theorem writeRow_some {rf : Field → List Char} {sep : Char} :
    ∀ fs : List Field, fs ≠ [] → ∃ t, writeRow rf sep fs = some t := by
  intro fs
  induction fs with
  | nil => intro h; exact absurd rfl h
  | cons f fs ih =>
    intro _
    cases fs with
    | nil => exact ⟨rf f, rfl⟩
    | cons g rest =>
      obtain ⟨t, ht⟩ := ih (by simp)
      exact ⟨rf f ++ sep :: t, by simp [writeRow, ht]⟩

theorem writeRows_some {rf : Field → List Char} {sep : Char} {ls : List Char} :
    ∀ rs : List (List Field), (∀ r ∈ rs, r ≠ []) → ∃ T, writeRows rf true sep ls rs = some T := by
  intro rs
  induction rs with
  | nil => intro _; exact ⟨[], by simp [writeRows]⟩
  | cons r rs ih =>
    intro h
    obtain ⟨a, ha⟩ := writeRow_some (rf := rf) (sep := sep) r (h r (by simp))
    cases rs with
    | nil => exact ⟨a, by simp [writeRows, ha]⟩
    | cons s t =>
      obtain ⟨c, hc⟩ := ih (fun x hx => h x (by simp [hx]))
      exact ⟨a ++ ls ++ c, by rw [writeRows]; simp [ha, hc]⟩

theorem rows_nonempty_of_ok {o : Opts} {rs : List (List Field)} (h : rs.all (rowOk o) = true) :
    ∀ r ∈ rs, r ≠ [] := by
  intro r hr
  have := List.all_eq_true.mp h r hr
  exact (rowOk_iff.mp this).1

/-- the round trip (general form used by the property theorems) -/
theorem parse_write {o : Opts} {t : Frame} (h : wf o t = true) :
    ∃ T, writeCsv o t = some T ∧
      parseCsv o T = some ⟨if o.withHeader then t.header else [], t.rows⟩ := by
  simp only [wf, Bool.and_eq_true, Bool.or_eq_true, Bool.not_eq_true'] at h
  obtain ⟨⟨⟨hs, hl⟩, hh⟩, hrows⟩ := h
  obtain ⟨TR, hTR⟩ := writeRows_some (rf := renderField o) (sep := o.sep) (ls := o.lineSep) t.rows
    (rows_nonempty_of_ok hrows)
  have hTRp := rows_render hs hl hrows hTR
  have hTRh := writeRows_head_len hs t.rows TR hrows hTR
  cases hw : o.withHeader with
  | false =>
    refine ⟨TR, ?_, ?_⟩
    · simp [writeCsv, writeCsvG, hw, hTR]
    · simp [parseCsv, hw, hTRp]
  | true =>
    have hhdr : rowOk o t.header = true := by
      rcases hh with hh | hh
      · rw [hw] at hh; simp at hh
      · exact hh
    obtain ⟨hne, hnn, hfields⟩ := rowOk_iff.mp hhdr
    obtain ⟨a, ha⟩ := writeRow_some (rf := renderField o) (sep := o.sep) t.header hne
    refine ⟨a ++ o.lineSep ++ TR, ?_, ?_⟩
    · simp [writeCsv, writeCsvG, hw, hTR, ha]
    · have hrow := row_render hs hfields ha (rowFollow_lineSep hl TR)
      rw [endToken_lineSep hl hTRh.1] at hrow
      simp only [parseCsv, hw, ↓reduceIte]
      rw [List.append_assoc, hrow]
      simp only [hnn, ↓reduceIte, endToken_noNL hTRh.1, hTRp]

/-! ### unterminated quoted field -/

theorem stringTokens_no_quote : ∀ s : List Char, '"' ∉ s → stringTokens s = none := by
  intro s
  induction s with
  | nil => intro _; rfl
  | cons a s ih =>
    intro h
    simp only [List.mem_cons, not_or] at h
    unfold stringTokens
    have ha : a ≠ '"' := fun e => h.1 e.symm
    simp [ha, ih h.2]

theorem parse_unterminated (o : Opts) (s : List Char) (h : '"' ∉ s) :
    parseCsv o ('"' :: s) = none := by
  have hf : field o.sep ('"' :: s) = none := by
    unfold field
    simp [stringTokens_no_quote s h]
  have hr : row o.sep ('"' :: s) = none := by
    unfold row
    simp only [List.length_cons]
    unfold rowF
    simp [hf]
  cases hw : o.withHeader with
  | true => simp [parseCsv, hw, hr]
  | false =>
    simp only [parseCsv, hw]
    unfold rows
    simp only [List.length_cons]
    unfold rowsF
    simp [hr]

/-! ### the fuel of `rowF` / `rowsF` never runs out (it does not influence any result) -/

theorem tokens_length (sep : Char) : ∀ cs : List Char,
    (tokens sep cs).2.length ≤ cs.length ∧ ((tokens sep cs).1 ≠ [] → (tokens sep cs).2.length < cs.length) := by
  intro cs
  induction cs with
  | nil => simp [tokens]
  | cons c cs ih =>
    unfold tokens
    by_cases h1 : c = sep
    · simp [h1]
    · by_cases h2 : c = '\n'
      · simp [h2]
      · by_cases h3 : c = '\r'
        · simp [h3]
        · simp only [h1, h2, h3, ↓reduceIte, List.length_cons]
          exact ⟨by omega, fun _ => by omega⟩

theorem stringTokens_length_aux : ∀ (n : Nat) (cs s r : List Char), cs.length = n →
    stringTokens cs = some (s, r) → r.length < cs.length := by
  intro n
  induction n using Nat.strongRecOn with
  | _ n ih =>
    intro cs s r hn h
    cases cs with
    | nil => simp [stringTokens] at h
    | cons c cs' =>
      unfold stringTokens at h
      by_cases hc : c = '"'
      · simp only [hc, ↓reduceIte] at h
        cases cs' with
        | nil =>
          simp only [Option.some.injEq, Prod.mk.injEq] at h
          rw [← h.2]; simp
        | cons d ds =>
          by_cases hd : d = '"'
          · simp only [hd, ↓reduceIte, Option.map_eq_some_iff] at h
            obtain ⟨p, hp, he⟩ := h
            have hlt : ds.length < n := by rw [← hn]; simp only [List.length_cons]; omega
            have := ih ds.length hlt ds p.1 p.2 rfl hp
            simp only [Prod.mk.injEq] at he
            rw [← he.2]
            simp only [List.length_cons]
            omega
          · simp only [hd, ↓reduceIte, Option.some.injEq, Prod.mk.injEq] at h
            rw [← h.2]; simp
      · simp only [hc, ↓reduceIte, Option.map_eq_some_iff] at h
        obtain ⟨p, hp, he⟩ := h
        have hlt : cs'.length < n := by rw [← hn]; simp only [List.length_cons]; omega
        have := ih cs'.length hlt cs' p.1 p.2 rfl hp
        simp only [Prod.mk.injEq] at he
        rw [← he.2]
        simp only [List.length_cons]
        omega

theorem stringTokens_length (cs s r : List Char) (h : stringTokens cs = some (s, r)) :
    r.length < cs.length := stringTokens_length_aux cs.length cs s r rfl h

theorem field_length {sep : Char} {cs : List Char} {f : Field} {r : List Char}
    (h : field sep cs = some (f, r)) :
    r.length ≤ cs.length ∧ (f ≠ .null → r.length < cs.length) := by
  cases cs with
  | nil => simp [field] at h; simp [h.1.symm, h.2.symm]
  | cons c cs =>
    unfold field at h
    by_cases hc : c = '"'
    · simp only [hc, ↓reduceIte, Option.map_eq_some_iff] at h
      obtain ⟨p, hp, he⟩ := h
      have := stringTokens_length cs p.1 p.2 hp
      simp only [Prod.mk.injEq] at he
      rw [← he.2]
      simp only [List.length_cons]
      exact ⟨by omega, fun _ => by omega⟩
    · simp only [hc, ↓reduceIte] at h
      have hl := tokens_length sep (c :: cs)
      by_cases hp : (tokens sep (c :: cs)).1 = []
      · simp only [hp, ↓reduceIte, Option.some.injEq, Prod.mk.injEq] at h
        rw [← h.1, ← h.2]
        simp
      · simp only [hp, ↓reduceIte, Option.some.injEq, Prod.mk.injEq] at h
        rw [← h.2]
        exact ⟨hl.1, fun _ => hl.2 hp⟩

theorem endToken_length (r : List Char) : (endToken r).length ≤ r.length := by
  unfold endToken
  split
  · simp only [List.length_cons]; omega
  · simp only [List.length_cons]; omega
  · simp only [List.length_cons]; omega
  · exact Nat.le_refl _

theorem rowF_mono (sep : Char) : ∀ (n : Nat) (cs : List Char), cs.length < n →
    ∀ m, n ≤ m → rowF sep m cs = rowF sep n cs := by
  intro n
  induction n with
  | zero => intro cs h; simp at h
  | succ n ih =>
    intro cs hlen m hm
    cases m with
    | zero => simp at hm
    | succ m =>
      unfold rowF
      cases hf : field sep cs with
      | none => rfl
      | some p =>
        obtain ⟨f, r⟩ := p
        have hl := (field_length hf).1
        cases r with
        | nil => rfl
        | cons c r' =>
          simp only
          by_cases hc : c = sep
          · simp only [hc, ↓reduceIte]
            rw [ih r' (by simp at hl; omega) m (by omega)]
          · simp [hc]

theorem rowF_length (sep : Char) : ∀ (n : Nat) (cs : List Char) (x : List Field) (r : List Char),
    rowF sep n cs = some (x, r) → r.length ≤ cs.length ∧ (x ≠ [Field.null] → r.length < cs.length) := by
  intro n
  induction n with
  | zero => intro cs x r h; simp [rowF] at h
  | succ n ih =>
    intro cs x r h
    unfold rowF at h
    cases hf : field sep cs with
    | none => simp [hf] at h
    | some p =>
      obtain ⟨f, r0⟩ := p
      have hl := field_length hf
      simp only [hf] at h
      cases r0 with
      | nil =>
        simp only [Option.some.injEq, Prod.mk.injEq] at h
        rw [← h.1, ← h.2]
        refine ⟨by simp, fun hx => ?_⟩
        have : f ≠ .null := by intro e; exact hx (by rw [e])
        exact hl.2 this
      | cons c r' =>
        simp only at h
        by_cases hc : c = sep
        · simp only [hc, ↓reduceIte, Option.map_eq_some_iff] at h
          obtain ⟨q, hq, he⟩ := h
          have := (ih r' q.1 q.2 (by simpa using hq)).1
          simp only [Prod.mk.injEq] at he
          rw [← he.2]
          have h1 := hl.1
          simp only [List.length_cons] at h1
          exact ⟨by omega, fun _ => by omega⟩
        · simp only [hc, ↓reduceIte, Option.some.injEq, Prod.mk.injEq] at h
          rw [← h.1, ← h.2]
          have h1 := hl.1
          have h2 := endToken_length (c :: r')
          refine ⟨by omega, fun hx => ?_⟩
          have : f ≠ .null := by intro e; exact hx (by rw [e])
          have := hl.2 this
          omega

theorem rowsF_mono (sep : Char) : ∀ (n : Nat) (cs : List Char), cs.length < n →
    ∀ m, n ≤ m → rowsF sep m cs = rowsF sep n cs := by
  intro n
  induction n with
  | zero => intro cs h; simp at h
  | succ n ih =>
    intro cs hlen m hm
    cases m with
    | zero => simp at hm
    | succ m =>
      unfold rowsF
      cases hr : row sep cs with
      | none => rfl
      | some p =>
        obtain ⟨x, r⟩ := p
        simp only
        by_cases hx : x = [Field.null]
        · simp [hx]
        · have := (rowF_length sep _ cs x r hr).2 hx
          simp only [hx, ↓reduceIte]
          rw [ih r (by omega) m (by omega)]

end Scryer.Csv
