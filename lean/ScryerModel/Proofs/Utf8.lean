import ScryerModel.Model.Utf8
/-! Lemmas about the UTF-8 decoder model (C18): what `decode4` returns, that it is monotone
in the information it is given (a missing byte = `none`), and the consequences for
`decodeFirst` on lists (prefix stability, dependence on at most 4 bytes, round trip). -/
namespace Scryer.Utf8

/-- information order on an optional byte: `o` is unknown, or already equal to `o'`. -/
def OExt (o o' : Option Nat) : Prop := o = none ∨ o = o'

theorem OExt.refl (o : Option Nat) : OExt o o := Or.inr rfl

theorem isCont_iff (b : Nat) : isCont b = true ↔ (0x80 ≤ b ∧ b ≤ 0xBF) := by
  unfold isCont; rw [Bool.and_eq_true, decide_eq_true_iff, decide_eq_true_iff]

theorem isScalar_iff (cp : Nat) :
    isScalar cp = true ↔ (cp < 0xD800 ∨ (0xE000 ≤ cp ∧ cp < 0x110000)) := by
  unfold isScalar
  rw [Bool.or_eq_true, Bool.and_eq_true, decide_eq_true_iff, decide_eq_true_iff,
    decide_eq_true_iff]

theorem dec2_mono {b0 : Nat} {o1 p1 : Option Nat} (h1 : OExt o1 p1)
    (h : dec2 b0 o1 ≠ .incomplete) : dec2 b0 p1 = dec2 b0 o1 := by
  rcases h1 with rfl | rfl
  · exact absurd rfl h
  · rfl

theorem dec3_mono {b0 lo hi : Nat} {o1 o2 p1 p2 : Option Nat} (h1 : OExt o1 p1)
    (h2 : OExt o2 p2) (h : dec3 b0 lo hi o1 o2 ≠ .incomplete) :
    dec3 b0 lo hi p1 p2 = dec3 b0 lo hi o1 o2 := by
  rcases h1 with rfl | rfl
  · exact absurd rfl h
  · rcases h2 with rfl | rfl
    · cases o1 with
      | none => exact absurd rfl h
      | some b1 =>
        simp only [dec3] at h ⊢
        split at h
        · exact absurd rfl h
        · rename_i hc; simp only [if_neg hc]
    · rfl

theorem dec4_mono {b0 lo hi : Nat} {o1 o2 o3 p1 p2 p3 : Option Nat} (h1 : OExt o1 p1)
    (h2 : OExt o2 p2) (h3 : OExt o3 p3) (h : dec4 b0 lo hi o1 o2 o3 ≠ .incomplete) :
    dec4 b0 lo hi p1 p2 p3 = dec4 b0 lo hi o1 o2 o3 := by
  rcases h1 with rfl | rfl
  · exact absurd rfl h
  · cases o1 with
    | none => exact absurd rfl h
    | some b1 =>
      rcases h2 with rfl | rfl
      · simp only [dec4] at h ⊢
        split at h
        · exact absurd rfl h
        · rename_i hc; simp only [if_neg hc]
      · cases o2 with
        | none =>
          simp only [dec4] at h ⊢
        | some b2 =>
          rcases h3 with rfl | rfl
          · simp only [dec4] at h ⊢
            split at h
            · rename_i hc
              split at h
              · exact absurd rfl h
              · rename_i hd; simp only [if_pos hc, if_neg hd]
            · rename_i hc; simp only [if_neg hc]
          · rfl

/-- once the decoder has decided, more bytes do not change the decision. -/
theorem decode4_mono {b0 : Nat} {o1 o2 o3 p1 p2 p3 : Option Nat}
    (h1 : OExt o1 p1) (h2 : OExt o2 p2) (h3 : OExt o3 p3)
    (h : decode4 b0 o1 o2 o3 ≠ .incomplete) :
    decode4 b0 p1 p2 p3 = decode4 b0 o1 o2 o3 := by
  unfold decode4 at h ⊢
  split
  · rfl
  · rename_i h0; rw [if_neg h0] at h
    split
    · rfl
    · rename_i h0; rw [if_neg h0] at h
      split
      · rename_i h0; rw [if_pos h0] at h; exact dec2_mono h1 h
      · rename_i h0; rw [if_neg h0] at h
        split
        · rename_i h0; rw [if_pos h0] at h; exact dec3_mono h1 h2 h
        · rename_i h0; rw [if_neg h0] at h
          split
          · rename_i h0; rw [if_pos h0] at h; exact dec4_mono h1 h2 h3 h
          · rfl

theorem dec2_some_ne (b0 a : Nat) : dec2 b0 (some a) ≠ .incomplete := by
  simp only [dec2]; split <;> simp

theorem dec3_some_ne (b0 lo hi a b : Nat) : dec3 b0 lo hi (some a) (some b) ≠ .incomplete := by
  simp only [dec3]; repeat' split
  all_goals simp

theorem dec4_some_ne (b0 lo hi a b c : Nat) :
    dec4 b0 lo hi (some a) (some b) (some c) ≠ .incomplete := by
  simp only [dec4]; repeat' split
  all_goals simp

/-- with all three following bytes present the decoder always decides. -/
theorem decode4_some_ne_incomplete (b0 a b c : Nat) :
    decode4 b0 (some a) (some b) (some c) ≠ .incomplete := by
  unfold decode4
  split
  · simp
  · split
    · simp
    · split
      · exact dec2_some_ne _ _
      · split
        · exact dec3_some_ne _ _ _ _ _
        · split
          · exact dec4_some_ne _ _ _ _ _ _
          · simp

/-! ### what a decision means -/

theorem dec2_ok {b0 cp n : Nat} {o1 : Option Nat} (hb : 0xC2 ≤ b0 ∧ b0 ≤ 0xDF)
    (h : dec2 b0 o1 = .ok cp n) : n = 2 ∧ 0x80 ≤ cp ∧ cp < 0x800 ∧ o1.isSome = true := by
  cases o1 with
  | none => cases h
  | some b1 =>
    simp only [dec2] at h
    split at h
    · rename_i hc; rw [isCont_iff] at hc
      simp only [Step.ok.injEq] at h; obtain ⟨rfl, rfl⟩ := h
      refine ⟨rfl, ?_, ?_, rfl⟩ <;> omega
    · cases h

theorem dec3_ok {b0 lo hi cp n : Nat} {o1 o2 : Option Nat} (hb : 0xE0 ≤ b0 ∧ b0 ≤ 0xEF)
    (hlo : 0x80 ≤ lo) (hlo' : b0 ≠ 0xE0 ∨ 0xA0 ≤ lo) (hhi : hi ≤ 0xBF)
    (hhi' : b0 ≠ 0xED ∨ hi ≤ 0x9F) (h : dec3 b0 lo hi o1 o2 = .ok cp n) :
    n = 3 ∧ 0x800 ≤ cp ∧ cp < 0x10000 ∧ (cp < 0xD800 ∨ 0xE000 ≤ cp) ∧
      o1.isSome = true ∧ o2.isSome = true := by
  cases o1 with
  | none => cases h
  | some b1 =>
    simp only [dec3] at h
    split at h
    · rename_i hc
      rw [Bool.and_eq_true, decide_eq_true_iff, decide_eq_true_iff] at hc
      cases o2 with
      | none => cases h
      | some b2 =>
        simp only at h
        split at h
        · rename_i hd; rw [isCont_iff] at hd
          simp only [Step.ok.injEq] at h; obtain ⟨rfl, rfl⟩ := h
          refine ⟨rfl, ?_, ?_, ?_, rfl, rfl⟩ <;> omega
        · cases h
    · cases h

theorem dec4_ok {b0 lo hi cp n : Nat} {o1 o2 o3 : Option Nat} (hb : 0xF0 ≤ b0 ∧ b0 ≤ 0xF4)
    (hlo : 0x80 ≤ lo) (hlo' : b0 ≠ 0xF0 ∨ 0x90 ≤ lo) (hhi : hi ≤ 0xBF)
    (hhi' : b0 ≠ 0xF4 ∨ hi ≤ 0x8F) (h : dec4 b0 lo hi o1 o2 o3 = .ok cp n) :
    n = 4 ∧ 0x10000 ≤ cp ∧ cp < 0x110000 ∧
      o1.isSome = true ∧ o2.isSome = true ∧ o3.isSome = true := by
  cases o1 with
  | none => cases h
  | some b1 =>
    simp only [dec4] at h
    split at h
    · rename_i hc
      rw [Bool.and_eq_true, decide_eq_true_iff, decide_eq_true_iff] at hc
      cases o2 with
      | none => cases h
      | some b2 =>
        simp only at h
        split at h
        · rename_i hd; rw [isCont_iff] at hd
          cases o3 with
          | none => cases h
          | some b3 =>
            simp only at h
            split at h
            · rename_i he; rw [isCont_iff] at he
              simp only [Step.ok.injEq] at h; obtain ⟨rfl, rfl⟩ := h
              refine ⟨rfl, ?_, ?_, rfl, rfl, rfl⟩ <;> omega
            · cases h
        · cases h
    · cases h

theorem dec2_invalid {b0 n : Nat} {o1 : Option Nat} (h : dec2 b0 o1 = .invalid n) : n = 1 := by
  cases o1 with
  | none => cases h
  | some b1 =>
    simp only [dec2] at h
    split at h <;> cases h
    rfl

theorem dec3_invalid {b0 lo hi n : Nat} {o1 o2 : Option Nat}
    (h : dec3 b0 lo hi o1 o2 = .invalid n) :
    (n = 1 ∨ n = 2) ∧ (2 ≤ n → o1.isSome = true ∧ o2.isSome = true) := by
  cases o1 with
  | none => cases h
  | some b1 =>
    simp only [dec3] at h
    split at h
    · cases o2 with
      | none => cases h
      | some b2 =>
        simp only at h
        split at h <;> cases h
        exact ⟨Or.inr rfl, fun _ => ⟨rfl, rfl⟩⟩
    · cases h
      exact ⟨Or.inl rfl, fun h => by omega⟩

theorem dec4_invalid {b0 lo hi n : Nat} {o1 o2 o3 : Option Nat}
    (h : dec4 b0 lo hi o1 o2 o3 = .invalid n) :
    (n = 1 ∨ n = 2 ∨ n = 3) ∧ (2 ≤ n → o1.isSome = true ∧ o2.isSome = true) ∧
      (3 ≤ n → o3.isSome = true) := by
  cases o1 with
  | none => cases h
  | some b1 =>
    simp only [dec4] at h
    split at h
    · cases o2 with
      | none => cases h
      | some b2 =>
        simp only at h
        split at h
        · cases o3 with
          | none => cases h
          | some b3 =>
            simp only at h
            split at h <;> cases h
            exact ⟨Or.inr (Or.inr rfl), fun _ => ⟨rfl, rfl⟩, fun _ => rfl⟩
        · cases h
          exact ⟨Or.inr (Or.inl rfl), fun _ => ⟨rfl, rfl⟩, fun h => by omega⟩
    · cases h
      exact ⟨Or.inl rfl, fun h => by omega, fun h => by omega⟩

theorem lenUtf8_le (cp : Nat) : 1 ≤ lenUtf8 cp ∧ lenUtf8 cp ≤ 4 := by
  unfold lenUtf8; repeat' split
  all_goals omega

/-- a decoded character: its length is `len_utf8`, it is a scalar value, and all the bytes
    it spans were present. -/
theorem decode4_ok {b0 cp n : Nat} {o1 o2 o3 : Option Nat} (h : decode4 b0 o1 o2 o3 = .ok cp n) :
    n = lenUtf8 cp ∧ isScalar cp = true ∧ 1 ≤ n ∧ n ≤ 4 ∧ (2 ≤ n → o1.isSome = true) ∧
      (3 ≤ n → o2.isSome = true) ∧ (4 ≤ n → o3.isSome = true) := by
  unfold decode4 at h
  rw [isScalar_iff]; unfold lenUtf8
  split at h
  · rename_i h0; cases h
    rw [if_pos h0]
    exact ⟨rfl, by omega, by omega, by omega, fun h => by omega, fun h => by omega,
      fun h => by omega⟩
  · split at h
    · cases h
    · split at h
      · have := dec2_ok (by omega) h
        rw [if_neg (by omega), if_pos (by omega)]
        exact ⟨this.1, by omega, by omega, by omega, fun _ => this.2.2.2, fun h => by omega,
          fun h => by omega⟩
      · split at h
        · have := dec3_ok (by omega) (by split <;> omega) (by split <;> omega)
            (by split <;> omega) (by split <;> omega) h
          rw [if_neg (by omega), if_neg (by omega), if_pos (by omega)]
          exact ⟨this.1, by omega, by omega, by omega, fun _ => this.2.2.2.2.1,
            fun _ => this.2.2.2.2.2, fun h => by omega⟩
        · split at h
          · have := dec4_ok (by omega) (by split <;> omega) (by split <;> omega)
              (by split <;> omega) (by split <;> omega) h
            rw [if_neg (by omega), if_neg (by omega), if_neg (by omega)]
            exact ⟨this.1, by omega, by omega, by omega, fun _ => this.2.2.2.1,
              fun _ => this.2.2.2.2.1, fun _ => this.2.2.2.2.2⟩
          · cases h

/-- an invalid sequence: between 1 and 3 bytes, all of them present. -/
theorem decode4_invalid {b0 n : Nat} {o1 o2 o3 : Option Nat}
    (h : decode4 b0 o1 o2 o3 = .invalid n) :
    1 ≤ n ∧ n ≤ 3 ∧ (2 ≤ n → o1.isSome = true) ∧ (3 ≤ n → o2.isSome = true) := by
  unfold decode4 at h
  split at h
  · cases h
  · split at h
    · cases h; exact ⟨by omega, by omega, fun h => by omega, fun h => by omega⟩
    · split at h
      · have := dec2_invalid h
        exact ⟨by omega, by omega, fun h => by omega, fun h => by omega⟩
      · split at h
        · have := dec3_invalid h
          exact ⟨by omega, by omega, fun h => (this.2 h).1, fun h => by omega⟩
        · split at h
          · have := dec4_invalid h
            exact ⟨by omega, by omega, fun h => (this.2.1 h).1, fun h => (this.2.1 (by omega)).2⟩
          · cases h; exact ⟨by omega, by omega, fun h => by omega, fun h => by omega⟩

/-! ### lists -/

theorem lt_of_getElem?_isSome {l : List Nat} {k : Nat} (h : l[k]?.isSome = true) :
    k < l.length := by
  false_or_by_contra
  rename_i hn
  rw [List.getElem?_eq_none (by omega)] at h
  cases h

theorem oext_append (l q : List Nat) (k : Nat) : OExt l[k]? (l ++ q)[k]? := by
  by_cases hk : k < l.length
  · right; rw [List.getElem?_append_left hk]
  · left; exact List.getElem?_eq_none (by omega)

theorem decodeFirst_cons (b0 : Nat) (rest : List Nat) :
    decodeFirst (b0 :: rest) = decode4 b0 rest[0]? rest[1]? rest[2]? := rfl

/-- T0a. -/
theorem decodeFirst_ok {l : List Nat} {cp n : Nat} (h : decodeFirst l = .ok cp n) :
    n = lenUtf8 cp ∧ n ≤ l.length ∧ 1 ≤ n ∧ isScalar cp = true := by
  cases l with
  | nil => cases h
  | cons b0 rest =>
    rw [decodeFirst_cons] at h
    have ⟨h1, h2, h3, h4, h5, h6, h7⟩ := decode4_ok h
    have a5 := fun h => lt_of_getElem?_isSome (h5 h)
    have a6 := fun h => lt_of_getElem?_isSome (h6 h)
    have a7 := fun h => lt_of_getElem?_isSome (h7 h)
    refine ⟨h1, ?_, h3, h2⟩
    simp only [List.length_cons]
    omega

/-- T0b. -/
theorem decodeFirst_invalid {l : List Nat} {n : Nat} (h : decodeFirst l = .invalid n) :
    1 ≤ n ∧ n ≤ l.length ∧ n ≤ 3 := by
  cases l with
  | nil => cases h
  | cons b0 rest =>
    rw [decodeFirst_cons] at h
    have ⟨h1, h2, h3, h4⟩ := decode4_invalid h
    have a3 := fun h => lt_of_getElem?_isSome (h3 h)
    have a4 := fun h => lt_of_getElem?_isSome (h4 h)
    refine ⟨h1, ?_, h2⟩
    simp only [List.length_cons]
    omega

/-- T0c: prefix stability. -/
theorem decodeFirst_append {p : List Nat} (q : List Nat) (h : decodeFirst p ≠ .incomplete) :
    decodeFirst (p ++ q) = decodeFirst p := by
  cases p with
  | nil => exact absurd rfl h
  | cons b0 rest =>
    rw [List.cons_append, decodeFirst_cons, decodeFirst_cons]
    exact decode4_mono (oext_append _ _ _) (oext_append _ _ _) (oext_append _ _ _) h

/-- T0d: only the first four bytes matter. -/
theorem decodeFirst_take4 (l : List Nat) : decodeFirst (l.take 4) = decodeFirst l := by
  cases l with
  | nil => rfl
  | cons b0 rest =>
    rw [List.take_succ_cons, decodeFirst_cons, decodeFirst_cons]
    simp only [List.getElem?_take]
    rfl

theorem decodeFirst_incomplete_length : ∀ {l : List Nat}, decodeFirst l = .incomplete →
    l.length < 4
  | [], _ => by simp
  | [_], _ => by simp
  | [_, _], _ => by simp
  | [_, _, _], _ => by simp
  | b0 :: a :: b :: c :: _, h => absurd h (decode4_some_ne_incomplete b0 a b c)

/-! ### round trip -/

theorem encode_length (cp : Nat) : (encode cp).length = lenUtf8 cp := by
  unfold encode lenUtf8; repeat' split
  all_goals rfl

theorem dec3_some_ok {b0 lo hi b1 b2 : Nat} (h1 : lo ≤ b1) (h2 : b1 ≤ hi) (h3 : isCont b2 = true) :
    dec3 b0 lo hi (some b1) (some b2) =
      .ok ((b0 - 0xE0) * 4096 + (b1 - 0x80) * 64 + (b2 - 0x80)) 3 := by
  simp only [dec3]
  rw [if_pos (by rw [Bool.and_eq_true, decide_eq_true_iff, decide_eq_true_iff]; exact ⟨h1, h2⟩),
    if_pos h3]

theorem dec4_some_ok {b0 lo hi b1 b2 b3 : Nat} (h1 : lo ≤ b1) (h2 : b1 ≤ hi)
    (h3 : isCont b2 = true) (h4 : isCont b3 = true) :
    dec4 b0 lo hi (some b1) (some b2) (some b3) =
      .ok ((b0 - 0xF0) * 262144 + (b1 - 0x80) * 4096 + (b2 - 0x80) * 64 + (b3 - 0x80)) 4 := by
  simp only [dec4]
  rw [if_pos (by rw [Bool.and_eq_true, decide_eq_true_iff, decide_eq_true_iff]; exact ⟨h1, h2⟩),
    if_pos h3, if_pos h4]

/-- T0e: decoding what `encode_utf8` wrote gives the character back, whatever follows. -/
theorem decodeFirst_encode {cp : Nat} (hs : isScalar cp = true) (q : List Nat) :
    decodeFirst (encode cp ++ q) = .ok cp (lenUtf8 cp) := by
  rw [isScalar_iff] at hs
  by_cases h1 : cp < 0x80
  · have he : encode cp = [cp] := by unfold encode; rw [if_pos h1]
    have hl : lenUtf8 cp = 1 := by unfold lenUtf8; rw [if_pos h1]
    rw [he, hl]
    show decode4 cp _ _ _ = _
    unfold decode4; rw [if_pos h1]
  · by_cases h2 : cp < 0x800
    · have he : encode cp = [0xC0 + cp / 64, 0x80 + cp % 64] := by
        unfold encode; rw [if_neg h1, if_pos h2]
      have hl : lenUtf8 cp = 2 := by unfold lenUtf8; rw [if_neg h1, if_pos h2]
      rw [he, hl]
      show decode4 (0xC0 + cp / 64) (some (0x80 + cp % 64)) _ _ = _
      unfold decode4
      rw [if_neg (by omega), if_neg (by omega), if_pos (by omega)]
      simp only [dec2]
      rw [if_pos ((isCont_iff _).2 (by omega))]
      simp only [Step.ok.injEq, and_true]; omega
    · by_cases h3 : cp < 0x10000
      · have he : encode cp = [0xE0 + cp / 4096, 0x80 + (cp / 64) % 64, 0x80 + cp % 64] := by
          unfold encode; rw [if_neg h1, if_neg h2, if_pos h3]
        have hl : lenUtf8 cp = 3 := by unfold lenUtf8; rw [if_neg h1, if_neg h2, if_pos h3]
        rw [he, hl]
        show decode4 (0xE0 + cp / 4096) (some (0x80 + (cp / 64) % 64)) (some (0x80 + cp % 64)) _
          = _
        unfold decode4
        rw [if_neg (by omega), if_neg (by omega), if_neg (by omega), if_pos (by omega)]
        rw [dec3_some_ok (by split <;> omega) (by split <;> omega) ((isCont_iff _).2 (by omega))]
        simp only [Step.ok.injEq, and_true]; omega
      · have he : encode cp = [0xF0 + cp / 262144, 0x80 + (cp / 4096) % 64,
            0x80 + (cp / 64) % 64, 0x80 + cp % 64] := by
          unfold encode; rw [if_neg h1, if_neg h2, if_neg h3]
        have hl : lenUtf8 cp = 4 := by unfold lenUtf8; rw [if_neg h1, if_neg h2, if_neg h3]
        rw [he, hl]
        show decode4 (0xF0 + cp / 262144) (some (0x80 + (cp / 4096) % 64))
          (some (0x80 + (cp / 64) % 64)) (some (0x80 + cp % 64)) = _
        unfold decode4
        rw [if_neg (by omega), if_neg (by omega), if_neg (by omega), if_neg (by omega),
          if_pos (by omega)]
        rw [dec4_some_ok (by split <;> omega) (by split <;> omega) ((isCont_iff _).2 (by omega))
          ((isCont_iff _).2 (by omega))]
        simp only [Step.ok.injEq, and_true]; omega

/-! ### decoding is the inverse of encoding -/

theorem dec2_enc {b0 b1 cp n : Nat} (hb : 0xC2 ≤ b0 ∧ b0 ≤ 0xDF)
    (h : dec2 b0 (some b1) = .ok cp n) : encode cp = [b0, b1] := by
  simp only [dec2] at h
  split at h
  · rename_i hc; rw [isCont_iff] at hc
    simp only [Step.ok.injEq] at h
    obtain ⟨hcp, -⟩ := h
    unfold encode
    rw [if_neg (by omega), if_pos (by omega)]
    have e1 : 0xC0 + cp / 64 = b0 := by omega
    have e2 : 0x80 + cp % 64 = b1 := by omega
    rw [e1, e2]
  · cases h

theorem dec3_enc {b0 lo hi b1 b2 cp n : Nat} (hb : 0xE0 ≤ b0 ∧ b0 ≤ 0xEF) (hlo : 0x80 ≤ lo)
    (hlo' : b0 ≠ 0xE0 ∨ 0xA0 ≤ lo) (hhi : hi ≤ 0xBF)
    (h : dec3 b0 lo hi (some b1) (some b2) = .ok cp n) : encode cp = [b0, b1, b2] := by
  simp only [dec3] at h
  split at h
  · rename_i hc
    rw [Bool.and_eq_true, decide_eq_true_iff, decide_eq_true_iff] at hc
    split at h
    · rename_i hd; rw [isCont_iff] at hd
      simp only [Step.ok.injEq] at h
      obtain ⟨hcp, -⟩ := h
      unfold encode
      rw [if_neg (by omega), if_neg (by omega), if_pos (by omega)]
      have e1 : 0xE0 + cp / 4096 = b0 := by omega
      have e2 : 0x80 + cp / 64 % 64 = b1 := by omega
      have e3 : 0x80 + cp % 64 = b2 := by omega
      rw [e1, e2, e3]
    · cases h
  · cases h

theorem dec4_enc {b0 lo hi b1 b2 b3 cp n : Nat} (hb : 0xF0 ≤ b0 ∧ b0 ≤ 0xF4) (hlo : 0x80 ≤ lo)
    (hlo' : b0 ≠ 0xF0 ∨ 0x90 ≤ lo) (hhi : hi ≤ 0xBF)
    (h : dec4 b0 lo hi (some b1) (some b2) (some b3) = .ok cp n) :
    encode cp = [b0, b1, b2, b3] := by
  simp only [dec4] at h
  split at h
  · rename_i hc
    rw [Bool.and_eq_true, decide_eq_true_iff, decide_eq_true_iff] at hc
    split at h
    · rename_i hd; rw [isCont_iff] at hd
      split at h
      · rename_i he; rw [isCont_iff] at he
        simp only [Step.ok.injEq] at h
        obtain ⟨hcp, -⟩ := h
        unfold encode
        rw [if_neg (by omega), if_neg (by omega), if_neg (by omega)]
        have e1 : 0xF0 + cp / 262144 = b0 := by omega
        have e2 : 0x80 + cp / 4096 % 64 = b1 := by omega
        have e3 : 0x80 + cp / 64 % 64 = b2 := by omega
        have e4 : 0x80 + cp % 64 = b3 := by omega
        rw [e1, e2, e3, e4]
      · cases h
    · cases h
  · cases h

/-- the bytes a decoded character spans are its `encode_utf8` encoding. -/
theorem decode4_enc {b0 cp n : Nat} {o1 o2 o3 : Option Nat} (h : decode4 b0 o1 o2 o3 = .ok cp n) :
    encode cp = b0 :: (o1.toList ++ o2.toList ++ o3.toList).take (n - 1) := by
  have hk := decode4_ok h
  unfold decode4 at h
  split at h
  · rename_i h0
    simp only [Step.ok.injEq] at h
    obtain ⟨rfl, rfl⟩ := h
    unfold encode; rw [if_pos h0]; rfl
  · split at h
    · cases h
    · split at h
      · have hn := (dec2_ok (by omega) h).1
        subst hn
        cases o1 with
        | none => cases h
        | some b1 => rw [dec2_enc (by omega) h]; rfl
      · split at h
        · have hn := (dec3_ok (by omega) (by split <;> omega) (by split <;> omega)
            (by split <;> omega) (by split <;> omega) h).1
          subst hn
          cases o1 with
          | none => cases h
          | some b1 =>
            cases o2 with
            | none => exact absurd (hk.2.2.2.2.2.1 (by omega)) (by simp)
            | some b2 =>
              rw [dec3_enc (by omega) (by split <;> omega) (by split <;> omega)
                (by split <;> omega) h]; rfl
        · split at h
          · have hn := (dec4_ok (by omega) (by split <;> omega) (by split <;> omega)
              (by split <;> omega) (by split <;> omega) h).1
            subst hn
            cases o1 with
            | none => cases h
            | some b1 =>
              cases o2 with
              | none => exact absurd (hk.2.2.2.2.2.1 (by omega)) (by simp)
              | some b2 =>
                cases o3 with
                | none => exact absurd (hk.2.2.2.2.2.2 (by omega)) (by simp)
                | some b3 =>
                  rw [dec4_enc (by omega) (by split <;> omega) (by split <;> omega)
                    (by split <;> omega) h]; rfl
          · cases h

theorem opts_eq_take3 : ∀ (r : List Nat), r[0]?.toList ++ r[1]?.toList ++ r[2]?.toList = r.take 3
  | [] => rfl
  | [_] => rfl
  | [_, _] => rfl
  | _ :: _ :: _ :: _ => rfl

/-- T0f: a decoded character was written as its `encode_utf8` encoding. -/
theorem decodeFirst_ok_take {l : List Nat} {cp n : Nat} (h : decodeFirst l = .ok cp n) :
    l.take n = encode cp := by
  cases l with
  | nil => cases h
  | cons b0 rest =>
    rw [decodeFirst_cons] at h
    have hk := decode4_ok h
    rw [decode4_enc h, opts_eq_take3, List.take_take]
    obtain ⟨m, rfl⟩ : ∃ m, n = m + 1 := ⟨n - 1, by omega⟩
    rw [List.take_succ_cons, Nat.add_sub_cancel, Nat.min_eq_left (by omega)]

end Scryer.Utf8
