import ScryerModel.Model.Utf8
/-! Lemmas about the UTF-8 decoder model (C18): what `decode4` returns, that it is monotone
in the information it is given (a missing byte = `none`), and the consequences for
`decodeFirst` on lists (prefix stability, dependence on at most 4 bytes, round trip). -/
namespace Scryer.Utf8

/-- information order on an optional byte: `o` is unknown, or already equal to `o'`. -/
def OExt (o o' : Option Nat) : Prop := o = none ∨ o = o'

theorem OExt.refl (o : Option Nat) : OExt o o := Or.inr rfl

theorem isCont_iff (b : Nat) : isCont b = true ↔ (0x80 ≤ b ∧ b ≤ 0xBF) := by
  unfold isCont; rw [Bool.and_eq_true, decide_eq_true_iff, decide_eq_true_iff]

theorem isScalar_iff (cp : Nat) :
    isScalar cp = true ↔ (cp < 0xD800 ∨ (0xE000 ≤ cp ∧ cp < 0x110000)) := by
  unfold isScalar
  rw [Bool.or_eq_true, Bool.and_eq_true, decide_eq_true_iff, decide_eq_true_iff,
    decide_eq_true_iff]

theorem dec2_mono {b0 : Nat} {o1 p1 : Option Nat} (h1 : OExt o1 p1)
    (h : dec2 b0 o1 ≠ .incomplete) : dec2 b0 p1 = dec2 b0 o1 := by
  rcases h1 with rfl | rfl
  · exact absurd rfl h
  · rfl

theorem dec3_mono {b0 lo hi : Nat} {o1 o2 p1 p2 : Option Nat} (h1 : OExt o1 p1)
    (h2 : OExt o2 p2) (h : dec3 b0 lo hi o1 o2 ≠ .incomplete) :
    dec3 b0 lo hi p1 p2 = dec3 b0 lo hi o1 o2 := by
  rcases h1 with rfl | rfl
  · exact absurd rfl h
  · rcases h2 with rfl | rfl
    · cases o1 with
      | none => exact absurd rfl h
      | some b1 =>
        simp only [dec3] at h ⊢
        split at h
        · exact absurd rfl h
        · rename_i hc; rw [if_neg hc]
    · rfl

theorem dec4_mono {b0 lo hi : Nat} {o1 o2 o3 p1 p2 p3 : Option Nat} (h1 : OExt o1 p1)
    (h2 : OExt o2 p2) (h3 : OExt o3 p3) (h : dec4 b0 lo hi o1 o2 o3 ≠ .incomplete) :
    dec4 b0 lo hi p1 p2 p3 = dec4 b0 lo hi o1 o2 o3 := by
  rcases h1 with rfl | rfl
  · exact absurd rfl h
  · cases o1 with
    | none => exact absurd rfl h
    | some b1 =>
      rcases h2 with rfl | rfl
      · simp only [dec4] at h ⊢
        split at h
        · exact absurd rfl h
        · rename_i hc; rw [if_neg hc]
      · cases o2 with
        | none =>
          simp only [dec4] at h ⊢
          split at h
          · exact absurd rfl h
          · rename_i hc; rw [if_neg hc]
        | some b2 =>
          rcases h3 with rfl | rfl
          · simp only [dec4] at h ⊢
            split at h
            · rename_i hc
              split at h
              · exact absurd rfl h
              · rename_i hd; rw [if_pos hc, if_neg hd]
            · rename_i hc; rw [if_neg hc]
          · rfl

/-- once the decoder has decided, more bytes do not change the decision. -/
theorem decode4_mono {b0 : Nat} {o1 o2 o3 p1 p2 p3 : Option Nat}
    (h1 : OExt o1 p1) (h2 : OExt o2 p2) (h3 : OExt o3 p3)
    (h : decode4 b0 o1 o2 o3 ≠ .incomplete) :
    decode4 b0 p1 p2 p3 = decode4 b0 o1 o2 o3 := by
  unfold decode4 at h ⊢
  split
  · rfl
  · rename_i h0; rw [if_neg h0] at h
    split
    · rfl
    · rename_i h0; rw [if_neg h0] at h
      split
      · rename_i h0; rw [if_pos h0] at h; exact dec2_mono h1 h
      · rename_i h0; rw [if_neg h0] at h
        split
        · rename_i h0; rw [if_pos h0] at h; exact dec3_mono h1 h2 h
        · rename_i h0; rw [if_neg h0] at h
          split
          · rename_i h0; rw [if_pos h0] at h; exact dec4_mono h1 h2 h3 h
          · rfl

/-- with all three following bytes present the decoder always decides. -/
theorem decode4_some_ne_incomplete (b0 a b c : Nat) :
    decode4 b0 (some a) (some b) (some c) ≠ .incomplete := by
  unfold decode4 dec2 dec3 dec4
  repeat' split
  all_goals simp

end Scryer.Utf8
