import ScryerModel.Model.Flags
/-!
Helper lemmas for the flag model (C44).

Main results: `get_eq_spec` and `set_eq_spec` — clause resolution over the corrected clause
lists (`cpfFixed`, `spfFixed`) computes exactly the table specification (`specGet`,
`specSet`), for every flag term, value term and state. Then facts about the table:
frame/read-back lemmas for `Flag.store`, preservation of the reachable-state invariant.
-/
namespace Scryer.Flags

/-! ### flag names -/

theorem ofName_name (k : Flag) : Flag.ofName? k.name = some k := by cases k <;> rfl

theorem ofName_some {s : String} {k : Flag} (h : Flag.ofName? s = some k) : s = k.name := by
  unfold Flag.ofName? at h
  repeat' split at h
  all_goals first | (cases h; assumption) | cases h

theorem ofName_none {s : String} (h : Flag.ofName? s = none) :
    s ≠ "max_arity" ∧ s ≠ "bounded" ∧ s ≠ "integer_rounding_function" ∧ s ≠ "double_quotes" ∧
    s ≠ "unknown" ∧ s ≠ "max_integer" ∧ s ≠ "min_integer" ∧ s ≠ "occurs_check" ∧
    s ≠ "answer_write_options" := by
  unfold Flag.ofName? at h
  repeat' split at h
  all_goals simp_all

theorem name_injective {k k' : Flag} (h : k.name = k'.name) : k = k' := by
  have := ofName_name k
  rw [h, ofName_name] at this
  cases this; rfl

/-! ### enumeration (Flag unbound): clause-by-clause stepping lemmas -/

/-- `o` with an optional extra first answer. -/
def Outcome.addOpt (o : Outcome) (x : Option Args) : Outcome :=
  match x with
  | some a => o.addAnswer a
  | none => o

@[simp] theorem addOpt_st (o : Outcome) (x) : (o.addOpt x).st = o.st := by cases x <;> rfl
@[simp] theorem addOpt_err (o : Outcome) (x) : (o.addOpt x).err = o.err := by cases x <;> rfl
@[simp] theorem addOpt_answers (o : Outcome) (x) :
    (o.addOpt x).answers = x.toList ++ o.answers := by
  cases x <;> rfl

@[simp] theorem unifyArg_var (n : Nat) (t : Term) : unifyArg (.var n) t = some t := rfl

/-- a clause `p(Flag, _) :- Flag == nm, …` is passed over when `Flag` is unbound. -/
theorem solve_guard_var (nm : String) (gs cs n v st) :
    solve (⟨none, none, .eqeq .flag (A nm) :: gs⟩ :: cs) ⟨.var n, v⟩ st
      = solve cs ⟨.var n, v⟩ st := by
  simp [solve, headUnify, runBody, Args.get]

/-- a fact `p(nm, t).` contributes the answer `Flag = nm, Value = t` when `Value` unifies. -/
theorem solve_fact_var (nm : String) (t : Term) (cs n v st) :
    solve (⟨some (A nm), some t, []⟩ :: cs) ⟨.var n, v⟩ st =
      (solve cs ⟨.var n, v⟩ st).addOpt ((unifyArg v t).map fun v' => ⟨A nm, v'⟩) := by
  cases h : unifyArg v t <;> simp [solve, headUnify, runBody, h, Outcome.addOpt]

/-- the value a getter system call unifies `Value` with. -/
def getterVal : Sys → St → Option Term
  | .getDoubleQuotes, st => some st.dq.toAtom
  | .getUnknown, st => some st.unk.toAtom
  | .isStoEnabled, st => some st.oc.flagValue
  | .getAnswerWriteOptions, st => some (answerWriteOptions st)
  | _, _ => none

theorem solve_getter_var (nm : String) (g : Sys) (t : Term) (cs n v st)
    (hg : getterVal g st = some t) :
    solve (⟨some (A nm), none, [.sys g]⟩ :: cs) ⟨.var n, v⟩ st =
      (solve cs ⟨.var n, v⟩ st).addOpt ((unifyArg v t).map fun v' => ⟨A nm, v'⟩) := by
  cases g <;> simp [getterVal] at hg <;> subst hg <;>
    cases h : unifyArg v _ <;>
    simp [solve, headUnify, runBody, runSys, unifyValue, h, Outcome.addOpt]

theorem solve_tail_var (n v st) :
    solve [⟨none, none, [.isAtom .flag, .throw .domFlag]⟩,
           ⟨none, none, [.nonvar .flag, .throw .typeAtom]⟩] ⟨.var n, v⟩ st = ⟨[], none, st⟩ := by
  simp [solve, headUnify, runBody, Args.get, Term.isAtom, Term.isVar]

theorem filterMap_cons_toList {α β} (f : α → Option β) (k : α) (ks : List α) :
    (k :: ks).filterMap f = (f k).toList ++ ks.filterMap f := by
  cases h : f k <;> simp [h]

theorem get_var (n : Nat) (v : Term) (st : St) :
    solve cpfFixed ⟨.var n, v⟩ st = specGet (.var n) v st := by
  have e : ∀ o : Outcome, o = ⟨o.answers, o.err, o.st⟩ := fun o => rfl
  rw [e (solve _ _ _)]
  simp only [cpfFixed, solve_guard_var, solve_fact_var, solve_tail_var,
    solve_getter_var _ .getDoubleQuotes _ _ _ _ _ rfl,
    solve_getter_var _ .getUnknown _ _ _ _ _ rfl,
    solve_getter_var _ .isStoEnabled _ _ _ _ _ rfl,
    solve_getter_var _ .getAnswerWriteOptions _ _ _ _ _ rfl,
    addOpt_st, addOpt_err, addOpt_answers]
  simp [specGet, Flag.enumOrder, filterMap_cons_toList, Flag.value, Flag.name]

/-! ### Flag given -/

theorem get_known (k : Flag) (v : Term) (st : St) :
    solve cpfFixed ⟨A k.name, v⟩ st = specGet (A k.name) v st := by
  cases k <;> cases v <;>
    simp [cpfFixed, solve, headUnify, runBody, unifyArg, Args.get, Args.set, Term.isAtom, runSys,
      unifyValue, specGet, Flag.value, Flag.name, Flag.ofName?, Outcome.addAnswer]
  all_goals (repeat' split)
  all_goals simp_all

theorem get_unknown_atom (s : String) (v : Term) (st : St) (h : Flag.ofName? s = none) :
    solve cpfFixed ⟨.atom s, v⟩ st = specGet (.atom s) v st := by
  obtain ⟨h1, h2, h3, h4, h5, h6, h7, h8, h9⟩ := ofName_none h
  simp [cpfFixed, solve, headUnify, runBody, unifyArg, Args.get, Term.isAtom, specGet, h,
    h1, h2, h3, h4, h5, h6, h7, h8, h9]

theorem get_nonatom (f v : Term) (st : St) (hv : f.isVar = false) (ha : f.isAtom = false) :
    solve cpfFixed ⟨f, v⟩ st = specGet f v st := by
  cases f <;> simp [Term.isVar, Term.isAtom] at hv ha <;>
    simp [cpfFixed, solve, headUnify, runBody, unifyArg, Args.get, Term.isAtom, Term.isVar, specGet]

/-- clause resolution over the corrected `current_prolog_flag/2` clauses = the table. -/
theorem get_eq_spec (f v : Term) (st : St) : get f v st = specGet f v st := by
  unfold get
  cases f with
  | var n => exact get_var n v st
  | atom s =>
    cases h : Flag.ofName? s with
    | none => exact get_unknown_atom s v st h
    | some k => rw [ofName_some h]; exact get_known k v st
  | int i => exact get_nonatom _ v st rfl rfl
  | flt b => exact get_nonatom _ v st rfl rfl
  | c1 g a => exact get_nonatom _ v st rfl rfl
  | c2 g a b => exact get_nonatom _ v st rfl rfl

/-! ### set_prolog_flag -/

theorem set_anyvar (f v : Term) (st : St) (h : (f.isVar || v.isVar) = true) :
    solve spfFixed ⟨f, v⟩ st = specSet f v st := by
  simp [spfFixed, solve, headUnify, runBody, specSet, h]

theorem set_known (k : Flag) (v : Term) (st : St) (hv : v.isVar = false) :
    solve spfFixed ⟨A k.name, v⟩ st = specSet (A k.name) v st := by
  cases k <;> cases v <;> simp [Term.isVar] at hv <;>
    simp [spfFixed, solve, headUnify, runBody, unifyArg, Args.get, Term.isVar, Term.isAtom,
      Term.isInt, runSys, specSet, Flag.value, Flag.name, Flag.ofName?, Outcome.addAnswer,
      Flag.vclass, Flag.writable, Flag.store, sysSetDoubleQuotes, sysSetUnknown, Err.term]
  all_goals (repeat' split)
  all_goals simp_all

theorem set_unknown_atom (s : String) (v : Term) (st : St) (hv : v.isVar = false)
    (h : Flag.ofName? s = none) :
    solve spfFixed ⟨.atom s, v⟩ st = specSet (.atom s) v st := by
  obtain ⟨h1, h2, h3, h4, h5, h6, h7, h8, h9⟩ := ofName_none h
  cases v <;> simp [Term.isVar] at hv <;>
  simp [spfFixed, solve, headUnify, runBody, unifyArg, Args.get, Term.isAtom, Term.isVar, specSet,
    h, h1, h2, h3, h4, h5, h6, h7, h8, h9]

theorem set_nonatom (f v : Term) (st : St) (hf : f.isVar = false) (ha : f.isAtom = false)
    (hv : v.isVar = false) :
    solve spfFixed ⟨f, v⟩ st = specSet f v st := by
  cases f <;> simp [Term.isVar, Term.isAtom] at hf ha <;>
    cases v <;> simp [Term.isVar] at hv <;>
    simp [spfFixed, solve, headUnify, runBody, unifyArg, Args.get, Term.isAtom, Term.isVar,
      specSet]

/-- clause resolution over the corrected `set_prolog_flag/2` clauses = the table. -/
theorem set_eq_spec (f v : Term) (st : St) : set f v st = specSet f v st := by
  unfold set
  cases hfv : (f.isVar || v.isVar) with
  | true => exact set_anyvar f v st hfv
  | false =>
    have hf : f.isVar = false := by cases h : f.isVar <;> simp [h] at hfv ⊢
    have hv : v.isVar = false := by cases h : v.isVar <;> simp [h] at hfv ⊢
    cases f with
    | var n => simp [Term.isVar] at hf
    | atom s =>
      cases h : Flag.ofName? s with
      | none => exact set_unknown_atom s v st hv h
      | some k => rw [ofName_some h]; exact set_known k v st hv
    | int i => exact set_nonatom _ v st rfl rfl hv
    | flt b => exact set_nonatom _ v st rfl rfl hv
    | c1 g a => exact set_nonatom _ v st rfl rfl hv
    | c2 g a b => exact set_nonatom _ v st rfl rfl hv

/-! ### facts about the table -/

@[simp] theorem specGet_st (f v : Term) (st : St) : (specGet f v st).st = st := by
  unfold specGet
  split
  · rfl
  · split
    · split
      · split <;> rfl
      · rfl
    · rfl
  · rfl

theorem get_st (f v : Term) (st : St) : (get f v st).st = st := by
  rw [get_eq_spec]; exact specGet_st f v st

/-- reading back what was stored. -/
theorem value_store (k : Flag) (v : Term) (st : St) (hw : k.writable = true)
    (hv : k.vclass v = .ok) : k.value (k.store v st) = some v := by
  cases k <;> simp [Flag.writable] at hw <;> simp only [Flag.vclass] at hv
  case awo => simp [Flag.value, Flag.store, answerWriteOptions]
  all_goals
    split at hv
    · rename_i h
      rcases h with h | h | h <;> subst h <;>
        simp [Flag.value, Flag.store, DQ.toAtom, Unk.toAtom, OC.flagValue]
    · cases hv

/-- storing into one flag leaves every other flag's value alone. -/
theorem value_store_other (k k' : Flag) (v : Term) (st : St) (hne : k' ≠ k) :
    k'.value (k.store v st) = k'.value st := by
  cases k <;> cases k' <;> first | (exfalso; exact hne rfl) | skip
  all_goals simp [Flag.value, Flag.store, answerWriteOptions]

theorem wf_store (k : Flag) (v : Term) (st : St) (hv : k.vclass v = .ok) (h : st.wf) :
    (k.store v st).wf := by
  cases k <;> simp [Flag.store] <;> (try (repeat' split)) <;>
    first | exact h | (simpa [St.wf, Flag.vclass] using hv)

theorem specSet_st_cases (f v : Term) (st : St) :
    (specSet f v st).st = st ∨
      ∃ k : Flag, f = A k.name ∧ k.writable = true ∧ k.vclass v = .ok ∧ v.isVar = false ∧
        (specSet f v st).st = k.store v st ∧ (specSet f v st).answers = [⟨f, v⟩] ∧
        (specSet f v st).err = none := by
  unfold specSet
  split
  · exact Or.inl rfl
  · rename_i hfv
    have hv : v.isVar = false := by cases h : v.isVar <;> simp [h] at hfv ⊢
    split
    · rename_i s
      split
      · exact Or.inl rfl
      · rename_i k hk
        split
        · exact Or.inl rfl
        · exact Or.inl rfl
        · rename_i hc
          split
          · rename_i hw
            exact Or.inr ⟨k, by rw [ofName_some hk], hw, hc, hv, rfl, rfl, rfl⟩
          · split <;> exact Or.inl rfl
    · exact Or.inl rfl

theorem wf_specSet (f v : Term) (st : St) (h : st.wf) : (specSet f v st).st.wf := by
  rcases specSet_st_cases f v st with e | ⟨k, _, _, hc, _, e, _, _⟩
  · rw [e]; exact h
  · rw [e]; exact wf_store k v st hc h

theorem wf_init : St.init.wf := by simp [St.wf, St.init]

theorem step_st_get (f v : Term) (st : St) : (fixed.step (.get f v) st) = get f v st := rfl
theorem step_st_set (f v : Term) (st : St) : (fixed.step (.set f v) st) = set f v st := rfl

theorem wf_step (o : Op) (st : St) (h : st.wf) : (fixed.step o st).st.wf := by
  cases o with
  | get f v => rw [step_st_get, get_st]; exact h
  | set f v => rw [step_st_set, set_eq_spec]; exact wf_specSet f v st h

theorem wf_run (ops : List Op) (st : St) (h : st.wf) : (run ops st).wf := by
  induction ops generalizing st with
  | nil => exact h
  | cons o os ih => exact ih _ (wf_step o st h)

/-! ### given vs enumerated -/

theorem beq_term (a b : Term) : (a == b) = decide (a = b) := rfl

theorem filter_entry (o : Option Term) (nm : String) (q : Term) :
    ((o.map fun v' => (⟨A nm, v'⟩ : Args)).toList.filter fun a => decide (a.f = q)) =
      if A nm = q then (o.map fun v' => (⟨A nm, v'⟩ : Args)).toList else [] := by
  cases o <;> by_cases h : A nm = q <;> simp [h]

theorem specGet_var_answers (n : Nat) (v : Term) (st : St) :
    (specGet (.var n) v st).answers =
      ((unifyArg v (.int 255)).map fun v' => (⟨A "max_arity", v'⟩ : Args)).toList ++
      ((unifyArg v (A "false")).map fun v' => (⟨A "bounded", v'⟩ : Args)).toList ++
      ((unifyArg v (A "toward_zero")).map fun v' => (⟨A "integer_rounding_function", v'⟩ : Args)).toList ++
      ((unifyArg v st.dq.toAtom).map fun v' => (⟨A "double_quotes", v'⟩ : Args)).toList ++
      ((unifyArg v st.unk.toAtom).map fun v' => (⟨A "unknown", v'⟩ : Args)).toList ++
      ((unifyArg v st.oc.flagValue).map fun v' => (⟨A "occurs_check", v'⟩ : Args)).toList ++
      ((unifyArg v (answerWriteOptions st)).map fun v' => (⟨A "answer_write_options", v'⟩ : Args)).toList := by
  simp [specGet, Flag.enumOrder, filterMap_cons_toList, Flag.value, Flag.name]

theorem given_eq_enumerated_spec (f v : Term) (n : Nat) (st : St) (hf : f.isVar = false) :
    (specGet f v st).answers = (specGet (.var n) v st).answers.filter fun a => decide (a.f = f) := by
  rw [specGet_var_answers]
  simp only [List.filter_append, filter_entry]
  cases f with
  | var m => simp [Term.isVar] at hf
  | atom s =>
    cases h : Flag.ofName? s with
    | none =>
      obtain ⟨h1, h2, h3, h4, h5, h6, h7, h8, h9⟩ := ofName_none h
      simp [specGet, h, Ne.symm h1, Ne.symm h2, Ne.symm h3, Ne.symm h4, Ne.symm h5, Ne.symm h8, Ne.symm h9]
    | some k =>
      rw [ofName_some h]
      cases k <;> simp [specGet, Flag.ofName?, Flag.name, Flag.value] <;> cases unifyArg v _ <;> rfl
  | int i => simp [specGet]
  | flt b => simp [specGet]
  | c1 g a => simp [specGet]
  | c2 g a b => simp [specGet]

/-! ### set succeeds iff the value reads back -/

@[simp] theorem isVar_var (n : Nat) : (Term.var n).isVar = true := rfl
@[simp] theorem isVar_atom (s : String) : (Term.atom s).isVar = false := rfl
@[simp] theorem isVar_int (i : Int) : (Term.int i).isVar = false := rfl
@[simp] theorem isVar_flt (b : String) : (Term.flt b).isVar = false := rfl
@[simp] theorem isVar_c1 (g : String) (a : Term) : (Term.c1 g a).isVar = false := rfl
@[simp] theorem isVar_c2 (g : String) (a b : Term) : (Term.c2 g a b).isVar = false := rfl

theorem specSet_known (k : Flag) (v : Term) (st : St) (hv : v.isVar = false) :
    specSet (A k.name) v st =
      match k.vclass v with
      | .inst => ⟨[], some (Err.inst.term ⟨A k.name, v⟩), st⟩
      | .bad => ⟨[], some (Err.domValue.term ⟨A k.name, v⟩), st⟩
      | .ok =>
        if k.writable then ⟨[⟨A k.name, v⟩], none, k.store v st⟩
        else if k.value st = some v then ⟨[⟨A k.name, v⟩], none, st⟩
        else ⟨[], none, st⟩ := by
  cases hc : k.vclass v <;> simp [specSet, hv, ofName_name, hc]

theorem specSet_unknown_atom (s : String) (v : Term) (st : St) (hv : v.isVar = false)
    (h : Flag.ofName? s = none) :
    specSet (.atom s) v st = ⟨[], some (Err.domFlag.term ⟨.atom s, v⟩), st⟩ := by
  simp [specSet, hv, h]

theorem specSet_nonatom (f v : Term) (st : St) (hf : f.isVar = false) (ha : f.isAtom = false)
    (hv : v.isVar = false) :
    specSet f v st = ⟨[], some (Err.typeAtom.term ⟨f, v⟩), st⟩ := by
  cases f <;> simp [Term.isAtom] at hf ha <;> simp [specSet, hv]

theorem specSet_anyvar (f v : Term) (st : St) (h : (f.isVar || v.isVar) = true) :
    specSet f v st = ⟨[], some (A "instantiation_error"), st⟩ := by
  simp [specSet, h, Err.term]

theorem unifyArg_self (v : Term) : unifyArg v v = some v := by
  cases v <;> simp [unifyArg]

theorem unifyArg_ne (v t : Term) (hv : v.isVar = false) (h : v ≠ t) : unifyArg v t = none := by
  cases v <;> simp [Term.isVar] at hv <;> simp [unifyArg, h]

theorem unifyArg_nonvar (v t : Term) (hv : v.isVar = false) :
    (unifyArg v t).isSome = decide (v = t) := by
  by_cases h : v = t
  · subst h; simp [unifyArg_self]
  · simp [unifyArg_ne v t hv h, h]

theorem checkWriteOptions_nil : checkWriteOptions nil = .ok := by
  simp [checkWriteOptions, listView, nil, checkOptionsSeq]

/-- in a reachable state every flag's current value is appropriate for the flag. -/
theorem vclass_value (k : Flag) (st : St) (t : Term) (h : st.wf) (hv : k.value st = some t) :
    k.vclass t = .ok := by
  cases k <;> simp [Flag.value] at hv <;> subst hv
  case awo =>
    simp only [Flag.vclass, answerWriteOptions]
    unfold St.wf at h
    split <;> simp_all [checkWriteOptions_nil]
  case doubleQuotes => cases hd : st.dq <;> simp [Flag.vclass, DQ.toAtom]
  case unknown => cases hd : st.unk <;> simp [Flag.vclass, Unk.toAtom]
  case occursCheck => cases hd : st.oc <;> simp [Flag.vclass, OC.flagValue]
  all_goals simp [Flag.vclass, Term.isInt]

theorem specGet_known_succeeded (k : Flag) (v : Term) (st : St) (hv : v.isVar = false) :
    (specGet (A k.name) v st).succeeded = decide (k.value st = some v) := by
  simp only [specGet, ofName_name]
  cases hk : k.value st with
  | none => simp [Outcome.succeeded]
  | some t =>
    by_cases h : v = t
    · subst h; simp [unifyArg_self, Outcome.succeeded]
    · have h' : t ≠ v := fun e => h e.symm
      simp [unifyArg_ne v t hv h, Outcome.succeeded, h']

theorem set_iff_reads_back_spec (f v : Term) (st : St) (hwf : st.wf)
    (hf : f.isVar = false) (hv : v.isVar = false) :
    (specSet f v st).succeeded = (specGet f v (specSet f v st).st).succeeded := by
  cases f with
  | var m => simp at hf
  | atom s =>
    cases h : Flag.ofName? s with
    | none => simp [specSet_unknown_atom s v st hv h, specGet, h, Outcome.succeeded]
    | some k =>
      have hs := ofName_some h
      subst hs
      rw [specGet_known_succeeded k v _ hv, specSet_known k v st hv]
      cases hc : k.vclass v with
      | ok =>
        cases hw : k.writable with
        | true => simp [Outcome.succeeded, value_store k v st hw hc]
        | false =>
          by_cases hval : k.value st = some v <;> simp [hval, Outcome.succeeded]
      | inst =>
        have : k.value st ≠ some v := fun e => by
          have := vclass_value k st v hwf e; rw [hc] at this; cases this
        simp [Outcome.succeeded, this]
      | bad =>
        have : k.value st ≠ some v := fun e => by
          have := vclass_value k st v hwf e; rw [hc] at this; cases this
        simp [Outcome.succeeded, this]
  | int i => simp [specSet_nonatom (.int i) v st rfl rfl hv, specGet, Outcome.succeeded]
  | flt b => simp [specSet_nonatom (.flt b) v st rfl rfl hv, specGet, Outcome.succeeded]
  | c1 g a => simp [specSet_nonatom (.c1 g a) v st rfl rfl hv, specGet, Outcome.succeeded]
  | c2 g a b => simp [specSet_nonatom (.c2 g a b) v st rfl rfl hv, specGet, Outcome.succeeded]

/-! ### histories -/

/-- the value a write operation stores into flag `k`, if it is an effective write to `k`. -/
def Op.writes (k : Flag) : Op → Option Term
  | .set f v => if f = A k.name ∧ v.isVar = false ∧ k.vclass v = .ok then some v else none
  | .get _ _ => none

/-- value of `k` after a history, computed from the history alone: the last effective write,
    or the starting value. -/
def expectedValue (k : Flag) : List Op → Option Term → Option Term
  | [], cur => cur
  | o :: os, cur => expectedValue k os (match o.writes k with | some v => some v | none => cur)

theorem value_step (k : Flag) (hw : k.writable = true) (o : Op) (st : St) :
    k.value (fixed.step o st).st = match o.writes k with | some v => some v | none => k.value st := by
  cases o with
  | get f v => simp [step_st_get, get_st, Op.writes]
  | set f v =>
    rw [step_st_set, set_eq_spec]
    rcases specSet_st_cases f v st with e | ⟨k', hf, hw', hc, hv, e, _, _⟩
    · rw [e]
      -- state unchanged: either not an effective write to k, or …
      by_cases h : f = A k.name ∧ v.isVar = false ∧ k.vclass v = .ok
      · -- an effective write to a writable flag always stores
        obtain ⟨h1, h2, h3⟩ := h
        subst h1
        rw [specSet_known k v st h2, h3] at e
        simp [hw] at e
        simp [Op.writes, h2, h3]
        rw [← e, value_store k v st hw h3]
      · simp [Op.writes, h]
    · rw [e]
      by_cases hk : k' = k
      · subst hk
        simp [Op.writes, hf, hv, hc, value_store k' v st hw' hc]
      · have : ¬ (f = A k.name) := by
          rw [hf]; intro h; injection h with h; exact hk (name_injective h)
        simp [Op.writes, this, value_store_other k' k v st (fun h => hk h.symm)]

theorem value_run (k : Flag) (hw : k.writable = true) (ops : List Op) (st : St) :
    k.value (run ops st) = expectedValue k ops (k.value st) := by
  induction ops generalizing st with
  | nil => rfl
  | cons o os ih =>
    show k.value (fixed.run os (fixed.step o st).st) = _
    rw [show fixed.run os (fixed.step o st).st = run os (fixed.step o st).st from rfl, ih,
      value_step k hw o st]
    rfl

theorem value_readonly (k : Flag) (hw : k.writable = false) (st st' : St) :
    k.value st = k.value st' := by
  cases k <;> simp [Flag.writable] at hw <;> rfl

theorem specSet_readonly_st (k : Flag) (hw : k.writable = false) (v : Term) (st : St) :
    (specSet (A k.name) v st).st = st := by
  rcases specSet_st_cases (A k.name) v st with e | ⟨k', hf, hw', _⟩
  · exact e
  · injection hf with hf
    rw [← name_injective hf] at hw'; rw [hw] at hw'; cases hw'

/-- the three behavioural components are functions of the corresponding flag value. -/
theorem dq_of_value (st st' : St) (h : Flag.doubleQuotes.value st = Flag.doubleQuotes.value st') :
    st.dq = st'.dq := by
  simp [Flag.value] at h
  cases h1 : st.dq <;> cases h2 : st'.dq <;> simp [h1, h2, DQ.toAtom] at h ⊢
theorem unk_of_value (st st' : St) (h : Flag.unknown.value st = Flag.unknown.value st') :
    st.unk = st'.unk := by
  simp [Flag.value] at h
  cases h1 : st.unk <;> cases h2 : st'.unk <;> simp [h1, h2, Unk.toAtom] at h ⊢
theorem oc_of_value (st st' : St) (h : Flag.occursCheck.value st = Flag.occursCheck.value st') :
    st.oc = st'.oc := by
  simp [Flag.value] at h
  cases h1 : st.oc <;> cases h2 : st'.oc <;> simp [h1, h2, OC.flagValue] at h ⊢

end Scryer.Flags
