import ScryerModel.Model.ArithEval
/-
Lemmas for C03: the stack walk of the run-time evaluator is the structural recursion `evalRec`; the
compiled evaluator (with the same table) computes the same values, and the same errors on expressions
without clause variables.
-/
namespace Scryer.ArithEval
variable {V : Type}

theorem runStack_tokens (mt : Table) (sem : Sem V) (t : Term V) :
    ∀ (r : List (Tok V)) (st : List V),
      runStack mt sem (tokens t ++ r) st =
        match evalRec mt sem t with
        | .ok v => runStack mt sem r (v :: st)
        | .error e => .error e := by
  induction t with
  | num v => intro r st; simp [tokens, evalRec, runStack]
  | unbound => intro r st; simp [tokens, evalRec, runStack]
  | atom f =>
      intro r st
      simp only [tokens, evalRec, List.cons_append, List.nil_append, runStack]
      cases mt.find f 0 with
      | none => rfl
      | some row => cases h : applyRow sem row [] <;> simp [h]
  | app1 f a iha =>
      intro r st
      simp only [tokens, evalRec, List.append_assoc, iha]
      cases evalRec mt sem a with
      | error e => rfl
      | ok va =>
        simp only [List.cons_append, List.nil_append, runStack]
        cases mt.find f 1 with
        | none => rfl
        | some row => cases h : applyRow sem row [va] <;> simp [h]
  | app2 f a b iha ihb =>
      intro r st
      simp only [tokens, evalRec, List.append_assoc, iha]
      cases evalRec mt sem a with
      | error e => rfl
      | ok va =>
        simp only [ihb]
        cases evalRec mt sem b with
        | error e => rfl
        | ok vb =>
          simp only [List.cons_append, List.nil_append, runStack]
          cases mt.find f 2 with
          | none => rfl
          | some row => cases h : applyRow sem row [va, vb] <;> simp [h]
  | bound t ih => intro r st; simp only [tokens, evalRec, ih]

theorem evalMeta_eq_rec (mt : Table) (sem : Sem V) (t : Term V) :
    evalMeta mt sem t = evalRec mt sem t := by
  have h := runStack_tokens mt sem t [] []
  simp only [List.append_nil] at h
  unfold evalMeta
  rw [h]
  cases evalRec mt sem t <;> rfl

/-- the compiled evaluator's result for a sub-expression: run its code, then fetch the operand. -/
def full (ct mt : Table) (sem : Sem V) (t : Term V) : Except Err V :=
  match runCode ct mt sem t with
  | .error e => .error e
  | .ok o => getNumber mt sem o

@[simp] theorem getNumber_val (mt : Table) (sem : Sem V) (v : V) : getNumber mt sem (.val v) = .ok v := rfl

theorem getNumber_reg (mt : Table) (sem : Sem V) (t : Term V) :
    getNumber mt sem (.reg t) = evalRec mt sem t := by
  cases t <;> simp [getNumber, evalMeta_eq_rec, evalRec]

/-- values: with one table, code + fetch succeeds with `v` exactly when the recursion does. -/
theorem full_ok_iff (tb : Table) (sem : Sem V) (t : Term V) :
    ∀ v, full tb tb sem t = .ok v ↔ evalRec tb sem t = .ok v := by
  induction t with
  | num v => intro w; simp [full, runCode, evalRec]
  | unbound => intro w; simp [full, runCode, getNumber_reg]
  | bound t _ => intro w; simp [full, runCode, getNumber_reg, evalRec]
  | atom f =>
      intro w
      simp only [full, runCode, evalRec]
      cases tb.find f 0 with
      | none => simp
      | some row => cases h : applyRow sem row [] <;> simp [h]
  | app1 f a iha =>
      intro w
      simp only [full, runCode, evalRec] at iha ⊢
      cases ha : runCode tb tb sem a with
      | error e =>
          simp only [ha] at iha
          cases hr : evalRec tb sem a with
          | error e' => simp
          | ok va => exact absurd ((iha va).mpr hr) (by simp)
      | ok oa =>
          simp only [ha] at iha
          cases hg : getNumber tb sem oa with
          | error e =>
              cases hr : evalRec tb sem a with
              | error e' => cases tb.find f 1 <;> simp [hg]
              | ok va => rw [hg] at iha; exact absurd ((iha va).mpr hr) (by simp)
          | ok va =>
              have : evalRec tb sem a = .ok va := (iha va).mp hg
              simp only [this]
              cases tb.find f 1 with
              | none => simp
              | some row => cases h : applyRow sem row [va] <;> simp [h, hg]
  | app2 f a b iha ihb =>
      intro w
      simp only [full, runCode, evalRec] at iha ihb ⊢
      cases ha : runCode tb tb sem a with
      | error e =>
          simp only [ha] at iha
          cases hr : evalRec tb sem a with
          | error e' => simp
          | ok va => exact absurd ((iha va).mpr hr) (by simp)
      | ok oa =>
          simp only [ha] at iha
          cases hb : runCode tb tb sem b with
          | error e =>
              simp only [hb] at ihb
              cases hra : evalRec tb sem a with
              | error e' => simp
              | ok va =>
                cases hrb : evalRec tb sem b with
                | error e' => simp
                | ok vb => exact absurd ((ihb vb).mpr hrb) (by simp)
          | ok ob =>
              simp only [hb] at ihb
              cases hga : getNumber tb sem oa with
              | error e =>
                  cases hra : evalRec tb sem a with
                  | error e' => cases tb.find f 2 <;> simp [hga]
                  | ok va => rw [hga] at iha; exact absurd ((iha va).mpr hra) (by simp)
              | ok va =>
                  have ea : evalRec tb sem a = .ok va := (iha va).mp hga
                  simp only [ea]
                  cases hgb : getNumber tb sem ob with
                  | error e =>
                      cases hrb : evalRec tb sem b with
                      | error e' => cases tb.find f 2 <;> simp [hga, hgb]
                      | ok vb => rw [hgb] at ihb; exact absurd ((ihb vb).mpr hrb) (by simp)
                  | ok vb =>
                      have eb : evalRec tb sem b = .ok vb := (ihb vb).mp hgb
                      simp only [eb]
                      cases tb.find f 2 with
                      | none => simp
                      | some row => cases h : applyRow sem row [va, vb] <;> simp [h, hga, hgb]

/-- an expression with a functor unknown to the table cannot evaluate to a value. -/
theorem evalRec_unknown (tb : Table) (sem : Sem V) (t : Term V) :
    ∀ x, firstUnknown tb t = some x → ∀ v, evalRec tb sem t ≠ .ok v := by
  induction t with
  | num v => intro x h; simp [firstUnknown] at h
  | unbound => intro x h; simp [firstUnknown] at h
  | bound t _ => intro x h; simp [firstUnknown] at h
  | atom f =>
      intro x h v
      simp only [firstUnknown] at h
      cases hf : tb.find f 0 with
      | none => simp [evalRec, hf]
      | some row => simp [hf] at h
  | app1 f a iha =>
      intro x h v
      simp only [firstUnknown] at h
      simp only [evalRec]
      cases hu : firstUnknown tb a with
      | some y =>
          cases hr : evalRec tb sem a with
          | error e => simp
          | ok va => exact absurd hr (iha y hu va)
      | none =>
          simp only [hu] at h
          cases hf : tb.find f 1 with
          | none => cases evalRec tb sem a <;> simp
          | some row => simp [hf] at h
  | app2 f a b iha ihb =>
      intro x h v
      simp only [firstUnknown] at h
      simp only [evalRec]
      cases hu : firstUnknown tb a with
      | some y =>
          cases hr : evalRec tb sem a with
          | error e => simp
          | ok va => exact absurd hr (iha y hu va)
      | none =>
          simp only [hu] at h
          cases hub : firstUnknown tb b with
          | some y =>
              cases evalRec tb sem a with
              | error e => simp
              | ok va =>
                cases hr : evalRec tb sem b with
                | error e => simp
                | ok vb => exact absurd hr (ihb y hub vb)
          | none =>
              simp only [hub] at h
              cases hf : tb.find f 2 with
              | none => cases evalRec tb sem a <;> cases evalRec tb sem b <;> simp
              | some row => simp [hf] at h

/-- on an expression without clause variables every operand is already a number, and the code
    performs exactly the steps of the recursion, in the same order. -/
theorem runCode_closed (tb : Table) (sem : Sem V) (t : Term V) (hc : closed t = true) :
    runCode tb tb sem t = (match evalRec tb sem t with | .ok v => .ok (.val v) | .error e => .error e) := by
  induction t with
  | num v => simp [runCode, evalRec]
  | unbound => simp [closed] at hc
  | bound t _ => simp [closed] at hc
  | atom f =>
      simp only [runCode, evalRec]
      cases tb.find f 0 with
      | none => rfl
      | some row => cases h : applyRow sem row [] <;> simp [h]
  | app1 f a iha =>
      simp only [closed] at hc
      simp only [runCode, evalRec, iha hc]
      cases evalRec tb sem a with
      | error e => rfl
      | ok va =>
        simp only [getNumber]
        cases tb.find f 1 with
        | none => rfl
        | some row => cases h : applyRow sem row [va] <;> simp [h]
  | app2 f a b iha ihb =>
      simp only [closed, Bool.and_eq_true] at hc
      simp only [runCode, evalRec, iha hc.1, ihb hc.2]
      cases evalRec tb sem a with
      | error e => rfl
      | ok va =>
        cases evalRec tb sem b with
        | error e => rfl
        | ok vb =>
          simp only [getNumber]
          cases tb.find f 2 with
          | none => rfl
          | some row => cases h : applyRow sem row [va, vb] <;> simp [h]

end Scryer.ArithEval
