import ScryerModel.Proofs.Format
/-! Main lemmas for C36: radix, decimal point, groups, columns, argument consumption. -/
namespace Scryer.Format
open Scryer

/-! ## radix -/

theorem horner_cons (r : Nat) (c : Char) (cs : List Char) :
    horner r (c :: cs) = digitVal c * r ^ cs.length + horner r cs := by
  have := foldl_horner_start r cs (0 * r + digitVal c)
  simp only [horner, List.foldl_cons] at this ⊢
  rw [this]; simp

theorem horner_lt_pow {r : Nat} (_hr : 1 ≤ r) (cs : List Char) (h : ∀ c ∈ cs, digitVal c < r) :
    horner r cs < r ^ cs.length := by
  induction cs with
  | nil => simp [horner_nil]
  | cons c cs ih =>
    rw [horner_cons, List.length_cons, pow_succ]
    have h1 := ih (fun x hx => h x (by simp [hx]))
    have h2 : digitVal c < r := h c (by simp)
    have h3 : digitVal c + 1 ≤ r := h2
    calc digitVal c * r ^ cs.length + horner r cs < digitVal c * r ^ cs.length + r ^ cs.length := by omega
      _ = (digitVal c + 1) * r ^ cs.length := by ring
      _ ≤ r * r ^ cs.length := Nat.mul_le_mul_right _ h3
      _ = r ^ cs.length * r := Nat.mul_comm _ _

theorem sign_prefix (i : Int) (ds : List Char) :
    (if i < 0 then '-' :: ds else ds) = (if i < 0 then ['-'] else []) ++ ds := by
  split <;> rfl

theorem radixChars_spec (up : Bool) {r : Nat} (h2 : 2 ≤ r) (h36 : r ≤ 36) (i : Int) :
    ∃ ds : List Char, radixChars up r i = (if i < 0 then ['-'] else []) ++ ds ∧
      horner r ds = i.natAbs ∧ ds ≠ [] ∧ (∀ c ∈ ds, ∃ d, d < r ∧ c = digitChar up d) ∧
      (i ≠ 0 → ds.head? ≠ some '0') := by
  by_cases hi : i = 0
  · subst hi
    refine ⟨['0'], by simp [radixChars], ?_, by simp, ?_, by simp⟩
    · have : digitVal '0' = 0 := by decide
      simp [horner, this]
    · intro c hc
      have : c = '0' := by simpa using hc
      subst this
      exact ⟨0, by omega, by cases up <;> decide⟩
  · have hn : i.natAbs ≠ 0 := by omega
    refine ⟨beChars up (digitsLE r i.natAbs), ?_, ?_, ?_, ?_, ?_⟩
    · simp only [radixChars, hi, ↓reduceIte]
      exact sign_prefix i _
    · rw [horner_beChars up h36 _ (digitsLE_lt h2 _), ofLE_digitsLE h2]
    · simp [beChars, digitsLE_ne_nil h2 hn]
    · intro c hc
      obtain ⟨d, hd, hd36, rfl⟩ := mem_beChars_digitsLE h2 h36 hc
      exact ⟨d, hd, rfl⟩
    · intro _ hh
      simp only [beChars, List.head?_reverse, List.getLast?_map] at hh
      cases hl : (digitsLE r i.natAbs).getLast? with
      | none => simp [hl] at hh
      | some d =>
        simp only [hl, Option.map_some, Option.some.injEq] at hh
        have hd0 := digitsLE_getLast_ne_zero h2 _ d hl
        have hdr : d < r := digitsLE_lt h2 _ d (List.mem_of_getLast? hl)
        exact hd0 ((digitChar_zero_iff up d (by omega)).mp hh)

theorem radixChars_upper {r : Nat} (h2 : 2 ≤ r) (h36 : r ≤ 36) (i : Int) :
    radixChars true r i = (radixChars false r i).map Char.toUpper := by
  have hm : '-'.toUpper = '-' := by decide
  have hz : '0'.toUpper = '0' := by decide
  have hmap : (beChars false (digitsLE r i.natAbs)).map Char.toUpper = beChars true (digitsLE r i.natAbs) := by
    simp only [beChars, List.map_reverse, List.map_map]
    congr 1
    apply List.map_congr_left
    intro d hd
    have := digitsLE_lt h2 _ d hd
    simp [Function.comp, digitChar_upper d (by omega)]
  simp only [radixChars]
  by_cases hi : i = 0
  · simp [hi, hz]
  · simp only [hi, ↓reduceIte]
    change (if i < 0 then '-' :: beChars true _ else beChars true _) =
      List.map Char.toUpper (if i < 0 then '-' :: beChars false _ else beChars false _)
    split
    · simp [hm, hmap]
    · simp [hmap]

/-! ## decimal, decimal point -/

theorem natChars_lt_pow (m : Nat) : m < 10 ^ (natChars m).length := by
  have := horner_lt_pow (r := 10) (by omega) (natChars m) (fun c hc => (natChars_digits m c hc).2.2.1)
  rwa [horner_natChars] at this

/-- a decimal digit character `0`..`9`. -/
def isDec (c : Char) : Prop := isDigit c = true

/-- the text of `~Nd` for a non-negative number: integer part, then (for N > 0) the point and
    exactly N digits. -/
theorem insertPoint_spec (n m : Nat) :
    ∃ frac, insertPoint n (natChars m) = natChars (m / 10 ^ n) ++ frac ∧
      ((n = 0 ∧ frac = []) ∨
       (0 < n ∧ ∃ fp, frac = '.' :: fp ∧ fp.length = n ∧ horner 10 fp = m % 10 ^ n ∧ ∀ c ∈ fp, isDec c)) := by
  by_cases hn : n = 0
  · subst hn
    exact ⟨[], by simp [insertPoint], Or.inl ⟨rfl, rfl⟩⟩
  · simp only [insertPoint, hn, ↓reduceIte]
    by_cases hl : (natChars m).length ≤ n
    · simp only [hl, ↓reduceIte]
      have hlt : m < 10 ^ n :=
        lt_of_lt_of_le (natChars_lt_pow m) (Nat.pow_le_pow_right (by omega) hl)
      have hq : m / 10 ^ n = 0 := Nat.div_eq_of_lt hlt
      refine ⟨'.' :: (List.replicate (n - (natChars m).length) '0' ++ natChars m), ?_, Or.inr ⟨by omega, _, rfl, ?_, ?_, ?_⟩⟩
      · rw [hq]; simp [natChars]
      · simp; omega
      · rw [horner_append, horner_replicate_zero, horner_natChars, Nat.mod_eq_of_lt hlt]; simp
      · intro c hc
        rcases List.mem_append.mp hc with h | h
        · have : c = '0' := (List.mem_replicate.mp h).2
          subst this; exact (by decide : isDigit '0' = true)
        · exact (natChars_digits m c h).2.2.2
    · simp only [hl, ↓reduceIte]
      obtain ⟨h1, h2, h3⟩ := natChars_take_drop (m := m) (k := n) (by omega)
      refine ⟨'.' :: (natChars m).drop ((natChars m).length - n), by rw [h1], Or.inr ⟨by omega, _, rfl, h2, h3, ?_⟩⟩
      intro c hc
      exact (natChars_digits m c (List.mem_of_mem_drop hc)).2.2.2

theorem fmtD_sign (n : Nat) (i : Int) :
    fmtD false n i = (if i < 0 then ['-'] else []) ++ insertPoint n (natChars i.natAbs) := by
  simp only [fmtD, Bool.false_eq_true, ↓reduceIte]
  exact sign_prefix i _

theorem takeWhile_append_of_not_mem {l r : List Char} (h : '.' ∉ l) :
    (l ++ '.' :: r).takeWhile (· ≠ '.') = l ∧ (l ++ '.' :: r).dropWhile (· ≠ '.') = '.' :: r := by
  induction l with
  | nil => simp
  | cons a l ih =>
    simp only [List.mem_cons, not_or] at h
    have ha : decide (a ≠ '.') = true := by simp; exact fun e => h.1 e.symm
    simp only [List.cons_append, List.takeWhile_cons, List.dropWhile_cons, ha, ↓reduceIte]
    exact ⟨by rw [(ih h.2).1], (ih h.2).2⟩

theorem takeWhile_of_not_mem {l : List Char} (h : '.' ∉ l) :
    l.takeWhile (· ≠ '.') = l ∧ l.dropWhile (· ≠ '.') = [] := by
  induction l with
  | nil => simp
  | cons a l ih =>
    simp only [List.mem_cons, not_or] at h
    have ha : decide (a ≠ '.') = true := by simp; exact fun e => h.1 e.symm
    simp only [List.takeWhile_cons, List.dropWhile_cons, ha, ↓reduceIte]
    exact ⟨by rw [(ih h.2).1], (ih h.2).2⟩

theorem dot_not_mem_natChars (m : Nat) : '.' ∉ natChars m :=
  fun h => (natChars_digits m '.' h).2.1 rfl

/-- `~ND`: the integer part of `~Nd` is grouped (from the right), the rest is unchanged. -/
theorem sepBody_insertPoint (sep : Char) (n m : Nat) :
    ∃ frac, insertPoint n (natChars m) = natChars (m / 10 ^ n) ++ frac ∧
      sepBody sep (insertPoint n (natChars m)) =
        (groups3 sep (natChars (m / 10 ^ n)).reverse).reverse ++ frac := by
  obtain ⟨frac, h1, h2⟩ := insertPoint_spec n m
  refine ⟨frac, h1, ?_⟩
  rw [h1, sepBody]
  rcases h2 with ⟨_, rfl⟩ | ⟨_, fp, rfl, _⟩
  · simp only [List.append_nil]
    rw [(takeWhile_of_not_mem (dot_not_mem_natChars _)).1, (takeWhile_of_not_mem (dot_not_mem_natChars _)).2]
    simp
  · rw [(takeWhile_append_of_not_mem (dot_not_mem_natChars _)).1,
      (takeWhile_append_of_not_mem (dot_not_mem_natChars _)).2]

/-- separators stand exactly at the positions 3, 7, 11, … (counted from the right end of the
    integer part), and the grouped text does not end with one. -/
theorem groups3_sep_positions (sep : Char) (l : List Char) (hs : sep ∉ l) :
    (∀ p (hp : p < (groups3 sep l).length), ((groups3 sep l)[p] = sep ↔ p % 4 = 3)) ∧
    (l ≠ [] → (groups3 sep l).length % 4 ≠ 0) := by
  fun_induction groups3 sep l with
  | case1 a b c d t ih =>
    simp only [List.mem_cons, not_or] at hs
    obtain ⟨ha, hb, hc, hd, ht⟩ := hs
    obtain ⟨ih1, ih2⟩ := ih (by simp only [List.mem_cons, not_or]; exact ⟨hd, ht⟩)
    constructor
    · intro p hp
      match p with
      | 0 => simp; exact fun e => ha e.symm
      | 1 => simp; exact fun e => hb e.symm
      | 2 => simp; exact fun e => hc e.symm
      | 3 => simp
      | p + 4 =>
        simp only [List.length_cons] at hp
        have := ih1 p (by omega)
        simp only [List.getElem_cons_succ]
        rw [this]; omega
    · intro _
      have := ih2 (by simp)
      simp only [List.length_cons]
      omega
  | case2 ls h =>
    have hlen : ls.length ≤ 3 := by
      match ls with
      | [] => simp
      | [_] => simp
      | [_, _] => simp
      | [_, _, _] => simp
      | a :: b :: c :: d :: t => exact absurd rfl (h a b c d t)
    constructor
    · intro p hp
      have hne : ls[p] ≠ sep := fun e => hs (e ▸ List.getElem_mem hp)
      constructor
      · intro e; exact absurd e hne
      · intro e; omega
    · intro hne
      have : ls.length ≠ 0 := by simpa using hne
      omega

/-! ## columns -/

theorem renderCell_length (from_ to_ : Int) (segs : List Seg) (hp : countPads segs ≠ 0) :
    ((renderCell from_ to_ segs).length : Int) = max (to_ - from_) (textWidth segs) := by
  rw [renderCell, fill_length _ _ (glueSizes_length _ _), glueSizes_sum hp]
  omega

theorem renderCell_no_pads (from_ to_ : Int) (segs : List Seg) (hp : countPads segs = 0) :
    renderCell from_ to_ segs = allText segs := by
  rw [renderCell, fill_no_pads _ _ hp]

/-- every glue but the last gets `space / k`, the last one gets the remainder too. -/
theorem glueSizes_shape {k : Nat} (hk : k ≠ 0) {space : Int} (hs : 0 < space) :
    glueSizes k space =
      List.replicate (k - 1) (space.toNat / k) ++ [space.toNat / k + space.toNat % k] := by
  unfold glueSizes
  have h1 : ¬ space ≤ 0 := by omega
  simp only [hk, ↓reduceIte, h1]
  have hmod : space.toNat - space.toNat / k * k = space.toNat % k := by
    have := Nat.div_add_mod space.toNat k
    have e : k * (space.toNat / k) = space.toNat / k * k := Nat.mul_comm _ _
    omega
  rw [hmod]
  split
  · rename_i h0
    rw [h0, Nat.add_zero]
    generalize space.toNat / k = q
    obtain ⟨j, rfl⟩ := Nat.exists_eq_succ_of_ne_zero hk
    simp [List.replicate_succ']
  · rfl

/-- reads an optionally signed decimal string. -/
def readInt : List Char → Int
  | '-' :: cs => -(horner 10 cs : Int)
  | cs => (horner 10 cs : Int)


theorem natChars_small : natChars 5 = ['5'] ∧ natChars 123 = ['1', '2', '3'] ∧
    natChars 123456 = ['1', '2', '3', '4', '5', '6'] := by
  refine ⟨?_, ?_, ?_⟩ <;> simp [natChars, digitsLE_pos, digitsLE_zero, digitChar]


end Scryer.Format
