import ScryerModel.Model.Unify
/-
C10 — lemmas about `Scryer.Unify.solve` (verified first-order unification).
Core Lean only (no Mathlib needed).
-/
namespace Scryer
namespace Term

/-! ### induction principle for the nested inductive `Term` -/

mutual
theorem induct' {P : Term → Prop}
    (hvar : ∀ x, P (.var x)) (hint : ∀ v, P (.int v)) (hrat : ∀ n d, P (.rat n d))
    (hflt : ∀ b, P (.flt b)) (hatom : ∀ a, P (.atom a))
    (hstr : ∀ f args, (∀ a ∈ args, P a) → P (.str f args)) : ∀ t, P t
  | .var x => hvar x
  | .int v => hint v
  | .rat n d => hrat n d
  | .flt b => hflt b
  | .atom a => hatom a
  | .str f args => hstr f args (inductL hvar hint hrat hflt hatom hstr args)
theorem inductL {P : Term → Prop}
    (hvar : ∀ x, P (.var x)) (hint : ∀ v, P (.int v)) (hrat : ∀ n d, P (.rat n d))
    (hflt : ∀ b, P (.flt b)) (hatom : ∀ a, P (.atom a))
    (hstr : ∀ f args, (∀ a ∈ args, P a) → P (.str f args)) : ∀ (ts : List Term), ∀ a ∈ ts, P a
  | [], _, h => nomatch h
  | t :: ts, a, h =>
      (List.mem_cons.mp h).elim
        (fun e => e ▸ induct' hvar hint hrat hflt hatom hstr t)
        (fun h' => inductL hvar hint hrat hflt hatom hstr ts a h')
end

@[simp] theorem substL_eq_map (f : String → Term) : ∀ ts, substL f ts = ts.map (subst f)
  | [] => by simp [substL]
  | t :: ts => by simp [substL, substL_eq_map f ts]

theorem mem_varsL {y : String} : ∀ {ts : List Term}, y ∈ varsL ts ↔ ∃ t ∈ ts, y ∈ t.vars
  | [] => by simp [varsL]
  | t :: ts => by simp [varsL, mem_varsL (ts := ts)]

theorem size_le_sizeL : ∀ {ts : List Term} {a : Term}, a ∈ ts → a.size ≤ sizeL ts
  | [], a, h => by cases h
  | t :: ts, a, h => by
      rcases List.mem_cons.mp h with rfl | h
      · simp [sizeL]
      · have := size_le_sizeL h; simp [sizeL]; omega

@[simp] theorem subst_var' (f : String → Term) (x : String) : (Term.var x).subst f = f x := by
  simp [subst]
@[simp] theorem subst_str (f : String → Term) (g : String) (args : List Term) :
    (Term.str g args).subst f = .str g (args.map (subst f)) := by simp [subst]
@[simp] theorem subst_int (f : String → Term) (v : Int) : (Term.int v).subst f = .int v := by
  simp [subst]
@[simp] theorem subst_rat (f : String → Term) (n : Int) (d : Nat) :
    (Term.rat n d).subst f = .rat n d := by simp [subst]
@[simp] theorem subst_flt (f : String → Term) (b : Nat) : (Term.flt b).subst f = .flt b := by
  simp [subst]
@[simp] theorem subst_atom (f : String → Term) (a : String) :
    (Term.atom a).subst f = .atom a := by simp [subst]

@[simp] theorem vars_var (x : String) : (Term.var x).vars = [x] := by simp [vars]
theorem mem_vars_str {y g : String} {args : List Term} :
    y ∈ (Term.str g args).vars ↔ ∃ a ∈ args, y ∈ a.vars := by
  simp [vars, mem_varsL]
@[simp] theorem vars_int (v : Int) : (Term.int v).vars = [] := by simp [vars]
@[simp] theorem vars_rat (n : Int) (d : Nat) : (Term.rat n d).vars = [] := by simp [vars]
@[simp] theorem vars_flt (b : Nat) : (Term.flt b).vars = [] := by simp [vars]
@[simp] theorem vars_atom (a : String) : (Term.atom a).vars = [] := by simp [vars]

/-- substituting variables for themselves changes nothing. -/
theorem subst_id (t : Term) : t.subst Term.var = t := by
  induction t using induct' with
  | hstr f args ih =>
      simp only [subst_str, Term.str.injEq, true_and]
      conv => rhs; rw [← List.map_id args]
      exact List.map_congr_left ih
  | _ => simp

/-- composition of substitutions. -/
theorem subst_subst (f g : String → Term) (t : Term) :
    (t.subst f).subst g = t.subst (fun x => (f x).subst g) := by
  induction t using induct' with
  | hstr h args ih =>
      simp only [subst_str, List.map_map, Term.str.injEq, true_and]
      exact List.map_congr_left ih
  | _ => simp

/-- a substitution is determined by its values on the variables of the term. -/
theorem subst_congr {f g : String → Term} {t : Term} (h : ∀ x ∈ t.vars, f x = g x) :
    t.subst f = t.subst g := by
  induction t using induct' with
  | hvar x => simpa using h x (by simp)
  | hstr k args ih =>
      simp only [subst_str, Term.str.injEq, true_and]
      apply List.map_congr_left
      intro a ha
      exact ih a ha (fun x hx => h x (mem_vars_str.mpr ⟨a, ha, hx⟩))
  | _ => simp

/-- the image of a variable of `t` is not larger than the image of `t`. -/
theorem size_subst_ge {θ : String → Term} {x : String} {t : Term} (h : x ∈ t.vars) :
    (θ x).size ≤ (t.subst θ).size := by
  induction t using induct' with
  | hvar y => simp at h; subst h; simp
  | hstr k args ih =>
      obtain ⟨a, ha, hx⟩ := mem_vars_str.mp h
      have h1 := ih a ha hx
      have h2 : (a.subst θ).size ≤ sizeL (args.map (subst θ)) :=
        size_le_sizeL (List.mem_map_of_mem ha)
      simp only [subst_str, size]
      omega
  | _ => simp at h

/-- occurs check: a variable that occurs properly inside `t` cannot be mapped to the image
    of `t`. -/
theorem size_subst_lt {θ : String → Term} {x g : String} {args : List Term}
    (h : x ∈ (Term.str g args).vars) : (θ x).size < ((Term.str g args).subst θ).size := by
  obtain ⟨a, ha, hx⟩ := mem_vars_str.mp h
  have h1 := size_subst_ge (θ := θ) hx
  have h2 : (a.subst θ).size ≤ sizeL (args.map (subst θ)) :=
    size_le_sizeL (List.mem_map_of_mem ha)
  simp only [subst_str, size]
  omega

end Term

namespace Unify
open Term

/-! ### elementary substitutions and triangular substitutions -/

theorem subst1_def (x : String) (u t : Term) : subst1 x u t = t.subst (single x u) := rfl

@[simp] theorem single_self (x : String) (u : Term) : single x u x = u := by simp [single]
theorem single_ne {x y : String} (u : Term) (h : y ≠ x) : single x u y = .var y := by
  simp [single, h]

/-- `t[x ↦ u] = t` when `x` does not occur in `t`. -/
theorem subst1_of_not_mem {x : String} {u t : Term} (h : x ∉ t.vars) : subst1 x u t = t := by
  rw [subst1_def]
  conv => rhs; rw [← subst_id t]
  apply subst_congr
  intro y hy
  exact single_ne u (fun e => h (e ▸ hy))

/-- if `θ x = θ u` then `θ` does not see the difference between `t` and `t[x ↦ u]`. -/
theorem subst_subst1 {θ : String → Term} {x : String} {u : Term} (h : θ x = u.subst θ)
    (t : Term) : (subst1 x u t).subst θ = t.subst θ := by
  rw [subst1_def, subst_subst]
  apply subst_congr
  intro y _
  by_cases e : y = x
  · subst e; simp [h]
  · simp [single_ne u e]

theorem toFun_nil (x : String) : Subst.toFun [] x = .var x := rfl

theorem toFun_cons (x : String) (u : Term) (σ : Subst) (y : String) :
    Subst.toFun ((x, u) :: σ) y = (σ.toFun y).subst (single x u) := rfl

/-- applying a triangular substitution is a simultaneous substitution. -/
theorem applyS_eq_subst (σ : Subst) (t : Term) : applyS σ t = t.subst σ.toFun := by
  induction σ generalizing t with
  | nil => simp only [applyS]; exact (subst_id t).symm
  | cons p σ ih =>
      obtain ⟨x, u⟩ := p
      simp only [applyS, subst1_def, ih, subst_subst]
      rfl

theorem applyS_append (δ acc : Subst) (t : Term) :
    applyS (δ ++ acc) t = applyS δ (applyS acc t) := by
  induction δ with
  | nil => rfl
  | cons p δ ih => obtain ⟨x, u⟩ := p; simp only [List.cons_append, applyS, ih]

@[simp] theorem applyS_nil (t : Term) : applyS [] t = t := rfl

theorem applyS_str (σ : Subst) (f : String) (args : List Term) :
    applyS σ (.str f args) = .str f (args.map (applyS σ)) := by
  rw [applyS_eq_subst, subst_str]
  congr 1
  apply List.map_congr_left
  intro a _
  rw [applyS_eq_subst]

/-! ### unifiers -/

/-- `θ` unifies every equation of the work list. -/
def Unifies (θ : String → Term) (eqs : Eqs) : Prop := ∀ p ∈ eqs, p.1.subst θ = p.2.subst θ

theorem unifies_nil (θ : String → Term) : Unifies θ [] := by intro p h; cases h

theorem unifies_cons {θ : String → Term} {s t : Term} {rest : Eqs} :
    Unifies θ ((s, t) :: rest) ↔ s.subst θ = t.subst θ ∧ Unifies θ rest := by
  simp [Unifies]

theorem unifies_append {θ : String → Term} {a b : Eqs} :
    Unifies θ (a ++ b) ↔ Unifies θ a ∧ Unifies θ b := by
  simp only [Unifies, List.mem_append]
  constructor
  · intro h; exact ⟨fun p hp => h p (Or.inl hp), fun p hp => h p (Or.inr hp)⟩
  · rintro ⟨h1, h2⟩ p (hp | hp)
    · exact h1 p hp
    · exact h2 p hp

theorem unifies_zip {θ : String → Term} : ∀ {as bs : List Term}, as.length = bs.length →
    (Unifies θ (as.zip bs) ↔ as.map (subst θ) = bs.map (subst θ))
  | [], [], _ => by simp [Unifies]
  | [], _ :: _, h => by simp at h
  | _ :: _, [], h => by simp at h
  | a :: as, b :: bs, h => by
      have ih := unifies_zip (θ := θ) (as := as) (bs := bs) (by simpa using h)
      simp only [List.zip_cons_cons, unifies_cons, ih, List.map_cons, List.cons.injEq]

theorem unifies_substE {θ : String → Term} {x : String} {u : Term} (h : θ x = u.subst θ)
    {eqs : Eqs} : Unifies θ (substE x u eqs) ↔ Unifies θ eqs := by
  simp only [Unifies, substE, List.mem_map]
  constructor
  · intro hu p hp
    have := hu _ ⟨p, hp, rfl⟩
    simpa only [subst_subst1 h] using this
  · rintro hu _ ⟨p, hp, rfl⟩
    simpa only [subst_subst1 h] using hu p hp

/-- two compounds with different name or different number of arguments have no unifier. -/
theorem str_clash {θ : String → Term} {f g : String} {as bs : List Term}
    (h : ¬(f = g ∧ as.length = bs.length)) :
    (Term.str f as).subst θ ≠ (Term.str g bs).subst θ := by
  intro e
  simp only [subst_str, Term.str.injEq] at e
  apply h
  refine ⟨e.1, ?_⟩
  have := congrArg List.length e.2
  simpa using this

/-- `x = f(… x …)` has no unifier (finite terms). -/
theorem occurs_no_unifier {θ : String → Term} {x : String} {t : Term}
    (hx : x ∈ t.vars) (hne : ∀ y, t ≠ .var y) : θ x ≠ t.subst θ := by
  intro e
  cases t with
  | var y => exact hne y rfl
  | str g args =>
      have := size_subst_lt (θ := θ) hx
      rw [e] at this
      exact Nat.lt_irrefl _ this
  | int _ => simp at hx
  | rat _ _ => simp at hx
  | flt _ => simp at hx
  | atom _ => simp at hx

theorem constEq_eq {s t : Term} (h : constEq s t = true) : s = t := by
  cases s <;> cases t <;> simp_all [constEq]

theorem constEq_vars {s t : Term} (h : constEq s t = true) : s.vars = [] ∧ t.vars = [] := by
  cases s <;> cases t <;> simp_all [constEq]

/-- two non-variable terms that are not both compounds and are not the same constant
    have no unifier. -/
theorem const_clash {θ : String → Term} {s t : Term}
    (hs : ∀ x, s ≠ .var x) (ht : ∀ y, t ≠ .var y)
    (hst : ∀ f as g bs, s = .str f as → t = .str g bs → False)
    (h : constEq s t = false) : s.subst θ ≠ t.subst θ := by
  cases s <;> cases t
  case str.str f as g bs => exact (hst f as g bs rfl rfl).elim
  all_goals simp_all [constEq]


/-! ### the invariant of the work-list algorithm -/

/-- what a successful run delivers: `δ` solves `eqs`, is most general (every unifier `θ`
    absorbs it: `θ ∘ δ = θ`), binds only variables of `eqs` and introduces no variable
    from outside. -/
structure Good (δ : Subst) (eqs : Eqs) : Prop where
  solves : ∀ p ∈ eqs, applyS δ p.1 = applyS δ p.2
  mgu : ∀ θ, Unifies θ eqs → ∀ t, (applyS δ t).subst θ = t.subst θ
  dom : ∀ x ∈ δ.dom, x ∈ varsE eqs
  novars : ∀ t y, y ∈ (applyS δ t).vars → y ∈ t.vars ∨ y ∈ varsE eqs

theorem good_nil : Good [] [] where
  solves := by intro p h; cases h
  mgu := by intro θ _ t; rfl
  dom := by intro x h; cases h
  novars := by intro t y h; exact Or.inl h

theorem mem_varsE_cons {y : String} {s t : Term} {rest : Eqs} :
    y ∈ varsE ((s, t) :: rest) ↔ y ∈ s.vars ∨ y ∈ t.vars ∨ y ∈ varsE rest := by
  simp [varsE]

/-- an equation between identical terms can be dropped. -/
theorem good_drop {δ : Subst} {s : Term} {rest : Eqs} (h : Good δ rest) :
    Good δ ((s, s) :: rest) where
  solves := by
    intro p hp
    rcases List.mem_cons.mp hp with rfl | hp
    · rfl
    · exact h.solves p hp
  mgu := by intro θ hθ t; exact h.mgu θ (unifies_cons.mp hθ).2 t
  dom := by intro x hx; exact mem_varsE_cons.mpr (Or.inr (Or.inr (h.dom x hx)))
  novars := by
    intro t y hy
    rcases h.novars t y hy with h1 | h1
    · exact Or.inl h1
    · exact Or.inr (mem_varsE_cons.mpr (Or.inr (Or.inr h1)))

theorem dom_append (δ : Subst) (x : String) (t : Term) :
    Subst.dom (δ ++ [(x, t)]) = δ.dom ++ [x] := by simp [Subst.dom]

/-- variable elimination: from a solution of `rest[x ↦ t]` to a solution of
    `x = t, rest` (either orientation of the first equation). -/
theorem good_elim {δ : Subst} {x : String} {t : Term} {p : Term × Term} {rest : Eqs}
    (hp : p = (.var x, t) ∨ p = (t, .var x)) (hx : x ∉ t.vars)
    (h : Good δ (substE x t rest)) : Good (δ ++ [(x, t)]) (p :: rest) := by
  have happ : ∀ s, applyS (δ ++ [(x, t)]) s = applyS δ (subst1 x t s) := by
    intro s; rw [applyS_append]; rfl
  have hvx : subst1 x t (.var x) = t := by simp [subst1_def]
  have htt : subst1 x t t = t := subst1_of_not_mem hx
  have hsub : ∀ y, y ∈ varsE (substE x t rest) → y ∈ varsE (p :: rest) := by
    intro y hy
    rcases mem_varsE_substE hy with ⟨h1, _⟩ | h1
    · obtain ⟨a, b⟩ := p; exact mem_varsE_cons.mpr (Or.inr (Or.inr h1))
    · rcases hp with rfl | rfl
      · exact mem_varsE_cons.mpr (Or.inr (Or.inl h1))
      · exact mem_varsE_cons.mpr (Or.inl h1)
  have hxmem : x ∈ varsE (p :: rest) := by
    rcases hp with rfl | rfl
    · exact mem_varsE_cons.mpr (Or.inl (by simp))
    · exact mem_varsE_cons.mpr (Or.inr (Or.inl (by simp)))
  have hθx : ∀ θ, Unifies θ (p :: rest) → θ x = t.subst θ := by
    intro θ hθ
    rcases hp with rfl | rfl
    · simpa using (unifies_cons.mp hθ).1
    · simpa using (unifies_cons.mp hθ).1.symm
  refine ⟨?_, ?_, ?_, ?_⟩
  · intro q hq
    rcases List.mem_cons.mp hq with rfl | hq
    · rcases hp with rfl | rfl <;> simp only [happ, hvx, htt]
    · rw [happ, happ]
      exact h.solves (subst1 x t q.1, subst1 x t q.2) (by
        simp only [substE, List.mem_map]; exact ⟨q, hq, rfl⟩)
  · intro θ hθ s
    have hx' := hθx θ hθ
    have hrest : Unifies θ rest := by
      obtain ⟨a, b⟩ := p; exact (unifies_cons.mp hθ).2
    rw [happ, h.mgu θ ((unifies_substE hx').mpr hrest), subst_subst1 hx']
  · intro y hy
    rw [dom_append, List.mem_append] at hy
    rcases hy with hy | hy
    · exact hsub y (h.dom y hy)
    · simp at hy; subst hy; exact hxmem
  · intro s y hy
    rw [happ] at hy
    rcases h.novars _ y hy with h1 | h1
    · rcases mem_vars_subst1 h1 with ⟨h2, _⟩ | h2
      · exact Or.inl h2
      · right
        rcases hp with rfl | rfl
        · exact mem_varsE_cons.mpr (Or.inr (Or.inl h2))
        · exact mem_varsE_cons.mpr (Or.inl h2)
    · exact Or.inr (hsub y h1)

/-- a unifier of `x = t, rest` unifies `rest[x ↦ t]`. -/
theorem unifies_elim {θ : String → Term} {x : String} {t : Term} {p : Term × Term}
    {rest : Eqs} (hp : p = (.var x, t) ∨ p = (t, .var x)) (hθ : Unifies θ (p :: rest)) :
    Unifies θ (substE x t rest) := by
  have hx' : θ x = t.subst θ := by
    rcases hp with rfl | rfl
    · simpa using (unifies_cons.mp hθ).1
    · simpa using (unifies_cons.mp hθ).1.symm
  have hrest : Unifies θ rest := by
    obtain ⟨a, b⟩ := p; exact (unifies_cons.mp hθ).2
  exact (unifies_substE hx').mpr hrest

theorem unifies_decomp {θ : String → Term} {f : String} {as bs : List Term} {rest : Eqs}
    (hl : as.length = bs.length) :
    Unifies θ ((Term.str f as, Term.str f bs) :: rest) ↔ Unifies θ (as.zip bs ++ rest) := by
  rw [unifies_cons, unifies_append, unifies_zip hl]
  simp

theorem map_eq_of_zip {g : Term → Term} : ∀ {as bs : List Term}, as.length = bs.length →
    (∀ q ∈ as.zip bs, g q.1 = g q.2) → as.map g = bs.map g
  | [], [], _, _ => rfl
  | [], _ :: _, h, _ => by simp at h
  | _ :: _, [], h, _ => by simp at h
  | a :: as, b :: bs, h, hz => by
      simp only [List.map_cons, List.cons.injEq]
      refine ⟨hz (a, b) (by simp), map_eq_of_zip (by simpa using h) ?_⟩
      intro q hq
      exact hz q (by simp only [List.zip_cons_cons]; exact List.mem_cons_of_mem _ hq)

/-- decomposition of two compounds with the same name and arity. -/
theorem good_decomp {δ : Subst} {f : String} {as bs : List Term} {rest : Eqs}
    (hl : as.length = bs.length) (h : Good δ (as.zip bs ++ rest)) :
    Good δ ((Term.str f as, Term.str f bs) :: rest) := by
  have hsub : ∀ y, y ∈ varsE (as.zip bs ++ rest) →
      y ∈ varsE ((Term.str f as, Term.str f bs) :: rest) := by
    intro y hy
    rw [varsE_append, List.mem_append] at hy
    rcases hy with hy | hy
    · rcases mem_varsE_zip hy with h1 | h1
      · exact mem_varsE_cons.mpr (Or.inl (by simpa [Term.vars] using h1))
      · exact mem_varsE_cons.mpr (Or.inr (Or.inl (by simpa [Term.vars] using h1)))
    · exact mem_varsE_cons.mpr (Or.inr (Or.inr hy))
  refine ⟨?_, ?_, ?_, ?_⟩
  · intro q hq
    rcases List.mem_cons.mp hq with rfl | hq
    · simp only [applyS_str, Term.str.injEq, true_and]
      exact map_eq_of_zip hl (fun q hq => h.solves q (List.mem_append_left _ hq))
    · exact h.solves q (List.mem_append_right _ hq)
  · intro θ hθ t
    exact h.mgu θ ((unifies_decomp hl).mp hθ) t
  · intro x hx; exact hsub x (h.dom x hx)
  · intro t y hy
    rcases h.novars t y hy with h1 | h1
    · exact Or.inl h1
    · exact Or.inr (hsub y h1)

/-! ### the main induction -/

/-- Specification of `solve`: on success the result extends the accumulator by a `Good`
    substitution; on failure (clash or cyclic binding) the work list has no unifier. -/
theorem solve_spec (eqs : Eqs) (acc : Subst) :
    (∀ σ, solve eqs acc = .ok σ → ∃ δ, σ = δ ++ acc ∧ Good δ eqs) ∧
    ((∀ σ, solve eqs acc ≠ .ok σ) → ∀ θ, ¬Unifies θ eqs) := by
  induction eqs, acc using solve.induct with
  | case1 acc =>
      refine ⟨?_, ?_⟩
      · intro σ h; simp only [solve, Outcome.ok.injEq] at h
        exact ⟨[], by simp [h], good_nil⟩
      · intro h; exact absurd (by simp [solve]) (h acc)
  | case2 y rest acc ih =>
      simp only [solve, if_true]
      refine ⟨?_, ?_⟩
      · intro σ h
        obtain ⟨δ, hδ, hg⟩ := ih.1 σ h
        exact ⟨δ, hδ, good_drop hg⟩
      · intro h θ hθ
        exact ih.2 h θ (unifies_cons.mp hθ).2
  | case3 x y rest acc hne ih =>
      simp only [solve, hne, if_false]
      refine ⟨?_, ?_⟩
      · intro σ h
        obtain ⟨δ, hδ, hg⟩ := ih.1 σ h
        refine ⟨δ ++ [(x, .var y)], by simp [hδ], good_elim (Or.inl rfl) ?_ hg⟩
        simpa using hne
      · intro h θ hθ
        exact ih.2 h θ (unifies_elim (Or.inl rfl) hθ)
  | case4 x t rest acc hnv hmem =>
      have hs : solve ((Term.var x, t) :: rest) acc = .cyclic := by
        cases t with
        | var y => exact (hnv y rfl).elim
        | _ => simp only [solve, hmem, if_true]
      refine ⟨?_, ?_⟩
      · intro σ h; rw [hs] at h; cases h
      · intro _ θ hθ
        exact occurs_no_unifier hmem (fun y e => hnv y e) (by simpa using (unifies_cons.mp hθ).1)
  | case5 x t rest acc hnv hmem ih =>
      have hs : solve ((Term.var x, t) :: rest) acc = solve (substE x t rest) ((x, t) :: acc) := by
        cases t with
        | var y => exact (hnv y rfl).elim
        | _ => simp only [solve, hmem, if_false]
      rw [hs]
      refine ⟨?_, ?_⟩
      · intro σ h
        obtain ⟨δ, hδ, hg⟩ := ih.1 σ h
        exact ⟨δ ++ [(x, t)], by simp [hδ], good_elim (Or.inl rfl) hmem hg⟩
      · intro h θ hθ
        exact ih.2 h θ (unifies_elim (Or.inl rfl) hθ)
  | case6 s y rest acc hnv hmem =>
      have hs : solve ((s, Term.var y) :: rest) acc = .cyclic := by
        cases s with
        | var x => exact (hnv x rfl).elim
        | _ => simp only [solve, hmem, if_true]
      refine ⟨?_, ?_⟩
      · intro σ h; rw [hs] at h; cases h
      · intro _ θ hθ
        exact occurs_no_unifier hmem (fun x e => hnv x e)
          (by simpa using (unifies_cons.mp hθ).1.symm)
  | case7 s y rest acc hnv hmem ih =>
      have hs : solve ((s, Term.var y) :: rest) acc = solve (substE y s rest) ((y, s) :: acc) := by
        cases s with
        | var x => exact (hnv x rfl).elim
        | _ => simp only [solve, hmem, if_false]
      rw [hs]
      refine ⟨?_, ?_⟩
      · intro σ h
        obtain ⟨δ, hδ, hg⟩ := ih.1 σ h
        exact ⟨δ ++ [(y, s)], by simp [hδ], good_elim (Or.inr rfl) hmem hg⟩
      · intro h θ hθ
        exact ih.2 h θ (unifies_elim (Or.inr rfl) hθ)
  | case8 f as g bs rest acc hfg ih =>
      simp only [solve, hfg, and_self, if_true]
      obtain ⟨rfl, hl⟩ := hfg
      refine ⟨?_, ?_⟩
      · intro σ h
        obtain ⟨δ, hδ, hg⟩ := ih.1 σ h
        exact ⟨δ, hδ, good_decomp hl hg⟩
      · intro h θ hθ
        exact ih.2 h θ ((unifies_decomp hl).mp hθ)
  | case9 f as g bs rest acc hfg =>
      simp only [solve, hfg, if_false]
      refine ⟨?_, ?_⟩
      · intro σ h; cases h
      · intro _ θ hθ
        exact str_clash hfg (unifies_cons.mp hθ).1
  | case10 s t rest acc _ hs ht hst hc ih =>
      have hsolve : solve ((s, t) :: rest) acc = solve rest acc := by
        cases s <;> cases t
        case str.str => exact (hst _ _ _ _ rfl rfl).elim
        all_goals simp_all [solve]
      rw [hsolve]
      have he := constEq_eq hc
      subst he
      refine ⟨?_, ?_⟩
      · intro σ h
        obtain ⟨δ, hδ, hg⟩ := ih.1 σ h
        exact ⟨δ, hδ, good_drop hg⟩
      · intro h θ hθ
        exact ih.2 h θ (unifies_cons.mp hθ).2
  | case11 s t rest acc _ hs ht hst hc =>
      have hsolve : solve ((s, t) :: rest) acc = .clash := by
        cases s <;> cases t
        case str.str => exact (hst _ _ _ _ rfl rfl).elim
        all_goals simp_all [solve]
      rw [hsolve]
      refine ⟨?_, ?_⟩
      · intro σ h; cases h
      · intro _ θ hθ
        exact const_clash (fun x e => hs x e) (fun y e => ht y e) hst (by simpa using hc)
          (unifies_cons.mp hθ).1


/-! ### corollaries for the entry points -/

theorem solve_nil_ok {eqs : Eqs} {σ : Subst} (h : solve eqs [] = .ok σ) : Good σ eqs := by
  obtain ⟨δ, hδ, hg⟩ := (solve_spec eqs []).1 σ h
  simp only [List.append_nil] at hδ
  exact hδ ▸ hg

theorem solve_nil_fail {eqs : Eqs} (h : ∀ σ, solve eqs [] ≠ .ok σ) (θ : String → Term) :
    ¬Unifies θ eqs := (solve_spec eqs []).2 h θ

theorem unify_eq_some {eqs : Eqs} {acc σ : Subst} :
    unify eqs acc = some σ ↔ solve eqs acc = .ok σ := by
  unfold unify; split <;> simp_all

theorem unify_eq_none {eqs : Eqs} {acc : Subst} :
    unify eqs acc = none ↔ ∀ σ, solve eqs acc ≠ .ok σ := by
  unfold unify; split <;> simp_all

/-- a `Good` substitution unifies the work list (as a simultaneous substitution). -/
theorem Good.unifies {δ : Subst} {eqs : Eqs} (h : Good δ eqs) : Unifies δ.toFun eqs := by
  intro p hp
  rw [← applyS_eq_subst, ← applyS_eq_subst]
  exact h.solves p hp

/-- a `Good` substitution is idempotent. -/
theorem Good.idempotent {δ : Subst} {eqs : Eqs} (h : Good δ eqs) (t : Term) :
    applyS δ (applyS δ t) = applyS δ t := by
  conv => lhs; rw [applyS_eq_subst]
  rw [h.mgu δ.toFun h.unifies t, ← applyS_eq_subst]

/-- variables outside the domain are left alone. -/
theorem applyS_var_of_not_mem_dom {σ : Subst} {x : String} (h : x ∉ σ.dom) :
    applyS σ (.var x) = .var x := by
  induction σ with
  | nil => rfl
  | cons p σ ih =>
      obtain ⟨y, u⟩ := p
      simp only [Subst.dom, List.map_cons, List.mem_cons, not_or] at h
      simp only [applyS]
      rw [ih (by simpa [Subst.dom] using h.2), subst1_def, subst_var', single_ne u h.1]

theorem unifies_pair {θ : String → Term} {t1 t2 : Term} :
    Unifies θ [(t1, t2)] ↔ t1.subst θ = t2.subst θ := by
  simp [Unifies]

theorem mem_varsE_pair {y : String} {t1 t2 : Term} :
    y ∈ varsE [(t1, t2)] ↔ y ∈ t1.vars ∨ y ∈ t2.vars := by
  simp [varsE]

end Unify
end Scryer
