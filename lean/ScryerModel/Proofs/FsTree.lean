import ScryerModel.Model.FsTree
/-! Helper lemmas for `Model/FsTree.lean` (property C48). -/
namespace Scryer.FsTree

/-! ## the path map -/

theorem find_erase (fs : Fs) (p q : Path) :
    find (erase fs p) q = if q = p then none else find fs q := by
  induction fs with
  | nil => simp [erase, find]
  | cons x r ih =>
    obtain ⟨k, e⟩ := x
    by_cases hk : k = p
    · subst hk
      have : erase ((k, e) :: r) k = erase r k := by simp [erase, List.filter]
      rw [this, ih]
      by_cases hq : q = k
      · simp [hq]
      · have : k ≠ q := fun h => hq h.symm
        simp [hq, find, this]
    · have : erase ((k, e) :: r) p = (k, e) :: erase r p := by simp [erase, List.filter, hk]
      rw [this]
      by_cases hq : q = p
      · subst hq; simp [find, hk, ih]
      · simp only [find, ih, hq, if_false]

theorem find_set (fs : Fs) (p q : Path) (e : Entry) :
    find (set fs p e) q = if q = p then some e else find fs q := by
  by_cases hq : q = p
  · subst hq; simp [set, find]
  · have : p ≠ q := fun h => hq h.symm
    simp [set, find, this, find_erase, hq]

theorem get_erase (fs : Fs) (p q : Path) (hp : p ≠ []) :
    get (erase fs p) q = if q = p then none else get fs q := by
  unfold get
  by_cases hq : q = []
  · subst hq
    have : ([] : Path) ≠ p := fun h => hp h.symm
    simp [this]
  · simp [hq, find_erase]

theorem get_set (fs : Fs) (p q : Path) (e : Entry) (hp : p ≠ []) :
    get (set fs p e) q = if q = p then some e else get fs q := by
  unfold get
  by_cases hq : q = []
  · subst hq
    have : ([] : Path) ≠ p := fun h => hp h.symm
    simp [this]
  · simp [hq, find_set]

/-! ## path_segments -/

theorem splitC_ne_nil (p : List Char) : splitC p ≠ [] := by
  induction p with
  | nil => simp [splitC]
  | cons c cs ih =>
    unfold splitC
    split
    · simp
    · split <;> simp

theorem joinC_cons_cons (s t : List Char) (r : List (List Char)) :
    joinC (s :: t :: r) = s ++ '/' :: joinC (t :: r) := rfl

theorem joinC_splitC (p : List Char) : joinC (splitC p) = p := by
  induction p with
  | nil => simp [splitC, joinC]
  | cons c cs ih =>
    unfold splitC
    split
    · rename_i hc
      cases h : splitC cs with
      | nil => exact absurd h (splitC_ne_nil cs)
      | cons s ss => rw [joinC_cons_cons, ← h, ih, hc]; rfl
    · cases h : splitC cs with
      | nil => exact absurd h (splitC_ne_nil cs)
      | cons s ss =>
        rw [h] at ih
        cases ss with
        | nil => simp [joinC] at ih ⊢; exact ih
        | cons t r =>
          rw [joinC_cons_cons] at ih
          simp only [joinC_cons_cons]
          rw [← ih]; rfl

theorem splitC_cons_sep (cs : List Char) : splitC ('/' :: cs) = [] :: splitC cs := by
  rw [splitC]; simp

theorem splitC_cons_ne {c : Char} (h : c ≠ '/') (cs : List Char) :
    splitC (c :: cs) = match splitC cs with
      | s :: ss => (c :: s) :: ss
      | [] => [[c]] := by
  rw [splitC]; simp only [h, if_false]; cases splitC cs <;> rfl

theorem splitC_noSep {s : List Char} (h : '/' ∉ s) : splitC s = [s] := by
  induction s with
  | nil => rfl
  | cons c cs ih =>
    have hc : c ≠ '/' := fun e => h (by simp [e])
    have hcs : '/' ∉ cs := fun e => h (by simp [e])
    unfold splitC
    simp [hc, ih hcs]

theorem splitC_append_sep {s : List Char} (h : '/' ∉ s) (r : List Char) :
    splitC (s ++ '/' :: r) = s :: splitC r := by
  induction s with
  | nil => exact splitC_cons_sep r
  | cons c cs ih =>
    have hc : c ≠ '/' := fun e => h (by simp [e])
    have hcs : '/' ∉ cs := fun e => h (by simp [e])
    show splitC (c :: (cs ++ '/' :: r)) = _
    rw [splitC_cons_ne hc, ih hcs]

theorem splitC_joinC {ss : List (List Char)} (hne : ss ≠ []) (h : ∀ s ∈ ss, '/' ∉ s) :
    splitC (joinC ss) = ss := by
  induction ss with
  | nil => exact absurd rfl hne
  | cons s r ih =>
    cases r with
    | nil => simpa [joinC] using splitC_noSep (h s (by simp))
    | cons t r' =>
      rw [joinC_cons_cons, splitC_append_sep (h s (by simp))]
      rw [ih (by simp) (fun x hx => h x (by simp [hx]))]

theorem splitC_segments_noSep (p : List Char) : ∀ s ∈ splitC p, '/' ∉ s := by
  induction p with
  | nil => simp [splitC]
  | cons c cs ih =>
    unfold splitC
    split
    · intro s hs
      simp at hs
      rcases hs with rfl | hs
      · simp
      · exact ih s hs
    · rename_i hc
      cases h : splitC cs with
      | nil => exact absurd h (splitC_ne_nil cs)
      | cons s ss =>
        rw [h] at ih
        intro x hx
        simp at hx
        rcases hx with rfl | hx
        · have := ih s (by simp)
          intro hm
          simp at hm
          rcases hm with e | e
          · exact hc e.symm
          · exact this e
        · exact ih x (by simp [hx])

theorem splitC_length (p : List Char) : (splitC p).length = p.count '/' + 1 := by
  induction p with
  | nil => simp [splitC]
  | cons c cs ih =>
    unfold splitC
    split
    · rename_i hc; subst hc; simp [ih]
    · rename_i hc
      cases h : splitC cs with
      | nil => exact absurd h (splitC_ne_nil cs)
      | cons s ss =>
        rw [h] at ih
        have : (c == '/') = false := by simpa using hc
        simp [List.count_cons, this] at ih ⊢
        omega

/-! ## well-formed trees: every entry's parent is a directory -/

/-- the tree invariant: whatever exists has a directory as its parent (prefix-closed path map) -/
def WF (fs : Fs) : Prop := ∀ p e, get fs p = some e → get fs p.dropLast = some .dir

theorem get_nil (fs : Fs) : get fs [] = some .dir := by simp [get]

theorem wf_nil : WF [] := by
  intro p e h
  by_cases hp : p = []
  · subst hp; simp [get]
  · simp [get, hp, find] at h

theorem dropLast_ne_self {p : Path} (hp : p ≠ []) : p.dropLast ≠ p := by
  intro h
  have := congrArg List.length h
  simp at this
  have : p.length ≠ 0 := by simpa using hp
  omega

theorem append_ne_nil (p : Path) (n : Name) : p ++ [n] ≠ [] := by simp

theorem wf_set_dir {fs : Fs} (h : WF fs) {k : Path} (hk : k ≠ [])
    (hpar : get fs k.dropLast = some .dir) : WF (set fs k .dir) := by
  intro p e hp
  rw [get_set _ _ _ _ hk] at hp ⊢
  by_cases h1 : p = k
  · subst h1
    simp [dropLast_ne_self hk, hpar]
  · simp only [h1, if_false] at hp
    by_cases h2 : p.dropLast = k
    · simp [h2]
    · simp only [h2, if_false]; exact h p e hp

theorem wf_set_file {fs : Fs} (h : WF fs) {k : Path} (hk : k ≠ []) (b : List UInt8)
    (hpar : get fs k.dropLast = some .dir) (hnd : get fs k ≠ some .dir) : WF (set fs k (.file b)) := by
  intro p e hp
  rw [get_set _ _ _ _ hk] at hp ⊢
  by_cases h1 : p = k
  · subst h1
    simp [dropLast_ne_self hk, hpar]
  · simp only [h1, if_false] at hp
    by_cases h2 : p.dropLast = k
    · exact absurd (h2 ▸ h p e hp) hnd
    · simp only [h2, if_false]; exact h p e hp

theorem wf_erase {fs : Fs} (h : WF fs) {k : Path} (hk : k ≠ [])
    (hch : ∀ q, q ≠ [] → q.dropLast = k → get fs q = none) : WF (erase fs k) := by
  intro p e hp
  rw [get_erase _ _ _ hk] at hp ⊢
  by_cases h1 : p = k
  · simp [h1] at hp
  · simp only [h1, if_false] at hp
    by_cases h2 : p.dropLast = k
    · have hpn : p ≠ [] := by
        intro hn; subst hn; simp at h2; exact hk h2
      rw [hch p hpn h2] at hp; cases hp
    · simp only [h2, if_false]; exact h p e hp

/-- with a file (or nothing) at `k`, nothing exists below `k` -/
theorem no_children_of_not_dir {fs : Fs} (h : WF fs) {k : Path} (hnd : get fs k ≠ some .dir) :
    ∀ q, q ≠ [] → q.dropLast = k → get fs q = none := by
  intro q _ hq
  cases hg : get fs q with
  | none => rfl
  | some e => exact absurd (hq ▸ h q e hg) hnd

/-! ## children -/

theorem find_some_mem {fs : Fs} {q : Path} {e : Entry} (h : find fs q = some e) : (q, e) ∈ fs := by
  induction fs with
  | nil => simp [find] at h
  | cons x r ih =>
    obtain ⟨k, e'⟩ := x
    by_cases hk : k = q
    · simp [find, hk] at h; subst hk; subst h; simp
    · simp [find, hk] at h; exact List.mem_cons_of_mem _ (ih h)

theorem mem_find_ne_none {fs : Fs} {q : Path} {e : Entry} (h : (q, e) ∈ fs) : find fs q ≠ none := by
  induction fs with
  | nil => simp at h
  | cons x r ih =>
    obtain ⟨k, e'⟩ := x
    by_cases hk : k = q
    · simp [find, hk]
    · have : (q, e) ∈ r := by
        rcases List.mem_cons.mp h with h1 | h1
        · exact absurd (congrArg Prod.fst h1).symm hk
        · exact h1
      simp [find, hk, ih this]

/-- `readdir`: the names listed for `d` are exactly the names `n` with something at `d/n` -/
theorem mem_children (fs : Fs) (d : Path) (n : Name) :
    n ∈ children fs d ↔ get fs (d ++ [n]) ≠ none := by
  have hne : d ++ [n] ≠ [] := by simp
  simp only [get, hne, if_false]
  constructor
  · intro h
    simp only [children, List.mem_filterMap] at h
    obtain ⟨x, hx, hm⟩ := h
    obtain ⟨q, e⟩ := x
    simp only at hm
    cases hl : q.getLast? with
    | none => simp [hl] at hm
    | some m =>
      simp only [hl] at hm
      by_cases hd : q.dropLast = d
      · simp only [hd, if_true, Option.some.injEq] at hm
        have hq : q = d ++ [n] := by
          obtain ⟨ys, rfl⟩ := List.getLast?_eq_some_iff.1 hl
          simp at hd; rw [hd, hm]
        exact mem_find_ne_none (hq ▸ hx)
      · simp [hd] at hm
  · intro h
    cases hf : find fs (d ++ [n]) with
    | none => exact absurd hf h
    | some e =>
      simp only [children, List.mem_filterMap]
      exact ⟨(d ++ [n], e), find_some_mem hf, by simp⟩

theorem children_nil_iff (fs : Fs) (d : Path) :
    children fs d = [] ↔ ∀ q, q ≠ [] → q.dropLast = d → get fs q = none := by
  constructor
  · intro h q hq hd
    have hl : q = d ++ [q.getLast hq] := by
      rw [← hd]; exact (List.dropLast_concat_getLast hq).symm
    cases hg : get fs q with
    | none => rfl
    | some e =>
      have : q.getLast hq ∈ children fs d := (mem_children fs d _).2 (by rw [← hl, hg]; simp)
      rw [h] at this; simp at this
  · intro h
    apply List.eq_nil_iff_forall_not_mem.2
    intro n hn
    have := (mem_children fs d n).1 hn
    exact this (h (d ++ [n]) (by simp) (by simp))

/-! ## path resolution -/

theorem walk_found {fs : Fs} (h : WF fs) {comps : List Name} :
    ∀ {cur p e}, get fs cur = some .dir → walk fs cur comps = .found p e → get fs p = some e := by
  induction comps with
  | nil => intro cur p e hc hw; simp [walk] at hw; obtain ⟨rfl, rfl⟩ := hw; exact hc
  | cons c rest ih =>
    intro cur p e hc hw
    rw [walk] at hw
    split at hw
    · exact ih hc hw
    · split at hw
      · split at hw
        · cases hw
        · exact ih (h cur _ hc) hw
      · split at hw
        · cases hw
        · split at hw
          · split at hw <;> cases hw
          · rename_i hd; exact ih hd hw
          · rename_i b hf
            split at hw
            · simp at hw; obtain ⟨rfl, rfl⟩ := hw; exact hf
            · cases hw

theorem walk_missing {fs : Fs} (h : WF fs) {comps : List Name} :
    ∀ {cur par n sl}, get fs cur = some .dir → walk fs cur comps = .missing par n sl →
      get fs (par ++ [n]) = none ∧ get fs par = some .dir := by
  induction comps with
  | nil => intro cur par n sl hc hw; simp [walk] at hw
  | cons c rest ih =>
    intro cur par n sl hc hw
    rw [walk] at hw
    split at hw
    · exact ih hc hw
    · split at hw
      · split at hw
        · cases hw
        · exact ih (h cur _ hc) hw
      · split at hw
        · cases hw
        · split at hw
          · rename_i hn
            split at hw
            · simp at hw; obtain ⟨rfl, rfl, _⟩ := hw; exact ⟨hn, hc⟩
            · cases hw
          · rename_i hd; exact ih hd hw
          · split at hw <;> cases hw

/-- lexical normal form of a component list relative to `cur`: drop empty and `.` components,
`..` removes the last name -/
def lexNorm : Path → List Name → Path
  | cur, [] => cur
  | cur, c :: rest =>
    if c = "" ∨ c = "." then lexNorm cur rest
    else if c = ".." then lexNorm cur.dropLast rest
    else lexNorm (cur ++ [c]) rest

/-- whatever a path resolves to sits at the lexical normal form of the path (no symbolic links) -/
theorem walk_found_lexNorm {fs : Fs} {comps : List Name} :
    ∀ {cur p e}, walk fs cur comps = .found p e → p = lexNorm cur comps := by
  induction comps with
  | nil => intro cur p e hw; simp [walk] at hw; simp [lexNorm, hw.1]
  | cons c rest ih =>
    intro cur p e hw
    rw [walk] at hw
    rw [lexNorm]
    split at hw
    · rename_i hc; simp only [hc, if_true]; exact ih hw
    · rename_i hc
      simp only [hc, if_false]
      split at hw
      · rename_i hdd
        simp only [hdd, if_true]
        split at hw
        · cases hw
        · exact ih hw
      · rename_i hdd
        simp only [hdd, if_false]
        split at hw
        · cases hw
        · split at hw
          · split at hw <;> cases hw
          · exact ih hw
          · split at hw
            · rename_i hr; simp at hw; subst hr; simp [lexNorm, hw.1]
            · cases hw

theorem resolve_found {fs : Fs} (h : WF fs) {cwd : Path} {s : String} {p : Path} {e : Entry}
    (hr : resolve fs cwd s = .found p e) : get fs p = some e := by
  unfold resolve at hr
  split at hr
  · cases hr
  · split at hr
    · exact walk_found h (get_nil fs) hr
    · split at hr
      · rename_i hc; exact walk_found h hc hr
      · cases hr

theorem resolve_missing {fs : Fs} (h : WF fs) {cwd : Path} {s : String} {par : Path} {n : Name}
    {sl : Bool} (hr : resolve fs cwd s = .missing par n sl) :
    get fs (par ++ [n]) = none ∧ get fs par = some .dir := by
  unfold resolve at hr
  split at hr
  · cases hr
  · split at hr
    · exact walk_missing h (get_nil fs) hr
    · split at hr
      · rename_i hc; exact walk_missing h hc hr
      · cases hr

/-- the start directory and component list `resolve` walks -/
theorem resolve_found_lexNorm {fs : Fs} {cwd : Path} {s : String} {p : Path} {e : Entry}
    (hr : resolve fs cwd s = .found p e) :
    p = lexNorm (if isAbs s then [] else cwd) (comps s) := by
  unfold resolve at hr
  split at hr
  · cases hr
  · split at hr
    · rename_i ha; simp only [ha, if_true]; exact walk_found_lexNorm hr
    · rename_i ha
      split at hr
      · simp only [ha]; exact walk_found_lexNorm hr
      · cases hr

/-! ## system calls: what a successful call did -/

theorem mkdir_spec {fs fs' : Fs} (h : WF fs) {cwd : Path} {s : String}
    (hm : mkdir fs cwd s = .ok fs') :
    ∃ k, k ≠ [] ∧ get fs k = none ∧ get fs k.dropLast = some .dir ∧ fs' = set fs k .dir := by
  unfold mkdir at hm
  split at hm
  · rename_i par n sl hr
    obtain ⟨h1, h2⟩ := resolve_missing h hr
    refine ⟨par ++ [n], by simp, h1, by simpa using h2, ?_⟩
    cases hm; rfl
  · cases hm
  · cases hm

theorem mkdir_wf {fs fs' : Fs} (h : WF fs) {cwd : Path} {s : String}
    (hm : mkdir fs cwd s = .ok fs') : WF fs' := by
  obtain ⟨k, hk, _, hp, rfl⟩ := mkdir_spec h hm
  exact wf_set_dir h hk hp

theorem rmdir_spec {fs fs' : Fs} (h : WF fs) {cwd : Path} {s : String}
    (hm : rmdir fs cwd s = .ok fs') :
    ∃ k, k ≠ [] ∧ get fs k = some .dir ∧ children fs k = [] ∧ fs' = erase fs k := by
  unfold rmdir at hm
  split at hm
  · cases hm
  · split at hm
    · cases hm
    · split at hm
      · rename_i p hr
        split at hm
        · cases hm
        · rename_i hch
          split at hm
          · cases hm
          · rename_i hp
            refine ⟨p, hp, resolve_found h hr, by simpa using hch, ?_⟩
            cases hm; rfl
      · cases hm
      · cases hm
      · cases hm

theorem rmdir_wf {fs fs' : Fs} (h : WF fs) {cwd : Path} {s : String}
    (hm : rmdir fs cwd s = .ok fs') : WF fs' := by
  obtain ⟨k, hk, _, hc, rfl⟩ := rmdir_spec h hm
  exact wf_erase h hk ((children_nil_iff fs k).1 hc)

theorem file_ne_root {fs : Fs} {p : Path} {b : List UInt8} (hg : get fs p = some (.file b)) : p ≠ [] := by
  intro hp; subst hp; simp [get] at hg

theorem unlink_spec {fs fs' : Fs} (h : WF fs) {cwd : Path} {s : String}
    (hm : unlink fs cwd s = .ok fs') :
    ∃ k b, k ≠ [] ∧ get fs k = some (.file b) ∧ fs' = erase fs k := by
  unfold unlink at hm
  split at hm
  · rename_i p b hr
    have hg := resolve_found h hr
    refine ⟨p, b, file_ne_root hg, hg, ?_⟩
    cases hm; rfl
  · cases hm
  · cases hm
  · cases hm

theorem unlink_wf {fs fs' : Fs} (h : WF fs) {cwd : Path} {s : String}
    (hm : unlink fs cwd s = .ok fs') : WF fs' := by
  obtain ⟨k, b, hk, hg, rfl⟩ := unlink_spec h hm
  exact wf_erase h hk (no_children_of_not_dir h (by rw [hg]; simp))

/-- what `rename` / `copy` write: a file at a place whose parent is a directory and which is not
a directory itself -/
def Writable (fs : Fs) (pd : Path) : Prop :=
  pd ≠ [] ∧ get fs pd ≠ some .dir ∧ get fs pd.dropLast = some .dir

theorem rename_spec {fs fs' : Fs} (h : WF fs) {cwd : Path} {a b : String}
    (hm : rename fs cwd a b = .ok fs') :
    ∃ ps bytes, get fs ps = some (.file bytes) ∧
      (fs' = fs ∨ ∃ pd, pd ≠ ps ∧ Writable fs pd ∧ fs' = set (erase fs ps) pd (.file bytes)) := by
  unfold rename at hm
  split at hm
  · rename_i ps bytes hra
    refine ⟨ps, bytes, resolve_found h hra, ?_⟩
    split at hm
    · rename_i pd x hrb
      have hgd := resolve_found h hrb
      split at hm
      · left; cases hm; rfl
      · rename_i hne
        right
        refine ⟨pd, hne, ⟨file_ne_root hgd, by rw [hgd]; simp, h pd _ hgd⟩, ?_⟩
        cases hm; rfl
    · cases hm
    · rename_i par n sl hrb
      obtain ⟨h1, h2⟩ := resolve_missing h hrb
      split at hm
      · cases hm
      · right
        refine ⟨par ++ [n], ?_, ⟨by simp, by rw [h1]; simp, by simpa using h2⟩, ?_⟩
        · intro he; rw [he, resolve_found h hra] at h1; cases h1
        · cases hm; rfl
    · cases hm
  · cases hm
  · cases hm
  · cases hm

theorem copy_spec {fs fs' : Fs} (h : WF fs) {cwd : Path} {a b : String}
    (hm : copy false fs cwd a b = .ok fs') :
    ∃ ps bytes, get fs ps = some (.file bytes) ∧
      (fs' = fs ∨ ∃ pd, pd ≠ ps ∧ Writable fs pd ∧ fs' = set fs pd (.file bytes)) := by
  unfold copy at hm
  split at hm
  · rename_i ps bytes hra
    refine ⟨ps, bytes, resolve_found h hra, ?_⟩
    split at hm
    · rename_i pd x hrb
      have hgd := resolve_found h hrb
      split at hm
      · left; simp at hm; exact hm.symm
      · rename_i hne
        right
        refine ⟨pd, hne, ⟨file_ne_root hgd, by rw [hgd]; simp, h pd _ hgd⟩, ?_⟩
        cases hm; rfl
    · cases hm
    · rename_i par n sl hrb
      obtain ⟨h1, h2⟩ := resolve_missing h hrb
      split at hm
      · cases hm
      · right
        refine ⟨par ++ [n], ?_, ⟨by simp, by rw [h1]; simp, by simpa using h2⟩, ?_⟩
        · intro he; rw [he, resolve_found h hra] at h1; cases h1
        · cases hm; rfl
    · cases hm
  · cases hm
  · cases hm
  · cases hm

theorem rename_wf {fs fs' : Fs} (h : WF fs) {cwd : Path} {a b : String}
    (hm : rename fs cwd a b = .ok fs') : WF fs' := by
  obtain ⟨ps, bytes, hg, hc⟩ := rename_spec h hm
  rcases hc with rfl | ⟨pd, hne, ⟨hpd, hnd, hpar⟩, rfl⟩
  · exact h
  · have hps := file_ne_root hg
    have h1 : WF (erase fs ps) := wf_erase h hps (no_children_of_not_dir h (by rw [hg]; simp))
    apply wf_set_file h1 hpd
    · rw [get_erase _ _ _ hps]
      have : pd.dropLast ≠ ps := by intro he; rw [he, hg] at hpar; cases hpar
      simp [this, hpar]
    · rw [get_erase _ _ _ hps]; simp [hne, hnd]

theorem copy_wf {fs fs' : Fs} (h : WF fs) {cwd : Path} {a b : String}
    (hm : copy false fs cwd a b = .ok fs') : WF fs' := by
  obtain ⟨ps, bytes, _, hc⟩ := copy_spec h hm
  rcases hc with rfl | ⟨pd, _, ⟨hpd, hnd, hpar⟩, rfl⟩
  · exact h
  · exact wf_set_file h hpd _ hpar hnd

end Scryer.FsTree
