import ScryerModel.Model.FsTree
/-! Helper lemmas for `Model/FsTree.lean` (property C48). -/
namespace Scryer.FsTree

/-! ## the path map -/

theorem find_erase (fs : Fs) (p q : Path) :
    find (erase fs p) q = if q = p then none else find fs q := by
  induction fs with
  | nil => simp [erase, find]
  | cons x r ih =>
    obtain ⟨k, e⟩ := x
    by_cases hk : k = p
    · subst hk
      have : erase ((k, e) :: r) k = erase r k := by simp [erase, List.filter]
      rw [this, ih]
      by_cases hq : q = k
      · simp [hq]
      · have : k ≠ q := fun h => hq h.symm
        simp [hq, find, this]
    · have : erase ((k, e) :: r) p = (k, e) :: erase r p := by simp [erase, List.filter, hk]
      rw [this]
      by_cases hq : q = p
      · subst hq; simp [find, hk, ih]
      · simp only [find, ih, hq, if_false]

theorem find_set (fs : Fs) (p q : Path) (e : Entry) :
    find (set fs p e) q = if q = p then some e else find fs q := by
  by_cases hq : q = p
  · subst hq; simp [set, find]
  · have : p ≠ q := fun h => hq h.symm
    simp [set, find, this, find_erase, hq]

theorem get_erase (fs : Fs) (p q : Path) (hp : p ≠ []) :
    get (erase fs p) q = if q = p then none else get fs q := by
  unfold get
  by_cases hq : q = []
  · subst hq
    have : ([] : Path) ≠ p := fun h => hp h.symm
    simp [this]
  · simp [hq, find_erase]

theorem get_set (fs : Fs) (p q : Path) (e : Entry) (hp : p ≠ []) :
    get (set fs p e) q = if q = p then some e else get fs q := by
  unfold get
  by_cases hq : q = []
  · subst hq
    have : ([] : Path) ≠ p := fun h => hp h.symm
    simp [this]
  · simp [hq, find_set]

/-! ## path_segments -/

theorem splitC_ne_nil (p : List Char) : splitC p ≠ [] := by
  induction p with
  | nil => simp [splitC]
  | cons c cs ih =>
    unfold splitC
    split
    · simp
    · split <;> simp

theorem joinC_cons_cons (s t : List Char) (r : List (List Char)) :
    joinC (s :: t :: r) = s ++ '/' :: joinC (t :: r) := rfl

theorem joinC_splitC (p : List Char) : joinC (splitC p) = p := by
  induction p with
  | nil => simp [splitC, joinC]
  | cons c cs ih =>
    unfold splitC
    split
    · rename_i hc
      cases h : splitC cs with
      | nil => exact absurd h (splitC_ne_nil cs)
      | cons s ss => rw [joinC_cons_cons, ← h, ih, hc]; rfl
    · cases h : splitC cs with
      | nil => exact absurd h (splitC_ne_nil cs)
      | cons s ss =>
        rw [h] at ih
        cases ss with
        | nil => simp [joinC] at ih ⊢; exact ih
        | cons t r =>
          rw [joinC_cons_cons] at ih
          simp only [joinC_cons_cons]
          rw [← ih]; rfl

theorem splitC_cons_sep (cs : List Char) : splitC ('/' :: cs) = [] :: splitC cs := by
  rw [splitC]; simp

theorem splitC_cons_ne {c : Char} (h : c ≠ '/') (cs : List Char) :
    splitC (c :: cs) = match splitC cs with
      | s :: ss => (c :: s) :: ss
      | [] => [[c]] := by
  rw [splitC]; simp only [h, if_false]; cases splitC cs <;> rfl

theorem splitC_noSep {s : List Char} (h : '/' ∉ s) : splitC s = [s] := by
  induction s with
  | nil => rfl
  | cons c cs ih =>
    have hc : c ≠ '/' := fun e => h (by simp [e])
    have hcs : '/' ∉ cs := fun e => h (by simp [e])
    unfold splitC
    simp [hc, ih hcs]

theorem splitC_append_sep {s : List Char} (h : '/' ∉ s) (r : List Char) :
    splitC (s ++ '/' :: r) = s :: splitC r := by
  induction s with
  | nil => exact splitC_cons_sep r
  | cons c cs ih =>
    have hc : c ≠ '/' := fun e => h (by simp [e])
    have hcs : '/' ∉ cs := fun e => h (by simp [e])
    show splitC (c :: (cs ++ '/' :: r)) = _
    rw [splitC_cons_ne hc, ih hcs]

theorem splitC_joinC {ss : List (List Char)} (hne : ss ≠ []) (h : ∀ s ∈ ss, '/' ∉ s) :
    splitC (joinC ss) = ss := by
  induction ss with
  | nil => exact absurd rfl hne
  | cons s r ih =>
    cases r with
    | nil => simpa [joinC] using splitC_noSep (h s (by simp))
    | cons t r' =>
      rw [joinC_cons_cons, splitC_append_sep (h s (by simp))]
      rw [ih (by simp) (fun x hx => h x (by simp [hx]))]

theorem splitC_segments_noSep (p : List Char) : ∀ s ∈ splitC p, '/' ∉ s := by
  induction p with
  | nil => simp [splitC]
  | cons c cs ih =>
    unfold splitC
    split
    · intro s hs
      simp at hs
      rcases hs with rfl | hs
      · simp
      · exact ih s hs
    · rename_i hc
      cases h : splitC cs with
      | nil => exact absurd h (splitC_ne_nil cs)
      | cons s ss =>
        rw [h] at ih
        intro x hx
        simp at hx
        rcases hx with rfl | hx
        · have := ih s (by simp)
          intro hm
          simp at hm
          rcases hm with e | e
          · exact hc e.symm
          · exact this e
        · exact ih x (by simp [hx])

theorem splitC_length (p : List Char) : (splitC p).length = p.count '/' + 1 := by
  induction p with
  | nil => simp [splitC]
  | cons c cs ih =>
    unfold splitC
    split
    · rename_i hc; subst hc; simp [ih]
    · rename_i hc
      cases h : splitC cs with
      | nil => exact absurd h (splitC_ne_nil cs)
      | cons s ss =>
        rw [h] at ih
        have : (c == '/') = false := by simpa using hc
        simp [List.count_cons, this] at ih ⊢
        omega

end Scryer.FsTree
