import ScryerModel.Model.Resync
import ScryerModel.Model.Quote
import ScryerModel.Drv.Util
/-!
drv_C17: TAB separated fields; texts are comma separated decimal code points (`-` = empty).

* `reads <id> <uc> <text>` → the outcomes of reading the text until end_of_file with the repaired
  reader, one item per read: `c<ntoks>:<len>` (a complete clause of `ntoks` tokens before the end
  token; `len` = characters consumed by this read) or `e<kind>:<len>` (lexical syntax error);
  `nofuel` if the model ran out of fuel (proved impossible).
* `pinned <id> <uc> <text>` → the same for the pinned reader, at most 12 reads.
* `toks <id> <uc> <text>` → the recovering token stream: `<kind>:<len>` / `!<err>:<len>`.

`<uc>`: `cp:bits,…` for the non-ASCII characters (bit 0 alphabetic, 1 numeric, 2 uppercase,
3 whitespace, 4 control), `-` for none (same encoding as drv_C55).
-/
open Scryer.Drv
open Scryer.Resync
open Scryer.CharClass

namespace Scryer.DrvC17

def parseText (s : String) : List Char :=
  if s = "-" || s = "" then [] else (s.splitOn ",").filterMap fun t => t.toNat?.map Char.ofNat

def parseUC (s : String) : UC :=
  if s = "-" || s = "" then Scryer.Quote.mkUC [] else
  Scryer.Quote.mkUC ((s.splitOn ",").filterMap fun e =>
    match e.splitOn ":" with
    | [a, b] => match a.toNat?, b.toNat? with
      | some x, some y => some (x, y)
      | _, _ => none
    | _ => none)

def showOutcome : Outcome × Nat → String
  | (.clause n, l) => s!"c{n}:{l}"
  | (.error e, l) => s!"e{e.atom}:{l}"
  | (.eof, l) => s!"eof:{l}"

def showKind : Kind → String
  | .name => "name" | .var => "var" | .num => "num" | .str => "str" | .punct => "punct"
  | .openT => "open" | .openCT => "openct" | .endT => "end"

def toksGo (u : UC) : Nat → List Char → List String
  | 0, _ => ["nofuel"]
  | f + 1, s =>
    match nextTok u true s with
    | .tok k rest => s!"{showKind k}:{s.length - rest.length}" :: (if rest.isEmpty then [] else toksGo u f rest)
    | .err .eof _ => ["!eof"]
    | .err e rest => s!"!{e.atom}:{s.length - rest.length}" :: toksGo u f rest
    | .panic => ["panic"]

def handle : List String → String
  | ["reads", _, uc, text] =>
    match reads (parseUC uc) (parseText text) with
    | some l => if l.isEmpty then "-" else " ".intercalate (l.map showOutcome)
    | none => "nofuel"
  | ["pinned", _, uc, text] =>
    let l := readsPinned (parseUC uc) 12 (parseText text)
    if l.isEmpty then "-" else " ".intercalate (l.map showOutcome)
  | ["toks", _, uc, text] =>
    let s := parseText text
    " ".intercalate (toksGo (parseUC uc) (s.length + 1) s)
  | _ => "bad-op"

end Scryer.DrvC17

def main : IO Unit := runDriver Scryer.DrvC17.handle
