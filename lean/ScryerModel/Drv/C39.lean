import ScryerModel.Model.Dcg
import ScryerModel.Drv.Util
import ScryerModel.Drv.TermIO
/-
drv_C39 — operations (TAB separated; terms in the harness' canonical syntax, Drv/TermIO):

  tr  <id> <term>
      the model's `dcg_rule/2` on a `'-->'(H,B)` term:
      `clause <':-'(Head,Body)>` | `error <error term>` | `noexp`
  run <id> <items joined by " ;; "> <mode> <pre> <body> <S0> <S> <template> <max>
      items: clauses `':-'(H,B)` / facts / grammar rules `'-->'(H,B)` (translated by the model).
      mode `inline`/`call`: the query `Pre, phrase(Body,S0,S)` (literal body / body bound at run
                     time): phrase/3 translates the body and CALLS the result (cut local);
      mode `leak`  : the translated body runs in place of the phrase/3 goal, transparent to cut
                     (NOT the reference; only used to classify a deviation of the implementation).
      Result `R <fuel> <#answers> den=<ok|DIFF> :: answers ;; … ;; exception(Ball)`: the answers of
      solving the TRANSLATION with the reference interpreter; `den=ok` says that the DIRECT
      semantics (`Dcg.den`) printed the same (Props/C39 proves it always does).
      `oof …` when the fuel schedule did not suffice, `bad-rule <…>` when a rule does not translate.
-/
open Scryer Scryer.Drv Scryer.Solve Scryer.Dcg

def bigFuel : Nat := 100000

def showErr (e : TrErr) : String := showTerm (errTerm e)

def toItem (t : Term) : Except String Clause :=
  match t with
  | .str "-->" _ =>
      match rule t with
      | .clause c => .ok c
      | .error e => .error ("error " ++ showErr e)
      | .noExpansion => .error "noexp"
  | .str ":-" [h, b] => .ok ⟨h, b⟩
  | t => .ok ⟨t, .atom "true"⟩

def parseProg (s : String) : Except String Prog :=
  if s.trimAscii.isEmpty then .ok [] else
  (s.splitOn " ;; ").foldr (fun c acc =>
    match acc, parseTermStr c with
    | .ok cs, some t =>
        match toItem t with
        | .ok cl => .ok (cl :: cs)
        | .error e => .error e
    | .error e, _ => .error e
    | _, none => .error ("unparsable " ++ c)) (.ok [])

def showAnswers (tmpl : Term) (maxA : Nat) (r : Res) : String :=
  let shown := r.sols.map fun s =>
    match resolve bigFuel s.σ tmpl with
    | some t => showTerm t
    | none => "?unresolved"
  let items := shown ++ (match r.exc with
      | some (b, _) => ["exception(" ++ showTerm b ++ ")"]
      | none => [])
  " ;; ".intercalate (items.take maxA ++ (if items.length > maxA then ["..."] else []))

def fuels : List Nat := [32, 64, 128, 256]

/-- the two computations of one query at fuel `f`. -/
def both (f : Nat) (prog : Prog) (mode : String) (pre body S0 S : Term) : Res × Res :=
  let s0 : St := ⟨[], 0⟩
  let rp := solve f prog pre s0
  if mode == "leak" then
    let b := (ofTerm parseFuel body 0).1
    match tr b S0 S with
    | .error _ => (Res.oofR, Res.oofR)
    | .ok g => (conjRes rp (fun s => solve f prog g s), conjRes rp (fun s => den f prog b S0 S s))
  else
    (conjRes rp (fun s => phraseRun f prog s body S0 S), conjRes rp (fun s => phraseDen f prog s body S0 S))

def runQuery (prog : Prog) (mode : String) (pre body S0 S tmpl : Term) (maxA : Nat) : IO String := do
  let mut last := 0
  for f in fuels do
    let t0 ← IO.monoMsNow
    let (r1, r2) := both f prog mode pre body S0 S
    let out :=
      if r1.oof || r2.oof then none
      else
        let a1 := showAnswers tmpl maxA r1
        let a2 := showAnswers tmpl maxA r2
        let ok := if a1 == a2 then "ok" else "DIFF"
        some s!"R {f} {r1.sols.length} den={ok} :: {a1}"
    let done := match out with | some s => s.length | none => 0
    let t1 ← IO.monoMsNow
    last := f + (done - done)
    match out with
    | some s => return s
    | none => if t1 - t0 > 150 then break
  return s!"oof {last}"

def handleLine (l : String) : IO String := do
  match fields l with
  | "tr" :: id :: t :: _ =>
      match parseTermStr t with
      | none => return s!"{id}\tbad-args"
      | some t =>
        match rule t with
        | .clause c => return s!"{id}\tclause {showTerm (.str ":-" [c.head, c.body])}"
        | .error e => return s!"{id}\terror {showErr e}"
        | .noExpansion => return s!"{id}\tnoexp"
  | "run" :: id :: prog :: mode :: pre :: body :: s0 :: s :: tmpl :: maxA :: _ =>
      match parseProg prog with
      | .error e => return s!"{id}\tbad-rule {e}"
      | .ok p =>
        match parseTermStr pre, parseTermStr body, parseTermStr s0, parseTermStr s,
              parseTermStr tmpl, maxA.toNat? with
        | some pre, some body, some s0, some s, some t, some m => do
            let r ← runQuery p mode pre body s0 s t m
            return s!"{id}\t{r}"
        | _, _, _, _, _, _ => return s!"{id}\tbad-args"
  | _ :: id :: _ => return s!"{id}\tbad-op"
  | _ => return "?\tbad-op"

partial def ioLoop (h out : IO.FS.Stream) : IO Unit := do
  let line ← h.getLine
  if line.isEmpty then return ()
  let l := stripEol line
  if l.isEmpty || l.startsWith "#" then
    ioLoop h out
  else
    out.putStrLn (← handleLine l)
    out.flush
    ioLoop h out

def main : IO Unit := do
  ioLoop (← IO.getStdin) (← IO.getStdout)
