import ScryerModel.Drv.Util
import ScryerModel.Model.IntRepr
/- drv_C05: integers as tokens `f<int>` (Fixnum cell) / `b<int>` (arena Integer).
   `lookup <id> <head tokens> <arg token>` → clause numbers selected and unified
   `unify <id> <a> <b>` → true|false     `cmp <id> <a> <b>` → lt|eq|gt -/
open Scryer.Drv Scryer.Arith Scryer.IntRepr

def num? (s : String) : Option Num :=
  if s.startsWith "f" then (parseInt? (s.drop 1).toString).map Num.fix
  else if s.startsWith "b" then (parseInt? (s.drop 1).toString).map Num.big
  else none

def showOrd : Ordering → String
  | .lt => "lt" | .eq => "eq" | .gt => "gt"

def main : IO Unit := runDriver fun
  | "lookup" :: _ :: heads :: arg :: _ =>
      match (words heads).mapM num?, num? arg with
      | some hs, some a => " ".intercalate ((matchesFrom 0 hs a).map toString)
      | _, _ => "bad-op"
  | "unify" :: _ :: a :: b :: _ =>
      match num? a, num? b with
      | some x, some y => toString (unifyInt x y)
      | _, _ => "bad-op"
  | "cmp" :: _ :: a :: b :: _ =>
      match num? a, num? b with
      | some x, some y => showOrd (compareInt x y)
      | _, _ => "bad-op"
  | _ => "bad-op"
