import ScryerModel.Drv.Util
import ScryerModel.Drv.TermIO
import ScryerModel.Model.Format
import ScryerModel.Model.ArithMixed
import ScryerModel.Model.F64
/-! drv_C36.
  `fmt\t<id>\t<cfg>\t<Fs>\t<Args>\t<Texts>`
     cfg   : `fixed` | `pinned` (pinned `~Nd ~ND ~NU` on negative integers, pinned `~w~|`)
     Fs    : the format string, canonical term syntax of the harness (any term)
     Args  : the argument list, canonical term syntax (any term)
     Texts : canonical term `['-'(W,Q),…]`: for the i-th argument the characters of
             write_term_to_chars with the options of `~w` and of `~q`
  result: `'ok'("…")` | `'err'(<formal error term>)` | `'failed'` | `unspec` (some error),
  printed in the canonical syntax, i.e. exactly what the harness prints for the implementation.
  `pow10\t<id>\t<n>`: `same` iff the correctly rounded and the pinned (dashu, findings C04-1/C02-4)
     integer→double conversion of 10^n agree;
  `ratconv\t<id>\t<num> <den>`: the same for the rational→double conversion (C04-2/C02-3). The check
     only uses `~Nf` inputs for which the conversions agree (the conversion is C04's subject). -/
open Scryer Scryer.Drv Scryer.Format

namespace Scryer.DrvC36

open Scryer.ArithMixed in
def noLibm : Libm := { fn1 := fun _ _ => none, pow := fun _ _ => none, atan2 := fun _ _ => none }

def mapErr : ArithMixed.Err → Format.Err
  | .zeroDivisor => .eval "zero_divisor"
  | .undefined => .eval "undefined"
  | .floatOverflow => .eval "float_overflow"
  | .typeFloat c => .type "float" (.int c)
  | .inst => .inst
  | .panic => .unspec
  | .miss _ _ _ => .unspec

def lift {α} : Except ArithMixed.Err α → Format.R α
  | .ok a => .ok a
  | .error e => .error (mapErr e)

def toNumber : Term → Format.R ArithMixed.Number
  | .int v => .ok (.int (Arith.lit v))
  | .rat n d => .ok (.rat n d)
  | .flt b => .ok (.flt ⟨b⟩)
  | .var _ => .error .inst
  | .atom a => .error (.type "evaluable" (Format.indicator a 0))
  | .str f args => .error (.type "evaluable" (Format.indicator f args.length))

def intOf : ArithMixed.Number → Format.R Int
  | .int n => .ok n.val
  | _ => .error .unspec

/-- the arithmetic of `float_with_n_decimal_digits//2`, goal by goal, on the C02 model. -/
def prim : Format.FPrim := fun t n => do
  let c : ArithMixed.Cfg := { libm := noLibm }
  let f ← toNumber t
  let ffp ← lift (ArithMixed.floatFractionalPart f)             -- Fr is abs(float_fractional_part(F))
  let fr := ArithMixed.abs ffp
  let p ← lift (ArithMixed.intPow c (.int (Arith.lit 10)) (.int (Arith.lit n)))   -- 10^N
  let m ← lift (ArithMixed.mul fr p)
  let r0 ← lift (ArithMixed.round c m)                          -- FrR0 is round(Fr*10^N)
  let frr0 ← intOf r0
  let t0 ← lift (ArithMixed.truncate c f)                       -- I0 is truncate(F)
  let i0 ← intOf t0
  let s ← lift (ArithMixed.truncate c (ArithMixed.sign f))
  let sgn ← intOf s
  pure { i0 := i0, frr0 := frr0, neg := f.isNegative, sgn := sgn }

def errTerm : Format.Err → Option Term
  | .inst => some (.atom "instantiation_error")
  | .type ty c => some (.str "type_error" [.atom ty, c])
  | .dom d c => some (.str "domain_error" [.atom d, c])
  | .eval e => some (.str "evaluation_error" [.atom e])
  | .uninst c => some (.str "uninstantiation_error" [c])
  | .fail => none
  | .unspec => none

/-- a thrown term is a copy: its variables are fresh, the harness prints them `_G0, _G1, …` in
    order of first occurrence. -/
partial def renameVars : Term → List String → Term × List String
  | .var n, seen =>
    match seen.idxOf? n with
    | some i => (.var s!"_G{i}", seen)
    | none => (.var s!"_G{seen.length}", seen ++ [n])
  | .str f args, seen =>
    let (as, seen') := args.foldl (fun (acc : List Term × List String) a =>
      let (a', s') := renameVars a acc.2
      (acc.1 ++ [a'], s')) ([], seen)
    (.str f as, seen')
  | t, seen => (t, seen)

def showResult : Format.R (List Char) → String
  | .ok cs => showTerm (.str "ok" [Term.ofChars cs])
  | .error .fail => "'failed'"
  | .error .unspec => "unspec"
  | .error e =>
    match errTerm e with
    | some t => showTerm (.str "err" [(renameVars t []).1])
    | none => "unspec"

def charsOf (t : Term) : List Char := (Format.listView t).1.filterMap Format.charOf?

def textsOf (t : Term) : List (List Char × List Char) :=
  (Format.listView t).1.map fun p =>
    match p with
    | .str "-" [w, q] => (charsOf w, charsOf q)
    | _ => ([], [])

def handle : List String → String
  | ["fmt", _, cfg, fs, args, texts] =>
    match parseTermStr (unescape fs), parseTermStr (unescape args), parseTermStr (unescape texts) with
    | some fs, some args, some texts =>
      let tx := textsOf texts
      let pinned := cfg == "pinned"
      showResult (Format.format_ { pinned := pinned } prim (fun i => tx.getD i ([], [])) fs args)
    | _, _, _ => "bad-term"
  | ["pow10", _, n] =>
    match n.toNat? with
    | some n =>
      if n > 400 then "bad-args" else
      if (Scryer.F64.dashuIntToF64 ((10 : Int) ^ n)).bits == (ArithFloat.ofInt ((10 : Int) ^ n)).bits
      then "same" else "differ"
    | none => "bad-args"
  | ["ratconv", _, a] =>
    match (words a).map parseInt? with
    | [some n, some d] =>
      if d ≤ 0 then "bad-args" else
      if (Scryer.F64.dashuRatToF64 n d.toNat).bits == (ArithFloat.ofFrac n d.toNat).bits then "same" else "differ"
    | _ => "bad-args"
  | _ => "bad-op"

end Scryer.DrvC36

def main : IO Unit := runDriver Scryer.DrvC36.handle
