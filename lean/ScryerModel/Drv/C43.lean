import ScryerModel.Model.OpTable
import ScryerModel.Drv.Util
/-!
drv_C43: one history per line.

`hist <id> <flags> <names> <steps>` (TAB separated fields)
* flags: three characters `0/1`: the tree under test has the patch of finding C43-1 / checks a
  whole list for clashes before the first update (ISO leaves that open) / has the patch of C43-2;
* names: hex-encoded names whose table rows are printed;
* steps (space separated tokens):
  `op ARG ARG OPARG`, ARG ::= `v` | `i<int>` | `a<hex>` | `o<hex>`,
  OPARG ::= `1 ARG` | `L <n> ARG{n} ARG`;  `cur PP PS PN` (`_` = unbound, PN hex);
  `rd <n> <hex>{n}`.
Result: step results joined by ` ;; `:
* `op@@<err followed>@@<table followed>@@<err iso>@@<table iso>@@<deviation tags>@@<inv 0/1>`
* `cur@@<solutions followed>@@<solutions iso>`
* `rd@@T=<term>` / `rd@@syntax_error` / `rd@@ambiguous`
-/
open Scryer.Drv
open Scryer.OpTable

namespace Scryer.DrvC43

def hexVal (c : Char) : Nat :=
  if '0' ≤ c ∧ c ≤ '9' then c.toNat - '0'.toNat
  else if 'a' ≤ c ∧ c ≤ 'f' then c.toNat - 'a'.toNat + 10 else 0

def unhex (s : String) : String :=
  let rec go : List Char → List Char
    | a :: b :: r => Char.ofNat (hexVal a * 16 + hexVal b) :: go r
    | _ => []
  String.ofList (go s.toList)

def hexDigit (n : Nat) : Char :=
  if n < 10 then Char.ofNat ('0'.toNat + n) else Char.ofNat ('a'.toNat + n - 10)

def hex (s : String) : String :=
  String.ofList (s.toList.flatMap fun c => [hexDigit (c.toNat / 16 % 16), hexDigit (c.toNat % 16)])

def dropFirst (s : String) : String := String.ofList (s.toList.drop 1)

def parseArg (tok : String) : Option Arg :=
  if tok = "v" then some .var
  else if tok.startsWith "i" then (parseInt? (dropFirst tok)).map .int
  else if tok.startsWith "a" then some (.atom (unhex (dropFirst tok)))
  else if tok.startsWith "o" then some (.other (unhex (dropFirst tok)))
  else none

def parseArgs : Nat → List String → Option (List Arg × List String)
  | 0, r => some ([], r)
  | n + 1, tok :: r => do
    let a ← parseArg tok
    let (as, r') ← parseArgs n r
    pure (a :: as, r')
  | _, [] => none

def parseOpArg : List String → Option (OpArg × List String)
  | "1" :: tok :: r => (parseArg tok).map fun a => (.one a, r)
  | "L" :: n :: r => do
    let k ← n.toNat?
    let (as, r') ← parseArgs k r
    match as, r' with
    | hd :: tl, t :: r'' => (parseArg t).map fun tail => (.cons hd tl tail, r'')
    | _, _ => none
  | _ => none

def quoteAtom (a : String) : String := if a = "[]" then "[]" else s!"'{a}'"

def showArg : Arg → String
  | .var => "_"
  | .int i => toString i
  | .atom a => quoteAtom a
  | .other t => t

def showErr : Option Err → String
  | none => "ok"
  | some .inst => "'instantiation_error'"
  | some (.typeInteger a) => s!"'type_error'('integer',{showArg a})"
  | some (.typeAtom a) => s!"'type_error'('atom',{showArg a})"
  | some (.typeList _) => "'type_error'('list','same')"
  | some (.domPriority i) => s!"'domain_error'('operator_priority',{i})"
  | some (.domSpecifier a) => s!"'domain_error'('operator_specifier',{quoteAtom a})"
  | some (.permModify a) => s!"'permission_error'('modify','operator',{quoteAtom a})"
  | some (.permCreate a) => s!"'permission_error'('create','operator',{quoteAtom a})"

def showTriples (l : List (Nat × Spec × String)) : String :=
  ",".intercalate (l.map fun (p, s, n) => s!"{p}:{s.toAtom}:{hex n}")

def showTable (names : List String) (t : Table) : String :=
  showTriples ((currentOp t).filter fun x => names.contains x.2.2)

/-- executable form of the invariants of `Props/C43` (used to decide whether the reader samples of
    a state are compared: they are only meaningful for tables the ISO rules can produce). -/
def invOk (t : Table) : Bool :=
  t.all fun e =>
    e.prio = 0 ||
    (e.prio ≤ 1200 && e.name ≠ "[]" && e.name ≠ "{}" &&
     (e.name ≠ "|" || (e.spec.cls = .inf && 1001 ≤ e.prio)) &&
     (e.name ≠ "," || (e.prio = 1000 && e.spec = .xfy)) &&
     (e.spec.cls ≠ .inf || prio t e.name .post = 0))

def showRTerm : RTerm → String
  | .atom a => quoteAtom a
  | .app1 f x => s!"{quoteAtom f}({showRTerm x})"
  | .app2 f x y => s!"{quoteAtom f}({showRTerm x},{showRTerm y})"

structure St where
  t : Table
  out : List String

def specOf? (s : String) : Option (Option Spec) :=
  if s = "_" then some none else (Spec.ofAtom? s).map some

/-- interpret the step tokens (fuel = number of tokens). -/
def steps (fx : Fixes) (curFixed : Bool) (names : List String) :
    Nat → List String → Table → List String → List String
  | 0, _, _, acc => acc.reverse
  | _, [], _, acc => acc.reverse
  | fuel + 1, "op" :: p :: s :: r, t, acc =>
    match parseArg p, parseArg s, parseOpArg r with
    | some P, some S, some (O, r') =>
      let c : Call := ⟨P, S, O⟩
      let f := opStepImpl fx t c
      -- the oracle: `opStep` (= ⟨true,false⟩) or, when the tree under test checks a whole list
      -- before the first update, `opStepAtomic`; ISO 8.14.3.1 allows both (Props C43_atomic_variant)
      let i := opStepImpl ⟨true, fx.atomic⟩ t c
      let tags := if f != i then ["bar"] else []
      let line := "@@".intercalate
        ["op", showErr f.2, showTable names f.1, showErr i.2, showTable names i.1,
         ",".intercalate tags, if invOk f.1 then "1" else "0"]
      steps fx curFixed names fuel r' f.1 (line :: acc)
    | _, _, _ => ("bad-op-step" :: acc).reverse
  | fuel + 1, "cur" :: pp :: ps :: pn :: r, t, acc =>
    let p? : Option (Option Nat) := if pp = "_" then some none else pp.toNat?.map some
    match p?, specOf? ps with
    | some p, some s =>
      let q : Pat := ⟨p, s, if pn = "_" then none else some (unhex pn)⟩
      let restrict := fun (l : List (Nat × Spec × String)) => l.filter fun x => names.contains x.2.2
      let line := "@@".intercalate
        ["cur", showTriples (restrict (currentOpQ curFixed t q)),
         showTriples (restrict (currentOpQ true t q))]
      steps fx curFixed names fuel r t (line :: acc)
    | _, _ => ("bad-cur-step" :: acc).reverse
  | fuel + 1, "rd" :: n :: r, t, acc =>
    match n.toNat? with
    | some k =>
      let toks := (r.take k).map unhex
      let res :=
        match readSentence t toks with
        | [] => "rd@@syntax_error"
        | [x] => s!"rd@@T={showRTerm x}"
        | _ => "rd@@ambiguous"
      steps fx curFixed names fuel (r.drop k) t (res :: acc)
    | none => ("bad-rd-step" :: acc).reverse
  | _, tok :: _, _, acc => (s!"bad-token {tok}" :: acc).reverse

def flag (s : String) (i : Nat) : Bool := (s.toList.getD i '0') == '1'

def histLine (flags names stepsTxt : String) : String :=
  let toks := words stepsTxt
  let ns := (words names).map unhex
  " ;; ".intercalate
    (steps ⟨flag flags 0, flag flags 1⟩ (flag flags 2) ns (toks.length + 1) toks defaultTable [])

end Scryer.DrvC43

def main : IO Unit := runDriver fun
  | "hist" :: _ :: flags :: names :: stepsTxt :: _ => Scryer.DrvC43.histLine flags names stepsTxt
  | "hist" :: _ :: flags :: names :: [] => Scryer.DrvC43.histLine flags names ""
  | _ => "bad-op"
