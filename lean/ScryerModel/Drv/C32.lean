import ScryerModel.Drv.Util
import ScryerModel.Model.AtomProto
/- drv_C32: the interning-protocol model (`Model/AtomProto.lean`) on the harness' cases.

   `TR <id> <initCap> <statics> <scripts> <trace>`
        replays a trace logged by the real implementation under the verification scheduler:
        `<trace>` = space separated `tid:point` (point = protocol point 0..10 the thread was
        granted at).  Each entry must find the model thread at exactly that program counter; the
        model then takes that step.  Result: `ok <n>` or `MISMATCH@<k>:t<tid>:impl=<p>:model=<p>`,
        followed by ` | ` and the final report (same syntax as the harness op `AR`).
   `RR <id> <initCap> <statics> <scripts> <nthreads>`
        round-robin completion (for the free-running mode, where only schedule-independent facts
        are compared).  Result: `done|fuel` ` | ` report.
   `<statics>`: comma separated hex texts or `.` (none);  `<scripts>`: threads separated by `|`, texts by
   `,`, each text hex (`-` = empty text, `.` = empty script).
   Report: `T0=<hex>:<atom>,…;T1=… # cap=<n>,used=<n>,vers=<n>,lock=<0|1>,tbl=<off>:<hex>,…`
   with `<atom>` = `i` (inlined) | `s` (static) | `d<offset>`, results in call order. -/
open Scryer.Drv Scryer.AtomProto

def hexVal (c : Char) : Nat :=
  if '0' ≤ c ∧ c ≤ '9' then c.toNat - '0'.toNat
  else if 'a' ≤ c ∧ c ≤ 'f' then c.toNat - 'a'.toNat + 10
  else if 'A' ≤ c ∧ c ≤ 'F' then c.toNat - 'A'.toNat + 10
  else 0

def hexBytes (s : String) : List Nat :=
  if s == "-" then [] else
  let rec go : List Char → List Nat → List Nat
    | a :: b :: r, acc => go r ((hexVal a * 16 + hexVal b) :: acc)
    | _, acc => acc.reverse
  go s.toList []

def hexDigit (n : Nat) : Char := if n < 10 then Char.ofNat (48 + n) else Char.ofNat (87 + n)

def hexOfBytes (bs : List Nat) : String :=
  if bs.isEmpty then "-" else
  String.ofList (bs.flatMap fun b => [hexDigit (b / 16 % 16), hexDigit (b % 16)])

def parseScripts (s : String) : Array (List Text) :=
  ((s.splitOn "|").map fun th =>
    if th == "." || th == "" then [] else (th.splitOn ",").map hexBytes).toArray

def parseStatics (s : String) : List Text :=
  if s == "." || s == "" then [] else (s.splitOn ",").map hexBytes

def pcNum : PC → Nat
  | .idle => 0 | .readInner => 1 | .readTable => 2 | .lookup => 3 | .lock => 4 | .recheck => 5
  | .alloc => 6 | .publishInner => 7 | .write => 8 | .publish => 9 | .unlock => 10

def atomStr : Atom → String
  | .inl _ => "i" | .stat _ => "s" | .dyn o => s!"d{o}"

def report (s : State) (n : Nat) : String :=
  let ths := (List.range n).map fun t =>
    let rs := (s.locals t).results.reverse.map fun (x, a) => s!"{hexOfBytes x}:{atomStr a}"
    s!"T{t}=" ++ ",".intercalate rs
  let b := s.sh.blk
  let tbl := s.sh.tbl.map fun o =>
    match b.textAt o with
    | some x => s!"{o}:{hexOfBytes x}"
    | none => s!"{o}:?"
  let lk := if s.sh.lock.isSome then 1 else 0
  ";".intercalate ths ++
    s!" # cap={b.cap},used={b.used},vers={s.sh.cur + 1},lock={lk},tbl=" ++ ",".intercalate tbl

def mkCfg (cap : String) (statics : String) : Cfg :=
  let st := parseStatics statics
  { initCap := cap.toNat?.getD 65536, isStatic := fun x => st.contains x }

def mkInit (cfg : Cfg) (scripts : Array (List Text)) : State :=
  init cfg (fun t => scripts.getD t [])

/-- replay: `(index, state)`, stops at the first entry whose point differs from the model's pc -/
def replay (cfg : Cfg) : Nat → List (Nat × Nat) → State → Option String × State
  | _, [], s => (none, s)
  | k, (t, p) :: r, s =>
    let mp := pcNum (s.locals t).pc
    if mp ≠ p then (some s!"MISMATCH@{k}:t{t}:impl={p}:model={mp}", s)
    else replay cfg (k + 1) r (step cfg s t)

def parseTrace (s : String) : List (Nat × Nat) :=
  (words s).filterMap fun w =>
    match w.splitOn ":" with
    | [a, b] => match a.toNat?, b.toNat? with
      | some t, some p => some (t, p)
      | _, _ => none
    | _ => none

def handleTR (cap statics scripts trace : String) : String :=
  let cfg := mkCfg cap statics
  let sc := parseScripts scripts
  let tr := parseTrace trace
  let (err, s) := replay cfg 0 tr (mkInit cfg sc)
  let head := match err with
    | some e => e
    | none => s!"ok {tr.length}"
  head ++ " | " ++ report s sc.size

def handle : List String → String
  | ["TR", _, cap, statics, scripts, trace] => handleTR cap statics scripts trace
  | ["TR", _, cap, statics, scripts] => handleTR cap statics scripts ""
  | ["RR", _, cap, statics, scripts, n] =>
    let cfg := mkCfg cap statics
    let sc := parseScripts scripts
    let nt := n.toNat?.getD sc.size
    let total := sc.foldl (fun acc l => acc + l.length) 0
    -- every call needs at most 11 steps plus retries; generous fuel
    let s := runRR cfg nt (40 * (total + 1) + 100) (mkInit cfg sc)
    let head := if (List.range nt).all (finished s) then "done" else "fuel"
    head ++ " | " ++ report s nt
  | _ => "bad-op"

def main : IO Unit := runDriver handle
