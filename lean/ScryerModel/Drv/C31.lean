import ScryerModel.Drv.Util
import ScryerModel.Model.Fault
/- drv_C31:
   `D <id> <P> <n> <total>` → the polling transition system `Scryer.Fault.prun` on the event sequence
        "n-1 ticks, raise, ticks up to <total> in all" (n = 0: no raise): prints
        `at=<iteration at which the flag was consumed, 0 = never> point=<deliveryPoint P n> delivered=<count> flag=<final flag>`.
   `S <id> <n> <j>` → `solveInj intBall` on the reference program `mk/2` with the interrupt delivered at
        label `j`; goal `catch(mk(n,L), error(E,V), true), X = done`; prints `E=<formal> L=<bound|unbound> X=<done|->`. -/
open Scryer Scryer.Drv Scryer.Solve Scryer.Fault

def mkProg31 : Prog :=
  [ ⟨.str "mk" [.int 0, .atom "[]"], .atom "true"⟩,
    ⟨.str "mk" [.var "N", .str "." [.var "N", .var "T"]],
      .str "," [.str ">" [.var "N", .int 0],
        .str "," [.str "$alloc" [.var "N"],
          .str "," [.str "is" [.var "M", .str "-" [.var "N", .int 1]], .str "mk" [.var "M", .var "T"]]]]⟩,
    ⟨.str "$alloc" [.var "_"], .atom "true"⟩ ]

def labelOracle31 (j : Int) : Oracle := fun g s =>
  match g with
  | .str "$alloc" [t] =>
      match walk 64 s.σ t with
      | some (.int i) => i == j
      | _ => false
  | _ => false

def runS31 (n : Nat) (j : Int) : String :=
  let goal := Term.str "," [.str "catch" [.str "mk" [.int n, .var "L"], errCatcher "E" "V", .atom "true"],
                            .str "=" [.var "X", .atom "done"]]
  let r := solveInj intBall (labelOracle31 j) (40 + 8 * n) mkProg31 goal ⟨[], 0⟩
  if r.oof then "oof"
  else match r.sols, r.exc with
    | [st], none =>
        let e := match resolve 200 st.σ (.var "E") with
          | some (.atom a) => a | some (.var _) => "-" | _ => "?"
        let l := match walk 200 st.σ (.var "L") with | some (.var _) => "unbound" | some _ => "bound" | none => "?"
        let x := match walk 200 st.σ (.var "X") with | some (.atom a) => a | _ => "-"
        s!"E={e} L={l} X={x}"
    | sols, some _ => s!"uncaught sols={sols.length}"
    | sols, none => s!"sols={sols.length}"

/-- run the events one by one, remembering the iteration at which the delivery count first rose -/
def simulate (P n total : Nat) : String :=
  let rec go (fuel : Nat) (i : Nat) (s : PSt) (at_ : Nat) : PSt × Nat :=
    match fuel with
    | 0 => (s, at_)
    | fuel + 1 =>
      if i > total then (s, at_)
      else
        let s1 := if n != 0 && i == n then pstep P s .raise else s
        let s2 := pstep P s1 .tick
        let at' := if at_ == 0 && s2.delivered > s1.delivered then i else at_
        go fuel (i + 1) s2 at'
  let (s, a) := go (total + 1) 1 {} 0
  s!"at={a} point={if n == 0 then 0 else deliveryPoint P n} delivered={s.delivered} flag={s.flag}"

def handle31 : List String → String
  | ["D", _, P, n, total] =>
      match P.toNat?, n.toNat?, total.toNat? with
      | some P, some n, some t => simulate P n t
      | _, _, _ => "bad-args"
  | ["S", _, n, j] =>
      match n.toNat?, parseInt? j with
      | some n, some j => runS31 n j
      | _, _ => "bad-args"
  | _ => "bad-op"

def main : IO Unit := runDriver handle31
