import ScryerModel.Drv.Util
import ScryerModel.Model.Fault
/- drv_C30 (also used by drv_C31 through `Scryer.Drv.Fault`):
   `P <id> <shape> <K> <k> <mode>` → the protocol machine `Scryer.Fault.exec` on the op trace of the
        wrapper shape (`plain`, `inner_nomatch`, `scc`, `in_findall`, `bare`) with `K` growth events
        under the plan `schedule k (mode = p)`; prints `<class> top=<heap top> frames=<open frames> caught=<n>`
        with class `ok` (no fault reached), `caught`, `uncaught`.
   `S <id> <ball> <n> <j>` → `solveInj` on the reference program `mk/2` (allocation points labelled
        `'$alloc'(I)`, I = n … 1) with the oracle striking at label `j`; goal
        `catch(mk(n,L), error(E,V), true), X = done`; prints `E=<formal> L=<bound|unbound> X=<done|->`. -/
open Scryer Scryer.Drv Scryer.Solve Scryer.Fault

namespace Scryer.Drv.Fault

def shapeTrace (shape : String) (K : Nat) : List MOp :=
  let body := (List.replicate K (MOp.alloc 10 1))
  let probe := [MOp.alloc 1 0]
  match shape with
  | "inner_nomatch" => [.enter true, .enter false] ++ body ++ [.leave, .leave] ++ probe
  | "bare" => body ++ probe
  | _ => [.enter true] ++ body ++ [.leave] ++ probe

def runP (shape : String) (K k : Nat) (persistent : Bool) : String :=
  let (s, out) := exec (schedule k persistent) (shapeTrace shape K) none {}
  let cls := match out with
    | .uncaught => "uncaught"
    | .done => if s.caught > 0 then "caught" else "ok"
  s!"{cls} top={s.len} frames={s.frames.length} caught={s.caught}"

/-- mk(0,[]).  mk(N,[N|T]) :- N > 0, '$alloc'(N), M is N-1, mk(M,T).  '$alloc'(_). -/
def mkProg : Prog :=
  [ ⟨.str "mk" [.int 0, .atom "[]"], .atom "true"⟩,
    ⟨.str "mk" [.var "N", .str "." [.var "N", .var "T"]],
      .str "," [.str ">" [.var "N", .int 0],
        .str "," [.str "$alloc" [.var "N"],
          .str "," [.str "is" [.var "M", .str "-" [.var "N", .int 1]], .str "mk" [.var "M", .var "T"]]]]⟩,
    ⟨.str "$alloc" [.var "_"], .atom "true"⟩ ]

def labelOracle (j : Int) : Oracle := fun g s =>
  match g with
  | .str "$alloc" [t] =>
      match walk 64 s.σ t with
      | some (.int i) => i == j
      | _ => false
  | _ => false

def showFormal : Option Term → String
  | some (.str f [.atom a]) => s!"{f}({a})"
  | some (.atom a) => a
  | some (.var _) => "-"
  | none => "-"
  | some _ => "?"

def runS (ball : Term) (n : Nat) (j : Int) : String :=
  let goal := Term.str "," [.str "catch" [.str "mk" [.int n, .var "L"], errCatcher "E" "V", .atom "true"],
                            .str "=" [.var "X", .atom "done"]]
  let r := solveInj ball (labelOracle j) (40 + 8 * n) mkProg goal ⟨[], 0⟩
  if r.oof then "oof"
  else match r.sols, r.exc with
    | [st], none =>
        let e := match resolve 200 st.σ (.var "E") with | some t => some t | none => none
        let l := match walk 200 st.σ (.var "L") with | some (.var _) => "unbound" | some _ => "bound" | none => "?"
        let x := match walk 200 st.σ (.var "X") with | some (.atom a) => a | _ => "-"
        s!"E={showFormal e} L={l} X={x}"
    | sols, some _ => s!"uncaught sols={sols.length}"
    | sols, none => s!"sols={sols.length}"

def handle (ball : Term) : List String → String
  | ["P", _, shape, K, k, mode] =>
      match K.toNat?, k.toNat? with
      | some K, some k => runP shape K k (mode != "o")
      | _, _ => "bad-args"
  | ["S", _, n, j] =>
      match n.toNat?, parseInt? j with
      | some n, some j => runS ball n j
      | _, _ => "bad-args"
  | _ => "bad-op"

end Scryer.Drv.Fault

def main : IO Unit := runDriver (Scryer.Drv.Fault.handle resBall)
