import ScryerModel.Drv.Util
import ScryerModel.Drv.TermIO
import ScryerModel.Model.Unify
/- drv_C10: `unify <id> <t1> <t2> <extra>` (terms in the harness' canonical syntax).
   Result: `ok <n bindings> <r(t1,t2,extra) under the computed substitution>`, `clash`,
   `cyclic`, or `parse-error`. -/
open Scryer Scryer.Drv Scryer.Unify

def unifyLine (a b e : String) : String :=
  match parseTermStr a, parseTermStr b, parseTermStr e with
  | some t1, some t2, some ex =>
      match solve [(t1, t2)] [] with
      | .ok σ => s!"ok {σ.length} {showTerm (applyS σ (.str "r" [t1, t2, ex]))}"
      | .clash => "clash"
      | .cyclic => "cyclic"
  | _, _, _ => "parse-error"

def main : IO Unit := runDriver fun
  | "unify" :: _ :: a :: b :: e :: _ => unifyLine a b e
  | _ => "bad-op"
