import ScryerModel.Model.Trail
import ScryerModel.Drv.Util
/-
drv_C11: `run <id> <ops>` — ops are space separated tokens executed on `Scryer.Trail.init`:
  nv | na | nc:<v> | ns | b:<h>:<v> | bs:<h>:<v> | rl:<h>:<v> | push | retry | trust | cut:<k>
  | put:<k>:<v> | bput:<k>:<v> | get:<k>
  | obs:<h1,h2,…>:<s1,s2,…>:<k1,k2,…>     observation (not a machine operation)
Result: one `|`-separated field per `obs`: heap cells `U`/`A`/`V<n>` (`-` if the address does not exist),
then `;`, stack cells, then `;`, `bb_get` values (`-` = no value), all comma separated; finally
` # <trail length> <heap length> <number of choice points> <inv>` for the last state.
-/
open Scryer.Drv Scryer.Trail

def nats (s : String) : List Nat := ((s.splitOn ",").filter (· ≠ "")).filterMap String.toNat?

def showCell : Option Cell → String
  | none => "-"
  | some .unbound => "U"
  | some .attr => "A"
  | some (.val v) => s!"V{v}"

def showObs (m : M) (hs ss ks : List Nat) : String :=
  ",".intercalate (hs.map fun h => showCell m.st.heap[h]?) ++ ";" ++
  ",".intercalate (ss.map fun h => showCell m.st.stack[h]?) ++ ";" ++
  ",".intercalate (ks.map fun k => match (m.st.bb k).get with | some v => toString v | none => "-")

def parseOp (t : String) : Option Op :=
  match t.splitOn ":" with
  | ["nv"] => some .newVar
  | ["na"] => some .newAttrVar
  | ["nc", v] => v.toNat?.map .newCell
  | ["ns"] => some .newStackVar
  | ["b", h, v] => match h.toNat?, v.toNat? with | some h, some v => some (.bind h v) | _, _ => none
  | ["bs", h, v] => match h.toNat?, v.toNat? with | some h, some v => some (.bindStack h v) | _, _ => none
  | ["rl", h, v] => match h.toNat?, v.toNat? with | some h, some v => some (.relink h (.val v)) | _, _ => none
  | ["push"] => some .pushChoice
  | ["retry"] => some .retry
  | ["trust"] => some .trust
  | ["cut", k] => k.toNat?.map .cut
  | ["put", k, v] => match k.toNat?, v.toNat? with | some k, some v => some (.bbPut k v) | _, _ => none
  | ["bput", k, v] => match k.toNat?, v.toNat? with | some k, some v => some (.bbBPut k v) | _, _ => none
  | ["get", k] => k.toNat?.map .bbGet
  | _ => none

def runOps (toks : List String) : String :=
  let rec go (m : M) (out : List String) : List String → Option (M × List String)
    | [] => some (m, out.reverse)
    | t :: rest =>
      match t.splitOn ":" with
      | ["obs", hs, ss, ks] => go m (showObs m (nats hs) (nats ss) (nats ks) :: out) rest
      | _ =>
        match parseOp t with
        | some o => go (step m o) out rest
        | none => none
  match go init [] toks with
  | none => "bad-op"
  | some (m, out) =>
      " | ".intercalate out ++ s!" # {m.trail.length} {m.st.heap.length} {m.cps.length}"

def main : IO Unit := runDriver fun
  | "run" :: _ :: ops :: _ => runOps (words ops)
  | _ => "bad-op"
