import ScryerModel.Drv.Util
import ScryerModel.Model.Modules
/-!
drv_C42: resolution of calls in a layout of modules.

  res <id> <spec|mirror> <modules> <queries>

`modules`: modules in load order separated by `|`; a module is space separated tokens:
`<name> <export keys, comma separated or -> <item>…` with items `c:<key>` (a clause of the
predicate) and `u:<module>:all` / `u:<module>:<k1,k2,…>` (use_module/1,2).
`queries`: space separated `<module>:<key>`. Result: one token per query, the name of the module
whose definition answers, or `none` (existence_error).
-/
open Scryer.Drv
open Scryer.Modules

namespace Scryer.ModulesDrv

def parseKeys (s : String) : Option (List Nat) :=
  if s == "-" then some [] else (s.splitOn ",").mapM String.toNat?

def parseItem (t : String) : Option Item :=
  match t.splitOn ":" with
  | ["c", k] => do some (.clause (← k.toNat?))
  | ["u", m, "all"] => do some (.use (← m.toNat?) none)
  | ["u", m, ks] => do some (.use (← m.toNat?) (some (← parseKeys ks)))
  | _ => none

def parseMod (s : String) : Option ModDecl :=
  match words s with
  | name :: exps :: items => do
    let its ← items.mapM parseItem
    some { name := ← name.toNat?, exports := ← parseKeys exps, evs := toEvs its none }
  | _ => none

def handle : List String → String
  | [_, _, mode, mods, queries] =>
    match (mods.splitOn "|").mapM parseMod with
    | none => "bad-modules"
    | some mds =>
      let t := (build (mode == "spec") mds.reverse).1
      " ".intercalate ((words queries).map fun q =>
        match q.splitOn ":" with
        | [m, k] =>
          match m.toNat?, k.toNat? with
          | some m, some k => match resolve t m k with
            | some d => toString d
            | none => "none"
          | _, _ => "bad"
        | _ => "bad")
  | _ => "bad-op"

end Scryer.ModulesDrv

def main : IO Unit := runDriver Scryer.ModulesDrv.handle
