import ScryerModel.Model.Toplevel
import ScryerModel.Drv.Util
import ScryerModel.Drv.TermIO
/-!
drv_C29 (TAB separated fields):

* `run <id> <trace> <keys>` — `<trace>`: space separated `s1` (solution, choice point left), `s0`
  (solution, none left), `F` (failure), `E` (exception); `<keys>`: the characters typed
  (`;` ` ` `n` next, `.` and `N` (newline) stop, `a` `f` `w` `p` `h`, anything else ignored; `-` = none).
  Result: the tokens of `Toplevel.transcript`, space separated: `I` indent, `A<i>` answer i
  (`W<i>` written deep), `S` separator, `X` stopped, `D` dot, `N` false, `E` error, `R` reprint, `H` help;
  then ` | ` and `sols=<n> fail=<0|1> parse=<ok|no|->` (`parse` only for an all-`;` keyboard).
* `runs <id> <keys> <trace>/<trace>/…` — consecutive queries sharing one keyboard (`?` = unknown trace,
  allowed only with an empty keyboard); results joined by ` / `.
* `ans <id> <n> <name_1> <value_1> … <name_n> <value_n> <goal>…` — values and residual goals in the
  harness' canonical term syntax over heap variables. Result: the printed goals (`Toplevel.answer`)
  joined by ` ;; `, an equation as `Name = <canonical term>`; `true` when there is none.
-/
open Scryer Scryer.Drv Scryer.Toplevel

namespace Scryer.DrvC29

def parseTrace : List String → Nat → Trace Nat Unit
  | [], _ => .fail
  | "s1" :: r, i => .sol i true (parseTrace r (i + 1))
  | "s0" :: r, i => .sol i false (parseTrace r (i + 1))
  | "E" :: _, _ => .exc ()
  | _ :: _, _ => .fail

def parseKey (c : Char) : Key :=
  if c == ';' || c == ' ' || c == 'n' then .next
  else if c == '.' || c == 'N' then .stop
  else if c == 'a' then .all
  else if c == 'f' then .five
  else if c == 'w' then .deep
  else if c == 'p' then .shallow
  else if c == 'h' then .help
  else .other

def showTok : Tok Nat Unit → String
  | .indent => "I"
  | .ans a false => s!"A{a}"
  | .ans a true => s!"W{a}"
  | .sep => "S"
  | .stopped => "X"
  | .dot => "D"
  | .no => "N"
  | .err _ => "E"
  | .reprint => "R"
  | .help => "H"

def sameTrace : Trace Nat Unit → Trace Nat Unit → Bool
  | .sol a c r, .sol a' c' r' => a == a' && c == c' && sameTrace r r'
  | .fail, .fail => true
  | .exc _, .exc _ => true
  | _, _ => false

def runLine (trace keys : String) : String :=
  let t := parseTrace (words trace) 0
  let ks := if keys = "-" then [] else keys.toList.map parseKey
  let out := transcript t ks
  let allNext := ks.all (· == .next)
  let p := if allNext then
      (match parse out with
       | some t' => if sameTrace t' t.canon then "ok" else "no"
       | none => "no")
    else "-"
  " ".intercalate (out.map showTok) ++ s!" | sols={t.sols.length} fail={if t.endsFail then 1 else 0} parse={p}"

def runOne (t : Trace Nat Unit) (ks : List Key) : String :=
  let out := transcript t ks
  let allNext := ks.all (· == .next)
  let p := if allNext then
      (match parse out with
       | some t' => if sameTrace t' t.canon then "ok" else "no"
       | none => "no")
    else "-"
  " ".intercalate (out.map showTok) ++ s!" | sols={t.sols.length} fail={if t.endsFail then 1 else 0} parse={p}"

/-- consecutive queries sharing one keyboard. -/
def runsLine (keys traces : String) : String :=
  let ks := if keys = "-" then [] else keys.toList.map parseKey
  let rec go : List String → List Key → List String
    | [], _ => []
    | tr :: rest, ks =>
        if tr = "?" then "?" :: go rest ks
        else
          let t := parseTrace (words tr) 0
          runOne t ks :: go rest (keysLeft t {} ks)
  " / ".intercalate (go (traces.splitOn "/") ks)

def showGoal : Goal → String
  | .eq n r => n ++ " = " ++ showTerm r
  | .goal g => showTerm g

def pairs : Nat → List String → Option (VarList × List String)
  | 0, r => some ([], r)
  | n + 1, name :: v :: r =>
      match parseTermStr v, pairs n r with
      | some t, some (vl, r') => some ((name, t) :: vl, r')
      | _, _ => none
  | _, _ => none

def ansLine (n : String) (rest : List String) : String :=
  match n.toNat? with
  | none => "bad-n"
  | some k =>
    match pairs k rest with
    | none => "bad-pairs"
    | some (vl, gs) =>
      match gs.mapM parseTermStr with
      | none => "bad-goals"
      | some goals =>
        let out := answer vl goals
        if out.isEmpty then "true" else " ;; ".intercalate (out.map showGoal)

end Scryer.DrvC29

def main : IO Unit := runDriver fun
  | "run" :: _ :: trace :: keys :: _ => Scryer.DrvC29.runLine trace keys
  | "runs" :: _ :: keys :: traces :: _ => Scryer.DrvC29.runsLine keys traces
  | "ans" :: _ :: n :: rest => Scryer.DrvC29.ansLine n rest
  | _ => "bad-op"
