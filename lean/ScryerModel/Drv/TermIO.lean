import ScryerModel.Model.Term
import ScryerModel.Drv.Util
/-
Reader and printer for the harness' canonical term syntax (harness/src/canon.rs):
  123  -5  r(N,D)  f(<16 hex>)  'atom'  "string"  [a,b]  '.'(h,t)  'f'(a,b)  Var  _G0
Escapes inside quotes: \\  \'  \"  \xHH\ .
Driver-only code (not subject of theorems): `partial` is fine here.
-/
namespace Scryer.Drv
open Scryer

def hexVal? (c : Char) : Option Nat :=
  if '0' ≤ c ∧ c ≤ '9' then some (c.toNat - '0'.toNat)
  else if 'a' ≤ c ∧ c ≤ 'f' then some (c.toNat - 'a'.toNat + 10)
  else if 'A' ≤ c ∧ c ≤ 'F' then some (c.toNat - 'A'.toNat + 10)
  else none

def parseHex? (cs : List Char) : Option Nat :=
  if cs.isEmpty then none else
  cs.foldl (fun acc c => match acc, hexVal? c with
    | some a, some d => some (a * 16 + d)
    | _, _ => none) (some 0)

/-- reads a quoted item body up to the closing quote `q`; returns text and rest. -/
partial def readQuoted (q : Char) : List Char → List Char → Option (List Char × List Char)
  | [], _ => none
  | '\\' :: '\\' :: r, acc => readQuoted q r ('\\' :: acc)
  | '\\' :: 'x' :: r, acc =>
      let hex := r.takeWhile (· ≠ '\\')
      match parseHex? hex with
      | some n => readQuoted q (r.drop (hex.length + 1)) (Char.ofNat n :: acc)
      | none => none
  | '\\' :: c :: r, acc => readQuoted q r (c :: acc)
  | c :: r, acc => if c == q then some (acc.reverse, r) else readQuoted q r (c :: acc)

def isDigit (c : Char) : Bool := '0' ≤ c && c ≤ '9'
def isIdent (c : Char) : Bool := c.isAlphanum || c == '_'

mutual
partial def parseTerm : List Char → Option (Term × List Char)
  | [] => none
  | '\'' :: r =>
      match readQuoted '\'' r [] with
      | none => none
      | some (name, '(' :: r2) =>
          match parseArgs r2 [] with
          | some (args, r3) => some (.str (String.ofList name) args, r3)
          | none => none
      | some (name, r2) => some (.atom (String.ofList name), r2)
  | '"' :: r =>
      match readQuoted '"' r [] with
      | none => none
      | some (cs, r2) => some (Term.ofChars cs, r2)
  | '[' :: ']' :: r => some (Term.nil, r)
  | '[' :: r =>
      match parseArgsUntil ']' r [] with
      | some (xs, r2) => some (Term.ofList xs, r2)
      | none => none
  | 'r' :: '(' :: r =>
      let n := r.takeWhile (· ≠ ',')
      let r2 := r.drop (n.length + 1)
      let d := r2.takeWhile (· ≠ ')')
      match parseInt? (String.ofList n), (String.ofList d).toNat? with
      | some nn, some dd => some (.rat nn dd, r2.drop (d.length + 1))
      | _, _ => none
  | 'f' :: '(' :: r =>
      let h := r.takeWhile (· ≠ ')')
      match parseHex? h with
      | some b => some (.flt b, r.drop (h.length + 1))
      | none => none
  | c :: r =>
      if isDigit c || c == '-' then
        let ds := r.takeWhile isDigit
        match parseInt? (String.ofList (c :: ds)) with
        | some v => some (.int v, r.drop ds.length)
        | none => none
      else if isIdent c then
        let ds := r.takeWhile isIdent
        some (.var (String.ofList (c :: ds)), r.drop ds.length)
      else none

partial def parseArgs (cs : List Char) (acc : List Term) : Option (List Term × List Char) :=
  parseArgsUntil ')' cs acc

partial def parseArgsUntil (close : Char) (cs : List Char) (acc : List Term) :
    Option (List Term × List Char) :=
  match parseTerm cs with
  | none => none
  | some (t, ',' :: r) => parseArgsUntil close r (t :: acc)
  | some (t, c :: r) => if c == close then some ((t :: acc).reverse, r) else none
  | some (_, []) => none
end

def parseTermStr (s : String) : Option Term :=
  match parseTerm s.toList with
  | some (t, []) => some t
  | _ => none

def hexDigit (n : Nat) : Char :=
  if n < 10 then Char.ofNat ('0'.toNat + n) else Char.ofNat ('a'.toNat + n - 10)

def toHex (n : Nat) (width : Nat) : String :=
  let rec go : Nat → Nat → List Char → List Char
    | 0, _, acc => acc
    | w+1, n, acc => go w (n / 16) (hexDigit (n % 16) :: acc)
  String.ofList (go width n [])

partial def hexOf (n : Nat) : String :=
  if n < 16 then String.singleton (hexDigit n) else hexOf (n / 16) ++ String.singleton (hexDigit (n % 16))

def escQ (q : Char) (s : List Char) : String :=
  String.ofList (s.flatMap fun c =>
    if c == '\\' then ['\\', '\\']
    else if c == q then ['\\', c]
    else if c.toNat < 0x20 || c.toNat == 0x7f then
      ['\\', 'x'] ++ (hexOf c.toNat).toList ++ ['\\']
    else [c])

/-- is the term a proper list of one-char atoms (non-empty)? returns the chars. -/
partial def asString? : Term → Option (List Char)
  | .str "." [.atom a, t] =>
      match a.toList with
      | [c] =>
          (match t with
           | .atom "[]" => some [c]
           | _ => (asString? t).map (c :: ·))
      | _ => none
  | _ => none

partial def asProperList? : Term → Option (List Term)
  | .atom "[]" => some []
  | .str "." [h, t] => (asProperList? t).map (h :: ·)
  | _ => none

partial def showTerm : Term → String
  | .var n => n
  | .int v => toString v
  | .rat n d => s!"r({n},{d})"
  | .flt b => s!"f({toHex b 16})"
  | .atom "[]" => "[]"
  | .atom a => "'" ++ escQ '\'' a.toList ++ "'"
  | t@(.str f args) =>
      match asString? t with
      | some cs => "\"" ++ escQ '"' cs ++ "\""
      | none =>
        match asProperList? t with
        | some xs => "[" ++ ",".intercalate (xs.map showTerm) ++ "]"
        | none => "'" ++ escQ '\'' f.toList ++ "'(" ++ ",".intercalate (args.map showTerm) ++ ")"

end Scryer.Drv
