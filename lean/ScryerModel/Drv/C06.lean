import ScryerModel.Model.Index
import ScryerModel.Drv.Util
/-!
drv_C06: one predicate history per line (TAB separated fields)

`sel <id> <mode> <heads> <ops> <calls>`
* mode: `s` consulted static code, `d` dynamic predicate (initial clauses compiled as
  extensible code), each optionally followed by `o` = use the routing before the repair
  (arena numbers looked up in the constant table by address);
* heads / calls: space separated; each is a comma separated list of argument tokens; `-` for
  an empty field.
  head argument: `v` | `a:<name>` | `i:<int>` | `f:<bits>` | `B:<addr>:<int>` |
                 `R:<addr>:<num>:<den>` | `l` | `s:<name>:<arity>`
  call argument: `v` | `a:<name>` | `i:<int>` | `f:<bits>` | `N:<addr>:<num>:<den>` | `l` |
                 `s:<name>:<arity>`
* ops: space separated `z=<head>` (assertz), `a=<head>` (asserta), `r=<clause id>` (retract).
Result: for each call the clause identifiers tried, in order, joined by `,` (`-` if none);
calls separated by a space.  Identifiers: initial clauses 0..n-1, then one per assert.
-/
open Scryer.Drv
open Scryer.Index

namespace Scryer.DrvC06

def parseHeadArg (tok : String) : Option FirstArg :=
  match tok.splitOn ":" with
  | ["v"] => some .var
  | ["l"] => some .list
  | ["a", n] => some (.const (.atom n))
  | ["i", n] => (parseInt? n).map fun i => .const (.fix i)
  | ["f", b] => b.toNat?.map fun i => .const (.flt i)
  | ["B", a, n] => do let a ← a.toNat?; let n ← parseInt? n; pure (.const (.big a n))
  | ["R", a, n, d] => do
    let a ← a.toNat?; let n ← parseInt? n; let d ← d.toNat?; pure (.const (.rat a n d))
  | ["s", n, ar] => ar.toNat?.map fun k => .struct n k
  | _ => none

def parseCallArg (tok : String) : Option CallArg :=
  match tok.splitOn ":" with
  | ["v"] => some .var
  | ["l"] => some .list
  | ["a", n] => some (.atom n)
  | ["i", n] => (parseInt? n).map .fix
  | ["f", b] => b.toNat?.map .flt
  | ["N", a, n, d] => do
    let a ← a.toNat?; let n ← parseInt? n; let d ← d.toNat?; pure (.arenaNum a n d)
  | ["s", n, ar] => ar.toNat?.map fun k => .struct n k
  | _ => none

def parseList {α} (f : String → Option α) (s : String) : Option (List α) :=
  (s.splitOn ",").mapM f

def parseHead (s : String) : Option Head := parseList parseHeadArg s
def parseCall (s : String) : Option Call := parseList parseCallArg s

def field (s : String) : List String := if s = "-" then [] else words s

inductive Op where
  | z (h : Head) | a (h : Head) | r (id : Nat)

def parseOp (s : String) : Option Op :=
  match s.splitOn "=" with
  | ["z", h] => (parseHead h).map .z
  | ["a", h] => (parseHead h).map .a
  | ["r", i] => i.toNat?.map .r
  | _ => none

def applyOp (idx : Index) : Op → Index
  | .z h => addBack idx h
  | .a h => addFront idx h
  | .r i => remove idx i

def showIds (l : List Nat) : String :=
  if l.isEmpty then "-" else ",".intercalate (l.map toString)

def selLine (mode heads ops calls : String) : String :=
  match (field heads).mapM parseHead, (field ops).mapM parseOp, (field calls).mapM parseCall with
  | some hs, some os, some cs =>
    let ext := mode.startsWith "d"
    let old := mode.endsWith "o"
    let idx := os.foldl applyOp (build ext hs)
    " ".intercalate (cs.map fun c => showIds (idx.selectWith old c))
  | _, _, _ => "bad-input"

end Scryer.DrvC06

open Scryer.DrvC06 in
def main : IO Unit := runDriver fun
  | "sel" :: _ :: mode :: heads :: ops :: calls :: _ => selLine mode heads ops calls
  | _ => "bad-op"
