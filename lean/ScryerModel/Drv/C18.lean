import ScryerModel.Drv.Util
import ScryerModel.Drv.TermIO
import ScryerModel.Model.CharReader
/- drv_C18:
   `CR <id> <chunk hex, comma separated> <script p/r/b>` → the CharReader mechanism model
   `U8 <id> <hex bytes>` → the specification `decodeAll` -/
open Scryer.Drv Scryer.Utf8 Scryer.CharReader

def hexBytes (s : String) : List Nat :=
  let rec go : List Char → List Nat → List Nat
    | a :: b :: r, acc => go r ((((hexVal? a).getD 0) * 16 + ((hexVal? b).getD 0)) :: acc)
    | _, acc => acc.reverse
  go s.toList []

def hex2 (n : Nat) : String := toHex n 2
def hexOfBytes (bs : List Nat) : String := String.join (bs.map hex2)

def showOut : Out → String
  | .char cp => "c" ++ hexOf cp
  | .bad bs => "x" ++ hexOfBytes bs
  | .eof => "."
  | .panic => "PANIC"

def showItem : Item → String
  | .char cp => "c" ++ hexOf cp
  | .bad bs => "x" ++ hexOfBytes bs

def runScript (chunks : List (List Nat)) (script : List Char) : String :=
  let rec go : List Char → St → Option Nat → List String → List String
    | [], _, _, acc => acc.reverse
    | 'p' :: r, s, last, acc =>
        let (s', o) := peekChar s
        if o == .panic then ("PANIC" :: acc).reverse else go r s' last (("p:" ++ showOut o) :: acc)
    | 'r' :: r, s, _, acc =>
        let (s', o) := readItem s
        if o == .panic then ("PANIC" :: acc).reverse else
        let last := match o with | .char cp => some cp | _ => none
        go r s' last (("r:" ++ showOut o) :: acc)
    | 'b' :: r, s, last, acc =>
        match last with
        | some cp => go r (putBack s cp) none ("b:ok" :: acc)
        | none => go r s none ("b:none" :: acc)
    | _ :: r, s, last, acc => go r s last acc
  let out := go script (init chunks) none []
  if out.contains "PANIC" then "PANIC" else " ".intercalate out

def runSpec (bytes : List Nat) (script : List Char) : String :=
  let rec go : List Char → List Nat → Option Nat → List String → List String
    | [], _, _, acc => acc.reverse
    | 'p' :: r, l, last, acc => go r l last (("p:" ++ showOut (specPeek l)) :: acc)
    | 'r' :: r, l, _, acc =>
        let (l', o) := specRead l
        let last := match o with | .char cp => some cp | _ => none
        go r l' last (("r:" ++ showOut o) :: acc)
    | 'b' :: r, l, last, acc =>
        match last with
        | some cp => go r (specPutBack l cp) none ("b:ok" :: acc)
        | none => go r l none ("b:none" :: acc)
    | _ :: r, l, last, acc => go r l last acc
  " ".intercalate (go script bytes none [])

def main : IO Unit := runDriver fun
  | "CR" :: _ :: chunks :: script :: _ =>
      let cs := if chunks.isEmpty then [] else (chunks.splitOn ",").map hexBytes
      runScript cs script.toList
  | "CR" :: _ :: chunks :: [] =>
      let cs := if chunks.isEmpty then [] else (chunks.splitOn ",").map hexBytes
      runScript cs []
  | "SP" :: _ :: hex :: script :: _ => runSpec (hexBytes hex) script.toList
  | "U8" :: _ :: hex :: _ => " ".intercalate ((decodeAll (hexBytes hex)).map showItem)
  | "U8" :: _ :: [] => ""
  | _ => "bad-op"
