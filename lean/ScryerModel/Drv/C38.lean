import ScryerModel.Drv.Util
import ScryerModel.Drv.TermIO
import ScryerModel.Model.Lfp
import ScryerModel.Model.Delim
/- drv_C38:
   `lfp <id> <D> <program> <queries>` (part B; space-separated tokens)
     D        = constants (naturals)
     program  = <nrules> { <nbody> <atom>{1+nbody} }      (head first)
     atom     = <pred> <arity> <arg>{arity}, arg = c<n> | v<n>
     queries  = <nq> <atom>{nq}
   result: `n=<|lfp|> r=<rounds> | <answers of q1> | …`; answers = `none`, or assignments joined by
   `;`, each `v0=3,v1=2` (`yes` for the empty assignment). -/
open Scryer.Drv
open Scryer.Lfp

namespace Scryer.DrvC38

def parseArg (s : String) : Option Arg :=
  if s.startsWith "c" then (s.drop 1).toNat?.map Arg.const
  else if s.startsWith "v" then (s.drop 1).toNat?.map Arg.var
  else none

def takeArgs : Nat → List String → Option (List Arg × List String)
  | 0, ts => some ([], ts)
  | n+1, t :: ts => do
      let a ← parseArg t
      let (as, rest) ← takeArgs n ts
      pure (a :: as, rest)
  | _+1, [] => none

def parseAtom : List String → Option (Atom × List String)
  | p :: k :: rest => do
      let p ← p.toNat?
      let k ← k.toNat?
      let (as, rest) ← takeArgs k rest
      pure (⟨p, as⟩, rest)
  | _ => none

def parseAtoms : Nat → List String → Option (List Atom × List String)
  | 0, ts => some ([], ts)
  | n+1, ts => do
      let (a, rest) ← parseAtom ts
      let (as, rest) ← parseAtoms n rest
      pure (a :: as, rest)

def parseRules : Nat → List String → Option (List Rule × List String)
  | 0, ts => some ([], ts)
  | n+1, nb :: ts => do
      let nb ← nb.toNat?
      let (h, rest) ← parseAtom ts
      let (b, rest) ← parseAtoms nb rest
      let (rs, rest) ← parseRules n rest
      pure (⟨h, b⟩ :: rs, rest)
  | _+1, [] => none

def parseProgram : List String → Option Program
  | n :: ts => do
      let n ← n.toNat?
      let (rs, rest) ← parseRules n ts
      if rest.isEmpty then pure rs else none
  | [] => none

def parseQueries : List String → Option (List Atom)
  | n :: ts => do
      let n ← n.toNat?
      let (qs, rest) ← parseAtoms n ts
      if rest.isEmpty then pure qs else none
  | [] => none

def showAsg (l : Asg) : String :=
  if l.isEmpty then "yes" else ",".intercalate (l.map fun (v, d) => s!"v{v}={d}")

def showAnswers (as : List Asg) : String :=
  if as.isEmpty then "none" else ";".intercalate (as.map showAsg)

def lfpLine (d prog qs : String) : String :=
  match (words d).mapM (·.toNat?), parseProgram (words prog), parseQueries (words qs) with
  | some D, some P, some Q =>
      let L := lfp P D
      let r := roundsAux P D (base P D).length [] 0
      let hdr := s!"n={L.length} r={r}"
      " | ".intercalate (hdr :: Q.map fun q => showAnswers (answersIn L D q))
  | _, _, _ => "bad-input"

/-! part A -/
open Scryer Scryer.Solve Scryer.Delim in
def delimLine (steps prog query vars : String) : String :=
  let cls := ((unescape prog).splitOn "\n").filter (· ≠ "")
  match steps.toNat?, cls.mapM parseTermStr, parseTermStr query with
  | some n, some ts, some q =>
      let P : Prog := ts.map fun t =>
        match t with
        | .str ":-" [h, b] => ⟨h, b⟩
        | t => ⟨t, .atom "true"⟩
      let tf := 100000
      match run tf P n ⟨[.goal q], ⟨[], 0⟩⟩ with
      | .success st =>
          let bs := (words vars).map fun v =>
            match resolve tf st.σ (.var v) with
            | some t => s!"{v}={showTerm t}"
            | none => s!"{v}=?"
          " ".intercalate ("success" :: bs)
      | .failure => "failure"
      | .error f => "error " ++ showTerm f
      | .oom => "oom"
      | .timeout => "timeout"
  | _, _, _ => "bad-input"

end Scryer.DrvC38

def main : IO Unit := runDriver fun
  | "lfp" :: _ :: d :: prog :: qs :: _ => Scryer.DrvC38.lfpLine d prog qs
  | "delim" :: _ :: steps :: prog :: query :: vars :: _ => Scryer.DrvC38.delimLine steps prog query vars
  | "delim" :: _ :: steps :: prog :: query :: [] => Scryer.DrvC38.delimLine steps prog query ""
  | _ => "bad-op"
