import ScryerModel.Drv.Util
import ScryerModel.Model.Flags
/-!
drv_C44: runs a history of flag reads/writes/probes on the flag model.

  hist <id> <variant> <steps>

`variant` = `fixed` (corrected clauses, the subject of the theorems), `pinned` (clauses of the
pinned commit) or `spec` (the table specification). `steps` are space separated tokens, steps
separated by `;`:
  G <term> <term>     current_prolog_flag(F, V)
  S <term> <term>     set_prolog_flag(F, V)
  PDQ <letters>       read the double-quoted text <letters>
  POC                 X = f(X)
  PUNK                call an undefined procedure
Terms are prefix: `v<n>` variable, `a:<name>` atom, `i:<int>`, `x:<16 hex>` float,
`c1:<f> T`, `c2:<f> T T`, `L<n> T…` proper list, `P<n> T… T` partial list (n ≥ 1) with tail.
Result: one text per step joined by ` ## `, in the harness' canonical answer syntax.
-/
open Scryer.Drv
open Scryer.Flags

namespace Scryer.FlagsDrv

def dropS (s : String) (n : Nat) : String := String.ofList (s.toList.drop n)

def parseTerm : Nat → List String → Option (Term × List String)
  | 0, _ => none
  | _, [] => none
  | fuel + 1, tok :: rest =>
    let parseN (n : Nat) (rest : List String) : Option (List Term × List String) :=
      (List.range n).foldlM (fun (acc : List Term × List String) _ =>
        match parseTerm fuel acc.2 with
        | some (t, r) => some (acc.1 ++ [t], r)
        | none => none) ([], rest)
    if tok.startsWith "v" then (dropS tok 1).toNat?.map fun n => (Term.var n, rest)
    else if tok.startsWith "a:" then some (Term.atom (dropS tok 2), rest)
    else if tok.startsWith "i:" then (parseInt? (dropS tok 2)).map fun i => (Term.int i, rest)
    else if tok.startsWith "x:" then some (Term.flt (dropS tok 2), rest)
    else if tok.startsWith "c1:" then
      match parseTerm fuel rest with
      | some (a, r) => some (Term.c1 (dropS tok 3) a, r)
      | none => none
    else if tok.startsWith "c2:" then
      match parseTerm fuel rest with
      | some (a, r) =>
        match parseTerm fuel r with
        | some (b, r') => some (Term.c2 (dropS tok 3) a b, r')
        | none => none
      | none => none
    else if tok.startsWith "L" then
      match (dropS tok 1).toNat? with
      | some n => (parseN n rest).map fun (ts, r) => (mkList ts, r)
      | none => none
    else if tok.startsWith "P" then
      match (dropS tok 1).toNat? with
      | some n =>
        match parseN n rest with
        | some (ts, r) =>
          match parseTerm fuel r with
          | some (tl, r') => some (ts.foldr cons tl, r')
          | none => none
        | none => none
      | none => none
    else none

def isOneCharAtom : Term → Bool
  | .atom s => s.length == 1
  | _ => false

partial def showTerm : Term → String
  | .var n => s!"_G{n}"
  | .atom s => if s = "[]" then "[]" else s!"'{s}'"
  | .int i => toString i
  | .flt b => s!"f({b})"
  | .c1 f a => s!"'{f}'({showTerm a})"
  | .c2 f a b =>
    if f = "." then
      let (es, tl) := listView (.c2 f a b)
      if tl = nil then
        if es.all isOneCharAtom then
          "\"" ++ String.join (es.map fun | .atom s => s | _ => "") ++ "\""
        else "[" ++ ",".intercalate (es.map showTerm) ++ "]"
      else s!"'.'({showTerm a},{showTerm b})"
    else s!"'{f}'({showTerm a},{showTerm b})"

/-- one answer as the harness prints it: bindings of the query variables F, V that got bound. -/
def showAnswer (f0 v0 : Term) (a : Args) : String :=
  let bs := (if f0.isVar && !a.f.isVar then ["F=" ++ showTerm a.f] else []) ++
            (if v0.isVar && !a.v.isVar then ["V=" ++ showTerm a.v] else [])
  if bs.isEmpty then "true" else "{" ++ ",".intercalate bs ++ "}"

def showOutcome (f0 v0 : Term) (o : Outcome) : String :=
  let as := o.answers.map (showAnswer f0 v0)
  let es := match o.err with
    | some e => ["{E=" ++ showTerm e ++ "}"]
    | none => []
  if as.isEmpty && es.isEmpty then "false" else " ;; ".intercalate (as ++ es)

inductive Variant | fixed | pinned | spec

def Variant.get : Variant → Term → Term → St → Outcome
  | .fixed, f, v, st => solve cpfFixed ⟨f, v⟩ st
  | .pinned, f, v, st => solve cpfPinned ⟨f, v⟩ st
  | .spec, f, v, st => specGet f v st
def Variant.set : Variant → Term → Term → St → Outcome
  | .fixed, f, v, st => solve spfFixed ⟨f, v⟩ st
  | .pinned, f, v, st => solve spfPinned ⟨f, v⟩ st
  | .spec, f, v, st => specSet f v st

def twoTerms (toks : List String) : Option (Term × Term) :=
  match parseTerm (toks.length + 1) toks with
  | some (f, r) =>
    match parseTerm (r.length + 1) r with
    | some (v, []) => some (f, v)
    | _ => none
  | none => none

/-- runs one step; returns the text and the new state. -/
def runStep (var : Variant) (toks : List String) (st : St) : String × St :=
  match toks with
  | "G" :: rest =>
    match twoTerms rest with
    | some (f, v) => let o := var.get f v st; (showOutcome f v o, o.st)
    | none => ("bad-step", st)
  | "S" :: rest =>
    match twoTerms rest with
    | some (f, v) => let o := var.set f v st; (showOutcome f v o, o.st)
    | none => ("bad-step", st)
  | ["PDQ", letters] => ("{X=" ++ showTerm (readDoubleQuoted st letters.toList) ++ "}", st)
  | ["POC"] =>
    (match unifyCyclic st with | .succeeds => "succeeds" | .fails => "fails" | .raises => "raises", st)
  | ["PUNK"] =>
    (match callUndefined st with
      | .existenceError => "existence_error" | .failsSilently => "fails"
      | .failsWithWarning => "fails_warning", st)
  | _ => ("bad-step", st)

def splitSteps (toks : List String) : List (List String) :=
  let rec go : List String → List String → List (List String) → List (List String)
    | [], cur, acc => (if cur.isEmpty then acc else cur.reverse :: acc).reverse
    | t :: ts, cur, acc => if t = ";" then go ts [] (cur.reverse :: acc) else go ts (t :: cur) acc
  go toks [] []

def histLine (variant steps : String) : String :=
  let var? : Option Variant := match variant with
    | "fixed" => some .fixed | "pinned" => some .pinned | "spec" => some .spec | _ => none
  match var? with
  | none => "bad-variant"
  | some var =>
    let (outs, _) := (splitSteps (words steps)).foldl
      (fun (acc : List String × St) s => let (t, st') := runStep var s acc.2; (t :: acc.1, st'))
      ([], St.init)
    " ## ".intercalate outs.reverse

end Scryer.FlagsDrv

def main : IO Unit := runDriver fun
  | "hist" :: _ :: variant :: steps :: _ => Scryer.FlagsDrv.histLine variant steps
  | _ => "bad-op"
