import ScryerModel.Drv.Util
import ScryerModel.Model.UGraph
/-! drv_C53: `<op>\t<id>\t<tokens>` where tokens are space-separated naturals.
  list   ::= k x1 … xk
  edges  ::= k a1 b1 … ak bk
  graph  ::= n (v k n1 … nk){n}
Results are printed in the harness' canonical term syntax (`'-'(1,[2,3])`), failure as `false`. -/
open Scryer.Drv Scryer.UGraph

namespace Scryer.UGraph.Drv

def takeN : Nat → List Nat → Option (List Nat × List Nat)
  | 0, r => some ([], r)
  | _ + 1, [] => none
  | k + 1, x :: r => (takeN k r).map fun (l, r') => (x :: l, r')

def pList : List Nat → Option (List Nat × List Nat)
  | [] => none
  | k :: r => takeN k r

def pairUp : List Nat → List (Nat × Nat)
  | a :: b :: r => (a, b) :: pairUp r
  | _ => []

def pEdges : List Nat → Option (List (Nat × Nat) × List Nat)
  | [] => none
  | k :: r => (takeN (2 * k) r).map fun (l, r') => (pairUp l, r')

def pEntries : Nat → List Nat → Option (Graph × List Nat)
  | 0, r => some ([], r)
  | _ + 1, [] => none
  | n + 1, v :: r =>
    match pList r with
    | none => none
    | some (ns, r') => (pEntries n r').map fun (g, r'') => ((v, ns) :: g, r'')

def pGraph : List Nat → Option (Graph × List Nat)
  | [] => none
  | n :: r => pEntries n r

def showList (l : List Nat) : String := "[" ++ ",".intercalate (l.map toString) ++ "]"
def showGraph (g : Graph) : String :=
  "[" ++ ",".intercalate (g.map fun (v, ns) => s!"'-'({v},{showList ns})") ++ "]"
def showEdges (es : List (Nat × Nat)) : String :=
  "[" ++ ",".intercalate (es.map fun (a, b) => s!"'-'({a},{b})") ++ "]"
def showOpt {α} (f : α → String) : Option α → String
  | none => "false"
  | some x => f x

def toks (s : String) : Option (List Nat) := (words s).mapM String.toNat?

def handle (op : String) (t : List Nat) : Option String :=
  match op with
  | "vetu" => do let (vs, r) ← pList t; let (es, _) ← pEdges r; pure (showGraph (verticesEdgesToUgraph vs es))
  | "vertices" => do let (g, _) ← pGraph t; pure (showList (vertices g))
  | "edges" => do let (g, _) ← pGraph t; pure (showEdges (edges g))
  | "addv" => do let (g, r) ← pGraph t; let (vs, _) ← pList r; pure (showGraph (addVertices g vs))
  | "addvfix" => do let (g, r) ← pGraph t; let (vs, _) ← pList r; pure (showGraph (addVerticesFixed g vs))
  | "delv" => do let (g, r) ← pGraph t; let (vs, _) ← pList r; pure (showGraph (delVertices g vs))
  | "delvfix" => do let (g, r) ← pGraph t; let (vs, _) ← pList r; pure (showGraph (delVerticesFixed g vs))
  | "adde" => do let (g, r) ← pGraph t; let (es, _) ← pEdges r; pure (showGraph (addEdges g es))
  | "dele" => do let (g, r) ← pGraph t; let (es, _) ← pEdges r; pure (showGraph (delEdges g es))
  | "transpose" => do let (g, _) ← pGraph t; pure (showGraph (transposeUgraph g))
  | "nbrs" => do let (v, r) ← pList t; let (g, _) ← pGraph r; pure (showOpt showList (neighbours (v.headD 0) g))
  | "compose" => do let (g1, r) ← pGraph t; let (g2, _) ← pGraph r; pure (showGraph (compose g1 g2))
  | "union" => do let (g1, r) ← pGraph t; let (g2, _) ← pGraph r; pure (showGraph (ugraphUnion g1 g2))
  | "complement" => do let (g, _) ← pGraph t; pure (showGraph (complement g))
  | "closure" => do let (g, _) ← pGraph t; pure (showOpt showGraph (transitiveClosure g))
  | "reachable" => do let (v, r) ← pList t; let (g, _) ← pGraph r; pure (showOpt showList (reachable (v.headD 0) g))
  | "topsort" => do let (g, _) ← pGraph t; pure (showOpt showList (topSort g))
  | _ => none

end Scryer.UGraph.Drv

def main : IO Unit := runDriver fun
  | op :: _ :: args :: _ =>
    match Scryer.UGraph.Drv.toks args with
    | none => "bad-args"
    | some t => (Scryer.UGraph.Drv.handle op t).getD "bad-op"
  | _ => "bad-op"
