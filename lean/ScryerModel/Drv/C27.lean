import ScryerModel.Drv.Util
import ScryerModel.Model.Fd
/- drv_C27: reference clp(Z) solver.
   Input syntax: space separated prefix S-expressions.
     Dom   ::= ( s N ) | ( r L H ) | ( u Dom Dom )
     Expr  ::= ( v I ) | N | ( neg E ) | ( abs E ) | ( sign E ) | ( <binop> E E )
     Form  ::= ( b I ) | ( k 0|1 ) | ( rel <rel> E E ) | ( in I Dom ) | ( not F ) | ( <conn> F F )
     Con   ::= ( form F ) | ( alldiff E* ) | ( sum <rel> ( E* ) E ) | ( scalar <rel> ( N* ) ( E* ) E )
             | ( tuples ( ( E* )* ) ( ( N* )* ) ) | ( element E ( E* ) E )
     Sys   ::= ( sys ( Dom* ) ( Con* ) )
   Ops:
     solve  <id> <sel> <ord> <choice> <Sys>   -> `n=<count> <a,b,c;a,b,c;…>` in the order of the strategy
                                                 (sel ∈ leftmost ff min max; ord ∈ up down; choice ∈ ref step bisect;
                                                  `ref` = the reference enumeration `solutions`/`solutionsDown`)
     dom    <id> <Dom>                         -> elements `a,b,c`
     inter  <id> <Dom> <Dom>                   -> elements of the intersection
     ground <id> <Con>                         -> `true` | `false` (sat under the empty assignment)
     eval   <id> <Expr>                        -> `ok N` | `undefined`
-/
open Scryer.Drv
open Scryer.Fd

inductive Sx where
  | atom (s : String)
  | list (l : List Sx)

partial def parseSx : List String → Option (Sx × List String)
  | [] => none
  | "(" :: rest =>
      let rec items (acc : List Sx) : List String → Option (List Sx × List String)
        | [] => none
        | ")" :: r => some (acc.reverse, r)
        | toks =>
            match parseSx toks with
            | some (x, r) => items (x :: acc) r
            | none => none
      match items [] rest with
      | some (l, r) => some (.list l, r)
      | none => none
  | ")" :: _ => none
  | t :: rest => some (.atom t, rest)

def parseAll (s : String) : Option (List Sx) :=
  let rec go (fuel : Nat) (toks : List String) (acc : List Sx) : Option (List Sx) :=
    match fuel, toks with
    | _, [] => some acc.reverse
    | 0, _ => none
    | f+1, toks =>
        match parseSx toks with
        | some (x, r) => go f r (x :: acc)
        | none => none
  let toks := words s
  go (toks.length + 1) toks []

def sxInt : Sx → Option Int
  | .atom s => parseInt? s
  | _ => none

def sxNat : Sx → Option Nat
  | .atom s => s.toNat?
  | _ => none

partial def sxDom : Sx → Option Dom
  | .list [.atom "s", n] => (sxInt n).map .single
  | .list [.atom "r", l, h] => do pure (.range (← sxInt l) (← sxInt h))
  | .list [.atom "u", a, b] => do pure (.union (← sxDom a) (← sxDom b))
  | _ => none

def unOp? : String → Option UnOp
  | "neg" => some .neg | "abs" => some .abs | "sign" => some .sign | _ => none

def binOp? : String → Option BinOp
  | "add" => some .add | "sub" => some .sub | "mul" => some .mul | "tdiv" => some .tdiv
  | "fdiv" => some .fdiv | "mod" => some .mod | "rem" => some .rem | "exdiv" => some .exdiv
  | "pow" => some .pow | "min" => some .min | "max" => some .max | _ => none

def rel? : String → Option Rel
  | "eq" => some .eq | "ne" => some .ne | "lt" => some .lt | "le" => some .le
  | "gt" => some .gt | "ge" => some .ge | _ => none

def conn? : String → Option Conn
  | "and" => some .and | "or" => some .or | "imp" => some .imp | "rimp" => some .rimp
  | "iff" => some .iff | "xor" => some .xor | _ => none

partial def sxExpr : Sx → Option Expr
  | .atom s => (parseInt? s).map .lit
  | .list [.atom "v", i] => (sxNat i).map .var
  | .list [.atom op, a] => do pure (.un (← unOp? op) (← sxExpr a))
  | .list [.atom op, a, b] => do pure (.bin (← binOp? op) (← sxExpr a) (← sxExpr b))
  | _ => none

partial def sxForm : Sx → Option Form
  | .list [.atom "b", i] => (sxNat i).map .bvar
  | .list [.atom "k", .atom "0"] => some (.const false)
  | .list [.atom "k", .atom "1"] => some (.const true)
  | .list [.atom "rel", .atom r, a, b] => do pure (.rel (← rel? r) (← sxExpr a) (← sxExpr b))
  | .list [.atom "in", i, d] => do pure (.inD (← sxNat i) (← sxDom d))
  | .list [.atom "not", f] => (sxForm f).map .not
  | .list [.atom c, f, g] => do pure (.bin (← conn? c) (← sxForm f) (← sxForm g))
  | _ => none

def sxList {α} (f : Sx → Option α) : Sx → Option (List α)
  | .list l => l.mapM f
  | _ => none

def sxCon : Sx → Option Constraint
  | .list [.atom "form", f] => (sxForm f).map .form
  | .list (.atom "alldiff" :: es) => (es.mapM sxExpr).map .allDifferent
  | .list [.atom "sum", .atom r, es, e] => do pure (.sum (← sxList sxExpr es) (← rel? r) (← sxExpr e))
  | .list [.atom "scalar", .atom r, cs, es, e] => do
      pure (.scalar (← sxList sxInt cs) (← sxList sxExpr es) (← rel? r) (← sxExpr e))
  | .list [.atom "tuples", ts, rel] => do
      pure (.tuplesIn (← sxList (sxList sxExpr) ts) (← sxList (sxList sxInt) rel))
  | .list [.atom "element", i, es, v] => do
      pure (.element (← sxExpr i) (← sxList sxExpr es) (← sxExpr v))
  | _ => none

def sxSys : Sx → Option System
  | .list [.atom "sys", ds, cs] => do pure ⟨← sxList sxDom ds, ← sxList sxCon cs⟩
  | _ => none

def showInts (l : List Int) : String := ",".intercalate (l.map toString)

def showSols (l : List (List Int)) : String :=
  s!"n={l.length} " ++ ";".intercalate (l.map showInts)

def sel? : String → Option Sel
  | "leftmost" => some .leftmost | "ff" => some .ff | "min" => some .min | "max" => some .max
  | _ => none

def ord? : String → Option Ord
  | "up" => some .up | "down" => some .down | _ => none

def solveLine (sel ord choice sys : String) : String :=
  match sel? sel, ord? ord, parseAll sys with
  | some s, some o, some [x] =>
      match sxSys x with
      | none => "bad-sys"
      | some sy =>
          if !sy.wf then "ill-formed"
          else match choice with
          | "ref" => showSols (match o with | .up => solutions sy | .down => solutionsDown sy)
          | "step" => showSols (labelWith (strategy (selIndex s) o .step) sy)
          | "bisect" => showSols (labelWith (strategy (selIndex s) o .bisect) sy)
          | _ => "bad-choice"
  | _, _, _ => "bad-op"

def main : IO Unit := runDriver fun
  | "solve" :: _ :: sel :: ord :: choice :: sys :: _ => solveLine sel ord choice sys
  | "dom" :: _ :: d :: _ =>
      match parseAll d with
      | some [x] => match sxDom x with
          | some d => showInts d.toList
          | none => "bad-dom"
      | _ => "bad-op"
  | "inter" :: _ :: d :: _ =>
      match parseAll d with
      | some [x, y] => match sxDom x, sxDom y with
          | some a, some b => showInts (inter a.toList b.toList)
          | _, _ => "bad-dom"
      | _ => "bad-op"
  | "ground" :: _ :: c :: _ =>
      match parseAll c with
      | some [x] => match sxCon x with
          | some c => if sat [] c then "true" else "false"
          | none => "bad-con"
      | _ => "bad-op"
  | "eval" :: _ :: e :: _ =>
      match parseAll e with
      | some [x] => match sxExpr x with
          | some e => match eval [] e with
              | some v => s!"ok {v}"
              | none => "undefined"
          | none => "bad-expr"
      | _ => "bad-op"
  | _ => "bad-op"
