import ScryerModel.Drv.Util
import ScryerModel.Model.Csv
/- drv_C51 (library(csv) model).
   Encodings (all produced/consumed by vlib/props/C51.py):
     text   : code points in hex joined by `.`; `_` for the empty text
     field  : `N` | `S<text>` | `I<decimal>` | `F<text>`
     row    : `[f,f,...]`
     frame  : `<header row>/<row>/<row>...`      (`[]` header when there is none)
     opts   : `<sep code point hex> <0|1 with_header> <line_separator text> <null_value text or ->`
   Ops:
     rt <id> <write opts> <read sep> <read with_header> <frame>  -> W=<text|fail> A=<text|fail> WF=<0|1> PW=<frame|fail|-> PA=<frame|fail|->
        (W documented writer, A writer as the code stands, PW/PA = reader with the read options on
         those texts, WF = hypotheses of the round trip for the write options)
     parse <id> <opts> <text>   -> ok <frame> | fail
-/
open Scryer.Drv Scryer.Csv

namespace Scryer.CsvDrv

def hexVal? (c : Char) : Option Nat :=
  if '0' ≤ c ∧ c ≤ '9' then some (c.toNat - 48)
  else if 'a' ≤ c ∧ c ≤ 'f' then some (c.toNat - 87)
  else none

def hexNat? (s : String) : Option Nat :=
  if s.isEmpty then none else
  s.toList.foldl (fun acc c => match acc, hexVal? c with
    | some a, some v => some (16 * a + v)
    | _, _ => none) (some 0)

def decText (s : String) : Option (List Char) :=
  if s == "_" then some [] else
  (s.splitOn ".").foldr (fun w acc => match hexNat? w, acc with
    | some n, some l => some (Char.ofNat n :: l)
    | _, _ => none) (some [])

def hexDigit (n : Nat) : Char := if n < 10 then Char.ofNat (48 + n) else Char.ofNat (87 + n)

def hexOf (n : Nat) : String :=
  String.ofList (Nat.toDigits 16 n)

def encText (l : List Char) : String :=
  if l.isEmpty then "_" else ".".intercalate (l.map fun c => hexOf c.toNat)

def decField (s : String) : Option Field :=
  match s.toList with
  | ['N'] => some .null
  | 'S' :: r => (decText (String.ofList r)).map fun t => (if t.isEmpty then Field.null else .str t)
  | 'I' :: r => (parseInt? (String.ofList r)).map .int
  | 'F' :: r => (decText (String.ofList r)).map .flt
  | _ => none

def decRow (s : String) : Option (List Field) :=
  match s.toList with
  | '[' :: rest =>
  if rest.getLast? != some ']' then none else
  let inner := String.ofList rest.dropLast
  if inner.isEmpty then some [] else
  (inner.splitOn ",").foldr (fun w acc => match decField w, acc with
    | some f, some l => some (f :: l)
    | _, _ => none) (some [])
  | _ => none

def decFrame (s : String) : Option Frame :=
  match s.splitOn "/" with
  | [] => none
  | h :: rs =>
    match decRow h, rs.foldr (fun w acc => match decRow w, acc with
        | some r, some l => some (r :: l)
        | _, _ => none) (some []) with
    | some h, some rs => some ⟨h, rs⟩
    | _, _ => none

def encField : Field → String
  | .null => "N"
  | .str s => "S" ++ encText s
  | .int i => "I" ++ toString i
  | .flt l => "F" ++ encText l

def encRow (r : List Field) : String := "[" ++ ",".intercalate (r.map encField) ++ "]"

def encFrame (t : Frame) : String := "/".intercalate (encRow t.header :: t.rows.map encRow)

def decOpts (a b c d : String) : Option Opts :=
  match hexNat? a, decText c with
  | some s, some ls =>
    let nv := if d == "-" then some none else (decText d).map some
    match nv with
    | some nv => some { sep := Char.ofNat s, withHeader := b == "1", lineSep := ls, nullValue := nv }
    | none => none
  | _, _ => none

def encOT : Option (List Char) → String
  | some t => encText t
  | none => "fail"

def encOF : Option Frame → String
  | some t => encFrame t
  | none => "fail"

def rtLine (o ro : Opts) (t : Frame) : String :=
  let w := writeCsv o t
  let a := writeCsvAsIs o t
  let pw := match w with | some x => encOF (parseCsv ro x) | none => "-"
  let pa := match a with | some x => encOF (parseCsv ro x) | none => "-"
  s!"W={encOT w} A={encOT a} WF={if wf o t then 1 else 0} PW={pw} PA={pa}"

end Scryer.CsvDrv

open Scryer.CsvDrv in
def main : IO Unit := runDriver fun
  | "rt" :: _ :: args :: _ =>
    match words args with
    | [a, b, c, d, rs, rh, fr] =>
      match decOpts a b c d, decOpts rs rh "a" "-", decFrame fr with
      | some o, some ro, some t => rtLine o ro t
      | _, _, _ => "bad-args"
    | _ => "bad-args"
  | "parse" :: _ :: args :: _ =>
    match words args with
    | [a, b, c, d, tx] =>
      match decOpts a b c d, decText tx with
      | some o, some t => (match parseCsv o t with | some f => "ok " ++ encFrame f | none => "fail")
      | _, _ => "bad-args"
    | _ => "bad-args"
  | _ => "bad-op"
