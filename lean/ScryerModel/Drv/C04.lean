import ScryerModel.Drv.Util
import ScryerModel.Model.NumCmp
/- drv_C04: `cmp <id> <numA> <numB>` with numbers `i:<int>` | `r:<num>/<den>` | `f:<16 hex digits>`.
   Output: `E=<12 t/f> P=<12> X=<12> S=<lt|eq|gt> Q=<t/f>`: the six predicates (< =< > >= =:= =\=) for (A,B)
   then for (B,A), under the exact / pinned-dashu / repaired conversions; `S` = cmpSpec A B;
   `Q` = PartialEq arm (exact conversions).
   `conv <id> <num>`: the double the number converts to, exact / pinned / repaired, as hex bits. -/
open Scryer.Drv Scryer.F64 Scryer.NumCmp

def hexVal (c : Char) : Option Nat :=
  if '0' ≤ c ∧ c ≤ '9' then some (c.toNat - '0'.toNat)
  else if 'a' ≤ c ∧ c ≤ 'f' then some (c.toNat - 'a'.toNat + 10)
  else if 'A' ≤ c ∧ c ≤ 'F' then some (c.toNat - 'A'.toNat + 10)
  else none

def parseHex (s : String) : Option Nat :=
  if s.isEmpty then none else
  s.toList.foldl (fun acc c => match acc, hexVal c with
    | some a, some v => some (a * 16 + v)
    | _, _ => none) (some 0)

def hexDigit (n : Nat) : Char :=
  if n < 10 then Char.ofNat (n + '0'.toNat) else Char.ofNat (n - 10 + 'a'.toNat)

def toHex16 (n : Nat) : String :=
  String.ofList ((List.range 16).reverse.map fun i => hexDigit (n / 16 ^ i % 16))

def inFix (v : Int) : Bool := decide (-(2:Int)^55 ≤ v) && decide (v < (2:Int)^55)

def parseNum (s : String) : Option Number :=
  if s.startsWith "i:" then (parseInt? (s.drop 2).toString).map fun v => if inFix v then .fix v else .big v
  else if s.startsWith "I:" then (parseInt? (s.drop 2).toString).map fun v => .big v   -- forced bignum representation
  else if s.startsWith "r:" then
    match (s.drop 2).toString.splitOn "/" with
    | [n, d] => match parseInt? n, d.toNat? with
        | some n, some d => if d = 0 then none else some (.rat n d)
        | _, _ => none
    | _ => none
  else if s.startsWith "f:" then (parseHex (s.drop 2).toString).map fun b => .flt ⟨b⟩
  else none

def ops : List CmpOp := [.lt, .le, .gt, .ge, .eq, .ne]

def vec (c : Conv) (a b : Number) : String :=
  String.ofList ((ops.map fun o => if holdsWith c o a b then 't' else 'f') ++
                 (ops.map fun o => if holdsWith c o b a then 't' else 'f'))

def showOrd : Ordering → String
  | .lt => "lt" | .eq => "eq" | .gt => "gt"

def convOf (c : Conv) : Number → F64
  | .fix v => c.i64ToF v
  | .big v => c.bigToF v
  | .rat n d => c.ratToF n d
  | .flt f => f

def main : IO Unit := runDriver fun
  | "cmp" :: _ :: a :: b :: _ =>
      match parseNum a, parseNum b with
      | some a, some b =>
          s!"E={vec Conv.exact a b} P={vec Conv.pinned a b} X={vec Conv.fixed a b} S={showOrd (cmpSpec a b)} Q={if eqNum a b then "t" else "f"}"
      | _, _ => "bad-num"
  | "conv" :: _ :: a :: _ =>
      match parseNum a with
      | some a => s!"E={toHex16 (convOf Conv.exact a).bits} P={toHex16 (convOf Conv.pinned a).bits} X={toHex16 (convOf Conv.fixed a).bits}"
      | none => "bad-num"
  | _ => "bad-op"
