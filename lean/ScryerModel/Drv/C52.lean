import ScryerModel.Drv.Util
import ScryerModel.Model.Random
/-! drv_C52.
`script\t<id>\t<nblocks> <fuel> <call>*` — runs the call script on the model with the concrete
`StdRng` stream (`seedStream`, read through a cache), generator initially entropy-seeded (unpredictable).
  call ::= `S v` | `S sv` | `S i <int>` | `S o <text>` | `S x`        set_random/1
         | `I <arg> <arg> <arg>`                                      random_integer/3
         | `R <arg>`                                                  random/1
         | `M`                                                        maybe/0
         | `* <n> <call>`                                             the call n times
  arg  ::= `v` | `i:<int>` (normalised) | `b:<int>` (arena Integer whatever the value) | `o:<text without blanks>`
Result: outcomes joined by `;` then ` pos=<words consumed since the last seed>`;
  `true` `fails` `<int>` `f(<16 hex>)` `inst(<ctx>)` `type(<culprit>,<ctx>)` `?` (not predicted).
`words\t<id>\t<seed> <n>` — the first n raw 32-bit words of the stream of the seed, hex.
`pinned\t<id>\t<int>` — outcome of the pinned set_seed for that seed (`true` / `panic`). -/
open Scryer.Drv Scryer.Random

namespace Scryer.Random.Drv

def hexDigit (n : Nat) : Char := "0123456789abcdef".toList.getD n '0'
def hexN (digits n : Nat) : String :=
  String.ofList ((List.range digits).reverse.map fun i => hexDigit (n / 16 ^ i % 16))

def showOut : Out → String
  | .fails => "fails"
  | .succeeds => "true"
  | .int v => toString v
  | .float b => s!"f({hexN 16 b})"
  | .instErr c => s!"inst({c})"
  | .typeErrInt t c => s!"type({t},{c})"
  | .panic => "panic"

def pArg (t : String) : Option Arg :=
  if t = "v" then some .var
  else if t.startsWith "i:" then (parseInt? (t.drop 2).toString).map fun n => .int n (normalBig n)
  else if t.startsWith "b:" then (parseInt? (t.drop 2).toString).map fun n => .int n true
  else if t.startsWith "o:" then some (.other (t.drop 2).toString)
  else none

/-- one call (with repetition count) from the token list. -/
def pCall : List String → Option (Nat × Call × List String)
  | "S" :: "v" :: r => some (1, .setRandom .var, r)
  | "S" :: "sv" :: r => some (1, .setRandom .seedVar, r)
  | "S" :: "x" :: r => some (1, .setRandom .other, r)
  | "S" :: "i" :: n :: r => (parseInt? n).map fun n => (1, .setRandom (.seedInt n), r)
  | "S" :: "o" :: t :: r => some (1, .setRandom (.seedOther t), r)
  | "I" :: a :: b :: c :: r => do
      let a ← pArg a; let b ← pArg b; let c ← pArg c
      pure (1, .randomInteger a b c, r)
  | "R" :: a :: r => do let a ← pArg a; pure (1, .random a, r)
  | "M" :: r => some (1, .maybe, r)
  | _ => none

def pCalls : Nat → List String → Option (List (Nat × Call))
  | 0, _ => none
  | _, [] => some []
  | fuel + 1, "*" :: n :: r => do
      let n ← n.toNat?
      let (_, c, r') ← pCall r
      let rest ← pCalls fuel r'
      pure ((n, c) :: rest)
  | fuel + 1, r => do
      let (k, c, r') ← pCall r
      let rest ← pCalls fuel r'
      pure ((k, c) :: rest)

/-- runs the calls one at a time with `step`, re-creating the cached stream only on re-seeding. -/
def runAll (nblocks fuel : Nat) (calls : List (Nat × Call)) : String := Id.run do
  let mut g : GenState := none
  let mut cacheSeed : Option Nat := none
  let mut strm : Stream := fun _ => 0
  let mut outs : Array String := #[]
  for (n, c) in calls do
    for _ in [0:n] do
      -- the stream of the seed the generator will have when this call draws
      let sd? : Option Nat := match c, g with
        | .setRandom _, _ => none
        | _, some (sd, _) => some sd
        | _, none => none
      match sd? with
      | some sd =>
        if cacheSeed != some sd then
          let cache := streamCache sd nblocks
          strm := cachedStream sd cache
          cacheSeed := some sd
      | none => pure ()
      let cur := strm
      let curSeed := cacheSeed
      let mk : Nat → Stream := fun sd => if curSeed == some sd then cur else seedStream sd
      match step mk fuel g c with
      | none => outs := outs.push "?"
      | some (o, g') =>
        outs := outs.push (showOut o)
        g := g'
  let pos := match g with | some (_, p) => toString p | none => "-"
  return ";".intercalate outs.toList ++ " pos=" ++ pos

def handle (op : String) (args : String) : String :=
  match op, words args with
  | "script", nb :: fu :: toks =>
    match nb.toNat?, fu.toNat?, pCalls (toks.length + 1) toks with
    | some nb, some fu, some calls => runAll nb fu calls
    | _, _, _ => "bad-args"
  | "words", [sd, n] =>
    match sd.toNat?, n.toNat? with
    | some sd, some n =>
      let s := cachedStream sd (streamCache sd (n / 16 + 1))
      " ".intercalate ((List.range n).map fun i => hexN 8 (s i).toNat)
    | _, _ => "bad-args"
  | "pinned", [n] =>
    match parseInt? n with
    | some n => showOut (setRandomPinned (.seedInt n) none).1
    | none => "bad-args"
  | _, _ => "bad-op"

end Scryer.Random.Drv

def main : IO Unit := runDriver fun
  | op :: _ :: args :: _ => Scryer.Random.Drv.handle op args
  | op :: _ :: [] => Scryer.Random.Drv.handle op ""
  | _ => "bad-op"
