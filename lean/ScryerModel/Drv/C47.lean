import ScryerModel.Drv.Util
import ScryerModel.Drv.TermIO
import ScryerModel.Model.Pio
/- drv_C47:
   `LZ <id> <k> <hex bytes>`      → `<number of blocks> <byte position after each block, comma separated> <hex of the flattened characters re-encoded>`
   `CELL <id> <k> <n> <hex bytes>` → `<c<hex>|end> <blocks read> <byte position recorded in the frozen tail>` -/
open Scryer.Drv Scryer.Pio Scryer.Stream Scryer.Utf8

def hexBytes47 (s : String) : List Nat :=
  let rec go : List Char → List Nat → List Nat
    | a :: b :: r, acc => go r ((((hexVal? a).getD 0) * 16 + ((hexVal? b).getD 0)) :: acc)
    | _, acc => acc.reverse
  go s.toList []

def hexOfBytes47 (bs : List Nat) : String := String.join (bs.map (fun b => toHex b 2))

def positions (k : Nat) (bytes : List Nat) : List Nat :=
  let rec go : Nat → Nat → List Nat → List Nat
    | 0, _, acc => acc.reverse
    | fuel+1, pos, acc =>
      match readBlock k bytes pos with
      | none => acc.reverse
      | some (_, p) => go fuel p (p :: acc)
  go (bytes.length + 1) 0 []

def main : IO Unit := runDriver fun
  | "LZ" :: _ :: k :: hex :: _ =>
      let bytes := hexBytes47 hex
      let kk := k.toNat?.getD 1
      let blocks := renderAll (bytes.length + 1) kk bytes 0
      s!"{blocks.length} {",".intercalate ((positions kk bytes).map toString)} {hexOfBytes47 (encodeAll blocks.flatten)}"
  | "LZ" :: _ :: _ :: [] => "0  "
  | "CELL" :: _ :: k :: n :: hex :: _ =>
      let bytes := hexBytes47 hex
      let r := cellAt (k.toNat?.getD 1) bytes (n.toNat?.getD 0) LL.init
      let c := match r.1 with | some c => "c" ++ hexOf c | none => "end"
      s!"{c} {r.2.reads} {r.2.off}"
  | "CELL" :: _ :: k :: n :: [] =>
      let r := cellAt (k.toNat?.getD 1) [] (n.toNat?.getD 0) LL.init
      let c := match r.1 with | some c => "c" ++ hexOf c | none => "end"
      s!"{c} {r.2.reads} {r.2.off}"
  | _ => "bad-op"
