import ScryerModel.Model.Cwil
import ScryerModel.Drv.Util
import ScryerModel.Drv.TermIO
/-
drv_C40:
  `run <id> <clauses joined by " ;; "> <goal> <template> <max answers> <tick budget>`
     clauses / goal / template in the harness' canonical syntax (Drv/TermIO); a clause is
     `':-'(Head,Body)` or a fact.  Runs `Scryer.Cwil.run` (counted call, given tick budget).
     Result: `R <ticks> <probes> :: <answer> ;; … ;; exception(<ball>)` or `oof <ticks> :: …` when the model
     ran out of fuel / budget / left its fragment (answers so far are listed).
  `mech <id> <fixed 0|1> <ops>`  ops: space separated `e<L>` (enter), `t` (tick), `l` (leave).
     Runs the CWIL mirror and the budget-stack specification; result `<mech obs> | <spec obs>`
     (each observation `-` or the level that fired).
-/
open Scryer Scryer.Drv Scryer.Solve Scryer.Cwil

def toClause : Term → Clause
  | .str ":-" [h, b] => ⟨h, b⟩
  | t => ⟨t, .atom "$fact"⟩

def parseProg (s : String) : Option Prog :=
  if s.trimAscii.isEmpty then some [] else
  (s.splitOn " ;; ").foldr (fun c acc =>
    match acc, parseTermStr c with
    | some cs, some t => some (toClause t :: cs)
    | _, _ => none) (some [])

def bigFuel : Nat := 100000

def showRes (tmpl : Term) (maxA : Nat) (r : Cwil.Res) : String :=
  let shown := (answers r.evs).map fun s =>
    match resolve bigFuel s.σ tmpl with
    | some t => showTerm t
    | none => "?unresolved"
  let items := shown ++ (match r.fin with
      | .exc b _ => ["exception(" ++ showTerm b ++ ")"]
      | _ => [])
  let body := " ;; ".intercalate (items.take maxA ++ (if items.length > maxA then ["..."] else []))
  let tag := match r.fin with
    | .oof => "oof"
    | _ => "R"
  let probes := (r.evs.filter fun | .probe => true | _ => false).length
  s!"{tag} {ticks r.evs} {probes} :: {body}"

def parseOp (w : String) : Option Op :=
  if w == "t" then some .tick
  else if w == "l" then some .leave
  else if w.startsWith "e" then (w.drop 1).toNat?.map Op.enter
  else none

def showObs (os : List (Option Nat)) : String :=
  " ".intercalate (os.map fun | some j => toString j | none => "-")

def handle : List String → String
  | "run" :: _ :: prog :: goal :: tmpl :: maxA :: budget :: _ =>
      match parseProg prog, parseTermStr goal, parseTermStr tmpl, maxA.toNat?, budget.toNat? with
      | some p, some g, some t, some m, some b =>
          showRes t m (run bigFuel p g ⟨[], 0⟩ true b)
      | _, _, _, _, _ => "bad-args"
  | "mech" :: _ :: fixed :: ops :: _ =>
      match (words ops).mapM parseOp with
      | some os =>
          showObs (mrun (fixed == "1") ⟨CWIL.new, 0⟩ os) ++ " | " ++ showObs (srun [] os)
      | none => "bad-args"
  | _ => "bad-op"

def main : IO Unit := runDriver handle
