import ScryerModel.Drv.Util
import ScryerModel.Model.ArithMixed
/- drv_C02: `evalf <id> <libm table> <prefix expr>` (repaired `rnd_i`) and `evalp …` (pinned `rnd_i`).
   Table entries (space separated): `sin:<hex>=<hex>`, `pow:<hex>,<hex>=<hex>`, `atan2:<hex>,<hex>=<hex>`.
   Expression tokens: `( op e… )`, decimal integers, `f:<16 hex digits>`.
   Result: `ok i <int> <fix|big|illfix>` | `ok r <num> <den>` | `ok f <hex>` | `err …` | `panic` |
   `need <op> <hex> <hex>` (the table lacks a libm value). -/
open Scryer.Drv Scryer.ArithMixed Scryer.ArithFloat

namespace Scryer.DrvC02

def hexDigit? (c : Char) : Option Nat :=
  if '0' ≤ c ∧ c ≤ '9' then some (c.toNat - '0'.toNat)
  else if 'a' ≤ c ∧ c ≤ 'f' then some (c.toNat - 'a'.toNat + 10)
  else none

def parseHex? (s : String) : Option Nat :=
  if s.isEmpty then none else
  s.toList.foldl (fun acc c => match acc, hexDigit? c with
    | some a, some d => some (a * 16 + d)
    | _, _ => none) (some 0)

def hexChar (d : Nat) : Char :=
  if d < 10 then Char.ofNat ('0'.toNat + d) else Char.ofNat ('a'.toNat + d - 10)

def toHex16 (n : Nat) : String :=
  String.ofList ((List.range 16).reverse.map fun i => hexChar (n / 16 ^ i % 16))

structure Entry where
  op : String
  a : Nat
  b : Nat
  r : Nat

def parseEntry (s : String) : Option Entry :=
  match s.splitOn ":" with
  | [op, rest] =>
      match rest.splitOn "=" with
      | [args, r] =>
          match args.splitOn ",", parseHex? r with
          | [a], some r => (parseHex? a).map fun a => ⟨op, a, 0, r⟩
          | [a, b], some r =>
              match parseHex? a, parseHex? b with
              | some a, some b => some ⟨op, a, b, r⟩
              | _, _ => none
          | _, _ => none
      | _ => none
  | _ => none

def lookup (t : List Entry) (op : String) (a b : Nat) : Option F64 :=
  (t.find? fun e => e.op == op && e.a == a && e.b == b).map fun e => ⟨e.r⟩

def tableLibm (t : List Entry) : Libm where
  fn1 := fun op x => lookup t op.name x.bits 0
  pow := fun x y => lookup t "pow" x.bits y.bits
  atan2 := fun x y => lookup t "atan2" x.bits y.bits

def unOp? : String → Option UnOp
  | "neg" => some .neg | "plus" => some .plus | "abs" => some .abs | "sign" => some .sign
  | "float" => some .float | "sqrt" => some .sqrt | "fip" => some .fip | "ffp" => some .ffp
  | "floor" => some .floor | "ceiling" => some .ceiling | "truncate" => some .truncate
  | "round" => some .round
  | "sin" => some (.fn .sin) | "cos" => some (.fn .cos) | "tan" => some (.fn .tan)
  | "log" => some (.fn .log) | "exp" => some (.fn .exp) | "asin" => some (.fn .asin)
  | "acos" => some (.fn .acos) | "atan" => some (.fn .atan)
  | _ => none

def binOp? : String → Option BinOp
  | "add" => some .add | "sub" => some .sub | "mul" => some .mul | "div" => some .div
  | "pow" => some .pow | "ipow" => some .ipow | "atan2" => some .atan2 | "max" => some .max
  | "min" => some .min | "rdiv" => some .rdiv
  | _ => none

def parseExpr : Nat → List String → Option (Expr × List String)
  | 0, _ => none
  | _, [] => none
  | fuel+1, "(" :: op :: rest =>
      match unOp? op with
      | some u =>
          match parseExpr fuel rest with
          | some (e, ")" :: rest') => some (.un u e, rest')
          | _ => none
      | none =>
        match binOp? op with
        | some b =>
            match parseExpr fuel rest with
            | some (l, rest1) =>
                match parseExpr fuel rest1 with
                | some (r, ")" :: rest2) => some (.bin b l r, rest2)
                | _ => none
            | none => none
        | none => none
  | _, tok :: rest =>
      if tok.startsWith "f:" then (parseHex? (String.ofList (tok.toList.drop 2))).map fun b => (.flt b, rest)
      else (parseInt? tok).map fun v => (.int v, rest)

def showNum : Scryer.Arith.Num → String
  | .fix v => s!"ok i {v} {if Scryer.Arith.inFix v then "fix" else "illfix"}"
  | .big v => s!"ok i {v} big"

def showR : R → String
  | .ok (.int n) => showNum n
  | .ok (.rat n d) => s!"ok r {n} {d}"
  | .ok (.flt f) => s!"ok f {toHex16 f.bits}"
  | .error .zeroDivisor => "err zero_divisor"
  | .error .undefined => "err undefined"
  | .error .floatOverflow => "err float_overflow"
  | .error (.typeFloat v) => s!"err type_float {v}"
  | .error .inst => "err inst"
  | .error .panic => "panic"
  | .error (.miss op a b) => s!"need {op} {toHex16 a} {toHex16 b}"

def evalLine (pinned : Bool) (table expr : String) : String :=
  let entries := (words table).filterMap parseEntry
  let toks := words expr
  match parseExpr (toks.length + 1) toks with
  | some (e, []) => showR (eval { libm := tableLibm entries, pinnedRndI := pinned } e)
  | _ => "bad-expr"

end Scryer.DrvC02

open Scryer.DrvC02 in
def main : IO Unit := runDriver fun
  | "evalf" :: _ :: table :: expr :: _ => evalLine false table expr
  | "evalp" :: _ :: table :: expr :: _ => evalLine true table expr
  | _ => "bad-op"
