import ScryerModel.Drv.Util
import ScryerModel.Model.Graph
/-! drv_C24: `case\t<id>\t<tokens>`; tokens are space separated naturals
      k a b n node{n}        node ::= 0 | 1 c | 2 f m child{m}
  (depth of the unfolding probes, the two roots, the graph). The result is the list the Prolog
  two clauses of the same case bind to `R` (nested lists of integers, harness syntax):
  [[AcA,AcB,UnchAc],[Gr,Vars,Eq,Ne,Cmp,Cmp2,UCopy,Fresh,U0,Unch,Uoc,Un,UA,UB,EqU,AcCopy]]
  token lists of unfoldings: 0 cut, 1000+i variable i, 2000+j j-th variable of the copy,
  3000+c constant c, 4000+10f+n compound f/n followed by the n arguments. -/
open Scryer.Drv Scryer.Graph

namespace Scryer.Graph.Drv

def takeN : Nat → List Nat → Option (List Nat × List Nat)
  | 0, r => some ([], r)
  | _ + 1, [] => none
  | k + 1, x :: r => (takeN k r).map fun (l, r') => (x :: l, r')

def pNodes : Nat → List Nat → Option (List Node × List Nat)
  | 0, r => some ([], r)
  | n + 1, 0 :: r => (pNodes n r).map fun (l, r') => (.var :: l, r')
  | n + 1, 1 :: c :: r => (pNodes n r).map fun (l, r') => (.atom c :: l, r')
  | n + 1, 2 :: f :: m :: r =>
    match takeN m r with
    | none => none
    | some (as, r') => (pNodes n r').map fun (l, r'') => (.str f as :: l, r'')
  | _, _ => none

inductive J where
  | n (v : Int)
  | l (xs : List J)

partial def J.show : J → String
  | .n v => toString v
  | .l xs => "[" ++ ",".intercalate (xs.map J.show) ++ "]"

def b2j (b : Bool) : J := .n (if b then 1 else 0)
def l2j (l : List Nat) : J := .l (l.map fun x => .n (Int.ofNat x))

/-- token list of the unfolding to depth `k` under bindings `b`, variables named by `nm`. -/
def toksB (g : Graph) (b : Bnd) (nm : Nat → Nat) : Nat → Nat → List Nat
  | 0, _ => [0]
  | k+1, i =>
    let i := deref g b (g.size + 1) i
    match node g i with
    | .var => [nm i]
    | .atom c => [3000 + c]
    | .str f as => (4000 + 10 * f + as.length) :: as.flatMap (toksB g b nm k)

/-- acyclicity under a binding environment (the occurs-check oracle on finite inputs). -/
def acycB (g : Graph) (b : Bnd) : Nat → List Nat → Nat → Bool
  | 0, _, _ => false
  | fuel+1, path, i =>
    let i := deref g b (g.size + 1) i
    match node g i with
    | .str _ as => !path.contains i && as.all (acycB g b fuel (i :: path))
    | _ => true

def cmpCode : Out → Int
  | .lt => -1
  | .gt => 1
  | .same _ => 0
  | .vars _ _ => 7
  | .fuel => 99

/-- least variable index whose representative is `x`. -/
def classMin (g : Graph) (b : Bnd) (x : Nat) : Nat :=
  match (List.range g.size).find? (fun i => isVar g i && deref g b (g.size + 1) i == x) with
  | some i => i
  | none => x

def runCase (k a b : Nat) (g : Graph) : J :=
  let nm0 := fun i => 1000 + i
  let u0 := toksB g [] nm0 k a
  let (g2, c) := copy g a
  let cvs := termVars g2 c
  let nmC := fun i => 2000 + indexOf cvs i
  let uc := toksB g2 [] nmC k c
  let fresh := cvs.all fun v => !(termVars g a).contains v
  let allAcyclic := acyclic g a && acyclic g b
  let un := unify g a b
  let (unOk, ua, ub, equ, uoc) : Bool × List Nat × List Nat × Bool × Int :=
    match un with
    | .ok bnd _ =>
      let nmU := fun i => 1000 + classMin g bnd i
      let ua := toksB g bnd nmU k a
      let ub := toksB g bnd nmU k b
      -- occurs check: on finite inputs it succeeds iff the unifier is finite
      (true, ua, ub, true, if allAcyclic then (if acycB g bnd (g.size + 1) [] a then 1 else 0) else 7)
    | .fail => (false, [], [], false, if allAcyclic then 0 else 7)
    | .fuel => (false, [99], [99], false, 99)
  .l [.l [b2j (acyclic g a), b2j (acyclic g b), .n 1],
      .l [b2j (ground g a), l2j ((termVars g a).map nm0),
          b2j (eq g a b), b2j (!eq g a b), .n (cmpCode (cmp g a b)), .n (cmpCode (cmp g b a)),
          l2j uc, b2j fresh, l2j u0, .n 1, .n uoc, b2j unOk, l2j ua, l2j ub, b2j equ,
          b2j (acyclic g2 c)]]

def handle (t : List Nat) : Option String :=
  match t with
  | k :: a :: b :: n :: r => do
    let (ns, rest) ← pNodes n r
    if !rest.isEmpty then none
    let g : Graph := ns.toArray
    if !(wfB g && a < g.size && b < g.size) then none
    pure (runCase k a b g).show
  | _ => none

end Scryer.Graph.Drv

def main : IO Unit := runDriver fun
  | "case" :: _ :: s :: _ =>
    match (words s).mapM String.toNat? with
    | some t => (Scryer.Graph.Drv.handle t).getD "bad-input"
    | none => "bad-input"
  | _ => "bad-op"
