import ScryerModel.Drv.Util
import ScryerModel.Model.PStr
/-
drv_C20 — line protocol (TAB separated). A representation is a space separated token list
  L<code>              Lis cell whose head is the character <code>
  S<k>:<c1>.<c2>…      PStrLoc at character index k of a segment with these characters
  N | V<n> | O<n>      the tail: [] / variable n / some other non-list term n
  UNI <id> <rep1> <rep2>   -> fail | ok | ok <v> <codes .-separated or -> <tail token>   (PStr.unify)
  CMP <id> <rep1> <rep2>   -> lt | gt | tails <t1> <t2> | endL <t1> | endR <t2>          (PStr.compare)
  DEC <id> <rep>           -> none | <code> <codes of the rest> <tail>                    (PStr.step)
  DEN <id> <rep>           -> <codes> <tail>                                              (PStr.denote)
  CPY <id> <rep>           -> denote of PStr.copy
  SEG <id> <cell> <codes>  -> the segment `codes` laid out at cell <cell>, walked character by
                              character with lastCharAndTail: <codes read> @<tail cell index>,
                              then the segChars iteration and scanTailIdx from the start
-/
open Scryer.Drv Scryer.PStr

def parseCodes (s : String) : List Nat :=
  if s == "-" || s == "" then [] else (s.splitOn ".").filterMap String.toNat?

def showCodes (l : List Nat) : String :=
  if l.isEmpty then "-" else ".".intercalate (l.map toString)

def showTail : Tail → String
  | .nil => "N" | .var v => s!"V{v}" | .other t => s!"O{t}"

def rest1 (s : String) : String := String.ofList (s.toList.drop 1)

def parseRep : List String → Rep
  | [] => .tl .nil
  | tok :: rest =>
    if tok == "N" then .tl .nil
    else if tok.startsWith "V" then .tl (.var ((rest1 tok).toNat?.getD 0))
    else if tok.startsWith "O" then .tl (.other ((rest1 tok).toNat?.getD 0))
    else if tok.startsWith "L" then .lis ((rest1 tok).toNat?.getD 0) (parseRep rest)
    else if tok.startsWith "S" then
      match (rest1 tok).splitOn ":" with
      | [k, cs] => .seg (parseCodes cs) (k.toNat?.getD 0) (parseRep rest)
      | _ => .tl .nil
    else .tl .nil

def showDen (d : List Nat × Tail) : String := s!"{showCodes d.1} {showTail d.2}"

def showU : URes → String
  | .fail => "fail"
  | .stuck => "stuck"
  | .ok none => "ok"
  | .ok (some (v, r)) => s!"ok {v} {showDen (denote r)}"

def showC : CRes → String
  | .lt => "lt" | .gt => "gt" | .stuck => "stuck"
  | .tails a b => s!"tails {showTail a} {showTail b}"
  | .endL a => s!"endL {showTail a}"
  | .endR b => s!"endR {showTail b}"

/-- walk a laid-out segment with `lastCharAndTail` from byte `loc` (slice = bytes from loc). -/
def walkSeg : Nat → Nat → Nat → List Nat → List Nat → String
  | 0, _, _, _, acc => s!"{showCodes acc.reverse} loop"
  | fuel + 1, base, loc, mem, acc =>
    match lastCharAndTail loc (mem.drop (loc - base)) with
    | none => s!"{showCodes acc.reverse} invalid"
    | some (c, .pstr l) => walkSeg fuel base l mem (c :: acc)
    | some (c, .tail t) => s!"{showCodes (c :: acc).reverse} @{t}"

def main : IO Unit := runDriver fun
  | "UNI" :: _ :: a :: b :: _ =>
      let r1 := parseRep (words a); let r2 := parseRep (words b)
      showU (unify (size r1 + size r2) r1 r2)
  | "CMP" :: _ :: a :: b :: _ =>
      let r1 := parseRep (words a); let r2 := parseRep (words b)
      showC (compare (size r1 + size r2) r1 r2)
  | "DEC" :: _ :: a :: _ =>
      match step (parseRep (words a)) with
      | none => "none"
      | some (c, s) => s!"{c} {showDen (denote s)}"
  | "DEN" :: _ :: a :: _ => showDen (denote (parseRep (words a)))
  | "CPY" :: _ :: a :: _ => showDen (denote (copy (parseRep (words a))))
  | "SEG" :: _ :: cell :: cs :: _ =>
      let c := cell.toNat?.getD 0
      let codes := parseCodes cs
      let mem := segLayout (utf8 codes)
      let w := walkSeg (codes.length + 2) (8 * c) (8 * c) mem []
      s!"{w} | {showCodes (segChars (codes.length + 1) mem)} @{scanTailIdx (8 * c) mem}"
  | _ => "bad-op"
