import ScryerModel.Drv.Util
import ScryerModel.Drv.Arith
import ScryerModel.Model.ArithEval
import ScryerModel.Extracted.EvalTables
/- drv_C03:
   `ev <id> <prefix term>`  — runs both model evaluators over the EXTRACTED tables with a symbolic semantics
        (a value is the text of the call tree), prints `C=<outcome> M=<outcome>`;
        term syntax: `( f a )`, `( f a b )`, atom `a:name`, number `n:text`, unbound `u`, `( $b t )` = clause
        variable bound to t. outcome: `ok <call tree>` | `err evaluable <f>/<n>` | `err inst` | `err op`.
   `arith <id> <expr>`      — C01's integer model (Drv/Arith.lean) for integer-only expressions. -/
open Scryer.Drv Scryer.ArithEval Scryer.Extracted

def symSem : Sem String where
  apply := fun fn vs => .ok (fn ++ "(" ++ ",".intercalate vs ++ ")")
  conv := fun k v => .ok (if k == "number" then v else k ++ ":" ++ v)

partial def parseTerm : List String → Option (Term String × List String)
  | "(" :: "$b" :: rest =>
      match parseTerm rest with
      | some (t, ")" :: r) => some (.bound t, r)
      | _ => none
  | "(" :: f :: rest =>
      match parseTerm rest with
      | some (a, ")" :: r) => some (.app1 f a, r)
      | some (a, r1) =>
          match parseTerm r1 with
          | some (b, ")" :: r) => some (.app2 f a b, r)
          | _ => none
      | none => none
  | "u" :: r => some (.unbound, r)
  | tok :: r =>
      if tok.startsWith "a:" then some (.atom (tok.drop 2).toString, r)
      else if tok.startsWith "n:" then some (.num (tok.drop 2).toString, r)
      else none
  | [] => none

def showOut : Except Err String → String
  | .ok v => "ok " ++ v
  | .error (.evaluable f n) => s!"err evaluable {f}/{n}"
  | .error .inst => "err inst"
  | .error (.op c) => "err op " ++ c

def main : IO Unit := runDriver fun
  | "ev" :: _ :: t :: _ =>
      match parseTerm (words t) with
      | some (e, []) =>
          s!"C={showOut (evalCompiled compiledTable metaTable symSem e)}\tM={showOut (evalMeta metaTable symSem e)}"
      | _ => "bad-term"
  | "arith" :: _ :: expr :: _ => arithLine expr
  | _ => "bad-op"
