import ScryerModel.Drv.Util
import ScryerModel.Drv.TermIO
import ScryerModel.Model.TermOps
/- drv_C23: one builtin call per line, terms in the harness' canonical syntax.
     functor  <id> <T> <N> <A> <R>      arg <id> <N> <T> <X> <R>       univ <id> <T> <L> <R>
     copy     <id> <T> <C> <R>          tvars <id> <T> <Vs> <R>        ground <id> <T> <R>
     subsumes <id> <G> <S> <R>          argpinned <id> <N> <T> <X> <R>
   `R` is the report term `'r'(V1,…,Vn)` listing the query's variables (also the names fresh
   variables must avoid).  Result: `ok <'r'('ok',V1σ,…)>`, `fail`, `err <'r'('err'(Formal),V1,…)>`,
   `cyclic`, `parse-error`, or `mirror-mismatch …` (the composed construction mode of =.. disagrees
   with its closed form). -/
open Scryer Scryer.Drv Scryer.Unify Scryer.TermOps

/-- fresh (all-underscore) names are printed as `_F<length>`. -/
def prettyName (x : String) : String :=
  if !x.isEmpty && x.toList.all (· == '_') then s!"_F{x.length}" else x

def pretty (t : Term) : Term := t.subst fun x => .var (prettyName x)

def report (status : Term) (r : Term) : Term :=
  match r with
  | .str _ vs => .str "r" (status :: vs)
  | _ => .str "r" [status]

def showRes (res : Res) (r : Term) : String :=
  match res with
  | .ok σ => "ok " ++ showTerm (pretty (applyS σ (report (.atom "ok") r)))
  | .fail => "fail"
  | .err e => "err " ++ showTerm (pretty (report (.str "err" [e]) r))
  | .cyclic => "cyclic"

def sameAnswer (a b : Res) (r : Term) : Bool := showRes a r == showRes b r

/-- rename apart by first occurrence so that two answers can be compared as variants. -/
def canonVars (t : Term) : Term :=
  let vs := termVars t
  t.subst fun x => .var s!"_C{vs.idxOf x}"

def variantRes (a b : Res) (r : Term) : Bool :=
  match a, b with
  | .ok σ, .ok τ =>
      showTerm (canonVars (applyS σ r)) == showTerm (canonVars (applyS τ r))
  | .fail, .fail => true
  | .cyclic, .cyclic => true
  | .err e, .err e' => showTerm e == showTerm e'
  | _, _ => false

def univLine (t l r : Term) : String :=
  let res := univ t l
  match t, univErrors t l, (splitList l).1 with
  | .var x, none, h :: args =>
      let m := univMirror r.vars x h args
      if variantRes res m r then showRes res r
      else s!"mirror-mismatch {showRes res r} / {showRes m r}"
  | _, _, _ => showRes res r

def withTerms (ss : List String) (k : List Term → String) : String :=
  match ss.mapM parseTermStr with
  | some ts => k ts
  | none => "parse-error"

def main : IO Unit := runDriver fun
  | "functor" :: _ :: rest => withTerms rest fun
      | [t, n, a, r] => showRes (functor3 r.vars t n a) r
      | _ => "bad-args"
  | "arg" :: _ :: rest => withTerms rest fun
      | [n, t, x, r] => showRes (arg3 n t x) r
      | _ => "bad-args"
  | "argpinned" :: _ :: rest => withTerms rest fun
      | [n, t, x, r] => showRes (arg3Pinned n t x) r
      | _ => "bad-args"
  | "univ" :: _ :: rest => withTerms rest fun
      | [t, l, r] => univLine t l r
      | _ => "bad-args"
  | "copy" :: _ :: rest => withTerms rest fun
      | [t, c, r] => showRes (copyTerm r.vars t c) r
      | _ => "bad-args"
  | "tvars" :: _ :: rest => withTerms rest fun
      | [t, vs, r] => showRes (termVariables t vs) r
      | _ => "bad-args"
  | "ground" :: _ :: rest => withTerms rest fun
      | [t, r] => showRes (ground1 t) r
      | _ => "bad-args"
  | "subsumes" :: _ :: rest => withTerms rest fun
      | [g, s, r] => showRes (subsumesTerm g s) r
      | _ => "bad-args"
  | _ => "bad-op"
