import ScryerModel.Drv.Util
import ScryerModel.Model.IntRel
/-!
drv_C49 — model driver for the integer relation builtins. One TAB-separated line per goal:

```
between[_spec]   <id> <n> <L> <U> <X>
succ[_spec]      <id> <n> <I> <S>
numlist3[_spec]  <id> <n> <fuel> <L> <U> <Xs>
length[_spec]    <id> <n> <fresh> <k> <tail> <N>
```
argument tokens: `v<k>` unbound variable number k, `i<decimal>` integer, `b<k>` the k-th ill-typed
term of the case; `<Xs>`: `v` or `l<comma separated integers>`; `<tail>`: `nil`, `var<k>`, `nonlist`.
Result: the first `n` answers (tuples of the relation) joined by ` ;; `, then ` ;; ...` when `n`
answers were produced, or `false`, or `err <formal>`; `hang` marks a search that does not end.
-/
open Scryer.Drv Scryer.IntRel

/-- the longest list of fresh variables assumed to fit the heap (the generator keeps away from it) -/
def memCap : Nat := 1000000

def dropS (k : Nat) (s : String) : String := String.ofList (s.toList.drop k)

def parseArg (s : String) : Option Arg :=
  if s.startsWith "v" then (dropS 1 s).toNat?.map Arg.var
  else if s.startsWith "i" then (parseInt? (dropS 1 s)).map Arg.int
  else if s.startsWith "b" then (dropS 1 s).toNat?.map Arg.bad
  else none

def parseLArg (s : String) : Option LArg :=
  if s == "v" then some .var
  else if s == "l" then some (.ints [])
  else if s.startsWith "l" then
    let parts : List String := (dropS 1 s).splitOn ","
    let vals := parts.filterMap parseInt?
    if vals.length == parts.length then some (.ints vals) else none
  else none

def parseTail (s : String) : Option Tail :=
  if s == "nil" then some .nil
  else if s == "nonlist" then some .nonlist
  else if s.startsWith "var" then (dropS 3 s).toNat?.map Tail.var
  else none

def showArg : Arg → String
  | .var v => s!"v{v}"
  | .int i => s!"i{i}"
  | .bad k => s!"b{k}"

def showErr : Err → String
  | .inst => "err inst"
  | .typeInt c => s!"err type_int {showArg c}"
  | .domNlz i => s!"err dom_nlz {i}"
  | .resFinite => "err res_finite"
  | .resMemory => "err res_memory"

def showRes {α : Type} (n : Nat) (item : α → String) : Res α → String
  | .err e => showErr e
  | .ans as =>
    if as.isEmpty then "false"
    else
      let body := " ;; ".intercalate (as.map item)
      if as.length ≥ n then body ++ " ;; ..." else body
  | .hang as =>
    if as.isEmpty then "hang" else " ;; ".intercalate (as.map item) ++ " ;; hang"

def showInts (xs : List Int) : String := ",".intercalate (xs.map toString)

def showTuple (t : Tuple) : String := s!"{t.1}|{t.2.1}|{showInts t.2.2}"

def showPair (p : Int × Int) : String := s!"{p.1}|{p.2}"

/-- `fresh<count>` when the variables are pairwise distinct and none occurs in the query -/
def showLen (fresh : Nat) (a : LenAns) : String :=
  if a.ext.all (fun v => decide (v ≥ fresh)) && decide a.ext.Nodup then s!"{a.n}|fresh{a.ext.length}"
  else s!"{a.n}|vars{a.ext}"

def main : IO Unit := runDriver fun
  | op :: _ :: args =>
    match op, args with
    | "between", [n, l, u, x] =>
      match n.toNat?, parseArg l, parseArg u, parseArg x with
      | some n, some l, some u, some x => showRes n toString (between n l u x)
      | _, _, _, _ => "bad-args"
    | "between_spec", [n, l, u, x] =>
      match n.toNat?, parseArg l, parseArg u, parseArg x with
      | some n, some l, some u, some x => showRes n toString (specBetween n l u x)
      | _, _, _, _ => "bad-args"
    | "succ", [n, i, s] =>
      match n.toNat?, parseArg i, parseArg s with
      | some n, some i, some s => showRes n showPair (succ n i s)
      | _, _, _ => "bad-args"
    | "succ_spec", [n, i, s] =>
      match n.toNat?, parseArg i, parseArg s with
      | some n, some i, some s => showRes n showPair (specSucc n i s)
      | _, _, _ => "bad-args"
    | "numlist3", [n, fuel, l, u, xs] =>
      match n.toNat?, fuel.toNat?, parseArg l, parseArg u, parseLArg xs with
      | some n, some fuel, some l, some u, some xs => showRes n showTuple (numlist3 n fuel l u xs)
      | _, _, _, _, _ => "bad-args"
    | "numlist3_spec", [n, fuel, l, u, xs] =>
      match n.toNat?, fuel.toNat?, parseArg l, parseArg u, parseLArg xs with
      | some n, some fuel, some l, some u, some xs => showRes n showTuple (specNumlist3 n fuel l u xs)
      | _, _, _, _, _ => "bad-args"
    | "length", [n, fresh, k, tail, nn] =>
      match n.toNat?, fresh.toNat?, k.toNat?, parseTail tail, parseArg nn with
      | some n, some fresh, some k, some tail, some nn =>
        showRes n (showLen fresh) (length true memCap n fresh ⟨k, tail⟩ nn)
      | _, _, _, _, _ => "bad-args"
    | "length_spec", [n, fresh, k, tail, nn] =>
      match n.toNat?, fresh.toNat?, k.toNat?, parseTail tail, parseArg nn with
      | some n, some fresh, some k, some tail, some nn =>
        -- the specification does not model memory: a list that cannot exist is a resource error
        match tail, nn with
        | .var _, .int i =>
          if i - (k : Int) > (memCap : Int) then showErr .resMemory
          else showRes n (showLen fresh) (specLength n fresh ⟨k, tail⟩ nn)
        | _, _ => showRes n (showLen fresh) (specLength n fresh ⟨k, tail⟩ nn)
      | _, _, _, _, _ => "bad-args"
    | _, _ => "bad-op"
  | _ => "bad-op"
