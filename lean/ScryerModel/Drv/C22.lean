import ScryerModel.Drv.Util
import ScryerModel.Drv.TermIO
import ScryerModel.Model.AtomOps
/-!
drv_C22 — model driver for the atom and character builtins. One TAB-separated line per goal, the
arguments are terms in the harness' canonical syntax (variables are identifiers):

```
atom_length <id> <Atom> <Length>
atom_chars  <id> <Atom> <List>          atom_codes likewise
char_code   <id> <Char> <Code>
atom_concat <id> <A1> <A2> <A12>
sub_atom    <id> <Atom> <B> <L> <A> <Sub>
char_type   <id> <limit> <info> <Char> <Type>
```
`<info>`: `-` (ASCII table only) or `cp:bits:upper:lower` = the standard library's view of ONE
non-ASCII character: cp in hex, six bits alphabetic numeric whitespace control lowercase uppercase,
to_uppercase and to_lowercase as `.`-separated hex code points.
Result: `error(<formal>)`, or the answers `{A=t,B=t}` / `true` joined by ` ;; `, or `false`.
-/
open Scryer Scryer.Drv Scryer.AtomOps

def argOf : Term → Arg
  | .var n => .var n
  | .int v => .con (.int v)
  | .atom a => .con (.atom a.toList)
  | t => .other t

def termSize : Term → Nat
  | .str _ args => 1 + (args.attach.map fun ⟨a, _⟩ => termSize a).sum
  | _ => 1

def largOf (t : Term) : LArg :=
  let (xs, tl) := Term.unconsAll (termSize t + 1) t
  ⟨xs.map argOf, argOf tl⟩

def targOf : Term → TArg
  | .var n => .var n
  | .atom s => .name s
  | .str f [u] => .fn f (largOf u)
  | t => .bad t

def valTerm : Val → Term
  | .one a => a.toTerm
  | .list xs => Term.ofList (xs.map Atomic.toTerm)
  | .app f xs => .str f [Term.ofList (xs.map Atomic.toTerm)]

def errTerm : Err → Term
  | .inst => .atom "instantiation_error"
  | .type ty c => .str "type_error" [.atom ty, c]
  | .dom d c => .str "domain_error" [.atom d, c]
  | .rep w => .str "representation_error" [.atom w]

def insertSorted (p : String × Val) : List (String × Val) → List (String × Val)
  | [] => [p]
  | q :: r => if p.1 < q.1 then p :: q :: r else q :: insertSorted p r

def showSubst (s : Subst) : String :=
  if s.isEmpty then "true" else
  let sorted := s.foldr insertSorted []
  "{" ++ ",".intercalate (sorted.map fun (n, v) => n ++ "=" ++ showTerm (valTerm v)) ++ "}"

def showRes : Res → String
  | .error e => "error(" ++ showTerm (errTerm e) ++ ")"
  | .ok [] => "false"
  | .ok as => " ;; ".intercalate (as.map showSubst)

def noInfo : CharInfo :=
  { alphabetic := false, numeric := false, whitespace := false, control := false,
    lowercase := false, uppercase := false, upper := [], lower := [] }

def hexNat (s : String) : Nat := (parseHex? s.toList).getD 0
def hexChars (s : String) : List Char :=
  if s.isEmpty then [] else (s.splitOn ".").map fun h => Char.ofNat (hexNat h)

def parseInfo (s : String) : Nat → CharInfo :=
  let base : Nat → CharInfo := fun cp => if cp < 128 then asciiInfo cp else noInfo
  match s.splitOn ":" with
  | [cp, bits, up, lo] =>
      let b := bits.toList.map (· == '1')
      let i : CharInfo :=
        { alphabetic := b.getD 0 false, numeric := b.getD 1 false, whitespace := b.getD 2 false,
          control := b.getD 3 false, lowercase := b.getD 4 false, uppercase := b.getD 5 false,
          upper := hexChars up, lower := hexChars lo }
      let c := hexNat cp
      fun k => if k = c then i else base k
  | _ => base

def T (s : String) : Term := (parseTermStr s).getD (.atom "?unparsable?")

def main : IO Unit := runDriver fun
  | "atom_length" :: _ :: a :: l :: _ => showRes (atomLength (argOf (T a)) (argOf (T l)))
  | "atom_chars" :: _ :: a :: l :: _ => showRes (atomChars (argOf (T a)) (largOf (T l)))
  | "atom_codes" :: _ :: a :: l :: _ => showRes (atomCodes (argOf (T a)) (largOf (T l)))
  | "char_code" :: _ :: c :: k :: _ => showRes (charCode (argOf (T c)) (argOf (T k)))
  | "atom_concat" :: _ :: x :: y :: z :: _ =>
      showRes (atomConcat (argOf (T x)) (argOf (T y)) (argOf (T z)))
  | "sub_atom" :: _ :: a :: b :: l :: r :: s :: _ =>
      showRes (subAtom (argOf (T a)) (argOf (T b)) (argOf (T l)) (argOf (T r)) (argOf (T s)))
  | "char_type" :: _ :: limit :: info :: c :: t :: _ =>
      showRes (charType (parseInfo info) (limit.toNat?.getD 128) (argOf (T c)) (targOf (T t)))
  | _ => "bad-op"
