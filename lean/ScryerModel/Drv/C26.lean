import ScryerModel.Drv.Util
import ScryerModel.Drv.TermIO
import ScryerModel.Model.Coroutine
/- drv_C26: `run <id> <vars> <script>` (terms in the harness' canonical syntax).
   `<vars>` is any term (the list of the script's variables); `<script>` a list of
     'u'(S,T)            unification S = T
     'd'(S,T)            dif(S,T)
     'w'(Cond,Id,Body)   when(Cond, G) where G logs Id and then runs Body (a list of 'u'/'d')
   Cond: 'nonvar'(T) | 'ground'(T) | 'and'(C,C) | 'or'(C,C).   freeze(X,G) = 'w'('nonvar'(X),Id,Body).
   Result: `fail`, `parse-error`, or
     `ok 'r'(<vars under σ>, ['dif'(S,T)…], ['w'(Cond,Id)…], [Id…])`
   (residual pending difs and suspended goals under the final bindings, run log in order). -/
open Scryer Scryer.Drv Scryer.Unify Scryer.Coroutine

def listElems : Term → Option (List Term)
  | t => let (xs, tl) := Term.unconsAll 10000 t
         match tl with
         | .atom "[]" => some xs
         | _ => none

partial def toCond : Term → Option Cond
  | .str "nonvar" [t] => some (.nonvar t)
  | .str "ground" [t] => some (.ground t)
  | .str "and" [a, b] => do some (.and (← toCond a) (← toCond b))
  | .str "or" [a, b] => do some (.or (← toCond a) (← toCond b))
  | _ => none

def toBasic : Term → Option Basic
  | .str "u" [s, t] => some (.unify s t)
  | .str "d" [s, t] => some (.dif s t)
  | _ => none

def toOp : Term → Option Op
  | .str "w" [c, .int id, body] => do
      let c ← toCond c
      let bs ← listElems body
      let bs ← bs.mapM toBasic
      some (.susp ⟨c, id.toNat, bs⟩)
  | t => (toBasic t).map Op.basic

def condTerm : Cond → Term
  | .nonvar t => .str "nonvar" [t]
  | .ground t => .str "ground" [t]
  | .and a b => .str "and" [condTerm a, condTerm b]
  | .or a b => .str "or" [condTerm a, condTerm b]

def runLine (vars script : String) : String :=
  match parseTermStr vars, parseTermStr script with
  | some vs, some sc =>
      match (listElems sc).bind (fun l => l.mapM toOp) with
      | none => "parse-error"
      | some ops =>
          match run ops with
          | none => "fail"
          | some st =>
              let difs := st.residualDifs.map fun d => Term.str "dif" [d.1, d.2]
              let susps := st.susps.map fun sp =>
                Term.str "w" [condTerm (sp.cond.apply st.σ), .int sp.id]
              let log := st.log.map fun (n : Nat) => Term.int (Int.ofNat n)
              "ok " ++ showTerm (.str "r" [applyS st.σ vs, Term.ofList difs, Term.ofList susps,
                Term.ofList log])
  | _, _ => "parse-error"

def main : IO Unit := runDriver fun
  | "run" :: _ :: vs :: sc :: _ => runLine vs sc
  | _ => "bad-op"
