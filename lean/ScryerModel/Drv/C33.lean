import ScryerModel.Drv.Util
import ScryerModel.Model.Heap
/- drv_C33:
   `HS <id> <cap_cells> <op;op;…>` → the heap model run on the same script the harness op `HS`
   runs on the real `Heap` (see `verif_hooks::heap_script` for the operation syntax); one report
   token `<status>,<byte_len>,<byte_cap>[,<detail>]` per operation.
   `SZ <id> <hex>` → `compute_pstr_size`, cells written by `push_pstr`, returned cell. -/
open Scryer.Drv Scryer.Heap

def hexVal (c : Char) : Nat :=
  if '0' ≤ c ∧ c ≤ '9' then c.toNat - '0'.toNat
  else if 'a' ≤ c ∧ c ≤ 'f' then c.toNat - 'a'.toNat + 10
  else if 'A' ≤ c ∧ c ≤ 'F' then c.toNat - 'A'.toNat + 10
  else 0

def hexBytes (s : String) : List Nat :=
  if s == "-" then [] else
  let rec go : List Char → List Nat → List Nat
    | a :: b :: r, acc => go r ((hexVal a * 16 + hexVal b) :: acc)
    | _, acc => acc.reverse
  go s.toList []

def hexDigit (n : Nat) : Char := if n < 10 then Char.ofNat (48 + n) else Char.ofNat (87 + n)

def hexOfBytes (bs : List Nat) : String :=
  if bs.isEmpty then "-" else
  String.ofList (bs.flatMap fun b => [hexDigit (b / 16 % 16), hexDigit (b % 16)])

def cellDesc : Cell → String
  | .pstrLoc b => s!"P{b}"
  | .lis c => s!"L{c}"
  | .heapLoc c => s!"V{c}"
  | .strLoc c => s!"S{c}"
  | .nil => "N"
  | _ => "O"

def kindStr : TailKind → String
  | .nil => "nil" | .end_ => "end" | .other => "other" | .oob => "oob"
  | .nochar => "nochar" | .loop => "loop" | .undef => "undef"

def showRead (r : List Nat × Nat × TailKind) : String :=
  s!"{hexOfBytes r.1}@{r.2.1}:{kindStr r.2.2}"

structure DSt where
  h : Heap
  strings : Array (Option (Cell × Nat)) := #[]
  counter : Nat := 0
  out : Array String := #[]

def tok (status : String) (h : Heap) (detail : Option String := none) : String :=
  match detail with
  | some d => s!"{status},{h.len},{h.cap},{d}"
  | none => s!"{status},{h.len},{h.cap}"

/-- report of a model result; `h0` is the heap before the operation -/
def report {α} (st : DSt) (r : Res α) (detail : Heap → α → Option String) : DSt :=
  match r with
  | .ok h a => { st with h := h, out := st.out.push (tok "ok" h (detail h a)) }
  | .allocErr h => { st with h := h, out := st.out.push (tok "err" h) }
  | .panic h => { st with h := h, out := st.out.push (tok "PANIC" h) }
  | .contract h => { st with h := h, out := st.out.push (tok "bad" h) }
  | .stuck => { st with out := st.out.push "STUCK" }

def pushN : Nat → DSt → DSt × Bool
  | 0, st => (st, true)
  | n + 1, st =>
    let st := { st with counter := st.counter + 1 }
    match st.h.pushCell (.raw st.counter) with
    | .ok h _ => pushN n { st with h := h }
    | r => ({ st with h := r.heapD st.h }, false)

def rawCells (n : Nat) : List Cell := (List.range n).map Cell.raw

def runOp (st : DSt) (op : String) : DSt :=
  let w := words op
  let arg (i : Nat) : Option Nat := (w[i]?).bind String.toNat?
  let h := st.h
  match w with
  | "budget" :: _ =>
    let h' := { h with budget := arg 1 }
    { st with h := h', out := st.out.push (tok "ok" h') }
  | "grow" :: _ => report st (step h .grow) fun _ _ => none
  | "read" :: _ | "step" :: _ =>
    let r := match ((arg 1).bind (st.strings[·]?)).join with
      | some (c, _) => showRead (denote h c)
      | none => "na"
    { st with out := st.out.push (tok "ok" h (some r)) }
  | "push" :: _ =>
    match arg 1 with
    | some n =>
      let (st', ok) := pushN n st
      { st' with out := st'.out.push (tok (if ok then "ok" else "err") st'.h) }
    | none => { st with out := st.out.push (tok "bad" h) }
  | "pstr" :: x :: _ =>
    let st' := report st (h.allocatePstr (hexBytes x)) fun _ c => some (cellDesc c)
    match h.allocatePstr (hexBytes x) with
    | .ok h' c => { st' with strings := st'.strings.push (some (c, h'.cellLen + 1)) }
    | _ => st'
  | "cstr" :: x :: _ =>
    let st' := report st (h.allocateCstr (hexBytes x)) fun _ c => some (cellDesc c)
    match h.allocateCstr (hexBytes x) with
    | .ok h' c => { st' with strings := st'.strings.push (some (c, h'.cellLen)) }
    | _ => st'
  | "copypstr" :: _ =>
    match arg 1, arg 2 with
    | some k, some off =>
      match (st.strings[k]?).join with
      | some (.pstrLoc b, _) =>
        let loc := b + off
        let segLen := if b ≥ h.len then 0 else
          match scanSliceToStr h.mem h.len b with | some (str, _) => str.length | none => 0
        if off ≥ segLen then { st with out := st.out.push (tok "bad" h) }
        else report st (h.copyPstrWithin loc) fun h' t =>
          match scanSliceToStr h'.mem h'.len h.len with
          | some (str, tl) => some s!"T{t}:{hexOfBytes str}@{tl}"
          | none => some s!"T{t}:undef"
      | _ => { st with out := st.out.push (tok "bad" h) }
    | _, _ => { st with out := st.out.push (tok "bad" h) }
  | "copyslice" :: _ =>
    match arg 1, arg 2 with
    | some a, some b =>
      if h.cap = 0 then { st with out := st.out.push (tok "bad" h) }
      else report st (h.copySliceToEnd a b) fun _ _ => none
    | _, _ => { st with out := st.out.push (tok "bad" h) }
  | "reserve" :: _ =>
    match arg 1, arg 2 with
    | some n, some k => report st (step h (.reserveWrite n (rawCells k))) fun _ _ => none
    | _, _ => { st with out := st.out.push (tok "bad" h) }
  | "list" :: _ =>
    match arg 1, arg 2 with
    | some size, some items =>
      report st (step h (.heapList size (rawCells items))) fun _ r =>
        match r with | .cell c => some (cellDesc c) | _ => none
    | _, _ => { st with out := st.out.push (tok "bad" h) }
  | "append" :: _ =>
    match arg 1 with
    | some n =>
      if h.cap = 0 then { st with out := st.out.push (tok "bad" h) }
      else report st (h.append ((rawCells n).flatMap encodeCell)) fun _ _ => none
    | none => { st with out := st.out.push (tok "bad" h) }
  | "truncate" :: _ =>
    match arg 1 with
    | some c =>
      let st' := report st (h.truncate c) fun _ _ => none
      match h.truncate c with
      | .ok _ _ => { st' with strings := st'.strings.map fun e =>
          match e with | some (cl, e') => if e' > c then none else some (cl, e') | none => none }
      | _ => st'
    | none => { st with out := st.out.push (tok "bad" h) }
  | "functor" :: x :: _ =>
    report st (step h (.functor (errorStub (hexBytes x)))) fun _ r =>
      match r with | .cell c => some (cellDesc c) | _ => none
  | _ => { st with out := st.out.push (tok "bad" h) }

def runScript (capCells : Nat) (ops : List String) : String :=
  let h0 : Option Heap := if capCells = 0 then some {} else withCellCapacity capCells
  match h0 with
  | none => "err,0,0"
  | some h =>
    let st := ops.foldl runOp { h := h }
    " ".intercalate st.out.toList

def sizes (src : List Nat) : String :=
  let sec : Section := ⟨{}, 0, 0, 0⟩
  let r := sec.pushPstr src
  s!"{computePstrSize src} {r.1.cellLen} {match r.2 with | some c => cellDesc c | none => "none"}"

def main : IO Unit := runDriver fun
  | "HS" :: _ :: cap :: ops :: _ =>
    runScript (cap.toNat?.getD 0) ((ops.splitOn ";").filter (fun s => (words s) ≠ []))
  | "HS" :: _ :: cap :: [] => runScript (cap.toNat?.getD 0) []
  | "SZ" :: _ :: x :: _ => sizes (hexBytes x)
  | _ => "bad-op"
