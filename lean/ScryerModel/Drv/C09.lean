import ScryerModel.Model.Luv
import ScryerModel.Drv.Util
/-!
drv_C09: runs one update/iteration script on the model of `Model/Luv.lean`.

`run <id> <variant> <init> <script>`
* variant: two characters, `1` = repaired / `0` = pinned, for `Variant.cc` and `Variant.idx`
  (`11` is the behaviour the theorems are about);
* init: space separated `P:K:V` (clause `P(K,V)` consulted in this order; `K` = `_` for a variable
  first argument) or `P` alone (declared dynamic, no clause); `-` if empty;
* script: space separated prefix tokens
    `az P K V` assertz | `aa P K V` asserta | `r1 P KP VP` once(retract) | `ra P KP VP` retractall
    `ab P` abolish | `lg T` log the loop variables | `ob T P KP` log findall over `P(KP,_)`
    `tc P` call `\+ \+ P(_,_)` | `lp G H P KP VP ( … )` failure driven loop over
    G = `c` call (H = `c` chain walk, `b` index line walk), `k` clause/2, `r` retract/1
    `if D V ( … )` body only when loop variable number D (0 = outermost) equals V.
Result: the log entries joined by `;` (`l<T>:<vars>` / `o<T>:<values>`), followed by `|stuck` if the
machine re-enters a dispatch instruction forever, `|runaway` if the step budget is exhausted.
-/
open Scryer.Drv
open Scryer.Luv

namespace Scryer.DrvC09

structure Cl where
  key : Option Int
  val : Int
deriving Repr

inductive Stmt where
  | az (p : String) (c : Cl)
  | aa (p : String) (c : Cl)
  | r1 (p : String) (kp vp : Option Int)
  | ra (p : String) (kp vp : Option Int)
  | ab (p : String)
  | lg (t : Int)
  | ob (t : Int) (p : String) (kp : Option Int)
  | tc (p : String)
  | lp (g h : String) (p : String) (kp vp : Option Int) (body : List Stmt)
  | ite (d : Nat) (v : Int) (body : List Stmt)

def pat? (s : String) : Option (Option Int) :=
  if s = "_" then some none else (parseInt? s).map some

/-- parse statements up to the closing `)` (or the end); returns the rest behind it -/
partial def parseStmts : List String → Option (List Stmt × List String)
  | [] => some ([], [])
  | ")" :: r => some ([], r)
  | "az" :: p :: k :: v :: r => do
    let k ← pat? k; let v ← parseInt? v; let (ss, r') ← parseStmts r; pure (.az p ⟨k, v⟩ :: ss, r')
  | "aa" :: p :: k :: v :: r => do
    let k ← pat? k; let v ← parseInt? v; let (ss, r') ← parseStmts r; pure (.aa p ⟨k, v⟩ :: ss, r')
  | "r1" :: p :: k :: v :: r => do
    let k ← pat? k; let v ← pat? v; let (ss, r') ← parseStmts r; pure (.r1 p k v :: ss, r')
  | "ra" :: p :: k :: v :: r => do
    let k ← pat? k; let v ← pat? v; let (ss, r') ← parseStmts r; pure (.ra p k v :: ss, r')
  | "ab" :: p :: r => do let (ss, r') ← parseStmts r; pure (.ab p :: ss, r')
  | "lg" :: t :: r => do let t ← parseInt? t; let (ss, r') ← parseStmts r; pure (.lg t :: ss, r')
  | "ob" :: t :: p :: k :: r => do
    let t ← parseInt? t; let k ← pat? k; let (ss, r') ← parseStmts r; pure (.ob t p k :: ss, r')
  | "tc" :: p :: r => do let (ss, r') ← parseStmts r; pure (.tc p :: ss, r')
  | "lp" :: g :: h :: p :: k :: v :: "(" :: r => do
    let k ← pat? k; let v ← pat? v
    let (body, r1) ← parseStmts r
    let (ss, r2) ← parseStmts r1
    pure (.lp g h p k v body :: ss, r2)
  | "if" :: d :: v :: "(" :: r => do
    let d ← d.toNat?; let v ← parseInt? v
    let (body, r1) ← parseStmts r
    let (ss, r2) ← parseStmts r1
    pure (.ite d v body :: ss, r2)
  | _ => none

structure World where
  dbs : List (String × DB Cl)
  clock : Nat
  reg : Nat
  log : List String
  stuck : Bool
  budget : Nat

def World.db (w : World) (p : String) : DB Cl :=
  match w.dbs.find? (fun x => x.1 == p) with
  | some x => { x.2 with clock := w.clock }
  | none => { (DB.empty : DB Cl) with clock := w.clock }

def World.setDb (w : World) (p : String) (db : DB Cl) : World :=
  { w with dbs := (p, db) :: w.dbs.filter (fun x => x.1 != p), clock := db.clock }

def World.upd (w : World) (p : String) (u : Upd Cl) : World := w.setDb p ((w.db p).apply u)

def clMatch (kp vp : Option Int) (c : Cl) : Bool :=
  (match kp, c.key with
   | none, _ => true
   | _, none => true
   | some a, some b => a == b) &&
  (match vp with
   | none => true
   | some v => v == c.val)

def showInts (l : List Int) : String := ",".intercalate (l.map toString)

def World.say (w : World) (s : String) : World :=
  { w with log := s :: w.log, clock := w.clock + 1,
           budget := if w.log.length + 1 > 400 then 0 else w.budget }

def World.dead (w : World) : Bool := w.stuck || w.budget == 0

/-- the call touches the `cc` register when the predicate has code -/
def World.touch (w : World) (p : String) : World :=
  if (w.db p).chain.isEmpty then w else { w with reg := w.clock }

mutual
partial def exec (v : Variant) (env : List Int) : List Stmt → World → World
  | [], w => w
  | s :: ss, w =>
    if w.dead then w else
    let w := { w with budget := w.budget - 1 }
    let w' : World :=
      match s with
      | .az p c => w.upd p (.assertz c)
      | .aa p c => w.upd p (.asserta c)
      | .r1 p kp vp =>
        let r := (w.db p).retractFirst (fun c => clMatch kp vp c)
        w.setDb p r.2
      | .ra p kp vp => w.setDb p ((w.db p).retractall (fun c => clMatch kp vp c))
      | .ab p => w.upd p .abolish
      | .lg t => w.say s!"l{t}:{showInts env}"
      | .ob t p kp =>
        let db := w.db p
        let vals := (db.snapshot.filter (fun q => clMatch kp none q.2)).map (fun q => q.2.val)
        (w.touch p).say s!"o{t}:{showInts vals}"
      | .tc p => w.touch p
      | .ite d val body =>
        match env[d]? with
        | some x => if x == val then exec v env body w else w
        | none => w
      | .lp g h p kp vp body =>
        let db := w.db p
        if g == "k" then
          iterList v env body p false (db.liveList.filter (fun q => clMatch kp vp q.2)) w
        else if g == "r" then
          iterList v env body p true (db.retractList (fun c => clMatch kp vp c)) w
        else if h == "b" then
          let sel : Cl → Bool := fun c => c.key == kp
          let s := lineFirst v w.clock (db.chain.filter (fun e => sel e.cl))
          let w := if db.chain.isEmpty then w else { w with reg := s.cc }
          afterLine v env body p kp vp sel s w
        else
          let s := chainFirst w.clock db.chain
          let w := if db.chain.isEmpty then w else { w with reg := s.cc }
          afterChain v env body p kp vp s w
    exec v env ss w'

/-- clause/2 and retract/1: the solutions were collected when the goal was called -/
partial def iterList (v : Variant) (env : List Int) (body : List Stmt) (p : String) (del : Bool) :
    List (Nat × Cl) → World → World
  | [], w => w
  | q :: qs, w =>
    if w.dead then w else
    let w := { w with budget := w.budget - 1 }
    let w := if del then w.upd p (.retractId q.1) else w
    let w := exec v (env ++ [q.2.val]) body w
    iterList v env body p del qs w

partial def afterChain (v : Variant) (env : List Int) (body : List Stmt) (p : String)
    (kp vp : Option Int) (s : Step Cl Frame) (w : World) : World :=
  if w.dead then w else
  let w := { w with budget := w.budget - 1 }
  if s.stuck then { w with stuck := true } else
  match s.out with
  | none => w
  | some e =>
    let w := if clMatch kp vp e.cl then exec v (env ++ [e.cl.val]) body w else w
    match s.frame with
    | none => w
    | some f =>
      let db := w.db p
      let s' := chainNext v w.reg f (suffixFrom f.bp db.chain)
      afterChain v env body p kp vp s' { w with reg := s'.cc }

partial def afterLine (v : Variant) (env : List Int) (body : List Stmt) (p : String)
    (kp vp : Option Int) (sel : Cl → Bool) (s : Step Cl BFrame) (w : World) : World :=
  if w.dead then w else
  let w := { w with budget := w.budget - 1 }
  if s.stuck then { w with stuck := true } else
  match s.out with
  | none => w
  | some e =>
    let w := if clMatch kp vp e.cl then exec v (env ++ [e.cl.val]) body w else w
    match s.frame with
    | none => w
    | some f =>
      let db := w.db p
      let s' := lineNext v w.reg f (db.chain.filter (fun e => sel e.cl))
      afterLine v env body p kp vp sel s' { w with reg := s'.cc }
end

/-- consulting: all clauses of one predicate get the same birth, then the clock ticks once -/
def initWorld (toks : List String) : Option World := do
  let mut dbs : List (String × DB Cl) := []
  let mut preds : List String := []
  for t in toks do
    match t.splitOn ":" with
    | [p] =>
      if !preds.contains p then preds := preds ++ [p]
      if (dbs.find? (fun x => x.1 == p)).isNone then dbs := (p, DB.empty) :: dbs
    | [p, k, val] =>
      let k ← pat? k
      let val ← parseInt? val
      if !preds.contains p then preds := preds ++ [p]
      let db := match dbs.find? (fun x => x.1 == p) with
        | some x => x.2
        | none => DB.empty
      let db' : DB Cl := ⟨db.chain ++ [⟨db.next, 0, none, ⟨k, val⟩⟩], 1, db.next + 1⟩
      dbs := (p, db') :: dbs.filter (fun x => x.1 != p)
    | _ => none
  -- one tick per consulted predicate; only the order of stamps matters
  pure ⟨dbs, preds.length + 1, 0, [], false, 20000⟩

def variant? (s : String) : Option Variant :=
  match s.toList with
  | [a, b] => some ⟨a == '1', b == '1'⟩
  | _ => none

def runCase (vs init script : String) : String :=
  match variant? vs, initWorld (if init = "-" then [] else words init), parseStmts (words script) with
  | some v, some w, some (ss, []) =>
    let w := exec v [] ss w
    let base := ";".intercalate w.log.reverse
    if w.stuck then base ++ "|stuck"
    else if w.budget == 0 then base ++ "|runaway"
    else base
  | _, _, _ => "bad-input"

end Scryer.DrvC09

open Scryer.DrvC09 in
def main : IO Unit := runDriver fun
  | ["run", _, v, init, script] => runCase v init script
  | _ => "bad-op"
