import ScryerModel.Drv.Util
import ScryerModel.Model.Codec
/- drv_C37: codec model driver. All payloads are space separated decimal numbers (bytes or
   code points); results are `ok n n n…`, `none`, or `err …`.
     hexenc <id> <ints (may be negative / > 255)>      -> ok <code points of the hex text> | err byte <B>
     hexdec <id> <code points>                          -> ok <bytes> | none
     b64enc <id> <pad 0|1> <url 0|1> <bytes>            -> ok <code points>
     b64dec <id> <pad 0|1> <url 0|1> <code points>      -> ok <bytes> | none
     u8enc  <id> <code points>                          -> ok <bytes> (spec) ; mech must agree, else `mismatch`
     u8dec  <id> <bytes>                                -> spec=<ok … | none> mech=<ok … | repr | fail> mechfix=<…>
        (mech: charsio.pl at HEAD; mechfix: with the patch of notes/findings/C37-1.md)
-/
open Scryer.Drv Scryer.Codec

def natList (s : String) : Option (List Nat) := (words s).mapM String.toNat?
def intList (s : String) : Option (List Int) := (words s).mapM parseInt?

def showNats (l : List Nat) : String := " ".intercalate (l.map toString)
def okNats (l : List Nat) : String := if l.isEmpty then "ok" else "ok " ++ showNats l
def charsOfCodes (l : List Nat) : List Char := l.map Char.ofNat
def codesOfChars (l : List Char) : List Nat := l.map Char.toNat

def optsOf (p u : String) : B64Opts := { pad := p == "1", url := u == "1" }

def u8encLine (cs : List Nat) : String :=
  let spec := utf8Encode cs
  let mech := cs.foldr (fun c acc => match utf8EncodeCharMech c, acc with
                                     | some b, some r => some (b ++ r)
                                     | _, _ => none) (some [])
  if mech == some spec then okNats spec else "mismatch spec=" ++ showNats spec

def u8decLine (bs : List Nat) : String :=
  let spec := match utf8Decode bs with
    | some cs => okNats cs
    | none => "none"
  let mech (fix : Bool) := match utf8DecodeMech fix bs with
    | .ok cs => okNats cs
    | .reprErr => "repr"
    | .fail => "fail"
  s!"spec={spec} mech={mech false} mechfix={mech true}"

def handle : List String → String
  | ["hexenc", _, a] | ["hexenc", _, a, _] =>
    match intList a with
    | some l => match hexBytesEnc l with
      | .ok cs => okNats (codesOfChars cs)
      | .error b => s!"err byte {b}"
    | none => "bad-args"
  | ["hexenc", _] => okNats []
  | ["hexdec", _, a] =>
    match natList a with
    | some l => match hexDecode (charsOfCodes l) with
      | some bs => okNats bs
      | none => "none"
    | none => "bad-args"
  | ["hexdec", _] => okNats []
  | ["b64enc", _, p, u, a] =>
    match natList a with
    | some l => okNats (codesOfChars (b64Encode (optsOf p u) l))
    | none => "bad-args"
  | ["b64enc", _, _, _] => okNats []
  | ["b64dec", _, p, u, a] =>
    match natList a with
    | some l => match b64Decode (optsOf p u) (charsOfCodes l) with
      | some bs => okNats bs
      | none => "none"
    | none => "bad-args"
  | ["b64dec", _, p, u] =>
    match b64Decode (optsOf p u) [] with
    | some bs => okNats bs
    | none => "none"
  | ["u8enc", _, a] => match natList a with
    | some l => u8encLine l
    | none => "bad-args"
  | ["u8enc", _] => u8encLine []
  | ["u8dec", _, a] => match natList a with
    | some l => u8decLine l
    | none => "bad-args"
  | ["u8dec", _] => u8decLine []
  | _ => "bad-op"

def main : IO Unit := runDriver handle
