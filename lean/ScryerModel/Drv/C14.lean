import ScryerModel.Model.Order
import ScryerModel.Model.Sort
import ScryerModel.Model.OrdSet
import ScryerModel.Model.Assoc
import ScryerModel.Model.ListLib
import ScryerModel.Drv.Util
import ScryerModel.Drv.TermIO
/-
drv_C14 — line protocol (TAB separated), every argument is a term in the harness' canonical syntax;
the answer is a term in the same syntax (or `fail`, `inst`, `type <kind> <culprit>`,
`domain_error`, `parse-error`).

  sort    <id> <L> <S>       sort/2 call        -> ok <list> | inst | type list <culprit>
  keysort <id> <L> <S>       keysort/2 call     -> ok <list> | inst | type (list|pair) <culprit>
  isort   <id> <L>           insertion-sort + dedup (cross-check of the two sort algorithms)
  oset    <id> <op> <args…>  library(ordsets)   (see `osetOp`)
  assoc   <id> <cmd> <args…> <cmd> <args…> …    a history on one assoc, starting from `t`
                             -> `[R1,…,Rn]`, one result per command (see `assocCmd`)
  l2a     <id> <L>           list_to_assoc/2    -> tree | domain_error | fail
  ol2a    <id> <L>           ord_list_to_assoc/2
  lst     <id> <op> <args…>  library(lists) / library(pairs)  (see `listOp`)
Variables are aged by the number in their name (only used for printing; the generated terms for
order-sensitive operations are ground).
-/
open Scryer Scryer.Drv Scryer.Order

def ageOf (name : String) : Nat :=
  let ds := name.toList.filter Char.isDigit
  (String.ofList ds).toNat?.getD 0

def tcmp : Term → Term → Ordering := termCompare ageOf

def listArg (s : String) : Option (List Term) := (parseTermStr s).bind asProperList?

def showList (l : List Term) : String := showTerm (Term.ofList l)

def showBool (b : Bool) : String := if b then "true" else "false"

def showOutcome : Sort.Outcome → String
  | .unifyWith r => "ok " ++ showTerm r
  | .instErr => "inst"
  | .typeErr k c => s!"type {k} {showTerm c}"

def pairT (a b : Term) : Term := .str "-" [a, b]

def unpair? : Term → Option (Term × Term)
  | .str "-" [k, v] => some (k, v)
  | _ => none

def pairsArg (s : String) : Option (List (Term × Term)) :=
  (listArg s).bind fun l => l.mapM unpair?

def showPairs (l : List (Term × Term)) : String := showList (l.map fun p => pairT p.1 p.2)

/-! ### ordsets -/

def osetOp : List String → String
  | ["union", a, b] => match listArg a, listArg b with
      | some x, some y => showList (OrdSet.ordUnion tcmp x y) | _, _ => "parse-error"
  | ["int", a, b] => match listArg a, listArg b with
      | some x, some y => showList (OrdSet.ordInt tcmp x y) | _, _ => "parse-error"
  | ["subtract", a, b] => match listArg a, listArg b with
      | some x, some y => showList (OrdSet.ordSubtract tcmp x y) | _, _ => "parse-error"
  | ["symdiff", a, b] => match listArg a, listArg b with
      | some x, some y => showList (OrdSet.ordSymdiff tcmp x y) | _, _ => "parse-error"
  | ["add", a, e] => match listArg a, parseTermStr e with
      | some x, some y => showList (OrdSet.addel tcmp x y) | _, _ => "parse-error"
  | ["del", a, e] => match listArg a, parseTermStr e with
      | some x, some y => showList (OrdSet.delel tcmp x y) | _, _ => "parse-error"
  | ["memberchk", e, a] => match parseTermStr e, listArg a with
      | some y, some x => showBool (OrdSet.ordMemberchk tcmp y x) | _, _ => "parse-error"
  | ["subset", a, b] => match listArg a, listArg b with
      | some x, some y => showBool (OrdSet.ordSubset tcmp x y) | _, _ => "parse-error"
  | ["intersect", a, b] => match listArg a, listArg b with
      | some x, some y => showBool (OrdSet.ordIntersect tcmp x y) | _, _ => "parse-error"
  | ["disjoint", a, b] => match listArg a, listArg b with
      | some x, some y => showBool (OrdSet.ordDisjoint tcmp x y) | _, _ => "parse-error"
  | ["union4", a, b] => match listArg a, listArg b with
      | some x, some y =>
          let r := OrdSet.ordUnion4 tcmp x y
          showTerm (pairT (Term.ofList r.1) (Term.ofList r.2))
      | _, _ => "parse-error"
  | ["int4", a, b] => match listArg a, listArg b with
      | some x, some y =>
          let r := OrdSet.ordInt4 tcmp x y
          showTerm (pairT (Term.ofList r.1) (Term.ofList r.2))
      | _, _ => "parse-error"
  | ["unionall", a] => match (listArg a).bind fun l => l.mapM asProperList? with
      | some ls => (match OrdSet.ordUnionList tcmp ls with
                    | some r => showList r | none => "fail")
      | none => "parse-error"
  | ["is_ordset", a] => match listArg a with
      | some x => showBool (OrdSet.isOrdset tcmp x) | none => "parse-error"
  | ["list_to_ord_set", a] => match listArg a with
      | some x => showList (Sort.sortDedup tcmp x) | none => "parse-error"
  | _ => "bad-op"

/-! ### assoc -/

abbrev ATree := Assoc.Tree Term Term

def balT : Assoc.Bal → Term
  | .lt => .atom "<" | .eq => .atom "-" | .gt => .atom ">"

def treeT : ATree → Term
  | .t => .atom "t"
  | .node k v b l r => .str "t" [k, v, balT b, treeT l, treeT r]

def yes (args : List Term) : Term := .str "yes" args
def no : Term := .atom "no"

/-- runs the commands; returns the results in reverse. -/
def assocRun : Nat → ATree → List String → List Term → Option (List Term)
  | 0, _, _, _ => none
  | _, _, [], acc => some acc
  | f + 1, a, "put" :: k :: v :: rest, acc =>
      (match parseTermStr k, parseTermStr v with
       | some k, some v =>
          (match Assoc.putAssoc tcmp k a v with
           | some a' => assocRun f a' rest (treeT a' :: acc)
           | none => assocRun f a rest (no :: acc))
       | _, _ => none)
  | f + 1, a, "get" :: k :: rest, acc =>
      (match parseTermStr k with
       | some k =>
          (match Assoc.get tcmp k a with
           | some v => assocRun f a rest (yes [v] :: acc)
           | none => assocRun f a rest (no :: acc))
       | none => none)
  | f + 1, a, "del" :: k :: rest, acc =>
      (match parseTermStr k with
       | some k =>
          (match Assoc.delAssoc tcmp k a with
           | some (v, a') => assocRun f a' rest (yes [v, treeT a'] :: acc)
           | none => assocRun f a rest (no :: acc))
       | none => none)
  | f + 1, a, "delmin" :: rest, acc =>
      (match Assoc.delMin a with
       | some (k, v, a', _) => assocRun f a' rest (yes [k, v, treeT a'] :: acc)
       | none => assocRun f a rest (no :: acc))
  | f + 1, a, "delmax" :: rest, acc =>
      (match Assoc.delMax a with
       | some (k, v, a', _) => assocRun f a' rest (yes [k, v, treeT a'] :: acc)
       | none => assocRun f a rest (no :: acc))
  | f + 1, a, "min" :: rest, acc =>
      (match Assoc.minAssoc a with
       | some (k, v) => assocRun f a rest (yes [k, v] :: acc)
       | none => assocRun f a rest (no :: acc))
  | f + 1, a, "max" :: rest, acc =>
      (match Assoc.maxAssoc a with
       | some (k, v) => assocRun f a rest (yes [k, v] :: acc)
       | none => assocRun f a rest (no :: acc))
  | f + 1, a, "list" :: rest, acc =>
      assocRun f a rest (Term.ofList ((Assoc.toList a).map fun p => pairT p.1 p.2) :: acc)
  | f + 1, a, "keys" :: rest, acc => assocRun f a rest (Term.ofList (Assoc.toKeys a) :: acc)
  | f + 1, a, "values" :: rest, acc => assocRun f a rest (Term.ofList (Assoc.toValues a) :: acc)
  | _, _, _, _ => none

def showL2A : Assoc.L2A Term Term → String
  | .ok tr => showTerm (treeT tr)
  | .domainError => "domain_error"
  | .failed => "fail"

/-! ### lists / pairs -/

def intArg (s : String) : Option (List Int) :=
  (listArg s).bind fun l => l.mapM fun | .int v => some v | _ => none

def natArg (s : String) : Option Nat := s.toNat?

def optT (o : Option Term) : String := match o with | some t => showTerm t | none => "fail"

def listOp : List String → String
  | ["append", a, b] => match listArg a, listArg b with
      | some x, some y => showList (ListLib.append3 x y) | _, _ => "parse-error"
  | ["append_splits", a] => match listArg a with
      | some x => showList ((ListLib.appendSplits x).map fun p => pairT (Term.ofList p.1) (Term.ofList p.2))
      | none => "parse-error"
  | ["append2", a] => match (listArg a).bind fun l => l.mapM asProperList? with
      | some ls => showList (ListLib.append2 ls) | none => "parse-error"
  | ["reverse", a] => match listArg a with
      | some x => showList (ListLib.reverse x) | none => "parse-error"
  | ["length", a] => match listArg a with
      | some x => toString x.length | none => "parse-error"
  | ["nth0", n, a] => match natArg n, listArg a with
      | some n, some x => optT (ListLib.nth0 n x) | _, _ => "parse-error"
  | ["nth1", n, a] => match natArg n, listArg a with
      | some n, some x => optT (ListLib.nth1 n x) | _, _ => "parse-error"
  | ["nth0_all", a] => match listArg a with
      | some x => showList ((ListLib.nth0All x).map fun p => pairT (.int p.1) p.2) | none => "parse-error"
  | ["nth1_all", a] => match listArg a with
      | some x => showList ((ListLib.nth0All x).map fun p => pairT (.int (p.1 + 1)) p.2) | none => "parse-error"
  | ["nth0_rest", n, a] => match natArg n, listArg a with
      | some n, some x => optT ((ListLib.nth0Rest n x).map fun p => pairT p.1 (Term.ofList p.2))
      | _, _ => "parse-error"
  | ["select_all", a] => match listArg a with
      | some x => showList ((ListLib.selects x).map fun p => pairT p.1 (Term.ofList p.2)) | none => "parse-error"
  | ["member_all", a] => match listArg a with
      | some x => showList x | none => "parse-error"
  | ["memberchk", e, a] => match parseTermStr e, listArg a with
      | some y, some x => showBool (ListLib.memberchk tcmp y x) | _, _ => "parse-error"
  | ["perms", a] => match listArg a with
      | some x => showList ((ListLib.perms x.length x).map Term.ofList) | none => "parse-error"
  | ["sum_list", a] => match intArg a with
      | some x => toString (ListLib.sumList x) | none => "parse-error"
  | ["list_max", a] => match intArg a with
      | some x => (match ListLib.listMax x with | some v => toString v | none => "fail") | none => "parse-error"
  | ["list_min", a] => match intArg a with
      | some x => (match ListLib.listMin x with | some v => toString v | none => "fail") | none => "parse-error"
  | ["list_to_set", a] => match listArg a with
      | some x => showList (ListLib.listToSet tcmp x) | none => "parse-error"
  | ["pairs_kv", a] => match pairsArg a with
      | some ps =>
          let r := ListLib.pairsKeysValues ps
          showTerm (pairT (Term.ofList r.1) (Term.ofList r.2))
      | none => "parse-error"
  | ["kv_pairs", a, b] => match listArg a, listArg b with
      | some ks, some vs => (match ListLib.pairsOfKeysValues ks vs with
                             | some ps => showPairs ps | none => "fail")
      | _, _ => "parse-error"
  | ["group_pairs", a] => match pairsArg a with
      | some ps => showList ((ListLib.groupPairsByKey tcmp ps).map fun p => pairT p.1 (Term.ofList p.2))
      | none => "parse-error"
  | _ => "bad-op"

def main : IO Unit := runDriver fun
  | "sort" :: _ :: l :: s :: _ =>
      match parseTermStr l, parseTermStr s with
      | some l, some s => showOutcome (Sort.sortCall tcmp l s)
      | _, _ => "parse-error"
  | "keysort" :: _ :: l :: s :: _ =>
      match parseTermStr l, parseTermStr s with
      | some l, some s => showOutcome (Sort.keysortCall tcmp l s)
      | _, _ => "parse-error"
  | "isort" :: _ :: l :: _ =>
      match listArg l with
      | some x => showList (Sort.dedupAdj tcmp (Sort.isort tcmp x))
      | none => "parse-error"
  | "oset" :: _ :: args => osetOp args
  | "assoc" :: _ :: cmds =>
      match assocRun (cmds.length + 1) .t cmds [] with
      | some acc => showList acc.reverse
      | none => "parse-error"
  | "l2a" :: _ :: l :: _ =>
      match pairsArg l with
      | some ps => showL2A (Assoc.listToAssoc tcmp ps)
      | none => "parse-error"
  | "ol2a" :: _ :: l :: _ =>
      match pairsArg l with
      | some ps => showL2A (Assoc.ordListToAssoc tcmp ps)
      | none => "parse-error"
  | "lst" :: _ :: args => listOp args
  | _ => "bad-op"
