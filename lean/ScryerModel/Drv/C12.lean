import ScryerModel.Model.Cleanup
import ScryerModel.Drv.Util
import ScryerModel.Drv.TermIO
/-
drv_C12: `run <id> <clauses joined by " ;; "> <goal> <template>`
  clauses / goal / template in the harness' canonical syntax; a clause is `':-'(Head,Body)` or a fact.
Result: `R <fuel> :: <event> ;; <event> … || <answer> ;; … || <ball or -> || <markers>`
  events   = the terms recorded by `ev/1`, in order (an answer is NOT an event; programs log their
             answers themselves when the interleaving matters),
  answers  = the template under each answer substitution,
  ball     = the uncaught ball (after the answers),
  markers  = s (set-up done) / x f e c (clean-up on exit, failure, exception, cut), in order.
`oof <fuel>` when the model did not finish within the fuel schedule; `unstable <fuel>` if twice the fuel
gives a different trace (never observed; run-time guard for the fuel monotonicity that is proved for
Scryer.Solve only).
-/
open Scryer Scryer.Drv Scryer.Solve Scryer.Exc

def toClause : Term → Clause
  | .str ":-" [h, b] => ⟨h, b⟩
  | t => ⟨t, .atom "true"⟩

def parseProg (s : String) : Option Prog :=
  if s.trimAscii.isEmpty then some [] else
  (s.splitOn " ;; ").foldr (fun c acc =>
    match acc, parseTermStr c with
    | some cs, some t => some (toClause t :: cs)
    | _, _ => none) (some [])

def bigFuel : Nat := 100000

def showRes (tmpl : Term) (r : XRes) : String :=
  let evs := r.items.filterMap fun
    | .ev t => some (showTerm t)
    | _ => none
  let anss := r.items.filterMap fun
    | .ans a => some (match resolve bigFuel a.σ tmpl with
        | some t => showTerm t
        | none => "?unresolved")
    | _ => none
  let mks := r.items.filterMap fun
    | .su => some "s"
    | .cl .exit => some "x"
    | .cl .fail => some "f"
    | .cl .exc => some "e"
    | .cl .cut => some "c"
    | _ => none
  let ball := match r.exc with
    | some (b, _) => showTerm b
    | none => "-"
  " ;; ".intercalate evs ++ " || " ++ " ;; ".intercalate anss ++ " || " ++ ball ++ " || "
    ++ "".intercalate mks

def fuels : List Nat := [40, 160, 640, 2560]

def runQuery (prog : Prog) (goal tmpl : Term) : IO String := do
  let mut last := 0
  for f in fuels do
    let t0 ← IO.monoMsNow
    let r := runTop f prog goal
    let out := if r.oof then none else some s!"R {f} :: {showRes tmpl r}"
    let done := match out with | some s => s.length | none => 0
    let t1 ← IO.monoMsNow
    last := f + (done - done)
    match out with
    | some s =>
        -- fuel monotonicity is proved for Scryer.Solve, not for Scryer.Exc: guard at run time that more
        -- fuel gives the same trace
        let r2 := runTop (2 * f) prog goal
        if !r2.oof && showRes tmpl r2 != showRes tmpl r then return s!"unstable {f}"
        return s
    | none => if t1 - t0 > 400 then break
  return s!"oof {last}"

def handleLine (l : String) : IO String := do
  match fields l with
  | "run" :: id :: prog :: goal :: tmpl :: _ =>
      match parseProg prog, parseTermStr goal, parseTermStr tmpl with
      | some p, some g, some t => do
          let r ← runQuery p g t
          return s!"{id}\t{r}"
      | _, _, _ => return s!"{id}\tbad-args"
  | _ :: id :: _ => return s!"{id}\tbad-op"
  | _ => return "?\tbad-op"

partial def ioLoop (h out : IO.FS.Stream) : IO Unit := do
  let line ← h.getLine
  if line.isEmpty then return ()
  let l := stripEol line
  if l.isEmpty || l.startsWith "#" then
    ioLoop h out
  else
    out.putStrLn (← handleLine l)
    out.flush
    ioLoop h out

def main : IO Unit := do
  ioLoop (← IO.getStdin) (← IO.getStdout)
