import ScryerModel.Drv.Util
import ScryerModel.Model.Loader
/-!
drv_C35: runs a history of loads / asserts / observations on the loader model.

  run <id> <steps>

`steps` are separated by `;`, tokens by spaces:
  L <fm:0|1> <src> <item>…     load the text as source <src> (fm = 1: the source is a real file)
      items: `c:<key>:<val>` clause, `d:<key>:dyn|disc|multi` declaration,
             `o:<op>:<val>|-` op directive (`-` = priority 0), `f:<flag>:<val>`, `n` other directive
  A <key> <val>                 assertz
  Q k:<key>… o:<op>… f:<flag>…  observation: one token per request
Result: the observations joined by ` ## `; each is a space separated list of
`k<key>=v1,v2,…` (`undef` = existence_error), `o<op>=<val>|-`, `f<flag>=<val>|-`.
With op `spec` instead of `run`, loads use the closed form `specKey` instead of `loadKey`.
-/
open Scryer.Drv
open Scryer.Loader

namespace Scryer.LoaderDrv

def parseFl : String → Option Fl
  | "dyn" => some .dyn | "disc" => some .disc | "multi" => some .multi | _ => none

def parseItem (t : String) : Option Item :=
  match t.splitOn ":" with
  | ["n"] => some .noise
  | ["c", k, v] => do some (.clause (← k.toNat?) (← v.toNat?))
  | ["d", k, f] => do some (.decl (← k.toNat?) (← parseFl f))
  | ["o", o, "-"] => do some (.op (← o.toNat?) none)
  | ["o", o, v] => do some (.op (← o.toNat?) (some (← v.toNat?)))
  | ["f", f, v] => do some (.flag (← f.toNat?) (← v.toNat?))
  | _ => none

def showOpt : Option Nat → String
  | none => "-"
  | some v => toString v

def observe (s : State) (t : String) : String :=
  match t.splitOn ":" with
  | ["k", k] =>
    match k.toNat? with
    | some k =>
      match answers s k with
      | none => s!"k{k}=undef"
      | some vs => s!"k{k}=" ++ ",".intercalate (vs.map toString)
    | none => "bad"
  | ["o", o] => match o.toNat? with
    | some o => s!"o{o}=" ++ showOpt (s.ops o)
    | none => "bad"
  | ["f", f] => match f.toNat? with
    | some f => s!"f{f}=" ++ showOpt (s.flags f)
    | none => "bad"
  | _ => "bad"

/-- the closed-form variant of `load` (same tables, `specKey` for the predicates). -/
def loadSpec (fm : Bool) (src : Src) (items : List Item) (s : State) : State :=
  let evs := events items none
  { load fm src items s with
    preds := fun k => specKey fm src (s.sdef src k) (evsOf k evs) (s.preds k) }

def step (spec : Bool) (acc : State × List String) (st : String) : State × List String :=
  let (s, out) := acc
  match words st with
  | "L" :: fm :: src :: items =>
    match src.toNat?, items.mapM parseItem with
    | some src, some its =>
      ((if spec then loadSpec else load) (fm == "1") src its s, out)
    | _, _ => (s, out ++ ["bad-load"])
  | ["A", k, v] =>
    match k.toNat?, v.toNat? with
    | some k, some v => (assertz k v s, out)
    | _, _ => (s, out ++ ["bad-assert"])
  | "Q" :: reqs => (s, out ++ [" ".intercalate (reqs.map (observe s))])
  | _ => (s, out ++ ["bad-step"])

def handle : List String → String
  | [op, _, steps] =>
    let r := (steps.splitOn ";").foldl (step (op == "spec")) (State.init, [])
    " ## ".intercalate r.2
  | _ => "bad-op"

end Scryer.LoaderDrv

def main : IO Unit := runDriver Scryer.LoaderDrv.handle
