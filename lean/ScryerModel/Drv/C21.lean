import ScryerModel.Drv.Util
import ScryerModel.Drv.TermIO
import ScryerModel.Model.Atoms
/-!
drv_C21 — model driver for the atom table. Lines (TAB separated):

```
S <id> <hex,hex,…>   set STRINGS (the static texts of the build, in order); answers
                     `n=<count> nodup=<bool> noinline=<bool> nul=<index of "\0" or none>`
M <id> <hex,hex,…>   intern the texts in this order in a table with these statics and an empty dynamic
                     part; answers one token per text: <kind><class><rt> where kind = i (inlined) /
                     s (static) / d (dynamic), class = position of the first text with the same index,
                     rt = + when the index decodes back to the text, - otherwise
I <id> <hex>         the atom index `build_with` computes for the text in the table with these statics
C <id> <hex>         one-character text: does `new_char_inlined` give the index `build_with` gives? agree / differ
```
Texts are hex strings of UTF-8 bytes (the empty text is the empty string).
-/
open Scryer.Drv Scryer.Atoms

def hexBytes21 (s : String) : List Nat :=
  let rec go : List Char → List Nat → List Nat
    | a :: b :: r, acc => go r ((((hexVal? a).getD 0) * 16 + ((hexVal? b).getD 0)) :: acc)
    | _, acc => acc.reverse
  go s.toList []

def parseTexts (s : String) : List (List Nat) := (s.splitOn ",").map hexBytes21

def firstIdx (xs : List Nat) (v : Nat) : Nat := (xs.findIdx? (· == v)).getD 0

def kindOf (t : Table) (i : Nat) : String :=
  if i % 2 = 1 then "i" else if i / 2 < t.statics.length then "s" else "d"

def runM (statics : List (List Nat)) (texts : List (List Nat)) : String :=
  let t0 : Table := { statics := statics, dyn := [], next := 0 }
  let (t, idx) := internAll t0 texts
  let toks := (texts.zip idx).map fun (s, i) =>
    kindOf t i ++ toString (firstIdx idx i) ++ (if text t i == some s then "+" else "-")
  " ".intercalate toks

def handle (statics : List (List Nat)) : List String → String
  | "M" :: _ :: ts :: _ => runM statics (parseTexts ts)
  | "M" :: _ :: [] => runM statics [[]]
  | "I" :: _ :: h :: _ =>
      toString (intern { statics := statics, dyn := [], next := 0 } (hexBytes21 h)).2
  | "I" :: _ :: [] => toString (intern { statics := statics, dyn := [], next := 0 } []).2
  | "C" :: _ :: h :: _ =>
      let s := hexBytes21 h
      let t0 : Table := { statics := statics, dyn := [], next := 0 }
      match findStatic statics [0] 0 with
      | some nul => if (intern t0 s).2 == charIndex nul s then "agree" else "differ"
      | none => "no-nul-atom"
  | _ => "bad-op"

partial def loop21 (st : IO.Ref (List (List Nat))) (h out : IO.FS.Stream) : IO Unit := do
  let line ← h.getLine
  if line.isEmpty then return ()
  let l := stripEol line
  if l.isEmpty || l.startsWith "#" then loop21 st h out
  else
    match fields l with
    | "S" :: id :: ts :: _ =>
        let ss := if ts.isEmpty then [] else parseTexts ts
        st.set ss
        let nodup := ss.eraseDups.length == ss.length
        let noinl := ss.all fun s => !inlineable s
        let nul := match findStatic ss [0] 0 with | some i => toString i | none => "none"
        out.putStrLn s!"{id}\tn={ss.length} nodup={nodup} noinline={noinl} nul={nul}"
    | op :: id :: args => out.putStrLn s!"{id}\t{handle (← st.get) (op :: id :: args)}"
    | _ => out.putStrLn "?\tbad-op"
    loop21 st h out

def main : IO Unit := do
  let st ← IO.mkRef ([] : List (List Nat))
  let out ← IO.getStdout
  loop21 st (← IO.getStdin) out
  out.flush
