/- Shared helpers for the model driver (line protocol parsing). -/
namespace Scryer.Drv

def fields (line : String) : List String := line.splitOn "\t"

def words (s : String) : List String := (s.splitOn " ").filter (· ≠ "")

def parseInt? (s : String) : Option Int :=
  if s.startsWith "-" then (s.drop 1).toNat?.map (fun n => -(n : Int))
  else s.toNat?.map (fun n => (n : Int))

end Scryer.Drv
