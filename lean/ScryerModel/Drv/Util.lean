/- Shared helpers for the per-property model drivers (line protocol). -/
namespace Scryer.Drv

def fields (line : String) : List String := line.splitOn "\t"

def words (s : String) : List String := (s.splitOn " ").filter (· ≠ "")

def parseInt? (s : String) : Option Int :=
  if s.startsWith "-" then (s.drop 1).toNat?.map (fun n => -(n : Int))
  else s.toNat?.map (fun n => (n : Int))

def stripEol (s : String) : String :=
  String.ofList ((s.toList.reverse.dropWhile (fun c => c == '\n' || c == '\r')).reverse)

/-- undo the harness escaping (`\n`, `\t`, `\r`, `\\`). -/
def unescape (s : String) : String :=
  let rec go : List Char → List Char → List Char
    | [], acc => acc.reverse
    | '\\' :: 'n' :: r, acc => go r ('\n' :: acc)
    | '\\' :: 't' :: r, acc => go r ('\t' :: acc)
    | '\\' :: 'r' :: r, acc => go r ('\r' :: acc)
    | '\\' :: '\\' :: r, acc => go r ('\\' :: acc)
    | c :: r, acc => go r (c :: acc)
  String.ofList (go s.toList [])

def escape (s : String) : String :=
  String.ofList (s.toList.flatMap fun c =>
    match c with
    | '\n' => ['\\', 'n'] | '\t' => ['\\', 't'] | '\r' => ['\\', 'r'] | '\\' => ['\\', '\\']
    | c => [c])

partial def loop (handle : String → String) (h out : IO.FS.Stream) : IO Unit := do
  let line ← h.getLine
  if line.isEmpty then return ()
  let l := stripEol line
  if l.isEmpty || l.startsWith "#" then
    loop handle h out
  else
    out.putStrLn (handle l)
    loop handle h out

/-- one operation per line on stdin (TAB separated: op, id, args…); one result line
    `<id>\t<result>` on stdout. `handle` receives the fields and returns the result. -/
def runDriver (handle : List String → String) : IO Unit := do
  let out ← IO.getStdout
  loop (fun l =>
    match fields l with
    | op :: id :: args => s!"{id}\t{handle (op :: id :: args)}"
    | _ => "?\tbad-op") (← IO.getStdin) out
  out.flush

end Scryer.Drv
