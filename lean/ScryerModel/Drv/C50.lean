import ScryerModel.Drv.Util
import ScryerModel.Model.CharStream
/-! drv_C50: `seg\t<id>\t<text with harness escapes>`
Result: `<n1> <n2> … end=<eof|layout|incomplete> src=<ok|DIFF>`: the lengths (in characters) of the
successive clauses the scanner finds, how the text ends, and a run-time comparison of the list
scanner with the position-stream and push-back-stream scanners at every clause start. -/
open Scryer.Drv Scryer.CharStream

namespace Scryer.CharStream.Drv

def showEnd : Scan → String
  | .eof => "eof"
  | .layoutOnly => "layout"
  | .incomplete => "incomplete"
  | .done _ => "done"

def offsets : List Nat → Nat → List Nat
  | [], acc => [acc]
  | n :: r, acc => acc :: offsets r (acc + n)

def handle (text : String) : String :=
  let cs := text.toList
  let (ns, e) := segments (cs.length + 2) cs
  let fuel := cs.length + 2
  let ok := (offsets ns 0).all fun p =>
    let a := scanText (cs.drop p)
    let b := scanSrc (posSource cs) fuel startMode 0 p
    let c := match cs[p]? with
      | some ch => scanSrc (pbSource cs) fuel startMode 0 (putBack ch ([], p + 1))
      | none => a
    a == b && a == c
  " ".intercalate (ns.map toString ++ [s!"end={showEnd e}", s!"src={if ok then "ok" else "DIFF"}"])

end Scryer.CharStream.Drv

def main : IO Unit := runDriver fun
  | "seg" :: _ :: text :: _ => Scryer.CharStream.Drv.handle (unescape text)
  | "seg" :: _ :: [] => Scryer.CharStream.Drv.handle ""
  | _ => "bad-op"
