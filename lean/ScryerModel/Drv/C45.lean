import ScryerModel.Drv.Util
import ScryerModel.Model.ReadVars
/-! drv_C45: `rv\t<id>\t<tokens>\t<order>`
  tokens: space separated `o` (other token) | `l` (layout/comment) | `v:<name>` (variable token)
  order:  space separated occurrence positions (the visiting order of the heap writer), or `-` for
          left-to-right.
Result: `t=<rank of every occurrence> v=<ranks> n=<name>:<rank>,… s=<name>:<rank>,… spec=<ok|DIFF>`
(ranks = number of the variable in first-occurrence order; `spec` compares the mirrored mechanism
with the specification — `variables`/`variable_names` exactly, `singletons` as a set). -/
open Scryer.Drv Scryer.ReadVars

namespace Scryer.ReadVars.Drv

def parseTok (s : String) : Option Tok :=
  if s = "o" then some .other
  else if s = "l" then some .layout
  else if s.startsWith "v:" then some (.var (s.drop 2).toString)
  else none

def showNats (l : List Nat) : String := ",".intercalate (l.map toString)

def showPairs (occs : List Occ) (l : List (String × V)) : String :=
  ",".intercalate (l.map fun e => s!"{e.1}:{rank occs e.2}")

def sameSet (a b : List (String × V)) : Bool := a.all (b.contains ·) && b.all (a.contains ·) && a.length == b.length

def handle (toksS orderS : String) : String :=
  match (words toksS).mapM parseTok with
  | none => "bad-tokens"
  | some toks =>
    let occs := occsOf toks
    let order? : Option (List Nat) :=
      if orderS.trimAscii.toString = "-" then some (List.range occs.length) else (words orderS).mapM String.toNat?
    match order? with
    | none => "bad-order"
    | some order =>
      let m := mechanism id occs order
      let s := spec occs
      let ok := m.variables == s.variables && m.variableNames == s.variableNames && sameSet m.singletons s.singletons
      s!"t={showNats ((varsOf occs).map (rank occs))} v={showNats (m.variables.map (rank occs))} n={showPairs occs m.variableNames} s={showPairs occs m.singletons} spec={if ok then "ok" else "DIFF"}"

end Scryer.ReadVars.Drv

def main : IO Unit := runDriver fun
  | "rv" :: _ :: toks :: order :: _ => Scryer.ReadVars.Drv.handle toks order
  | "rv" :: _ :: toks :: [] => Scryer.ReadVars.Drv.handle toks "-"
  | _ => "bad-op"
