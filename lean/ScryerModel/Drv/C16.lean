import ScryerModel.Drv.Util
import ScryerModel.Model.NumLex
/-!
drv_C16 — model driver for numeric literals. TAB separated lines; texts are given as space
separated decimal character codes.

```
num   <id> <codes>          numberFromText (repaired):  int <n> | flt <16 hex> | err <kind>
nump  <id> <codes>          the same for the pinned commit (`12_` accepted at end of text)
tok   <id> <codes>          numberToken on a text that starts with a digit:
                            int <n> | flt <16 hex> | inf | part | err <kind>   then ` rest <codes>`
show  <id> <int>            showInt:  <codes>
fpr   <id> <16 hex> <codes> the text printed for a float: ok | noparse <what> | bits <16 hex> | notshortest
```
every float produced by `rne` is re-checked against the specification `rneOK`; a failure is
reported as `SELFCHECK` (never seen; it would be a model defect).
-/
open Scryer.Drv Scryer.NumLex

def codesOf (s : String) : List Char := (words s).filterMap fun w => w.toNat?.map Char.ofNat

def showCodes (l : List Char) : String := " ".intercalate (l.map fun c => toString c.toNat)

def hexDigit (n : Nat) : Char := if n < 10 then Char.ofNat (48 + n) else Char.ofNat (87 + n)

def hex16 (b : Nat) : String :=
  String.ofList ((List.range 16).reverse.map fun i => hexDigit ((b / 16 ^ i) % 16))

def parseHex (s : String) : Nat := horner 16 s.toList

/-- re-check a rounding result against the specification whenever the powers involved are small. -/
def selfCheck (m : Nat) (e : Int) (b : Nat) : Bool :=
  if m = 0 then b == 0
  else
    let nd : Int := (numDigits (m + 1) m : Nat)
    if nd + e > 310 then b == infBits
    else if nd + e < -330 then b == 0
    else decRoundsTo m e b

def showNum : Except Err Num → String
  | .ok (.int v) => s!"int {v}"
  | .ok (.flt b) => s!"flt {hex16 b}"
  | .error e => s!"err {e.atom}"

/-- self-check of the float inside a text result: recompute through the token. -/
def numWithCheck (strict : Bool) (s : List Char) : String :=
  let r := numberFromTextG strict s
  match r with
  | .ok (.flt b) =>
    -- find the decimal again to check the rounding against the specification
    let ok := match nextNumberToken strict s with
      | .ok (.num (.dec m e), _) => selfCheck m e b
      | .ok (.minus, rest) =>
        (match nextNumberToken strict rest with
         | .ok (.num (.dec m e), _) => selfCheck m e (b % signBit)
         | _ => false)
      | _ => false
    if ok then showNum r else showNum r ++ " SELFCHECK"
  | _ => showNum r

def showTok (r : LexRes) : String :=
  match r with
  | .error e => s!"err {e.atom}"
  | .ok (.int n, rest) => s!"int {n} rest {showCodes rest}"
  | .ok (.dec m e, rest) =>
    let b := decToBits m e
    let chk := if selfCheck m e b then "" else " SELFCHECK"
    (if b ≥ infBits then "inf" else s!"flt {hex16 b}") ++ chk ++ s!" rest {showCodes rest}"
  | .ok (.part _, _) => "part"

/-- the printed form of a float: digits `.` digits, optional `e[-]digits` -/
def wellFormedFloat (t : List Char) : Bool :=
  let t := match t with | '-' :: r => r | r => r
  let (ip, r1) := t.span isDigit
  match r1 with
  | '.' :: r2 =>
    let (fp, r3) := r2.span isDigit
    !ip.isEmpty && !fp.isEmpty &&
    (match r3 with
     | [] => true
     | 'e' :: ex =>
       let ex := match ex with | '-' :: x => x | x => x
       !ex.isEmpty && ex.all isDigit
     | _ => false)
  | _ => false

def stripZeros : Nat → Nat → Int → Nat × Int
  | 0, D, k => (D, k)
  | fuel + 1, D, k => if D ≠ 0 && D % 10 = 0 then stripZeros fuel (D / 10) (k + 1) else (D, k)

def fprCheck (bits : Nat) (t : List Char) : String :=
  if !wellFormedFloat t then "noparse shape"
  else
    match numberFromText t with
    | .ok (.flt b) =>
      if b ≠ bits then s!"bits {hex16 b}"
      else
        let body := match t with | '-' :: r => r | r => r
        let (m, e) := decOfToken body
        let (D, k) := stripZeros (body.length + 1) m e
        if D = 0 then (if bits % signBit = 0 then "ok" else "notshortest")
        else if shortestOK D k (bits % signBit) then "ok" else "notshortest"
    | .ok (.int _) => "noparse int"
    | .error e => s!"noparse {e.atom}"

def main : IO Unit := runDriver fun
  | ["num", _, codes] => numWithCheck true (codesOf codes)
  | ["num", _] => numWithCheck true []
  | ["nump", _, codes] => numWithCheck false (codesOf codes)
  | ["nump", _] => numWithCheck false []
  | ["tok", _, codes] => showTok (numberToken true (codesOf codes))
  | ["show", _, i] =>
    match parseInt? i with
    | some v => showCodes (showInt v)
    | none => "bad-int"
  | ["fpr", _, bits, codes] => fprCheck (parseHex bits) (codesOf codes)
  | _ => "bad-op"
