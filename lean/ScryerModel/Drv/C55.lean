import ScryerModel.Model.Quote
import ScryerModel.Drv.Util
/-!
drv_C55: TAB separated fields; texts are comma separated decimal code points (`-` = empty).

* `atom <id> <uc> <text>` →
  `nq=<0|1> wq=<text> wqfix=<text> w=<text> rd=<text|none> self=<text|none>`
  (`wq`: `print_op_addendum` as written with quoted = true, `wqfix`: repaired, `w`: quoted = false,
  `rd`: `readAtom` of `wqfix`, `self`: `readAtom` of the raw text);
* `lex <id> <uc> <text>` → the tokens of the text, or `error`;
* `seq <id> <uc> <item>;<item>;…` → the items printed with `emitItem`/`pushChar` (quoted = true), then
  ` ## ` and the tokens of that text; item = `<text>` | `<text>@<ambiguity text>` | `c<code>`.

`<uc>`: `cp:bits,…` for the non-ASCII characters (bit 0 alphabetic, 1 numeric, 2 uppercase,
3 whitespace, 4 control), `-` for none.
-/
open Scryer.Drv
open Scryer.Quote
open Scryer.CharClass

namespace Scryer.DrvC55

def parseText (s : String) : List Char :=
  if s = "-" || s = "" then [] else (s.splitOn ",").filterMap fun t => t.toNat?.map Char.ofNat

def showText (cs : List Char) : String :=
  if cs.isEmpty then "-" else ",".intercalate (cs.map fun c => toString c.toNat)

def parseUC (s : String) : UC :=
  if s = "-" || s = "" then mkUC [] else
  mkUC ((s.splitOn ",").filterMap fun e =>
    match e.splitOn ":" with
    | [a, b] => match a.toNat?, b.toNat? with
      | some x, some y => some (x, y)
      | _, _ => none
    | _ => none)

def showOpt : Option (List Char) → String
  | some cs => showText cs
  | none => "none"

def showTok : Tok → String
  | .name s => s!"name({showText s})"
  | .var s => s!"var({showText s})"
  | .int n => s!"int({n})"
  | .flt s => s!"flt({showText s})"
  | .str s => s!"str({showText s})"
  | .punct c => s!"punct({c.toNat})"
  | .openCT => "openct"
  | .endTok => "end"

def showToks : Option (List Tok) → String
  | some ts => " ".intercalate (ts.map showTok)
  | none => "error"

def handle : List String → String
  | ["atom", _, uc, text] =>
    let u := parseUC uc
    let s := parseText text
    let nq := nonQuotedToken u s
    let wq := printAtomImpl false u true s
    let wqfix := printAtom u true s
    let w := printAtom u false s
    s!"nq={if nq then 1 else 0} wq={showText wq} wqfix={showText wqfix} w={showText w} rd={showOpt (readAtom u wqfix)} self={showOpt (readAtom u s)}"
  | ["lex", _, uc, text] => showToks (tokens (parseUC uc) (parseText text))
  | ["seq", _, uc, texts] =>
    let u := parseUC uc
    let items := (texts.splitOn ";").map fun t =>
      if t.startsWith "c" then Item.ch (Char.ofNat ((t.drop 1).toNat?.getD 32))
      else match t.splitOn "@" with
        | [x, a] => Item.tok (parseText a) (parseText x)
        | _ => Item.tok (parseText t) (parseText t)
    let out := (render u true items).text
    s!"{showText out} ## {showToks (tokens u out)}"
  | _ => "bad-op"

end Scryer.DrvC55

def main : IO Unit := runDriver Scryer.DrvC55.handle
