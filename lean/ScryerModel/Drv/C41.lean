import ScryerModel.Drv.Util
import ScryerModel.Model.Json
/- drv_C41 (model side of the C41 correspondence).
   `parse <id> <code points, space separated>`  →  `ok <value tokens>` | `none` | `skip-bigexp`
   `gen   <id> <value tokens>`                  →  `ok <code points>` | `bad-value`
   `flt   <id> <code points of ONE number token>` →  `int` (integer token) | `bad` |
       `P <m> <e> N <m> <e>`: magnitude m·2^e of today's assembled float (`pinnedMag`) and of the
       nearest double of the exact decimal (`nearestMag`); `inf` instead of `<m> <e>` = overflow
   value tokens (prefix, space separated): `N` null, `T`/`F`, `I<int>`, `D<0|1>,<m>,<e>`,
   `S<cp>.<cp>…` string, `A<n>` then n values, `O<n>` then n × (`S…` key, value). -/
open Scryer.Drv Scryer.Json

namespace Scryer.JsonDrv

def cpsOf (s : String) : List Char :=
  (words s).filterMap fun w => w.toNat?.map Char.ofNat

def showCps (cs : List Char) : String :=
  " ".intercalate (cs.map fun c => toString c.toNat)

def showStr (cs : List Char) : String :=
  "S" ++ ".".intercalate (cs.map fun c => toString c.toNat)

def JL.len : JL → Nat
  | .nil => 0
  | .cons _ xs => JL.len xs + 1
def JM.len : JM → Nat
  | .nil => 0
  | .cons _ _ ms => JM.len ms + 1

mutual
  def showJ : J → List String
    | .null => ["N"]
    | .bool true => ["T"]
    | .bool false => ["F"]
    | .num (.int n) => [s!"I{n}"]
    | .num (.dec neg m e) => [s!"D{if neg then 1 else 0},{m},{e}"]
    | .str s => [showStr s]
    | .arr xs => s!"A{JL.len xs}" :: showJL xs
    | .obj ms => s!"O{JM.len ms}" :: showJM ms
  def showJL : JL → List String
    | .nil => []
    | .cons x xs => showJ x ++ showJL xs
  def showJM : JM → List String
    | .nil => []
    | .cons k v ms => showStr k :: (showJ v ++ showJM ms)
end

def readStr (body : String) : List Char :=
  if body.isEmpty then [] else (body.splitOn ".").filterMap fun w => w.toNat?.map Char.ofNat

mutual
  def readJ : Nat → List String → Option (J × List String)
    | 0, _ => none
    | _ + 1, [] => none
    | f + 1, t :: ts =>
      let body := (t.drop 1).toString
      if t == "N" then some (.null, ts)
      else if t == "T" then some (.bool true, ts)
      else if t == "F" then some (.bool false, ts)
      else if t.startsWith "I" then (parseInt? body).map fun n => (.num (.int n), ts)
      else if t.startsWith "D" then
        match body.splitOn "," with
        | [a, m, e] =>
          match m.toNat?, parseInt? e with
          | some m, some e => some (.num (.dec (a == "1") m e), ts)
          | _, _ => none
        | _ => none
      else if t.startsWith "S" then some (.str (readStr body), ts)
      else if t.startsWith "A" then
        match body.toNat? with
        | some n => (readJL f n ts).map fun (xs, r) => (.arr xs, r)
        | none => none
      else if t.startsWith "O" then
        match body.toNat? with
        | some n => (readJM f n ts).map fun (ms, r) => (.obj ms, r)
        | none => none
      else none
  def readJL : Nat → Nat → List String → Option (JL × List String)
    | 0, _, _ => none
    | _ + 1, 0, ts => some (.nil, ts)
    | f + 1, n + 1, ts =>
      match readJ f ts with
      | some (x, r) => (readJL f n r).map fun (xs, r') => (.cons x xs, r')
      | none => none
  def readJM : Nat → Nat → List String → Option (JM × List String)
    | 0, _, _ => none
    | _ + 1, 0, ts => some (.nil, ts)
    | _ + 1, _ + 1, [] => none
    | f + 1, n + 1, k :: ts =>
      if k.startsWith "S" then
        match readJ f ts with
        | some (v, r) => (readJM f n r).map fun (ms, r') => (.cons (readStr (k.drop 1).toString) v ms, r')
        | none => none
      else none
end

/-- longest run of digits directly after an `e`/`E` (and an optional sign): the model computes
    `10^exp` for integer tokens, so the driver refuses absurd exponents instead of exhausting
    memory (the generator never produces them). -/
def maxExpDigits : List Char → Nat
  | [] => 0
  | c :: r =>
    if c = 'e' ∨ c = 'E' then
      let r1 := (optSign r).2
      max (spanDigits r1).1.length (maxExpDigits r)
    else maxExpDigits r

def parseLine (arg : String) : String :=
  let s := cpsOf arg
  if maxExpDigits s > 4 then "skip-bigexp"
  else
    match parse s with
    | some v => "ok " ++ " ".intercalate (showJ v)
    | none => "none"

def genLine (arg : String) : String :=
  let ts := words arg
  match readJ (2 * ts.length + 2) ts with
  | some (v, []) => "ok " ++ showCps (gen v)
  | _ => "bad-value"

def showDbl : Option Dbl → String
  | some d => s!"{d.m} {d.e}"
  | none => "inf"

def fltLine (arg : String) : String :=
  let s := cpsOf arg
  if maxExpDigits s > 4 then "skip-bigexp"
  else
    match numParts s with
    | some ((_, ids, frac, ex), []) =>
      if frac.isNone && decide (0 ≤ ex) then "int"
      else
        let d := tokenDec ids frac ex
        "P " ++ showDbl (pinnedMag ids frac ex) ++ " N " ++ showDbl (nearestMag d.1 d.2)
    | _ => "bad"

end Scryer.JsonDrv

open Scryer.JsonDrv in
def main : IO Unit := runDriver fun
  | "parse" :: _ :: arg :: _ => parseLine arg
  | "parse" :: _ :: [] => parseLine ""
  | "gen" :: _ :: arg :: _ => genLine arg
  | "flt" :: _ :: arg :: _ => fltLine arg
  | _ => "bad-op"
