import ScryerModel.Drv.Util
import ScryerModel.Model.FsTree
/-!
drv_C48 — model driver for the file-system predicates. One line per script:

```
RUN <id> <fixed|pinned> <cwd> <init> <steps>
```
* `<cwd>`: hex of the UTF-8 text `a/b` (path below the scratch root), `-` for the root.
* `<init>`: space separated `D:<hexpath>` / `F:<hexpath>:<hexbytes>` (`-` when empty).
* `<steps>`: space separated `op|arg|arg`; chars argument `<tail>:<elems>` with tail `n` (`[]`),
  `v` (variable), `b` (non-list) and elems comma separated `c<hex code point>`, `v`, `b<k>`;
  integer argument `v`, `b`, `i<n>`; list argument `v`, `n`, `p`, `b`, `s<hex utf8>`;
  segments argument `v` or `l<tail>;<chars>;<chars>…`; `W|<hexpath>|<hexbytes>` environment write.
Result: for every step `<answer>|<tree>` joined by ` ;; `; the tree is the sorted, comma separated
list of `D<hexpath>` / `F<hexpath>:<hexbytes>`.
-/
open Scryer.Drv Scryer.FsTree

namespace Scryer.FsTree.Drv

def hexVal (c : Char) : Option Nat :=
  if '0' ≤ c ∧ c ≤ '9' then some (c.toNat - '0'.toNat)
  else if 'a' ≤ c ∧ c ≤ 'f' then some (c.toNat - 'a'.toNat + 10)
  else none

def hexBytes : List Char → Option (List UInt8)
  | [] => some []
  | a :: b :: r => do
    let x ← hexVal a; let y ← hexVal b; let t ← hexBytes r
    pure (UInt8.ofNat (x * 16 + y) :: t)
  | _ => none

def unhexBytes (s : String) : Option (List UInt8) := if s = "-" then some [] else hexBytes s.toList

def unhexStr (s : String) : Option String := do
  let b ← hexBytes s.toList
  String.fromUTF8? ⟨b.toArray⟩

def hexDigit (n : Nat) : Char := if n < 10 then Char.ofNat (48 + n) else Char.ofNat (87 + n)

def hexOfBytes (b : List UInt8) : String :=
  String.ofList (b.flatMap fun x => [hexDigit (x.toNat / 16), hexDigit (x.toNat % 16)])

def hexOfStr (s : String) : String := hexOfBytes s.toUTF8.toList

def unhexPath (s : String) : Option Path :=
  if s = "-" then some [] else (unhexStr s).map fun t => t.splitOn "/"

def hexNat (s : String) : Option Nat :=
  s.toList.foldl (fun acc c => do let a ← acc; let v ← hexVal c; pure (a * 16 + v)) (some 0)

def pElem (s : String) : Option Elem :=
  if s = "v" then some .var
  else if s.startsWith "c" then (hexNat (s.drop 1).toString).map fun n => .ch (Char.ofNat n)
  else if s.startsWith "b" then ((s.drop 1).toString.toNat?).map .bad
  else none

def pTail (s : String) : Option Tail :=
  if s = "n" then some .nil else if s = "v" then some .var else if s = "b" then some .bad else none

def pChars (s : String) : Option Chars :=
  match s.splitOn ":" with
  | [t, es] => do
    let tl ← pTail t
    let el ← if es = "" then some [] else (es.splitOn ",").mapM pElem
    pure ⟨el, tl⟩
  | _ => none

def pInt (s : String) : Option IntArg :=
  if s = "v" then some .var else if s = "b" then some .bad
  else if s.startsWith "i" then ((s.drop 1).toString.toNat?).map .int else none

def pList (s : String) : Option ListArg :=
  if s = "v" then some .var else if s = "n" then some .nil else if s = "p" then some .partialList
  else if s = "b" then some .bad
  else if s.startsWith "s" then (unhexStr (s.drop 1).toString).map .str else none

def pSegs (s : String) : Option SegsArg :=
  if s = "v" then some .var
  else match s.splitOn ";" with
    | hd :: r =>
      if hd.startsWith "l" then do
        let tl ← pTail (hd.drop 1).toString
        let l ← r.mapM pChars
        pure (.list l tl)
      else none
    | [] => none

def pOp (s : String) : Option Op :=
  match s.splitOn "|" with
  | ["fe", a] => (pChars a).map .fileExists
  | ["de", a] => (pChars a).map .dirExists
  | ["fs", a, b] => do pure (.fileSize (← pChars a) (← pInt b))
  | ["df", a, b] => do pure (.dirFiles (← pChars a) (← pList b))
  | ["md", a] => (pChars a).map .mkdir
  | ["mp", a] => (pChars a).map .mkdirPath
  | ["rf", a] => (pChars a).map .deleteFile
  | ["rd", a] => (pChars a).map .deleteDir
  | ["rn", a, b] => do pure (.rename (← pChars a) (← pChars b))
  | ["cp", a, b] => do pure (.copy (← pChars a) (← pChars b))
  | ["pc", a, b] => do pure (.canonical (← pChars a) (← pList b))
  | ["ps", a, b] => do pure (.segments (← pChars a) (← pSegs b))
  | ["W", p, b] => do pure (.envWrite (← unhexPath p) (← unhexBytes b))
  | _ => none

def pInit (s : String) : Option (Path × Entry) :=
  match s.splitOn ":" with
  | ["D", p] => (unhexPath p).map fun q => (q, .dir)
  | ["F", p, b] => do pure (← unhexPath p, .file (← unhexBytes b))
  | _ => none

def sortS (l : List String) : List String := l.mergeSort (fun a b => !(decide (b < a)))

def showTree (fs : Fs) : String :=
  ",".intercalate (sortS (fs.map fun (p, e) =>
    match e with
    | .dir => "D" ++ hexOfStr ("/".intercalate p)
    | .file b => "F" ++ hexOfStr ("/".intercalate p) ++ ":" ++ hexOfBytes b))

def showOut : Out → String
  | .yes => "yes"
  | .no => "no"
  | .size n => s!"size {n}"
  | .names l => s!"names {l.length} " ++ ",".intercalate (sortS (l.map hexOfStr))
  | .str s => "str " ++ hexOfStr s
  | .segs l => s!"segs {l.length} " ++ ",".intercalate (l.map hexOfStr)
  | .eInst => "eInst"
  | .eTypeList => "eTypeList"
  | .eTypeChar k => s!"eTypeChar {k}"
  | .eTypeInt => "eTypeInt"
  | .eNoFile s => "eNoFile " ++ hexOfStr s
  | .eNoDir s => "eNoDir " ++ hexOfStr s
  | .outside => "outside"

def handle (mode cwd init steps : String) : Option String := do
  let c ← unhexPath cwd
  let fs ← if init = "-" then some [] else (words init).mapM pInit
  let ops ← (words steps).mapM pOp
  let cfg : Cfg := { cwd := c, truncSelf := mode == "pinned" }
  pure (" ;; ".intercalate ((run cfg fs ops).map fun (f, o) => showOut o ++ "|" ++ showTree f))

end Scryer.FsTree.Drv

def main : IO Unit := runDriver fun
  | "RUN" :: _ :: mode :: cwd :: init :: steps :: _ =>
    (Scryer.FsTree.Drv.handle mode cwd init steps).getD "bad-args"
  | _ => "bad-op"
