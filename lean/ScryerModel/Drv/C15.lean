import ScryerModel.Model.Syntax
import ScryerModel.Drv.Util
/-!
drv_C15 (TAB separated fields; texts = comma separated decimal code points, `-` = empty):

* `canon <id> <uc> <sexpr>` → the canonical text (`canonText`) of the term;
* `readc <id> <uc> <ops> <text>` → the term the canonical reader reads (`readCanon`), as an S-expression;
* `reado <id> <uc> <ops> <text>` → the term the operator-precedence reader reads (`readOps`) under `<ops>`.

S-expression (space separated, prefix): `a<text>` atom, `i<int>`, `f<text>` float literal, `v<k>` variable
(numbered by first occurrence), `c<text> <n> <arg>…` compound.
`<ops>`: `prio:type:<text>;…` (the complete operator table), `-` for none. `<uc>` as in drv_C55.
-/
open Scryer.Drv
open Scryer.Quote
open Scryer.CharClass
open Scryer.Syntax

namespace Scryer.DrvC15

def parseText (s : String) : List Char :=
  if s = "-" || s = "" then [] else (s.splitOn ",").filterMap fun t => t.toNat?.map Char.ofNat

def showText (cs : List Char) : String :=
  if cs.isEmpty then "-" else ",".intercalate (cs.map fun c => toString c.toNat)

def parseUC (s : String) : UC :=
  if s = "-" || s = "" then mkUC [] else
  mkUC ((s.splitOn ",").filterMap fun e =>
    match e.splitOn ":" with
    | [a, b] => match a.toNat?, b.toNat? with
      | some x, some y => some (x, y)
      | _, _ => none
    | _ => none)

def parseSpec : String → Option Spec
  | "xfx" => some .xfx | "xfy" => some .xfy | "yfx" => some .yfx | "xf" => some .xf | "yf" => some .yf
  | "fx" => some .fx | "fy" => some .fy | _ => none

def parseOps (s : String) : Ops :=
  let entries : List (List Char × OpDesc) :=
    if s = "-" || s = "" then [] else
    (s.splitOn ";").filterMap fun e =>
      match e.splitOn ":" with
      | [p, t, n] => match p.toNat?, parseSpec t with
        | some p, some sp => if p > 0 then some (parseText n, ⟨p, sp⟩) else none
        | _, _ => none
      | _ => none
  let look (f : Spec → Bool) (a : List Char) : Option OpDesc :=
    (entries.find? fun e => e.1 == a && f e.2.spec).map (·.2)
  { pre := look Spec.isPrefix, inf := look Spec.isInfix, post := look Spec.isPostfix }

def dropFirst (s : String) : String := String.ofList (s.toList.drop 1)

mutual
def parseSx : Nat → List String → Option (Tm × List String)
  | 0, _ => none
  | fuel + 1, toks =>
    match toks with
    | [] => none
    | t :: r =>
      if t.startsWith "a" then some (.atom (parseText (dropFirst t)), r)
      else if t.startsWith "i" then (parseInt? (dropFirst t)).map fun n => (.int n, r)
      else if t.startsWith "f" then
        let s := parseText (dropFirst t)
        match s with
        | '-' :: s' => some (.flt true s', r)
        | _ => some (.flt false s, r)
      else if t.startsWith "v" then some (.var ('_' :: 'V' :: (dropFirst t).toList), r)
      else if t.startsWith "c" then
        match r with
        | n :: r' =>
          match n.toNat? with
          | some k =>
            match parseSxArgs fuel k r' with
            | some (a :: as, r2) => some (.cmp (parseText (dropFirst t)) a (Args.ofList as), r2)
            | _ => none
          | none => none
        | [] => none
      else none
def parseSxArgs : Nat → Nat → List String → Option (List Tm × List String)
  | 0, _, _ => none
  | _ + 1, 0, r => some ([], r)
  | fuel + 1, k + 1, r =>
    match parseSx fuel r with
    | some (t, r1) =>
      match parseSxArgs fuel k r1 with
      | some (ts, r2) => some (t :: ts, r2)
      | none => none
    | none => none
end

/-- variables are numbered by first occurrence -/
def varIndex (seen : List (List Char)) (s : List Char) : Nat × List (List Char) :=
  match seen.findIdx? (· == s) with
  | some i => (i, seen)
  | none => (seen.length, seen ++ [s])

mutual
def showTm : Tm → List (List Char) → String × List (List Char)
  | .atom a, seen => ("a" ++ showText a, seen)
  | .int n, seen => ("i" ++ toString n, seen)
  | .flt neg s, seen => ("f" ++ showText (if neg then '-' :: s else s), seen)
  | .var s, seen =>
    if s = ['_'] then ("v" ++ toString seen.length, seen ++ [['_']])    -- anonymous: always fresh
    else
      let (i, seen') := varIndex seen s
      ("v" ++ toString i, seen')
  | .cmp f a as, seen =>
    let (sa, seen1) := showTm a seen
    let (n, sas, seen2) := showArgs as seen1
    ("c" ++ showText f ++ " " ++ toString (n + 1) ++ " " ++ sa ++ sas, seen2)
def showArgs : Args → List (List Char) → Nat × String × List (List Char)
  | .nil, seen => (0, "", seen)
  | .cons t ts, seen =>
    let (st, seen1) := showTm t seen
    let (n, sts, seen2) := showArgs ts seen1
    (n + 1, " " ++ st ++ sts, seen2)
end

def showOptTm : Option Tm → String
  | some t => (showTm t []).1
  | none => "error"

def handle : List String → String
  | ["canon", _, uc, sx] =>
    let toks := words sx
    match parseSx (toks.length + 2) toks with
    | some (t, []) => showText (canonText (parseUC uc) t)
    | _ => "bad-sexpr"
  | ["readc", _, uc, _, text] => showOptTm (readCanon (parseUC uc) (parseText text ++ [' ', '.']))
  | ["reado", _, uc, ops, text] => showOptTm (readOps (parseUC uc) (parseOps ops) (parseText text ++ [' ', '.']))
  | _ => "bad-op"

end Scryer.DrvC15

def main : IO Unit := runDriver Scryer.DrvC15.handle
