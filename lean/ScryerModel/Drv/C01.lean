import ScryerModel.Drv.Util
import ScryerModel.Drv.Arith
/- drv_C01: `arith <id> <prefix expr>` (mechanism model) and `arithspec <id> <expr>` (ℤ spec). -/
open Scryer.Drv

def main : IO Unit := runDriver fun
  | "arith" :: _ :: expr :: _ => arithLine expr
  | "arithspec" :: _ :: expr :: _ => arithSpecLine expr
  | _ => "bad-op"
