import ScryerModel.Drv.Util
import ScryerModel.Model.Traverse
/- drv_C34: `T <id> <shape> <n>` builds the shape iteratively, walks it with the iterative pre-order
   machine and the pair iterator and prints
   `nodes=<steps> vars=<distinct variables> maxwl=<work-list high-water mark> done=<bool> cmpself=<o> cmpcopy=<o>`
   (cmpcopy: the term against the same shape with fresh, younger variables). -/
open Scryer.Drv Scryer.Traverse

def fA (f : Nat) (as : List Tree) : Tree := .node f as
def atomA : Tree := .atom 1
def atomB : Tree := .atom 2

/-- shapes (functor ids are arbitrary but fixed: 0 = '.', 1 = f, 2 = g, 3 = {}, 4 = +, 5 = -, 6 = ',', 7 = w) -/
def shape (name : String) (n : Nat) (off : Nat := 0) : Option Tree :=
  match name with
  | "list" => some (wrapN n (fun t => fA 0 [.atom 7, t]) nil)        -- elements are constants
  | "alist" => some (wrapN n (fun t => fA 0 [atomA, t]) nil)
  | "vlist" => some ((List.range n).foldl (fun acc i => fA 0 [.var (i + off), acc]) nil)
  | "rdeep" => some (wrapN n (fun t => fA 1 [t]) atomA)
  | "vdeep" => some (wrapN n (fun t => fA 1 [t]) (.var off))
  | "rbin" => some (wrapN n (fun t => fA 2 [atomB, t]) atomA)
  | "lbin" => some (wrapN n (fun t => fA 2 [t, atomB]) atomA)
  | "nest" => some (wrapN n (fun t => fA 0 [t, nil]) nil)
  | "curly" => some (wrapN n (fun t => fA 3 [t]) atomA)
  | "plus" => some (wrapN n (fun t => fA 4 [t, atomB]) atomA)
  | "minus" => some (wrapN n (fun t => fA 5 [t]) atomA)
  | "conj" => some (wrapN n (fun t => fA 6 [.atom 3, t]) (.atom 3))
  | "wide" => some (wrapN n (fun t => fA 7 ((List.replicate 254 atomB) ++ [t])) atomA)
  | _ => none

/- a copy (copy_term) has fresh (= younger = larger in the standard order) variables: it is the same
   shape built with the variable indices shifted by `off`. -/

def countVars (t : Tree) (fuel : Nat) : Nat :=
  -- the shapes use every variable index once, so counting variable heads counts distinct variables
  foldIter (fun acc h => match h with | .var _ => acc + 1 | _ => acc) fuel [t] 0

def showOrd : Option Ordering → String
  | some .lt => "<" | some .eq => "=" | some .gt => ">" | none => "fuel"

def main : IO Unit := runDriver fun
  | "T" :: _ :: sh :: n :: _ =>
    match shape sh n.toNat!, shape sh n.toNat! (n.toNat! + 1) with
    | some t, some t' =>
      let fuel := 300 * n.toNat! + 16   -- ≥ number of nodes of every shape (wide: 256 n + 1)
      let r := run fuel (PState.init t)
      let vars := countVars t fuel
      s!"nodes={r.steps} vars={vars} maxwl={r.maxStack} done={r.stack.isEmpty} cmpself={showOrd (cmpIter fuel [(t, t)])} cmpcopy={showOrd (cmpIter fuel [(t, t')])}"
    | _, _ => "bad-shape"
  | _ => "bad-op"
