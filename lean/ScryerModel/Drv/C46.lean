import ScryerModel.Drv.Util
import ScryerModel.Model.BDD
/-! drv_C46: the clp(B) model (`Model/BDD.lean`) on a line protocol.

Formulas are space-separated prefix tokens (variables are already numbered by clp(B) index):
  `0` `1` `v N` `~ F` `* A B` `+ A B` `# A B` `= A B` (=:=) `n A B` (=\=) `le A B` `ge A B`
  `lt A B` `gt A B` `^ N F` `O k F1…Fk` (+(L)) `A k F1…Fk` (*(L)) `C m lo1 hi1 … lom him k F1…Fk`.
Operations (TAB separated fields):
  `one  id F vars`        → `sat=<0|1>;taut=<0|1|f>;count=<n>;spec=<n>;lab=<rows>`
  `seq  id vars F1 F2 …`  → `sat=0` | `sat=1;lab=<rows>`        (sat(F1), sat(F2), …, labeling(vars))
  `under id A B`          → `sat=0` | `sat=1;taut=<0|1|f>;count=<n>`   (sat(A), then taut(B,T) / sat_count(B,N))
rows: `010,110`, the empty row is `e`, no row at all is `none`. -/
open Scryer.Drv Scryer.BDD Scryer.BDD.BDD

namespace Scryer.BDD.Drv

mutual
partial def pFm : List String → Option (Fm × List String)
  | "0" :: r => some (.const false, r)
  | "1" :: r => some (.const true, r)
  | "v" :: n :: r => n.toNat?.map fun i => (.var i, r)
  | "~" :: r => do let (a, r) ← pFm r; pure (.not a, r)
  | "*" :: r => bin Fm.and r
  | "+" :: r => bin Fm.or r
  | "#" :: r => bin Fm.xor r
  | "=" :: r => bin Fm.eqv r
  | "n" :: r => bin Fm.neq r
  | "le" :: r => bin Fm.le r
  | "ge" :: r => bin Fm.ge r
  | "lt" :: r => bin Fm.lt r
  | "gt" :: r => bin Fm.gt r
  | "^" :: n :: r => do let i ← n.toNat?; let (a, r) ← pFm r; pure (.ex i a, r)
  | "O" :: k :: r => do let k ← k.toNat?; let (l, r) ← pFmL k r; pure (.orL l, r)
  | "A" :: k :: r => do let k ← k.toNat?; let (l, r) ← pFmL k r; pure (.andL l, r)
  | "C" :: m :: r => do
      let m ← m.toNat?
      let (is, r) ← pRanges m r
      match r with
      | k :: r => do let k ← k.toNat?; let (l, r) ← pFmL k r; pure (.card is l, r)
      | [] => none
  | _ => none
partial def bin (c : Fm → Fm → Fm) (r : List String) : Option (Fm × List String) := do
  let (a, r) ← pFm r
  let (b, r) ← pFm r
  pure (c a b, r)
partial def pFmL : Nat → List String → Option (FmL × List String)
  | 0, r => some (.nil, r)
  | k + 1, r => do let (a, r) ← pFm r; let (l, r) ← pFmL k r; pure (.cons a l, r)
partial def pRanges : Nat → List String → Option (List (Nat × Nat) × List String)
  | 0, r => some ([], r)
  | m + 1, lo :: hi :: r => do
      let lo ← lo.toNat?; let hi ← hi.toNat?
      let (is, r) ← pRanges m r
      pure ((lo, hi) :: is, r)
  | _, _ => none
end

def parseFm (s : String) : Option Fm :=
  match pFm (words s) with
  | some (f, []) => some f
  | _ => none

def parseVars (s : String) : Option (List Nat) := (words s).mapM String.toNat?

def showRow (r : List Bool) : String :=
  if r.isEmpty then "e" else String.ofList (r.map fun b => if b then '1' else '0')

def showRows (rs : List (List Bool)) : String :=
  if rs.isEmpty then "none" else ",".intercalate (rs.map showRow)

def showTaut : Option Bool → String
  | none => "f"
  | some true => "1"
  | some false => "0"

def freshAll (fs : List Fm) : Nat := fs.foldl (fun m f => max m f.fresh) 0

def postAll (fr : Nat) : List Fm → Store → Option Store
  | [], st => some st
  | f :: fs, st => (post fr st f).bind (postAll fr fs)

def handle : List String → Option String
  | ["one", _, f, vs] => do
    let f ← parseFm f
    let vs ← parseVars vs
    let lab := match post f.fresh (leaf true) f with
      | some st => showRows (labeling vs st)
      | none => "none"
    pure s!"sat={if sat f then 1 else 0};taut={showTaut (taut f)};count={satCount f};spec={specCount f};lab={lab}"
  | "seq" :: _ :: vs :: fs => do
    let vs ← parseVars vs
    let fs ← fs.mapM parseFm
    match postAll (freshAll fs) fs (leaf true) with
    | none => pure "sat=0"
    | some st => pure s!"sat=1;lab={showRows (labeling vs st)}"
  | ["under", _, a, b] => do
    let a ← parseFm a
    let b ← parseFm b
    let fr := freshAll [a, b]
    match post fr (leaf true) a with
    | none => pure "sat=0"
    | some st => pure s!"sat=1;taut={showTaut (tautUnder fr st b)};count={satCountUnder fr st b}"
  | _ => none

end Scryer.BDD.Drv

def main : IO Unit := runDriver fun l => (Scryer.BDD.Drv.handle l).getD "bad-input"
