import ScryerModel.Drv.Util
import ScryerModel.Model.Embed
/- drv_C28
   `hist <id> <clearBall 0|1> <discardOnDrop 0|1> <db> <k>:<tpl>|<k>:<tpl>|…`
       runs the history on the protocol model (`runHistory`) from a fresh machine with database <db>
   `spec <id> <db> <same history>`
       prints the specification (`specHistory`: every query judged on its own), each query's items
       followed by ` @ <database after it>`
   <db>  = comma separated integers, `-` for the empty database
   <tpl> = space separated words, see `tpl?`
   output: items of each query joined by ` ;; `, queries joined by ` | `, then ` # <final db>`
           (`hist` also appends ` # depth=<stack height> ball=<0|1>`).                                -/
open Scryer.Drv Scryer.Embed

def ints? (s : String) : Option (List Int) :=
  if s == "-" then some [] else (s.splitOn ",").mapM parseInt?

def tpl? : List String → Option Tpl
  | "pure" :: e :: as =>
      let e' : Option PEnd :=
        if e == "det" then some .det else if e == "fails" then some .fails
        else if e.startsWith "throws=" then some (.throws ((e.drop 7).toString)) else none
      e'.map fun e'' => .pure as e''
  | ["enum"] => some .enum
  | ["addz", n] => (parseInt? n).map .addz
  | ["adda", n] => (parseInt? n).map .adda
  | ["retr"] => some .retr
  | ["retrGt", n] => (parseInt? n).map .retrGt
  | ["enumAdd", d] => (parseInt? d).map .enumAdd
  | ["enumAddLt", d, n] => do some (.enumAddLt (← parseInt? d) (← parseInt? n))
  | ["enumThrow", n] => (parseInt? n).map .enumThrow
  | ["addThrow", n] => (parseInt? n).map .addThrow
  | ["enumOrThrow"] => some .enumOrThrow
  | ["membAdd", xs] => (ints? xs).map .membAdd
  | ["pairs", xs, ys] => do some (.pairs (← ints? xs) (← ints? ys))
  | ["pairsAdd", xs, ys] => do some (.pairsAdd (← ints? xs) (← ints? ys))
  | ["snap"] => some .snap
  | ["clear"] => some .clear
  | ["has", n] => (parseInt? n).map .has
  | ["retrThrow", n] => (parseInt? n).map .retrThrow
  | _ => none

def query? (s : String) : Option (Query Db × Nat) :=
  match s.splitOn ":" with
  | k :: rest =>
      match k.toNat?, tpl? (words (":".intercalate rest)) with
      | some kk, some t => some (t.sem, kk)
      | _, _ => none
  | _ => none

def showHist (r : List (List Item)) : String :=
  " | ".intercalate (r.map fun items => " ;; ".intercalate (items.map showItem))

def main : IO Unit := runDriver fun
  | "hist" :: _ :: clear :: disc :: db :: h :: _ =>
      match ints? db, (h.splitOn "|").mapM query? with
      | some d, some qs =>
          let r := runHistory { clearBall := clear == "1", discardOnDrop := disc == "1" } (Mach.fresh d) qs
          showHist r.1 ++ " # " ++ showList r.2.db ++ " # depth=" ++ toString r.2.stack.length
            ++ " ball=" ++ (if r.2.ball.isSome then "1" else "0")
      | _, _ => "bad-op"
  | "spec" :: _ :: db :: h :: _ =>
      match ints? db, (h.splitOn "|").mapM query? with
      | some d, some qs =>
          -- per query: items, then `@` and the database after it
          let step := fun (acc : List String × Db) (qk : Query Db × Nat) =>
            let r := specHistory acc.2 [qk]
            (acc.1 ++ [" ;; ".intercalate ((r.1.headD []).map showItem) ++ " @ " ++ showList r.2], r.2)
          let r := qs.foldl step ([], d)
          " | ".intercalate r.1 ++ " # " ++ showList (specHistory d qs).2
      | _, _ => "bad-op"
  | _ => "bad-op"
