import ScryerModel.Drv.Util
import ScryerModel.Model.Embed
/- drv_C28: `hist <id> <clear 0|1> <k>:<ev> <ev>…|<k>:<ev>…`  with ev = `a<0|1><name>` / `e<name>`;
   prints the items delivered per query: `A<name>` `E<name>` `F`, queries separated by ` | `.
   `spec <id> <same history>` prints the specification (prefixes of the stand-alone streams). -/
open Scryer.Drv Scryer.Embed

def ev? (s : String) : Option Ev :=
  match s.toList with
  | 'a' :: '1' :: r => some (.ans (String.ofList r) true)
  | 'a' :: '0' :: r => some (.ans (String.ofList r) false)
  | 'e' :: r => some (.exc (String.ofList r))
  | _ => none

def query? (s : String) : Option (Script × Nat) :=
  match s.splitOn ":" with
  | k :: rest =>
      match k.toNat?, (words (":".intercalate rest)).mapM ev? with
      | some kk, some evs => some (evs, kk)
      | _, _ => none
  | _ => none

def showItem : Item → String
  | .answer a => "A" ++ a
  | .exception b => "E" ++ b
  | .falseEnd => "F"

def showHist (r : List (List Item)) : String :=
  " | ".intercalate (r.map fun items => " ".intercalate (items.map showItem))

def main : IO Unit := runDriver fun
  | "hist" :: _ :: clear :: h :: _ =>
      match (h.splitOn "|").mapM query? with
      | some qs => showHist (runHistory (clear == "1") Mach.fresh qs)
      | none => "bad-op"
  | "spec" :: _ :: h :: _ =>
      match (h.splitOn "|").mapM query? with
      | some qs => showHist (specHistory qs)
      | none => "bad-op"
  | _ => "bad-op"
