import ScryerModel.Model.Solve
import ScryerModel.Drv.Util
import ScryerModel.Drv.TermIO
/-
drv_C08: `run <id> <clauses joined by " ;; "> <goal> <template> <max answers>`
  clauses / goal / template are terms in the harness' canonical syntax (Drv/TermIO); a clause is
  `':-'(Head,Body)` or a fact.
Result: `R <fuel> <#answers> :: <answer> ;; <answer> ;; exception(<ball>)` (at most <max> items,
then `...`), each answer being the template resolved under the answer substitution; or
`oof <fuel> <ms>` when the model did not finish within the fuel schedule / time guard.
The model (`Scryer.Solve.solve`) is run with increasing fuel; by the fuel-monotonicity theorem
(Props/C07) the first result that is not out of fuel is THE result.
-/
open Scryer Scryer.Drv Scryer.Solve

def toClause : Term → Clause
  | .str ":-" [h, b] => ⟨h, b⟩
  | t => ⟨t, .atom "true"⟩

def parseProg (s : String) : Option Prog :=
  if s.trimAscii.isEmpty then some [] else
  (s.splitOn " ;; ").foldr (fun c acc =>
    match acc, parseTermStr c with
    | some cs, some t => some (toClause t :: cs)
    | _, _ => none) (some [])

def bigFuel : Nat := 100000

def showAnswers (tmpl : Term) (maxA : Nat) (r : Res) : String :=
  let shown := r.sols.map fun s =>
    match resolve bigFuel s.σ tmpl with
    | some t => showTerm t
    | none => "?unresolved"
  let items := shown ++ (match r.exc with
      | some (b, _) => ["exception(" ++ showTerm b ++ ")"]
      | none => [])
  " ;; ".intercalate (items.take maxA ++ (if items.length > maxA then ["..."] else []))

def fuels : List Nat := [24, 48, 96, 192, 384]

def runQuery (prog : Prog) (goal tmpl : Term) (maxA : Nat) : IO String := do
  let mut last := 0
  let mut lastMs := 0
  for f in fuels do
    let t0 ← IO.monoMsNow
    let r := solve f prog goal ⟨[], 0⟩
    let out := if r.oof then none else some s!"R {f} {r.sols.length} :: {showAnswers tmpl maxA r}"
    -- force evaluation before reading the clock
    let done := match out with | some s => s.length | none => 0
    let t1 ← IO.monoMsNow
    last := f
    lastMs := t1 - t0 + (done - done)
    match out with
    | some s => return s
    | none => if t1 - t0 > 120 then break
  return s!"oof {last} {lastMs}"

def handleLine (l : String) : IO String := do
  match fields l with
  | "run" :: id :: prog :: goal :: tmpl :: maxA :: _ =>
      match parseProg prog, parseTermStr goal, parseTermStr tmpl, maxA.toNat? with
      | some p, some g, some t, some m => do
          let r ← runQuery p g t m
          return s!"{id}\t{r}"
      | _, _, _, _ => return s!"{id}\tbad-args"
  | _ :: id :: _ => return s!"{id}\tbad-op"
  | _ => return "?\tbad-op"

partial def ioLoop (h out : IO.FS.Stream) : IO Unit := do
  let line ← h.getLine
  if line.isEmpty then return ()
  let l := stripEol line
  if l.isEmpty || l.startsWith "#" then
    ioLoop h out
  else
    out.putStrLn (← handleLine l)
    out.flush
    ioLoop h out

def main : IO Unit := do
  ioLoop (← IO.getStdin) (← IO.getStdout)
