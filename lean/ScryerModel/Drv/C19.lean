import ScryerModel.Drv.Util
import ScryerModel.Drv.TermIO
import ScryerModel.Model.Stream
/- drv_C19:
   `RUN <id> <open spec> <script>`
     open spec : `in:<hex content>:<text|binary>:<error|eof_code|reset>:<0|1 reposition>`
               | `out:<text|binary>`
     script    : space separated tokens
        gc pc gk pk gb pb      get/peek char, code, byte
        n<k>                   $get_n_chars(S, k, _)
        ae es po               at_end_of_stream, end_of_stream property, position property
        sp<k>                  set_stream_position to byte k
        rt                     read/2
        wc<hex cp> wb<hex byte> ws<hex cp>,<hex cp>,…   put_char, put_byte, $put_chars
        RO:<ty>:<eof>:<repos>  close and reopen the written file for input
   result: one token per script token:
        c<hex cp> | b<hex> | eof | s<hex cp>,… | t<hex bytes> | e:not|at|past | p<cur>,<lines>
        | T | F | ok | fail | E:<error name> | reopened -/
open Scryer.Drv Scryer.Stream

def hexBytes19 (s : String) : List Nat :=
  let rec go : List Char → List Nat → List Nat
    | a :: b :: r, acc => go r ((((hexVal? a).getD 0) * 16 + ((hexVal? b).getD 0)) :: acc)
    | _, acc => acc.reverse
  go s.toList []

def hexNat (s : String) : Nat := (parseHex? s.toList).getD 0

def dropS (s : String) (n : Nat) : String := String.ofList (s.toList.drop n)

def hex2' (n : Nat) : String := toHex n 2

def parseTy (s : String) : Ty := if s == "binary" then .binary else .text
def parseEof (s : String) : EofAction :=
  if s == "error" then .error else if s == "reset" then .reset else .eofCode

def showErr : Err → String
  | .inputStream => "input_stream" | .inputBinary => "input_binary_stream"
  | .inputText => "input_text_stream" | .inputPastEnd => "input_past_end_of_stream"
  | .outputStream => "output_stream" | .outputBinary => "output_binary_stream"
  | .outputText => "output_text_stream" | .reposition => "reposition"
  | .ioError => "io_error" | .badEncoding => "bad_encoding" | .noTerm => "no_term"

def showEnd : EndPos → String
  | .not => "not" | .at => "at" | .past => "past"

def showRes : Res → String
  | .ok (.char cp) => "c" ++ hexOf cp
  | .ok (.byte b) => "b" ++ hexOf b
  | .ok .eof => "eof"
  | .ok (.chars cps) => "s" ++ ",".intercalate (cps.map hexOf)
  | .ok (.term bs) => "t" ++ String.join (bs.map hex2')
  | .ok (.endpos e) => "e:" ++ showEnd e
  | .ok (.pos p l) => "p" ++ toString p ++ "," ++ toString l
  | .ok (.bool true) => "T"
  | .ok (.bool false) => "F"
  | .ok .unit => "ok"
  | .error e => "E:" ++ showErr e
  | .fail => "fail"

def parseOp (t : String) : Option Op :=
  if t == "gc" then some .getChar else if t == "pc" then some .peekChar
  else if t == "gk" then some .getCode else if t == "pk" then some .peekCode
  else if t == "gb" then some .getByte else if t == "pb" then some .peekByte
  else if t == "ae" then some .atEnd else if t == "es" then some .endOfStream
  else if t == "po" then some .position else if t == "rt" then some .readTerm
  else if t.startsWith "sp" then (dropS t 2).toNat?.map Op.setPosition
  else if t.startsWith "n" then (dropS t 1).toNat?.map Op.getNChars
  else if t.startsWith "wc" then some (.putChar (hexNat (dropS t 2)))
  else if t.startsWith "wb" then some (.putByte (hexNat (dropS t 2)))
  else if t.startsWith "ws" then
    let body := dropS t 2
    some (.putChars (if body.isEmpty then [] else (body.splitOn ",").map hexNat))
  else none

def openSpec (spec : String) : Option St :=
  match spec.splitOn ":" with
  | ["in", hex, ty, eof, repos] => some (openIn (hexBytes19 hex) (parseTy ty) (parseEof eof) (repos == "1"))
  | ["out", ty] => some (openOut (parseTy ty))
  | _ => none

def runScript (s : St) (toks : List String) : List String :=
  let rec go : List String → St → List String → List String
    | [], _, acc => acc.reverse
    | t :: r, s, acc =>
      if t.startsWith "RO:" then
        match t.splitOn ":" with
        | [_, ty, eof, repos] => go r (reopen s (parseTy ty) (parseEof eof) (repos == "1")) ("reopened" :: acc)
        | _ => go r s ("bad-token" :: acc)
      else
        match parseOp t with
        | some op => let x := step s op; go r x.1 (showRes x.2 :: acc)
        | none => go r s ("bad-token" :: acc)
  go toks s []

def main : IO Unit := runDriver fun
  | "RUN" :: _ :: spec :: script :: _ =>
      match openSpec spec with
      | some s => " ".intercalate (runScript s (words script))
      | none => "bad-spec"
  | "RUN" :: _ :: spec :: [] =>
      match openSpec spec with
      | some _ => ""
      | none => "bad-spec"
  | _ => "bad-op"
