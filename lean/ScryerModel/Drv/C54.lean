import ScryerModel.Model.Reif
import ScryerModel.Drv.Util
import ScryerModel.Drv.TermIO
/-
drv_C54 — one operation (TAB separated; terms in the harness' canonical syntax):

  ev <id> <kind> <vars: names separated by spaces> <domain: ground terms joined by " ;; ">
     <pre: list of '='(A,B) / 'dif'(A,B) goals posted before the call> <A1> <A2>

  kind      A1                 A2        output term of an answer
  cond      condition          -         T
  if        condition          -         'then' / 'else'         (if_(C, R = then, R = else))
  tfilter   partial goal       list      Fs                      (partial goal: '='(A) or 'dif'(A))
  tpartition partial goal      list      Ts-Fs
  tmembert  partial goal       list      T
  tmember   partial goal       list      'yes'
  memberd   element            list      T
  conditions: '='(A,B)  'dif'(A,B)  ','(C1,C2)  ';'(C1,C2)

Result: the answers in order joined by " ;; "; an answer is its SIGNATURE over all valuations of
<vars> in <domain> (first variable slowest): `-` when the valuation does not satisfy the answer's
store, otherwise the output term instantiated by the valuation; entries joined by `|`.
`bad-args` on anything unreadable.
-/
open Scryer Scryer.Drv Scryer.Unify Scryer.Reif

partial def toCond : Term → Option Cond
  | .str "=" [a, b] => some (.eq a b)
  | .str "dif" [a, b] => some (.dif a b)
  | .str "," [a, b] => do let x ← toCond a; let y ← toCond b; pure (.and x y)
  | .str ";" [a, b] => do let x ← toCond a; let y ← toCond b; pure (.or x y)
  | _ => none

/-- `call(Partial, E, T)`. -/
def partialCond : Term → Option (Term → Cond)
  | .str "=" [a] => some fun e => .eq a e
  | .str "dif" [a] => some fun e => .dif a e
  | _ => none

def postPre (s : Store) : List Term → Option Store
  | [] => some s
  | .str "=" [a, b] :: r => postPre (s.addEq a b) r
  | .str "dif" [a, b] :: r => postPre (s.addDif a b) r
  | _ => none

def valuations (vars : List String) (dom : List Term) : List (List (String × Term)) :=
  vars.foldr (fun v acc => dom.flatMap fun d => acc.map fun θ => (v, d) :: θ) [[]]

def toFun (θ : List (String × Term)) : String → Term := fun x =>
  match θ.find? (fun p => p.1 == x) with
  | some p => p.2
  | none => .var x

def satB (θ : String → Term) (s : Store) : Bool :=
  s.eqs.all (fun p => p.1.subst θ == p.2.subst θ) && s.ds.all (fun p => !(p.1.subst θ == p.2.subst θ))

def signature (vals : List (List (String × Term))) (out : Term) (s : Store) : String :=
  "|".intercalate (vals.map fun θ =>
    let f := toFun θ
    if satB f s then showTerm (out.subst f) else "-")

def showAll (vals : List (List (String × Term))) (answers : List (Term × Store)) : String :=
  " ;; ".intercalate (answers.map fun a => signature vals a.1 a.2)

def run (kind : String) (vals : List (List (String × Term))) (s : Store) (a1 a2 : Term) :
    Option String :=
  let bt := fun (b : Bool) => boolTerm b
  match kind with
  | "cond" => do
      let c ← toCond a1
      pure (showAll vals ((evalC c none s).map fun p => (bt p.1, p.2)))
  | "if" => do
      let c ← toCond a1
      pure (showAll vals (ifT c (fun s1 => [(Term.atom "then", s1)]) (fun s1 => [(Term.atom "else", s1)]) s))
  | "tfilter" => do
      let p ← partialCond a1
      let xs ← asProperList? a2
      pure (showAll vals ((tfilterM p xs s).map fun q => (Term.ofList q.1, q.2)))
  | "tpartition" => do
      let p ← partialCond a1
      let xs ← asProperList? a2
      pure (showAll vals ((tpartitionM p xs s).map fun q =>
        (Term.str "-" [Term.ofList q.1.1, Term.ofList q.1.2], q.2)))
  | "tmembert" => do
      let p ← partialCond a1
      let xs ← asProperList? a2
      pure (showAll vals ((tmemberTM p xs s).map fun q => (bt q.1, q.2)))
  | "tmember" => do
      let p ← partialCond a1
      let xs ← asProperList? a2
      pure (showAll vals ((tmemberM p xs s).map fun q => (Term.atom "yes", q)))
  | "memberd" => do
      let xs ← asProperList? a2
      pure (showAll vals ((memberdM a1 xs s).map fun q => (bt q.1, q.2)))
  | _ => none

def parseList (s : String) : Option (List Term) :=
  if s.trimAscii.isEmpty then some [] else
  (s.splitOn " ;; ").foldr (fun c acc =>
    match acc, parseTermStr c with
    | some cs, some t => some (t :: cs)
    | _, _ => none) (some [])

def main : IO Unit := runDriver fun
  | "ev" :: _id :: kind :: vars :: dom :: pre :: a1 :: a2 :: _ =>
      match parseList dom, parseTermStr pre, parseTermStr a1, parseTermStr a2 with
      | some d, some preT, some t1, some t2 =>
          match asProperList? preT with
          | none => "bad-args"
          | some goals =>
            match postPre Store.empty goals with
            | none => "bad-args"
            | some s =>
              if !s.consistent then "R inconsistent-pre" else
              match run kind (valuations (words vars) d) s t1 t2 with
              | some r => "R " ++ r
              | none => "bad-args"
      | _, _, _, _ => "bad-args"
  | _ => "bad-op"
