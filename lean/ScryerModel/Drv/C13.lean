import ScryerModel.Model.Order
import ScryerModel.Drv.Util
import ScryerModel.Drv.TermIO
/-
drv_C13 — line protocol (TAB separated), terms in the harness' canonical syntax:
  cmp   <id> <T1> <T2>          -> lt | eq | gt            (Order.termCompare)
  norm  <id> <T>                -> the term printed back (render check of the Python side)
  ops   <id> <T1> <T2>          -> six letters t/f for  ==  \==  @<  @=<  @>  @>=
  sort  <id> <T1> … <Tn>        -> canonical list: sorted by termCompare, adjacent equals removed
  ksort <id> <K1> … <Kn>        -> the stable sort permutation of the keys, e.g. `2 0 1`
  acmp  <id> <atom1> <atom2>    -> `<code point order> <utf-8 byte order>` (both lt|eq|gt)
  flt   <id> <f(bits)>          -> nan | <num>/<den>        (Order.fltToRat)
Variables are aged by the number in their name (`V3`, `_G12` -> 3, 12): the Python side
names variables by the rank the implementation itself reports for them.
-/
open Scryer Scryer.Drv Scryer.Order

def ageOf (name : String) : Nat :=
  let ds := name.toList.filter Char.isDigit
  (String.ofList ds).toNat?.getD 0

def ordStr : Ordering → String
  | .lt => "lt" | .eq => "eq" | .gt => "gt"

def tf (b : Bool) : String := if b then "t" else "f"

def parseAll (xs : List String) : Option (List Term) := xs.mapM parseTermStr

/-- stable insertion sort (driver-only helper; C14 is the sorting property). -/
def insertBy {α : Type} (le : α → α → Bool) (x : α) : List α → List α
  | [] => [x]
  | y :: ys => if le y x then y :: insertBy le x ys else x :: y :: ys

def isort {α : Type} (le : α → α → Bool) (xs : List α) : List α :=
  xs.foldl (fun acc x => insertBy le x acc) []

def dedupAdj (eq : Term → Term → Bool) : List Term → List Term
  | [] => []
  | [x] => [x]
  | x :: y :: r => if eq x y then dedupAdj eq (y :: r) else x :: dedupAdj eq (y :: r)

def main : IO Unit := runDriver fun
  | "cmp" :: _ :: a :: b :: _ =>
      match parseTermStr a, parseTermStr b with
      | some x, some y => ordStr (termCompare ageOf x y)
      | _, _ => "parse-error"
  | "norm" :: _ :: a :: _ =>
      match parseTermStr a with
      | some x => showTerm x
      | none => "parse-error"
  | "ops" :: _ :: a :: b :: _ =>
      match parseTermStr a, parseTermStr b with
      | some x, some y =>
          String.join [tf (termEq ageOf x y), tf (termNe ageOf x y), tf (termLt ageOf x y),
                       tf (termLe ageOf x y), tf (termGt ageOf x y), tf (termGe ageOf x y)]
      | _, _ => "parse-error"
  | "sort" :: _ :: ts =>
      match parseAll ts with
      | some xs =>
          let s := isort (fun a b => termCompare ageOf a b != .gt) xs
          showTerm (Term.ofList (dedupAdj (fun a b => termCompare ageOf a b == .eq) s))
      | none => "parse-error"
  | "ksort" :: _ :: ts =>
      match parseAll ts with
      | some xs =>
          let idx := (List.range xs.length).zip xs
          let s := isort (fun (a b : Nat × Term) => termCompare ageOf a.2 b.2 != .gt) idx
          " ".intercalate (s.map fun p => toString p.1)
      | none => "parse-error"
  | "acmp" :: _ :: a :: b :: _ =>
      match parseTermStr a, parseTermStr b with
      | some (.atom x), some (.atom y) => ordStr (atomCmp x y) ++ " " ++ ordStr (atomCmpBytes x y)
      | _, _ => "parse-error"
  | "flt" :: _ :: a :: _ =>
      match parseTermStr a with
      | some (.flt b) =>
          (match fltToRat b with
           | none => "nan"
           | some (n, d) => s!"{n}/{d}")
      | _ => "parse-error"
  | _ => "bad-op"
