import ScryerModel.Model.ArithInt
import ScryerModel.Drv.Util
/- Driver for family `arith`: prefix S-expressions over the integer evaluator. -/
namespace Scryer.Drv
open Scryer.Arith

def unOp? : String → Option UnOp
  | "neg" => some .neg | "abs" => some .abs | "sign" => some .sign
  | "bnot" => some .bnot | "plus" => some .plus | _ => none

def binOp? : String → Option BinOp
  | "add" => some .add | "sub" => some .sub | "mul" => some .mul | "idiv" => some .idiv
  | "div" => some .div | "mod" => some .mod | "rem" => some .rem | "gcd" => some .gcd
  | "min" => some .min | "max" => some .max | "pow" => some .pow | "shl" => some .shl
  | "shr" => some .shr | "band" => some .band | "bor" => some .bor | "bxor" => some .bxor
  | _ => none

/-- parse one expression from a token list (fuel = number of tokens). -/
def parseExpr : Nat → List String → Option (Expr × List String)
  | 0, _ => none
  | _, [] => none
  | fuel+1, "(" :: op :: rest =>
      match unOp? op with
      | some u =>
          match parseExpr fuel rest with
          | some (e, ")" :: rest') => some (.un u e, rest')
          | _ => none
      | none =>
        match binOp? op with
        | some b =>
            match parseExpr fuel rest with
            | some (l, rest1) =>
                match parseExpr fuel rest1 with
                | some (r, ")" :: rest2) => some (.bin b l r, rest2)
                | _ => none
            | none => none
        | none => none
  | _, tok :: rest => (parseInt? tok).map (fun v => (.lit v, rest))

def showErr : Err → String
  | .zeroDivisor => "err zero_divisor"
  | .undefined => "err undefined"
  | .typeFloat c => s!"err type_float {c}"

def reprKind : Num → String
  | .fix _ => "fix" | .big _ => "big"

/-- `arith <id> <expr>` → `ok <value> <repr>` | `err …`; also reports spec value. -/
def arithLine (expr : String) : String :=
  let toks := words expr
  match parseExpr (toks.length + 1) toks with
  | some (e, []) =>
      match eval e with
      | .ok n => s!"ok {n.val} {reprKind n}"
      | .error x => showErr x
  | _ => "bad-op"

def arithSpecLine (expr : String) : String :=
  let toks := words expr
  match parseExpr (toks.length + 1) toks with
  | some (e, []) =>
      match evalSpec e with
      | .ok n => s!"ok {n}"
      | .error x => showErr x
  | _ => "bad-op"

end Scryer.Drv
