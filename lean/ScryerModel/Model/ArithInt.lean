/-
Model of the integer part of `src/machine/arithmetic_ops.rs`, `src/arithmetic.rs`
(`binary_pow`) and `src/forms.rs` (`ArenaFrom<i64>/<Integer> for Number`, `sign`).

Conventions
* `Num.fix v` is a `Number::Fixnum` (56-bit payload), `Num.big v` a `Number::Integer`
  (arena bignum, *never renormalised*: `big 2` is a legal value).
* every `checked_*`, `try_into`, `build_with_checked` of the Rust code is an explicit
  range test on an unbounded `Int`; each branch carries the same condition as the code.
* `dashu` primitives on `Integer` (`+ - * / % gcd pow << >> & | ^ !`) are modelled by the
  exact `Int` operation (trusted, and compared by the correspondence check).
This file imports nothing so that the driver links as a plain executable.
-/
namespace Scryer.Arith

inductive Num where
  | fix (v : Int)
  | big (v : Int)
  deriving Repr, DecidableEq, Inhabited

def FIX_MIN : Int := -(2^55)
def FIX_MAX : Int := 2^55 - 1
def I64_MIN : Int := -(2^63)
def I64_MAX : Int := 2^63 - 1
def U32_MAX : Int := 2^32 - 1
def USIZE_MAX : Int := 2^64 - 1

def inFix (v : Int) : Bool := decide (FIX_MIN ≤ v) && decide (v ≤ FIX_MAX)
def inI64 (v : Int) : Bool := decide (I64_MIN ≤ v) && decide (v ≤ I64_MAX)
def inU32 (v : Int) : Bool := decide (0 ≤ v) && decide (v ≤ U32_MAX)
def inUsize (v : Int) : Bool := decide (0 ≤ v) && decide (v ≤ USIZE_MAX)

def Num.val : Num → Int
  | .fix v => v
  | .big v => v

/-- well-formedness: a fixnum payload is in the 56-bit range. -/
def Num.wf : Num → Prop
  | .fix v => inFix v = true
  | .big _ => True

instance : DecidablePred Num.wf := fun n => by
  cases n <;> simp only [Num.wf] <;> infer_instance

/-- `Number::arena_from(i64)` / `fixnum!`: `Fixnum::build_with_checked`, else bignum. -/
def ofI64 (v : Int) : Num := if inFix v then .fix v else .big v
/-- `Number::arena_from(Integer)`: no renormalisation. -/
def ofBig (v : Int) : Num := .big v
/-- how an integer literal enters (parser: fixnum if it fits). -/
def lit (v : Int) : Num := ofI64 v

inductive Err where
  | zeroDivisor
  | undefined
  | typeFloat (culprit : Int)      -- type_error(float, N)
  deriving Repr, DecidableEq

abbrev R := Except Err Num

def Num.isNeg (n : Num) : Bool := decide (n.val < 0)
def Num.isZero (n : Num) : Bool := decide (n.val = 0)

/-! ### add / neg / abs / sub / mul -/

def add : Num → Num → Num
  | .fix a, .fix b =>
      -- i64 checked_add, then fixnum!; else Integer + Integer
      if inI64 (a + b) then ofI64 (a + b) else ofBig (a + b)
  | .fix a, .big b => ofBig (a + b)
  | .big a, .fix b => ofBig (b + a)
  | .big a, .big b => ofBig (a + b)

def neg : Num → Num
  | .fix a => if a ≠ I64_MIN then ofI64 (-a) else ofBig (-a)   -- checked_neg
  | .big a => ofBig (-a)

def abs : Num → Num
  | .fix a =>
      -- Fixnum::checked_abs = build_with_checked(a.abs()); else the constant MAX+1
      if inFix a.natAbs then .fix a.natAbs else ofBig (FIX_MAX + 1)
  | .big a => ofBig a.natAbs

def sub (a b : Num) : Num := add a (neg b)

def mul : Num → Num → Num
  | .fix a, .fix b => if inI64 (a * b) then ofI64 (a * b) else ofBig (a * b)
  | .fix a, .big b => ofBig (a * b)
  | .big a, .fix b => ofBig (b * a)
  | .big a, .big b => ofBig (a * b)

/-! ### // rem mod div -/

def idiv : Num → Num → R
  | .fix a, .fix b =>
      if b = 0 then .error .zeroDivisor
      else if ¬ (a = I64_MIN ∧ b = -1) then .ok (ofI64 (Int.tdiv a b))   -- checked_div
      else .ok (ofBig (Int.tdiv a b))
  | .fix a, .big b => if b = 0 then .error .zeroDivisor else .ok (ofBig (Int.tdiv a b))
  | .big a, .fix b => if b = 0 then .error .zeroDivisor else .ok (ofBig (Int.tdiv a b))
  | .big a, .big b => if b = 0 then .error .zeroDivisor else .ok (ofBig (Int.tdiv a b))

/-- `ibig_rem_floor`: residue modulo |n2| (in `[0,|n2|)`), shifted by `n2` when `n2 < 0`
    and the residue is non-zero. -/
def ibigRemFloor (n1 n2 : Int) : Int :=
  let r := Int.emod n1 (n2.natAbs : Int)
  if n2 < 0 then (if r = 0 then r else r + n2) else r

def modulus : Num → Num → R
  | .fix a, .fix b =>
      if b = 0 then .error .zeroDivisor else .ok (ofI64 (Int.fmod a b))    -- rem_floor
  | .fix a, .big b => if b = 0 then .error .zeroDivisor else .ok (ofBig (ibigRemFloor a b))
  | .big a, .fix b => if b = 0 then .error .zeroDivisor else .ok (ofBig (ibigRemFloor a b))
  | .big a, .big b => if b = 0 then .error .zeroDivisor else .ok (ofBig (ibigRemFloor a b))

def remainder : Num → Num → R
  | .fix a, .fix b => if b = 0 then .error .zeroDivisor else .ok (ofI64 (Int.tmod a b))
  | .fix a, .big b => if b = 0 then .error .zeroDivisor else .ok (ofBig (Int.tmod a b))
  | .big a, .fix b => if b = 0 then .error .zeroDivisor else .ok (ofBig (Int.tmod a b))
  | .big a, .big b => if b = 0 then .error .zeroDivisor else .ok (ofBig (Int.tmod a b))

/-- `int_floor_div`: `idiv (n1 - modulus(n1,n2)) n2`. -/
def intFloorDiv (a b : Num) : R :=
  match modulus a b with
  | .error e => .error e
  | .ok m => idiv (sub a m) b

/-! ### gcd (binary GCD on isize, `dashu` gcd otherwise) -/

/-- strip trailing zero bits (`while (n & 1) == 0 { n >>= 1 }`), fuelled. -/
def stripTwos : Nat → Nat → Nat
  | 0, n => n
  | fuel+1, n => if n % 2 = 0 ∧ n ≠ 0 then stripTwos fuel (n / 2) else n

/-- the common-factor loop: `while ((n1|n2)&1)==0 { shift+=1; n1>>=1; n2>>=1 }`. -/
def commonTwos : Nat → Nat → Nat → Nat → (Nat × Nat × Nat)
  | 0, a, b, s => (a, b, s)
  | fuel+1, a, b, s =>
      if a % 2 = 0 ∧ b % 2 = 0 then commonTwos fuel (a / 2) (b / 2) (s + 1) else (a, b, s)

/-- the main `loop` of `isize_gcd` (both arguments positive, `n1` odd). -/
def gcdLoop : Nat → Nat → Nat → Nat
  | 0, n1, _ => n1
  | fuel+1, n1, n2 =>
      let n2 := stripTwos 64 n2
      let (n1, n2) := if n1 > n2 then (n2, n1) else (n1, n2)
      let n2 := n2 - n1
      if n2 = 0 then n1 else gcdLoop fuel n1 n2

/-- `isize_gcd`; `none` when a `checked_abs` fails (argument = isize::MIN). -/
def isizeGcd (n1 n2 : Int) : Option Int :=
  if n1 = 0 then (if n2 = I64_MIN then none else some n2.natAbs)
  else if n2 = 0 then (if n1 = I64_MIN then none else some n1.natAbs)
  else if n1 = I64_MIN ∨ n2 = I64_MIN then none
  else
    let (a, b, s) := commonTwos 64 n1.natAbs n2.natAbs 0
    let a := stripTwos 64 a
    some ((gcdLoop (a + b + 1) a b : Nat) * (2 : Int) ^ s)

def gcd : Num → Num → Num
  | .fix a, .fix b =>
      match isizeGcd a b with
      | some r => ofI64 r
      | none => ofBig (Int.gcd a b)
  | .fix a, .big b => ofBig (Int.gcd b a)
  | .big a, .fix b => ofBig (Int.gcd a b)
  | .big a, .big b => ofBig (Int.gcd a b)

/-! ### shifts -/

/-- `a * 2^n`, written so that `0 << huge` is computable (equal to `a * 2^n`, see Proofs). -/
def shlZ (a : Int) (n : Nat) : Int := if a = 0 then 0 else a * 2 ^ n
/-- `⌊a / 2^n⌋` as an arithmetic shift (equal to `a / 2^n`, see Proofs). -/
def shrZ (a : Int) (n : Nat) : Int := a >>> n

def clampU32 (n : Int) : Int := if inU32 n then n else U32_MAX
def clampUsize (n : Int) : Int := if inUsize n then n else USIZE_MAX

/-- number of leading zero bits of a non-negative i64. -/
def leadingZeros (x : Int) : Nat := 64 - Nat.log2' x.toNat
where
  /-- bit length (0 for 0). -/
  Nat.log2' (n : Nat) : Nat := if n = 0 then 0 else Nat.log2 n + 1

/-- `checked_signed_shl` (shift already clamped to usize). -/
def checkedSignedShl (x : Int) (shift : Int) : Option Int :=
  if shift = 0 then some x
  else if x ≥ 0 then
    (if shift < (leadingZeros x : Int) then some (shlZ x shift.toNat) else none)
  else if x = I64_MIN then none
  else
    let y := -x
    if shift < (leadingZeros y : Int) then
      -- res.checked_neg(): res > 0 here so it never fails
      some (-(shlZ y shift.toNat))
    else none

/-- `shr` with a non-negative count. -/
def shrNonneg : Num → Int → Num
  | .fix a, n =>
      let n' := clampU32 n
      -- a.checked_shr(n').unwrap_or(sign fill)
      let res := if n' < 64 then shrZ a n'.toNat else (if a < 0 then -1 else 0)
      ofI64 res
  | .big a, n =>
      let n' := clampUsize n
      ofBig (shrZ a n'.toNat)

/-- `shl` with a non-negative count. -/
def shlNonneg : Num → Int → Num
  | .fix a, n =>
      let n' := clampUsize n
      match checkedSignedShl a n' with
      | some r => ofI64 r
      | none => ofBig (shlZ a n'.toNat)
  | .big a, n =>
      let n' := clampUsize n
      ofBig (shlZ a n'.toNat)

def shr (a b : Num) : Num :=
  if b.isNeg then shlNonneg a (neg b).val else shrNonneg a b.val

def shl (a b : Num) : Num :=
  if b.isNeg then shrNonneg a (neg b).val else shlNonneg a b.val

/-! ### bitwise (two's complement on unbounded integers; same definitions as Mathlib's
`Int.land/lor/xor`, restated here because core Lean has none and the model imports nothing) -/

def ldiff (m n : Nat) : Nat := Nat.bitwise (fun a b => a && !b) m n

def land : Int → Int → Int
  | .ofNat m, .ofNat n => ((m &&& n : Nat) : Int)
  | .ofNat m, .negSucc n => (ldiff m n : Int)
  | .negSucc m, .ofNat n => (ldiff n m : Int)
  | .negSucc m, .negSucc n => .negSucc (m ||| n)

def lor : Int → Int → Int
  | .ofNat m, .ofNat n => ((m ||| n : Nat) : Int)
  | .ofNat m, .negSucc n => .negSucc (ldiff n m)
  | .negSucc m, .ofNat n => .negSucc (ldiff m n)
  | .negSucc m, .negSucc n => .negSucc (m &&& n)

def lxor : Int → Int → Int
  | .ofNat m, .ofNat n => ((m ^^^ n : Nat) : Int)
  | .ofNat m, .negSucc n => .negSucc (m ^^^ n)
  | .negSucc m, .ofNat n => .negSucc (m ^^^ n)
  | .negSucc m, .negSucc n => ((m ^^^ n : Nat) : Int)

def band : Num → Num → Num
  | .fix a, .fix b => ofI64 (land a b)
  | .fix a, .big b => ofBig (land a b)
  | .big a, .fix b => ofBig (land a b)
  | .big a, .big b => ofBig (land a b)

def bor : Num → Num → Num
  | .fix a, .fix b => ofI64 (lor a b)
  | .fix a, .big b => ofBig (lor a b)
  | .big a, .fix b => ofBig (lor a b)
  | .big a, .big b => ofBig (lor a b)

def bxor : Num → Num → Num
  | .fix a, .fix b => ofI64 (lxor a b)
  | .fix a, .big b => ofBig (lxor a b)
  | .big a, .fix b => ofBig (lxor a b)
  | .big a, .big b => ofBig (lxor a b)

/-- `bitwise_complement`: `Fixnum(!n)` built unchecked, `!Integer` otherwise. -/
def bnot : Num → Num
  | .fix a => .fix (-a - 1)
  | .big a => ofBig (-a - 1)

/-! ### min / max / sign -/

def max : Num → Num → Num
  | .fix a, .fix b => if a > b then .fix a else .fix b
  | .fix a, .big b => if b > a then .big b else .fix a
  | .big a, .fix b => if a > b then .big a else .fix b
  | .big a, .big b => if a ≤ b then .big b else .big a      -- cmp::max returns the 2nd when equal

def min : Num → Num → Num
  | .fix a, .fix b => if a < b then .fix a else .fix b
  | .fix a, .big b => if b < a then .big b else .fix a
  | .big a, .fix b => if a < b then .big a else .fix b
  | .big a, .big b => if b < a then .big b else .big a      -- cmp::min returns the 1st when equal

def sign (n : Num) : Num :=
  if n.val > 0 then .fix 1 else if n.val < 0 then .fix (-1) else .fix 0

/-! ### power -/

/-- Rust `i64::checked_pow`, fuelled by the bit length of the exponent. -/
def checkedPowLoop : Nat → Int → Int → Nat → Option Int
  | 0, _, _, _ => none
  | fuel+1, base, acc, exp =>
      if exp % 2 = 1 then
        if ¬ inI64 (acc * base) then none
        else if exp = 1 then some (acc * base)
        else if ¬ inI64 (base * base) then none
        else checkedPowLoop fuel (base * base) (acc * base) (exp / 2)
      else
        if ¬ inI64 (base * base) then none
        else checkedPowLoop fuel (base * base) acc (exp / 2)

def checkedPow (a : Int) (n : Nat) : Option Int :=
  if n = 0 then some 1 else checkedPowLoop 33 a 1 n

/-- `binary_pow` main loop: `while power > 1 { if odd {oddand *= n}; n = n²; power >>= 1 }`. -/
def binaryPowLoop : Nat → Int → Int → Nat → Int
  | 0, n, oddand, _ => n * oddand
  | fuel+1, n, oddand, power =>
      if power > 1 then
        binaryPowLoop fuel (n * n) (if power % 2 = 1 then oddand * n else oddand) (power / 2)
      else n * oddand

/-- `binary_pow(n, power)`: ignores the sign of `power`. -/
def binaryPow (n : Int) (power : Int) : Int :=
  let p := power.natAbs
  if p = 0 then 1 else binaryPowLoop (Nat.log2 p + 1) n 1 p

def isUnitOrZero (a : Int) : Bool := a = 1 || a = 0 || a = -1

def intPow : Num → Num → R
  | a, b =>
    if a.isZero && b.isNeg then .error .undefined
    else match a, b with
    | .fix a, .fix n =>
        if !isUnitOrZero a && decide (n < 0) then .error (.typeFloat a)
        else
          match (if inU32 n then checkedPow a n.toNat else none) with
          | some r => .ok (ofI64 r)
          | none => .ok (ofBig (binaryPow a n))
    | .fix a, .big n =>
        if !isUnitOrZero a && decide (n < 0) then .error (.typeFloat a)
        else .ok (ofBig (binaryPow a n))
    | .big a, .fix n =>
        if !isUnitOrZero a && decide (n < 0) then .error (.typeFloat a)
        else .ok (ofBig (binaryPow a n))
    | .big a, .big n =>
        if !isUnitOrZero a && decide (n < 0) then .error (.typeFloat a)
        else .ok (ofBig (binaryPow a n))

/-! ### expressions -/

inductive UnOp where
  | neg | abs | sign | bnot | plus
  deriving Repr, DecidableEq

inductive BinOp where
  | add | sub | mul | idiv | div | mod | rem | gcd | min | max | pow | shl | shr
  | band | bor | bxor
  deriving Repr, DecidableEq

inductive Expr where
  | lit (v : Int)
  | un (op : UnOp) (e : Expr)
  | bin (op : BinOp) (l r : Expr)
  deriving Repr

def applyUn : UnOp → Num → R
  | .neg, a => .ok (neg a)
  | .abs, a => .ok (abs a)
  | .sign, a => .ok (sign a)
  | .bnot, a => .ok (bnot a)
  | .plus, a => .ok a

def applyBin : BinOp → Num → Num → R
  | .add, a, b => .ok (add a b)
  | .sub, a, b => .ok (sub a b)
  | .mul, a, b => .ok (mul a b)
  | .idiv, a, b => idiv a b
  | .div, a, b => intFloorDiv a b
  | .mod, a, b => modulus a b
  | .rem, a, b => remainder a b
  | .gcd, a, b => .ok (gcd a b)
  | .min, a, b => .ok (min a b)
  | .max, a, b => .ok (max a b)
  | .pow, a, b => intPow a b
  | .shl, a, b => .ok (shl a b)
  | .shr, a, b => .ok (shr a b)
  | .band, a, b => .ok (band a b)
  | .bor, a, b => .ok (bor a b)
  | .bxor, a, b => .ok (bxor a b)

/-- evaluation order of the implementation: left operand first, errors propagate. -/
def eval : Expr → R
  | .lit v => .ok (lit v)
  | .un op e =>
      match eval e with
      | .error x => .error x
      | .ok a => applyUn op a
  | .bin op l r =>
      match eval l with
      | .error x => .error x
      | .ok a =>
        match eval r with
        | .error x => .error x
        | .ok b => applyBin op a b

/-! ### the specification, written directly over ℤ -/

/-- `a ^ n`, written so that `(±1) ^ huge` and `0 ^ huge` are computable (= `a ^ n`, see Proofs). -/
def powZ (a : Int) (n : Nat) : Int :=
  if a = 1 then 1
  else if a = 0 then (if n = 0 then 1 else 0)
  else if a = -1 then (if n % 2 = 0 then 1 else -1)
  else a ^ n

def specUn : UnOp → Int → Except Err Int
  | .neg, a => .ok (-a)
  | .abs, a => .ok a.natAbs
  | .sign, a => .ok (Int.sign a)
  | .bnot, a => .ok (-a - 1)
  | .plus, a => .ok a

def specBin : BinOp → Int → Int → Except Err Int
  | .add, a, b => .ok (a + b)
  | .sub, a, b => .ok (a - b)
  | .mul, a, b => .ok (a * b)
  | .idiv, a, b => if b = 0 then .error .zeroDivisor else .ok (Int.tdiv a b)
  | .div, a, b => if b = 0 then .error .zeroDivisor else .ok (Int.fdiv a b)
  | .mod, a, b => if b = 0 then .error .zeroDivisor else .ok (Int.fmod a b)
  | .rem, a, b => if b = 0 then .error .zeroDivisor else .ok (Int.tmod a b)
  | .gcd, a, b => .ok (Int.gcd a b)
  | .min, a, b => .ok (if a ≤ b then a else b)
  | .max, a, b => .ok (if a ≤ b then b else a)
  | .pow, a, b =>
      if a = 0 ∧ b < 0 then .error .undefined
      else if b < 0 ∧ a ≠ 1 ∧ a ≠ -1 then .error (.typeFloat a)
      else .ok (powZ a b.natAbs)          -- for a = ±1, a^(-n) = a^n
  | .shl, a, b => .ok (if b ≥ 0 then shlZ a b.toNat else shrZ a (-b).toNat)
  | .shr, a, b => .ok (if b ≥ 0 then shrZ a b.toNat else shlZ a (-b).toNat)
  | .band, a, b => .ok (land a b)
  | .bor, a, b => .ok (lor a b)
  | .bxor, a, b => .ok (lxor a b)

def evalSpec : Expr → Except Err Int
  | .lit v => .ok v
  | .un op e =>
      match evalSpec e with
      | .error x => .error x
      | .ok a => specUn op a
  | .bin op l r =>
      match evalSpec l with
      | .error x => .error x
      | .ok a =>
        match evalSpec r with
        | .error x => .error x
        | .ok b => specBin op a b

end Scryer.Arith
