/-!
# Model of the Prolog flag predicates (property C44)

Anchors: `/repo/src/lib/builtins.pl` (`current_prolog_flag/2`, `set_prolog_flag/2`,
`flag_domain_error/2`, `answer_write_options/1`, `parse_options_list/5`,
`parse_write_options_/2`, `must_be_var_names_list/1`), `/repo/src/parser/ast.rs`
(`MachineFlags`, `DoubleQuotes`, `Unknown`), `/repo/src/machine/machine_state.rs`
(`OccursCheckImpl::flag_value`), `/repo/src/machine/system_calls.rs` (`get_double_quotes`,
`set_double_quotes`, `get_unknown`, `set_unknown`, `is_sto_enabled`, `set_sto_as_unify`,
`set_nsto_as_unify`, `set_sto_with_error_as_unify`).

The two predicates are ordinary Prolog clauses, so the model is *clause level*: a clause is a
pair of head patterns and a list of body goals taken from a small goal language (`==`, `=`,
type tests, `!`, `'$fail'`, `throw`, the `'$…'` system calls). `solve` is the usual
first-to-last clause resolution with cut for a two-argument predicate whose body goals are all
determinate. A one-token change in a clause (`==` for `=`, a missing clause, two clauses
swapped) is a one-constructor change in a clause list.

Two pairs of clause lists are given:
* `cpfPinned` / `spfPinned` — the clauses exactly as they are in the pinned commit;
* `cpfFixed` / `spfFixed` — the same with the minimal corrections proposed in
  `notes/findings/C44-*.md` (ISO 8.17 error table, read-only flags handled uniformly).
The property theorems (Props/C44.lean) are proved for the `Fixed` lists; `example`s show that
they are false for the `Pinned` lists at the concrete inputs of the findings.

The second half is a table-driven *specification* (`specGet`, `specSet`), proved equal to
`solve` on the `Fixed` lists in `Proofs/Flags.lean`.

Abstractions: terms have arity ≤ 2 (all that flag values need); unification of a caller
argument with a stored value is `bind if the argument is an unbound variable, else syntactic
identity` — exact when the nonvar argument or the stored value is ground; `Flag` and `Value`
are distinct variables when both are unbound; floats are opaque (their bit pattern).
-/
namespace Scryer.Flags

/-- Prolog terms, as far as flag names, flag values and error terms need them. -/
inductive Term where
  | var (n : Nat)
  | atom (s : String)
  | int (i : Int)
  | flt (bits : String)
  | c1 (f : String) (a : Term)
  | c2 (f : String) (a b : Term)
  deriving DecidableEq, Repr, Inhabited

namespace Term
def isVar : Term → Bool | .var _ => true | _ => false
def isAtom : Term → Bool | .atom _ => true | _ => false
def isInt : Term → Bool | .int _ => true | _ => false
end Term

abbrev A (s : String) : Term := .atom s
def nil : Term := .atom "[]"
def cons (h t : Term) : Term := .c2 "." h t
def mkList : List Term → Term
  | [] => nil
  | h :: t => cons h (mkList t)

/-- `'$skip_max_list'(_, _, L, Tail)`: the elements of the list prefix and the final tail. -/
def listView : Term → List Term × Term
  | .c2 f h t => if f = "." then ((h :: (listView t).1), (listView t).2) else ([], .c2 f h t)
  | t => ([], t)

/-! ## Machine state that holds flag values -/

/-- `ast.rs: enum DoubleQuotes` (default `Chars`). -/
inductive DQ | atom | chars | codes deriving DecidableEq, Repr
/-- `ast.rs: enum Unknown` (default `Error`). -/
inductive Unk | error | fail | warn deriving DecidableEq, Repr
/-- `machine_state.rs`: the three `OccursCheckImpl`s (`Nsto` is the initial one). -/
inductive OC | nsto | sto | stoError deriving DecidableEq, Repr

/-- `MachineState.flags : MachineFlags`, `MachineState.occurs_check`, and the blackboard entry
    `'$answer_write_options'` (`none` = never put). -/
structure St where
  dq : DQ
  unk : Unk
  oc : OC
  awo : Option Term
  deriving DecidableEq, Repr

def St.init : St := ⟨.chars, .error, .nsto, none⟩

/-! ## System calls (system_calls.rs) -/

def DQ.toAtom : DQ → Term
  | .chars => A "chars" | .atom => A "atom" | .codes => A "codes"
def Unk.toAtom : Unk → Term
  | .error => A "error" | .fail => A "fail" | .warn => A "warning"
/-- `OccursCheckImpl::flag_value`. -/
def OC.flagValue : OC → Term
  | .nsto => A "false" | .sto => A "true" | .stoError => A "error"

/-- `set_double_quotes`: unknown atoms make the call fail. -/
def sysSetDoubleQuotes (a : Term) (st : St) : Option St :=
  if a = A "atom" then some { st with dq := .atom }
  else if a = A "chars" then some { st with dq := .chars }
  else if a = A "codes" then some { st with dq := .codes }
  else none

/-- `set_unknown`. -/
def sysSetUnknown (a : Term) (st : St) : Option St :=
  if a = A "error" then some { st with unk := .error }
  else if a = A "fail" then some { st with unk := .fail }
  else if a = A "warning" then some { st with unk := .warn }
  else none

/-- `answer_write_options(Value) :- ( bb_get('$answer_write_options', Value) -> true ; Value = [] )`. -/
def answerWriteOptions (st : St) : Term :=
  match st.awo with
  | some t => t
  | none => nil

/-! ## Validation of write options (`parse_write_options/3` as used by `set_prolog_flag/2`) -/

/-- outcome of validating a value: appropriate / insufficiently instantiated / inappropriate. -/
inductive VRes | ok | inst | bad deriving DecidableEq, Repr

/-- boolean options: `var -> instantiation_error ; member(V,[true,false]) ; domain_error`. -/
def checkBool (v : Term) : VRes :=
  if v.isVar then .inst else if v = A "true" ∨ v = A "false" then .ok else .bad

/-- `max_depth(N)`: `var -> instantiation_error ; integer(N), N >= 0 ; domain_error`. -/
def checkMaxDepth (v : Term) : VRes :=
  match v with
  | .var _ => .inst
  | .int i => if i ≥ 0 then .ok else .bad
  | _ => .bad

/-- `must_be_var_names_list_/2`: every element must be `Atom = _`. -/
def checkVarNamesElems : List Term → VRes
  | [] => .ok
  | e :: es =>
    match e with
    | .var _ => .inst
    | .c2 f a _ =>
      if f = "=" then
        match a with
        | .atom _ => checkVarNamesElems es
        | .var _ => .inst
        | _ => .bad
      else .bad
    | _ => .bad

/-- `must_be_var_names_list/1`. -/
def checkVarNames (v : Term) : VRes :=
  if (listView v).2 = nil then checkVarNamesElems (listView v).1
  else if (listView v).2.isVar then .inst
  else .bad

/-- `parse_write_options_/2`, one option (already known to be nonvar). -/
def checkOption : Term → VRes
  | .c1 f v =>
    if f = "double_quotes" ∨ f = "ignore_ops" ∨ f = "quoted" ∨ f = "numbervars" then checkBool v
    else if f = "variable_names" then checkVarNames v
    else if f = "max_depth" then checkMaxDepth v
    else .bad
  | _ => .bad

/-- `maplist(Selector, Options, _)`: the first offending option decides. -/
def checkOptionsSeq : List Term → VRes
  | [] => .ok
  | o :: os =>
    match checkOption o with
    | .ok => checkOptionsSeq os
    | r => r

/-- `parse_options_list/5` under the two `catch/3`s of the `answer_write_options` clause:
    partial list → instantiation_error; other non-list → (type_error →) flag domain error;
    an unbound element → instantiation_error; otherwise the options from left to right. -/
def checkWriteOptions (v : Term) : VRes :=
  if (listView v).2 = nil then
    if (listView v).1.any Term.isVar then .inst else checkOptionsSeq (listView v).1
  else if (listView v).2.isVar then .inst
  else .bad

/-! ## Clause language -/

inductive Arg | flag | value deriving DecidableEq, Repr

/-- the error terms thrown by the flag clauses (first argument of `error/2`). -/
inductive Err
  | inst          -- instantiation_error
  | typeAtom      -- type_error(atom, Flag)
  | domFlag       -- domain_error(prolog_flag, Flag)
  | domValue      -- domain_error(flag_value, Flag + Value)
  deriving DecidableEq, Repr

inductive Sys
  | getDoubleQuotes      -- '$get_double_quotes'(Value)
  | getUnknown           -- '$get_unknown'(Value)
  | isStoEnabled         -- '$is_sto_enabled'(Value)
  | getAnswerWriteOptions -- answer_write_options(Value), corrected: ( bb_get(K, V0) -> Value = V0 ; Value = [] )
  | getAnswerWriteOptionsPinned -- as pinned: ( bb_get(K, Value) -> true ; Value = [] )
  | setDoubleQuotes (a : String)  -- '$set_double_quotes'(a)
  | setUnknown (a : String)       -- '$set_unknown'(a)
  | setSto | setNsto | setStoError -- '$set_sto_as_unify' …
  | checkAnswerWriteOptions       -- catch(catch(parse_write_options(Value,_,_), …), …, flag_domain_error(…))
  | putAnswerWriteOptions         -- bb_put('$answer_write_options', Value)
  deriving DecidableEq, Repr

inductive Goal
  | eqeq (a : Arg) (t : Term)     -- Arg == t
  | unif (a : Arg) (t : Term)     -- Arg = t   (t atomic)
  | isVar (a : Arg) | nonvar (a : Arg) | isAtom (a : Arg) | isInt (a : Arg)
  | anyVar                        -- ( var(Flag) ; var(Value) )
  | cut | fail
  | throw (e : Err)
  | sys (s : Sys)
  deriving DecidableEq, Repr

/-- a clause `p(HeadFlag, HeadValue) :- Body`; `none` is a variable in the head. -/
structure Clause where
  hf : Option Term
  hv : Option Term
  body : List Goal
  deriving Repr

/-- the instantiated argument pair of a call. -/
structure Args where
  f : Term
  v : Term
  deriving DecidableEq, Repr

def Args.get (a : Args) : Arg → Term | .flag => a.f | .value => a.v
def Args.set (a : Args) : Arg → Term → Args
  | .flag, t => { a with f := t }
  | .value, t => { a with v := t }

/-- unify a call argument with a term: bind an unbound variable, otherwise identity. -/
def unifyArg (x t : Term) : Option Term :=
  match x with
  | .var _ => some t
  | _ => if x = t then some x else none

def Err.term (e : Err) (a : Args) : Term :=
  match e with
  | .inst => A "instantiation_error"
  | .typeAtom => .c2 "type_error" (A "atom") a.f
  | .domFlag => .c2 "domain_error" (A "prolog_flag") a.f
  | .domValue => .c2 "domain_error" (A "flag_value") (.c2 "+" a.f a.v)

inductive SysRes
  | ok (a : Args) (st : St)
  | fail
  | throw (e : Term)

def unifyValue (a : Args) (t : Term) (st : St) : SysRes :=
  match unifyArg a.v t with
  | some v' => .ok { a with v := v' } st
  | none => .fail

def runSys (s : Sys) (a : Args) (st : St) : SysRes :=
  match s with
  | .getDoubleQuotes => unifyValue a st.dq.toAtom st
  | .getUnknown => unifyValue a st.unk.toAtom st
  | .isStoEnabled => unifyValue a st.oc.flagValue st
  | .getAnswerWriteOptions => unifyValue a (answerWriteOptions st) st
  | .getAnswerWriteOptionsPinned =>
    -- `bb_get(Key, Value)` fails both when nothing is stored and when the stored term does not
    -- unify with `Value`; in both cases the else branch `Value = []` is taken
    match st.awo with
    | some t =>
      match unifyArg a.v t with
      | some v' => .ok { a with v := v' } st
      | none => unifyValue a nil st
    | none => unifyValue a nil st
  | .setDoubleQuotes x =>
    match sysSetDoubleQuotes (A x) st with
    | some st' => .ok a st'
    | none => .fail
  | .setUnknown x =>
    match sysSetUnknown (A x) st with
    | some st' => .ok a st'
    | none => .fail
  | .setSto => .ok a { st with oc := .sto }
  | .setNsto => .ok a { st with oc := .nsto }
  | .setStoError => .ok a { st with oc := .stoError }
  | .checkAnswerWriteOptions =>
    match checkWriteOptions a.v with
    | .ok => .ok a st
    | .inst => .throw (Err.inst.term a)
    | .bad => .throw (Err.domValue.term a)
  | .putAnswerWriteOptions => .ok a { st with awo := some a.v }

/-- result of running one clause body. `cut` tells whether `!` was executed. -/
inductive BodyRes
  | fail (cut : Bool) (st : St)
  | succ (cut : Bool) (a : Args) (st : St)
  | throw (e : Term) (st : St)

def runBody : List Goal → Bool → Args → St → BodyRes
  | [], c, a, st => .succ c a st
  | g :: gs, c, a, st =>
    match g with
    | .eqeq x t => if (a.get x) = t then runBody gs c a st else .fail c st
    | .unif x t =>
      match unifyArg (a.get x) t with
      | some t' => runBody gs c (a.set x t') st
      | none => .fail c st
    | .isVar x => if (a.get x).isVar then runBody gs c a st else .fail c st
    | .nonvar x => if (a.get x).isVar then .fail c st else runBody gs c a st
    | .isAtom x => if (a.get x).isAtom then runBody gs c a st else .fail c st
    | .isInt x => if (a.get x).isInt then runBody gs c a st else .fail c st
    | .anyVar => if a.f.isVar || a.v.isVar then runBody gs c a st else .fail c st
    | .cut => runBody gs true a st
    | .fail => .fail c st
    | .throw e => .throw (e.term a) st
    | .sys s =>
      match runSys s a st with
      | .ok a' st' => runBody gs c a' st'
      | .fail => .fail c st
      | .throw e => .throw e st

/-- all solutions of a call, in order; `err` is an error raised after them (it ends the search). -/
structure Outcome where
  answers : List Args
  err : Option Term
  st : St
  deriving DecidableEq, Repr

/-- one more solution in front of the solutions found on backtracking. -/
def Outcome.addAnswer (o : Outcome) (x : Args) : Outcome := { o with answers := x :: o.answers }

def headUnify (c : Clause) (a : Args) : Option Args :=
  match c.hf with
  | none =>
    match c.hv with
    | none => some a
    | some pv => (unifyArg a.v pv).map fun v' => { a with v := v' }
  | some pf =>
    match unifyArg a.f pf with
    | none => none
    | some f' =>
      match c.hv with
      | none => some { a with f := f' }
      | some pv => (unifyArg a.v pv).map fun v' => { f := f', v := v' }

/-- clause resolution, first clause to last, with cut. Side effects of system calls persist. -/
def solve : List Clause → Args → St → Outcome
  | [], _, st => ⟨[], none, st⟩
  | c :: cs, a, st =>
    match headUnify c a with
    | none => solve cs a st
    | some a' =>
      match runBody c.body false a' st with
      | .fail true st' => ⟨[], none, st'⟩
      | .fail false st' => solve cs a st'
      | .throw e st' => ⟨[], some e, st'⟩
      | .succ true a'' st' => ⟨[a''], none, st'⟩
      | .succ false a'' st' => (solve cs a st').addAnswer a''

/-! ## The clauses -/

open Goal Arg in
/-- `current_prolog_flag/2`, builtins.pl lines 148–177 of the pinned commit, clause by clause. -/
def cpfPinned : List Clause := [
  ⟨none, none, [eqeq flag (A "max_arity"), cut, unif value (.int 255)]⟩,
  ⟨some (A "max_arity"), some (.int 255), []⟩,
  ⟨none, none, [eqeq flag (A "bounded"), cut, unif value (A "false")]⟩,
  ⟨some (A "bounded"), some (A "false"), []⟩,
  ⟨none, none, [eqeq flag (A "integer_rounding_function"), cut, eqeq value (A "toward_zero")]⟩,
  ⟨some (A "integer_rounding_function"), some (A "toward_zero"), []⟩,
  ⟨none, none, [eqeq flag (A "double_quotes"), cut, sys .getDoubleQuotes]⟩,
  ⟨some (A "double_quotes"), none, [sys .getDoubleQuotes]⟩,
  ⟨none, none, [eqeq flag (A "unknown"), cut, sys .getUnknown]⟩,
  ⟨some (A "unknown"), none, [sys .getUnknown]⟩,
  ⟨none, none, [eqeq flag (A "max_integer"), cut, fail]⟩,
  ⟨none, none, [eqeq flag (A "min_integer"), cut, fail]⟩,
  ⟨none, none, [eqeq flag (A "occurs_check"), cut, sys .isStoEnabled]⟩,
  ⟨some (A "occurs_check"), none, [sys .isStoEnabled]⟩,
  ⟨none, none, [eqeq flag (A "answer_write_options"), cut, sys .getAnswerWriteOptionsPinned]⟩,
  ⟨some (A "answer_write_options"), none, [sys .getAnswerWriteOptionsPinned]⟩,
  ⟨none, none, [isAtom flag, throw .domFlag]⟩,
  ⟨none, none, [nonvar flag, throw .typeAtom]⟩ ]

open Goal Arg in
/-- `cpfPinned` with the one-token correction of finding C44-1 (`Value = toward_zero`) and the
    corrected `answer_write_options/1` of finding C44-5. -/
def cpfFixed : List Clause := [
  ⟨none, none, [eqeq flag (A "max_arity"), cut, unif value (.int 255)]⟩,
  ⟨some (A "max_arity"), some (.int 255), []⟩,
  ⟨none, none, [eqeq flag (A "bounded"), cut, unif value (A "false")]⟩,
  ⟨some (A "bounded"), some (A "false"), []⟩,
  ⟨none, none, [eqeq flag (A "integer_rounding_function"), cut, unif value (A "toward_zero")]⟩,
  ⟨some (A "integer_rounding_function"), some (A "toward_zero"), []⟩,
  ⟨none, none, [eqeq flag (A "double_quotes"), cut, sys .getDoubleQuotes]⟩,
  ⟨some (A "double_quotes"), none, [sys .getDoubleQuotes]⟩,
  ⟨none, none, [eqeq flag (A "unknown"), cut, sys .getUnknown]⟩,
  ⟨some (A "unknown"), none, [sys .getUnknown]⟩,
  ⟨none, none, [eqeq flag (A "max_integer"), cut, fail]⟩,
  ⟨none, none, [eqeq flag (A "min_integer"), cut, fail]⟩,
  ⟨none, none, [eqeq flag (A "occurs_check"), cut, sys .isStoEnabled]⟩,
  ⟨some (A "occurs_check"), none, [sys .isStoEnabled]⟩,
  ⟨none, none, [eqeq flag (A "answer_write_options"), cut, sys .getAnswerWriteOptions]⟩,
  ⟨some (A "answer_write_options"), none, [sys .getAnswerWriteOptions]⟩,
  ⟨none, none, [isAtom flag, throw .domFlag]⟩,
  ⟨none, none, [nonvar flag, throw .typeAtom]⟩ ]

open Goal Arg in
/-- `set_prolog_flag/2`, builtins.pl lines 188–237 of the pinned commit, clause by clause. -/
def spfPinned : List Clause := [
  ⟨none, none, [anyVar, throw .inst]⟩,
  ⟨some (A "bounded"), some (A "false"), [cut]⟩,
  ⟨some (A "bounded"), some (A "true"), [cut, fail]⟩,
  ⟨some (A "bounded"), none, [throw .domValue]⟩,
  ⟨some (A "max_integer"), none, [isInt value, cut, fail]⟩,
  ⟨some (A "max_integer"), none, [throw .domValue]⟩,
  ⟨some (A "min_integer"), none, [isInt value, cut, fail]⟩,
  ⟨some (A "min_integer"), none, [throw .domValue]⟩,
  ⟨some (A "integer_rounding_function"), some (A "down"), [cut]⟩,
  ⟨some (A "integer_rounding_function"), none, [throw .domValue]⟩,
  ⟨some (A "double_quotes"), some (A "chars"), [cut, sys (.setDoubleQuotes "chars")]⟩,
  ⟨some (A "double_quotes"), some (A "atom"), [cut, sys (.setDoubleQuotes "atom")]⟩,
  ⟨some (A "double_quotes"), some (A "codes"), [cut, sys (.setDoubleQuotes "codes")]⟩,
  ⟨some (A "unknown"), some (A "error"), [cut, sys (.setUnknown "error")]⟩,
  ⟨some (A "unknown"), some (A "warning"), [cut, sys (.setUnknown "warning")]⟩,
  ⟨some (A "unknown"), some (A "fail"), [cut, sys (.setUnknown "fail")]⟩,
  ⟨some (A "occurs_check"), some (A "true"), [cut, sys .setSto]⟩,
  ⟨some (A "occurs_check"), some (A "false"), [cut, sys .setNsto]⟩,
  ⟨some (A "occurs_check"), some (A "error"), [cut, sys .setStoError]⟩,
  ⟨some (A "double_quotes"), none, [throw .domValue]⟩,
  ⟨some (A "answer_write_options"), none,
      [cut, sys .checkAnswerWriteOptions, sys .putAnswerWriteOptions]⟩,
  ⟨none, none, [isAtom flag, throw .domFlag]⟩,
  ⟨none, none, [throw .typeAtom]⟩ ]

open Goal Arg in
/-- `spfPinned` with the corrections of findings C44-2, C44-3, C44-4: `max_arity` is a
    read-only flag like `bounded`; `integer_rounding_function` accepts its value
    `toward_zero` and refuses `down`; `unknown` and `occurs_check` report an inappropriate
    value as `domain_error(flag_value, F+V)`. -/
def spfFixed : List Clause := [
  ⟨none, none, [anyVar, throw .inst]⟩,
  ⟨some (A "max_arity"), some (.int 255), [cut]⟩,
  ⟨some (A "max_arity"), none, [isInt value, cut, fail]⟩,
  ⟨some (A "max_arity"), none, [throw .domValue]⟩,
  ⟨some (A "bounded"), some (A "false"), [cut]⟩,
  ⟨some (A "bounded"), some (A "true"), [cut, fail]⟩,
  ⟨some (A "bounded"), none, [throw .domValue]⟩,
  ⟨some (A "max_integer"), none, [isInt value, cut, fail]⟩,
  ⟨some (A "max_integer"), none, [throw .domValue]⟩,
  ⟨some (A "min_integer"), none, [isInt value, cut, fail]⟩,
  ⟨some (A "min_integer"), none, [throw .domValue]⟩,
  ⟨some (A "integer_rounding_function"), some (A "toward_zero"), [cut]⟩,
  ⟨some (A "integer_rounding_function"), some (A "down"), [cut, fail]⟩,
  ⟨some (A "integer_rounding_function"), none, [throw .domValue]⟩,
  ⟨some (A "double_quotes"), some (A "chars"), [cut, sys (.setDoubleQuotes "chars")]⟩,
  ⟨some (A "double_quotes"), some (A "atom"), [cut, sys (.setDoubleQuotes "atom")]⟩,
  ⟨some (A "double_quotes"), some (A "codes"), [cut, sys (.setDoubleQuotes "codes")]⟩,
  ⟨some (A "unknown"), some (A "error"), [cut, sys (.setUnknown "error")]⟩,
  ⟨some (A "unknown"), some (A "warning"), [cut, sys (.setUnknown "warning")]⟩,
  ⟨some (A "unknown"), some (A "fail"), [cut, sys (.setUnknown "fail")]⟩,
  ⟨some (A "occurs_check"), some (A "true"), [cut, sys .setSto]⟩,
  ⟨some (A "occurs_check"), some (A "false"), [cut, sys .setNsto]⟩,
  ⟨some (A "occurs_check"), some (A "error"), [cut, sys .setStoError]⟩,
  ⟨some (A "double_quotes"), none, [throw .domValue]⟩,
  ⟨some (A "unknown"), none, [throw .domValue]⟩,
  ⟨some (A "occurs_check"), none, [throw .domValue]⟩,
  ⟨some (A "answer_write_options"), none,
      [cut, sys .checkAnswerWriteOptions, sys .putAnswerWriteOptions]⟩,
  ⟨none, none, [isAtom flag, throw .domFlag]⟩,
  ⟨none, none, [throw .typeAtom]⟩ ]

/-- a pair of clause lists (one version of builtins.pl's flag section). -/
structure Preds where
  cpf : List Clause
  spf : List Clause

def fixed : Preds := ⟨cpfFixed, spfFixed⟩
def pinned : Preds := ⟨cpfPinned, spfPinned⟩

/-- `current_prolog_flag(F, V)` in state `st`. -/
def get (f v : Term) (st : St) : Outcome := solve cpfFixed ⟨f, v⟩ st
/-- `set_prolog_flag(F, V)` in state `st`. -/
def set (f v : Term) (st : St) : Outcome := solve spfFixed ⟨f, v⟩ st

def Outcome.succeeded (o : Outcome) : Bool := !o.answers.isEmpty

/-! ## Histories -/

inductive Op
  | get (f v : Term)
  | set (f v : Term)
  deriving DecidableEq, Repr

def Preds.step (p : Preds) (o : Op) (st : St) : Outcome :=
  match o with
  | .get f v => solve p.cpf ⟨f, v⟩ st
  | .set f v => solve p.spf ⟨f, v⟩ st

/-- state after a history of reads and writes. -/
def Preds.run (p : Preds) : List Op → St → St
  | [], st => st
  | o :: os, st => p.run os (p.step o st).st

/-- outcomes of every operation of a history. -/
def Preds.trace (p : Preds) : List Op → St → List Outcome
  | [], _ => []
  | o :: os, st => p.step o st :: p.trace os (p.step o st).st

abbrev run := fixed.run

/-! ## Behavioural effect of the three behavioural flags (specification level) -/

/-- what reading the double-quoted text `cs` gives (lexer.rs, by `flags.double_quotes`). -/
def readDoubleQuoted (st : St) (cs : List Char) : Term :=
  match st.dq with
  | .chars => mkList (cs.map fun c => A (String.singleton c))
  | .codes => mkList (cs.map fun c => .int c.toNat)
  | .atom => A (String.ofList cs)

inductive UnifyRes | succeeds | fails | raises deriving DecidableEq, Repr
/-- `X = f(X)` through `machine_st.occurs_check` (`Nsto`/`Sto`/`StoError`). -/
def unifyCyclic (st : St) : UnifyRes :=
  match st.oc with
  | .nsto => .succeeds
  | .sto => .fails
  | .stoError => .raises

inductive CallRes | existenceError | failsSilently | failsWithWarning deriving DecidableEq, Repr
/-- calling an undefined procedure (`Machine::undefined_procedure`, by `flags.unknown`). -/
def callUndefined (st : St) : CallRes :=
  match st.unk with
  | .error => .existenceError
  | .fail => .failsSilently
  | .warn => .failsWithWarning

/-! ## Specification: a table of flags -/

inductive Flag
  | maxArity | bounded | irf | doubleQuotes | unknown | maxInteger | minInteger | occursCheck | awo
  deriving DecidableEq, Repr

def Flag.name : Flag → String
  | .maxArity => "max_arity" | .bounded => "bounded" | .irf => "integer_rounding_function"
  | .doubleQuotes => "double_quotes" | .unknown => "unknown" | .maxInteger => "max_integer"
  | .minInteger => "min_integer" | .occursCheck => "occurs_check" | .awo => "answer_write_options"

def Flag.all : List Flag :=
  [.maxArity, .bounded, .irf, .doubleQuotes, .unknown, .maxInteger, .minInteger, .occursCheck, .awo]

def Flag.ofName? (s : String) : Option Flag :=
  if s = "max_arity" then some .maxArity
  else if s = "bounded" then some .bounded
  else if s = "integer_rounding_function" then some .irf
  else if s = "double_quotes" then some .doubleQuotes
  else if s = "unknown" then some .unknown
  else if s = "max_integer" then some .maxInteger
  else if s = "min_integer" then some .minInteger
  else if s = "occurs_check" then some .occursCheck
  else if s = "answer_write_options" then some .awo
  else none

/-- the order in which an enumeration reports the flags that have a value. -/
def Flag.enumOrder : List Flag :=
  [.maxArity, .bounded, .irf, .doubleQuotes, .unknown, .occursCheck, .awo]

/-- current value; `max_integer`/`min_integer` have none (integers are unbounded). -/
def Flag.value (k : Flag) (st : St) : Option Term :=
  match k with
  | .maxArity => some (.int 255)
  | .bounded => some (A "false")
  | .irf => some (A "toward_zero")
  | .doubleQuotes => some st.dq.toAtom
  | .unknown => some st.unk.toAtom
  | .maxInteger => none
  | .minInteger => none
  | .occursCheck => some st.oc.flagValue
  | .awo => some (answerWriteOptions st)

def Flag.writable : Flag → Bool
  | .doubleQuotes | .unknown | .occursCheck | .awo => true
  | _ => false

/-- is the (nonvar) value appropriate for the flag (ISO 7.11, plus Scryer's extensions). -/
def Flag.vclass (k : Flag) (v : Term) : VRes :=
  match k with
  | .maxArity | .maxInteger | .minInteger => if v.isInt then .ok else .bad
  | .bounded => if v = A "true" ∨ v = A "false" then .ok else .bad
  | .irf => if v = A "toward_zero" ∨ v = A "down" then .ok else .bad
  | .doubleQuotes => if v = A "chars" ∨ v = A "atom" ∨ v = A "codes" then .ok else .bad
  | .unknown => if v = A "error" ∨ v = A "warning" ∨ v = A "fail" then .ok else .bad
  | .occursCheck => if v = A "true" ∨ v = A "false" ∨ v = A "error" then .ok else .bad
  | .awo => checkWriteOptions v

/-- state after storing an appropriate value in a writable flag. -/
def Flag.store (k : Flag) (v : Term) (st : St) : St :=
  match k with
  | .doubleQuotes =>
    { st with dq := if v = A "atom" then .atom else if v = A "codes" then .codes else .chars }
  | .unknown =>
    { st with unk := if v = A "fail" then .fail else if v = A "warning" then .warn else .error }
  | .occursCheck =>
    { st with oc := if v = A "true" then .sto else if v = A "error" then .stoError else .nsto }
  | .awo => { st with awo := some v }
  | _ => st

/-- `current_prolog_flag(f, v)` by the table. -/
def specGet (f v : Term) (st : St) : Outcome :=
  match f with
  | .var _ =>
    ⟨Flag.enumOrder.filterMap fun k =>
        match k.value st with
        | some t => (unifyArg v t).map fun v' => ⟨A k.name, v'⟩
        | none => none,
      none, st⟩
  | .atom s =>
    match Flag.ofName? s with
    | some k =>
      match k.value st with
      | some t =>
        match unifyArg v t with
        | some v' => ⟨[⟨f, v'⟩], none, st⟩
        | none => ⟨[], none, st⟩
      | none => ⟨[], none, st⟩
    | none => ⟨[], some (Err.domFlag.term ⟨f, v⟩), st⟩
  | _ => ⟨[], some (Err.typeAtom.term ⟨f, v⟩), st⟩

/-- `set_prolog_flag(f, v)` by the table (ISO 8.17.1.3 a–e; a read-only flag accepts only its
    current value and silently refuses another appropriate one, as builtins.pl documents). -/
def specSet (f v : Term) (st : St) : Outcome :=
  if f.isVar || v.isVar then ⟨[], some (Err.inst.term ⟨f, v⟩), st⟩
  else
    match f with
    | .atom s =>
      match Flag.ofName? s with
      | none => ⟨[], some (Err.domFlag.term ⟨f, v⟩), st⟩
      | some k =>
        match k.vclass v with
        | .inst => ⟨[], some (Err.inst.term ⟨f, v⟩), st⟩
        | .bad => ⟨[], some (Err.domValue.term ⟨f, v⟩), st⟩
        | .ok =>
          if k.writable then ⟨[⟨f, v⟩], none, k.store v st⟩
          else if k.value st = some v then ⟨[⟨f, v⟩], none, st⟩
          else ⟨[], none, st⟩
    | _ => ⟨[], some (Err.typeAtom.term ⟨f, v⟩), st⟩

/-- reachable-state invariant: the stored answer_write_options passed validation. -/
def St.wf (st : St) : Prop :=
  match st.awo with
  | none => True
  | some t => checkWriteOptions t = .ok

end Scryer.Flags
