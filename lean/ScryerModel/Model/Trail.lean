/-
C11 — the trail discipline of the machine (src/machine/machine_state_impl.rs `trail`,
src/machine/mod.rs `unwind_trail`, `try_me_else` / `retry_me_else` / `trust_me`,
src/machine/machine_state.rs `cut_body`, src/machine/system_calls.rs `store_global_var`,
`store_backtrackable_global_var`, `fetch_global_var`) as a store + trail machine.

Mirrored branch by branch:
* `trail(Ref HeapCell h)`  records iff `h < hb`;  `trail(Ref StackCell h)` iff `h < b`;
  `trail(Ref AttrVar h)` iff `h < hb`;  `AttrVarListLink(h, l)` iff `h < hb`;
  `BlackboardEntry(k)` / `BlackboardOffset(k, old)` always;
* `unwind_trail(old_tr, tr)` newest entry first: heap/stack cell := unbound REF to itself,
  attributed variable cell := `attr_var(h)`, blackboard entry: `loc := None` / `loc := Some(old)`;
* a choice point saves `tr`, `h` (heap top) and its own stack address; `try_me_else` sets `hb := h`;
  `retry*` restores to the saved values and sets `hb := saved h`; `trust*` additionally pops the
  choice point and sets `hb` to the *popped* frame's `h` (as the code does: conservative);
  a cut only changes `b` (`hb` is left alone: conservative);
* the global-variable table entry is `(ball, loc)`: `bb_put` replaces the entry by `(copy, None)`
  without trailing; `bb_b_put` has the three cases of `store_backtrackable_global_var`; `bb_get`
  on `(ball, None)` caches a heap copy in `loc` and trails a `BlackboardEntry`.

Abstracted: cell contents other than "unbound REF", "unbound attributed variable" are an opaque
payload `val v`; the attribute-list relinking entry (`TrailedAttrVarListLink` + `TrailedAttachedValue`)
is a value-trail entry that remembers the old cell (the code reconstructs it from the old link
target); environment trimming / stack deallocation is not modelled (stack cells only disappear by
backtracking).

REPAIRED behaviour (finding C11-1): undoing a `BlackboardOffset(k, old)` entry restores `loc` only if
the entry still has a backtrackable value; the pinned code restores unconditionally and thereby
resurrects a value that a later `bb_put/2` had overridden (`undo1Pinned` keeps the pinned behaviour
for the witness in Props/C11.lean).

Each choice point carries a ghost `snap`: the store when it was created (with the later `bb_put`s
applied to it). It is never read by the machine; the theorems say backtracking re-creates it.
Import-free.
-/
namespace Scryer.Trail

inductive Cell where
  | unbound
  | attr
  | val (v : Nat)
  deriving DecidableEq, Repr, Inhabited

/-- entry of `indices.global_variables`: the ball of `bb_put/2` and the heap value. -/
structure BB where
  persist : Option Nat
  loc : Option Nat
  deriving DecidableEq, Repr, Inhabited

/-- what `bb_get/2` delivers -/
def BB.get (e : BB) : Option Nat :=
  match e.loc with
  | some v => some v
  | none => e.persist

inductive TE where
  | heapVar (h : Nat)
  | stackVar (h : Nat)
  | attrVar (h : Nat)
  | link (h : Nat) (old : Cell)
  | bbEntry (k : Nat)
  | bbOffset (k : Nat) (old : Nat)
  deriving DecidableEq, Repr, Inhabited

structure Store where
  heap : List Cell
  stack : List Cell
  bb : Nat → BB

def setBB (bb : Nat → BB) (k : Nat) (e : BB) : Nat → BB := fun j => if j = k then e else bb j

structure CP where
  h : Nat
  tr : Nat
  sTop : Nat
  /-- ghost -/
  snap : Store

structure M where
  st : Store
  hb : Nat
  trail : List TE
  cps : List CP

/-- the `b` register as far as `trail()` uses it: the stack address of the newest choice point. -/
def M.b (m : M) : Nat :=
  match m.cps with
  | cp :: _ => cp.sTop
  | [] => 0

/-! ### unwinding -/

/-- undo one trail entry (repaired blackboard rule). -/
def undo1 (s : Store) : TE → Store
  | .heapVar h => { s with heap := s.heap.set h .unbound }
  | .stackVar h => { s with stack := s.stack.set h .unbound }
  | .attrVar h => { s with heap := s.heap.set h .attr }
  | .link h old => { s with heap := s.heap.set h old }
  | .bbEntry k => { s with bb := setBB s.bb k ⟨(s.bb k).persist, none⟩ }
  | .bbOffset k old =>
      if (s.bb k).loc.isSome then { s with bb := setBB s.bb k ⟨(s.bb k).persist, some old⟩ } else s

/-- the pinned rule for `TrailedBlackboardOffset`: unconditional. -/
def undo1Pinned (s : Store) : TE → Store
  | .bbOffset k old => { s with bb := setBB s.bb k ⟨(s.bb k).persist, some old⟩ }
  | e => undo1 s e

/-- `unwind_trail(n, tr)`: undo the entries above position `n`, newest first. -/
def undoTo (n : Nat) : List TE → Store → Store
  | [], s => s
  | e :: rest, s => if n ≤ rest.length then undoTo n rest (undo1 s e) else s

/-- the trail truncated to its oldest `n` entries. -/
def dropTo (n : Nat) : List TE → List TE
  | [] => []
  | e :: rest => if n ≤ rest.length then dropTo n rest else e :: rest

def trunc (s : Store) (h sTop : Nat) : Store := ⟨s.heap.take h, s.stack.take sTop, s.bb⟩

/-- the store after backtracking to `cp`. -/
def restore (m : M) (cp : CP) : Store := trunc (undoTo cp.tr m.trail m.st) cp.h cp.sTop

/-! ### operations -/

inductive Op where
  /-- a new unbound heap variable (REF to itself) on top of the heap -/
  | newVar
  /-- a new unbound attributed variable -/
  | newAttrVar
  /-- any other heap cell (structure, constant, ...) -/
  | newCell (v : Nat)
  /-- a new permanent variable on the stack -/
  | newStackVar
  /-- `bind` of the unbound (plain or attributed) heap variable at `h` -/
  | bind (h : Nat) (v : Nat)
  /-- `bind` of the unbound stack variable at `h` -/
  | bindStack (h : Nat) (v : Nat)
  /-- destructive update of an attribute-list link (put_atts deletion) -/
  | relink (h : Nat) (new : Cell)
  | pushChoice
  /-- backtrack to the newest choice point, which stays (`retry_me_else`, `retry`) -/
  | retry
  /-- backtrack to the newest choice point and pop it (`trust_me`, `trust`) -/
  | trust
  /-- cut: drop the `k` newest choice points -/
  | cut (k : Nat)
  | bbPut (k : Nat) (v : Nat)
  | bbBPut (k : Nat) (v : Nat)
  /-- `bb_get/2` on an entry without heap value: cache a copy -/
  | bbGet (k : Nat)
  deriving Repr

def trailHeap (m : M) (h : Nat) (e : TE) : List TE := if h < m.hb then e :: m.trail else m.trail

def overrideBB (s : Store) (k v : Nat) : Store := { s with bb := setBB s.bb k ⟨some v, none⟩ }

def step (m : M) : Op → M
  | .newVar => { m with st := { m.st with heap := m.st.heap ++ [.unbound] } }
  | .newAttrVar => { m with st := { m.st with heap := m.st.heap ++ [.attr] } }
  | .newCell v => { m with st := { m.st with heap := m.st.heap ++ [.val v] } }
  | .newStackVar => { m with st := { m.st with stack := m.st.stack ++ [.unbound] } }
  | .bind h v =>
      match m.st.heap[h]? with
      | some .unbound =>
          { m with st := { m.st with heap := m.st.heap.set h (.val v) }, trail := trailHeap m h (.heapVar h) }
      | some .attr =>
          { m with st := { m.st with heap := m.st.heap.set h (.val v) }, trail := trailHeap m h (.attrVar h) }
      | _ => m
  | .bindStack h v =>
      match m.st.stack[h]? with
      | some .unbound =>
          { m with st := { m.st with stack := m.st.stack.set h (.val v) },
                   trail := if h < m.b then .stackVar h :: m.trail else m.trail }
      | _ => m
  | .relink h new =>
      match m.st.heap[h]? with
      | some old =>
          { m with st := { m.st with heap := m.st.heap.set h new }, trail := trailHeap m h (.link h old) }
      | none => m
  | .pushChoice =>
      { m with cps := ⟨m.st.heap.length, m.trail.length, m.st.stack.length, m.st⟩ :: m.cps,
               hb := m.st.heap.length }
  | .retry =>
      match m.cps with
      | cp :: _ => { m with st := restore m cp, trail := dropTo cp.tr m.trail, hb := cp.h }
      | [] => m
  | .trust =>
      match m.cps with
      | cp :: rest => { st := restore m cp, trail := dropTo cp.tr m.trail, hb := cp.h, cps := rest }
      | [] => m
  | .cut k => { m with cps := m.cps.drop k }
  | .bbPut k v =>
      { m with st := overrideBB m.st k v,
               cps := m.cps.map fun cp => { cp with snap := overrideBB cp.snap k v } }
  | .bbBPut k v =>
      match (m.st.bb k).loc with
      | some old =>
          { m with st := { m.st with bb := setBB m.st.bb k ⟨(m.st.bb k).persist, some v⟩ },
                   trail := .bbOffset k old :: m.trail }
      | none =>
          { m with st := { m.st with bb := setBB m.st.bb k ⟨(m.st.bb k).persist, some v⟩ },
                   trail := .bbEntry k :: m.trail }
  | .bbGet k =>
      match (m.st.bb k).loc, (m.st.bb k).persist with
      | none, some p =>
          { m with st := { m.st with bb := setBB m.st.bb k ⟨some p, some p⟩ },
                   trail := .bbEntry k :: m.trail }
      | _, _ => m

def run (m : M) : List Op → M
  | [] => m
  | o :: os => run (step m o) os

def init : M := ⟨⟨[], [], fun _ => ⟨none, none⟩⟩, 0, [], []⟩

end Scryer.Trail
