/-!
# Model of `library(clpb)` (src/lib/clpb.pl): Boolean formulas, reference semantics, ROBDD algorithms

Property C46. The library is ~2000 lines of Prolog around attributed variables; what is modelled
here is its *decision procedure*:

* `Fm` / `FmL`: the Boolean expressions accepted by `is_sat/1` (every connective of the
  documentation table except atoms, i.e. universally quantified parameters), with the reference
  semantics `Fm.eval` (truth value under an assignment `Nat → Bool`). Variables are natural
  numbers; the number IS the clp(B) variable index (`index_root(Index, _)`), i.e. the BDD order.
* `BDD`: `0`, `1` or `node(ID,Var,Low,High,Aux)`. The node IDs and the per-variable hash tables
  (`make_node/4`, `lookup_node/3`) implement a unique table, so two nodes have the same ID iff
  they are structurally equal; the model therefore uses trees compared structurally.
* `mk` = `make_node/4`; `apply` = `apply//4` with `apply_shortcut/4`, `bool_op/4` and the
  three-way split of `apply_//4` (memoisation `G0` abstracted away: it only caches);
  `restrict` = `bdd_restriction_//4`; `exQ` = `existential/3`;
  `pairUp`/`counterNet` = `indicators_pairing/5`/`counter_network_/3`;
  `Fm.build` = `sat_rewrite/2` followed by `sat_bdd/2` (fused: each synonym is expanded exactly
  as `sat_rewrite` does and then built); `renumber`/`varU`/`bddCount`/`satCountBDD` =
  `renumber_variable/3`, `var_u/3`, `bdd_count/3` and the final `2^(P-1)*Count0` of `sat_count/2`;
  `label` = `labeling/1` (variables in index order, `indomain/1` tries 0 then 1, every binding
  restricts the BDD and fails when it becomes `0`).
* Not modelled: constraint propagation (`satisfiable_bdd/1`'s unifications), one BDD per connected
  component (the model keeps a single conjunction), residual goals, `weighted_maximum/3`,
  `random_labeling/2`.
-/
namespace Scryer.BDD

/-- the three operators that survive `sat_rewrite/2` (`+`, `*`, `#`). -/
inductive Op
  | or | and | xor
  deriving DecidableEq, Repr

/-- `bool_op/4`. -/
def Op.fn : Op → Bool → Bool → Bool
  | .or, a, b => a || b
  | .and, a, b => a && b
  | .xor, a, b => a != b

/-- a BDD: terminal `0`/`1` or `node(_,Var,Low,High,_)`. -/
inductive BDD
  | leaf (b : Bool)
  | node (v : Nat) (lo hi : BDD)
  deriving DecidableEq, Repr, Inhabited

namespace BDD

def size : BDD → Nat
  | leaf _ => 1
  | node _ l h => l.size + h.size + 1

/-- the Boolean function denoted by a BDD. -/
def eval : BDD → (Nat → Bool) → Bool
  | leaf b, _ => b
  | node v l h, ρ => if ρ v then h.eval ρ else l.eval ρ

/-- `make_node/4`: `Low == High -> Node = Low`, otherwise the unique node. -/
def mk (v : Nat) (lo hi : BDD) : BDD := if lo = hi then lo else node v lo hi

/-- `apply_shortcut/4` when the left operand is a terminal. -/
def shortcutL : Op → Bool → BDD → Option BDD
  | .or, false, b => some b
  | .or, true, _ => some (leaf true)
  | .and, false, _ => some (leaf false)
  | .and, true, b => some b
  | .xor, _, _ => none

/-- `apply_shortcut/4` when the right operand is a terminal. -/
def shortcutR : Op → BDD → Bool → Option BDD
  | .or, a, false => some a
  | .or, _, true => some (leaf true)
  | .and, _, false => some (leaf false)
  | .and, a, true => some a
  | .xor, _, _ => none

/-- `apply//4`: terminals by `bool_op`, else `apply_shortcut`, else `apply_//4`
    (`var_less_than` / same variable / greater). -/
def apply (op : Op) : BDD → BDD → BDD
  | leaf x, leaf y => leaf (op.fn x y)
  | leaf x, node vb lb hb =>
    match shortcutL op x (node vb lb hb) with
    | some r => r
    | none => mk vb (apply op (leaf x) lb) (apply op (leaf x) hb)
  | node va la ha, leaf y =>
    match shortcutR op (node va la ha) y with
    | some r => r
    | none => mk va (apply op la (leaf y)) (apply op ha (leaf y))
  | node va la ha, node vb lb hb =>
    if va < vb then mk va (apply op la (node vb lb hb)) (apply op ha (node vb lb hb))
    else if va = vb then mk va (apply op la lb) (apply op ha hb)
    else mk vb (apply op (node va la ha) lb) (apply op (node va la ha) hb)
termination_by a b => a.size + b.size
decreasing_by all_goals (simp only [size]; omega)

/-- `bdd_restriction_//4` (variable `i` := `x`): equal index → the child; greater index → the
    node itself (ordered BDD: `i` cannot occur below); smaller → rebuild with `make_node`. -/
def restrict (i : Nat) (x : Bool) : BDD → BDD
  | leaf b => leaf b
  | node v l h =>
    if v = i then (if x then h else l)
    else if i < v then node v l h
    else mk v (restrict i x l) (restrict i x h)

/-- `existential/3`. -/
def exQ (i : Nat) (b : BDD) : BDD := apply .or (restrict i false b) (restrict i true b)

/-- `foldl(indicators_pairing(Var), Is0, Is, I, _)`: `[I0,I1,…,Ik] ↦ [mk v I0 I1, …, mk v I(k-1) Ik]`. -/
def pairUp (v : Nat) : List BDD → List BDD
  | a :: b :: r => mk v a b :: pairUp v (b :: r)
  | _ => []

/-- `counter_network_/3` (variables with the highest index first). -/
def counterNet : List Nat → List BDD → BDD
  | [], inds => inds.headD (leaf false)
  | v :: vs, inds => counterNet vs (pairUp v inds)

/-- the variable of a single-variable BDD (`make_node(V, 0, 1, Node)`). -/
def ofVar (v : Nat) : BDD := mk v (leaf false) (leaf true)

/-- variables of a BDD in `bdd_nodes/2` order (first visit, low before high). -/
def vars : BDD → List Nat
  | leaf _ => []
  | node v l h => v :: (l.vars ++ h.vars)

end BDD

open BDD

/-! ## sorting helpers (strictly ascending, duplicates removed) -/

def insertU (x : Nat) : List Nat → List Nat
  | [] => [x]
  | y :: r => if x < y then x :: y :: r else if x = y then y :: r else y :: insertU x r

/-- `variables_in_index_order/2` on distinct variables (also removes duplicates). -/
def sortU (l : List Nat) : List Nat := l.foldr insertU []

/-- `fill_indicators/3` test: `memberchk(I, Cs)` or `member(A-B, Cs), between(A, B, I)`; a plain
    integer `i` is given as the range `(i, i)`. -/
def inRanges (is : List (Nat × Nat)) (n : Nat) : Bool := is.any fun p => p.1 ≤ n && n ≤ p.2

/-- `fill_indicators/3`: indicators for counts `start, start+1, …` (`k` of them). -/
def indicators (is : List (Nat × Nat)) (start : Nat) : Nat → List BDD
  | 0 => []
  | k + 1 => leaf (inRanges is start) :: indicators is (start + 1) k

/-! ## formulas -/

mutual
/-- Boolean expressions of `is_sat/1` (atoms excluded). -/
inductive Fm
  | const (b : Bool)
  | var (i : Nat)
  | not (a : Fm)
  | and (a b : Fm)
  | or (a b : Fm)
  | xor (a b : Fm)
  | eqv (a b : Fm)
  | neq (a b : Fm)
  | le (a b : Fm)
  | ge (a b : Fm)
  | lt (a b : Fm)
  | gt (a b : Fm)
  | ex (v : Nat) (a : Fm)
  | orL (l : FmL)
  | andL (l : FmL)
  | card (is : List (Nat × Nat)) (l : FmL)
/-- lists of expressions (`+(Ls)`, `*(Ls)`, `card(Is, Ls)`). -/
inductive FmL
  | nil
  | cons (a : Fm) (r : FmL)
end

/-- `ρ[v := x]`. -/
def upd (ρ : Nat → Bool) (v : Nat) (x : Bool) : Nat → Bool := fun w => if w = v then x else ρ w

mutual
/-- reference semantics: the truth value of an expression under an assignment. -/
def Fm.eval : Fm → (Nat → Bool) → Bool
  | .const b, _ => b
  | .var i, ρ => ρ i
  | .not a, ρ => !(a.eval ρ)
  | .and a b, ρ => a.eval ρ && b.eval ρ
  | .or a b, ρ => a.eval ρ || b.eval ρ
  | .xor a b, ρ => a.eval ρ != b.eval ρ
  | .eqv a b, ρ => a.eval ρ == b.eval ρ
  | .neq a b, ρ => a.eval ρ != b.eval ρ
  | .le a b, ρ => !(a.eval ρ) || b.eval ρ
  | .ge a b, ρ => a.eval ρ || !(b.eval ρ)
  | .lt a b, ρ => !(a.eval ρ) && b.eval ρ
  | .gt a b, ρ => a.eval ρ && !(b.eval ρ)
  | .ex v a, ρ => a.eval (upd ρ v false) || a.eval (upd ρ v true)
  | .orL l, ρ => l.anyT ρ
  | .andL l, ρ => l.allT ρ
  | .card is l, ρ => inRanges is (l.countT ρ)
/-- some element is true. -/
def FmL.anyT : FmL → (Nat → Bool) → Bool
  | .nil, _ => false
  | .cons a r, ρ => a.eval ρ || r.anyT ρ
/-- every element is true. -/
def FmL.allT : FmL → (Nat → Bool) → Bool
  | .nil, _ => true
  | .cons a r, ρ => a.eval ρ && r.allT ρ
/-- the number of true elements. -/
def FmL.countT : FmL → (Nat → Bool) → Nat
  | .nil, _ => 0
  | .cons a r, ρ => (if a.eval ρ then 1 else 0) + r.countT ρ
end

mutual
/-- every variable occurring in the expression (`term_variables/2`), binders of `^` included. -/
def Fm.allVars : Fm → List Nat
  | .const _ => []
  | .var i => [i]
  | .not a => a.allVars
  | .and a b | .or a b | .xor a b | .eqv a b | .neq a b
  | .le a b | .ge a b | .lt a b | .gt a b => a.allVars ++ b.allVars
  | .ex v a => v :: a.allVars
  | .orL l | .andL l | .card _ l => l.allVars
def FmL.allVars : FmL → List Nat
  | .nil => []
  | .cons a r => a.allVars ++ r.allVars
end

def FmL.length : FmL → Nat
  | .nil => 0
  | .cons _ r => r.length + 1

/-- `var(F)` test of `formulas_variables//2`. -/
def Fm.isVar? : Fm → Option Nat
  | .var i => some i
  | _ => none

/-- `existential_and/3` folded over the `V-BDD` pairs of `formulas_variables//2`. -/
def exAnd (node : BDD) (p : Nat × BDD) : BDD := exQ p.1 (apply .and p.2 node)

/-- the BDD of `V =:= F` after `sat_rewrite` (`~V # F`, `~V = 1 # V`). -/
def eqvVar (e : Nat) (b : BDD) : BDD := apply .xor (apply .xor (leaf true) (ofVar e)) b

mutual
/-- `sat_rewrite/2` then `sat_bdd/2`. `fr` is a variable index above every variable in use
    (`clpb_next_id('$clpb_next_var', _)`): `card/2` takes its auxiliary variables from there. -/
def Fm.build (fr : Nat) : Fm → BDD
  | .const b => leaf b
  | .var i => ofVar i
  | .not a => apply .xor (leaf true) (a.build fr)                       -- ~P  →  1 # P
  | .and a b => apply .and (a.build fr) (b.build fr)
  | .or a b => apply .or (a.build fr) (b.build fr)
  | .xor a b => apply .xor (a.build fr) (b.build fr)
  | .eqv a b => apply .xor (apply .xor (leaf true) (a.build fr)) (b.build fr)   -- ~P # Q
  | .neq a b => apply .xor (a.build fr) (b.build fr)                    -- P # Q
  | .le a b => apply .or (apply .xor (leaf true) (a.build fr)) (b.build fr)     -- ~P + Q
  | .ge a b => apply .or (apply .xor (leaf true) (b.build fr)) (a.build fr)     -- Q =< P
  | .lt a b => apply .and (apply .xor (leaf true) (a.build fr)) (b.build fr)    -- ~P * Q
  | .gt a b => apply .and (apply .xor (leaf true) (b.build fr)) (a.build fr)    -- Q < P
  | .ex v a => exQ v (a.build fr)
  | .orL l => l.foldOp fr .or (leaf false)                              -- foldl(or, Ls, 0, F)
  | .andL l => l.foldOp fr .and (leaf true)                             -- foldl(and, Ls, 1, F)
  | .card is l =>                                                       -- counter_network/3
    let k := l.length
    let ve := l.elems (fr + k) fr []
    let n0 := counterNet (sortU ve.1).reverse (indicators is 0 (k + 1))
    ve.2.foldl exAnd n0
/-- `foldl(or, Ls, 0, F)` / `foldl(and, Ls, 1, F)` with `or(A,B,B+A)`: `((0+L1)+L2)+…`. -/
def FmL.foldOp (fr : Nat) (op : Op) : FmL → BDD → BDD
  | .nil, acc => acc
  | .cons a r, acc => r.foldOp fr op (apply op acc (a.build fr))
/-- `formulas_variables//2`: an element that is a not yet used variable stands for itself; any
    other element gets the auxiliary variable `next` and the pair `next - BDD(next =:= F)`.
    `frN` is the base for auxiliary variables of nested `card/2`s. -/
def FmL.elems (frN : Nat) : FmL → Nat → List Nat → List Nat × List (Nat × BDD)
  | .nil, _, _ => ([], [])
  | .cons a r, next, seen =>
    match a.isVar? with
    | some x =>
      if seen.contains x then
        let rest := r.elems frN (next + 1) seen
        (next :: rest.1, (next, eqvVar next (a.build frN)) :: rest.2)
      else
        let rest := r.elems frN (next + 1) (x :: seen)
        (x :: rest.1, rest.2)
    | none =>
      let rest := r.elems frN (next + 1) seen
      (next :: rest.1, (next, eqvVar next (a.build frN)) :: rest.2)
end

/-- a variable index above every variable of the expression. -/
def Fm.fresh (f : Fm) : Nat := f.allVars.foldr (fun v m => max (v + 1) m) 0

/-! ## sat/1, taut/2 -/

/-- state of the constraint store: the conjunction BDD of everything posted (`1` initially). -/
abbrev Store := BDD

/-- `sat/1` on a store (`roots_and/3` then `satisfiable_bdd/1`'s `BDD == 0 -> false`). -/
def post (fr : Nat) (st : Store) (f : Fm) : Option Store :=
  let b := apply .and st (f.build fr)
  if b = leaf false then none else some b

/-- `sat/1` with nothing posted before: does it succeed? -/
def sat (f : Fm) : Bool := (post f.fresh (leaf true) f).isSome

/-- `taut/2` w.r.t. the store: `T = 0` if posting fails, `T = 1` if `1#Sat` conjoined with the
    store is `0` (`tautology/1`), otherwise failure (`none`). -/
def tautUnder (fr : Nat) (st : Store) (f : Fm) : Option Bool :=
  if apply .and st (f.build fr) = leaf false then some false
  else if apply .and (apply .xor (leaf true) (f.build fr)) st = leaf false then some true
  else none

def taut (f : Fm) : Option Bool := tautUnder f.fresh (leaf true) f

/-! ## sat_count/2 -/

/-- `renumber_variable/3` applied to the nodes' variables. -/
def BDD.renumber (r : Nat → Nat) : BDD → BDD
  | leaf b => leaf b
  | node v l h => node (r v) (l.renumber r) (h.renumber r)

/-- `var_u/3`. -/
def BDD.varU (vnum : Nat) : BDD → Nat
  | leaf _ => vnum
  | node v _ _ => v

/-- `bdd_count/3` with `bdd_pow/4`. -/
def BDD.count (vnum : Nat) : BDD → Nat
  | leaf b => if b then 1 else 0
  | node v l h =>
    2 ^ (l.varU vnum - v - 1) * l.count vnum + 2 ^ (h.varU vnum - v - 1) * h.count vnum

/-- the counting part of `sat_count/2`: variables `vs` (index order) are renumbered `1..n`,
    `VNum = n+1`, result `2^(P-1) * Count0`. -/
def satCountBDD (vs : List Nat) (b : BDD) : Nat :=
  let b' := b.renumber (fun v => vs.idxOf v + 1)
  let vnum := vs.length + 1
  2 ^ (b'.varU vnum - 1) * b'.count vnum

/-- `sat_count/2` w.r.t. the store: the BDD of the expression is conjoined with the store, the
    variables that do not occur in the expression are existentially quantified, and the
    assignments of the expression's variables are counted. -/
def satCountUnder (fr : Nat) (st : Store) (f : Fm) : Nat :=
  let vs := sortU f.allVars
  let b1 := apply .and st (f.build fr)
  let others := (sortU b1.vars).filter (fun v => !vs.contains v)
  satCountBDD vs (others.foldl (fun b v => exQ v b) b1)

def satCount (f : Fm) : Nat := satCountUnder f.fresh (leaf true) f

/-! ## labeling/1 -/

/-- `maplist(indomain, Vs)` on the variables in index order: 0 before 1; each binding restricts
    the BDD (`verify_attributes/3`) and fails when it becomes `0`. One row per solution. -/
def labelRows : List Nat → BDD → List (List Bool)
  | [], b => if b = leaf false then [] else [[]]
  | v :: vs, b =>
    if b = leaf false then []
    else (labelRows vs (restrict v false b)).map (false :: ·)
      ++ (labelRows vs (restrict v true b)).map (true :: ·)

/-- `findall(Vs, labeling(Vs), Rows)`: the variables are labelled in index order, each row lists
    the values in the order of `vs`. -/
def labeling (vs : List Nat) (b : BDD) : List (List Bool) :=
  let sv := sortU vs
  (labelRows sv b).map fun row => vs.map fun v => row.getD (sv.idxOf v) false

/-! ## specification-side enumerations (used by the theorems and printed by the driver) -/

/-- all bit rows of length `n` in lexicographic order, `false` first. -/
def allBits : Nat → List (List Bool)
  | 0 => [[]]
  | n + 1 => (allBits n).map (false :: ·) ++ (allBits n).map (true :: ·)

/-- the assignment that gives the variables `vs` the values `bits` (everything else `false`). -/
def envOf (vs : List Nat) (bits : List Bool) : Nat → Bool := fun v => bits.getD (vs.idxOf v) false

/-- brute-force model count over the variables of the expression. -/
def specCount (f : Fm) : Nat :=
  let vs := sortU f.allVars
  ((allBits vs.length).filter fun bits => f.eval (envOf vs bits)).length

end Scryer.BDD
