import ScryerModel.Model.Solve
/-!
# Fault / asynchronous-exception injection (properties C30 and C31)

Two models, both import-free apart from the shared reference interpreter `Scryer.Solve`.

## 1. `solveInj`: the reference interpreter with an injection oracle

`solveInj ball φ` is `Scryer.Solve.solve` in which, whenever the oracle `φ goal state` holds at the
moment a goal is about to be reduced, the reduction is replaced by raising `ball` — exactly what the
machine does when an allocation made by that step fails (C30: `AllocError` →
`throw_resource_error`, the ball is the pre-stored `error(resource_error(memory), [])`) or when the
dispatch loop sees the interrupt flag at that instruction boundary (C31: `check_for_interrupt` →
`throw_interrupt_exception`, ball `error('$interrupt_thrown', repl/0)`).  Everything else — clause
selection, cut, `catch/3`, `findall/3`, `call/N`, … — is `Scryer.Solve.step`, unchanged, so the
catch/throw semantics of faults *is* the catch/throw semantics of `throw/1`.

## 2. `PM`: the propagation protocol as a step machine

A trace-level machine for what the statement quantifies over ("the k-th growth, for every k",
"every fault sequence"): a program is a flat list of operations — `alloc n g` (an operation that
needs `n` cells and, in the current heap state, `g` growth attempts), `enter m` / `leave` (a
`catch/3` frame whose catcher does (`m = true`) or does not match the resource error), `throwRes`
(an explicit `throw(error(resource_error(memory), []))`) — run against a *fault schedule*
`deny : Nat → Bool` over the growth attempts of the whole run (attempt `i` is denied iff `deny i`).
A denied attempt makes the operation return `AllocError`: nothing of the operation is kept (heap
top unchanged — `Scryer.Heap`/C33: a failed operation leaves `len`, `cap` and the contents as they
were), the machine unwinds to the innermost matching frame, truncates the heap to the mark of that
frame and continues behind the matching `leave`; without a matching frame the run ends `uncaught`.
-/
namespace Scryer.Fault
open Scryer Scryer.Solve

/-! ## the balls -/

/-- `error(resource_error(memory), [])`, stored once by `Heap::store_resource_error`. -/
def resFormal : Term := .str "resource_error" [.atom "memory"]
def resBall : Term := .str "error" [resFormal, .atom "[]"]

/-- `error('$interrupt_thrown', repl/0)` (`throw_interrupt_exception`). -/
def intFormal : Term := .atom "$interrupt_thrown"
def intBall : Term := .str "error" [intFormal, .str "/" [.atom "repl", .int 0]]

/-! ## 1. injection into the reference interpreter -/

/-- where faults strike: the goal about to be reduced and the state it is reduced in. -/
abbrev Oracle := Term → St → Bool

def noFault : Oracle := fun _ _ => false

/-- the injected event: the (closed, already copied) ball is raised from state `s`. -/
def inject (ball : Term) (s : St) : Res := Res.throw (ball, s.ctr + 1)

/-- `Scryer.Solve.solve` with injection. -/
def solveInj (ball : Term) (φ : Oracle) : Nat → Prog → Term → St → Res
  | 0, _, _, _ => Res.oofR
  | n+1, prog, g, s =>
      if φ g s then inject ball s else step prog (solveInj ball φ n prog) n g s

/-- the Prolog goal `throw(Ball)`. -/
def throwGoal (ball : Term) : Term := .str "throw" [ball]

/-- the usual catcher `error(E, V)` with two variables. -/
def errCatcher (e v : String) : Term := .str "error" [.var e, .var v]

/-! ## 2. the protocol machine -/

inductive MOp where
  /-- an operation needing `n` cells that makes `g` growth attempts (all must be granted) -/
  | alloc (n g : Nat)
  /-- `catch/3` entered; `m`: the catcher unifies with the resource error -/
  | enter (m : Bool)
  /-- the goal of the innermost `catch/3` exited -/
  | leave
  /-- `throw(error(resource_error(memory), []))` executed by the program itself -/
  | throwRes
  deriving Repr, DecidableEq

structure Frame where
  mark : Nat
  isMatch : Bool
  deriving Repr, DecidableEq

structure MSt where
  /-- heap top (cells) -/
  len : Nat := 0
  /-- growth attempts made so far in the run (index into the schedule) -/
  att : Nat := 0
  /-- open `catch/3` frames, innermost first -/
  frames : List Frame := []
  /-- number of faults / throws that were caught so far -/
  caught : Nat := 0
  deriving Repr, DecidableEq

inductive Out where
  | done
  | uncaught
  deriving Repr, DecidableEq

/-- index (0-based, relative) of the first denied attempt among attempts `att … att+g-1`. -/
def firstDenied (deny : Nat → Bool) (att : Nat) : Nat → Option Nat
  | 0 => none
  | g+1 => if deny att then some 0 else (firstDenied deny (att + 1) g).map (· + 1)

/-- unwinding: drop frames up to and including the innermost matching one; the number of dropped
    frames is the number of `leave`s to skip.  `none`: no matching frame. -/
def unwind : List Frame → Option (Frame × List Frame × Nat)
  | [] => none
  | f :: fs =>
      if f.isMatch then some (f, fs, 0)
      else match unwind fs with
        | none => none
        | some (f', rest, d) => some (f', rest, d + 1)

/-- the run.  `skip = some d`: the machine is unwinding, `d` more `leave`s of already dropped frames
    are to be passed before the recovered continuation starts (frames entered while skipping are
    never pushed: their `enter` only raises the depth). -/
def exec (deny : Nat → Bool) : List MOp → Option Nat → MSt → MSt × Out
  | [], _, s => (s, .done)
  | op :: rest, some d, s =>
      match op with
      | .enter _ => exec deny rest (some (d + 1)) s
      | .leave => match d with
          | 0 => exec deny rest none s
          | d' + 1 => exec deny rest (some d') s
      | _ => exec deny rest (some d) s
  | op :: rest, none, s =>
      match op with
      | .alloc n g =>
          match firstDenied deny s.att g with
          | none => exec deny rest none { s with len := s.len + n, att := s.att + g }
          | some j =>
              match unwind s.frames with
              | none => ({ s with att := s.att + j + 1 }, .uncaught)
              | some (f, fs, d) =>
                  exec deny rest (some d)
                    { s with len := f.mark, att := s.att + j + 1, frames := fs, caught := s.caught + 1 }
      | .throwRes =>
          match unwind s.frames with
          | none => (s, .uncaught)
          | some (f, fs, d) =>
              exec deny rest (some d) { s with len := f.mark, frames := fs, caught := s.caught + 1 }
      | .enter m => exec deny rest none { s with frames := ⟨s.len, m⟩ :: s.frames }
      | .leave => exec deny rest none { s with frames := s.frames.tail }

/-- the hook's two schedules: the `k`-th attempt (1-based) and, if `persistent`, all later ones. -/
def schedule (k : Nat) (persistent : Bool) : Nat → Bool :=
  fun i => k != 0 && (i + 1 == k || (persistent && i + 1 > k))

/-- no `enter`/`leave` imbalance: every `leave` closes an `enter` of the same list. -/
def balanced : Nat → List MOp → Bool
  | d, [] => d == 0
  | d, .enter _ :: r => balanced (d + 1) r
  | d, .leave :: r => match d with
      | 0 => false
      | d' + 1 => balanced d' r
  | d, _ :: r => balanced d r

/-- total number of cells a body allocates when nothing fails -/
def cells : List MOp → Nat
  | [] => 0
  | .alloc n _ :: r => n + cells r
  | _ :: r => cells r

/-! ## 3. the interrupt flag and its polling (C31)

`INTERRUPT` is an atomic boolean set asynchronously (signal handler, watchdog) and consumed by
`check_for_interrupt` with `swap(false)`; the dispatch loop polls once every `P` loop iterations
(`P = 256` wrap-arounds of a `u8`, of which 255 dispatch an instruction). -/

inductive Ev where
  /-- the flag is raised (asynchronously) -/
  | raise
  /-- one iteration of the dispatch loop -/
  | tick
  deriving Repr, DecidableEq

structure PSt where
  flag : Bool := false
  /-- iterations since the last poll -/
  cnt : Nat := 0
  /-- deliveries (`throw_interrupt_exception` calls) so far -/
  delivered : Nat := 0
  /-- raise events so far -/
  raised : Nat := 0
  /-- raise events since the flag was last consumed -/
  pending : Nat := 0
  deriving Repr, DecidableEq

/-- one event; `P` is the polling period (≥ 1). -/
def pstep (P : Nat) (s : PSt) : Ev → PSt
  | .raise => { s with flag := true, raised := s.raised + 1, pending := s.pending + 1 }
  | .tick =>
      if s.cnt + 1 ≥ P then
        -- poll: `INTERRUPT.swap(false)`
        if s.flag then { s with flag := false, cnt := 0, delivered := s.delivered + 1, pending := 0 }
        else { s with cnt := 0 }
      else { s with cnt := s.cnt + 1 }

def prun (P : Nat) (s : PSt) (evs : List Ev) : PSt := evs.foldl (pstep P) s

/-- the iteration count (1-based) at which a flag raised just before iteration `n` (1-based) of a
    loop that polls at iterations `P, 2P, …` is consumed: the next multiple of `P` that is ≥ `n`. -/
def deliveryPoint (P n : Nat) : Nat := ((n + P - 1) / P) * P

end Scryer.Fault
