/-!
# Character sources, the clause scanner and output streams (property C50)

`read_term_from_chars/3` builds a `CharReader` over the bytes of the character list and hands it to
the same `Parser` that `read_term/3` runs over a `Stream` (`system_calls.rs::read_term_and_write_to_heap`
vs `machine_state.rs::read_term`/`read.rs::read`). What differs between the two routes is only the
character *source* (`CharRead`: peek/consume/put_back over a string, a file, a push-back buffer).
This file models

* a character source abstractly (`Source`), with the list source (in-memory route), the position
  source over fixed contents (a file / memory stream) and a source with a push-back buffer
  (`put_back_char`);
* the part of the reader that decides how much of the source one read consumes: a scanner for the
  end token (`.` followed by layout, `%` or end of text) that skips quoted items, `0'c` literals
  and both kinds of comments — written once, generically over `Source`;
* output: a stream is the list of characters written so far, writing a fragment appends
  (`write_term/3` on a stream); `write_term_to_chars/3` returns the concatenation of the printer's
  fragments.
-/
namespace Scryer.CharStream

/-! ## scanner -/

inductive Prev where
  | start | alnum | sym | other
  deriving DecidableEq, Repr

inductive Mode where
  | code (prev : Prev) (seen : Bool)
  | line (seen : Bool)
  | slash (seen : Bool)
  | block (seen : Bool)
  | blockStar (seen : Bool)
  | quote (q : Char)
  | quoteEsc (q : Char)
  | quoteEnd (q : Char)
  | zero
  | zeroQ
  | zeroEsc
  | zeroQQ
  | dot
  deriving DecidableEq, Repr

inductive Step where
  | next (m : Mode)
  | stop
  deriving DecidableEq, Repr

def isLayout (c : Char) : Bool := c == ' ' || c == '\n' || c == '\t' || c == '\r'
def isSymch (c : Char) : Bool := "+-*/\\^<>=~:.?@#&$".toList.contains c
def isQuote (c : Char) : Bool := c == '\'' || c == '"' || c == '`'
def isPunct (c : Char) : Bool := "()[]{},|!;".toList.contains c

/-- one character in "code" (outside quotes and comments). -/
def stepCode (prev : Prev) (seen : Bool) (c : Char) : Mode :=
  if isLayout c then .code .start seen
  else if c == '%' then .line seen
  else if isQuote c then .quote c
  else if c == '/' && prev != .sym then .slash seen
  else if c == '.' && prev != .sym then .dot
  else if c == '0' && prev != .alnum then .zero
  else if isSymch c then .code .sym true
  else if isPunct c then .code .other true
  else .code .alnum true

def step : Mode → Char → Step
  | .code p s, c => .next (stepCode p s c)
  | .line s, c => .next (if c == '\n' then .code .start s else .line s)
  | .slash s, c => .next (if c == '*' then .block s else stepCode .sym true c)
  | .block s, c => .next (if c == '*' then .blockStar s else .block s)
  | .blockStar s, c => .next (if c == '/' then .code .start s else if c == '*' then .blockStar s else .block s)
  | .quote q, c => .next (if c == '\\' then .quoteEsc q else if c == q then .quoteEnd q else .quote q)
  | .quoteEsc q, _ => .next (.quote q)
  | .quoteEnd q, c => .next (if c == q then .quote q else stepCode .other true c)
  | .zero, c => .next (if c == '\'' then .zeroQ else stepCode .alnum true c)
  | .zeroQ, c => .next (if c == '\\' then .zeroEsc else if c == '\'' then .zeroQQ else .code .other true)
  | .zeroEsc, _ => .next (.code .other true)
  | .zeroQQ, c => .next (if c == '\'' then .code .other true else stepCode .other true c)
  | .dot, c => if isLayout c || c == '%' then .stop else .next (stepCode .sym true c)

/-- result of one read, as far as the source is concerned: `done n` — a clause of `n` characters
    (end token included) was consumed; `eof` — the source was empty; `layoutOnly` — only layout and
    comments up to the end; `incomplete` — the text ended inside a clause, quoted item or comment. -/
inductive Scan where
  | done (n : Nat)
  | eof
  | layoutOnly
  | incomplete
  deriving DecidableEq, Repr

def atEof : Mode → Nat → Scan
  | .dot, n => .done n
  | .code _ false, 0 => .eof
  | .code _ false, _ + 1 => .layoutOnly
  | .line false, _ => .layoutOnly
  | _, _ => .incomplete

/-- the scanner over a character list. -/
def scan : Mode → Nat → List Char → Scan
  | m, n, [] => atEof m n
  | m, n, c :: cs =>
    match step m c with
    | .stop => .done n
    | .next m' => scan m' (n + 1) cs

def startMode : Mode := .code .start false

/-- `read_term_from_chars`: one read from the character list. -/
def scanText (cs : List Char) : Scan := scan startMode 0 cs

/-! ## sources -/

structure Source (σ : Type) where
  next : σ → Option (Char × σ)

/-- the scanner over an arbitrary source (`fuel` bounds the number of characters taken). -/
def scanSrc {σ : Type} (S : Source σ) : Nat → Mode → Nat → σ → Scan
  | 0, _, _, _ => .incomplete
  | fuel + 1, m, n, s =>
    match S.next s with
    | none => atEof m n
    | some (c, s') =>
      match step m c with
      | .stop => .done n
      | .next m' => scanSrc S fuel m' (n + 1) s'

/-- the in-memory source: the character list itself. -/
def listSource : Source (List Char) where
  next
    | [] => none
    | c :: r => some (c, r)

/-- a stream over fixed contents with a read position. -/
def posSource (contents : List Char) : Source Nat where
  next p := (contents[p]?).map fun c => (c, p + 1)

/-- a stream with a push-back buffer (`put_back_char`). -/
def pbSource (contents : List Char) : Source (List Char × Nat) where
  next
    | (c :: pb, p) => some (c, (pb, p))
    | ([], p) => (contents[p]?).map fun c => (c, ([], p + 1))

def putBack (c : Char) (s : List Char × Nat) : List Char × Nat := (c :: s.1, s.2)

/-- successive reads from a text: the lengths of the clauses and how the text ends. -/
def segments : Nat → List Char → List Nat × Scan
  | 0, _ => ([], .incomplete)
  | fuel + 1, cs =>
    match scanText cs with
    | .done n =>
      if n = 0 then ([], .incomplete)
      else
        let r := segments fuel (cs.drop n)
        (n :: r.1, r.2)
    | r => ([], r)

/-! ## output -/

abbrev OutStream := List Char

/-- writing a fragment to a stream appends it. -/
def put (s : OutStream) (frag : List Char) : OutStream := s ++ frag

/-- `write_term(S, T, Opts)`: the printer's fragments are written one after the other. -/
def writeFrags (frags : List (List Char)) (s : OutStream) : OutStream := frags.foldl put s

/-- `write_term_to_chars(T, Opts, Cs)`: the printer's result string. -/
def toChars (frags : List (List Char)) : List Char := frags.flatten

end Scryer.CharStream
