/-
  C34 — generic ITERATIVE term traversals (explicit work-list on the heap) and their RECURSIVE
  specifications.  The iterative machines mirror the scheme used by scryer-prolog's term walkers:

  * `PState`/`step`/`run`   : pre-order iterator with an explicit stack
        (src/heap_iter.rs `StackfulPreOrderHeapIter`: pop a cell, push its arguments so that the
        first argument is on top)
  * `foldIter`              : the same walk with an accumulator instead of an output list
        (term_variables, ground, size …)
  * `cmpIter`               : pair iterator over two terms with a work-list of pairs
        (src/machine/unify.rs / `compare_term_test` with the `pdl`: pop a pair, compare the heads,
        push the argument pairs)

  All loops are tail recursive over a `Nat` fuel and stop as soon as the work-list is empty; their
  auxiliary storage is a heap-allocated `List`.  Nothing here recurses on the depth of a term, so the
  compiled driver itself walks terms of depth 10^6 (the recursive specifications are never executed
  on big terms by the driver).  Import-free.
-/
namespace Scryer.Traverse

/-- Rose trees: variables, constants, compound terms `f(args)`. Lists are `node dot [h, t]`. -/
inductive Tree where
  | var (i : Nat)
  | atom (a : Nat)
  | node (f : Nat) (args : List Tree)
  deriving Inhabited

/-- Head symbol of a term: what a pre-order visitor sees at one node. -/
inductive Head where
  | var (i : Nat)
  | atom (a : Nat)
  | fn (f : Nat) (arity : Nat)
  deriving DecidableEq, Repr, Inhabited

def Tree.head : Tree → Head
  | .var i => .var i
  | .atom a => .atom a
  | .node f as => .fn f as.length

def Tree.args : Tree → List Tree
  | .node _ as => as
  | _ => []

/-! ## Recursive specifications (never run on big terms) -/

mutual
  /-- number of nodes -/
  def Tree.size : Tree → Nat
    | .var _ => 1
    | .atom _ => 1
    | .node _ as => 1 + sizeL as
  def sizeL : List Tree → Nat
    | [] => 0
    | t :: ts => t.size + sizeL ts
end

mutual
  /-- pre-order sequence of head symbols: the recursive definition of "visit every node". -/
  def preorder : Tree → List Head
    | .var i => [.var i]
    | .atom a => [.atom a]
    | .node f as => .fn f as.length :: preorderL as
  def preorderL : List Tree → List Head
    | [] => []
    | t :: ts => preorder t ++ preorderL ts
end

mutual
  /-- nesting depth (what a natively recursive walker would need as stack frames) -/
  def Tree.depth : Tree → Nat
    | .var _ => 1
    | .atom _ => 1
    | .node _ as => 1 + depthL as
  def depthL : List Tree → Nat
    | [] => 0
    | t :: ts => max t.depth (depthL ts)
end

/-! ## Pre-order iterator with an explicit stack -/

structure PState where
  stack : List Tree          -- the work-list (heap allocated)
  len : Nat                  -- its length, maintained incrementally (= `stack.length`, proved)
  out : List Head            -- visited heads, most recent first
  steps : Nat                -- number of `step`s taken
  maxStack : Nat             -- high-water mark of the work-list
  deriving Inhabited

/-- one iteration: pop a term, emit its head, push its arguments (first argument on top). -/
def step (s : PState) : PState :=
  match s.stack with
  | [] => s
  | t :: rest =>
    let len' := s.len - 1 + t.args.length
    { stack := t.args ++ rest, len := len', out := t.head :: s.out, steps := s.steps + 1,
      maxStack := max s.maxStack len' }

/-- the loop: at most `fuel` iterations, stops when the work-list is empty. -/
def run : Nat → PState → PState
  | 0, s => s
  | n + 1, s =>
    match s.stack with
    | [] => s
    | _ :: _ => run n (step s)

def PState.init (t : Tree) : PState := { stack := [t], len := 1, out := [], steps := 0, maxStack := 1 }

/-- visit sequence of the iterative traversal -/
def iterTraverse (fuel : Nat) (t : Tree) : List Head := (run fuel (PState.init t)).out.reverse

/-- the same walk folding an accumulator (no output list): term_variables, ground, size, hash … -/
def foldIter {α : Type} (f : α → Head → α) : Nat → List Tree → α → α
  | 0, _, acc => acc
  | _ + 1, [], acc => acc
  | n + 1, t :: rest, acc => foldIter f n (t.args ++ rest) (f acc t.head)

/-! ## Pair iterator (compare / == / unify skeleton) -/

/-- order of two head symbols: Var < Constant < Compound; compounds by arity, then name
    (standard order of terms, restricted to this term language). -/
def headCmp : Head → Head → Ordering
  | .var i, .var j => compare i j
  | .var _, _ => .lt
  | .atom _, .var _ => .gt
  | .atom a, .atom b => compare a b
  | .atom _, .fn .. => .lt
  | .fn f n, .fn g m => (compare n m).then (compare f g)
  | .fn .., _ => .gt

mutual
  /-- recursive lexicographic comparison -/
  def cmpRec : Tree → Tree → Ordering
    | .node f as, .node g bs =>
        (headCmp (.fn f as.length) (.fn g bs.length)).then (cmpRecL as bs)
    | .node f as, .var j => headCmp (.fn f as.length) (.var j)
    | .node f as, .atom b => headCmp (.fn f as.length) (.atom b)
    | .var i, b => headCmp (.var i) b.head
    | .atom a, b => headCmp (.atom a) b.head
  def cmpRecL : List Tree → List Tree → Ordering
    | a :: as, b :: bs => (cmpRec a b).then (cmpRecL as bs)
    | _, _ => .eq
end

/-- specification of a whole work-list of pairs -/
def cmpPairs : List (Tree × Tree) → Ordering
  | [] => .eq
  | (a, b) :: w => (cmpRec a b).then (cmpPairs w)

/-- the loop: pop a pair, compare the heads; different → answer; equal → push argument pairs.
    `none` = fuel exhausted. -/
def cmpIter : Nat → List (Tree × Tree) → Option Ordering
  | _, [] => some .eq
  | 0, _ :: _ => none
  | n + 1, (a, b) :: w =>
    match headCmp a.head b.head with
    | .eq => cmpIter n (a.args.zip b.args ++ w)
    | o => some o

/-! ## Shapes of the test ladder, built iteratively (as the Prolog side builds them) -/

/-- `wrapN n w t` applies the wrapper `w` n times (tail recursive). -/
def wrapN : Nat → (Tree → Tree) → Tree → Tree
  | 0, _, t => t
  | n + 1, w, t => wrapN n w (w t)

def dot : Nat := 0       -- '.'/2
def nil : Tree := .atom 0 -- []

/-- list of the given elements (built from the back, tail recursive) -/
def mkList (xs : List Tree) : Tree :=
  xs.reverse.foldl (fun acc x => .node dot [x, acc]) nil

end Scryer.Traverse
