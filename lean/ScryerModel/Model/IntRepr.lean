import ScryerModel.Model.ArithInt
/-
C05: the consumers of an integer that may live in either representation
(`Num.fix` = 56-bit Fixnum cell, `Num.big` = arena `Integer`, possibly holding a small value
because `ArenaFrom<Integer> for Number` does not renormalise).

Mirrors: `unify.rs` unify_fixnum / unify_big_integer (integer arms), the integer arm of the
standard-order comparison (`Number` ordering used by ParallelHeapIter), and first-argument
indexing of integer constants: `indexing.rs::index_constant` + `constant_key_alternatives`
(what a clause head contributes to the constant table) and
`dispatch.rs::select_switch_on_term_index` (Fixnum → constant table, arena Integer → try
every clause). Import-free apart from the integer model.
-/
namespace Scryer.IntRepr
open Scryer.Arith

/-- the four integer arms of `unify_fixnum` / `unify_big_integer`. -/
def unifyInt : Num → Num → Bool
  | .fix a, .fix b => a == b
  | .fix a, .big b => b == a
  | .big a, .fix b => a == b
  | .big a, .big b => a == b

/-- integer arm of the standard order (`Ord for Number`). -/
def compareInt : Num → Num → Ordering
  | .fix a, .fix b => compare a b
  | .fix a, .big b => compare a b
  | .big a, .fix b => compare a b
  | .big a, .big b => compare a b

/-- `==` on integers. -/
def identical (a b : Num) : Bool := compareInt a b == .eq

/-- where `select_switch_on_term_index` sends an integer call argument. -/
inductive Route where
  | table (key : Int)      -- Fixnum: look the cell up in the constant hash map
  | allClauses             -- arena Integer: the variable chain (every clause is tried)
  deriving Repr, DecidableEq

def route : Num → Route
  | .fix a => .table a
  | .big _ => .allClauses

/-- the Fixnum keys under which a clause head's integer first argument is entered in the
    constant table: its own cell when it is a Fixnum; for an arena Integer its address (never
    equal to a Fixnum cell) plus, by `constant_key_alternatives`, the Fixnum of the same value
    when it fits. -/
def headKeys : Num → List Int
  | .fix k => [k]
  | .big k => if inFix k then [k] else []

def candidate (h a : Num) : Bool :=
  match route a with
  | .table k => (headKeys h).contains k
  | .allClauses => true

/-- clause numbers (from `i`) selected by indexing AND accepted by head unification. -/
def matchesFrom (i : Nat) : List Num → Num → List Nat
  | [], _ => []
  | h :: t, a => (if candidate h a && unifyInt h a then [i] else []) ++ matchesFrom (i + 1) t a

/-- specification: the clauses whose integer equals the call argument's value. -/
def specFrom (i : Nat) : List Num → Int → List Nat
  | [], _ => []
  | h :: t, v => (if h.val = v then [i] else []) ++ specFrom (i + 1) t v

/-- the pre-fix routing (arena integers looked up by address: never found). -/
def candidateOld (h a : Num) : Bool :=
  match a with
  | .fix k => (headKeys h).contains k
  | .big _ => false

def matchesFromOld (i : Nat) : List Num → Num → List Nat
  | [], _ => []
  | h :: t, a => (if candidateOld h a && unifyInt h a then [i] else []) ++ matchesFromOld (i + 1) t a

end Scryer.IntRepr
