/-!
# Model of `library(ugraphs)` (src/lib/ugraphs.pl) over natural-number vertices

A graph in S-representation is a list of `vertex - neighbours` pairs (`Graph`), keys in
standard order, every neighbour list in standard order. The functions below transcribe the
clauses of `ugraphs.pl` and of the `ordsets.pl` predicates it calls, clause by clause
(the Prolog clause a branch comes from is named in the comment). Prolog failure is `none`.

Two library predicates do not meet their mathematical definition (notes/findings/C53-*.md);
for those the literal transcription has the library's name (`delVertices`, `addVertices`) and
the repaired algorithm (the proposed patch) is `delVerticesFixed` / `addVerticesFixed`.

The builtin `sort/2` is modelled by `sortSet` (insertion into a duplicate-free ordered list);
`keysort/2` as used by `msort_/2` by `msortNat` (insertion sort that keeps duplicates).
-/
namespace Scryer.UGraph

abbrev Graph := List (Nat × List Nat)

/-! ## builtins -/

/-- insert into a strictly ordered list (no duplicates) w.r.t. a strict order `lt`. -/
def insertSet {α} (lt : α → α → Bool) (x : α) : List α → List α
  | [] => [x]
  | y :: ys =>
    if lt x y then x :: y :: ys
    else if lt y x then y :: insertSet lt x ys
    else y :: ys

/-- `sort/2`: sorted, duplicates removed. -/
def sortSet {α} (lt : α → α → Bool) (l : List α) : List α := l.foldr (insertSet lt) []

def natLt (a b : Nat) : Bool := decide (a < b)
/-- standard order on `A-B` pairs of integers: lexicographic. -/
def edgeLt (a b : Nat × Nat) : Bool := decide (a.1 < b.1) || (a.1 == b.1 && decide (a.2 < b.2))

def sortNat (l : List Nat) : List Nat := sortSet natLt l
def sortEdges (l : List (Nat × Nat)) : List (Nat × Nat) := sortSet edgeLt l

def insertDup (x : Nat) : List Nat → List Nat
  | [] => [x]
  | y :: ys => if x ≤ y then x :: y :: ys else y :: insertDup x ys

/-- `msort_/2` (pairs_keys + keysort): sorted, duplicates kept. -/
def msortNat (l : List Nat) : List Nat := l.foldr insertDup []

/-! ## ordsets.pl -/

/-- `oset_union/3` (`ord_union/3`). -/
def ordUnion : List Nat → List Nat → List Nat
  | [], l2 => l2
  | l1, [] => l1
  | a :: as, b :: bs =>
    if a < b then a :: ordUnion as (b :: bs)          -- union3(<)
    else if a = b then a :: ordUnion as bs            -- union3(=)
    else b :: ordUnion (a :: as) bs                   -- union3(>)

/-- `oset_diff/3` (`ord_subtract/3`). -/
def ordSubtract : List Nat → List Nat → List Nat
  | [], _ => []
  | l1, [] => l1
  | a :: as, b :: bs =>
    if a < b then a :: ordSubtract as (b :: bs)       -- diff3(<)
    else if a = b then ordSubtract as bs              -- diff3(=)
    else ordSubtract (a :: as) bs                     -- diff3(>)

/-- `oset_addel/3` (`ord_add_element/3`). -/
def ordAddElement : List Nat → Nat → List Nat
  | [], e => [e]
  | h :: t, e =>
    if h < e then h :: ordAddElement t e              -- addel(<)
    else if h = e then h :: t                         -- addel(=)
    else e :: h :: t                                  -- addel(>)

/-- put `a` in front of the first component. -/
def consFst {α β} (a : α) (p : List α × β) : List α × β := (a :: p.1, p.2)
/-- put `b` in front of both components. -/
def consBoth {α} (b : α) (p : List α × List α) : List α × List α := (b :: p.1, b :: p.2)

/-- `ord_union/4`: the union and the elements of the second set that are new. -/
def ordUnionNew : List Nat → List Nat → List Nat × List Nat
  | [], s2 => (s2, s2)
  | l1, [] => (l1, [])
  | a :: as, b :: bs =>
    if a < b then consFst a (ordUnionNew as (b :: bs))        -- <
    else if a = b then consFst a (ordUnionNew as bs)          -- =
    else consBoth b (ordUnionNew (a :: as) bs)                -- >

/-! ## ugraphs.pl -/

/-- `vertices/2`. -/
def vertices : Graph → List Nat
  | [] => []
  | (v, _) :: g => v :: vertices g

/-- `p_to_s_vertices/2`. -/
def pToSVertices : List (Nat × Nat) → List Nat
  | [] => []
  | (a, z) :: es => a :: z :: pToSVertices es

/-- `p_to_s_group/4`: the neighbours of `v2` at the front of the edge set, and the rest. -/
def pToSGroup1 : List (Nat × Nat) → Nat → List Nat × List (Nat × Nat)
  | (v1, x) :: es, v2 =>
    if v1 = v2 then consFst x (pToSGroup1 es v2)
    else ([], (v1, x) :: es)
  | [], _ => ([], [])

/-- `p_to_s_group/3`. -/
def pToSGroup : List Nat → List (Nat × Nat) → Graph
  | [], _ => []
  | v :: vs, es => (v, (pToSGroup1 es v).1) :: pToSGroup vs (pToSGroup1 es v).2

/-- `vertices_edges_to_ugraph/3`. -/
def verticesEdgesToUgraph (vs : List Nat) (es : List (Nat × Nat)) : Graph :=
  let edgeSet := sortEdges es
  let vertexSet := sortNat (vs ++ pToSVertices edgeSet)
  pToSGroup vertexSet edgeSet

/-- `p_to_s_graph/2`. -/
def pToSGraph (es : List (Nat × Nat)) : Graph :=
  let edgeSet := sortEdges es
  pToSGroup (sortNat (pToSVertices edgeSet)) edgeSet

/-- `add_empty_vertices/2`. -/
def addEmptyVertices : List Nat → Graph
  | [] => []
  | v :: l => (v, []) :: addEmptyVertices l

/-- `add_vertices_to_s_graph/3,7`. -/
def addVerticesToSGraph : List Nat → Graph → Graph
  | l, [] => addEmptyVertices l
  | [], g => g
  | v1 :: vl, (v, e) :: g =>
    if v1 = v then (v, e) :: addVerticesToSGraph vl g                       -- =
    else if v1 < v then (v1, []) :: addVerticesToSGraph vl ((v, e) :: g)    -- <
    else (v, e) :: addVerticesToSGraph (v1 :: vl) g                         -- >

/-- `add_vertices/3` as written (uses `msort_`, so duplicates in the list survive). -/
def addVertices (g : Graph) (vs : List Nat) : Graph := addVerticesToSGraph (msortNat vs) g

/-- `add_vertices/3` with `sort/2` instead of `msort_/2` (proposed patch, finding C53-2). -/
def addVerticesFixed (g : Graph) (vs : List Nat) : Graph := addVerticesToSGraph (sortNat vs) g

/-- `del_remaining_edges_for_vertices/3`. -/
def delRemaining : Graph → List Nat → Graph
  | [], _ => []
  | (v0, e) :: g, v1 => (v0, ordSubtract e v1) :: delRemaining g v1

/-- `del_vertices/4` with `split_on_del_vertices/8` as written. In the `>` branch the current
    graph vertex is kept without being compared with the remaining vertices to delete. -/
def delVerticesAux : Graph → List Nat → List Nat → Graph
  | g, [], v1 => delRemaining g v1
  | [], _ :: _, _ => []
  | (v, e) :: g, v0 :: vs, v1 =>
    if v < v0 then (v, ordSubtract e v1) :: delVerticesAux g (v0 :: vs) v1  -- <
    else if v = v0 then delVerticesAux g vs v1                              -- =
    else (v, ordSubtract e v1) :: delVerticesAux g vs v1                    -- > (sic)

/-- `del_vertices/3` as written. -/
def delVertices (g : Graph) (vs : List Nat) : Graph :=
  let v1 := sortNat vs
  if v1 = [] then g else delVerticesAux g v1 v1

/-- `del_vertices/4` repaired: in the `>` branch the vertex to delete is dropped and the same
    graph vertex is examined again (proposed patch, finding C53-1). -/
def delVerticesAuxFixed : Graph → List Nat → List Nat → Graph
  | g, [], v1 => delRemaining g v1
  | [], _ :: _, _ => []
  | (v, e) :: g, v0 :: vs, v1 =>
    if v < v0 then (v, ordSubtract e v1) :: delVerticesAuxFixed g (v0 :: vs) v1
    else if v = v0 then delVerticesAuxFixed g vs v1
    else delVerticesAuxFixed ((v, e) :: g) vs v1

def delVerticesFixed (g : Graph) (vs : List Nat) : Graph :=
  let v1 := sortNat vs
  if v1 = [] then g else delVerticesAuxFixed g v1 v1

/-- `ugraph_union/3,6`. -/
def ugraphUnion : Graph → Graph → Graph
  | s1, [] => s1
  | [], s2 => s2
  | (h1, e1) :: t1, (h2, e2) :: t2 =>
    if h1 = h2 then (h1, ordUnion e1 e2) :: ugraphUnion t1 t2               -- =
    else if h1 < h2 then (h1, e1) :: ugraphUnion t1 ((h2, e2) :: t2)        -- <
    else (h2, e2) :: ugraphUnion ((h1, e1) :: t1) t2                        -- >

/-- `add_edges/3`. -/
def addEdges (g : Graph) (es : List (Nat × Nat)) : Graph := ugraphUnion g (pToSGraph es)

/-- `graph_subtract/3,6`. -/
def graphSubtract : Graph → Graph → Graph
  | s1, [] => s1
  | [], _ :: _ => []
  | (h1, e1) :: t1, (h2, e2) :: t2 =>
    if h1 = h2 then (h1, ordSubtract e1 e2) :: graphSubtract t1 t2          -- =
    else if h1 < h2 then (h1, e1) :: graphSubtract t1 ((h2, e2) :: t2)      -- <
    else graphSubtract ((h1, e1) :: t1) t2                                  -- >

/-- `del_edges/3`. -/
def delEdges (g : Graph) (es : List (Nat × Nat)) : Graph := graphSubtract g (pToSGraph es)

/-- `s_to_p_graph/4` (difference list: the edges of one vertex in front of `rest`). -/
def sToPGraph1 : List Nat → Nat → List (Nat × Nat) → List (Nat × Nat)
  | [], _, rest => rest
  | n :: ns, v, rest => (v, n) :: sToPGraph1 ns v rest

/-- `edges/2` (`s_to_p_graph/2`). -/
def edges : Graph → List (Nat × Nat)
  | [] => []
  | (v, ns) :: g => sToPGraph1 ns v (edges g)

/-- `memberchk(V-Y, E)` / `graph_memberchk/2` / `neighbours/3`: the neighbour list stored
    under the first key equal to `v`; fails if there is none. -/
def neighbours (v : Nat) : Graph → Option (List Nat)
  | [] => none
  | (v0, ns) :: g => if v = v0 then some ns else neighbours v g

/-- `warshall/4`: every vertex that has `v` as a neighbour also gets `y`. -/
def warshallStep : Graph → Nat → List Nat → Graph
  | [], _, _ => []
  | (x, ns) :: g, v, y =>
    if v ∈ ns then (x, ordUnion ns y) :: warshallStep g v y   -- memberchk(V, Neibs)
    else (x, ns) :: warshallStep g v y

/-- `warshall/3`. -/
def warshall : Graph → Graph → Option Graph
  | [], e => some e
  | (v, _) :: g, e =>
    match neighbours v e with                                  -- memberchk(V-Y, E)
    | none => none
    | some y => warshall g (warshallStep e v y)

/-- `transitive_closure/2`. -/
def transitiveClosure (g : Graph) : Option Graph := warshall g g

/-- `flip_edges/2`. -/
def flipEdges : List (Nat × Nat) → List (Nat × Nat)
  | [] => []
  | (k, v) :: ps => (v, k) :: flipEdges ps

/-- `transpose_ugraph/2`. -/
def transposeUgraph (g : Graph) : Graph :=
  verticesEdgesToUgraph (vertices g) (flipEdges (edges g))

/-- `compose1/4,8`. -/
def compose1 : List Nat → Graph → List Nat → List Nat
  | [], _, comp => comp
  | _ :: _, [], comp => comp
  | v1 :: vs1, (v2, n2) :: g2, soFar =>
    if v1 < v2 then compose1 vs1 ((v2, n2) :: g2) soFar          -- <
    else if v1 = v2 then compose1 vs1 g2 (ordUnion n2 soFar)     -- =
    else compose1 (v1 :: vs1) g2 soFar                           -- >

/-- `compose/4`. -/
def composeAux : List Nat → Graph → Graph → Graph
  | [], _, _ => []
  | v :: vs, [], g2 => (v, []) :: composeAux vs [] g2
  | v :: vs, (v', ns) :: g1, g2 =>
    if v = v' then (v, compose1 ns g2 []) :: composeAux vs g1 g2
    else (v, []) :: composeAux vs ((v', ns) :: g1) g2

/-- `compose/3`. -/
def compose (g1 g2 : Graph) : Graph :=
  composeAux (ordUnion (vertices g1) (vertices g2)) g1 g2

/-- `complement/3`. -/
def complementAux : Graph → List Nat → Graph
  | [], _ => []
  | (v, ns) :: g, vs => (v, ordSubtract vs (ordAddElement ns v)) :: complementAux g vs

/-- `complement/2`. -/
def complement (g : Graph) : Graph := complementAux g (vertices g)

/-- `reachable/4`. The Prolog loop is bounded here by `fuel`; `C53_reachable_fuel` shows that
    the bound used by `reachable` is never hit on a well-formed graph. -/
def reachableLoop : Nat → List Nat → Graph → List Nat → Option (List Nat)
  | _, [], _, rs => some rs
  | 0, _ :: _, _, _ => none
  | fuel + 1, n :: ns, g, rs0 =>
    match neighbours n g with
    | none => none
    | some nei =>                          -- ord_union(Rs0, Nei, Rs1, D), append(Ns, D, Nsi)
      reachableLoop fuel (ns ++ (ordUnionNew rs0 nei).2) g (ordUnionNew rs0 nei).1

/-- `reachable/3`. -/
def reachable (n : Nat) (g : Graph) : Option (List Nat) :=
  reachableLoop (g.length + 1) [n] g [n]

/-! ### top_sort -/

/-- `vertices_and_zeros/3`, second output. -/
def zeros : Graph → List Int
  | [] => []
  | _ :: g => 0 :: zeros g

/-- `incr_list/4`. -/
def incrList : List Nat → List Nat → List Int → Option (List Int)
  | [], _, counts => some counts
  | _ :: _, [], _ => none
  | _ :: _, _ :: _, [] => none
  | v1 :: ns, v2 :: vs, m :: cs =>
    if v1 = v2 then (incrList ns vs cs).map (fun r => (m + 1) :: r)
    else (incrList (v1 :: ns) vs cs).map (fun r => m :: r)

/-- `count_edges/4`. -/
def countEdges : Graph → List Nat → List Int → Option (List Int)
  | [], _, counts => some counts
  | (_, ns) :: g, vs, c0 =>
    match incrList ns vs c0 with
    | none => none
    | some c1 => countEdges g vs c1

/-- `select_zeros/3`. -/
def selectZeros : List Int → List Nat → Option (List Nat)
  | [], [] => some []
  | c :: cs, v :: vs =>
    if c = 0 then (selectZeros cs vs).map (fun r => v :: r)
    else selectZeros cs vs
  | [], _ :: _ => none
  | _ :: _, [] => none

/-- `decr_list/6`: new counts and the new stack of zero-count vertices. -/
def decrList : List Nat → List Nat → List Int → List Nat → Option (List Int × List Nat)
  | [], _, counts, zi => some (counts, zi)
  | _ :: _, [], _, _ => none
  | _ :: _, _ :: _, [], _ => none
  | v1 :: ns, v2 :: vs, n :: cs, zi =>
    if v1 = v2 then
      if n = 1 then (decrList ns vs cs (v2 :: zi)).map (fun r => (0 :: r.1, r.2))
      else (decrList ns vs cs zi).map (fun r => ((n - 1) :: r.1, r.2))
    else (decrList (v1 :: ns) vs cs zi).map (fun r => (n :: r.1, r.2))

/-- `top_sort/5`. The Prolog loop is bounded here by `fuel` (one unit per emitted vertex);
    `C53_topSort_complete` shows the bound used by `topSort` is never hit on a well-formed
    graph. -/
def topSortLoop : Nat → List Nat → Graph → List Nat → List Int → Option (List Nat)
  | _, [], g, _, counts => if counts = zeros g then some [] else none
  | 0, _ :: _, _, _, _ => none
  | fuel + 1, z :: zs, g, vs, c1 =>
    match neighbours z g with                                   -- graph_memberchk
    | none => none
    | some ns =>
      match decrList ns vs c1 zs with
      | none => none
      | some r => (topSortLoop fuel r.2 g vs r.1).map (fun s => z :: s)

/-- `top_sort/2`. -/
def topSort (g : Graph) : Option (List Nat) :=
  let vs := vertices g
  match countEdges g vs (zeros g) with
  | none => none
  | some c1 =>
    match selectZeros c1 vs with
    | none => none
    | some zs => topSortLoop g.length zs g vs c1

/-! ## Relational reading of a graph, and the representation invariant -/

/-- `x → y` is an edge. -/
def Edge (g : Graph) (x y : Nat) : Prop := ∃ ns, (x, ns) ∈ g ∧ y ∈ ns

/-- strictly ascending (standard order, no duplicates). -/
def Sorted (l : List Nat) : Prop := l.Pairwise (· < ·)

/-- The S-representation invariant: keys strictly ascending, every neighbour list strictly
    ascending, every neighbour is itself a vertex. -/
structure WF (g : Graph) : Prop where
  keys : Sorted (vertices g)
  nbrs : ∀ p ∈ g, Sorted p.2
  closed : ∀ p ∈ g, ∀ y ∈ p.2, y ∈ vertices g

end Scryer.UGraph
