import ScryerModel.Model.Term
import ScryerModel.Model.Unify
/-!
# C29 — the toplevel's answer protocol and answer construction (`src/toplevel.pl`)

Two mirrored mechanisms.

**(A) Protocol** — `run_query_goal/4` + `toplevel_query_callback/3` + `read_input/2`:
the engine is abstracted to a `Trace` (what backtracking into the query delivers: a solution
together with the outcome of the test `B0 == B` "no choice point left", final failure, or an
exception); the keyboard is a list of `Key`s (when it is exhausted the key is `;`). `run` is the
sequence of things written to `user_output` (`Tok`), `render` its text.

**(B) Answer construction** — `gather_query_vars/2`, `charsio:extend_var_list/4`
(`fabricate_var_name/3`, `make_new_var_name/6`), `gather_equations/3`, `select_all/5`, and the
variable naming of `write_goal/3` (the `select((Var = _), VarList, NewVarList)` trick): from the
query's `variable_names` list (name ↦ value after the solution, values over "heap" variables)
and the residual goals to the list of printed goals (`answer`).

Not modelled: the term writer itself (C55/C15), `'$term_variables_under_max_depth'` (terms are
assumed to lie within the printing depth 20/22), `project_attributes`, attribute_goals.
Imports only `Model.Term` / `Model.Unify` (Lean core).
-/
namespace Scryer
namespace Toplevel

/-! ## (A) protocol -/

/-- keys understood by `read_input/2`. -/
inductive Key where
  | next      -- `;` ` ` `n`
  | stop      -- newline `.`
  | all       -- `a`
  | five      -- `f`
  | deep      -- `w`
  | shallow   -- `p`
  | help      -- `h`
  | other     -- anything else: ignored
  deriving Repr, BEq, DecidableEq, Inhabited

/-- What backtracking into the query delivers, in order. `sol a cp rest`: a solution, `cp` = a
choice point of the query is left (`B0 \== B`); `rest` is what re-entering the query gives
(irrelevant when `cp = false`: `run_query_goal` cuts). -/
inductive Trace (α ε : Type) where
  | sol (a : α) (cp : Bool) (rest : Trace α ε)
  | fail
  | exc (e : ε)
  deriving Repr, Inhabited

/-- pieces written to `user_output`. -/
inductive Tok (α ε : Type) where
  | indent                     -- `write('   ')` (`handle_first_answer`, `write_error`)
  | ans (a : α) (deep : Bool)  -- `write_leaf_answer(leaf, Options)`
  | sep                        -- `nl, write(';  ')`
  | stopped                    -- `nl, write(';  ... .'), nl`
  | dot                        -- `write('.'), nl`
  | no                         -- `write(false)`
  | err (e : ε)                -- `loader:write_error(E), nl` without its indentation
  | reprint                    -- `nl, write('   ')` before a `w`/`p` reprint
  | help                       -- `help_message`
  deriving Repr, Inhabited

/-- the blackboard entries `'$answer_count'`, `'$report_all'`, `'$report_n_more'`. -/
structure St where
  count : Nat := 0
  all : Bool := false
  nMore : Nat := 0
  deriving Repr, Inhabited

/-- the key dispatch of `read_input/2` once a key is really read (`get_single_char/1`); the
recursive calls of `read_input/2` (after `w`, `p`, `h` and ignored keys) find the blackboard
unchanged, so they read the next key again. Output, new state, unread keys, `Stop == continue`. -/
def readKeys {α ε : Type} (a : α) (st : St) : List Key → List (Tok α ε) × St × List Key × Bool
  | [] => ([.sep], st, [], true)                       -- keyboard exhausted: `;`
  | .stop :: ks => ([.stopped], st, ks, false)
  | .deep :: ks =>
      let r := readKeys a st ks
      (.reprint :: .ans a true :: r.1, r.2)
  | .shallow :: ks =>
      let r := readKeys a st ks
      (.reprint :: .ans a false :: r.1, r.2)
  | .next :: ks => ([.sep], st, ks, true)
  | .help :: ks =>
      let r := readKeys a st ks
      (.help :: r.1, r.2)
  | .all :: ks => ([.sep], { st with all := true }, ks, true)
  | .five :: ks => ([.sep], { st with nMore := 5 - st.count % 5 }, ks, true)
  | .other :: ks => readKeys a st ks

/-- `read_input/2`. -/
def readInput {α ε : Type} (a : α) (st : St) (ks : List Key) : List (Tok α ε) × St × List Key × Bool :=
  if st.all then ([.sep], st, ks, true)
  else if st.nMore > 1 then ([.sep], { st with nMore := st.nMore - 1 }, ks, true)
  else readKeys a st ks

/-- `handle_first_answer` / the indentation of `write_error`. -/
def first {α ε : Type} (st : St) : List (Tok α ε) := if st.count = 0 then [.indent] else []

/-- `submit_query_and_print_results` after the blackboard was reset: `run_query_goal` with
`toplevel_query_callback`. -/
def run {α ε : Type} : Trace α ε → St → List Key → List (Tok α ε)
  | .sol a false _, st, _ => first st ++ [.ans a false, .dot]
  | .sol a true rest, st, ks =>
      let r := readInput (ε := ε) a { st with count := st.count + 1 } ks
      first st ++ .ans a false :: r.1 ++ (if r.2.2.2 then run rest r.2.1 r.2.2.1 else [])
  | .fail, st, _ => first st ++ [.no, .dot]
  | .exc e, st, _ => first st ++ [.err e]

/-- the keys still unread after the query (the keyboard is shared by consecutive queries). -/
def keysLeft {α ε : Type} : Trace α ε → St → List Key → List Key
  | .sol _ false _, _, ks => ks
  | .sol a true rest, st, ks =>
      let r := readInput (ε := ε) a { st with count := st.count + 1 } ks
      if r.2.2.2 then keysLeft rest r.2.1 r.2.2.1 else r.2.2.1
  | .fail, _, ks => ks
  | .exc _, _, ks => ks

/-- the transcript of one query. -/
def transcript {α ε : Type} (t : Trace α ε) (ks : List Key) : List (Tok α ε) := run t {} ks

/-- the solutions the engine delivers when every answer is requested. -/
def Trace.sols {α ε : Type} : Trace α ε → List α
  | .sol a false _ => [a]
  | .sol a true rest => a :: rest.sols
  | .fail => []
  | .exc _ => []

/-- the enumeration ends with the failure of the query (after a choice point was left, or at once). -/
def Trace.endsFail {α ε : Type} : Trace α ε → Bool
  | .sol _ false _ => false
  | .sol _ true rest => rest.endsFail
  | .fail => true
  | .exc _ => false

/-- the exception that ends the enumeration. -/
def Trace.endsExc {α ε : Type} : Trace α ε → Option ε
  | .sol _ false _ => none
  | .sol _ true rest => rest.endsExc
  | .fail => none
  | .exc e => some e

/-- the choice point flag of the last delivered solution. -/
def Trace.lastCp {α ε : Type} : Trace α ε → Option Bool
  | .sol _ false _ => some false
  | .sol _ true rest => match rest.lastCp with
      | some b => some b
      | none => some true
  | .fail => none
  | .exc _ => none

/-- what is unobservable is cut away: the continuation of a solution that left no choice point. -/
def Trace.canon {α ε : Type} : Trace α ε → Trace α ε
  | .sol a false _ => .sol a false .fail
  | .sol a true rest => .sol a true rest.canon
  | .fail => .fail
  | .exc e => .exc e

/-- answers written (first writing only, not the `w`/`p` reprints). -/
def answersOf {α ε : Type} : List (Tok α ε) → List α
  | [] => []
  | .reprint :: .ans _ _ :: ts => answersOf ts
  | .ans a _ :: ts => a :: answersOf ts
  | _ :: ts => answersOf ts

/-- reads a transcript produced with every answer requested back into the (canonical) trace. -/
def parse {α ε : Type} : List (Tok α ε) → Option (Trace α ε)
  | .indent :: ts => parse ts
  | [.ans a _, .dot] => some (.sol a false .fail)
  | .ans a _ :: .sep :: ts => (parse ts).map (.sol a true)
  | [.no, .dot] => some .fail
  | [.err e] => some (.exc e)
  | _ => none

/-- the text of the transcript. -/
def render {α ε : Type} (showA : α → Bool → String) (showE : ε → String) : List (Tok α ε) → String
  | [] => ""
  | .indent :: ts => "   " ++ render showA showE ts
  | .ans a d :: ts => showA a d ++ render showA showE ts
  | .sep :: ts => "\n;  " ++ render showA showE ts
  | .stopped :: ts => "\n;  ... .\n" ++ render showA showE ts
  | .dot :: ts => ".\n" ++ render showA showE ts
  | .no :: ts => "false" ++ render showA showE ts
  | .err e :: ts => showE e ++ ".\n" ++ render showA showE ts
  | .reprint :: ts => "\n   " ++ render showA showE ts
  | .help :: ts => "<help>" ++ render showA showE ts

/-! ## (B) answer construction -/

open Term

/-- `Name = Value` lists (`variable_names`). -/
abbrev VarList := List (String × Term)

/-- `var_list_contains_variable/2` (`==`). -/
def containsVar : VarList → String → Bool
  | [], _ => false
  | (_, t) :: vl, v => (match t with | .var w => w == v | _ => false) || containsVar vl v

/-- `var_list_contains_name/2`. -/
def containsName : VarList → String → Bool
  | [], _ => false
  | (n, _) :: vl, m => n == m || containsName vl m

/-- `fabricate_var_name(fabricated, Name, N)`: `_A` … `_Z`, `_A1` … -/
def fabName (n : Nat) : String :=
  let letter := Char.ofNat (n % 26 + 65)
  if n / 26 = 0 then String.ofList ['_', letter]
  else String.ofList ('_' :: letter :: (toString (n / 26)).toList)

/-- total length of the names of a list. -/
def sumLen : VarList → Nat
  | [] => 0
  | (n, _) :: vl => n.length + sumLen vl

/-- a name longer than every name of the list. -/
def longName (vl : VarList) : String := String.ofList (List.replicate (sumLen vl + 1) '_')

/-- `make_new_var_name/6`: the first fabricated name from `n` on that is not a name of `vl`.
`fuel` bounds the number of clashes; `vl.length + 1` candidates always contain a free one, the
fall-back for exhausted fuel (never reached with that fuel) is a name that is free by its length. -/
def makeNewVarName : Nat → Nat → VarList → String × Nat
  | 0, n, vl => (longName vl, n + 1)
  | fuel + 1, n, vl =>
      if containsName vl (fabName n) then makeNewVarName fuel (n + 1) vl else (fabName n, n + 1)

/-- `extend_var_list_/5`. -/
def extendVarList_ : List String → Nat → VarList → VarList
  | [], _, _ => []
  | v :: vs, n, vl =>
      if containsVar vl v then extendVarList_ vs n vl
      else
        let r := makeNewVarName (vl.length + 1) n vl
        (r.1, .var v) :: extendVarList_ vs r.2 vl

/-- `extend_var_list(Vars, VarList, NewVarList, fabricated)`. -/
def extendVarList (vars : List String) (vl : VarList) : VarList := vl ++ extendVarList_ vars 0 vl

/-- `gather_query_vars/2`: the values that are (still) variables, with repetitions. -/
def gatherQueryVars : VarList → List String
  | [] => []
  | (_, .var v) :: vl => v :: gatherQueryVars vl
  | _ :: vl => gatherQueryVars vl

/-- `select_all/5`: the pairs whose value is identical to `var v`, and the others. -/
def selectAll : VarList → String → VarList × VarList
  | [], _ => ([], [])
  | (n, t) :: ps, v =>
      let r := selectAll ps v
      match t with
      | .var w => if w == v then ((n, t) :: r.1, r.2) else (r.1, (n, t) :: r.2)
      | _ => (r.1, (n, t) :: r.2)

/-- `gather_equations/3` (`fuel` ≥ the length of the list). -/
def gatherEquations : Nat → VarList → List String → VarList
  | 0, _, _ => []
  | _ + 1, [], _ => []
  | fuel + 1, (n, t) :: ps, orig =>
      match t with
      | .var v =>
          if orig.contains v then
            match selectAll ps v with
            | (_ :: varEqs, rest) => (n, t) :: varEqs ++ gatherEquations fuel rest orig
            | ([], _) => gatherEquations fuel ps orig
          else gatherEquations fuel ps orig
      | _ => (n, t) :: gatherEquations fuel ps orig

/-- the name under which `write_term(…, [variable_names(VarList)])` shows the variable `v`:
the first entry of the list holding it (`_G<v>` stands for an unnamed variable). -/
def nameOf : VarList → String → String
  | [], v => "_G" ++ v
  | (n, t) :: vl, v => if (match t with | .var w => w == v | _ => false) then n else nameOf vl v

/-- `select((Var = _), VarList, NewVarList)`: removes the first entry named `x`. -/
def eraseName : VarList → String → VarList
  | [], _ => []
  | (n, t) :: vl, x => if n == x then vl else (n, t) :: eraseName vl x

/-- a term as shown with the variable names of `vl`. -/
def showWith (vl : VarList) (t : Term) : Term := t.subst fun v => .var (nameOf vl v)

/-- a printed goal: an equation `Name = Term`, or a residual goal; variables are NAMES now. -/
inductive Goal where
  | eq (name : String) (rhs : Term)
  | goal (g : Term)
  deriving Repr, Inhabited, BEq

/-- `write_goal/3` on `Var = Value`. -/
def printEq (vl : VarList) (e : String × Term) : Goal :=
  match e.2 with
  | .var v => .eq e.1 (.var (nameOf (eraseName vl e.1) v))
  | t => .eq e.1 (showWith vl t)

/-- `term_variables/2`. -/
def termVars (ts : List Term) : List String := Unify.dedup (varsL ts)

/-- everything `run_query_goal` computes for a leaf answer. -/
structure Leaf where
  bindings : VarList      -- `Bindings`
  names : VarList         -- `NewVarNames1`
  deriving Repr, Inhabited

/-- the body of `run_query_goal/4` between the solution and the callback. -/
def leaf (varNames : VarList) (resGoals : List Term) : Leaf :=
  let vars0 := gatherQueryVars varNames
  let vars1 := Unify.dedup vars0
  let resGoalVars := termVars resGoals
  let newVarNames := extendVarList (vars1 ++ resGoalVars) varNames
  let bindings := gatherEquations newVarNames.length newVarNames vars0
  let bindingVars := (bindings.map fun e => Unify.dedup e.2.vars).flatten
  let vars4 := Unify.dedup (resGoalVars ++ bindingVars)
  { bindings := bindings, names := extendVarList vars4 varNames }

/-- the goals `write_eq/3` prints for the leaf answer (empty list: `true`). -/
def answer (varNames : VarList) (resGoals : List Term) : List Goal :=
  let l := leaf varNames resGoals
  l.bindings.map (printEq l.names) ++ resGoals.map fun g => .goal (showWith l.names g)

/-- the printed equations as unification problem over the names. -/
def eqsOf : List Goal → List (String × Term)
  | [] => []
  | .eq n r :: gs => (n, r) :: eqsOf gs
  | .goal _ :: gs => eqsOf gs

end Toplevel
end Scryer
