/-!
# Codec models for C37 (hex, Base64, UTF-8)

Executable, import-free models of

* `hex_bytes/2` (`src/lib/crypto.pl`): `bytes_hex//1`, `hex_bytes//1`, `char_hexval/2`,
  `hexval_char/2`, `must_be_bytes/2` — mirrored clause by clause (`hexEncode`, `hexDecode`,
  `hexVal`, `hexDigit`, `hexBytesEnc`);
* `chars_base64/3` (`src/lib/charsio.pl` → `'$chars_base64'` → crate `base64` 0.22 engines
  `STANDARD`, `URL_SAFE`, `STANDARD_NO_PAD`, `URL_SAFE_NO_PAD`): the *specification* RFC 4648 §4/§5
  with the two documented options; the decoder is the strict one those engines implement
  (canonical padding required / no padding allowed, zero trailing bits required);
* `chars_utf8bytes/2` (`src/lib/charsio.pl`): the encoder `code_to_utf8//1`, `encode//3` is mirrored
  (`utf8EncodeCharMech`) next to the RFC 3629 table (`utf8EncodeChar`); the decoder has two
  models: the strict RFC 3629 / Unicode Table 3-7 decoder `utf8Decode` (the specification) and
  `utf8DecodeMech`, a clause-by-clause mirror of `decode_utf8//1`, `leading//2`,
  `continuation//3` under `once/1` (first solution of the DCG, exceptions of `char_code/2`).

Bytes are `Nat`s; `Bytes bs` says every element is `< 256`. Characters of the hex and Base64
texts are `Char`s, code points of `chars_utf8bytes/2` are `Nat`s (`isScalar`).
-/
namespace Scryer.Codec

/-- every element is an octet -/
def Bytes (bs : List Nat) : Prop := ∀ b ∈ bs, b < 256

/-! ## Hex (`crypto.pl`) -/

/-- the 16 facts of `hexval_char/2`, in order (lower case) -/
def lowerHex : List Char :=
  ['0','1','2','3','4','5','6','7','8','9','a','b','c','d','e','f']

/-- the second string of `char_hexval/2` -/
def upperHex : List Char :=
  ['0','1','2','3','4','5','6','7','8','9','A','B','C','D','E','F']

/-- `hexval_char(H, C)`: defined for `0..15` only. The fallback `'?'` is not a hex digit
    (`hexVal '?' = none`), so an out-of-range argument can never round-trip. -/
def hexDigit (n : Nat) : Char := lowerHex.getD n '?'

/-- `char_hexval(C, H)` with `H` unbound: `nth0(H, "0123456789abcdef", C), !` and then the
    same with the upper-case string. -/
def hexVal (c : Char) : Option Nat :=
  let i := lowerHex.idxOf c
  if i < 16 then some i
  else
    let j := upperHex.idxOf c
    if j < 16 then some j else none

/-- `bytes_hex//1`: `High #= B>>4, Low #= B /\ 0xf`, two digits per byte. -/
def hexEncode : List Nat → List Char
  | [] => []
  | b :: bs => hexDigit (b >>> 4) :: hexDigit (b &&& 0xf) :: hexEncode bs

/-- `hex_bytes//1`: two digits at a time, `Byte #= High*16 + Low`; `none` is the failure of
    `phrase/2` that `hex_bytes/2` turns into `domain_error(hex_encoding, Hs)`. -/
def hexDecode : List Char → Option (List Nat)
  | [] => some []
  | [_] => none
  | h1 :: h2 :: hs =>
    match hexVal h1, hexVal h2, hexDecode hs with
    | some hi, some lo, some bs => some ((hi * 16 + lo) :: bs)
    | _, _, _ => none

/-- first element outside `0..255` (the `member(B, Bytes), \+ between(0,255,B)` of
    `must_be_bytes/2`) -/
def firstNonByte : List Int → Option Int
  | [] => none
  | b :: bs => if 0 ≤ b ∧ b ≤ 255 then firstNonByte bs else some b

/-- `hex_bytes(Hs, Bytes)` with `Hs` unbound and `Bytes` a list of integers:
    `type_error(byte, B)` for the first non-octet, else the hex text. -/
def hexBytesEnc (bs : List Int) : Except Int (List Char) :=
  match firstNonByte bs with
  | some b => .error b
  | none => .ok (hexEncode (bs.map Int.toNat))

/-! ## Base64 (RFC 4648 §4, §5) -/

structure B64Opts where
  /-- `padding(true|false)` -/
  pad : Bool
  /-- `charset(url)` (true) or `charset(standard)` (false) -/
  url : Bool
deriving Repr, DecidableEq

def b64Std : List Char :=
  ['A','B','C','D','E','F','G','H','I','J','K','L','M','N','O','P','Q','R','S','T','U','V','W','X','Y','Z',
   'a','b','c','d','e','f','g','h','i','j','k','l','m','n','o','p','q','r','s','t','u','v','w','x','y','z',
   '0','1','2','3','4','5','6','7','8','9','+','/']

def b64Url : List Char :=
  ['A','B','C','D','E','F','G','H','I','J','K','L','M','N','O','P','Q','R','S','T','U','V','W','X','Y','Z',
   'a','b','c','d','e','f','g','h','i','j','k','l','m','n','o','p','q','r','s','t','u','v','w','x','y','z',
   '0','1','2','3','4','5','6','7','8','9','-','_']

def b64Alphabet (url : Bool) : List Char := if url then b64Url else b64Std

/-- the character of a 6-bit value (Table 1 / Table 2 of RFC 4648) -/
def b64Char (url : Bool) (n : Nat) : Char := (b64Alphabet url).getD n '='

/-- the 6-bit value of a character; `none` outside the alphabet (in particular for `'='`) -/
def b64Val (url : Bool) (c : Char) : Option Nat :=
  let i := (b64Alphabet url).idxOf c
  if i < 64 then some i else none

/-- 24-bit groups → four 6-bit values; a final group of 1 / 2 bytes gives 2 / 3 values whose
    unused low bits are zero (RFC 4648 §4). -/
def sextets : List Nat → List Nat
  | [] => []
  | [a] => [a / 4, a % 4 * 16]
  | [a, b] => [a / 4, a % 4 * 16 + b / 16, b % 16 * 4]
  | a :: b :: c :: rest =>
    a / 4 :: (a % 4 * 16 + b / 16) :: (b % 16 * 4 + c / 64) :: c % 64 :: sextets rest

/-- number of `'='` characters for `n` input bytes -/
def padCount (n : Nat) : Nat := (3 - n % 3) % 3

def b64Encode (o : B64Opts) (bs : List Nat) : List Char :=
  (sextets bs).map (b64Char o.url)
    ++ (if o.pad then List.replicate (padCount bs.length) '=' else [])

/-- inverse of `sextets`: a lone value is an error, and the unused low bits of the last value
    must be zero (`decode_allow_trailing_bits = false` in the crate's engines). -/
def unsextets : List Nat → Option (List Nat)
  | [] => some []
  | [_] => none
  | [a, b] => if b % 16 = 0 then some [a * 4 + b / 16] else none
  | [a, b, c] => if c % 4 = 0 then some [a * 4 + b / 16, b % 16 * 16 + c / 4] else none
  | a :: b :: c :: d :: rest =>
    match unsextets rest with
    | some r => some ((a * 4 + b / 16) :: (b % 16 * 16 + c / 4) :: (c % 4 * 64 + d) :: r)
    | none => none

/-- every character must be in the alphabet -/
def b64Vals (url : Bool) : List Char → Option (List Nat)
  | [] => some []
  | c :: cs =>
    match b64Val url c, b64Vals url cs with
    | some v, some vs => some (v :: vs)
    | _, _ => none

/-- number of `'='` a text with `n` alphabet characters must end in when padding is on
    (`DecodePaddingMode::RequireCanonical`); `n % 4 = 1` is never valid. -/
def padFor (n : Nat) : Option Nat :=
  match n % 4 with
  | 0 => some 0
  | 2 => some 2
  | 3 => some 1
  | _ => none

def notPad (c : Char) : Bool := c != '='

/-- the text from the first `'='` on: with padding exactly the canonical number of `'='`
    (`RequireCanonical`), without padding nothing at all (`RequireNone`: no `'='` anywhere). -/
def tailOk (pad : Bool) (bodyLen : Nat) (tail : List Char) : Bool :=
  if pad then
    match padFor bodyLen with
    | some k => tail == List.replicate k '='
    | none => false
  else tail.isEmpty

/-- strict decoder: `body` is the text up to the first `'='`, `tail` the rest. -/
def b64Decode (o : B64Opts) (cs : List Char) : Option (List Nat) :=
  let body := cs.takeWhile notPad
  let tail := cs.dropWhile notPad
  if tailOk o.pad body.length tail then
    match b64Vals o.url body with
    | some vs => unsextets vs
    | none => none
  else none

/-! ## UTF-8 (RFC 3629) -/

/-- Unicode scalar value -/
def isScalar (c : Nat) : Prop := c < 0xD800 ∨ (0xDFFF < c ∧ c < 0x110000)

instance (c : Nat) : Decidable (isScalar c) := by unfold isScalar; exact inferInstance

/-- RFC 3629 §3 table -/
def utf8EncodeChar (c : Nat) : List Nat :=
  if c < 0x80 then [c]
  else if c < 0x800 then [0xC0 + c / 64, 0x80 + c % 64]
  else if c < 0x10000 then [0xE0 + c / 4096, 0x80 + c / 64 % 64, 0x80 + c % 64]
  else [0xF0 + c / 262144, 0x80 + c / 4096 % 64, 0x80 + c / 64 % 64, 0x80 + c % 64]

def utf8Encode : List Nat → List Nat
  | [] => []
  | c :: cs => utf8EncodeChar c ++ utf8Encode cs

/-- `encode(Code, Prefix, Nb)` of charsio.pl:
    `Byte is Prefix \/ ((Code >> (6 * Nb1)) /\ 0x3F)`, then `encode(Code, 0x80, Nb1)`. -/
def encodeGo (code : Nat) (pre : Nat) : Nat → List Nat
  | 0 => []
  | nb + 1 => (pre ||| ((code >>> (6 * nb)) &&& 0x3F)) :: encodeGo code 0x80 nb

/-- `code_to_utf8//1`: four guarded clauses; a code `≥ 0x110000` makes all of them fail
    (`none`; unreachable from `char_code/2`). -/
def utf8EncodeCharMech (c : Nat) : Option (List Nat) :=
  if c < 0x80 then some [c]
  else if c < 0x800 then some (encodeGo c 0xC0 2)
  else if c < 0x10000 then some (encodeGo c 0xE0 3)
  else if c < 0x110000 then some (encodeGo c 0xF0 4)
  else none

def isCont (b : Nat) : Prop := 0x80 ≤ b ∧ b < 0xC0

instance (b : Nat) : Decidable (isCont b) := by unfold isCont; exact inferInstance

def cp2 (b0 b1 : Nat) : Nat := b0 % 32 * 64 + b1 % 64
def cp3 (b0 b1 b2 : Nat) : Nat := b0 % 16 * 4096 + b1 % 64 * 64 + b2 % 64
def cp4 (b0 b1 b2 b3 : Nat) : Nat := b0 % 8 * 262144 + b1 % 64 * 4096 + b2 % 64 * 64 + b3 % 64

/-- Strict decoder (RFC 3629 §3/§4, Unicode D92 / Table 3-7): lead byte pattern, `10xxxxxx`
    continuation bytes, shortest form only, no surrogates, nothing above U+10FFFF. -/
def utf8Decode : List Nat → Option (List Nat)
  | [] => some []
  | b0 :: bs =>
    if b0 < 0x80 then (utf8Decode bs).map (b0 :: ·)
    else if b0 < 0xC0 then none
    else if b0 < 0xE0 then
      match bs with
      | b1 :: r =>
        if isCont b1 ∧ 0x80 ≤ cp2 b0 b1 then (utf8Decode r).map (cp2 b0 b1 :: ·) else none
      | _ => none
    else if b0 < 0xF0 then
      match bs with
      | b1 :: b2 :: r =>
        if isCont b1 ∧ isCont b2 ∧ 0x800 ≤ cp3 b0 b1 b2 ∧ isScalar (cp3 b0 b1 b2) then
          (utf8Decode r).map (cp3 b0 b1 b2 :: ·)
        else none
      | _ => none
    else if b0 < 0xF8 then
      match bs with
      | b1 :: b2 :: b3 :: r =>
        if isCont b1 ∧ isCont b2 ∧ isCont b3 ∧ 0x10000 ≤ cp4 b0 b1 b2 b3
            ∧ cp4 b0 b1 b2 b3 < 0x110000 then
          (utf8Decode r).map (cp4 b0 b1 b2 b3 :: ·)
        else none
      | _ => none
    else none

/-! ### mirror of `decode_utf8//1` -/

/-- result of the continuation search for ONE character -/
inductive Step where
  /-- the DCG body failed (only when the input ends inside a multi-byte sequence) -/
  | fail
  /-- `char_code(H, Code)` threw `representation_error(character_code)` -/
  | reprErr
  /-- one character produced, remaining bytes -/
  | char (c : Nat) (rest : List Nat)
deriving Repr, DecidableEq

/-- smallest code point that needs `Nb` bytes. Only used by the `fix = true` variant below,
    which mirrors the patch proposed in `notes/findings/C37-1.md` (HEAD has no such test). -/
def minCode : Nat → Nat
  | 2 => 0x80
  | 3 => 0x800
  | 4 => 0x10000
  | _ => 0

/-- `continuation(Code, Chars, Nb)`:
    * clause 1 (`Nb = 1`): `char_code(H, Code)` — an exception for a non-scalar code — and the
      decoding continues with the remaining bytes (`min` is `0` for the code at HEAD; in the
      patched variant a code below `min`, i.e. an overlong form, gives U+FFFD instead);
    * clause 2: the next byte is `10xxxxxx`: `NextCode is (Code << 6) \/ (Byte - 0x80)`;
      if that branch fails, clause 3 is tried on backtracking;
    * clause 3: any next byte is *consumed* and U+FFFD produced;
    * no byte left: failure.
    (The recursive call `decode_utf8(T)` never fails — see `utf8DecodeMech` — so under
    `once/1` no later clause is ever tried after clause 1 or 3 has succeeded.) -/
def contStep (min code : Nat) : Nat → List Nat → Step
  | 0, _ => .fail                      -- not reachable: `leading` gives Nb ≥ 1
  | 1, bs =>
    if code < min then .char 0xFFFD bs
    else if isScalar code then .char code bs else .reprErr
  | _ + 2, [] => .fail
  | nb + 2, b :: r =>
    if b &&& 0xC0 = 0x80 then
      match contStep min ((code <<< 6) ||| (b - 0x80)) (nb + 1) r with
      | .fail => .char 0xFFFD r
      | s => s
    else .char 0xFFFD r

/-- `leading(Nb, Code)` clauses 1–4 (mutually exclusive tests on the first byte) -/
def leading (b : Nat) : Option (Nat × Nat) :=
  if b &&& 0x80 = 0 then some (1, b)
  else if b &&& 0xE0 = 0xC0 then some (2, b - 0xC0)
  else if b &&& 0xF0 = 0xE0 then some (3, b - 0xE0)
  else if b &&& 0xF8 = 0xF0 then some (4, b - 0xF0)
  else none

/-- one character: clauses 1–4 of `leading`, and on failure of the continuation (or of all
    four tests) the fifth clause `leading(1, 0xFFFD) --> [_]`.
    `fix = false` is the code at HEAD, `fix = true` the proposed patch. -/
def mechStep (fix : Bool) (b : Nat) (rest : List Nat) : Step :=
  match leading b with
  | some (nb, code) =>
    match contStep (if fix then minCode nb else 0) code nb rest with
    | .fail => .char 0xFFFD rest
    | s => s
  | none => .char 0xFFFD rest

theorem contStep_rest_le (min code nb : Nat) (bs : List Nat) (c : Nat) (r : List Nat)
    (h : contStep min code nb bs = .char c r) : r.length ≤ bs.length := by
  induction nb using Nat.strongRecOn generalizing code bs with
  | _ nb ih =>
    match nb, bs with
    | 0, _ => simp [contStep] at h
    | 1, bs =>
      simp only [contStep] at h
      split at h
      · cases h; exact Nat.le_refl _
      · split at h
        · cases h; exact Nat.le_refl _
        · cases h
    | nb + 2, [] => simp [contStep] at h
    | nb + 2, b :: r' =>
      simp only [contStep] at h
      split at h
      · split at h
        · cases h; simp
        · have := ih (nb + 1) (by omega) _ r' h
          simp; omega
      · cases h; simp

theorem mechStep_rest_le (fix : Bool) (b : Nat) (rest : List Nat) (c : Nat) (r : List Nat)
    (h : mechStep fix b rest = .char c r) : r.length ≤ rest.length := by
  unfold mechStep at h
  split at h
  · split at h
    · cases h; exact Nat.le_refl _
    · exact contStep_rest_le _ _ _ _ _ _ h
  · cases h; exact Nat.le_refl _

/-- outcome of `once(phrase(decode_utf8(Cs), Bs))` -/
inductive Dec where
  /-- the goal fails -/
  | fail
  /-- `representation_error(character_code)` -/
  | reprErr
  /-- the code points of `Cs` -/
  | ok (cs : List Nat)
deriving Repr, DecidableEq

set_option linter.unusedVariables false in
/-- `once(phrase(decode_utf8(Cs), Bs))`. (`Props/C37` proves it never fails.) -/
def utf8DecodeMech (fix : Bool) : List Nat → Dec
  | [] => .ok []
  | b :: rest =>
    match h : mechStep fix b rest with
    | .fail => .fail
    | .reprErr => .reprErr
    | .char c r =>
      match utf8DecodeMech fix r with
      | .ok cs => .ok (c :: cs)
      | d => d
termination_by bs => bs.length
decreasing_by
  have := mechStep_rest_le fix b rest c r h
  simp; omega

end Scryer.Codec
