import ScryerModel.Model.Utf8
import ScryerModel.Model.CharReader
/-
Model of the stream builtins of `src/machine/system_calls.rs` / `src/machine/streams.rs`
(`get_char`, `peek_char`, `get_code`, `peek_code`, `get_byte`, `peek_byte`, `$get_n_chars`,
`at_end_of_stream/1`, `stream_property(S, position/end_of_stream)`, `$set_stream_position`,
`read/2` on files made of `text.` units, `put_char`, `put_byte`, `$put_chars`) on file and
in-memory streams.

A stream is its content bytes, the number of bytes consumed (`cur`), the `past_end_of_stream`
flag, the `lines_read` counter and the options `eof_action`, `type`, direction, `reposition`.
The character level is the *specification* of the buffered reader proved in C18
(`Utf8.decodeFirst` on the unread bytes `content.drop cur`); the link between `cur` and what
`InputFileStream::position` computes from the file offset and the reader's buffer is
`filePosition` below (theorems in `Props/C19.lean`).

Mirrored branch by branch: `check_stream_properties` (direction / type permission errors, then the
`eof_action` step when the stream is past its end), `eof_action` (error / eof_code / reset with
`Stream::reset`), the at-end-of-stream tests of each builtin, `position_relative_to_end`,
`set_position`. The model is the REPAIRED behaviour for the four defects found
(notes/findings/C19-*.md): newlines consumed by character input are counted in `lines`, no U+FEFF is
skipped by character input, an in-memory stream's position accounts for the reader's buffer, and
the end-of-file value of `get_code`/`peek_code` is -1 also when the stream is past its end.
Abstracted: invalid UTF-8 ahead is reported as `Err.badEncoding` and a `read` that finds no end
token as `Err.noTerm` (neither is compared with the implementation). Import-free apart from the
C18 models.
-/
namespace Scryer.Stream
open Scryer.Utf8

inductive EofAction where
  | error | eofCode | reset
  deriving Repr, DecidableEq

inductive Ty where
  | text | binary
  deriving Repr, DecidableEq

inductive EndPos where
  | not | at | past
  deriving Repr, DecidableEq

structure St where
  content : List Nat          -- the bytes of the source / the bytes written so far
  cur : Nat                   -- bytes consumed (input streams)
  past : Bool                 -- `past_end_of_stream`
  lines : Nat                 -- `lines_read`
  eofAction : EofAction
  ty : Ty
  output : Bool               -- direction (false = input stream)
  reposition : Bool
  deriving Repr, DecidableEq

inductive Err where
  | inputStream       -- permission_error(input, stream, S): input from an output stream
  | inputBinary       -- permission_error(input, binary_stream, S): text input from a binary stream
  | inputText         -- permission_error(input, text_stream, S): byte input from a text stream
  | inputPastEnd      -- permission_error(input, past_end_of_stream, S)
  | outputStream      -- permission_error(output, stream, S): output to an input stream
  | outputBinary      -- permission_error(output, binary_stream, S)
  | outputText        -- permission_error(output, text_stream, S)
  | reposition        -- permission_error(reposition, stream, S)
  | ioError           -- `$get_n_chars` on an output stream (syntax_error(input_output_error))
  | badEncoding       -- invalid UTF-8 ahead (abstracted, not compared)
  | noTerm            -- `read`: no end token ahead / only layout left (abstracted, not compared)
  deriving Repr, DecidableEq

inductive Val where
  | char (cp : Nat)           -- a character (get_char/peek_char) or its code (get_code/peek_code)
  | byte (b : Nat)
  | eof                       -- end_of_file / -1
  | chars (cps : List Nat)    -- `$get_n_chars`
  | term (text : List Nat)    -- `read`: the bytes of the term text before the end token
  | endpos (e : EndPos)
  | pos (p l : Nat)           -- position_and_lines_read(P, L)
  | bool (b : Bool)           -- at_end_of_stream/1 succeeded / failed
  | unit
  deriving Repr, DecidableEq

inductive Res where
  | ok (v : Val)
  | error (e : Err)
  | fail
  deriving Repr, DecidableEq

inductive Op where
  | getChar | peekChar | getCode | peekCode | getByte | peekByte
  | getNChars (n : Nat)
  | atEnd | endOfStream | position
  | setPosition (p : Nat)
  | readTerm
  | putChar (cp : Nat) | putByte (b : Nat) | putChars (cps : List Nat)
  deriving Repr, DecidableEq

/-- a freshly opened input stream. -/
def openIn (content : List Nat) (ty : Ty) (eof : EofAction) (repos : Bool) : St :=
  { content, cur := 0, past := false, lines := 0, eofAction := eof, ty, output := false,
    reposition := repos }

/-- a freshly opened (truncated) output stream. -/
def openOut (ty : Ty) : St :=
  { content := [], cur := 0, past := false, lines := 0, eofAction := .eofCode, ty, output := true,
    reposition := false }

/-- the unread bytes. -/
def rest (s : St) : List Nat := s.content.drop s.cur

/-- `Stream::position_relative_to_end`. -/
def endPos (s : St) : EndPos :=
  if s.past then .past
  else if s.cur = s.content.length then .at
  else if s.cur < s.content.length then .not
  else .past

/-- the first half of `check_stream_properties`: direction (8.14.2.3 g) and type (h). -/
def check (s : St) (expected : Ty) (input : Bool) : Option Err :=
  if input then
    if s.output then some .inputStream
    else if s.ty ≠ expected then some (if expected = .text then .inputBinary else .inputText)
    else none
  else
    if !s.output then some .outputStream
    else if s.ty ≠ expected then some (if expected = .text then .outputBinary else .outputText)
    else none

/-- `Stream::reset` (file and in-memory streams: back to the start). -/
def resetSt (s : St) : St := { s with cur := 0, past := false, lines := 0 }

def nlCount (cp : Nat) : Nat := if cp = 10 then 1 else 0

/-- number of newline characters in a list of code points / of newline bytes in a byte list. -/
def countNl : List Nat → Nat
  | [] => 0
  | c :: r => nlCount c + countNl r

/-- `get_char`/`peek_char` (and the `_code` variants) once the stream is known not to be past its
    end: the `at_end_of_stream` test, then `read_char` / `peek_char` of the reader. -/
def textCore (consume : Bool) (s : St) : St × Res :=
  if s.cur = s.content.length then
    (if consume then { s with past := true } else s, .ok .eof)
  else
    match decodeFirst (rest s) with
    | .ok cp n =>
      (if consume then { s with cur := s.cur + n, lines := s.lines + nlCount cp } else s,
       .ok (.char cp))
    | _ => (s, .error .badEncoding)

/-- `get_char` (`consume = true`) / `peek_char` (`consume = false`): `check_stream_properties`
    with its `eof_action` step, then `textCore`. -/
def textOp (consume : Bool) (s : St) : St × Res :=
  match check s .text true with
  | some e => (s, .error e)
  | none =>
    if s.past then
      match s.eofAction with
      | .error => (s, .error .inputPastEnd)
      | .eofCode => (s, .ok .eof)
      | .reset => textCore consume (resetSt s)
    else textCore consume s

/-- `get_byte` (`consume = true`: one byte through `Read`, `past_end_of_stream` when there is
    none) / `peek_byte` after the checks. -/
def byteCore (consume : Bool) (s : St) : St × Res :=
  match rest s with
  | [] => (if consume then { s with past := true } else s, .ok .eof)
  | b :: _ => (if consume then { s with cur := s.cur + 1 } else s, .ok (.byte b))

def byteOp (consume : Bool) (s : St) : St × Res :=
  match check s .binary true with
  | some e => (s, .error e)
  | none =>
    if s.past then
      match s.eofAction with
      | .error => (s, .error .inputPastEnd)
      | .eofCode => (s, .ok .eof)
      | .reset => byteCore consume (resetSt s)
    else byteCore consume s

/-- the `for _ in 0..num { iter.read_char() }` loop of `get_n_chars`: the characters and the number
    of bytes they span; stops at the end of the input (and, abstracted, at invalid UTF-8). -/
def takeChars : Nat → List Nat → List Nat × Nat
  | 0, _ => ([], 0)
  | n+1, l =>
    match decodeFirst l with
    | .ok cp k =>
      let r := takeChars n (l.drop k)
      (cp :: r.1, k + r.2)
    | _ => ([], 0)

/-- `$get_n_chars(S, N, Cs)`: no permission checks and no end-of-stream bookkeeping at all. -/
def getNChars (n : Nat) (s : St) : St × Res :=
  if s.output then (s, .error .ioError)
  else
    match s.ty with
    | .text =>
      let r := takeChars n (rest s)
      ({ s with cur := s.cur + r.2, lines := s.lines + countNl r.1 }, .ok (.chars r.1))
    | .binary =>
      let bs := (rest s).take n
      ({ s with cur := s.cur + bs.length }, .ok (.chars bs))

/-- `at_end_of_stream(S)`: `stream_property(S, end_of_stream(E)), (E = at ; E = past)`. -/
def atEnd (s : St) : Bool := !s.output && decide (endPos s ≠ .not)

/-- `Stream::set_position` through `set_stream_position/2` (input files). -/
def setPosition (p : Nat) (s : St) : St × Res :=
  if !s.reposition then (s, .error .reposition)
  else if s.output then (s, .ok .unit)
  else ({ s with cur := p, past := decide (p > s.content.length) }, .ok .unit)

def isLayout (b : Nat) : Bool := b = 32 || b = 10 || b = 9 || b = 13

/-- `read(S, T)` after the checks, for text made of `<term text>.` units whose text contains no
    `.`: skip layout, take the text up to the end token, consume the `.` and a directly following
    newline (`Lexer`: `if new_line_char!(c) { self.skip_char(c) }`). At the end of the input:
    `read_term_eof_handler` (`end_of_file`, past). -/
def readCore (s : St) : St × Res :=
  let r := rest s
  let lay := r.takeWhile isLayout
  let r1 := r.drop lay.length
  if r1 = [] then
    if lay = [] then ({ s with past := true }, .ok .eof)
    else ({ s with cur := s.cur + lay.length, lines := s.lines + countNl lay }, .error .noTerm)
  else
    let txt := r1.takeWhile (fun b => b != 46)
    match r1.drop txt.length with
    | 46 :: after =>
      let nl := if after.head? = some 10 then 1 else 0
      ({ s with cur := s.cur + (lay.length + txt.length + 1 + nl),
                lines := s.lines + (countNl lay + countNl txt + nl) }, .ok (.term txt))
    | _ => ({ s with cur := s.cur + (lay.length + txt.length),
                     lines := s.lines + (countNl lay + countNl txt) }, .error .noTerm)

def readOp (s : St) : St × Res :=
  match check s .text true with
  | some e => (s, .error e)
  | none =>
    if s.past then
      match s.eofAction with
      | .error => (s, .error .inputPastEnd)
      | .eofCode => (s, .ok .eof)
      | .reset => readCore (resetSt s)
    else readCore s

/-- the UTF-8 encoding of a list of code points. -/
def encodeAll : List Nat → List Nat
  | [] => []
  | c :: r => encode c ++ encodeAll r

def putOp (expected : Ty) (bytes : List Nat) (s : St) : St × Res :=
  match check s expected false with
  | some e => (s, .error e)
  | none => ({ s with content := s.content ++ bytes }, .ok .unit)

/-- one builtin call. -/
def step (s : St) : Op → St × Res
  | .getChar => textOp true s
  | .getCode => textOp true s
  | .peekChar => textOp false s
  | .peekCode => textOp false s
  | .getByte => byteOp true s
  | .peekByte => byteOp false s
  | .getNChars n => getNChars n s
  | .atEnd => (s, .ok (.bool (atEnd s)))
  | .endOfStream => (s, .ok (.endpos (if s.output then .not else endPos s)))
  | .position => (s, if s.output then .fail else .ok (.pos s.cur s.lines))
  | .setPosition p => setPosition p s
  | .readTerm => readOp s
  | .putChar cp => putOp .text (encode cp) s
  | .putByte b => putOp .binary [b] s
  | .putChars cps => putOp .text (encodeAll cps) s

/-- a script of builtin calls: the results in order and the final state. -/
def run : St → List Op → List Res × St
  | s, [] => ([], s)
  | s, op :: ops =>
    let r := step s op
    let rr := run r.1 ops
    (r.2 :: rr.1, rr.2)

/-- closing an output stream and opening the file for input. -/
def reopen (s : St) (ty : Ty) (eof : EofAction) (repos : Bool) : St :=
  openIn s.content ty eof repos

/-- `n` calls of `get_char`: the results and the final state. -/
def getChars : Nat → St → List Res × St
  | 0, s => ([], s)
  | n+1, s =>
    let r := textOp true s
    let rr := getChars n r.1
    (r.2 :: rr.1, rr.2)

/-- `n` calls of `get_byte`. -/
def getBytes : Nat → St → List Res × St
  | 0, s => ([], s)
  | n+1, s =>
    let r := byteOp true s
    let rr := getBytes n r.1
    (r.2 :: rr.1, rr.2)

/-- the invariant linking the cursor and the past flag: the cursor is only ever beyond the content
    after `set_stream_position`, which sets the flag. -/
def Inv (s : St) : Prop := s.cur ≤ s.content.length ∨ s.past = true

/-- `lines_read` is the number of newlines in the consumed prefix (text input streams). -/
def LinesInv (s : St) : Prop := s.lines = countNl (s.content.take s.cur)

/-! ### the file mechanism: `InputFileStream::position` -/

/-- what `StreamLayout<CharReader<InputFileStream>>::position` computes: the file offset (all
    bytes the reader has fetched so far, `total` minus what the future `read` calls will return)
    minus `rem_buf_len()`. -/
def filePosition (total : Nat) (r : CharReader.St) : Nat :=
  (total - r.chunks.flatten.length) - (r.buf.length - r.pos)

/-- what `Stream::position` computes for an in-memory stream at the pinned commit: the cursor of
    the underlying `Cursor<Vec<u8>>` only, ignoring the reader's buffer (finding C19-3). -/
def bytePositionOld (total : Nat) (r : CharReader.St) : Nat :=
  total - r.chunks.flatten.length

end Scryer.Stream
