/-!
# Operator table model (C43)

Mirrors, branch by branch,

* `src/lib/builtins.pl`: `op/3`, `valid_op/1`, `op_priority/1`, `op_specifier/1`,
  `list_of_op_atoms/1`, the `'|'` branch and the list form (`maplist(op_(P,S), Ops)`),
  `current_op/3`;
* `src/machine/system_calls.rs`: `op_declaration` (`'$op'/3`), `get_next_op_db_ref`;
* `src/forms.rs`: `OpDecl::submit`, `OpDecl::remove`, `OpDecl::insert_into_op_dir`;
* `src/parser/parser.rs`: `get_op_desc` (only the three priorities it extracts).

`OpDir` is an `IndexMap<(Atom, Fixity), OpDesc>`; here it is an insertion-ordered association
list with the same update discipline (`set`). Removing an operator stores priority 0 under the
key (the key stays, as in `OpDecl::remove`); `current_op/3` hides priority-0 entries.

`opStepImpl fx` is the code as written when `fx = ⟨false,false⟩`. Flag `bar` switches on the patch
of `notes/findings/C43-1.md` (the `'|'` restriction also for list elements). Flag `atomic` selects
the other conforming treatment of an `Operator` *list* with a clashing element: ISO 8.14.3.1 says
"in the event of an error being detected in an Operator list argument, it is undefined which, if
any, of the atoms in the list is made an operator", so both "the elements before the offending one"
(the code, `atomic = false`) and "none" (`atomic = true`) conform.
`opStep = opStepImpl ⟨true,false⟩` is the ISO-conforming step the property theorems are about (the
code with finding C43-1 repaired); `opStepAtomic = opStepImpl ⟨true,true⟩` is the all-or-nothing
variant, proved to raise the same errors and to differ only in that ISO-undefined case.

This file imports nothing (it is linked into the plain executable `drv_C43`).
-/
namespace Scryer.OpTable

/-- the seven operator specifiers (`OpDeclSpec`). -/
inductive Spec where
  | xfx | xfy | yfx | xf | yf | fx | fy
  deriving DecidableEq, Repr, Inhabited

/-- `Fixity`. -/
inductive Cls where
  | inf | pre | post
  deriving DecidableEq, Repr, Inhabited

/-- `OpDeclSpec::fixity`. -/
def Spec.cls : Spec → Cls
  | .xfx | .xfy | .yfx => .inf
  | .xf | .yf => .post
  | .fx | .fy => .pre

/-- `OpDeclSpec::try_from(Atom)`. -/
def Spec.ofAtom? (a : String) : Option Spec :=
  if a = "xfx" then some .xfx else if a = "xfy" then some .xfy else if a = "yfx" then some .yfx
  else if a = "xf" then some .xf else if a = "yf" then some .yf else if a = "fx" then some .fx
  else if a = "fy" then some .fy else none

def Spec.toAtom : Spec → String
  | .xfx => "xfx" | .xfy => "xfy" | .yfx => "yfx" | .xf => "xf" | .yf => "yf"
  | .fx => "fx" | .fy => "fy"

/-- one `OpDir` cell: key `(name, spec.cls)`, value `(prio, spec)`. -/
structure Entry where
  name : String
  prio : Nat
  spec : Spec
  deriving DecidableEq, Repr, Inhabited

abbrev Table := List Entry

def Entry.hasKey (e : Entry) (n : String) (c : Cls) : Bool :=
  decide (e.name = n) && decide (e.spec.cls = c)

/-- `op_dir.get(&(name, fixity))` (raw: also returns priority-0 cells). -/
def get (t : Table) (n : String) (c : Cls) : Option Entry :=
  t.find? (fun e => e.hasKey n c)

/-- `OpDecl::insert_into_op_dir`: overwrite the cell under the key if present, else append. -/
def set : Table → String → Nat → Spec → Table
  | [], n, p, s => [⟨n, p, s⟩]
  | e :: r, n, p, s => if e.hasKey n s.cls then ⟨n, p, s⟩ :: r else e :: set r n p s

/-- priority stored under the key, 0 when there is no cell (what `get_op_desc` extracts). -/
def prio (t : Table) (n : String) (c : Cls) : Nat :=
  match get t n c with
  | some e => e.prio
  | none => 0

/-- the *visible* definition of `n` in class `c`: what ISO calls "the operator table". -/
def lookup (t : Table) (n : String) (c : Cls) : Option (Nat × Spec) :=
  match get t n c with
  | some e => if e.prio = 0 then none else some (e.prio, e.spec)
  | none => none

/-- what `current_op/3` shows of a cell (`write_op_functors_to_heap` skips priority 0). -/
def visible (e : Entry) : Option (Nat × Spec × String) :=
  if e.prio = 0 then none else some (e.prio, e.spec, e.name)

/-- all solutions of `current_op(P,T,N)` with three unbound arguments, in `IndexMap` order
    (`get_next_op_db_ref`, branch "priority unbound, name unbound"). -/
def currentOp (t : Table) : List (Nat × Spec × String) :=
  t.filterMap visible

/-! ## Arguments of a call -/

/-- a Prolog term as far as `op/3` distinguishes terms. `other` is any term that is neither a
    variable, an integer, an atom nor a list cell (float, compound, …); its text is only echoed
    in error terms. -/
inductive Arg where
  | var
  | int (i : Int)
  | atom (a : String)
  | other (txt : String)
  deriving DecidableEq, Repr, Inhabited

/-- third argument: a single term or a list cell `[hd|…]` with elements `hd :: tl` and final
    tail `tail` (`atom "[]"` for a proper list, `var` for a partial list, anything else for a
    non-list). Convention: `tail` itself is not a list cell. -/
inductive OpArg where
  | one (a : Arg)
  | cons (hd : Arg) (tl : List Arg) (tail : Arg)
  deriving DecidableEq, Repr, Inhabited

structure Call where
  prio : Arg
  spec : Arg
  op : OpArg
  deriving DecidableEq, Repr, Inhabited

/-- the formal of the `error(Formal, op/3)` term. -/
inductive Err where
  | inst
  | typeInteger (culprit : Arg)
  | typeAtom (culprit : Arg)
  | typeList (culprit : OpArg)
  | domPriority (i : Int)
  | domSpecifier (a : String)
  | permModify (a : String)
  | permCreate (a : String)
  deriving DecidableEq, Repr, Inhabited

/-- `op_priority/1` (the argument is known to be nonvar when it is called). -/
def checkPriority : Arg → Except Err Nat
  | .int i => if i < 0 ∨ 1200 < i then .error (.domPriority i) else .ok i.toNat
  | a => .error (.typeInteger a)

/-- `op_specifier/1`. -/
def checkSpec : Arg → Except Err Spec
  | .atom a =>
    match Spec.ofAtom? a with
    | some s => .ok s
    | none => .error (.domSpecifier a)
  | a => .error (.typeAtom a)

/-- `valid_op/1` on an atom: `none` = succeeds, `some e` = throws. -/
def validOp (a : String) : Option Err :=
  if a = "," then some (.permModify ",")
  else if a = "{}" then some (.permCreate "{}")
  else if a = "[]" then some (.permCreate "[]")
  else none

/-- `list_of_op_atoms/1`: `.ok (some names)` succeeds, `.ok none` fails, `.error e` throws. -/
def listCheck : List Arg → Arg → Except Err (Option (List String))
  | [], .atom a => if a = "[]" then .ok (some []) else .ok none
  | [], .var => .error .inst
  | [], _ => .ok none
  | .atom a :: r, tl =>
    match validOp a with
    | some e => .error e
    | none =>
      match listCheck r tl with
      | .ok (some ns) => .ok (some (a :: ns))
      | x => x
  | .var :: _, _ => .error .inst
  | x :: _, _ => .error (.typeAtom x)

/-- the `'|'` restriction: `member(OpSpec,[xfx,xfy,yfx]), (Priority >= 1001 ; Priority == 0)`. -/
def barOk (p : Nat) (s : Spec) : Bool :=
  decide (s.cls = .inf) && (decide (1001 ≤ p) || decide (p = 0))

/-- the two tests of `OpDecl::submit` (an infix and a postfix operator of one name). -/
def conflict (t : Table) (s : Spec) (n : String) : Bool :=
  (decide (s.cls = .inf) && decide (prio t n .post ≠ 0)) ||
  (decide (s.cls = .post) && decide (prio t n .inf ≠ 0))

/-- `'$op'/3` = `op_declaration`: priority 0 → `OpDecl::remove`, else `OpDecl::submit`. -/
def declare (t : Table) (p : Nat) (s : Spec) (n : String) : Except Err Table :=
  if p = 0 then .ok (set t n 0 s)
  else if conflict t s n then .error (.permCreate n)
  else .ok (set t n p s)

/-- `maplist(op_(P,S), Names)`: an exception stops the traversal; the updates already made stay. -/
def applyList (t : Table) (p : Nat) (s : Spec) : List String → Table × Option Err
  | [] => (t, none)
  | n :: r =>
    match declare t p s n with
    | .ok t' => applyList t' p s r
    | .error e => (t, some e)

/-- which variant of `op/3`. -/
structure Fixes where
  bar : Bool      -- notes/findings/C43-1.md: the '|' restriction also for list elements
  atomic : Bool   -- check every list element for a clash before the first update (ISO 8.14.3.1
                  -- leaves this open; the code does not)
  deriving DecidableEq, Repr, Inhabited

/-- common tail of the atom branch and the list branch: `op_priority`, `op_specifier`, then
    the updates. `isList` distinguishes `'$op'(P,S,Op)` from `maplist(op_(P,S), Op)`. -/
def finish (fx : Fixes) (t : Table) (P S : Arg) (isList : Bool) (names : List String) :
    Table × Option Err :=
  match checkPriority P with
  | .error e => (t, some e)
  | .ok p =>
    match checkSpec S with
    | .error e => (t, some e)
    | .ok s =>
      if fx.bar && isList && names.contains "|" && !barOk p s then
        (t, some (.permCreate "|"))
      else if fx.atomic && isList && decide (p ≠ 0) then
        match names.find? (conflict t s) with
        | some n => (t, some (.permCreate n))
        | none => applyList t p s names
      else applyList t p s names

/-- the `Op == '|'` branch of `op/3`. -/
def finishBar (t : Table) (P S : Arg) : Table × Option Err :=
  match checkPriority P with
  | .error e => (t, some e)
  | .ok p =>
    match checkSpec S with
    | .error e => (t, some e)
    | .ok s =>
      if barOk p s then applyList t p s ["|"] else (t, some (.permCreate "|"))

/-- `op/3`, clause by clause, in the order of the code. Result: new table and the error formal
    (`none` = the call succeeded). -/
def opStepImpl (fx : Fixes) (t : Table) (c : Call) : Table × Option Err :=
  if c.prio = .var then (t, some .inst)                        -- 8.14.3.3 a
  else if c.spec = .var then (t, some .inst)                   -- b
  else
    match c.op with
    | .one .var => (t, some .inst)                             -- c
    | .one (.atom a) =>
      if a = "|" then finishBar t c.prio c.spec
      else
        match validOp a with                                   -- valid_op(Op)
        | some e => (t, some e)
        | none => finish fx t c.prio c.spec false [a]
    | .one (.int i) => (t, some (.typeList (.one (.int i))))   -- list_of_op_atoms fails: f
    | .one (.other x) => (t, some (.typeList (.one (.other x))))
    | .cons hd tl tail =>
      match listCheck (hd :: tl) tail with
      | .error e => (t, some e)
      | .ok none => (t, some (.typeList (.cons hd tl tail)))
      | .ok (some names) => finish fx t c.prio c.spec true names

/-- the code as it is today. -/
def asIs : Fixes := ⟨false, false⟩

/-- the ISO-conforming step: the code with the patch of finding C43-1 applied. -/
def opStep (t : Table) (c : Call) : Table × Option Err := opStepImpl ⟨true, false⟩ t c

/-- the all-or-nothing variant: a list with a clashing element changes nothing. -/
def opStepAtomic (t : Table) (c : Call) : Table × Option Err := opStepImpl ⟨true, true⟩ t c

/-- the table after a history of calls (errors do not stop a history). -/
def runOps (t : Table) (cs : List Call) : Table := cs.foldl (fun t c => (opStep t c).1) t

def runOpsImpl (fx : Fixes) (t : Table) (cs : List Call) : Table :=
  cs.foldl (fun t c => (opStepImpl fx t c).1) t

/-! ## `current_op/3` with partially instantiated arguments -/

structure Pat where
  p : Option Nat
  s : Option Spec
  n : Option String
  deriving DecidableEq, Repr, Inhabited

def Pat.matches (q : Pat) (x : Nat × Spec × String) : Bool :=
  (match q.p with | some p => decide (p = x.1) | none => true) &&
  (match q.s with | some s => decide (s = x.2.1) | none => true) &&
  (match q.n with | some n => decide (n = x.2.2) | none => true)

/-- `get_next_op_db_ref` followed by `member(op(P,T,N), List)`. `fixed = false` is the code as
    it is: with the priority bound it reads the other two registers as atoms without looking at
    their tags, so an unbound specifier or name makes the lookup fail (modelled as no solution).
    `fixed = true` sends that case through the general enumeration (notes/findings/C43-2.md). -/
def currentOpQ (fixed : Bool) (t : Table) (q : Pat) : List (Nat × Spec × String) :=
  let sols : List (Nat × Spec × String) :=
    match q.p with
    | none =>
      match q.n with
      | some n =>
        -- name bound: the three cells of that name, infix, prefix, postfix
        ([get t n .inf, get t n .pre, get t n .post].filterMap id).filterMap visible
      | none =>
        -- enumeration of the whole map, pre-filtered by the specifier if bound
        (t.filter (fun e => match q.s with | some s => decide (e.spec = s) | none => true)).filterMap
          visible
    | some _ =>
      match q.s, q.n with
      | some s, some n =>
        match get t n s.cls with
        | some e => (visible e).toList
        | none => []
      | _, _ => if fixed then t.filterMap visible else []
  sols.filter q.matches

/-! ## Specification vocabulary (used by `Props/C43.lean`) -/

/-- the terms that stand in operator position: the third argument itself, or its elements. -/
def OpArg.elems : OpArg → List Arg
  | .one a => [a]
  | .cons hd tl _ => hd :: tl

def atomsOf : List Arg → Option (List String)
  | [] => some []
  | .atom a :: r => (atomsOf r).map (a :: ·)
  | _ :: _ => none

/-- the names a well-formed third argument (an atom or a proper list of atoms) denotes. -/
def opNames : OpArg → Option (List String)
  | .one (.atom a) => some [a]
  | .one _ => none
  | .cons hd tl tail => if tail = .atom "[]" then atomsOf (hd :: tl) else none

/-- the update an accepted call performs: every name gets `(p, s)` in class `s.cls`. -/
def setAll (t : Table) (p : Nat) (s : Spec) (ns : List String) : Table :=
  ns.foldl (fun t n => set t n p s) t

/-- ISO/IEC 13211-1 8.14.3.3 (with Cor.2): the error conditions of `op/3`. `IsoErr t c e` = the
    condition of error `e` holds for call `c` in table `t`. No precedence among them is fixed. -/
inductive IsoErr (t : Table) (c : Call) : Err → Prop
  | instPrio : c.prio = .var → IsoErr t c .inst                                       -- a
  | instSpec : c.spec = .var → IsoErr t c .inst                                       -- b
  | instOp : Arg.var ∈ c.op.elems → IsoErr t c .inst                                  -- c
  | instTail (hd tl) : c.op = .cons hd tl .var → IsoErr t c .inst                     -- c
  | typePrio : c.prio ≠ .var → (∀ i, c.prio ≠ .int i) →
      IsoErr t c (.typeInteger c.prio)                                                -- d
  | typeSpec : c.spec ≠ .var → (∀ a, c.spec ≠ .atom a) → IsoErr t c (.typeAtom c.spec) -- e
  | typeList1 (x) : c.op = .one x → x ≠ .var → (∀ a, x ≠ .atom a) →
      IsoErr t c (.typeList c.op)                                                     -- f
  | typeList2 (hd tl tail) : c.op = .cons hd tl tail → tail ≠ .var → tail ≠ .atom "[]" →
      IsoErr t c (.typeList c.op)                                                     -- f
  | typeElem (hd tl tail x) : c.op = .cons hd tl tail → x ∈ hd :: tl → x ≠ .var →
      (∀ a, x ≠ .atom a) → IsoErr t c (.typeAtom x)                                   -- g
  | domPrio (i) : c.prio = .int i → (i < 0 ∨ 1200 < i) → IsoErr t c (.domPriority i)  -- h
  | domSpec (a) : c.spec = .atom a → Spec.ofAtom? a = none →
      IsoErr t c (.domSpecifier a)                                                    -- i
  | comma : Arg.atom "," ∈ c.op.elems → IsoErr t c (.permModify ",")                  -- j, k
  | nil : Arg.atom "[]" ∈ c.op.elems → IsoErr t c (.permCreate "[]")                  -- Cor.2
  | curly : Arg.atom "{}" ∈ c.op.elems → IsoErr t c (.permCreate "{}")                -- Cor.2
  | bar (p s) : Arg.atom "|" ∈ c.op.elems → checkPriority c.prio = .ok p →
      checkSpec c.spec = .ok s → barOk p s = false → IsoErr t c (.permCreate "|")     -- Cor.2
  | clash (n p s) : Arg.atom n ∈ c.op.elems → checkPriority c.prio = .ok p → p ≠ 0 →
      checkSpec c.spec = .ok s → conflict t s n = true → IsoErr t c (.permCreate n)   -- l

/-- no priority-0 bookkeeping cell is a second cell for the same key (`IndexMap` keys are unique). -/
def wf : Table → Prop
  | [] => True
  | e :: r => get r e.name e.spec.cls = none ∧ wf r

/-- the table invariants of the property statement, phrased with the visible table `lookup`. -/
structure Inv (t : Table) : Prop where
  /-- keys are unique -/
  wf : wf t
  /-- no name is an infix and a postfix operator -/
  noInfPost : ∀ n, lookup t n .inf = none ∨ lookup t n .post = none
  /-- priorities are within 1..1200 and stored under the class of their specifier -/
  range : ∀ n c p s, lookup t n c = some (p, s) → 1 ≤ p ∧ p ≤ 1200 ∧ s.cls = c
  /-- `[]` and `{}` are not operators -/
  nilCurly : ∀ c, lookup t "[]" c = none ∧ lookup t "{}" c = none
  /-- `'|'` is at most an infix operator of priority ≥ 1001 -/
  bar : lookup t "|" .pre = none ∧ lookup t "|" .post = none ∧
        ∀ p s, lookup t "|" .inf = some (p, s) → 1001 ≤ p

/-! ## Default table -/

/-- the operator table of a fresh machine (toplevel loaded), in `current_op/3` order. The
    correspondence run compares it with the implementation at the start of every case. -/
def defaultTable : Table := [
  ⟨":-", 1200, .xfx⟩, ⟨":-", 1200, .fx⟩, ⟨"?-", 1200, .fx⟩, ⟨",", 1000, .xfy⟩,
  ⟨"/", 400, .yfx⟩, ⟨":", 600, .xfy⟩, ⟨"non_counted_backtracking", 700, .fx⟩,
  ⟨"is", 700, .xfx⟩, ⟨"+", 500, .yfx⟩, ⟨"-", 500, .yfx⟩, ⟨"*", 400, .yfx⟩,
  ⟨"**", 200, .xfx⟩, ⟨"^", 200, .xfy⟩, ⟨"/\\", 500, .yfx⟩, ⟨"\\/", 500, .yfx⟩,
  ⟨"div", 400, .yfx⟩, ⟨"//", 400, .yfx⟩, ⟨"rdiv", 400, .yfx⟩, ⟨"<<", 400, .yfx⟩,
  ⟨">>", 400, .yfx⟩, ⟨"mod", 400, .yfx⟩, ⟨"rem", 400, .yfx⟩, ⟨"+", 200, .fy⟩,
  ⟨"-", 200, .fy⟩, ⟨"\\", 200, .fy⟩, ⟨">", 700, .xfx⟩, ⟨"<", 700, .xfx⟩,
  ⟨"=\\=", 700, .xfx⟩, ⟨"=:=", 700, .xfx⟩, ⟨">=", 700, .xfx⟩, ⟨"=<", 700, .xfx⟩,
  ⟨"==", 700, .xfx⟩, ⟨"\\==", 700, .xfx⟩, ⟨"@=<", 700, .xfx⟩, ⟨"@>=", 700, .xfx⟩,
  ⟨"@<", 700, .xfx⟩, ⟨"@>", 700, .xfx⟩, ⟨"->", 1050, .xfy⟩, ⟨";", 1100, .xfy⟩,
  ⟨"=", 700, .xfx⟩, ⟨"=..", 700, .xfx⟩, ⟨"\\=", 700, .xfx⟩, ⟨"\\+", 900, .fy⟩,
  ⟨"-->", 1200, .xfx⟩]

/-! ## A specification-level reader for operator sentences (tie only, no theorems)

All ISO parses (6.3.4) of a sequence of name tokens without brackets: a name that is not an
operator is an atom of priority 0; a name that is an operator can only be used as an operator
(as an atom it would have priority 1201 and need brackets). Brute force over all splits. -/

inductive RTerm where
  | atom (a : String)
  | app1 (f : String) (x : RTerm)
  | app2 (f : String) (x y : RTerm)
  deriving DecidableEq, Repr, Inhabited

def isOp (t : Table) (n : String) : Bool :=
  (lookup t n .inf).isSome || (lookup t n .pre).isSome || (lookup t n .post).isSome

/-- maximal priorities of the arguments of an operator `(p, s)`: (left, right). -/
def argMax (p : Nat) : Spec → Nat × Nat
  | .xfx => (p - 1, p - 1) | .xfy => (p - 1, p) | .yfx => (p, p - 1)
  | .xf => (p - 1, 0) | .yf => (p, 0) | .fx => (0, p - 1) | .fy => (0, p)

/-- all `(term, priority)` readings of the whole token list. -/
def parses (t : Table) : Nat → List String → List (RTerm × Nat)
  | 0, _ => []
  | _, [] => []
  | _, [a] => if isOp t a then [] else [(.atom a, 0)]
  | fuel + 1, toks =>
    let n := toks.length
    let pre :=
      match toks with
      | f :: rest =>
        match lookup t f .pre with
        | some (p, s) =>
          (parses t fuel rest).filterMap fun (x, q) =>
            if q ≤ (argMax p s).2 then some (.app1 f x, p) else none
        | none => []
      | [] => []
    let post :=
      match toks.getLast?, lookup t (toks.getLast?.getD "") .post with
      | some f, some (p, s) =>
        (parses t fuel toks.dropLast).filterMap fun (x, q) =>
          if q ≤ (argMax p s).1 then some (.app1 f x, p) else none
      | _, _ => []
    let inf :=
      (List.range n).flatMap fun i =>
        if i = 0 ∨ i + 1 = n then [] else
        match toks[i]? with
        | none => []
        | some f =>
          match lookup t f .inf with
          | none => []
          | some (p, s) =>
            (parses t fuel (toks.take i)).flatMap fun (x, qx) =>
              if qx ≤ (argMax p s).1 then
                (parses t fuel (toks.drop (i + 1))).filterMap fun (y, qy) =>
                  if qy ≤ (argMax p s).2 then some (.app2 f x y, p) else none
              else []
    pre ++ post ++ inf

/-- the readings of a sentence at priority ≤ 1200, without duplicates. -/
def readSentence (t : Table) (toks : List String) : List RTerm :=
  ((parses t (toks.length + 1) toks).filterMap fun (x, q) =>
    if q ≤ 1200 then some x else none).eraseDups

end Scryer.OpTable
