/-!
# Walking a third-level `DynamicIndexedChoice` line  (property C06, finding C06-1)

`src/machine/dispatch.rs`, arm `IndexingLine::DynamicIndexedChoice` of the instruction loop, together
with `Machine::indexed_try` / `Machine::retry` / `Machine::trust` (`src/machine/mod.rs`):

* the line is a list of clause offsets (here: clause identifiers); retracted clauses stay listed and
  are skipped at run time by `find_living_dynamic(oip, iip)`, which returns the first position
  `≥ iip` whose clause is alive and stores it in `machine_st.iip`;
* first entry (`FirstOrNext::First`): run the clause at that position; if another living clause
  follows, `indexed_try` pushes a choice point with `biip = iip + 1`;
* on backtracking (`FirstOrNext::Next`) `iip` is restored from `biip`, `find_living_dynamic` moves it
  to the next living position `ii`; if another living clause follows, `retry` keeps the choice
  point and advances `biip`, else `trust` pops it.

`fixed = false` is `Machine::retry` as pinned (`or_frame.prelude.biip += iip_offset`: relative to
the stale `biip`), `fixed = true` the repaired one (`biip = machine_st.iip + iip_offset`).
Abstraction: `next_inner_applicable_clause` (a pre-filter on the clause's first instructions) is
taken to accept the next entry (`iip_offset = 1`), as it does whenever the entries of one line share
their key.
-/
namespace Scryer.Index

/-- `find_living_dynamic` on the entries from position `pos` on. -/
def findLivingFrom (alive : Nat → Bool) : List Nat → Nat → Option (Nat × Nat)
  | [], _ => none
  | c :: r, pos => if alive c then some (pos, c) else findLivingFrom alive r (pos + 1)

/-- `find_living_dynamic(oi, ii)`: position and clause of the first living entry at or after `ii`. -/
def findLiving (alive : Nat → Bool) (line : List Nat) (ii : Nat) : Option (Nat × Nat) :=
  findLivingFrom alive (line.drop ii) ii

/-- the backtracking loop: `biip` is the position saved in the choice point. Returns the clauses
run from here on. `fuel` bounds the number of backtracks. -/
def walkNext (fixed : Bool) (alive : Nat → Bool) (line : List Nat) : Nat → Nat → List Nat
  | 0, _ => []
  | fuel + 1, biip =>
    match findLiving alive line biip with
    | none => []
    | some (ii, c) =>
      match findLiving alive line (ii + 1) with
      | none => [c]                                                        -- trust
      | some _ => c :: walkNext fixed alive line fuel (if fixed then ii + 1 else biip + 1)  -- retry

/-- entering the line from `switch_on_constant/structure` (`iip = 0`). -/
def walk (fixed : Bool) (alive : Nat → Bool) (line : List Nat) (fuel : Nat) : List Nat :=
  match findLiving alive line 0 with
  | none => []
  | some (ii, c) =>
    match findLiving alive line (ii + 1) with
    | none => [c]
    | some _ => c :: walkNext fixed alive line fuel (ii + 1)               -- indexed_try

end Scryer.Index
