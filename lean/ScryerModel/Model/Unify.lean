import ScryerModel.Model.Term
/-
C10 — executable model of first-order unification on finite Prolog terms.

What is modelled.  `src/machine/unify.rs` (`Unifier::unify_internal`) pops pairs of cells
from the PDL stack, dereferences both sides and then either binds a variable
(`bind`, or `bind_with_occurs_check` when the `occurs_check` flag is `true`/`error` or the
goal is `unify_with_occurs_check/2`), pushes the argument pairs of two compounds with the
same name and arity (first argument on top: depth-first, left to right), compares two
constants, or fails.  The model keeps exactly this work-list discipline but works on
terms instead of heap cells:

* the store (heap bindings + `deref`) is replaced by *eager* substitution: when `x` is bound
  to `t`, `x ↦ t` is applied to the remaining work list and recorded in the accumulator.
  The accumulator is a *triangular* substitution (newest binding first), like the trail;
* the tabu list (pairs of compound cells already visited) is an optimisation for shared
  sub-structures and for rational trees; on finite terms it never changes the outcome and
  is not modelled;
* binding direction (`bind`: younger cell to older cell, non-variables win) is not
  modelled; the result is compared up to renaming of variables;
* `Outcome.cyclic` marks the point where the implementation's `bind_with_occurs_check`
  finds the variable inside the value.  With the flag `false` the implementation leaves
  the world of finite terms at this point (it creates a rational tree).

Numbers: an integer unifies with an integer of the same value whatever the representation
(fixnum / big integer), a float only with a float with the same bits, a rational only with
the same rational; strings are lists of one-character atoms (`Scryer.Term`).

Import-free (Lean core only).
-/
namespace Scryer
namespace Term

mutual
/-- variables of a term, with repetitions, left to right. -/
def vars : Term → List String
  | .var x => [x]
  | .str _ args => varsL args
  | .int _ => []
  | .rat _ _ => []
  | .flt _ => []
  | .atom _ => []
def varsL : List Term → List String
  | [] => []
  | t :: ts => vars t ++ varsL ts
end

mutual
/-- number of nodes. -/
def size : Term → Nat
  | .str _ args => 1 + sizeL args
  | .var _ => 1
  | .int _ => 1
  | .rat _ _ => 1
  | .flt _ => 1
  | .atom _ => 1
def sizeL : List Term → Nat
  | [] => 0
  | t :: ts => size t + sizeL ts
end

mutual
/-- simultaneous substitution of terms for variables. -/
def subst (f : String → Term) : Term → Term
  | .var x => f x
  | .str g args => .str g (substL f args)
  | .int v => .int v
  | .rat n d => .rat n d
  | .flt b => .flt b
  | .atom a => .atom a
def substL (f : String → Term) : List Term → List Term
  | [] => []
  | t :: ts => subst f t :: substL f ts
end

end Term

namespace Unify
open Term

/-- the elementary substitution `x ↦ u`. -/
def single (x : String) (u : Term) : String → Term :=
  fun y => if y = x then u else .var y

/-- `t[x ↦ u]`. -/
def subst1 (x : String) (u : Term) (t : Term) : Term := t.subst (single x u)

/-- work list of equations. -/
abbrev Eqs := List (Term × Term)

/-- triangular substitution: the LAST element is applied first, the head last
    (the head is the most recent binding). -/
abbrev Subst := List (String × Term)

def applyS : Subst → Term → Term
  | [], t => t
  | (x, u) :: σ, t => subst1 x u (applyS σ t)

/-- the substitution as a function on variables. -/
def Subst.toFun (σ : Subst) : String → Term := fun x => applyS σ (.var x)

/-- the variables bound by `σ`. -/
def Subst.dom (σ : Subst) : List String := σ.map Prod.fst

def substE (x : String) (u : Term) (eqs : Eqs) : Eqs :=
  eqs.map fun p => (subst1 x u p.1, subst1 x u p.2)

def varsE : Eqs → List String
  | [] => []
  | (s, t) :: r => s.vars ++ t.vars ++ varsE r

def sizeE : Eqs → Nat
  | [] => 0
  | (s, t) :: r => s.size + t.size + sizeE r

/-- equality of two constants (integers by value, floats by bits, rationals by
    numerator and denominator, atoms by name); `false` when one side is not a constant. -/
def constEq : Term → Term → Bool
  | .int a, .int b => decide (a = b)
  | .rat a b, .rat c d => decide (a = c) && decide (b = d)
  | .flt a, .flt b => decide (a = b)
  | .atom a, .atom b => decide (a = b)
  | _, _ => false

/-! ### counting distinct variables (termination measure) -/

def dedup : List String → List String
  | [] => []
  | a :: l => if a ∈ l then dedup l else a :: dedup l

/-- number of distinct elements. -/
def card (l : List String) : Nat := (dedup l).length

theorem mem_dedup {a : String} : ∀ {l : List String}, a ∈ dedup l ↔ a ∈ l
  | [] => by simp [dedup]
  | b :: l => by
      unfold dedup
      by_cases h : b ∈ l
      · simp only [h, if_true, List.mem_cons]
        rw [mem_dedup (l := l)]
        constructor
        · intro h'; exact Or.inr h'
        · rintro (rfl | h')
          · exact h
          · exact h'
      · simp only [h, if_false, List.mem_cons]
        rw [mem_dedup (l := l)]

theorem nodup_dedup : ∀ (l : List String), (dedup l).Nodup
  | [] => by simp [dedup]
  | b :: l => by
      unfold dedup
      by_cases h : b ∈ l
      · simp only [h, if_true]; exact nodup_dedup l
      · simp only [h, if_false, List.nodup_cons]
        exact ⟨fun h' => h (mem_dedup.mp h'), nodup_dedup l⟩

theorem length_le_of_nodup_subset : ∀ {l1 l2 : List String}, l1.Nodup →
    (∀ a ∈ l1, a ∈ l2) → l1.length ≤ l2.length
  | [], _, _, _ => by simp
  | a :: l1, l2, hn, hs => by
      rw [List.nodup_cons] at hn
      have ha : a ∈ l2 := hs a (List.mem_cons_self ..)
      have hs' : ∀ b ∈ l1, b ∈ l2.erase a := by
        intro b hb
        have hne : b ≠ a := fun e => hn.1 (e ▸ hb)
        exact (List.mem_erase_of_ne hne).mpr (hs b (List.mem_cons_of_mem _ hb))
      have ih := length_le_of_nodup_subset hn.2 hs'
      rw [List.length_erase_of_mem ha] at ih
      have : 0 < l2.length := List.length_pos_of_mem ha
      simp only [List.length_cons]
      omega

theorem card_le_of_subset {l1 l2 : List String} (h : ∀ a ∈ l1, a ∈ l2) : card l1 ≤ card l2 :=
  length_le_of_nodup_subset (nodup_dedup l1)
    (fun a ha => mem_dedup.mpr (h a (mem_dedup.mp ha)))

theorem card_lt_of_subset {l1 l2 : List String} {x : String} (h : ∀ a ∈ l1, a ∈ l2)
    (hx2 : x ∈ l2) (hx1 : x ∉ l1) : card l1 < card l2 := by
  have hn : (x :: dedup l1).Nodup :=
    List.nodup_cons.mpr ⟨fun h' => hx1 (mem_dedup.mp h'), nodup_dedup l1⟩
  have := length_le_of_nodup_subset (l2 := dedup l2) hn (by
    intro a ha
    rcases List.mem_cons.mp ha with rfl | ha
    · exact mem_dedup.mpr hx2
    · exact mem_dedup.mpr (h a (mem_dedup.mp ha)))
  simp only [List.length_cons] at this
  unfold card
  omega

/-! ### variables and sizes under substitution and decomposition -/

mutual
theorem mem_vars_subst (f : String → Term) : ∀ (t : Term) (y : String),
    y ∈ (t.subst f).vars → ∃ z, z ∈ t.vars ∧ y ∈ (f z).vars
  | .var x, y, h => ⟨x, by simp [Term.vars], by simpa [Term.subst] using h⟩
  | .str _ args, y, h => by
      simp only [Term.subst, Term.vars] at h ⊢
      exact mem_varsL_substL f args y h
  | .int _, y, h => by simp [Term.subst, Term.vars] at h
  | .rat _ _, y, h => by simp [Term.subst, Term.vars] at h
  | .flt _, y, h => by simp [Term.subst, Term.vars] at h
  | .atom _, y, h => by simp [Term.subst, Term.vars] at h
theorem mem_varsL_substL (f : String → Term) : ∀ (ts : List Term) (y : String),
    y ∈ varsL (substL f ts) → ∃ z, z ∈ varsL ts ∧ y ∈ (f z).vars
  | [], y, h => by simp [Term.substL, Term.varsL] at h
  | t :: ts, y, h => by
      simp only [Term.substL, Term.varsL, List.mem_append] at h ⊢
      rcases h with h | h
      · obtain ⟨z, hz, hy⟩ := mem_vars_subst f t y h
        exact ⟨z, Or.inl hz, hy⟩
      · obtain ⟨z, hz, hy⟩ := mem_varsL_substL f ts y h
        exact ⟨z, Or.inr hz, hy⟩
end

/-- variables of `t[x ↦ u]` are variables of `t` other than `x`, or variables of `u`. -/
theorem mem_vars_subst1 {x : String} {u t : Term} {y : String} (h : y ∈ (subst1 x u t).vars) :
    (y ∈ t.vars ∧ y ≠ x) ∨ y ∈ u.vars := by
  obtain ⟨z, hz, hy⟩ := mem_vars_subst (single x u) t y h
  unfold single at hy
  by_cases e : z = x
  · simp only [e, if_true] at hy; exact Or.inr hy
  · simp only [e, if_false, Term.vars, List.mem_singleton] at hy
    subst hy
    exact Or.inl ⟨hz, e⟩

theorem mem_varsE_substE {x : String} {u : Term} {y : String} : ∀ {eqs : Eqs},
    y ∈ varsE (substE x u eqs) → (y ∈ varsE eqs ∧ y ≠ x) ∨ y ∈ u.vars
  | [], h => by simp [substE, varsE] at h
  | (s, t) :: r, h => by
      simp only [substE, List.map_cons, varsE, List.mem_append] at h
      rcases h with (h | h) | h
      · rcases mem_vars_subst1 h with ⟨h1, h2⟩ | h1
        · exact Or.inl ⟨by simp [varsE, h1], h2⟩
        · exact Or.inr h1
      · rcases mem_vars_subst1 h with ⟨h1, h2⟩ | h1
        · exact Or.inl ⟨by simp [varsE, h1], h2⟩
        · exact Or.inr h1
      · rcases mem_varsE_substE (eqs := r) h with ⟨h1, h2⟩ | h1
        · exact Or.inl ⟨by simp [varsE, h1], h2⟩
        · exact Or.inr h1

theorem varsE_append (a b : Eqs) : varsE (a ++ b) = varsE a ++ varsE b := by
  induction a with
  | nil => simp [varsE]
  | cons p a ih => obtain ⟨s, t⟩ := p; simp [varsE, ih]

theorem sizeE_append (a b : Eqs) : sizeE (a ++ b) = sizeE a + sizeE b := by
  induction a with
  | nil => simp [sizeE]
  | cons p a ih => obtain ⟨s, t⟩ := p; simp [sizeE, ih]; omega

theorem mem_varsE_zip {y : String} : ∀ {as bs : List Term},
    y ∈ varsE (as.zip bs) → y ∈ varsL as ∨ y ∈ varsL bs
  | [], _, h => by simp [varsE] at h
  | _ :: _, [], h => by simp [varsE] at h
  | a :: as, b :: bs, h => by
      simp only [List.zip_cons_cons, varsE, List.mem_append, Term.varsL] at h ⊢
      rcases h with (h | h) | h
      · exact Or.inl (Or.inl h)
      · exact Or.inr (Or.inl h)
      · rcases mem_varsE_zip h with h | h
        · exact Or.inl (Or.inr h)
        · exact Or.inr (Or.inr h)

theorem sizeE_zip_le : ∀ (as bs : List Term), sizeE (as.zip bs) ≤ sizeL as + sizeL bs
  | [], _ => by simp [sizeE]
  | _ :: _, [] => by simp [sizeE]
  | a :: as, b :: bs => by
      have := sizeE_zip_le as bs
      simp only [List.zip_cons_cons, sizeE, Term.sizeL]
      omega

theorem size_pos : ∀ (t : Term), 0 < t.size
  | .var _ => by simp [Term.size]
  | .str _ _ => by simp [Term.size]; omega
  | .int _ => by simp [Term.size]
  | .rat _ _ => by simp [Term.size]
  | .flt _ => by simp [Term.size]
  | .atom _ => by simp [Term.size]

/-- lexicographic decrease: first component not larger, second smaller. -/
theorem lex_of_le_of_lt {a a' b b' : Nat} (h1 : a' ≤ a) (h2 : b' < b) :
    Prod.Lex (· < ·) (· < ·) (a', b') (a, b) := by
  rcases Nat.lt_or_eq_of_le h1 with h | h
  · exact Prod.Lex.left _ _ h
  · subst h; exact Prod.Lex.right _ h2

/-- dropping the first equation. -/
theorem measure_drop (s t : Term) (rest : Eqs) :
    Prod.Lex (· < ·) (· < ·) (card (varsE rest), sizeE rest)
      (card (varsE ((s, t) :: rest)), sizeE ((s, t) :: rest)) := by
  apply lex_of_le_of_lt
  · apply card_le_of_subset
    intro a ha
    simp [varsE, ha]
  · have := size_pos s
    simp only [sizeE]
    omega

/-- eliminating the variable `x` (which does not occur in `u`). -/
theorem measure_elim (x : String) (u s t : Term) (rest : Eqs) (hx : x ∉ u.vars)
    (hsub : ∀ a ∈ u.vars, a ∈ varsE ((s, t) :: rest)) (hmem : x ∈ varsE ((s, t) :: rest)) :
    Prod.Lex (· < ·) (· < ·) (card (varsE (substE x u rest)), sizeE (substE x u rest))
      (card (varsE ((s, t) :: rest)), sizeE ((s, t) :: rest)) := by
  apply Prod.Lex.left
  apply card_lt_of_subset (x := x)
  · intro a ha
    rcases mem_varsE_substE ha with ⟨h1, _⟩ | h1
    · simp [varsE, h1]
    · exact hsub a h1
  · exact hmem
  · intro h
    rcases mem_varsE_substE h with ⟨_, h2⟩ | h1
    · exact h2 rfl
    · exact hx h1

/-- decomposing two compounds. -/
theorem measure_decomp (f g : String) (as bs : List Term) (rest : Eqs) :
    Prod.Lex (· < ·) (· < ·)
      (card (varsE (as.zip bs ++ rest)), sizeE (as.zip bs ++ rest))
      (card (varsE ((Term.str f as, Term.str g bs) :: rest)),
        sizeE ((Term.str f as, Term.str g bs) :: rest)) := by
  apply lex_of_le_of_lt
  · apply card_le_of_subset
    intro a ha
    rw [varsE_append, List.mem_append] at ha
    simp only [varsE, Term.vars, List.mem_append]
    rcases ha with ha | ha
    · rcases mem_varsE_zip ha with h | h
      · exact Or.inl (Or.inl h)
      · exact Or.inl (Or.inr h)
    · exact Or.inr ha
  · have := sizeE_zip_le as bs
    rw [sizeE_append]
    simp only [sizeE, Term.size]
    omega

/-! ### the algorithm -/

/-- result of running the work list. -/
inductive Outcome where
  /-- all equations solved; the accumulated (triangular) substitution. -/
  | ok (σ : Subst)
  /-- two different constants / functors / arities, or constant against compound. -/
  | clash
  /-- a variable had to be bound to a compound term containing it
      (`bind_with_occurs_check` returns `true`). -/
  | cyclic
  deriving Repr, Inhabited

/-- Work-list unification.  `solve eqs acc`: `eqs` is the PDL (head = top of stack),
    `acc` the bindings made so far, already applied to `eqs`.  Terminates for every input:
    the measure is (number of distinct variables in the work list, size of the work list). -/
def solve : Eqs → Subst → Outcome
  | [], acc => .ok acc
  | (.var x, .var y) :: rest, acc =>
      if x = y then solve rest acc
      else solve (substE x (.var y) rest) ((x, .var y) :: acc)
  | (.var x, t) :: rest, acc =>
      -- t is a constant or a compound
      if x ∈ t.vars then .cyclic
      else solve (substE x t rest) ((x, t) :: acc)
  | (s, .var y) :: rest, acc =>
      -- s is a constant or a compound
      if y ∈ s.vars then .cyclic
      else solve (substE y s rest) ((y, s) :: acc)
  | (.str f as, .str g bs) :: rest, acc =>
      if f = g ∧ as.length = bs.length then solve (as.zip bs ++ rest) acc else .clash
  | (s, t) :: rest, acc =>
      if constEq s t then solve rest acc else .clash
termination_by eqs => (card (varsE eqs), sizeE eqs)
decreasing_by
  · exact measure_drop _ _ _
  · rename_i h
    exact measure_elim x (.var y) _ _ rest (by simpa [Term.vars] using h)
      (by intro a ha; simp [Term.vars] at ha; simp [varsE, Term.vars, ha])
      (by simp [varsE, Term.vars])
  · rename_i h
    exact measure_elim x t _ _ rest h
      (by intro a ha; simp [varsE, ha])
      (by simp [varsE, Term.vars])
  · rename_i h
    exact measure_elim y s _ _ rest h
      (by intro a ha; simp [varsE, ha])
      (by simp [varsE, Term.vars])
  · exact measure_decomp _ _ _ _ _
  · exact measure_drop _ _ _

/-- the work list run to the end: `some σ` when every equation was solved, `none` on a
    clash or a cyclic binding. -/
def unify (eqs : Eqs) (acc : Subst) : Option Subst :=
  match solve eqs acc with
  | .ok σ => some σ
  | _ => none

/-- `=/2` with the occurs check (flag `occurs_check = true`) and
    `unify_with_occurs_check/2`: failure on a clash and on a cyclic binding. -/
def unifyOC (t1 t2 : Term) : Option Subst := unify [(t1, t2)] []

/-- flag `occurs_check = error`: a cyclic binding raises
    `representation_error(term)` (`Except.error ()`), a clash fails (`ok none`). -/
def unifyErr (t1 t2 : Term) : Except Unit (Option Subst) :=
  match solve [(t1, t2)] [] with
  | .ok σ => .ok (some σ)
  | .clash => .ok none
  | .cyclic => .error ()

/-- flag `occurs_check = false`: `true` when the implementation would create a cyclic
    binding; from this point on it works with rational trees, which this model of finite
    terms does not describe.  When `false`, `=/2` behaves as `unifyOC`. -/
def leavesFiniteTerms (t1 t2 : Term) : Bool :=
  match solve [(t1, t2)] [] with
  | .cyclic => true
  | _ => false

end Unify
end Scryer
