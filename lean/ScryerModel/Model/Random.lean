/-
C52: library(random) — `random/1`, `random_integer/3`, `maybe/0`, `set_random/1`.

The model is the RANGE LOGIC as a pure function of an abstract stream of raw random words
(`Stream = Nat → UInt32`) and a read position.  Every consumer of the generator in the code
(`next_u32`, `next_u64`, `Standard: u128`, `Rng::fill(&mut [u64])`) reads the 32-bit output words
of `rand_core::block::BlockRng` sequentially, low half first, so position arithmetic on one word
stream mirrors all of them.

Mirrored, branch by branch:
* rand 0.8.6 `distributions/uniform.rs` `uniform_int_impl!`: `sample_single` →
  `sample_single_inclusive` (range computation with wrapping arithmetic, the `range == 0` escape,
  the conservative `zone = (range << range.leading_zeros()) - 1`, the widening multiply, the
  rejection loop) at the two widths used: u64/i64 and u128;
* dashu-int 0.4.2 `third_party/rand.rs`: `UniformIBig::new/sample`, `UBig::uniform`
  (`RefSmall` → u128 `gen_range`, `RefLarge` → `uniform_large`), `try_fill_uniform`;
* scryer `system_calls.rs::random_integer` (representation arms, `lower >= upper` → fail,
  unchecked fixnum rebuild / un-normalised arena integer), `maybe`, `set_seed`;
* `src/lib/random.pl`: the argument checks in the code's order, `random/1 = K / 2^50`.

Rejection loops get explicit fuel (`none` = fuel exhausted); nothing is proved about how much
fuel a stream needs (termination has probability 1, it is not a theorem).

The seed → stream function is a parameter of everything the theorems talk about.  The concrete one
(`seedStream`: PCG32 seed expansion of `SeedableRng::seed_from_u64` + the ChaCha12 block function of
`rand_chacha 0.3.1`, i.e. `StdRng`) is transcribed at the end for the driver only.
Import-free.
-/
namespace Scryer.Random

/-! ## the raw word stream -/

abbrev Stream := Nat → UInt32

def w32 (s : Stream) (p : Nat) : Nat := (s p).toNat

/-- `BlockRng::next_u32`. (value, next position) -/
def nextU32 (s : Stream) (p : Nat) : Nat × Nat := (w32 s p, p + 1)

/-- `BlockRng::next_u64`: two consecutive 32-bit words, low half first (also across a refill). -/
def nextU64 (s : Stream) (p : Nat) : Nat × Nat := (w32 s p + 2 ^ 32 * w32 s (p + 1), p + 2)

/-- `Standard: Distribution<u128>`: two `next_u64`, low half first. -/
def nextU128 (s : Stream) (p : Nat) : Nat × Nat :=
  ((nextU64 s p).1 + 2 ^ 64 * (nextU64 s (p + 2)).1, p + 4)

inductive Width where
  | w64 | w128
  deriving Repr, DecidableEq

def Width.bits : Width → Nat
  | .w64 => 64
  | .w128 => 128

/-- `rng.gen::<$u_large>()`. -/
def gen (w : Width) (s : Stream) (p : Nat) : Nat × Nat :=
  match w with
  | .w64 => nextU64 s p
  | .w128 => nextU128 s p

/-! ## rand `UniformInt::sample_single_inclusive` -/

/-- `range.leading_zeros()` for `0 < range < 2^bits`. -/
def leadingZeros (bits range : Nat) : Nat := bits - (Nat.log2 range + 1)

/-- `(range << range.leading_zeros()).wrapping_sub(1)` in `bits`-bit unsigned arithmetic. -/
def zone (w : Width) (range : Nat) : Nat :=
  ((range * 2 ^ leadingZeros w.bits range) % 2 ^ w.bits + (2 ^ w.bits - 1)) % 2 ^ w.bits

/-- the loop `loop { let v = rng.gen(); let (hi, lo) = v.wmul(range); if lo <= zone { return hi } }`.
    `none`: fuel exhausted. -/
def sampleLoop (w : Width) (s : Stream) (range zn : Nat) : Nat → Nat → Option (Nat × Nat)
  | 0, _ => none
  | fuel + 1, p =>
    if ((gen w s p).1 * range) % 2 ^ w.bits ≤ zn then
      some (((gen w s p).1 * range) / 2 ^ w.bits, (gen w s p).2)
    else sampleLoop w s range zn fuel (gen w s p).2

/-- `sample_single_inclusive` after `range = high.wrapping_sub(low).wrapping_add(1)` was computed
    (the argument is that `bits`-bit value): the unsigned offset `hi` that is added to `low`.
    `range = 0` is the full-width case (“any integer will do”). -/
def sampleOffset (w : Width) (s : Stream) (range fuel p : Nat) : Option (Nat × Nat) :=
  if range = 0 then some (gen w s p) else sampleLoop w s range (zone w range) fuel p

/-! ## the i64 arm (`gen_range(lower..upper)` on two fixnums) -/

/-- two's complement reduction into i64. -/
def wrapI64 (x : Int) : Int := (x + 9223372036854775808) % 18446744073709551616 - 9223372036854775808

/-- `as u64`. -/
def toU64 (x : Int) : Nat := (x % 18446744073709551616).toNat

/-- `Rng::gen_range(low..high)` for i64: `sample_single` → `sample_single_inclusive(low, high - 1)`;
    `range = (high-1).wrapping_sub(low).wrapping_add(1) as u64`; result `low.wrapping_add(hi as i64)`. -/
def genRangeI64 (s : Stream) (low high : Int) (fuel p : Nat) : Option (Int × Nat) :=
  match sampleOffset .w64 s (toU64 (wrapI64 (wrapI64 ((high - 1) - low) + 1))) fuel p with
  | none => none
  | some r => some (wrapI64 (low + wrapI64 (r.1 : Int)), r.2)

/-! ## dashu `UBig::uniform` -/

/-- number of 64-bit words of a positive `UBig`. -/
def numWords (r : Nat) : Nat := Nat.log2 r / 64 + 1

/-- word `i` (little endian) of `r`. -/
def word (r i : Nat) : Nat := r / 2 ^ (64 * i) % 2 ^ 64

/-- `rng.fill(&mut result[..k])`: `k` u64 words, least significant first; value of the filled part. -/
def fillWords (s : Stream) : Nat → Nat → Nat × Nat
  | 0, p => (0, p)
  | k + 1, p => ((nextU64 s p).1 + 2 ^ 64 * (fillWords s k (p + 2)).1, (fillWords s k (p + 2)).2)

/-- the `while result[i] == words[i]` loop of `try_fill_uniform` followed by the final `fill`.
    `ri = result[i]`, `acc` = value of `result[i..n]` (so `acc % 2^64 = ri`).
    `none` = `return false` (the attempt is rejected). -/
def tryDescend (s : Stream) (r : Nat) : Nat → Nat → Nat → Nat → Option Nat × Nat
  | 0, ri, acc, p =>
    if ri = word r 0 then (none, p) else (some acc, p)
  | i + 1, ri, acc, p =>
    if ri = word r (i + 1) then
      if (nextU64 s p).1 > word r i then (none, p + 2)
      else tryDescend s r i (nextU64 s p).1 (acc * 2 ^ 64 + (nextU64 s p).1) (p + 2)
    else (some (acc * 2 ^ (64 * (i + 1)) + (fillWords s (i + 1) p).1), (fillWords s (i + 1) p).2)

/-- one `try_fill_uniform(words, rng, buffer)`; outer `none`: fuel exhausted in the top-word
    `gen_range(0..=words[n-1])`. -/
def tryFill (s : Stream) (r fuel p : Nat) : Option (Option Nat × Nat) :=
  match sampleOffset .w64 s ((word r (numWords r - 1) + 1) % 2 ^ 64) fuel p with
  | none => none
  | some x => some (tryDescend s r (numWords r - 1) x.1 x.1 x.2)

/-- `UBig::uniform_large`: `while !try_fill_uniform(..) {}`. -/
def uniformLarge (s : Stream) (r fuel : Nat) : Nat → Nat → Option (Nat × Nat)
  | 0, _ => none
  | k + 1, p =>
    match tryFill s r fuel p with
    | none => none
    | some (some v, p') => some (v, p')
    | some (none, p') => uniformLarge s r fuel k p'

/-- `UBig::uniform(range, rng)`, `range > 0`: `RefSmall(dword)` (fits u128) →
    `rng.gen_range(0..dword)` = `sample_single_inclusive(0, dword - 1)`, whose `range` is
    `(dword - 1).wrapping_sub(0).wrapping_add(1)`; `RefLarge(words)` → `uniform_large`. -/
def uniformUBig (s : Stream) (r fuel p : Nat) : Option (Nat × Nat) :=
  if r < 2 ^ 128 then sampleOffset .w128 s (((r - 1) % 2 ^ 128 + 1) % 2 ^ 128) fuel p
  else uniformLarge s r fuel fuel p

/-! ## the system call `'$random_integer'/3` -/

/-- 56-bit fixnum range. -/
def isFix (n : Int) : Bool := decide (-36028797018963968 ≤ n) && decide (n < 36028797018963968)

/-- what the system call leaves in its third argument. `fix`: `Fixnum::build_with_unchecked`;
    `big`: `Number::arena_from(Integer)` (never renormalised, may hold a small value). -/
inductive Res where
  | fail
  | fix (v : Int)
  | big (v : Int)
  deriving Repr, DecidableEq

def Res.val? : Res → Option Int
  | .fail => none
  | .fix v => some v
  | .big v => some v

/-- `system_calls.rs::random_integer` for two integer arguments. `lbig` / `ubig`: the argument is an
    arena `Integer` (not a `Fixnum` cell). The arm is chosen by REPRESENTATION, not by value: an
    arena integer may hold a small value (the literal `-36028797018963968`, results of bignum
    arithmetic, an earlier bignum-arm result), and then the u128 sampler is used where two fixnums
    of the same values use the u64 sampler. The three arms with at least one arena integer are the
    same computation after `Integer::from(fixnum)`. -/
def sysRandomInteger (s : Stream) (l u : Int) (lbig ubig : Bool) (fuel p : Nat) : Option (Res × Nat) :=
  if !lbig && !ubig then
    if l ≥ u then some (.fail, p)
    else match genRangeI64 s l u fuel p with
      | none => none
      | some r => some (.fix r.1, r.2)
  else
    if l ≥ u then some (.fail, p)
    else match uniformUBig s (u - l).toNat fuel p with   -- UniformIBig::new: range = (high - low).unsigned_abs()
      | none => none
      | some r => some (.big ((r.1 : Int) + l), r.2)     -- IBig::from(uniform) + offset

/-- `'$maybe'`: `fail = rng.gen::<bool>()` = sign bit of `next_u32`. `true` = succeeds. -/
def sysMaybe (s : Stream) (p : Nat) : Bool × Nat := (decide (w32 s p < 2 ^ 31), p + 1)

/-! ## library(random) -/

/-- how an integer literal / a normalised integer is held: arena `Integer` iff outside the fixnum range. -/
def normalBig (n : Int) : Bool := !isFix n

/-- a Prolog argument as far as the library's checks can tell. `other` carries the term's text. -/
inductive Arg where
  | var
  | int (n : Int) (big : Bool)      -- an integer; `big`: held in an arena `Integer`
  | other (text : String)
  deriving Repr, DecidableEq

inductive Out where
  | fails
  | succeeds
  | int (v : Int)                       -- third argument bound to this integer
  | float (bits : Nat)                  -- bound to the double with these bits
  | instErr (ctx : String)              -- error(instantiation_error, ctx)
  | typeErrInt (culprit ctx : String)   -- error(type_error(integer, culprit), ctx)
  | panic                               -- the pinned set_seed on a seed outside u64
  deriving Repr, DecidableEq

/-- `random_integer(Lower, Upper, R)`. -/
def randomInteger (s : Stream) (L U R : Arg) (fuel p : Nat) : Option (Out × Nat) :=
  match R with
  | .int _ _ | .other _ => some (.fails, p)             -- var(R)
  | .var =>
    match L, U with
    | .var, _ => some (.instErr "random_integer/3", p)
    | _, .var => some (.instErr "random_integer/3", p)
    | .other t, _ => some (.typeErrInt t "random_integer/3", p)
    | .int _ _, .other t => some (.typeErrInt t "random_integer/3", p)
    | .int l lb, .int u ub =>
      if l < u then                                      -- Lower < Upper,
        match sysRandomInteger s l u lb ub fuel p with
        | none => none
        | some (.fail, p') => some (.fails, p')
        | some (.fix v, p') => some (.int v, p')
        | some (.big v, p') => some (.int v, p')
      else some (.fails, p)

/-- bits of the double `k / 2^50` for `k < 2^53` (the quotient is exact). -/
def ratioBits (k : Nat) : Nat :=
  if k = 0 then 0
  else (Nat.log2 k + 973) * 2 ^ 52 + (k * 2 ^ (52 - Nat.log2 k) - 2 ^ 52)

/-- `random(R) :- var(R), N is 2^50, '$random_integer'(0, N, K), R is K/N.` -/
def random (s : Stream) (R : Arg) (fuel p : Nat) : Option (Out × Nat) :=
  match R with
  | .int _ _ | .other _ => some (.fails, p)
  | .var =>
    match sysRandomInteger s 0 1125899906842624 false false fuel p with
    | none => none
    | some (.fail, p') => some (.fails, p')
    | some (.fix v, p') => some (.float (ratioBits v.toNat), p')
    | some (.big v, p') => some (.float (ratioBits v.toNat), p')

def maybe (s : Stream) (p : Nat) : Out × Nat :=
  if (sysMaybe s p).1 then (.succeeds, p + 1) else (.fails, p + 1)

/-- argument of `set_random/1`. -/
inductive SeedArg where
  | var                      -- set_random(_)
  | seedVar                  -- set_random(seed(_))
  | seedInt (n : Int)        -- set_random(seed(N))
  | seedOther (text : String)-- set_random(seed(foo))
  | other                    -- set_random(foo)
  deriving Repr, DecidableEq

/-- generator state: `none` = seeded from OS entropy (unknown stream); `some (seed, pos)`. -/
abbrev GenState := Option (Nat × Nat)

/-- `set_random/1` with the REPAIRED `'$set_seed'` (seed reduced modulo 2^64, finding C52-1). -/
def setRandom (a : SeedArg) (g : GenState) : Out × GenState :=
  match a with
  | .var => (.instErr "set_random/1", g)
  | .seedVar => (.instErr "set_random/1", g)
  | .seedInt n => (.succeeds, some (toU64 n, 0))
  | .seedOther t => (.typeErrInt t "set_random/1", g)
  | .other => (.fails, g)

/-- the pinned `'$set_seed'`: `try_into::<u64>().unwrap()` panics outside `0 .. 2^64`. -/
def setRandomPinned (a : SeedArg) (g : GenState) : Out × GenState :=
  match a with
  | .seedInt n => if 0 ≤ n ∧ n < 18446744073709551616 then (.succeeds, some (n.toNat, 0)) else (.panic, g)
  | a => setRandom a g

/-! ## call scripts -/

inductive Call where
  | setRandom (a : SeedArg)
  | randomInteger (L U R : Arg)
  | random (R : Arg)
  | maybe
  deriving Repr, DecidableEq

/-- one call on a seeded generator; `mk` is the (trusted) seed → stream function.
    `none`: fuel exhausted, or the generator is entropy-seeded (nothing to predict). -/
def step (mk : Nat → Stream) (fuel : Nat) (g : GenState) (c : Call) : Option (Out × GenState) :=
  match c, g with
  | .setRandom a, g => some (setRandom a g)
  | _, none => none
  | .randomInteger L U R, some (sd, p) =>
    (randomInteger (mk sd) L U R fuel p).map fun r => (r.1, some (sd, r.2))
  | .random R, some (sd, p) => (random (mk sd) R fuel p).map fun r => (r.1, some (sd, r.2))
  | .maybe, some (sd, p) => some ((maybe (mk sd) p).1, some (sd, (maybe (mk sd) p).2))

/-- a whole script; stops at the first call that cannot be predicted. -/
def runScript (mk : Nat → Stream) (fuel : Nat) : GenState → List Call → List Out × GenState
  | g, [] => ([], g)
  | g, c :: cs =>
    match step mk fuel g c with
    | none => ([], g)
    | some (o, g') => (o :: (runScript mk fuel g' cs).1, (runScript mk fuel g' cs).2)

/-! ## the concrete generator (driver only): `StdRng::seed_from_u64` = PCG32 expansion + ChaCha12 -/

def pcgNext (st : UInt64) : UInt64 := st * 6364136223846793005 + 11634580027462260723

def pcgOut (st : UInt64) : UInt32 :=
  let xorshifted : UInt32 := (((st >>> 18) ^^^ st) >>> 27).toUInt32
  let rot : UInt32 := (st >>> 59).toUInt32
  (xorshifted >>> rot) ||| (xorshifted <<< ((32 - rot) % 32))

/-- the 8 key words (`seed_from_u64`: the state is advanced before each output). -/
def seedKey (seed : UInt64) : Array UInt32 := Id.run do
  let mut st := seed
  let mut key : Array UInt32 := #[]
  for _ in [0:8] do
    st := pcgNext st
    key := key.push (pcgOut st)
  return key

def rotl (x : UInt32) (n : UInt32) : UInt32 := (x <<< n) ||| (x >>> (32 - n))

def quarter (st : Array UInt32) (a b c d : Nat) : Array UInt32 :=
  let xa := st[a]!; let xb := st[b]!; let xc := st[c]!; let xd := st[d]!
  let xa := xa + xb; let xd := rotl (xd ^^^ xa) 16
  let xc := xc + xd; let xb := rotl (xb ^^^ xc) 12
  let xa := xa + xb; let xd := rotl (xd ^^^ xa) 8
  let xc := xc + xd; let xb := rotl (xb ^^^ xc) 7
  (((st.set! a xa).set! b xb).set! c xc).set! d xd

def doubleRound (st : Array UInt32) : Array UInt32 :=
  let st := quarter st 0 4 8 12
  let st := quarter st 1 5 9 13
  let st := quarter st 2 6 10 14
  let st := quarter st 3 7 11 15
  let st := quarter st 0 5 10 15
  let st := quarter st 1 6 11 12
  let st := quarter st 2 7 8 13
  quarter st 3 4 9 14

/-- ChaCha12 block `ctr` (64-bit block counter in words 12/13, stream id 0). -/
def chachaBlock (key : Array UInt32) (ctr : Nat) : Array UInt32 :=
  let init : Array UInt32 :=
    #[0x61707865, 0x3320646e, 0x79622d32, 0x6b206574] ++ key ++
    #[(ctr % 2 ^ 32).toUInt32, (ctr / 2 ^ 32 % 2 ^ 32).toUInt32, 0, 0]
  let fin := (List.range 6).foldl (fun st _ => doubleRound st) init
  (Array.range 16).map fun i => fin[i]! + init[i]!

/-- the word stream of `StdRng::seed_from_u64(seed)`. -/
def seedStream (seed : Nat) : Stream :=
  fun i => (chachaBlock (seedKey seed.toUInt64) (i / 16))[i % 16]!

/-- the first `nblocks` blocks of the stream of a seed (a cache for the driver). -/
def streamCache (seed nblocks : Nat) : Array UInt32 :=
  let key := seedKey seed.toUInt64
  (List.range nblocks).foldl (fun a b => a ++ chachaBlock key b) #[]

/-- `seedStream seed` read through a precomputed prefix (same values). -/
def cachedStream (seed : Nat) (cache : Array UInt32) : Stream :=
  fun i => if i < cache.size then cache[i]! else seedStream seed i

end Scryer.Random
