/-
C28 — model of the embedding API `Machine::run_query` / `QueryState::next` / `Drop`
(`src/machine/lib_machine/mod.rs`).

The WAM search of one query is abstracted to its *script*: the events the search produces when
it is driven forward (an answer, leaving a choice point behind or not; an uncaught exception;
or exhaustion). What IS mirrored is the protocol around it: the stub choice point pushed by
`run_query`, the `called && b <= stub_b` test, reporting of a pending ball (and — since the
repair — clearing it), the eager `backtrack()` after each answer, `LeafAnswer::False` when the
search falls back to the stub, and `Drop` popping exactly one frame (`trust_me`).
Import-free.
-/
namespace Scryer.Embed

/-- what driving a query's search forward can produce. -/
inductive Ev where
  | ans (a : String) (more : Bool)   -- an answer; `more`: a choice point is left behind
  | exc (b : String)                 -- an uncaught ball
  deriving Repr, DecidableEq

/-- the search of a query: the events in order; after the last event the search fails. -/
abbrev Script := List Ev

inductive Frame where
  | stub
  | cp (rest : Script)               -- retrying it continues the search with `rest`
  deriving Repr, DecidableEq

structure Mach where
  stack : List Frame                 -- choice-point stack, top first
  ball : Option String               -- `machine_st.ball` (None = empty stub)
  deriving Repr, DecidableEq

def Mach.fresh : Mach := { stack := [], ball := none }

/-- where the dispatch loop will continue. -/
inductive Pc where
  | run (s : Script)                 -- forward execution of the remaining search
  | retry                            -- p = the alternative of the top choice point (after `backtrack()`)
  | atBreak                          -- p = BREAK_FROM_DISPATCH_LOOP_LOC
  deriving Repr, DecidableEq

structure QState where
  stubDepth : Nat                    -- stack height with the stub on top (`stub_b`)
  called : Bool
  pc : Pc
  deriving Repr, DecidableEq

inductive Item where
  | answer (a : String)
  | exception (b : String)
  | falseEnd                         -- LeafAnswer::False
  deriving Repr, DecidableEq

/-- `run_query`: push the stub choice point and point the machine at the goal. -/
def runQuery (m : Mach) (s : Script) : Mach × QState :=
  let m' := { m with stack := .stub :: m.stack }
  (m', { stubDepth := m'.stack.length, called := false, pc := .run s })

/-- `backtrack()`: point `p` at the alternative stored in the top choice point. The frame
    itself is only popped when that alternative executes its `trust`. -/
def backtrack (m : Mach) : Pc :=
  match m.stack with
  | .cp _ :: _ => .retry
  | _ => .atBreak                          -- the stub: bp = BREAK_FROM_DISPATCH_LOOP_LOC

/-- unwinding to the stub on an uncaught exception (`b := block`). -/
def unwindTo (depth : Nat) (stack : List Frame) : List Frame :=
  stack.drop (stack.length - depth)

inductive Stop where
  | success (a : String)
  | broke                                  -- fell back to the stub / exception unwound
  deriving Repr, DecidableEq

/-- `dispatch_loop`: drive the search until an answer or the break location
    (fuel: every retry consumes a choice point or an event). -/
def dispatch : Nat → QState → Mach → Pc → Mach × Stop
  | 0, _, m, _ => (m, .broke)
  | _, _, m, .atBreak => (m, .broke)
  | fuel+1, q, m, .retry =>
    match m.stack with
    | .cp rest :: below => dispatch fuel q { m with stack := below } (.run rest)
    | _ => (m, .broke)
  | fuel+1, q, m, .run s =>
    match s with
    | .ans a more :: rest =>
        (if more then { m with stack := .cp rest :: m.stack } else m, .success a)
    | .exc b :: _ =>
        ({ stack := unwindTo q.stubDepth m.stack, ball := some b }, .broke)
    | [] => dispatch fuel q m (backtrack m)

def fuelFor (m : Mach) (pc : Pc) : Nat :=
  let scriptLen : Pc → Nat | .run s => s.length | _ => 0
  2 * ((m.stack.map fun | .stub => 1 | .cp r => r.length + 2).foldl (· + ·) 0 + scriptLen pc + 2)

/-- `QueryState::next` (repaired: the delivered ball is cleared; `clearBall := false` gives
    the code as it was). -/
def next (clearBall : Bool) (q : QState) (m : Mach) : Option Item × QState × Mach :=
  if q.called && decide (m.stack.length ≤ q.stubDepth) then (none, q, m)
  else
    let (m1, stop) := dispatch (fuelFor m q.pc) q m q.pc
    let q1 := { q with called := true }
    match m1.ball with
    | some b =>
        (some (.exception b), { q1 with pc := .atBreak },
         if clearBall then { m1 with ball := none } else m1)
    | none =>
      match stop with
      | .success a =>
          (some (.answer a), { q1 with pc := backtrack m1 }, m1)
      | .broke => (some .falseEnd, { q1 with pc := .atBreak }, m1)

/-- `Drop for QueryState`: `trust_me` pops one frame. -/
def drop (m : Mach) : Mach := { m with stack := m.stack.drop 1 }

/-- consume up to `k` items, then drop the iterator. -/
def consume (clearBall : Bool) : Nat → QState → Mach → List Item → List Item × Mach
  | 0, _, m, acc => (acc.reverse, drop m)
  | k+1, q, m, acc =>
    match next clearBall q m with
    | (none, _, m') => (acc.reverse, drop m')
    | (some it, q', m') => consume clearBall k q' m' (it :: acc)

def runOne (clearBall : Bool) (m : Mach) (s : Script) (k : Nat) : List Item × Mach :=
  let (m', q) := runQuery m s
  consume clearBall k q m' []

/-- a history of queries, each consumed to a prefix of `k` items. -/
def runHistory (clearBall : Bool) : Mach → List (Script × Nat) → List (List Item)
  | _, [] => []
  | m, (s, k) :: rest =>
    let (items, m') := runOne clearBall m s k
    items :: runHistory clearBall m' rest

/-! ### specification -/

/-- the observable stream of a query on its own. -/
def stream : Script → List Item
  | [] => [.falseEnd]
  | .exc b :: _ => [.exception b]
  | [.ans a false] => [.answer a]            -- deterministic exit: iteration simply ends
  | .ans a _ :: rest => .answer a :: stream rest

/-- scripts the WAM can produce: an answer that leaves no choice point is the last event. -/
def wfScript : Script → Bool
  | [] => true
  | .exc _ :: _ => true
  | .ans _ false :: rest => rest.isEmpty
  | .ans _ true :: rest => wfScript rest

def specHistory (h : List (Script × Nat)) : List (List Item) :=
  h.map fun (s, k) => (stream s).take k

end Scryer.Embed
