/-
C28 — model of the embedding API `Machine::run_query` / `QueryState::next` / `Drop`
(`src/machine/lib_machine/mod.rs`).

What is mirrored: the protocol around the WAM search of a query —
  * `run_query` pushes the stub choice point (`allocate_stub_choice_point`, its alternative is
    `BREAK_FROM_DISPATCH_LOOP_LOC`) and points `p` at the goal;
  * `QueryState::next`: the `called && b <= stub_b` test, `dispatch_loop`, reporting a pending ball
    (and — since repair 21076e6 — clearing it), `LeafAnswer::False` when the search fell back to the
    stub, the eager `backtrack()` after each answer;
  * `Drop`: (since repair a78529e) `if b > stub_b { b = stub_b }`, then `trust_me` pops one frame;
  * the choice-point stack shared by all queries of a history, the ball, and the clause database.
What is abstracted: the search itself. A query is an or-tree `Search δ` over a database type `δ`:
the instructions that matter for the protocol are "push a choice point" (`try_`), "fail" (backtrack
into the top choice point), "succeed with answer a", "throw b uncaught" and "update the database".
Bindings are carried as the rendered answer text. Heap, trail and registers are not modelled.
Import-free.
-/
namespace Scryer.Embed

/-- the or-tree of a query's search over a database of type `δ`. -/
inductive Search (δ : Type) where
  | fail                                  -- this branch has no (more) solutions: backtrack
  | ans (a : String)                      -- the continuation reaches LIB_QUERY_SUCCESS with answer `a`
  | exc (b : String)                      -- `throw(b)` that nothing in the query catches
  | try_ (first alt : Search δ)           -- push a choice point whose alternative is `alt`, run `first`
  | eff (f : δ → δ) (k : Search δ)        -- update the database (assertz/retract…), continue with `k`

namespace Search
def size {δ : Type} : Search δ → Nat
  | fail => 1
  | ans _ => 1
  | exc _ => 1
  | try_ x y => 1 + x.size + y.size
  | eff _ k => 1 + k.size

theorem size_pos {δ : Type} (s : Search δ) : 0 < s.size := by
  cases s <;> simp [size] <;> omega
end Search

/-- total size of a work list of searches (termination measure). -/
def wsize {δ : Type} : List (Search δ) → Nat
  | [] => 0
  | s :: w => s.size + wsize w

inductive Frame (δ : Type) where
  | stub                                  -- the frame pushed by `run_query` (bp = BREAK_FROM_DISPATCH_LOOP_LOC)
  | cp (alt : Search δ)                   -- an ordinary choice point; retrying it runs `alt`

/-- the part of `Machine` the protocol depends on. -/
structure Mach (δ : Type) where
  stack : List (Frame δ)                  -- or-stack, top first (`machine_st.b` = its height)
  ball : Option String                    -- `machine_st.ball` (`none` = `ball.stub.is_empty()`)
  db : δ                                  -- clause database

/-- a machine that has run no query yet. -/
def Mach.fresh {δ : Type} (d : δ) : Mach δ := { stack := [], ball := none, db := d }

/-- the value of `machine_st.p` between two `dispatch_loop` calls. -/
inductive Pc (δ : Type) where
  | run (s : Search δ)                    -- at the goal (set by `run_query`)
  | retry                                 -- at the alternative of the top choice point (after `backtrack()`)
  | atBreak                               -- BREAK_FROM_DISPATCH_LOOP_LOC

/-- `QueryState` (the iterator). `p` is kept here: `run_query` writes it before it is ever read. -/
structure QState (δ : Type) where
  stubDepth : Nat                         -- `stub_b`: stack height with this query's stub on top
  called : Bool
  pc : Pc δ

/-- what `next` hands to the caller. -/
inductive Item where
  | answer (a : String)                   -- LeafAnswer::True / LeafAnswer::LeafAnswer{bindings}
  | exception (b : String)                -- LeafAnswer::Exception(t) / Err(t)
  | falseEnd                              -- LeafAnswer::False
  deriving Repr, DecidableEq

/-- the two repairs as switches; `repaired` is the code at /repo HEAD. -/
structure Cfg where
  clearBall : Bool                        -- 21076e6: `ball.reset()` once the exception has been delivered
  discardOnDrop : Bool                    -- a78529e: `if b > stub_b { b = stub_b }` before `trust_me`

def Cfg.repaired : Cfg := { clearBall := true, discardOnDrop := true }

/-- `run_query`: push the stub choice point and point the machine at the goal. -/
def runQuery {δ : Type} (m : Mach δ) (s : Search δ) : Mach δ × QState δ :=
  let m' := { m with stack := .stub :: m.stack }
  (m', { stubDepth := m'.stack.length, called := false, pc := .run s })

/-- `backtrack()`: point `p` at the alternative stored in the top choice point. The frame itself is
    only popped when that alternative executes its `trust_me`/`retry_me_else`. -/
def backtrack {δ : Type} (m : Mach δ) : Pc δ :=
  match m.stack with
  | .cp _ :: _ => .retry
  | _ => .atBreak                          -- the stub: bp = BREAK_FROM_DISPATCH_LOOP_LOC

/-- keep the lowest `depth` frames (`b := block` on an uncaught throw; `b = stub_b` in `drop`). -/
def unwindTo {δ : Type} (depth : Nat) (stack : List (Frame δ)) : List (Frame δ) :=
  stack.drop (stack.length - depth)

inductive Stop where
  | success (a : String)                   -- p = LIB_QUERY_SUCCESS
  | broke                                  -- p = BREAK_FROM_DISPATCH_LOOP_LOC
  deriving Repr, DecidableEq

def ssize {δ : Type} : List (Frame δ) → Nat
  | [] => 0
  | .stub :: r => ssize r
  | .cp a :: r => a.size + ssize r

/-- forward execution of `s` on the stack `st` (top first) with database `d`, until the dispatch loop
    stops: an answer, or the break location (fell back to a stub, or an uncaught ball unwound to
    `stubDepth`). Returns the stack, the ball raised (if any), the database and the stop reason. -/
def exec {δ : Type} (stubDepth : Nat) :
    Search δ → List (Frame δ) → δ → List (Frame δ) × Option String × δ × Stop
  | .ans a, st, d => (st, none, d, .success a)
  | .exc b, st, d => (unwindTo stubDepth st, some b, d, .broke)
  | .eff f k, st, d => exec stubDepth k st (f d)
  | .try_ x y, st, d => exec stubDepth x (.cp y :: st) d
  | .fail, .cp alt :: below, d => exec stubDepth alt below d
  | .fail, st, d => (st, none, d, .broke)
termination_by s st => s.size + ssize st
decreasing_by
  all_goals simp [Search.size, ssize]
  all_goals omega

/-- `dispatch_loop` entered with the `p` recorded in the iterator. -/
def dispatch {δ : Type} (q : QState δ) (m : Mach δ) : Mach δ × Stop :=
  let fin := fun (r : List (Frame δ) × Option String × δ × Stop) =>
    (({ stack := r.1, ball := match r.2.1 with | some b => some b | none => m.ball, db := r.2.2.1 } : Mach δ),
     r.2.2.2)
  match q.pc with
  | .atBreak => (m, .broke)
  | .run s => fin (exec q.stubDepth s m.stack m.db)
  | .retry =>
    match m.stack with
    | .cp alt :: below => fin (exec q.stubDepth alt below m.db)
    | _ => (m, .broke)

/-- `QueryState::next`. -/
def next {δ : Type} (cfg : Cfg) (q : QState δ) (m : Mach δ) : Option Item × QState δ × Mach δ :=
  if q.called && decide (m.stack.length ≤ q.stubDepth) then (none, q, m)
  else
    let (m1, stop) := dispatch q m
    let q1 := { q with called := true }
    match m1.ball with
    | some b =>
        (some (.exception b), { q1 with pc := .atBreak },
         if cfg.clearBall then { m1 with ball := none } else m1)
    | none =>
      match stop with
      | .success a => (some (.answer a), { q1 with pc := backtrack m1 }, m1)
      | .broke => (some .falseEnd, { q1 with pc := .atBreak }, m1)

/-- `Drop for QueryState`. -/
def drop {δ : Type} (cfg : Cfg) (q : QState δ) (m : Mach δ) : Mach δ :=
  let st := if cfg.discardOnDrop && decide (m.stack.length > q.stubDepth)
            then unwindTo q.stubDepth m.stack else m.stack
  { m with stack := st.drop 1 }            -- `trust_me` pops the top frame

/-- the embedding program `for ans in qs.take(k)`: ask for up to `k` items, then drop the iterator
    (asking stops at the first `None`). Returns the items delivered and the machine after `drop`. -/
def consume {δ : Type} (cfg : Cfg) : Nat → QState δ → Mach δ → List Item × Mach δ
  | 0, q, m => ([], drop cfg q m)
  | k+1, q, m =>
    match next cfg q m with
    | (none, q', m') => ([], drop cfg q' m')
    | (some it, q', m') =>
      let r := consume cfg k q' m'
      (it :: r.1, r.2)

/-- `n` successive calls of `next` without dropping: what each returned, and the final state. -/
def pull {δ : Type} (cfg : Cfg) : Nat → QState δ → Mach δ → List (Option Item) × QState δ × Mach δ
  | 0, q, m => ([], q, m)
  | n+1, q, m =>
    match next cfg q m with
    | (it, q', m') =>
      let r := pull cfg n q' m'
      (it :: r.1, r.2)

/-- a query as the embedding sees it: the goal text denotes a search that depends on the database
    it is started in. -/
abbrev Query (δ : Type) := δ → Search δ

def runOne {δ : Type} (cfg : Cfg) (m : Mach δ) (g : Query δ) (k : Nat) : List Item × Mach δ :=
  let (m', q) := runQuery m (g m.db)
  consume cfg k q m'

/-- a history: queries, each consumed to at most `k` items and then dropped. -/
def runHistory {δ : Type} (cfg : Cfg) : Mach δ → List (Query δ × Nat) → List (List Item) × Mach δ
  | m, [] => ([], m)
  | m, (g, k) :: rest =>
    let (items, m') := runOne cfg m g k
    let r := runHistory cfg m' rest
    (items :: r.1, r.2)

/-- the same history where every query runs on a machine of its own, created fresh with the
    database the previous (isolated) query left. -/
def isoHistory {δ : Type} : δ → List (Query δ × Nat) → List (List Item)
  | _, [] => []
  | d, (g, k) :: rest =>
    let r := runOne .repaired (Mach.fresh d) g k
    r.1 :: isoHistory r.2.db rest

/-! ### specification: the query on its own -/

/-- the linear course of a depth-first search. -/
inductive Script (δ : Type) where
  | fail (d : δ)                          -- exhausted; database afterwards
  | exc (b : String) (d : δ)              -- uncaught ball
  | last (a : String) (d : δ)             -- an answer that leaves no choice point
  | more (a : String) (d : δ) (rest : Script δ)   -- an answer with alternatives left

/-- depth-first, left-to-right traversal of a work list (head = running, tail = pending
    alternatives, innermost first) started with database `d`. -/
def go {δ : Type} : List (Search δ) → δ → Script δ
  | [], d => .fail d
  | .fail :: w, d => go w d
  | .exc b :: _, d => .exc b d
  | .eff f k :: w, d => go (k :: w) (f d)
  | .try_ x y :: w, d => go (x :: y :: w) d
  | .ans a :: [], d => .last a d
  | .ans a :: s :: w, d => .more a d (go (s :: w) d)
termination_by w => wsize w
decreasing_by
  all_goals simp [wsize, Search.size]
  all_goals omega

/-- the items a caller sees when it asks until `None`. -/
def Script.stream {δ : Type} : Script δ → List Item
  | .fail _ => [.falseEnd]
  | .exc b _ => [.exception b]
  | .last a _ => [.answer a]
  | .more a _ r => .answer a :: r.stream

/-- the database after `k` items have been asked for (`d0`: before the query). -/
def Script.dbAt {δ : Type} : Script δ → Nat → δ → δ
  | _, 0, d0 => d0
  | .fail d, _+1, _ => d
  | .exc _ d, _+1, _ => d
  | .last _ d, _+1, _ => d
  | .more _ d r, k+1, _ => r.dbAt k d

/-- the answers proper. -/
def Script.answers {δ : Type} : Script δ → List String
  | .fail _ => []
  | .exc _ _ => []
  | .last a _ => [a]
  | .more a _ r => a :: r.answers

/-- how the stream ends after the answers. -/
def Script.ending {δ : Type} : Script δ → List Item
  | .fail _ => [.falseEnd]
  | .exc b _ => [.exception b]
  | .last _ _ => []
  | .more _ _ r => r.ending

/-- the meaning of query `g` started in database `d`. -/
def meaning {δ : Type} (g : Query δ) (d : δ) : Script δ := go [g d] d

/-- specification of a history: every query is judged on its own, from the database its
    predecessors left. -/
def specHistory {δ : Type} : δ → List (Query δ × Nat) → List (List Item) × δ
  | d, [] => ([], d)
  | d, (g, k) :: rest =>
    let sc := meaning g d
    let r := specHistory (sc.dbAt k d) rest
    (sc.stream.take k :: r.1, r.2)

/-! ### a concrete query vocabulary over a database of `f/1` integer facts (used by the driver) -/

abbrev Db := List Int

/-- clause alternatives: try / retry / trust — the last alternative runs with no choice point. -/
def alts {δ : Type} : List (Search δ) → Search δ
  | [] => .fail
  | [x] => x
  | x :: xs => .try_ x (alts xs)

def showInt (i : Int) : String := toString i

def showList (l : List Int) : String := "[" ++ ",".intercalate (l.map showInt) ++ "]"

/-- how a scripted (database-independent) query ends. -/
inductive PEnd where
  | det                                   -- last answer leaves no choice point
  | fails                                 -- falls back to the stub
  | throws (b : String)

/-- query templates; the Prolog text of each is produced by `vlib/props/C28.py::render`. -/
inductive Tpl where
  | pure (answers : List String) (e : PEnd)   -- scripted from the query's run on a fresh machine
  | enum                                  -- f(X).
  | addz (n : Int)                        -- assertz(f(n)).
  | adda (n : Int)                        -- asserta(f(n)).
  | retr                                  -- retract(f(X)).
  | retrGt (n : Int)                      -- retract(f(X)), X > n.
  | enumAdd (d : Int)                     -- f(X), Y is X+d, assertz(f(Y)).
  | enumAddLt (d n : Int)                 -- f(X), Y is X+d, assertz(f(Y)), X < n.
  | enumThrow (n : Int)                   -- f(X), ( X >= n -> throw(hit(X)) ; true ).
  | addThrow (n : Int)                    -- assertz(f(n)), throw(oops(n)).
  | enumOrThrow                           -- ( f(X) ; throw(late) ).
  | membAdd (xs : List Int)               -- member(X, xs), assertz(f(X)).
  | pairs (xs ys : List Int)              -- member(X, xs), member(Y, ys).
  | pairsAdd (xs ys : List Int)           -- member(X, xs), member(Y, ys), Z is X*10+Y, assertz(f(Z)).
  | snap                                  -- findall(X, f(X), L).
  | clear                                 -- retractall(f(_)).
  | has (n : Int)                         -- ( f(n) -> R = yes ; R = no ).
  | retrThrow (n : Int)                   -- retract(f(X)), X >= n, throw(got(X)).

def bX (v : Int) : String := "{X=" ++ showInt v ++ "}"
def bXY (x y : Int) : String := "{X=" ++ showInt x ++ ",Y=" ++ showInt y ++ "}"

def pureTree : List String → PEnd → Search Db
  | [], .det => .fail                      -- (not produced: a query without answers falls to the stub)
  | [], .fails => .fail
  | [], .throws b => .exc b
  | [a], .det => .ans a
  | a :: r, e => .try_ (.ans a) (pureTree r e)

def Tpl.sem : Tpl → Query Db
  | .pure as e, _ => pureTree as e
  | .enum, db => alts (db.map fun v => .ans (bX v))
  | .addz n, _ => .eff (· ++ [n]) (.ans "true")
  | .adda n, _ => .eff (n :: ·) (.ans "true")
  | .retr, db => alts (db.map fun v => .eff (·.drop 1) (.ans (bX v)))
  | .retrGt n, db => alts (db.map fun v => .eff (·.drop 1) (if v > n then .ans (bX v) else .fail))
  | .enumAdd d, db => alts (db.map fun v => .eff (· ++ [v + d]) (.ans (bXY v (v + d))))
  | .enumAddLt d n, db =>
      alts (db.map fun v => .eff (· ++ [v + d]) (if v < n then .ans (bXY v (v + d)) else .fail))
  | .enumThrow n, db =>
      alts (db.map fun v => if v ≥ n then .exc ("exception('hit'(" ++ showInt v ++ "))") else .ans (bX v))
  | .addThrow n, _ => .eff (· ++ [n]) (.exc ("exception('oops'(" ++ showInt n ++ "))"))
  | .enumOrThrow, db => .try_ (alts (db.map fun v => .ans (bX v))) (.exc "exception('late')")
  | .membAdd xs, _ => alts (xs.map fun v => .eff (· ++ [v]) (.ans (bX v)))
  | .pairs xs ys, _ => alts (xs.map fun x => alts (ys.map fun y => .ans (bXY x y)))
  | .pairsAdd xs ys, _ =>
      alts (xs.map fun x => alts (ys.map fun y =>
        .eff (· ++ [x * 10 + y])
          (.ans ("{X=" ++ showInt x ++ ",Y=" ++ showInt y ++ ",Z=" ++ showInt (x * 10 + y) ++ "}"))))
  | .snap, db => .ans ("{L=" ++ showList db ++ "}")
  | .clear, _ => .eff (fun _ => []) (.ans "{}")      -- the `_` makes it a bindings answer, empty
  | .has n, db => .ans (if db.contains n then "{R='yes'}" else "{R='no'}")
  | .retrThrow n, db =>
      alts (db.map fun v => .eff (·.drop 1)
        (if v ≥ n then .exc ("exception('got'(" ++ showInt v ++ "))") else .fail))

def showItem : Item → String
  | .answer a => a
  | .exception b => b
  | .falseEnd => "false"

end Scryer.Embed
