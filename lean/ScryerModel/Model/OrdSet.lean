/-
C14 — library(ordsets) (src/lib/ordsets.pl, which contains the "osets" predicates), transcribed
clause by clause as functions over an arbitrary three-way comparison `cmp` (the implementation
uses `compare/3`, i.e. the standard order of terms).

Transcription conventions: a Prolog predicate with one output becomes a function; a predicate that
can fail returns `Bool`/`Option`. Where two predicates call each other with the roles of the two
lists swapped (`union2(T1,H2,T2)` …) the recursion is kept exactly; `oset_union/oset_int/
oset_diff/ord_symdiff(3)/ord_union(4)/ord_intersection(4)` entry clauses are inlined at their
recursive call sites (`matchCons`), so that each group is one structurally simple function.
Import-free.
-/
namespace Scryer.OrdSet

variable {α : Type}

/-- `is_ordset2/is_ordset3`: every element `@>` its predecessor. -/
def isOrdset3 (cmp : α → α → Ordering) : List α → α → Bool
  | [], _ => true
  | h2 :: t, h => cmp h2 h == .gt && isOrdset3 cmp t h2

def isOrdset (cmp : α → α → Ordering) : List α → Bool
  | [] => true
  | h :: t => isOrdset3 cmp t h

/-! ### oset_union / union2 / union3 -/

/-- `union2(L2, H1, T1, Union)`. -/
def union2 (cmp : α → α → Ordering) : List α → α → List α → List α
  | [], h1, t1 => h1 :: t1
  | h2 :: t2, h1, t1 =>
    match cmp h1 h2 with
    | .lt => h1 :: union2 cmp t1 h2 t2
    | .eq => h1 :: (match t1 with            -- oset_union(T1, T2, Union)
                    | [] => t2
                    | h :: t => union2 cmp t2 h t)
    | .gt => h2 :: union2 cmp t2 h1 t1
termination_by l2 _ t1 => l2.length + t1.length

/-- `oset_union(Set1, Set2, Union)` = `ord_union/3`. -/
def ordUnion (cmp : α → α → Ordering) : List α → List α → List α
  | [], u => u
  | h1 :: t1, l2 => union2 cmp l2 h1 t1

/-! ### oset_int / isect2 / isect3 -/

/-- `isect2(L2, H1, T1, Int)`. -/
def isect2 (cmp : α → α → Ordering) : List α → α → List α → List α
  | [], _, _ => []
  | h2 :: t2, h1, t1 =>
    match cmp h1 h2 with
    | .lt => isect2 cmp t1 h2 t2              -- isect2(T1, H2, T2, Int)
    | .eq => h1 :: (match t1 with             -- oset_int(T1, T2, Int)
                    | [] => []
                    | h :: t => isect2 cmp t2 h t)
    | .gt => isect2 cmp t2 h1 t1
termination_by l2 _ t1 => l2.length + t1.length

/-- `oset_int(Set1, Set2, Int)` = `ord_intersection/3` with an unbound third argument. -/
def ordInt (cmp : α → α → Ordering) : List α → List α → List α
  | [], _ => []
  | h1 :: t1, l2 => isect2 cmp l2 h1 t1

/-! ### oset_diff / diff21 / diff12 / diff3 -/

/-- `diff21(L2, H1, T1, Diff)` when `flip = false` (the result collects from the list given as
    `H1,T1`), `diff12(L1, H2, T2, Diff)` when `flip = true` (the result collects from the FIRST
    argument). `diff3` is inlined. -/
def diffAux (cmp : α → α → Ordering) : Bool → List α → α → List α → List α
  -- diff21([], H1, T1, [H1|T1]).
  | false, [], h1, t1 => h1 :: t1
  -- diff21([H2|T2], H1, T1, Diff) :- compare(Order, H1, H2), diff3(Order, H1, T1, H2, T2, Diff).
  | false, h2 :: t2, h1, t1 =>
    match cmp h1 h2 with
    | .lt => h1 :: diffAux cmp true t1 h2 t2          -- diff12(T1, H2, T2, Diff)
    | .eq => (match t1 with                            -- oset_diff(T1, T2, Diff)
              | [] => []
              | h :: t => diffAux cmp false t2 h t)
    | .gt => diffAux cmp false t2 h1 t1                -- diff21(T2, H1, T1, Diff)
  -- diff12([], _H2, _T2, []).
  | true, [], _, _ => []
  -- diff12([H1|T1], H2, T2, Diff) :- compare(Order, H1, H2), diff3(Order, H1, T1, H2, T2, Diff).
  | true, h1 :: t1, h2, t2 =>
    match cmp h1 h2 with
    | .lt => h1 :: diffAux cmp true t1 h2 t2
    | .eq => (match t1 with
              | [] => []
              | h :: t => diffAux cmp false t2 h t)
    | .gt => diffAux cmp false t2 h1 t1
termination_by _ l _ t => l.length + t.length

/-- `oset_diff(InOSet, NotInOSet, Diff)` = `ord_subtract/3`. -/
def ordSubtract (cmp : α → α → Ordering) : List α → List α → List α
  | [], _ => []
  | h1 :: t1, l2 => diffAux cmp false l2 h1 t1

/-! ### oset_addel / oset_delel -/

def addel (cmp : α → α → Ordering) : List α → α → List α
  | [], el => [el]
  | h :: t, el =>
    match cmp h el with
    | .lt => h :: addel cmp t el
    | .eq => h :: t
    | .gt => el :: h :: t

def delel (cmp : α → α → Ordering) : List α → α → List α
  | [], _ => []
  | h :: t, el =>
    match cmp h el with
    | .lt => h :: delel cmp t el
    | .eq => t
    | .gt => h :: t

/-! ### ord_memberchk (4-way unrolled search) -/

def ordMemberchk (cmp : α → α → Ordering) (item : α) : List α → Bool
  | x1 :: x2 :: x3 :: x4 :: xs =>
    match cmp item x4 with
    | .gt => ordMemberchk cmp item xs
    | .lt =>
      (match cmp item x2 with
       | .gt => cmp item x3 == .eq
       | .lt => cmp item x1 == .eq
       | .eq => true)
    | .eq => true
  | [x1, x2, x3] =>
    match cmp item x2 with
    | .gt => ordMemberchk cmp item [x3]
    | .lt => cmp item x1 == .eq
    | .eq => true
  | [x1, x2] =>
    match cmp item x2 with
    | .gt => false                 -- ord_memberchk(Item, []) has no clause
    | .lt => cmp item x1 == .eq
    | .eq => true
  | [x1] => cmp item x1 == .eq
  | [] => false

/-! ### ord_subset -/

/-- `ord_subset_(Order, H1, T1, T2)` and `ord_subset/2`, merged: `ordSubsetAux h1 t1 l2` is the
    call `compare(Order,H1,H2), ord_subset_(Order,H1,T1,T2)` for `l2 = [H2|T2]` (fails for `[]`). -/
def ordSubsetAux (cmp : α → α → Ordering) : α → List α → List α → Bool
  | _, _, [] => false
  | h1, t1, h2 :: t2 =>
    match cmp h1 h2 with
    | .gt => ordSubsetAux cmp h1 t1 t2
    | .eq => (match t1 with                 -- ord_subset(T1, T2)
              | [] => true
              | h :: t => ordSubsetAux cmp h t t2)
    | .lt => false
termination_by _ t1 l2 => t1.length + l2.length

def ordSubset (cmp : α → α → Ordering) : List α → List α → Bool
  | [], _ => true
  | h1 :: t1, l2 => ordSubsetAux cmp h1 t1 l2

/-! ### ord_intersect/2 (test), ord_disjoint/2 -/

/-- `ord_intersect_(L2, H1, T1)`. -/
def ordIntersectAux (cmp : α → α → Ordering) : List α → α → List α → Bool
  | [], _, _ => false
  | h2 :: t2, h1, t1 =>
    match cmp h1 h2 with
    | .lt => ordIntersectAux cmp t1 h2 t2
    | .eq => true
    | .gt => ordIntersectAux cmp t2 h1 t1
termination_by l2 _ t1 => l2.length + t1.length

def ordIntersect (cmp : α → α → Ordering) : List α → List α → Bool
  | [], _ => false
  | h1 :: t1, l2 => ordIntersectAux cmp l2 h1 t1

def ordDisjoint (cmp : α → α → Ordering) (a b : List α) : Bool := !ordIntersect cmp a b

/-! ### ord_symdiff -/

/-- `ord_symdiff(Set2, H1, T1, Difference)` (the 4-argument helper). -/
def symdiffAux (cmp : α → α → Ordering) : List α → α → List α → List α
  | [], h1, t1 => h1 :: t1
  | h2 :: t2, h1, t1 =>
    match cmp h1 h2 with
    | .lt => h1 :: symdiffAux cmp t1 h2 t2
    | .eq => (match t1 with                  -- ord_symdiff(T1, T2, Difference)
              | [] => t2
              | h :: t => symdiffAux cmp t2 h t)
    | .gt => h2 :: symdiffAux cmp t2 h1 t1
termination_by l2 _ t1 => l2.length + t1.length

def ordSymdiff (cmp : α → α → Ordering) : List α → List α → List α
  | [], s2 => s2
  | h1 :: t1, s2 => symdiffAux cmp s2 h1 t1

/-! ### ord_union/4 (Union, New) -/

/-- `ord_union_1(Set2, H, T, Union, New)` when `two = false`;
    `ord_union_2(Set1, H2, T2, Union, New)` when `two = true`. -/
def union4Aux (cmp : α → α → Ordering) : Bool → List α → α → List α → List α × List α
  -- ord_union_1([], H, T, [H|T], []).
  | false, [], h, t => (h :: t, [])
  -- ord_union_1([H2|T2], H, T, Union, New) :- compare(Order, H, H2), ord_union(Order, H, T, H2, T2, Union, New).
  | false, h2 :: t2, h, t =>
    match cmp h h2 with
    | .lt => let r := union4Aux cmp true t h2 t2; (h :: r.1, r.2)
    | .gt => let r := union4Aux cmp false t2 h t; (h2 :: r.1, h2 :: r.2)
    | .eq => (match t with                    -- ord_union(T, T2, Union, New)
              | [] => (h :: t2, t2)
              | h' :: t' => let r := union4Aux cmp false t2 h' t'; (h :: r.1, r.2))
  -- ord_union_2([], H2, T2, [H2|T2], [H2|T2]).
  | true, [], h2, t2 => (h2 :: t2, h2 :: t2)
  -- ord_union_2([H|T], H2, T2, Union, New) :- compare(Order, H, H2), ord_union(Order, H, T, H2, T2, Union, New).
  | true, h :: t, h2, t2 =>
    match cmp h h2 with
    | .lt => let r := union4Aux cmp true t h2 t2; (h :: r.1, r.2)
    | .gt => let r := union4Aux cmp false t2 h t; (h2 :: r.1, h2 :: r.2)
    | .eq => (match t with
              | [] => (h :: t2, t2)
              | h' :: t' => let r := union4Aux cmp false t2 h' t'; (h :: r.1, r.2))
termination_by _ l _ t => l.length + t.length

def ordUnion4 (cmp : α → α → Ordering) : List α → List α → List α × List α
  | [], s2 => (s2, s2)
  | h :: t, s2 => union4Aux cmp false s2 h t

/-! ### ord_intersection/4 (Intersection, Difference = Set2 \ Set1) -/

def ordInt4 (cmp : α → α → Ordering) : List α → List α → List α × List α
  | [], l => ([], l)
  | _ :: _, [] => ([], [])
  | h1 :: t1, h2 :: t2 =>
    match cmp h1 h2 with
    | .eq => let r := ordInt4 cmp t1 t2; (h1 :: r.1, r.2)
    | .lt => ordInt4 cmp t1 (h2 :: t2)
    | .gt => let r := ordInt4 cmp (h1 :: t1) t2; (r.1, h2 :: r.2)
termination_by a b => a.length + b.length

/-! ### ord_union/2 (union of a list of sets) -/

/-- `ord_union_all(N, Sets0, Union, Sets)`: union of the first `N` sets, and the remaining sets.
    `none` = the Prolog call fails (fewer than `N` sets). `fuel` bounds the halving recursion. -/
def ordUnionAll (cmp : α → α → Ordering) : Nat → Nat → List (List α) → Option (List α × List (List α))
  | 0, _, _ => none
  | fuel + 1, n, sets0 =>
    if n == 1 then
      match sets0 with
      | u :: sets => some (u, sets)
      | [] => none
    else if n == 2 then
      match sets0 with
      | s1 :: s2 :: sets => some (ordUnion cmp s1 s2, sets)
      | _ => none
    else
      let a := n >>> 1
      let z := n - a
      match ordUnionAll cmp fuel a sets0 with
      | none => none
      | some (x, sets1) =>
        match ordUnionAll cmp fuel z sets1 with
        | none => none
        | some (y, sets) => some (ordUnion cmp x y, sets)

def ordUnionList (cmp : α → α → Ordering) : List (List α) → Option (List α)
  | [] => some []
  | sets => (ordUnionAll cmp (sets.length + 1) sets.length sets).map (·.1)

end Scryer.OrdSet
