import ScryerModel.Extracted.CharClass
/-!
# Atom quoting, token spacing and the token reader (C55, shared with C15)

Mirrors, over the *extracted* character classes (`Extracted/CharClass.lean`, regenerated from
`src/parser/macros.rs` on every run; the Unicode predicates of Rust's `char` are the parameter
`u : UC`):

* `src/heap_print.rs`: `non_quoted_graphic_token`, `non_quoted_token`, `char_to_string`,
  `HCPrinter::print_op_addendum` (`printAtom`), `requires_space`, `ambiguity_check`,
  `push_space_if_amb!`/`append_str!`/`push_char!`/`PrinterOutputter::append` (`emitItem`, `pushChar`);
* `src/parser/lexer.rs`: `scan_for_layout`/`consume_layout`/`single_line_comment`/
  `bracketed_comment` (`scanLayout`, a one-character-per-step state machine), `next_token`
  (`nextTokAt`), `name_token`, `variable_token`, `get_single_quoted_item`/`_char`,
  `get_double_quoted_item`/`_char`, `get_non_quote_char`, `get_control_escape_sequence`,
  `get_octal_escape_sequence`, `get_hexadecimal_escape_sequence`, `escape_sequence_to_char`
  (`quotedItems`, a state machine over `QState`), and the decimal part of `number_token`.

Abstractions (documented in notes/design/C55.md): end of input acts as a token delimiter (the
implementation reports `unexpected_eof` from inside a token; a complete read always has the end
token after the last term token, so this is unobservable through `read_term`); number tokens:
decimal integers and decimal floats (kept as literal text); `0'c`, `0x`, `0o`, `0b`, digit
separators `_` and back-quoted strings are `err` ("not modelled"; the printer never emits them).

Imports only the generated class file (no Std/Mathlib): linked into `drv_C55`/`drv_C15`.
-/
namespace Scryer.Quote
open Scryer.CharClass

/-! ## heap_print.rs: quoting decision -/

/-- `non_quoted_graphic_token(iter, c)`: `rest` is what the iterator still holds after `c`. -/
def nonQuotedGraphicToken (u : UC) (c : Char) (rest : List Char) : Bool :=
  if c == '/' then
    match rest with
    | [] => true
    | d :: rest' =>
      if d == '*' then false            -- starts a comment: must quote
      else if graphic_token_char u d then rest'.all (graphic_token_char u) else false
  else if c == '.' then
    match rest with
    | [] => false                       -- the end token
    | d :: rest' =>
      if graphic_token_char u d then rest'.all (graphic_token_char u) else false
  else rest.all (graphic_token_char u)

/-- `non_quoted_token(iter)`. -/
def nonQuotedToken (u : UC) : List Char → Bool
  | [] => false
  | c :: rest =>
    if small_letter_char u c then rest.all (alpha_numeric_char u)
    else if graphic_token_char u c then nonQuotedGraphicToken u c rest
    else if semicolon_char u c || cut_char u c then rest.isEmpty
    else if c == '[' then rest == [']']
    else if c == '{' then rest == ['}']
    else if solo_char u c then
      !(c == '(' || c == ')' || c == '}' || c == ']' || c == ',' || c == '%' || c == '|')
    else false

/-! ## heap_print.rs: escapes -/

def hexDigit (n : Nat) : Char :=
  if n < 10 then Char.ofNat (48 + n) else Char.ofNat (87 + n)

/-- `format!("{:x}", n)`: lower-case hexadecimal, no leading zeros, `"0"` for 0. -/
def hexDigits (n : Nat) : List Char :=
  if h : n < 16 then [hexDigit n] else hexDigits (n / 16) ++ [hexDigit (n % 16)]
termination_by n
decreasing_by omega

/-- `format!("{n}")` for a non-negative integer. -/
def decDigits (n : Nat) : List Char :=
  if h : n < 10 then [Char.ofNat (48 + n)] else decDigits (n / 10) ++ [Char.ofNat (48 + n % 10)]
termination_by n
decreasing_by omega

/-- the characters `char_to_string` prints as themselves before looking at the Unicode class -/
def plainList : List Char :=
  [' ', '\'', '\n', '\r', '\t', Char.ofNat 11, Char.ofNat 12, Char.ofNat 8, Char.ofNat 7, '"', '\\']

/-- `char_to_string(is_quoted, c)`. -/
def charToString (u : UC) (isQuoted : Bool) (c : Char) : List Char :=
  if isQuoted && c == '\'' then ['\\', '\'']
  else if isQuoted && c == '\n' then ['\\', 'n']
  else if isQuoted && c == '\r' then ['\\', 'r']
  else if isQuoted && c == '\t' then ['\\', 't']
  else if isQuoted && c == Char.ofNat 11 then ['\\', 'v']
  else if isQuoted && c == Char.ofNat 12 then ['\\', 'f']
  else if isQuoted && c == Char.ofNat 8 then ['\\', 'b']
  else if isQuoted && c == Char.ofNat 7 then ['\\', 'a']
  else if isQuoted && c == '\\' then ['\\', '\\']
  else if plainList.contains c then [c]
  else if u.is_whitespace c || u.is_control c then
    '\\' :: 'x' :: (hexDigits c.toNat ++ ['\\'])
  else [c]

/-- `HCPrinter::print_op_addendum(atom)` with `self.quoted = quoted`.
    `fixed = false` is the code as written: the text `''` (two quote characters) is returned
    unchanged (finding C55-1); `fixed = true` drops that branch. -/
def printAtomImpl (fixed : Bool) (u : UC) (quoted : Bool) (s : List Char) : List Char :=
  if !quoted || nonQuotedToken u s then s
  else if !fixed && s == ['\'', '\''] then ['\'', '\'']
  else '\'' :: (s.flatMap (charToString u quoted) ++ ['\''])

/-- the repaired printer (what the theorems are about). -/
def printAtom (u : UC) (quoted : Bool) (s : List Char) : List Char := printAtomImpl true u quoted s

/-! ## heap_print.rs: spacing -/

/-- the decision of `requires_space` for the last character `ac` of what was printed and the first
    character `oc` of what comes next. -/
def reqSpaceChars (u : UC) (ac oc : Char) : Bool :=
  if ac == '0' then oc == '\'' || oc == '(' || alpha_numeric_char u oc
  else if alpha_numeric_char u ac then oc == '(' || alpha_numeric_char u oc
  else if graphic_token_char u ac then graphic_token_char u oc
  else if variable_indicator_char u ac || capital_letter_char u ac then alpha_numeric_char u oc
  else if sign_char u ac then sign_char u oc || decimal_digit_char u oc
  else if single_quote_char u ac then single_quote_char u oc
  else false

/-- `requires_space(atom, op)`. -/
def requiresSpace (u : UC) (prev next : List Char) : Bool :=
  match prev.getLast?, next.head? with
  | some ac, some oc => reqSpaceChars u ac oc
  | _, _ => false

/-- the printer's output: the text and `last_item_idx` (counted in characters here). -/
structure Out where
  text : List Char
  lastIdx : Nat
  deriving Repr

def Out.empty : Out := ⟨[], 0⟩

/-- `&outputter.as_str()[last_item_idx..]` -/
def Out.tail (o : Out) : List Char := o.text.drop o.lastIdx

/-- `ambiguity_check(outputter, quoted, last_item_idx, atom)`: a text that would be quoted (and,
    as written, every number and variable name) is checked as if it started with a quote. -/
def ambiguityCheck (u : UC) (quoted : Bool) (o : Out) (atom : List Char) : Bool :=
  if atom == [','] || !quoted || nonQuotedToken u atom then requiresSpace u o.tail atom
  else requiresSpace u o.tail ['\'']

/-- `push_space_if_amb!(self, amb, { append_str!(self, text) })`: the macro pushes a space when the
    ambiguity check says so, `append_str!` records `last_item_idx` and `PrinterOutputter::append`
    pushes a space when `requires_space(contents, text)`. -/
def emitItem (u : UC) (quoted : Bool) (o : Out) (amb text : List Char) : Out :=
  let t1 := if ambiguityCheck u quoted o amb then o.text ++ [' '] else o.text
  let t2 := if requiresSpace u t1 text then t1 ++ ' ' :: text else t1 ++ text
  ⟨t2, t1.length⟩

/-- `push_char!(self, c)` -/
def pushChar (o : Out) (c : Char) : Out := ⟨o.text ++ [c], o.text.length + 1⟩

/-- what the printer does for one item: a token text (with the text its ambiguity check looks at)
    or a single pushed character (`(`, `)`, `,`, `[`, `]`, `{`, `}`, an explicit space). -/
inductive Item where
  | tok (amb text : List Char)
  | ch (c : Char)
  deriving Repr

def emit (u : UC) (quoted : Bool) (o : Out) : Item → Out
  | .tok amb text => emitItem u quoted o amb text
  | .ch c => pushChar o c

def render (u : UC) (quoted : Bool) (items : List Item) : Out := items.foldl (emit u quoted) Out.empty

/-! ## lexer.rs -/

inductive Tok where
  | name (s : List Char)        -- Token::Literal(Literal::Atom)
  | var (s : List Char)         -- Token::Var
  | int (n : Nat)               -- Token::Literal(integer)
  | flt (s : List Char)         -- Token::Literal(F64): literal text, not interpreted here
  | str (s : List Char)         -- Token::String
  | punct (c : Char)            -- Open, Close, Comma, OpenList, CloseList, HeadTailSeparator, curly
  | openCT                      -- `(` with no layout before it
  | endTok                      -- Token::End
  deriving DecidableEq, Repr, Inhabited

inductive Res where
  | tok (t : Tok) (rest : List Char)
  | eof
  | err
  deriving DecidableEq, Repr, Inhabited

inductive LState where
  | top | line | block | blockStar
  deriving DecidableEq, Repr

/-- `scan_for_layout`: returns (layout_inserted, rest); `none` for an unterminated block comment. -/
def scanLayout (u : UC) : LState → Bool → List Char → Option (Bool × List Char)
  | .top, ins, [] => some (ins, [])
  | .top, ins, c :: r =>
    if layout_char u c then scanLayout u .top true r
    else if end_line_comment_char u c then scanLayout u .line true r
    else if comment_1_char u c then
      match r with
      | d :: r' => if comment_2_char u d then scanLayout u .block ins r' else some (ins, c :: r)
      | [] => some (ins, c :: r)
    else some (ins, c :: r)
  | .line, _, [] => some (true, [])
  | .line, ins, c :: r => if new_line_char u c then scanLayout u .top true r else scanLayout u .line ins r
  | .block, _, [] => none
  | .block, ins, c :: r =>
    if comment_2_char u c then scanLayout u .blockStar ins r else scanLayout u .block ins r
  | .blockStar, _, [] => none
  | .blockStar, ins, c :: r =>
    if comment_1_char u c then scanLayout u .top true r
    else if comment_2_char u c then scanLayout u .blockStar ins r
    else scanLayout u .block ins r

inductive QState where
  | normal
  | bs                  -- after a backslash
  | hex0                -- after `\x`, no digit yet
  | hex (acc : Nat)     -- after `\x` and at least one digit
  | oct (acc : Nat)     -- after `\` and at least one octal digit
  | q1                  -- after one quote character
  deriving DecidableEq, Repr

def hexVal (c : Char) : Nat :=
  if c.isDigit then c.toNat - 48 else if 'a' ≤ c ∧ c ≤ 'f' then c.toNat - 87 else c.toNat - 55

/-- `escape_sequence_to_char`'s last step: `u32::from_str_radix` then `char::try_from`. -/
def charOfCode (n : Nat) : Option Char :=
  if n.isValidChar then some (Char.ofNat n) else none

/-- the items of a quoted token with quote character `q` (`'` or `"`), from just after the
    opening quote: returns the text and what follows the closing quote.
    `get_single_quoted_item`/`get_double_quoted_item` + `get_non_quote_char` + escapes. -/
def quotedItems (u : UC) (q : Char) : QState → List Char → List Char → Option (List Char × List Char)
  | .normal, _, [] => none                                   -- missing closing quote
  | .normal, acc, c :: r =>
    if c == q then quotedItems u q .q1 acc r
    else if backslash_char u c then quotedItems u q .bs acc r
    else if (single_quote_char u c || double_quote_char u c || back_quote_char u c) then
      quotedItems u q .normal (c :: acc) r                  -- the other two quote characters
    else if graphic_char u c || alpha_numeric_char u c || solo_char u c || space_char u c then
      quotedItems u q .normal (c :: acc) r
    else none                                                -- unexpected_char
  | .q1, acc, [] => some (acc.reverse, [])
  | .q1, acc, c :: r =>
    if c == q then quotedItems u q .normal (q :: acc) r     -- doubled quote
    else some (acc.reverse, c :: r)
  | .bs, _, [] => none
  | .bs, acc, c :: r =>
    if new_line_char u c then quotedItems u q .normal acc r -- continuation
    else if meta_char u c then quotedItems u q .normal (c :: acc) r
    else if octal_digit_char u c then quotedItems u q (.oct (hexVal c)) acc r
    else if symbolic_hexadecimal_char u c then quotedItems u q .hex0 acc r
    else if c == 'a' then quotedItems u q .normal (Char.ofNat 7 :: acc) r
    else if c == 'b' then quotedItems u q .normal (Char.ofNat 8 :: acc) r
    else if c == 'v' then quotedItems u q .normal (Char.ofNat 11 :: acc) r
    else if c == 'f' then quotedItems u q .normal (Char.ofNat 12 :: acc) r
    else if c == 't' then quotedItems u q .normal ('\t' :: acc) r
    else if c == 'n' then quotedItems u q .normal ('\n' :: acc) r
    else if c == 'r' then quotedItems u q .normal ('\r' :: acc) r
    else none
  | .hex0, _, [] => none
  | .hex0, acc, c :: r =>
    if hexadecimal_digit_char u c then quotedItems u q (.hex (hexVal c)) acc r else none
  | .hex _, _, [] => none
  | .hex n, acc, c :: r =>
    if hexadecimal_digit_char u c then quotedItems u q (.hex (n * 16 + hexVal c)) acc r
    else if backslash_char u c then
      match charOfCode n with
      | some ch => quotedItems u q .normal (ch :: acc) r
      | none => none
    else none
  | .oct _, _, [] => none
  | .oct n, acc, c :: r =>
    if octal_digit_char u c then quotedItems u q (.oct (n * 8 + hexVal c)) acc r
    else if backslash_char u c then
      match charOfCode n with
      | some ch => quotedItems u q .normal (ch :: acc) r
      | none => none
    else none

def digitsVal (ds : List Char) : Nat := ds.foldl (fun a c => a * 10 + (c.toNat - 48)) 0

/-- `(l.span p)` written out (keeps proofs independent of library lemmas). -/
def spanP (p : Char → Bool) : List Char → List Char × List Char
  | [] => ([], [])
  | c :: r => if p c then ((spanP p r).1.cons c, (spanP p r).2) else ([], c :: r)

/-- exponent part of a float, after the fraction digits: returns (text, rest). -/
def floatExp (cs : List Char) : List Char × List Char :=
  match cs with
  | e :: r =>
    if e == 'e' || e == 'E' then
      match r with
      | s :: d :: r' =>
        if (s == '-' || s == '+') && d.isDigit then
          let sp := spanP Char.isDigit (d :: r')
          (e :: s :: sp.1, sp.2)
        else if s.isDigit then
          let sp := spanP Char.isDigit (s :: d :: r')
          (e :: sp.1, sp.2)
        else ([], cs)
      | [s] => if s.isDigit then ([e, s], []) else ([], cs)
      | [] => ([], cs)
    else ([], cs)
  | [] => ([], [])

/-- `number_token` for what the printer emits: decimal integer, or decimal float
    `digits.digits[e[+-]digits]`; everything else that starts with a digit is "not modelled". -/
def numberToken (cs : List Char) : Res :=
  let sp := spanP Char.isDigit cs
  match sp.2 with
  | [] => .tok (.int (digitsVal sp.1)) []
  | c :: r =>
    if c == '_' then .err
    else if c == '.' then
      match r with
      | d :: _ =>
        if d.isDigit then
          let fr := spanP Char.isDigit r
          let ex := floatExp fr.2
          .tok (.flt (sp.1 ++ '.' :: fr.1 ++ ex.1)) ex.2
        else .tok (.int (digitsVal sp.1)) (c :: r)
      | [] => .tok (.int (digitsVal sp.1)) (c :: r)
    else if sp.1 == ['0'] && (c == 'x' || c == 'o' || c == 'b' || c == '\'') then .err
    else .tok (.int (digitsVal sp.1)) (c :: r)

/-- `name_token(c)` for the current character `c` (not yet consumed). -/
def nameToken (u : UC) (c : Char) (r : List Char) : Res :=
  if small_letter_char u c then
    let sp := spanP (alpha_numeric_char u) r
    .tok (.name (c :: sp.1)) sp.2
  else if graphic_token_char u c then
    let sp := spanP (graphic_token_char u) r
    .tok (.name (c :: sp.1)) sp.2
  else if cut_char u c || semicolon_char u c then .tok (.name [c]) r
  else if single_quote_char u c then
    match quotedItems u '\'' .normal [] r with
    | some (s, rest) => .tok (.name s) rest
    | none => .err
  else .err                                 -- back-quoted string / unexpected character

/-- `next_token` after `scan_for_layout` returned `lay`. -/
def nextTokAt (u : UC) (lay : Bool) : List Char → Res
  | [] => .eof
  | c :: r =>
    if capital_letter_char u c || variable_indicator_char u c then
      let sp := spanP (alpha_numeric_char u) r
      .tok (.var (c :: sp.1)) sp.2
    else if c == ',' then .tok (.punct ',') r
    else if c == ')' then .tok (.punct ')') r
    else if c == '(' then (if lay then .tok (.punct '(') r else .tok .openCT r)
    else if c == '.' then
      match r with
      | [] => .tok .endTok []
      | d :: r' =>
        if layout_char u d || d == '%' then
          (if new_line_char u d then .tok .endTok r' else .tok .endTok r)
        else nameToken u c r
    else if decimal_digit_char u c then numberToken (c :: r)
    else if c == ']' then .tok (.punct ']') r
    else if c == '[' then .tok (.punct '[') r
    else if c == '|' then .tok (.punct '|') r
    else if c == '{' then .tok (.punct '{') r
    else if c == '}' then .tok (.punct '}') r
    else if c == '"' then
      match quotedItems u '"' .normal [] r with
      | some (s, rest) => .tok (.str s) rest
      | none => .err
    else if c == Char.ofNat 0 then .eof
    else nameToken u c r

def nextTok (u : UC) (cs : List Char) : Res :=
  match scanLayout u .top false cs with
  | none => .err
  | some (lay, rest) => nextTokAt u lay rest

/-- all tokens of a text (fuel: every token consumes at least one character). -/
def tokensFuel (u : UC) : Nat → List Char → Option (List Tok)
  | 0, _ => none
  | fuel + 1, cs =>
    match nextTok u cs with
    | .eof => some []
    | .err => none
    | .tok t rest => (tokensFuel u fuel rest).map (t :: ·)

def tokens (u : UC) (cs : List Char) : Option (List Tok) := tokensFuel u (cs.length + 1) cs

/-- the atom a token sequence denotes, if it is exactly one atom (ISO 6.3.1.3: a name, or
    `[` `]`, or `{` `}`). -/
def atomOfTokens : List Tok → Option (List Char)
  | [.name s] => some s
  | [.punct '[', .punct ']'] => some ['[', ']']
  | [.punct '{', .punct '}'] => some ['{', '}']
  | _ => none

/-- read a text as one atom. -/
def readAtom (u : UC) (cs : List Char) : Option (List Char) :=
  match tokens u cs with
  | some ts => atomOfTokens ts
  | none => none

/-! ## the ASCII part of the Unicode parameter -/

/-- what Rust's `char` methods answer on ASCII. -/
def asciiUC : UC where
  is_alphabetic c := c.isAlpha
  is_numeric c := c.isDigit
  is_uppercase c := c.isUpper
  is_whitespace c := c == ' ' || (9 ≤ c.toNat && c.toNat ≤ 13)
  is_control c := c.toNat < 32 || c.toNat == 127

/-- `u` agrees with Rust's `char` methods on ASCII (a fact about Rust's std the theorems assume;
    the driver's instance satisfies it by construction, see `mkUC`). -/
structure UCWF (u : UC) : Prop where
  alphabetic : ∀ c : Char, c.toNat < 128 → u.is_alphabetic c = asciiUC.is_alphabetic c
  numeric : ∀ c : Char, c.toNat < 128 → u.is_numeric c = asciiUC.is_numeric c
  uppercase : ∀ c : Char, c.toNat < 128 → u.is_uppercase c = asciiUC.is_uppercase c
  whitespace : ∀ c : Char, c.toNat < 128 → u.is_whitespace c = asciiUC.is_whitespace c
  control : ∀ c : Char, c.toNat < 128 → u.is_control c = asciiUC.is_control c
  /-- a Unicode fact: alphabetic characters are neither white space nor control characters -/
  alpha_sane : ∀ c : Char, u.is_alphabetic c = true → u.is_whitespace c = false ∧ u.is_control c = false

/-- a `UC` that is `asciiUC` below 128 and a finite table above (used by the driver: the table
    holds the answers of the implementation's own `char_type/2` for the characters of a case). -/
def mkUC (tbl : List (Nat × Nat)) : UC :=
  let bit (k : Nat) (c : Char) : Bool :=
    match tbl.find? (fun e => e.1 == c.toNat) with
    | some e => (e.2 / 2 ^ k) % 2 == 1
    | none => false
  { is_alphabetic := fun c => if c.toNat < 128 then asciiUC.is_alphabetic c else (bit 0 c && !bit 3 c && !bit 4 c)
    is_numeric := fun c => if c.toNat < 128 then asciiUC.is_numeric c else bit 1 c
    is_uppercase := fun c => if c.toNat < 128 then asciiUC.is_uppercase c else bit 2 c
    is_whitespace := fun c => if c.toNat < 128 then asciiUC.is_whitespace c else bit 3 c
    is_control := fun c => if c.toNat < 128 then asciiUC.is_control c else bit 4 c }

end Scryer.Quote
