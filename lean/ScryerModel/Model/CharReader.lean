import ScryerModel.Model.Utf8
/-
Mechanism model of `src/parser/char_reader.rs` (`CharReader<R: Read>`): the byte buffer
`buf`, the cursor `pos`, and the underlying reader as the list of chunks its future `read`
calls will return (then 0 = end of input, forever). Mirrors `read_chunk`, `refresh_buffer`,
`peek_char` (with its compaction `drain(4..pos)` and the `bad_bytes_error` helper),
`read_char`, `put_back_char`, `consume`, branch by branch. `Out.panic` marks the
`expect`/`assert!`/slice-index panics of the Rust code. Import-free.
-/
namespace Scryer.CharReader
open Scryer.Utf8

structure St where
  buf : List Nat
  pos : Nat
  chunks : List (List Nat)
  deriving Repr, DecidableEq

inductive Out where
  | char (cp : Nat)
  | bad (bytes : List Nat)      -- Err(BadUtf8Error { bytes })
  | eof                         -- None
  | panic
  deriving Repr, DecidableEq

def init (chunks : List (List Nat)) : St := { buf := [], pos := 0, chunks }

/-- `read_chunk`: append what the reader returns; the count is 0 at end of input. -/
def readChunk (s : St) : St × Nat :=
  match s.chunks with
  | [] => (s, 0)
  | c :: cs => ({ s with buf := s.buf ++ c, chunks := cs }, c.length)

/-- `refresh_buffer`. -/
def refreshBuffer (s : St) : St :=
  if s.pos ≥ s.buf.length then
    let buf := if s.buf.length > 4 then s.buf.take 4 else s.buf     -- buf.drain(4..)
    (readChunk { s with buf := buf, pos := buf.length }).1
  else s

/-- `bad_bytes_error(buf)`: `from_utf8(buf).expect_err(..)`, `assert_eq!(valid_up_to, 0)`,
    `error_len().unwrap_or(buf.len())`. -/
def badBytes (rem : List Nat) : Out :=
  match decodeFirst rem with
  | .ok _ _ => .panic
  | .invalid n => .bad (rem.take n)
  | .incomplete => .bad rem

/-- the compaction step of `peek_char`: `if self.pos > 4 { self.buf.drain(4..self.pos); self.pos = 4 }`
    (the guard is the repaired one; `drain(4..pos)` with `pos < 4` is a slice-index panic). -/
def compact (s : St) : St :=
  if s.pos > 4 then { s with buf := s.buf.take 4 ++ s.buf.drop s.pos, pos := 4 } else s

/-- the `while self.pos < self.buf.len()` loop of `peek_char`; every iteration that does not
    return reads one more chunk, so `chunks.length + 1` iterations suffice. -/
def peekLoop : Nat → St → St × Out
  | 0, s => (s, .panic)          -- unreachable with sufficient fuel (proved)
  | fuel+1, s =>
    if s.pos < s.buf.length then
      let rem := s.buf.drop s.pos
      let pre := rem.take 4
      match decodeFirst pre with
      | .ok cp _ => (s, .char cp)
      | .invalid _ => (s, badBytes rem)
      | .incomplete =>
        match readChunk (compact s) with
        | (s, 0) => (s, badBytes (s.buf.drop s.pos))
        | (s, _) => peekLoop fuel s
    else (s, .eof)

def peekChar (s : St) : St × Out :=
  let s := refreshBuffer s
  peekLoop (s.chunks.length + 1) s

def consume (s : St) (n : Nat) : St := { s with pos := s.pos + n }

/-- `CharRead::read_char` (default method): peek, then consume `c.len_utf8()`. -/
def readChar (s : St) : St × Out :=
  match peekChar s with
  | (s, .char cp) => (consume s (lenUtf8 cp), .char cp)
  | r => r

/-- overwrite `xs.length` cells of `l` starting at `i` (`encode_utf8(&mut buf[pos..])`). -/
def writeAt (l : List Nat) (i : Nat) (xs : List Nat) : List Nat :=
  l.take i ++ xs ++ l.drop (i + xs.length)

/-- `put_back_char`. -/
def putBack (s : St) (cp : Nat) : St :=
  let n := lenUtf8 cp
  let s := if n ≤ s.pos then { s with pos := s.pos - n }
           else { s with buf := List.replicate (n - s.pos) 0 ++ s.buf, pos := 0 }
  { s with buf := writeAt s.buf s.pos (encode cp) }

/-- what the harness does after `read_char` returned a bad-bytes error: `consume(bytes.len())`. -/
def readItem (s : St) : St × Out :=
  match readChar s with
  | (s, .bad bs) => (consume s bs.length, .bad bs)
  | r => r

/-- the unread input: what is still to be delivered. -/
def pending (s : St) : List Nat := s.buf.drop s.pos ++ s.chunks.flatten

/-- read everything (fuel = number of pending bytes + 1). -/
def readAllF : Nat → St → List Out
  | 0, _ => []
  | fuel+1, s =>
    match readItem s with
    | (_, .eof) => []
    | (_, .panic) => [.panic]
    | (s, o) => o :: readAllF fuel s

def readAll (chunks : List (List Nat)) : List Out :=
  readAllF (chunks.flatten.length + 1) (init chunks)

/-! ### the specification: a stream is just its unread bytes -/

/-- abstract `peek` on the unread bytes. -/
def specPeek (l : List Nat) : Out :=
  if l.isEmpty then .eof else
  match firstItem l with
  | (.char cp, _) => .char cp
  | (.bad bs, _) => .bad bs

/-- abstract `read` (with the harness' consume-after-error convention). -/
def specRead (l : List Nat) : List Nat × Out :=
  if l.isEmpty then (l, .eof) else
  match firstItem l with
  | (.char cp, n) => (l.drop n, .char cp)
  | (.bad bs, n) => (l.drop n, .bad bs)

/-- how an item of the decoding is reported by the reader. -/
def itemToOut : Item → Out
  | .char cp => .char cp
  | .bad bs => .bad bs

def specPutBack (l : List Nat) (cp : Nat) : List Nat := encode cp ++ l

end Scryer.CharReader
