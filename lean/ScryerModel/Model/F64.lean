/-
Import-free model of IEEE-754 binary64 as used by scryer-prolog's `Number::Float(OrderedFloat<f64>)`.

* a double is its 64 bits (`F64.bits`, read modulo 2^64);
* `toX` gives the extended value (−∞ / an exact fraction / +∞ / NaN);
* `cmp` is `ordered_float::OrderedFloat::cmp` (ordered-float 5.0: IEEE `<`/`>` on non-NaN values, so
  `-0.0 = +0.0`; all NaNs equal each other and greater than everything else);
* `rne num den` is the correctly rounded conversion (round to nearest, ties to even significand,
  overflow to ±∞) of the rational `num/den`; it is the specification of `i64 as f64`,
  `dashu_int::IBig::to_f64` and `dashu_ratio::RBig::to_f64`;
* `encode` mirrors `dashu_base::FloatEncoding::encode` for `f64` (dashu-base 0.4.2, bit.rs) and
  `dashuIntToF64` / `dashuRatToF64` mirror `IBig::to_f64` / `RBig::to_f64` of the pinned dashu
  (dashu-int 0.4.2 convert.rs `to_f64_nontrivial`, dashu-ratio 0.4.2 convert.rs `Repr::to_f64`).
  `dashuRatToF64` rounds twice (finding C04-2; `dashuIntToF64` drops a sticky bit: finding C04-1) and is kept to classify disagreements and as a witness.
-/
namespace Scryer.F64

structure F64 where
  bits : Nat
  deriving Repr, DecidableEq, Inhabited

def signBit (f : F64) : Nat := f.bits / 2^63 % 2
def expField (f : F64) : Nat := f.bits / 2^52 % 2^11
def mant (f : F64) : Nat := f.bits % 2^52

def infBits : Nat := 0x7FF0000000000000
def posZero : F64 := ⟨0⟩
def negZero : F64 := ⟨2^63⟩
def posInf : F64 := ⟨infBits⟩
def negInf : F64 := ⟨2^63 + infBits⟩

def isNaN (f : F64) : Bool := expField f == 2047 && mant f != 0
def isInf (f : F64) : Bool := expField f == 2047 && mant f == 0
def isFinite (f : F64) : Bool := expField f != 2047
def isZero (f : F64) : Bool := expField f == 0 && mant f == 0
def isSubnormal (f : F64) : Bool := expField f == 0 && mant f != 0

/-- extended values: the order of the constructors is NOT used; see `XVal.cmp`. -/
inductive XVal where
  | negInf
  | fin (n : Int) (d : Nat)     -- the fraction n/d, d > 0
  | posInf
  | nan
  deriving Repr, DecidableEq, Inhabited

/-- magnitude of a finite double as (significand, exponent of the last place):
    value = m · 2^s. Subnormals and zero: `s = -1074`, no hidden bit. -/
def sigExp (f : F64) : Nat × Int :=
  if expField f = 0 then (mant f, -1074) else (mant f + 2^52, (expField f : Int) - 1075)

/-- the fraction `±m·2^s`. -/
def dyadic (neg : Bool) (m : Nat) (s : Int) : XVal :=
  let n : Int := if neg then -(m : Int) else (m : Int)
  if s ≥ 0 then .fin (n * (2 : Int) ^ s.toNat) 1 else .fin n (2 ^ (-s).toNat)

def toX (f : F64) : XVal :=
  if expField f = 2047 then
    (if mant f ≠ 0 then .nan else if signBit f = 1 then .negInf else .posInf)
  else
    let (m, s) := sigExp f
    dyadic (signBit f == 1) m s

/-- exact comparison of two fractions with positive denominators. -/
def fracCmp (n1 : Int) (d1 : Nat) (n2 : Int) (d2 : Nat) : Ordering :=
  compare (n1 * (d2 : Int)) (n2 * (d1 : Int))

/-- `OrderedFloat::cmp` on extended values: NaN = NaN, NaN above everything. -/
def XVal.cmp : XVal → XVal → Ordering
  | .nan, .nan => .eq
  | .nan, _ => .gt
  | _, .nan => .lt
  | .negInf, .negInf => .eq
  | .negInf, _ => .lt
  | _, .negInf => .gt
  | .posInf, .posInf => .eq
  | .posInf, _ => .gt
  | _, .posInf => .lt
  | .fin n1 d1, .fin n2 d2 => fracCmp n1 d1 n2 d2

/-- `OrderedFloat<f64>::cmp`. -/
def cmp (a b : F64) : Ordering := XVal.cmp (toX a) (toX b)

/-- `OrderedFloat<f64>::eq`: `if self.is_nan() { other.is_nan() } else { self.0 == other.0 }`. -/
def eq (a b : F64) : Bool :=
  if isNaN a then isNaN b else (!isNaN b && cmp a b == .eq)

/-- an integer key that orders non-NaN doubles like their values (see Proofs/F64 `cmp_eq_key`);
    NaN gets 2^63, above +∞. -/
def key (f : F64) : Int :=
  if isNaN f then (2 : Int) ^ 63
  else if signBit f = 1 then -((f.bits % 2^63 : Nat) : Int) else ((f.bits % 2^63 : Nat) : Int)

/-! ### correctly rounded conversion of a rational -/

/-- `⌊log2 (n/d)⌋` for `n, d > 0`. -/
def ilog2 (n d : Nat) : Int :=
  let e : Int := (Nat.log2 n : Int) - (Nat.log2 d : Int)
  -- 2^(e-1) < n/d < 2^(e+1)
  let ge : Bool := if e ≥ 0 then decide (d * 2 ^ e.toNat ≤ n) else decide (d ≤ n * 2 ^ (-e).toNat)
  if ge then e else e - 1

/-- nearest integer to `N/D`, ties to even. -/
def roundHalfEven (N D : Nat) : Nat :=
  let m := N / D
  let r := N % D
  if 2 * r > D ∨ (2 * r = D ∧ m % 2 = 1) then m + 1 else m

/-- scale `n/d` by `2^(-s)`: the pair `(N, D)` with `N/D = (n/d)/2^s`. -/
def scaleBy (n d : Nat) (s : Int) : Nat × Nat :=
  if s ≥ 0 then (n, d * 2 ^ s.toNat) else (n * 2 ^ (-s).toNat, d)

/-- magnitude bits of the double nearest to `n/d` (`n, d > 0`). The last place of the result is
    `2^s` with `s = max(⌊log2 q⌋ − 52, −1074)`; `m = rhe(q / 2^s) ≤ 2^53`; the bit pattern
    `(s+1074)·2^52 + m` is the encoding of `m·2^s` in every case (subnormal, normal, and the carry
    `m = 2^53` into the next binade, including the carry into +∞). -/
def rnePos (n d : Nat) : Nat :=
  let e := ilog2 n d
  let s : Int := if e - 52 ≥ -1074 then e - 52 else -1074
  let (N, D) := scaleBy n d s
  let m := roundHalfEven N D
  let bits := (s + 1074).toNat * 2^52 + m
  if bits ≥ infBits then infBits else bits

/-- round `num/den` (`den > 0`) to the nearest double, ties to even; zero gives `+0.0`, a negative
    value that rounds to zero gives `-0.0` (as dashu's `sign * 0f64`). -/
def rne (num : Int) (den : Nat) : F64 :=
  if num = 0 then posZero
  else if num > 0 then ⟨rnePos num.toNat den⟩
  else ⟨2^63 + rnePos num.natAbs den⟩

/-- `n as f64` / `IBig::to_f64().value()` for an integer. -/
def ofInt (v : Int) : F64 := rne v 1

/-! ### mirror of dashu's conversions (pinned versions) -/

def bitLen (n : Nat) : Nat := if n = 0 then 0 else Nat.log2 n + 1

/-- `round_to_even_adjustment(bits)`: bits = [last kept bit, round bit, sticky]. -/
def roundToEvenAdjustment (b : Nat) : Bool := b = 0b011 || b = 0b110 || b = 0b111

/-- `<f64 as FloatEncoding>::encode(mantissa, exponent)` for a positive mantissa `< 2^64`:
    the magnitude bits of the result. -/
def encode (mantissa : Nat) (exponent : Int) : Nat :=
  if mantissa = 0 then 0 else
  let zeros : Nat := 64 - bitLen mantissa
  let topBit : Int := ((64 - zeros : Nat) : Int) + exponent
  if topBit > 1024 then infBits
  else if topBit < -1022 - 52 then 0
  else
    let (bits, roundBits) : Nat × Nat :=
      if topBit ≤ -1022 then
        -- subnormal
        let shift : Int := exponent + 1022 + 52
        if shift ≥ 0 then (mantissa * 2 ^ shift.toNat, 0)
        else
          let shifted := (mantissa * 2 ^ (62 + shift).toNat) % 2^64
          let rb := (shifted / 2^60 % 8) / 2 * 2 + (if shifted % 2^60 ≠ 0 then 1 else 0)
          (mantissa / 2 ^ (-shift).toNat, rb)
      else
        let mant' : Nat := if mantissa = 1 then 0 else (mantissa * 2 ^ (zeros + 1)) % 2^64
        let ex : Nat := (exponent + 1023 + 64 - (zeros : Int) - 1).toNat
        (ex * 2^52 + mant' / 2^12,
         (mant' / 2^10 % 8) / 2 * 2 + (if mant' % 2^10 ≠ 0 then 1 else 0))
    if roundBits % 4 = 0 then bits
    else if roundToEvenAdjustment roundBits then bits + 1 else bits

/-- `IBig::to_f64` magnitude: `u128 as f64` up to 128 bits (`RefSmall(dword)`, a correctly rounded
    primitive cast, = rne), else the top 63 bits with a sticky bit through `encode`. -/
def dashuNatToF64 (n : Nat) : Nat :=
  let bl := bitLen n
  if bl ≤ 128 then rnePos n 1
  else if bl > 1024 then infBits
  else
    let top := n / 2 ^ (bl - 63)
    let extra := if n % 2 ^ (bl - 63) ≠ 0 then 1 else 0
    encode (top ||| extra) ((bl : Int) - 63)

def dashuIntToF64 (v : Int) : F64 :=
  if v = 0 then posZero else if v > 0 then ⟨dashuNatToF64 v.toNat⟩ else ⟨2^63 + dashuNatToF64 v.natAbs⟩

/-- `dashu_ratio::repr::Repr::to_f64` magnitude (n, d > 0): quotient of 53 or 54 bits, rounded to an
    integer (first rounding), then `encode` (second rounding when the quotient has 54 bits or the
    result is subnormal). -/
def dashuRatPos (n d : Nat) : Nat :=
  let shift : Int := (bitLen n : Int) - (bitLen d : Int) - 53
  let (num, den) := if shift ≥ 0 then (n, d * 2 ^ shift.toNat) else (n * 2 ^ (-shift).toNat, d)
  if shift ≥ 1024 then infBits
  else if shift < -1074 - 53 then 0
  else
    let man := num / den
    let r := num % den
    let man' := if r = 0 then man
                else if 2 * r > den ∨ (2 * r = den ∧ man % 2 = 1) then man + 1 else man
    encode man' shift

def dashuRatToF64 (num : Int) (den : Nat) : F64 :=
  if num = 0 then posZero
  else if num > 0 then ⟨dashuRatPos num.toNat den⟩
  else ⟨2^63 + dashuRatPos num.natAbs den⟩

/-- the proposed repair (notes/findings/C04-1-fix.diff, `ratio_to_f64` in src/arithmetic.rs): a quotient
    of 63 or 64 bits with a sticky flag, ONE rounding to the 53-bit (or subnormal) significand done on
    machine integers, result `m · 2^s` assembled exactly. No use of dashu's `encode`. -/
def fixedRatPos (n d : Nat) : Nat :=
  let shift : Int := (bitLen n : Int) - (bitLen d : Int) - 63
  let (num, den) := if shift ≥ 0 then (n, d * 2 ^ shift.toNat) else (n * 2 ^ (-shift).toNat, d)
  let q := num / den                      -- 2^62 ≤ q < 2^64
  let sticky : Bool := num % den ≠ 0
  let etop : Int := (bitLen q : Int) + shift   -- 2^(etop-1) ≤ value < 2^etop
  if etop > 1024 then infBits
  else if etop < -1074 then 0
  else
    let s : Int := if etop - 53 ≥ -1074 then etop - 53 else -1074
    let drop : Nat := (s - shift).toNat     -- ≥ 10 low bits of q are dropped
    let m := q / 2 ^ drop
    let rem := q % 2 ^ drop
    let half := 2 ^ (drop - 1)
    let up : Bool := decide (rem > half) || (decide (rem = half) && (sticky || m % 2 = 1))
    let m' := if up then m + 1 else m
    -- `(m' as f64) * 2^s`: exact (m' ≤ 2^53, 2^s representable), overflowing to +∞ at 2^1024
    let bits := (s + 1074).toNat * 2^52 + m'
    if bits ≥ infBits then infBits else bits

def fixedRatToF64 (num : Int) (den : Nat) : F64 :=
  if num = 0 then posZero
  else if num > 0 then ⟨fixedRatPos num.toNat den⟩
  else ⟨2^63 + fixedRatPos num.natAbs den⟩

end Scryer.F64
