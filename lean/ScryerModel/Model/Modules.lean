/-
C42 — module qualification and imports: which definition answers a call.

Mirrored mechanism (src/machine/load_state.rs `import_module_exports`,
`import_qualified_module_exports`, compile.rs `compile` / `set_code_index`, loader.pl
`use_module/1,2`): every module has a code directory `predicate key ↦ code pointer`. Compiling a
local clause group installs the module's own code for the key; `use_module` COPIES, for every
exported (and, with an import list, listed) predicate of the imported module, the pointer that
module's directory holds at that moment. Both write the same cell: the last writer wins
(`mirror`). A call `M:G`, an unqualified call in the body of a clause of `M`, and a goal passed to
a meta-predicate by a clause of `M` all go through `M`'s directory.

The specification (`spec`) is the statement of the property: the module's own definition if there
is one, otherwise the last import that provides the predicate, otherwise existence_error.
-/
namespace Scryer.Modules

abbrev Key := Nat
abbrev MName := Nat

inductive Ev
  /-- a clause group of the module's own predicate `k`. -/
  | defn (k : Key)
  /-- `:- use_module(m)` (`sel = none`) or `:- use_module(m, sel)`. -/
  | imp (m : MName) (sel : Option (List Key))
deriving DecidableEq, Repr

structure ModDecl where
  name : MName
  exports : List Key
  evs : List Ev
deriving DecidableEq, Repr

/-- directory of every loaded module: `none` = no entry (existence_error). -/
abbrev Table := MName → Key → Option MName

/-- export lists of the loaded modules. -/
abbrev Exports := MName → List Key

/-- what one event writes into the cell of `k`, if anything. -/
def writes (tbl : Table) (exps : Exports) (self : MName) (k : Key) : Ev → Option MName
  | .defn k' => if k' = k then some self else none
  | .imp m sel =>
    if (exps m).contains k && (match sel with | none => true | some l => l.contains k)
    then tbl m k else none

/-- the code directory after the events: the last writer wins (a later event overrides the
    earlier ones). -/
def mirror (tbl : Table) (exps : Exports) (self : MName) (evs : List Ev) (k : Key) : Option MName :=
  match evs with
  | [] => none
  | e :: r =>
    match mirror tbl exps self r k with
    | some d => some d
    | none => writes tbl exps self k e

def isDef (k : Key) : Ev → Bool
  | .defn k' => k' == k
  | _ => false

/-- the statement: own definition first, otherwise the last import providing `k`. -/
def spec (tbl : Table) (exps : Exports) (self : MName) (evs : List Ev) (k : Key) : Option MName :=
  if evs.any (isDef k) then some self
  else mirror tbl exps self (evs.filter fun e => !isDef k e) k

def isDefn : Ev → Bool
  | .defn _ => true
  | _ => false

/-- all `use_module` directives precede the module's clauses. -/
def importsFirst : List Ev → Bool
  | [] => true
  | .imp _ _ :: r => importsFirst r
  | .defn _ :: r => r.all isDefn

/-- load the modules in order (a module is loaded after the modules it imports). -/
def build (useSpec : Bool) : List ModDecl → Table × Exports
  | [] => (fun _ _ => none, fun _ => [])
  | md :: rest =>
    -- `rest` are the modules loaded BEFORE `md` (the list is in reverse load order)
    let (tbl, exps) := build useSpec rest
    let dir := fun k => (if useSpec then spec else mirror) tbl exps md.name md.evs k
    (fun m k => if m = md.name then dir k else tbl m k,
     fun m => if m = md.name then md.exports else exps m)

/-- items of a module file in text order. -/
inductive Item
  | clause (k : Key)
  | use (m : MName) (sel : Option (List Key))
deriving DecidableEq, Repr

/-- the term queue of loader.pl: consecutive clauses of one predicate are compiled together when
    the queue is flushed; a directive is executed BEFORE the pending group is flushed
    (`compile_dispatch` succeeds, then `'$flush_term_queue'`). -/
def toEvs : List Item → Option Key → List Ev
  | [], none => []
  | [], some k => [.defn k]
  | .clause k :: r, none => toEvs r (some k)
  | .clause k :: r, some k' => if k = k' then toEvs r (some k) else .defn k' :: toEvs r (some k)
  | .use m sel :: r, none => .imp m sel :: toEvs r none
  | .use m sel :: r, some k' => .imp m sel :: .defn k' :: toEvs r none

/-- `M:G`, an unqualified call inside `M`, and a meta-call made by a clause of `M`. -/
def resolve (t : Table) (m : MName) (k : Key) : Option MName := t m k

end Scryer.Modules
