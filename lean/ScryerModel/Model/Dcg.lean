import ScryerModel.Model.Solve
/-
C39 — Definite clause grammars: the translation of `src/lib/dcgs.pl` and a direct semantics of
grammar bodies.

* `Body`     grammar bodies as data.  `ofTerm` is the dispatch of `dcg_body/4` + `dcg_constr/1` on
             terms; it also chooses the fresh "position" variable that `dcg_cbody/4` creates for a
             concatenation `(A, B)` and for `(If -> Then)` (the `S1` of the source).
* `tr`       mirrors `dcg_body/4` / `dcg_cbody/4` clause by clause: the ordinary Prolog goal with
             the threaded position terms `S0`, `S`, or the error thrown by the translation
             (`\+` and a bare `->` are `representation_error(dcg_body)`, a terminal "list" that is
             not a list is the `must_be(list, _)` error).
* `rule`     mirrors `dcg_rule/2` (with and without pushback), `phraseGoal` mirrors `phrase/3`.
* `den`      the DIRECT semantics of a body: by structural recursion on the body, as an answer
             sequence (`Solve.Res`: answers in order, cut flag, ball) for the positions `S0`, `S` in a
             state; terminals are unifications of the position terms, `{}`/`!` do not move the
             position, non-terminals are calls into the program (`Solve.solve`).
The theorem (Props/C39): solving `tr b S0 S` in the reference interpreter gives exactly `den b S0 S`.
Imports only Model.Solve.
-/
namespace Scryer.Dcg
open Scryer Scryer.Solve

/-- grammar bodies. `seq`/`ifThen` carry the name of the intermediate position variable. -/
inductive Body where
  | var (v : String)                    -- a variable: `phrase(V, S0, S)`
  | nil                                 -- `[]`
  | terms (ts : List Term)              -- `[T|Ts]`, a proper list (strings are such lists)
  | badList (t : Term)                  -- `[T|Ts]` that is not a proper list
  | seq (a b : Body) (m : String)       -- `(A, B)`
  | alt (a b : Body)                    -- `(A ; B)`
  | bar (a b : Body)                    -- `(A | B)`
  | ifThen (c t : Body) (m : String)    -- `(C -> T)`
  | brace (g : Term)                    -- `{G}`
  | call1 (c : Term)                    -- `call(Cont)`
  | phrase (args : List Term)           -- `phrase(B)`, `phrase(B, A)`, `phrase(B, A1, A2)`
  | cut                                 -- `!`
  | naf (g : Term)                      -- `\+ G`
  | nonterm (t : Term)                  -- anything else: a non-terminal
  deriving Repr, Inhabited

/-- errors thrown by the translation. -/
inductive TrErr where
  | inst (ctx : String)                 -- instantiation_error, context `must_be/2` or `=../2`
  | typeList (t : Term)                 -- type_error(list, t) from must_be/2
  | repr (culprit : Term)               -- representation_error(dcg_body), [culprit-C]
  deriving Repr, Inhabited

def unifG (a b : Term) : Term := .str "=" [a, b]
def conjG (a b : Term) : Term := .str "," [a, b]
def disjG (a b : Term) : Term := .str ";" [a, b]
def arrowG (a b : Term) : Term := .str "->" [a, b]

/-- back to the term (only needed for the culprit of the representation error). -/
def Body.toTerm : Body → Term
  | .var v => .var v
  | .nil => Term.nil
  | .terms ts => Term.ofList ts
  | .badList t => t
  | .seq a b _ => conjG a.toTerm b.toTerm
  | .alt a b => disjG a.toTerm b.toTerm
  | .bar a b => .str "|" [a.toTerm, b.toTerm]
  | .ifThen c t _ => arrowG c.toTerm t.toTerm
  | .brace g => .str "{}" [g]
  | .call1 c => .str "call" [c]
  | .phrase args => .str "phrase" args
  | .cut => .atom "!"
  | .naf g => .str "\\+" [g]
  | .nonterm t => t

/-- `dcg_non_terminal/4`: two more arguments; a non-callable term is left alone (call/N will
    raise the type error at run time). -/
def nonTerminal (t S0 S : Term) : Term :=
  match t with
  | .atom a => .str a [S0, S]
  | .str f args => .str f (args ++ [S0, S])
  | t => t

/-- the error of `must_be(list, T)` for a `T` that is not a list. -/
def listErr (t : Term) : TrErr :=
  match (Term.unconsAll 1000000 t).2 with
  | .var _ => .inst "must_be"
  | _ => .typeList t

/-- `dcg_body/4`.  -/
def tr : Body → Term → Term → Except TrErr Term
  | .var v, S0, S => .ok (.str "phrase" [.var v, S0, S])
  | .nil, S0, S => .ok (unifG S0 S)
  | .terms ts, S0, S => .ok (unifG S0 (Term.ofList ts S))
  | .badList t, _, _ => .error (listErr t)
  | .seq a b m, S0, S =>
      match tr a S0 (.var m) with
      | .error e => .error e
      | .ok A =>
        match tr b (.var m) S with
        | .error e => .error e
        | .ok B => .ok (conjG A B)
  | .alt (.ifThen c t m) e, S0, S =>
      -- second `;` clause: the condition is translated by dcg_cbody directly
      match tr c S0 (.var m) with
      | .error x => .error x
      | .ok C =>
        match tr t (.var m) S with
        | .error x => .error x
        | .ok T =>
          match tr e S0 S with
          | .error x => .error x
          | .ok E => .ok (disjG (arrowG C T) E)
  | .alt a b, S0, S =>
      match tr a S0 S with
      | .error e => .error e
      | .ok A =>
        match tr b S0 S with
        | .error e => .error e
        | .ok B => .ok (disjG A B)
  | .bar a b, S0, S =>
      match tr a S0 S with
      | .error e => .error e
      | .ok A =>
        match tr b S0 S with
        | .error e => .error e
        | .ok B => .ok (disjG A B)
  | .ifThen c t m, _, _ => .error (.repr (Body.toTerm (.ifThen c t m)))   -- dcg_constr throws
  | .brace g, S0, S => .ok (conjG g (unifG S0 S))
  | .call1 c, S0, S => .ok (.str "call" [c, S0, S])
  | .phrase args, S0, S => .ok (.str "phrase" (args ++ [S0, S]))
  | .cut, S0, S => .ok (conjG (.atom "!") (unifG S0 S))
  | .naf g, _, _ => .error (.repr (.str "\\+" [g]))                         -- dcg_constr throws
  | .nonterm t, S0, S => .ok (nonTerminal t S0 S)

/-! ### the direct semantics -/

/-- the answers of identifying two position terms (what `S0 = S` does). -/
def unifRes (n : Nat) (s : St) (a b : Term) : Res :=
  match unify n s.σ a b with
  | none => Res.oofR
  | some none => Res.none
  | some (some σ') => Res.one ⟨σ', s.ctr + 1⟩

/-- a body that only commits: the positions are identified and the clause is cut. -/
def cutRes (r : Res) : Res := if r.oof then Res.oofR else ⟨r.sols, true, .none, false⟩

/-- is the translated left alternative an if-then-else for the interpreter although the grammar
    body is not one?  (only the non-terminal whose name is `->` without arguments.) -/
def arrowNT : Body → Bool
  | .nonterm (.atom "->") => true
  | .nonterm (.str "->" []) => true
  | _ => false

/-- side condition of the theorem: no alternative whose left side is the non-terminal `'->'`. -/
def Body.ok : Body → Bool
  | .seq a b _ => a.ok && b.ok
  | .alt a b => !arrowNT a && a.ok && b.ok
  | .bar a b => !arrowNT a && a.ok && b.ok
  | .ifThen c t _ => c.ok && t.ok
  | _ => true

/-- DIRECT SEMANTICS of a grammar body between the positions `S0` and `S` (terms: lists, partial
    lists or variables) in state `s`: the answers in order, whether the rule was cut, the ball.
    `n` bounds the depth of the calls into the program. -/
def den (n : Nat) (prog : Prog) : Body → Term → Term → St → Res
  | .nil, S0, S, s => unifRes n s S0 S
  | .terms ts, S0, S, s => unifRes n s S0 (Term.ofList ts S)
  | .seq a b m, S0, S, s =>
      conjRes (den n prog a S0 (.var m) s) (fun s' => den n prog b (.var m) S s')
  | .alt (.ifThen c t m) e, S0, S, s =>
      iteRes (den n prog c S0 (.var m) s) (fun s' => den n prog t (.var m) S s')
        (fun _ => den n prog e S0 S s)
  | .alt a b, S0, S, s => disjRes (den n prog a S0 S s) (fun _ => den n prog b S0 S s)
  | .bar a b, S0, S, s => disjRes (den n prog a S0 S s) (fun _ => den n prog b S0 S s)
  | .ifThen c t m, S0, S, s =>
      iteRes (den n prog c S0 (.var m) s) (fun s' => den n prog t (.var m) S s') (fun _ => Res.none)
  | .brace g, S0, S, s => conjRes (solve n prog g s) (fun s' => unifRes n s' S0 S)
  | .cut, S0, S, s => cutRes (unifRes n s S0 S)
  | .call1 c, S0, S, s => callGoal (solve n prog) n s c [S0, S]
  | .nonterm t, S0, S, s => solve n prog (nonTerminal t S0 S) s
  | .var v, S0, S, s => solve n prog (.str "phrase" [.var v, S0, S]) s
  | .phrase args, S0, S, s => solve n prog (.str "phrase" (args ++ [S0, S])) s
  | .badList _, _, _, _ => Res.oofR
  | .naf _, _, _, _ => Res.oofR

/-- `b` between `S0` and `S` in state `s` has the result `r`. -/
def DRuns (prog : Prog) (b : Body) (S0 S : Term) (s : St) (r : Res) : Prop :=
  ∃ n, den n prog b S0 S s = r ∧ r.oof = false

/-! ### reading bodies, rules, phrase -/

def midName (k : Nat) : String := "_S" ++ toString k

/-- the dispatch of `dcg_body/4` (`var`, `dcg_constr/1`, otherwise non-terminal); `k` numbers the
    fresh position variables. -/
def ofTerm : Nat → Term → Nat → Body × Nat
  | 0, t, k => (.nonterm t, k)
  | f+1, t, k =>
    match t with
    | .var v => (.var v, k)
    | .atom "[]" => (.nil, k)
    | .atom "!" => (.cut, k)
    | .str "." [h, tl] =>
        let (xs, tail) := Term.unconsAll 1000000 (.str "." [h, tl])
        match tail with
        | .atom "[]" => (.terms xs, k)
        | _ => (.badList (.str "." [h, tl]), k)
    | .str "," [a, b] =>
        let (A, k1) := ofTerm f a (k + 1)
        let (B, k2) := ofTerm f b k1
        (.seq A B (midName k), k2)
    | .str ";" [a, b] =>
        let (A, k1) := ofTerm f a k
        let (B, k2) := ofTerm f b k1
        (.alt A B, k2)
    | .str "|" [a, b] =>
        let (A, k1) := ofTerm f a k
        let (B, k2) := ofTerm f b k1
        (.bar A B, k2)
    | .str "->" [a, b] =>
        let (A, k1) := ofTerm f a (k + 1)
        let (B, k2) := ofTerm f b k1
        (.ifThen A B (midName k), k2)
    | .str "{}" [g] => (.brace g, k)
    | .str "call" [c] => (.call1 c, k)
    | .str "phrase" [a] => (.phrase [a], k)
    | .str "phrase" [a, b] => (.phrase [a, b], k)
    | .str "phrase" [a, b, c] => (.phrase [a, b, c], k)
    | .str "\\+" [g] => (.naf g, k)
    | t => (.nonterm t, k)

def parseFuel : Nat := 1000000

/-- result of expanding one `-->` term. -/
inductive RuleR where
  | clause (c : Clause)
  | error (e : TrErr)
  | noExpansion            -- no clause of dcg_rule/2 applies: the term is left as it is
  deriving Repr, Inhabited

/-- `dcg_rule/2` (the two clauses without module qualification). The head positions are `_S0`,
    `_S1`; with pushback the body ends in `_S2` and `_S1 = PB ++ _S2` follows. -/
def rule (t : Term) : RuleR :=
  match t with
  | .str "-->" [.str "," [nt, pb], body] =>
      match nt with
      | .var _ => .error (.inst "=..")
      | _ =>
        let head := nonTerminal nt (.var "_S0") (.var "_S1")
        let (b, _) := ofTerm parseFuel body 3
        match tr b (.var "_S0") (.var "_S2") with
        | .error e => .error e
        | .ok g1 =>
          -- dcg_terminals(PB, S, S1, S = List) :- append(PB, S1, List).
          match Term.unconsAll 1000000 pb with
          | (xs, .atom "[]") =>
              .clause ⟨head, conjG g1 (unifG (.var "_S1") (Term.ofList xs (.var "_S2")))⟩
          | _ => .noExpansion
  | .str "-->" [nt, body] =>
      match nt with
      | .var _ => .error (.inst "=..")
      | _ =>
        let head := nonTerminal nt (.var "_S0") (.var "_S1")
        let (b, _) := ofTerm parseFuel body 3
        match tr b (.var "_S0") (.var "_S1") with
        | .error e => .error e
        | .ok g => .clause ⟨head, g⟩
  | _ => .noExpansion

/-- what `phrase(Body, S0, S)` runs (run-time `phrase/3`, body already instantiated):
    a control construct is translated and called (opaque to cut), a non-terminal is called with two
    more arguments; a variable is an instantiation error. -/
inductive PhraseR where
  | goal (g : Term)          -- to be run by call/1
  | error (e : TrErr)
  | instErr
  deriving Repr, Inhabited

def isConstr : Body → Bool
  | .var _ => false
  | .nonterm _ => false
  | _ => true

def phraseGoal (body S0 S : Term) : PhraseR :=
  match body with
  | .var _ => .instErr
  | _ =>
    let (b, _) := ofTerm parseFuel body 0
    if isConstr b then
      match tr b S0 S with
      | .ok g => .goal g
      | .error e => .error e
    else .goal (.str "call" [body, S0, S])

/-- the error terms as thrown by `dcgs.pl` (context as in the source). -/
def errTerm : TrErr → Term
  | .inst ctx => .str "error" [instErr, indicator ctx 2]
  | .typeList t => .str "error" [typeErr "list" t, indicator "must_be" 2]
  | .repr c => .str "error" [.str "representation_error" [.atom "dcg_body"],
      Term.ofList [.str "-" [.atom "culprit", c]]]

/-- run-time `phrase/3` in state `s`, through the translation and the interpreter. -/
def phraseRun (n : Nat) (prog : Prog) (s : St) (body S0 S : Term) : Res :=
  match resolve n s.σ body with
  | none => Res.oofR
  | some body' =>
    match phraseGoal body' S0 S with
    | .instErr => raise n s (mkError instErr)
    | .error e => raise n s (errTerm e)
    | .goal g => callGoal (solve n prog) n s g []

/-- run-time `phrase/3` in state `s`, through the direct semantics: the body's answers and ball;
    its cut is local. -/
def phraseDen (n : Nat) (prog : Prog) (s : St) (body S0 S : Term) : Res :=
  match resolve n s.σ body with
  | none => Res.oofR
  | some body' =>
    match body' with
    | .var _ => raise n s (mkError instErr)
    | _ =>
      let b := (ofTerm parseFuel body' 0).1
      match tr b S0 S with
      | .error e => raise n s (errTerm e)
      | .ok _ =>
        match resolve n s.σ S0, resolve n s.σ S with
        | some S0', some S' =>
          let r := den n prog b S0' S' s
          if r.oof then Res.oofR else ⟨r.sols, false, r.exc, false⟩
        | _, _ => Res.oofR

end Scryer.Dcg
