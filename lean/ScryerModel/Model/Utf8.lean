/-
UTF-8 decoding with Rust's `str::from_utf8` error model (`Utf8Error::valid_up_to`,
`error_len`): an invalid sequence is the maximal prefix of a well-formed sequence
(Unicode Table 3-7), `error_len = None` when the input ends inside a sequence.
Bytes are `Nat`s (< 256 by the well-formedness of the inputs). Import-free.
-/
namespace Scryer.Utf8

inductive Step where
  | ok (cp : Nat) (len : Nat)      -- a scalar value decoded from `len` bytes
  | invalid (len : Nat)            -- `error_len = Some len`
  | incomplete                     -- `error_len = None`: more input needed
  deriving Repr, DecidableEq

def isCont (b : Nat) : Bool := decide (0x80 ≤ b) && decide (b ≤ 0xBF)

/-- rest of a 2-byte sequence; `none` = the input ends before that byte. -/
def dec2 (b0 : Nat) (o1 : Option Nat) : Step :=
  match o1 with
  | none => .incomplete
  | some b1 => if isCont b1 then .ok ((b0 - 0xC0) * 64 + (b1 - 0x80)) 2 else .invalid 1

/-- rest of a 3-byte sequence whose second byte must lie in `lo..hi`. -/
def dec3 (b0 lo hi : Nat) (o1 o2 : Option Nat) : Step :=
  match o1 with
  | none => .incomplete
  | some b1 =>
    if decide (lo ≤ b1) && decide (b1 ≤ hi) then
      match o2 with
      | none => .incomplete
      | some b2 =>
        if isCont b2 then .ok ((b0 - 0xE0) * 4096 + (b1 - 0x80) * 64 + (b2 - 0x80)) 3
        else .invalid 2
    else .invalid 1

/-- rest of a 4-byte sequence whose second byte must lie in `lo..hi`. -/
def dec4 (b0 lo hi : Nat) (o1 o2 o3 : Option Nat) : Step :=
  match o1 with
  | none => .incomplete
  | some b1 =>
    if decide (lo ≤ b1) && decide (b1 ≤ hi) then
      match o2 with
      | none => .incomplete
      | some b2 =>
        if isCont b2 then
          match o3 with
          | none => .incomplete
          | some b3 =>
            if isCont b3 then
              .ok ((b0 - 0xF0) * 262144 + (b1 - 0x80) * 4096 + (b2 - 0x80) * 64 + (b3 - 0x80)) 4
            else .invalid 3
        else .invalid 2
    else .invalid 1

/-- decoding from the first byte and the (optional) next three bytes: `none` = the input
    ends before that byte. The case distinction is Unicode Table 3-7 (what
    `core::str::from_utf8` implements). -/
def decode4 (b0 : Nat) (o1 o2 o3 : Option Nat) : Step :=
  if b0 < 0x80 then .ok b0 1
  else if b0 < 0xC2 then .invalid 1
  else if b0 ≤ 0xDF then dec2 b0 o1
  else if b0 ≤ 0xEF then
    dec3 b0 (if b0 = 0xE0 then 0xA0 else 0x80) (if b0 = 0xED then 0x9F else 0xBF) o1 o2
  else if b0 ≤ 0xF4 then
    dec4 b0 (if b0 = 0xF0 then 0x90 else 0x80) (if b0 = 0xF4 then 0x8F else 0xBF) o1 o2 o3
  else .invalid 1

/-- decoding of the first item of a byte list (`.incomplete` on the empty list). -/
def decodeFirst : List Nat → Step
  | [] => .incomplete
  | b0 :: rest => decode4 b0 rest[0]? rest[1]? rest[2]?

/-- `char::len_utf8`. -/
def lenUtf8 (cp : Nat) : Nat :=
  if cp < 0x80 then 1 else if cp < 0x800 then 2 else if cp < 0x10000 then 3 else 4

/-- `char::encode_utf8`. -/
def encode (cp : Nat) : List Nat :=
  if cp < 0x80 then [cp]
  else if cp < 0x800 then [0xC0 + cp / 64, 0x80 + cp % 64]
  else if cp < 0x10000 then [0xE0 + cp / 4096, 0x80 + (cp / 64) % 64, 0x80 + cp % 64]
  else [0xF0 + cp / 262144, 0x80 + (cp / 4096) % 64, 0x80 + (cp / 64) % 64, 0x80 + cp % 64]

/-- a Unicode scalar value (what a Rust `char` can hold). -/
def isScalar (cp : Nat) : Bool := decide (cp < 0xD800) || (decide (0xE000 ≤ cp) && decide (cp < 0x110000))

inductive Item where
  | char (cp : Nat)
  | bad (bytes : List Nat)
  deriving Repr, DecidableEq

/-- what the first item of a non-empty remaining input is, and how many bytes it spans. -/
def firstItem (l : List Nat) : Item × Nat :=
  match decodeFirst l with
  | .ok cp n => (.char cp, n)
  | .invalid n => (.bad (l.take n), n)
  | .incomplete => (.bad l, l.length)

/-- the UTF-8 decoding of a whole byte string: characters and invalid sequences in order
    (fuel = length suffices since every item spans at least one byte). -/
def decodeAllF : Nat → List Nat → List Item
  | 0, _ => []
  | _, [] => []
  | fuel+1, l =>
      let (it, n) := firstItem l
      it :: decodeAllF fuel (l.drop n)

def decodeAll (l : List Nat) : List Item := decodeAllF l.length l

end Scryer.Utf8
