import ScryerModel.Model.Solve
/-
C12 — exceptions, catch/throw and setup_call_cleanup/3 with observable side effects.

`Scryer.Exc` is the shared reference interpreter `Scryer.Solve` (same substitutions, unification,
renaming, builtins, goal classification, ball copying — all imported, nothing re-defined) with

* the answer list replaced by an *item list*: `ev t` (a side effect: the program called `ev(T)`,
  `t` is the copy of `T` that was recorded), `ans s` (an answer), and the markers `su` (the set-up
  goal of a `setup_call_cleanup/3` completed) and `cl k` (a clean-up handler starts running, `k` says
  why).  The order of side effects relative to answers is therefore part of the result;
* the state extended by `det` ("no choice point created since the entry of the current cut scope is
  left": what `'$check_cp'` tests) and `pend` (the clean-up handlers of `setup_call_cleanup/3` goals
  that exited non-deterministically inside the current cut scope, newest first: the part of
  `cont_pts` that a cut of this scope would run);
* `setup_call_cleanup/3`:  once(Setup); Goal is run like `call/1`; the handler runs
    - `exit`  at once when Goal exits with `det` (bindings of the handler are kept, its failure is
              ignored, its ball is raised),
    - `fail`  when Goal has no (more) answers (after the set-up substitution; its ball is raised),
    - `exc`   when Goal raises a ball (after the set-up substitution; handler's own ball/failure
              ignored, then the ball is re-raised),
    - `cut`   when the choice points of Goal are pruned by `!`, `->`, `\+`, `once/1` (current
              substitution, bindings kept, ball/failure ignored), newest handler first,
    - `exc`   also when a ball passes the (non-deterministically exited) goal from outside: every
              scope boundary that propagates a ball runs the handlers pending in that scope.
  Not modelled (the generator avoids it): `setup_call_cleanup/3` inside a Setup or Cleanup goal that
  leaves choice points (scryer cuts those with `'$set_cp_by_default'`, which does not run cleaners).

The second part (`Scryer.Exc.Proto`) is a small machine mirroring the bookkeeping of
`install_scc_cleaner` / `get_scc_cleaner` / `run_cleaners` (src/machine/system_calls.rs, mod.rs):
the stack `cont_pts` of (handler, `b_cutoff`) against the choice point register `b` — with the REPAIRED
comparison in the clean-up loop (finding C12-2; `runCleanersPinned` keeps the pinned one).
-/
namespace Scryer.Exc
open Scryer Scryer.Solve

/-- why a clean-up handler runs -/
inductive CK where
  | exit | fail | exc | cut
  deriving Repr, BEq, DecidableEq, Inhabited

/-- a clean-up handler waiting for its goal to finish: the handler goal and the state right after
    the set-up goal (used when the handler runs after backtracking / unwinding to that point). -/
structure Pending where
  goal : Term
  σ0 : Subst
  ctr0 : Nat
  deriving Repr, Inhabited

structure XS where
  σ : Subst
  ctr : Nat
  /-- no choice point created since the entry of the current cut scope is left -/
  det : Bool
  /-- handlers of non-deterministically exited `setup_call_cleanup/3` goals in this cut scope -/
  pend : List Pending
  deriving Repr, Inhabited

inductive Item where
  | ev (t : Term)
  | su
  | cl (k : CK)
  | ans (s : XS)
  deriving Repr, Inhabited

structure XRes where
  items : List Item
  cut : Bool
  exc : Option (Term × Nat)
  oof : Bool
  deriving Repr, Inhabited

namespace XRes
def oofR : XRes := ⟨[], false, .none, true⟩
def none : XRes := ⟨[], false, .none, false⟩
def one (s : XS) : XRes := ⟨[.ans s], false, .none, false⟩
def throw (e : Term × Nat) : XRes := ⟨[], false, some e, false⟩
end XRes

/-- entry of a new cut scope (call/N, a clause body is similar) -/
def XS.fresh (s : XS) : XS := ⟨s.σ, s.ctr, true, []⟩

/-- an answer `a` of an inner scope, seen from the scope that was in state `s` at the call. -/
def XS.join (s a : XS) : XS := ⟨a.σ, a.ctr, s.det && a.det, a.pend ++ s.pend⟩

def joinItems (s : XS) : List Item → List Item
  | [] => []
  | .ans a :: rest => .ans (s.join a) :: joinItems s rest
  | .ev t :: rest => .ev t :: joinItems s rest
  | .su :: rest => .su :: joinItems s rest
  | .cl k :: rest => .cl k :: joinItems s rest

/-- the items before the first answer, and the first answer with what follows it. -/
def splitFirst : List Item → List Item × Option (XS × List Item)
  | [] => ([], .none)
  | .ans a :: rest => ([], some (a, rest))
  | .ev t :: rest => let r := splitFirst rest; (.ev t :: r.1, r.2)
  | .su :: rest => let r := splitFirst rest; (.su :: r.1, r.2)
  | .cl k :: rest => let r := splitFirst rest; (.cl k :: r.1, r.2)

def answersOf : List Item → List XS
  | [] => []
  | .ans a :: rest => a :: answersOf rest
  | _ :: rest => answersOf rest

def nonAnswers : List Item → List Item
  | [] => []
  | .ans _ :: rest => nonAnswers rest
  | it :: rest => it :: nonAnswers rest

/-- `call/1` of a goal in a fresh cut scope (raw result: answers are in the inner scope's terms) -/
abbrev Call := XS → Term → XRes

/-! ### running clean-up handlers -/

structure COut where
  items : List Item
  st : Option (Subst × Nat)
  exc : Option (Term × Nat)
  oof : Bool

/-- `once(C)` from `(σ, ctr)`: side effects up to the first answer (or all of them). -/
def runClean (call : Call) (σ : Subst) (ctr : Nat) (c : Term) : COut :=
  let r := call ⟨σ, ctr, true, []⟩ c
  if r.oof then ⟨[], .none, .none, true⟩
  else
    match splitFirst r.items with
    | (pre, some (a, _)) => ⟨pre, some (a.σ, a.ctr), .none, false⟩
    | (pre, .none) => ⟨pre, .none, r.exc, false⟩

structure Fired where
  items : List Item
  σ : Subst
  ctr : Nat
  oof : Bool

/-- the handlers cut away by a pruning operation, newest first; each sees the current substitution,
    its bindings are kept, failure and balls are ignored (`run_cleaners_with_handling`). -/
def fireCut (call : Call) : List Pending → Subst → Nat → Fired
  | [], σ, c => ⟨[], σ, c, false⟩
  | p :: ps, σ, c =>
      let o := runClean call σ c p.goal
      if o.oof then ⟨[], σ, c, true⟩
      else
        let st := o.st.getD (σ, c)
        let f := fireCut call ps st.1 st.2
        if f.oof then ⟨[], σ, c, true⟩
        else ⟨.cl .cut :: o.items ++ f.items, f.σ, f.ctr, false⟩

/-- the handlers passed by a ball, newest first; each runs from the state after its set-up goal,
    everything but its side effects is discarded. `none` = out of fuel. -/
def fireExc (call : Call) : List Pending → Option (List Item)
  | [] => some []
  | p :: ps =>
      let o := runClean call p.σ0 p.ctr0 p.goal
      if o.oof then .none
      else
        match fireExc call ps with
        | .none => .none
        | some r => some (.cl .exc :: o.items ++ r)

/-- a ball leaves the cut scope that is in state `s`: the scope's pending handlers run. -/
def propagate (call : Call) (s : XS) (r : XRes) : XRes :=
  if r.oof then XRes.oofR
  else
    match r.exc with
    | .none => r
    | some _ =>
      match fireExc call s.pend with
      | .none => XRes.oofR
      | some its => ⟨r.items ++ its, r.cut, r.exc, false⟩

/-! ### result combinators (those of `Scryer.Solve`, over items) -/

def raiseX (n : Nat) (σ : Subst) (ctr : Nat) (ball : Term) : XRes :=
  match resolve n σ ball with
  | .none => XRes.oofR
  | some b => XRes.throw (rename (sfx ctr) b, ctr + 1)

def prepend (pre : List Item) (r : XRes) : XRes :=
  if r.oof then XRes.oofR else ⟨pre ++ r.items, r.cut, r.exc, false⟩

/-- run `run` on each answer in order (side effects stay in place); stop at the first cut or ball. -/
def seqItems (run : XS → XRes) : List Item → XRes
  | [] => XRes.none
  | .ans a :: rest =>
      let r := run a
      if r.oof then XRes.oofR
      else if r.exc.isSome || r.cut then r
      else
        let r2 := seqItems run rest
        if r2.oof then XRes.oofR
        else ⟨r.items ++ r2.items, r2.cut, r2.exc, false⟩
  | .ev t :: rest => prepend [.ev t] (seqItems run rest)
  | .su :: rest => prepend [.su] (seqItems run rest)
  | .cl k :: rest => prepend [.cl k] (seqItems run rest)

def conjRes (rA : XRes) (run : XS → XRes) : XRes :=
  if rA.oof then XRes.oofR
  else
    let rl := seqItems run rA.items
    if rl.oof then XRes.oofR
    else if rl.exc.isSome || rl.cut then ⟨rl.items, rl.exc.isNone, rl.exc, false⟩
    else ⟨rl.items, rA.cut, rA.exc, false⟩

def disjRes (rA : XRes) (runB : Unit → XRes) : XRes :=
  if rA.oof then XRes.oofR
  else if rA.exc.isSome || rA.cut then rA
  else
    let rB := runB ()
    if rB.oof then XRes.oofR
    else ⟨rA.items ++ rB.items, rB.cut, rB.exc, false⟩

/-- `!`: the handlers pending in this cut scope run, then the scope is deterministic. -/
def cutRes (call : Call) (s : XS) : XRes :=
  let f := fireCut call s.pend s.σ s.ctr
  if f.oof then XRes.oofR
  else ⟨f.items ++ [.ans ⟨f.σ, f.ctr, true, []⟩], true, .none, false⟩

/-- if-then-else / `\+` / `once`: `rC` is the condition run in its own cut scope; only its first
    answer counts, the handlers pending in the condition run (the condition's choice points are
    cut), then the branch runs in the outer scope. -/
def pruneFirst (call : Call) (s : XS) (rC : XRes) (runT : XS → XRes) (runE : Unit → XRes) : XRes :=
  if rC.oof then XRes.oofR
  else
    match splitFirst rC.items with
    | (pre, some (a, _)) =>
        let f := fireCut call a.pend a.σ a.ctr
        if f.oof then XRes.oofR
        else prepend (pre ++ f.items) (runT ⟨f.σ, f.ctr, s.det, s.pend⟩)
    | (pre, .none) =>
        match rC.exc with
        | some e => propagate call s ⟨pre, false, some e, false⟩
        | .none => prepend pre (runE ())

/-- `call/N` body in a fresh cut scope; errors of `call/N` itself are balls of the caller. -/
def callInner (rec : Term → XS → XRes) (n : Nat) (s : XS) (g : Term) (extra : List Term) : XRes :=
  match resolve n s.σ g with
  | .none => XRes.oofR
  | some (.var _) => raiseX n s.σ s.ctr (mkError instErr)
  | some g' =>
    match addArgs g' extra with
    | .none => raiseX n s.σ s.ctr (mkError (typeErr "callable" g'))
    | some g'' =>
      match bodyOk n g'' with
      | .none => XRes.oofR
      | some false => raiseX n s.σ s.ctr (mkError (typeErr "callable" g''))
      | some true =>
        let r := rec g'' s.fresh
        if r.oof then XRes.oofR else ⟨r.items, false, r.exc, false⟩

def mkCall (rec : Term → XS → XRes) (n : Nat) : Call := fun s g => callInner rec n s g []

/-- the raw result of an inner scope seen from the caller in state `s`. -/
def leave (call : Call) (s : XS) (r : XRes) : XRes :=
  if r.oof then XRes.oofR
  else propagate call s ⟨joinItems s r.items, false, r.exc, false⟩

def callGoal (rec : Term → XS → XRes) (n : Nat) (s : XS) (g : Term) (extra : List Term) : XRes :=
  leave (mkCall rec n) s (callInner rec n s g extra)

/-- `catch(G, C, R)`: the ball of `G` is unified with `C` under the substitution *at entry*;
    recovery continues from there. A ball that does not match leaves the scope. -/
def catchRes (rec : Term → XS → XRes) (n : Nat) (s : XS) (g c r : Term) : XRes :=
  let rG := callInner rec n s g []
  if rG.oof then XRes.oofR
  else
    match rG.exc with
    | .none => ⟨joinItems s rG.items, false, .none, false⟩
    | some (ball, c') =>
      match unify n s.σ c ball with
      | .none => XRes.oofR
      | some .none => propagate (mkCall rec n) s ⟨joinItems s rG.items, false, rG.exc, false⟩
      | some (some σ') =>
        prepend (joinItems s rG.items) (leave (mkCall rec n) s (callInner rec n ⟨σ', c', s.det, s.pend⟩ r []))

def stOf (a : XS) : St := ⟨a.σ, a.ctr⟩

def findallRes (rec : Term → XS → XRes) (n : Nat) (s : XS) (t g l : Term) : XRes :=
  let rG := callInner rec n s g []
  if rG.oof then XRes.oofR
  else
    let evs := nonAnswers rG.items
    match rG.exc with
    | some e => propagate (mkCall rec n) s ⟨evs, false, some e, false⟩
    | .none =>
      match instances n t s.ctr ((answersOf rG.items).map stOf) with
      | .none => XRes.oofR
      | some ts =>
        let c' := s.ctr + ts.length
        match isPartialList n s.σ l with
        | .none => XRes.oofR
        | some false =>
            propagate (mkCall rec n) s (prepend evs (raiseX n s.σ c' (mkError (typeErr "list" l))))
        | some true =>
          match unify n s.σ l (Term.ofList ts) with
          | .none => XRes.oofR
          | some .none => ⟨evs, false, .none, false⟩
          | some (some σ') => ⟨evs ++ [.ans ⟨σ', c', s.det, s.pend⟩], false, .none, false⟩

def throwX (n : Nat) (s : XS) (b : Term) : XRes :=
  match resolve n s.σ b with
  | .none => XRes.oofR
  | some (.var _) => raiseX n s.σ s.ctr (mkError instErr)
  | some b' => XRes.throw (rename (sfx s.ctr) b', s.ctr + 1)

/-- clauses in textual order; a body runs in its own cut scope which is deterministic at entry iff
    no clause is left to try (`trust_me` has popped the choice point). -/
def clauseLoop (rec : Term → XS → XRes) (n : Nat) (goal : Term) (s : XS) : List Clause → XRes
  | [] => XRes.none
  | cl :: rest =>
      match unify n s.σ goal (rename (sfx s.ctr) cl.head) with
      | .none => XRes.oofR
      | some .none => clauseLoop rec n goal s rest
      | some (some σ') =>
        let r := rec (rename (sfx s.ctr) cl.body) ⟨σ', s.ctr + 1, rest.isEmpty, []⟩
        if r.oof then XRes.oofR
        else if r.exc.isSome || r.cut then ⟨joinItems s r.items, false, r.exc, false⟩
        else
          let r2 := clauseLoop rec n goal s rest
          if r2.oof then XRes.oofR
          else ⟨joinItems s r.items ++ r2.items, false, r2.exc, false⟩

def userCall (prog : Prog) (rec : Term → XS → XRes) (n : Nat) (s : XS)
    (name : String) (args : List Term) : XRes :=
  let cls := prog.filter (clauseMatches name args.length)
  match cls with
  | [] => raiseX n s.σ s.ctr (mkError (existErr name args.length))
  | _ => clauseLoop rec n (if args.isEmpty then .atom name else .str name args) s cls

/-- the goal of a `setup_call_cleanup/3` whose set-up is done: walk over the goal's items. -/
def sccLoop (call : Call) (s : XS) (p : Pending) : List Item → Option (Term × Nat) → XRes
  | [], .none =>
      let o := runClean call p.σ0 p.ctr0 p.goal
      if o.oof then XRes.oofR else ⟨.cl .fail :: o.items, false, o.exc, false⟩
  | [], some e =>
      let o := runClean call p.σ0 p.ctr0 p.goal
      if o.oof then XRes.oofR else ⟨.cl .exc :: o.items, false, some e, false⟩
  | .ans a :: rest, e =>
      if a.det then
        let o := runClean call a.σ a.ctr p.goal
        if o.oof then XRes.oofR
        else
          match o.exc with
          | some x => ⟨.cl .exit :: o.items, false, some x, false⟩
          | .none =>
            let st := o.st.getD (a.σ, a.ctr)
            ⟨.cl .exit :: o.items ++ [.ans ⟨st.1, st.2, s.det, a.pend ++ s.pend⟩], false, .none, false⟩
      else
        prepend [.ans ⟨a.σ, a.ctr, false, a.pend ++ p :: s.pend⟩] (sccLoop call s p rest e)
  | .ev t :: rest, e => prepend [.ev t] (sccLoop call s p rest e)
  | .su :: rest, e => prepend [.su] (sccLoop call s p rest e)
  | .cl k :: rest, e => prepend [.cl k] (sccLoop call s p rest e)

def sccRes (rec : Term → XS → XRes) (n : Nat) (s : XS) (sg g c : Term) : XRes :=
  let call := mkCall rec n
  let rS := callInner rec n s sg []
  if rS.oof then XRes.oofR
  else
    match splitFirst rS.items with
    | (pre, .none) => propagate call s ⟨pre, false, rS.exc, false⟩
    | (pre, some (a, _)) =>
      match walk n a.σ c with
      | .none => XRes.oofR
      | some (.var _) => propagate call s (prepend pre (raiseX n a.σ a.ctr (mkError instErr)))
      | some _ =>
        let rG := callInner rec n ⟨a.σ, a.ctr, true, []⟩ g []
        if rG.oof then XRes.oofR
        else propagate call s (prepend (pre ++ [.su]) (sccLoop call s ⟨c, a.σ, a.ctr⟩ rG.items rG.exc))

inductive Special where
  | ev (t : Term)
  | scc (s g c : Term)
  | other

def special (name : String) (args : List Term) : Special :=
  match name, args with
  | "ev", [t] => .ev t
  | "setup_call_cleanup", [s, g, c] => .scc s g c
  | _, _ => .other

def evRes (n : Nat) (s : XS) (t : Term) : XRes :=
  match resolve n s.σ t with
  | .none => XRes.oofR
  | some t' => ⟨[.ev t', .ans s], false, .none, false⟩

def predRes (prog : Prog) (rec : Term → XS → XRes) (n : Nat) (s : XS)
    (name : String) (args : List Term) : XRes :=
  match special name args with
  | .ev t => evRes n s t
  | .scc sg g c => sccRes rec n s sg g c
  | .other =>
    match builtin n name args s.σ s.ctr with
    | .oof => XRes.oofR
    | .fail => XRes.none
    | .ok σ' => XRes.one ⟨σ', s.ctr + 1, s.det, s.pend⟩
    | .err f => propagate (mkCall rec n) s (raiseX n s.σ s.ctr (mkError f))
    | .none => propagate (mkCall rec n) s (userCall prog rec n s name args)

def step (prog : Prog) (rec : Term → XS → XRes) (n : Nat) (g : Term) (s : XS) : XRes :=
  let call := mkCall rec n
  match classify g with
  | .tru => XRes.one s
  | .fal => XRes.none
  | .cut => cutRes call s
  | .conj a b => conjRes (rec a s) (rec b)
  | .disj a b => disjRes (rec a ⟨s.σ, s.ctr, false, s.pend⟩) (fun _ => rec b s)
  | .ite c t e => pruneFirst call s (rec c s.fresh) (rec t) (fun _ => rec e s)
  | .ifThen c t => pruneFirst call s (rec c s.fresh) (rec t) (fun _ => XRes.none)
  | .naf g => pruneFirst call s (callInner rec n s g []) (fun _ => XRes.none) (fun _ => XRes.one s)
  | .once g => pruneFirst call s (callInner rec n s g []) XRes.one (fun _ => XRes.none)
  | .call g extra => callGoal rec n s g extra
  | .var v => callGoal rec n s (.var v) []
  | .num t => propagate call s (raiseX n s.σ s.ctr (mkError (typeErr "callable" t)))
  | .catch g c r => catchRes rec n s g c r
  | .findall t g l => findallRes rec n s t g l
  | .throw b => propagate call s (throwX n s b)
  | .pred name args => predRes prog rec n s name args

/-- the trace interpreter. -/
def solve : Nat → Prog → Term → XS → XRes
  | 0, _, _, _ => XRes.oofR
  | n+1, prog, g, s => step prog (solve n prog) n g s

/-- a top-level query, run to exhaustion. -/
def runTop (fuel : Nat) (prog : Prog) (goal : Term) : XRes :=
  callInner (solve fuel prog) fuel ⟨[], 0, true, []⟩ goal []

/-! ## The clean-up bookkeeping of the machine (`cont_pts`, `b_cutoff`, `run_cleaners`)

`b` is the choice point register (height of the OR stack), `cont` is `cont_pts` (newest first):
handler id and `b_cutoff` = the value of `b` when the handler was installed (the choice point of
`scc_helper/3` is the newest one at that moment).  `ran` logs the handlers that were run. -/
namespace Proto

structure PS where
  b : Nat
  cont : List (Nat × Nat)
  ran : List Nat
  deriving Repr, Inhabited, DecidableEq

/-- `run_cleaners` (src/machine/mod.rs) iterated through `run_cleaners_with[out]_handling` /
    `'$get_scc_cleaner'`: as long as the newest entry has `b < b_cutoff`, pop it and run it. -/
def runCleaners (b : Nat) : List (Nat × Nat) → List (Nat × Nat) × List Nat
  | [] => ([], [])
  | (id, cutoff) :: rest =>
      if b < cutoff then
        let r := runCleaners b rest
        (r.1, id :: r.2)
      else ((id, cutoff) :: rest, [])

/-- the loop as the pinned code runs it (finding C12-2): `run_cleaners` (Rust) starts it only if the
    newest entry has `b < b_cutoff`, but `'$get_scc_cleaner'`, which pops the entries one by one,
    compares with `b <= b_cutoff`: once started, the loop also takes the entry whose `scc_helper/3`
    choice point is exactly the new top of the stack, i.e. the handler of a goal that is still
    running. (`runCleaners` above is the repaired loop: strict comparison throughout.) -/
def runCleanersLe (b : Nat) : List (Nat × Nat) → List (Nat × Nat) × List Nat
  | [] => ([], [])
  | (id, cutoff) :: rest =>
      if b ≤ cutoff then
        let r := runCleanersLe b rest
        (r.1, id :: r.2)
      else ((id, cutoff) :: rest, [])

def runCleanersPinned (b : Nat) : List (Nat × Nat) → List (Nat × Nat) × List Nat
  | [] => ([], [])
  | (id, cutoff) :: rest =>
      if b < cutoff then
        let r := runCleanersLe b rest
        (r.1, id :: r.2)
      else ((id, cutoff) :: rest, [])

inductive Op where
  /-- a goal pushes a choice point -/
  | push
  /-- backtracking pops an exhausted ordinary choice point (not the one of an scc_helper) -/
  | pop
  /-- `scc_helper/3` clause 1: its choice point is pushed, `'$install_scc_cleaner'` -/
  | install (id : Nat)
  /-- the goal exits; `'$check_cp'(Cp)`: deterministic iff `b` is still the installed cut-off -/
  | exit
  /-- a cut (`!`, `->`, `\+`, `once/1`) back to choice point level `k` -/
  | cut (k : Nat)
  /-- backtracking reaches the choice point of the newest scc_helper (clause 3) -/
  | failInto
  /-- a ball unwinds to the block at level `k` (`'$unwind_stack'` through the scc blocks newer
      than the catch block, clause 2 of scc_helper each time) -/
  | unwind (k : Nat)
  deriving Repr, DecidableEq

def step (s : PS) : Op → PS
  | .push => { s with b := s.b + 1 }
  | .pop =>
      match s.cont with
      | (_, cutoff) :: _ => if cutoff < s.b then { s with b := s.b - 1 } else s
      | [] => { s with b := s.b - 1 }
  | .install id => { s with b := s.b + 1, cont := (id, s.b + 1) :: s.cont }
  | .exit =>
      match s.cont with
      | (id, cutoff) :: rest =>
          if s.b = cutoff then ⟨s.b - 1, rest, s.ran ++ [id]⟩ else s
      | [] => s
  | .cut k =>
      if k < s.b then
        let r := runCleaners k s.cont
        ⟨k, r.1, s.ran ++ r.2⟩
      else s
  | .failInto =>
      match s.cont with
      | (id, cutoff) :: rest =>
          if s.b = cutoff then ⟨s.b - 1, rest, s.ran ++ [id]⟩ else s
      | [] => s
  | .unwind k =>
      if k ≤ s.b then
        let r := runCleaners k s.cont
        ⟨k, r.1, s.ran ++ r.2⟩
      else s

def run (s : PS) : List Op → PS
  | [] => s
  | o :: os => run (step s o) os

def init : PS := ⟨0, [], []⟩

end Proto

end Scryer.Exc
