import ScryerModel.Model.Solve
/-
C38, part A — delimited control (`reset/3`, `shift/1` of `src/lib/cont.pl`) as a frame-stack
machine for the DETERMINISTIC fragment of Prolog control.

* Goals are Prolog terms (`Scryer.Term`); the store is the triangular substitution + fresh-name
  counter of `Scryer.Solve` (unification, arithmetic and the deterministic builtins are imported
  from there, not re-modelled).
* The continuation is explicit: a stack of frames.  `Frame.goal g` = "still to run: g" (what an
  environment frame + continuation pointer is in the WAM), `Frame.marker b c` = the reset marker of a
  running `reset(_, b, c)` (`'$reset_cont_marker'` in cont.pl).
* `reset(G,B,C)` pushes `G` on top of a marker.  When `G` is finished the marker is reached and
  `C = none` is executed (scryer binds `none`; SWI-Prolog binds `0`).
* `shift(T)` splits the stack at the NEAREST marker: the marker-free prefix (the goals still to run
  up to the reset) is packed into the continuation term `'$cont'([g₁,…,gₙ])`, the marker is removed
  and `C = cont('$cont'(…))`, `B = T` are executed in the context of the reset (cont.pl binds Cont,
  then Ball).  Without a marker `shift/1` FAILS (this is what `'$unwind_environments'` does in
  scryer; there is no error).
* calling `'$cont'([g₁,…,gₙ])` pushes the goals back (what `'$call_continuation'` does with the
  chunks).  In scryer the term is `cont:call_continuation(Chunks)`; programs must treat it as opaque.
* user predicates: the clauses whose renamed head unifies with the call are determined; if there is
  exactly one, its body is pushed (deterministic fragment); none = failure; more than one = outside
  the fragment (`Step.oom`).  `( C -> T ; E )` is supported for a builtin test `C`.
* `!` is `true`: in this fragment a clause body is entered only when no other clause matches and no
  goal leaves an alternative that could succeed, so a cut has nothing to remove.
* one `step` function, total; `run` iterates it with fuel.
-/
namespace Scryer.Delim
open Scryer Scryer.Solve

inductive Frame where
  | goal (g : Term)
  | marker (ball cont : Term)
  deriving Repr, Inhabited

structure Cfg where
  frames : List Frame
  st : St
  deriving Repr, Inhabited

inductive Step where
  | next (c : Cfg)
  /-- empty stack: the whole computation succeeded -/
  | done (st : St)
  | fail
  /-- an error was raised (the fragment has no catch/3) -/
  | err (formal : Term)
  /-- outside the model: term fuel exhausted, non-deterministic clause selection, unsupported goal -/
  | oom
  deriving Repr, Inhabited

/-- split the stack at the nearest reset marker: the goals above it, the marker, the rest. -/
def splitAtMarker : List Frame → Option (List Term × Term × Term × List Frame)
  | [] => none
  | .marker b c :: fs => some ([], b, c, fs)
  | .goal g :: fs =>
      match splitAtMarker fs with
      | none => none
      | some (k, b, c, rest) => some (g :: k, b, c, rest)

/-- a Prolog list of goals -/
def encodeGoals : List Term → Term
  | [] => Term.nil
  | g :: gs => Term.cons g (encodeGoals gs)

def decodeGoals : Nat → Term → Option (List Term)
  | 0, _ => none
  | _+1, .atom "[]" => some []
  | n+1, .str "." [h, t] =>
      match decodeGoals n t with
      | some gs => some (h :: gs)
      | none => none
  | _+1, _ => none

/-- the first-class continuation made of the goals `k` -/
def contTerm (k : List Term) : Term := .str "cont" [.str "$cont" [encodeGoals k]]

def mkUnify (a b : Term) : Term := .str "=" [a, b]

/-- the clauses whose (renamed) head unifies with the goal, with the resulting substitution and
    renamed body; `none` = out of term fuel. -/
def matching (tf : Nat) (s : St) (goal : Term) : Prog → Option (List (Subst × Term))
  | [] => some []
  | cl :: rest =>
      match unify tf s.σ goal (rename (sfx s.ctr) cl.head), matching tf s goal rest with
      | none, _ => none
      | _, none => none
      | some none, some l => some l
      | some (some σ'), some l => some ((σ', rename (sfx s.ctr) cl.body) :: l)

def hasPred (name : String) (arity : Nat) : Prog → Bool
  | [] => false
  | cl :: rest =>
      (match cl.head with
       | .atom a => a == name && arity == 0
       | .str f args => f == name && args.length == arity
       | _ => false) || hasPred name arity rest

/-- call of `name(args)`: deterministic builtin, else user predicate -/
def callPred (tf : Nat) (P : Prog) (name : String) (args : List Term) (K : List Frame) (st : St) : Step :=
  match builtin tf name args st.σ st.ctr with
  | .ok σ' => .next ⟨K, ⟨σ', st.ctr + 1⟩⟩
  | .fail => .fail
  | .err f => .err f
  | .oof => .oom
  | .none =>
      if hasPred name args.length P then
        match matching tf st (if args.isEmpty then .atom name else .str name args) P with
        | none => .oom
        | some [] => .fail
        | some [(σ', body)] => .next ⟨.goal body :: K, ⟨σ', st.ctr + 1⟩⟩
        | some _ => .oom
      else .err (existErr name args.length)

/-- condition of an if-then-else: a deterministic builtin -/
def test (tf : Nat) (st : St) (c : Term) : Option (Option St) :=
  match walk tf st.σ c with
  | some (.atom "true") => some (some st)
  | some (.atom "fail") => some none
  | some (.atom "false") => some none
  | some (.str f args) =>
      match builtin tf f args st.σ st.ctr with
      | .ok σ' => some (some ⟨σ', st.ctr + 1⟩)
      | .fail => some none
      | _ => none
  | _ => none

/-- the kind of a (dereferenced) goal -/
inductive GK where
  | var
  | tru
  | fal
  | conj (a b : Term)
  | call (a : Term)
  | reset (a b c : Term)
  | shift (t : Term)
  | cont (l : Term)
  | ite (c t e : Term)
  | pred (name : String) (args : List Term)
  | bad
  deriving Repr, Inhabited

def classify : Term → GK
  | .var _ => .var
  | .atom "true" => .tru
  | .atom "!" => .tru
  | .atom "fail" => .fal
  | .atom "false" => .fal
  | .atom a => .pred a []
  | .str "," [a, b] => .conj a b
  | .str "call" [a] => .call a
  | .str "reset" [a, b, c] => .reset a b c
  | .str "shift" [t] => .shift t
  | .str "$cont" [l] => .cont l
  | .str ";" [.str "->" [c, t], e] => .ite c t e
  | .str f args => .pred f args
  | _ => .bad

def stepGoal (tf : Nat) (P : Prog) (g : Term) (K : List Frame) (st : St) : GK → Step
  | .var => .err instErr
  | .tru => .next ⟨K, st⟩
  | .fal => .fail
  | .conj a b => .next ⟨.goal a :: .goal b :: K, st⟩
  | .call a => .next ⟨.goal a :: K, st⟩
  | .reset a b c => .next ⟨.goal a :: .marker b c :: K, st⟩
  | .shift t =>
      match splitAtMarker K with
      | none => .fail
      | some (k, b, c, rest) =>
          .next ⟨.goal (mkUnify c (contTerm k)) :: .goal (mkUnify b t) :: rest, st⟩
  | .cont l =>
      match decodeGoals tf l with
      | none => .oom
      | some gs => .next ⟨gs.map Frame.goal ++ K, st⟩
  | .ite c t e =>
      match test tf st c with
      | none => .oom
      | some (some st') => .next ⟨.goal t :: K, st'⟩
      | some none => .next ⟨.goal e :: K, st⟩
  | .pred f args => callPred tf P f args K st
  | .bad => .err (typeErr "callable" g)

def step (tf : Nat) (P : Prog) : Cfg → Step
  | ⟨[], st⟩ => .done st
  | ⟨.marker _ c :: K, st⟩ => .next ⟨.goal (mkUnify c (.atom "none")) :: K, st⟩
  | ⟨.goal g :: K, st⟩ =>
      match walk tf st.σ g with
      | none => .oom
      | some g' => stepGoal tf P g K st (classify g')

inductive Outcome where
  | success (st : St)
  | failure
  | error (formal : Term)
  | oom
  /-- step budget exhausted -/
  | timeout
  deriving Repr, Inhabited

def run (tf : Nat) (P : Prog) : Nat → Cfg → Outcome
  | 0, _ => .timeout
  | n+1, c =>
      match step tf P c with
      | .next c' => run tf P n c'
      | .done st => .success st
      | .fail => .failure
      | .err f => .error f
      | .oom => .oom

end Scryer.Delim
