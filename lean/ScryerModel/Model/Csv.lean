/-!
# Model of `library(csv)` (`/repo/src/lib/csv.pl`) — property C51

Texts are `List Char`. The reader mirrors the DCG of `csv.pl` non-terminal by
non-terminal (`tokens//2`, `field//2`, `string_tokens//2`, `end_token//0`, `row//2`, `rows//2`,
`parse_csv//2`), following the FIRST solution (every non-terminal that is re-entered is
protected by a cut in the source; see notes/design/C51.md for the one place — the header row of
`parse_csv//2` — where choice points survive and why they cannot change the outcome).

The writer exists twice:

* `writeCsv` — the DOCUMENTED format: the rows of the documented frame
  `frame(Header, Rows)`, string fields written as RFC 4180 quoted fields (quotes doubled),
  numbers bare, `[]` (null) as the `null_value` text (nothing when `empty`), fields joined by
  `token_separator`, lines joined by `line_separator` (no trailing one), header line first
  when `with_header(true)`. This is what the theorems of `Props/C51.lean` are about.
* `writeCsvAsIs` — the same control structure (`write_field/3`, `write_row/3`,
  `write_rows/3`, `write_csv_/3`) with the two places where the present code departs from
  the documented format made explicit (used by the correspondence run to keep watching the
  writer while those defects are open):
  - a string field goes through `format(Out, "~w", [Chars])`, and `~w` writes a list of
    characters in list syntax `[a,b,c]`, not as text;
  - `write_rows/3` has no clause for the empty list, so a frame without rows fails.

Fields. `Field.null` is `[]`; `Field.str s` (with `s ≠ []`) is the Prolog string `s`; note that
the empty string `""` and `[]` are the same Prolog term, so `str []` is never produced by the
reader (`mkStr`) and is written like `null`. Integers are exact (`Int`). A float is
represented by its lexeme: how a double is printed by `~w` and read by `number_chars/2` is
not CSV's business (trusted, see the design note); CSV's contribution is that the lexeme
survives, and that it is typed as a float again.
-/
namespace Scryer.Csv

inductive Field where
  | null
  | str (s : List Char)
  | int (i : Int)
  | flt (lex : List Char)
  deriving DecidableEq, Repr

structure Frame where
  header : List Field
  rows : List (List Field)
  deriving DecidableEq, Repr

/-- `token_separator(C)`, `with_header(B)`, `line_separator(A)`, `null_value(empty | A)`.
    The reader only looks at the first two. -/
structure Opts where
  sep : Char := ','
  withHeader : Bool := true
  lineSep : List Char := ['\n']
  nullValue : Option (List Char) := none
  deriving DecidableEq, Repr

/-! ## numbers: decimal digits -/

def isDigit (c : Char) : Bool := 48 ≤ c.toNat && c.toNat ≤ 57

def digitVal (c : Char) : Nat := c.toNat - 48

def digitChar (d : Nat) : Char := Char.ofNat (d + 48)

def natOfDigits (ds : List Char) : Nat := ds.foldl (fun a c => 10 * a + digitVal c) 0

/-- decimal digits, most significant first. `k` is fuel: an upper bound of the number of
    digits (`n < 2^k` is enough; structural recursion on a small fuel keeps the function
    evaluable inside proofs). -/
def natDigitsAux : Nat → Nat → List Char
  | 0, n => [digitChar (n % 10)]
  | k + 1, n => if n < 10 then [digitChar n] else natDigitsAux k (n / 10) ++ [digitChar (n % 10)]

def natDigits (n : Nat) : List Char := natDigitsAux (n.log2 + 1) n

/-- what `~w` prints for an integer -/
def renderInt (i : Int) : List Char :=
  if i < 0 then '-' :: natDigits i.natAbs else natDigits i.toNat

/-! ## typing of an unquoted token: `catch(number_chars(R, R0), _, R = R0)`

Modelled fragment of the number syntax accepted by `number_chars/2`: optional layout
(blank, tab), optional `-`, optional layout, then `digits` (an integer of any size) or
`digits.digits` with an optional exponent `e|E [+|-] digits` (a float). Everything else is
typed as a string. NOT modelled (the generator of the correspondence run stays away from
them): radix and character-code notations `0x.. 0o.. 0b.. 0'c`, digit groups `1_000`,
comments as layout, floats that overflow. -/

def isWs (c : Char) : Bool := c == ' ' || c == '\t'

def skipWs (l : List Char) : List Char := l.dropWhile isWs

def allDigits (l : List Char) : Bool := !l.isEmpty && l.all isDigit

def expOk : List Char → Bool
  | '+' :: r => allDigits r
  | '-' :: r => allDigits r
  | r => allDigits r

def classifyUnsigned (l : List Char) : Option (Nat ⊕ List Char) :=
  if (l.takeWhile isDigit).isEmpty then none else
  match l.dropWhile isDigit with
  | [] => some (.inl (natOfDigits (l.takeWhile isDigit)))
  | c :: r =>
    if c != '.' then none else
    if (r.takeWhile isDigit).isEmpty then none else
    match r.dropWhile isDigit with
    | [] => some (.inr l)
    | e :: x => if (e == 'e' || e == 'E') && expOk x then some (.inr l) else none

def classifySigned (t : List Char) (neg : Bool) (body : List Char) : Field :=
  match classifyUnsigned body with
  | none => .str t
  | some (.inl n) => .int (if neg then -(n : Int) else n)
  | some (.inr lex) => .flt (if neg then '-' :: lex else lex)

def classify (t : List Char) : Field :=
  match skipWs t with
  | '-' :: r => classifySigned t true (skipWs r)
  | r => classifySigned t false r

/-- float lexemes: `[-] digits . digits [ (e|E) [+|-] digits ]` -/
def unsignedFloatLex (l : List Char) : Bool :=
  match classifyUnsigned l with
  | some (.inr _) => true
  | _ => false

def isFloatLex : List Char → Bool
  | '-' :: r => unsignedFloatLex r
  | r => unsignedFloatLex r

/-- the characters that can occur in a written number -/
def isNumChar (c : Char) : Bool :=
  isDigit c || c == '-' || c == '+' || c == '.' || c == 'e' || c == 'E'

/-! ## reader (DCG of csv.pl) -/

/-- `tokens//2`: the longest prefix without separator / CR / LF; the terminator is pushed
    back. Clause order of the source: separator, "\r\n", "\n", "\r", any character, end.
    (The "\r\n" clause stops exactly where the "\r" clause would.) -/
def tokens (sep : Char) : List Char → List Char × List Char
  | [] => ([], [])
  | c :: cs =>
    if c = sep then ([], c :: cs)
    else if c = '\n' then ([], c :: cs)
    else if c = '\r' then ([], c :: cs)
    else ((c :: (tokens sep cs).1), (tokens sep cs).2)

/-- `string_tokens//2`: after the opening quote. `""` is a quote, a single `"` ends the
    field; running out of input fails (unterminated quoted field). -/
def stringTokens : List Char → Option (List Char × List Char)
  | [] => none
  | c :: cs =>
    if c = '"' then
      match cs with
      | [] => some ([], [])
      | d :: ds =>
        if d = '"' then (stringTokens ds).map (fun p => ('"' :: p.1, p.2))
        else some ([], d :: ds)
    else (stringTokens cs).map (fun p => (c :: p.1, p.2))

/-- `""` and `[]` are the same term -/
def mkStr : List Char → Field
  | [] => .null
  | s => .str s

/-- `field//2`: quoted field (committed by the cut), typed unquoted token, or empty. -/
def field (sep : Char) : List Char → Option (Field × List Char)
  | [] => some (.null, [])
  | c :: cs =>
    if c = '"' then (stringTokens cs).map (fun p => (mkStr p.1, p.2))
    else
      let p := tokens sep (c :: cs)
      if p.1 = [] then some (.null, c :: cs) else some (classify p.1, p.2)

/-- `end_token//0`, first alternative that applies: "\r\n", "\n", "\r", nothing. -/
def endToken : List Char → List Char
  | '\r' :: '\n' :: r => r
  | '\n' :: r => r
  | '\r' :: r => r
  | r => r

/-- `row//2`: `field, !, ( separator -> row ; end_token )`. Fuel = an upper bound of the
    number of fields. -/
def rowF (sep : Char) : Nat → List Char → Option (List Field × List Char)
  | 0, _ => none
  | n + 1, cs =>
    match field sep cs with
    | none => none
    | some (f, r) =>
      match r with
      | [] => some ([f], [])
      | c :: r' =>
        if c = sep then (rowF sep n r').map (fun p => (f :: p.1, p.2))
        else some ([f], endToken (c :: r'))

def row (sep : Char) (cs : List Char) : Option (List Field × List Char) :=
  rowF sep (cs.length + 1) cs

/-- `rows//2`: `row(X), !, ( X \== [[]] -> rows(Y), R = [X|Y] ; R = [] )`: a row that is a single
    empty field (a blank line, or the end of the text) ends the table. -/
def rowsF (sep : Char) : Nat → List Char → Option (List (List Field) × List Char)
  | 0, _ => none
  | n + 1, cs =>
    match row sep cs with
    | none => none
    | some (x, r) =>
      if x = [Field.null] then some ([], r)
      else (rowsF sep n r).map (fun p => (x :: p.1, p.2))

def rows (sep : Char) (cs : List Char) : Option (List (List Field) × List Char) :=
  rowsF sep (cs.length + 1) cs

/-- `phrase(parse_csv(frame(H, Rs), Opts), Text)`: `some` frame, or `none` when the phrase
    fails (which includes text left over). -/
def parseCsv (o : Opts) (cs : List Char) : Option Frame :=
  if o.withHeader then
    match row o.sep cs with
    | none => none
    | some (h, r) =>
      if h = [Field.null] then none
      else
        match rows o.sep (endToken r) with
        | some (rs, []) => some ⟨h, rs⟩
        | _ => none
  else
    match rows o.sep cs with
    | some (rs, []) => some ⟨[], rs⟩
    | _ => none

/-! ## writer -/

/-- `escaped_field/2`: double every quote -/
def escapeQ : List Char → List Char
  | [] => []
  | c :: r => if c = '"' then '"' :: '"' :: escapeQ r else c :: escapeQ r

/-- RFC 4180 quoted field -/
def quoteField (s : List Char) : List Char := '"' :: (escapeQ s ++ ['"'])

/-- reading a quoted field back (used in the statement of the field round trip) -/
def parseField (t : List Char) : Option (List Char) :=
  match t with
  | '"' :: cs => match stringTokens cs with
    | some (s, []) => some s
    | _ => none
  | _ => none

def renderNull (o : Opts) : List Char := o.nullValue.getD []

/-- `write_field/3`, documented format -/
def renderField (o : Opts) : Field → List Char
  | .null => renderNull o
  | .str s => if s = [] then renderNull o else quoteField s
  | .int i => renderInt i
  | .flt l => l

/-- what `format("~w", [Chars])` prints for a list of characters: list syntax -/
def listSyntax (s : List Char) : List Char :=
  '[' :: ((List.intercalate [','] (s.map fun c => [c])) ++ [']'])

/-- `write_field/3` as the code stands -/
def renderFieldAsIs (o : Opts) : Field → List Char
  | .str s => if s = [] then renderNull o else listSyntax (escapeQ s)
  | f => renderField o f

/-- `write_row/3` (no clause for the empty row: failure) -/
def writeRow (rf : Field → List Char) (sep : Char) : List Field → Option (List Char)
  | [] => none
  | [f] => some (rf f)
  | f :: g :: r => (writeRow rf sep (g :: r)).map (fun t => rf f ++ sep :: t)

/-- `write_rows/3`; `emptyOk = false` is the code as it stands (no clause for `[]`). -/
def writeRows (rf : Field → List Char) (emptyOk : Bool) (sep : Char) (ls : List Char) :
    List (List Field) → Option (List Char)
  | [] => if emptyOk then some [] else none
  | [r] => writeRow rf sep r
  | r :: s :: t =>
    match writeRow rf sep r, writeRows rf emptyOk sep ls (s :: t) with
    | some a, some b => some (a ++ ls ++ b)
    | _, _ => none

/-- `write_csv_/3` -/
def writeCsvG (rf : Field → List Char) (emptyOk : Bool) (o : Opts) (t : Frame) : Option (List Char) :=
  if o.withHeader then
    match writeRow rf o.sep t.header, writeRows rf emptyOk o.sep o.lineSep t.rows with
    | some a, some b => some (a ++ o.lineSep ++ b)
    | _, _ => none
  else writeRows rf emptyOk o.sep o.lineSep t.rows

/-- the documented writer -/
def writeCsv (o : Opts) (t : Frame) : Option (List Char) := writeCsvG (renderField o) true o t

/-- the writer as the code stands -/
def writeCsvAsIs (o : Opts) (t : Frame) : Option (List Char) := writeCsvG (renderFieldAsIs o) false o t

/-! ## well-formedness (hypotheses of the round trip) -/

def sepOk (o : Opts) : Bool :=
  o.sep != '"' && o.sep != '\n' && o.sep != '\r'

def lineSepOk (o : Opts) : Bool :=
  o.lineSep == ['\n'] || o.lineSep == ['\r', '\n'] || o.lineSep == ['\r']

/-- a field of a documented type whose written form does not contain the separator -/
def fieldOk (o : Opts) : Field → Bool
  | .null => o.nullValue.isNone
  | .str s => !s.isEmpty
  | .int i => !(renderInt i).contains o.sep
  | .flt l => isFloatLex l && !l.contains o.sep

def rowOk (o : Opts) (r : List Field) : Bool :=
  !r.isEmpty && r != [Field.null] && r.all (fieldOk o)

/-- hypotheses of the round trip: sane separators; every line has at least one field and is
    not a lone empty field (that is how CSV writes "no line"); fields are strings, integers,
    float lexemes or null (null only with `null_value(empty)`: the reader has no such option),
    numbers do not contain the separator. The rows may have different widths. -/
def wf (o : Opts) (t : Frame) : Bool :=
  sepOk o && lineSepOk o && (!o.withHeader || rowOk o t.header) && t.rows.all (rowOk o)

end Scryer.Csv
