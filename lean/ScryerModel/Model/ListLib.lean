/-
C14 — the structural predicates of library(lists) and library(pairs) (src/lib/lists.pl,
src/lib/pairs.pl) as functions: one function per instantiation mode that terminates; a
non-deterministic mode returns the list of its solutions in Prolog's solution order.
These are specification-level functional versions (the Prolog clauses are two-liners); the
implementation is tied to them by the correspondence run.
Import-free.
-/
namespace Scryer.ListLib

variable {α β : Type}

/-- `append(+Xs, +Ys, -Zs)`. -/
def append3 (xs ys : List α) : List α := xs ++ ys

/-- `append(-Xs, -Ys, +Zs)`: all solutions, shortest `Xs` first. -/
def appendSplits : List α → List (List α × List α)
  | [] => [([], [])]
  | z :: zs => ([], z :: zs) :: (appendSplits zs).map fun p => (z :: p.1, p.2)

/-- `append(+ListOfLists, -List)`. -/
def append2 (ls : List (List α)) : List α := ls.foldr (· ++ ·) []

/-- `reverse/2`, with the accumulator of lists.pl `reverse/4`. -/
def revAcc : List α → List α → List α
  | [], acc => acc
  | x :: xs, acc => revAcc xs (x :: acc)

def reverse (xs : List α) : List α := revAcc xs []

/-- `nth0(+N, +List, -Elem)`. -/
def nth0 : Nat → List α → Option α
  | _, [] => none
  | 0, x :: _ => some x
  | n + 1, _ :: xs => nth0 n xs

/-- `nth1(+N, +List, -Elem)` (`N \== 0`). -/
def nth1 (n : Nat) (l : List α) : Option α := if n == 0 then none else nth0 (n - 1) l

/-- `nth0(-N, +List, -Elem)`: all solutions in order. -/
def nth0All (l : List α) : List (Nat × α) :=
  go 0 l
where go : Nat → List α → List (Nat × α)
  | _, [] => []
  | i, x :: xs => (i, x) :: go (i + 1) xs

/-- `nth0(+N, +List, -Elem, -Rest)`. -/
def nth0Rest : Nat → List α → Option (α × List α)
  | _, [] => none
  | 0, x :: xs => some (x, xs)
  | n + 1, x :: xs => (nth0Rest n xs).map fun p => (p.1, x :: p.2)

/-- `select(-X, +Xs, -Ys)`: all solutions in order. -/
def selects : List α → List (α × List α)
  | [] => []
  | x :: xs => (x, xs) :: (selects xs).map fun p => (p.1, x :: p.2)

/-- `permutation(+Xs, -Ys)`: all solutions in order (`perm/2`: `select` then recurse).
    `fuel` ≥ length. -/
def perms : Nat → List α → List (List α)
  | _, [] => [[]]
  | 0, _ => []
  | fuel + 1, l => (selects l).flatMap fun p => (perms fuel p.2).map fun q => p.1 :: q

/-- `sum_list/2` on integers. -/
def sumList (l : List Int) : Int := l.foldl (fun s x => s + x) 0

/-- `list_max/2`, `list_min/2` on integers (fail on `[]`). -/
def listMax : List Int → Option Int
  | [] => none
  | n :: ns => some (ns.foldl (fun m x => max x m) n)

def listMin : List Int → Option Int
  | [] => none
  | n :: ns => some (ns.foldl (fun m x => min x m) n)

/-- is `x` `==` to an element of `l`? -/
def memEq (cmp : α → α → Ordering) (x : α) (l : List α) : Bool := l.any fun y => cmp x y == .eq

/-- `list_to_set/2`: the first occurrence of every `==` class, in input order. -/
def listToSet (cmp : α → α → Ordering) (l : List α) : List α :=
  go l []
where go : List α → List α → List α
  | [], _ => []
  | x :: xs, seen => if memEq cmp x seen then go xs seen else x :: go xs (x :: seen)

/-- `memberchk/2` for a ground element (`==` is what unification of ground terms decides). -/
def memberchk (cmp : α → α → Ordering) (x : α) (l : List α) : Bool := memEq cmp x l

/-! ### library(pairs) -/

/-- `pairs_keys_values(+Pairs, -Keys, -Values)`. -/
def pairsKeysValues (ps : List (α × β)) : List α × List β := (ps.map (·.1), ps.map (·.2))

/-- `pairs_keys_values(-Pairs, +Keys, +Values)` (fails when the lengths differ). -/
def pairsOfKeysValues : List α → List β → Option (List (α × β))
  | [], [] => some []
  | k :: ks, v :: vs => (pairsOfKeysValues ks vs).map fun r => (k, v) :: r
  | _, _ => none

/-- `same_key(K0, Pairs, Vs, Rest)`: the values of the leading pairs whose key is `==` `K0`. -/
def sameKey (cmp : α → α → Ordering) (k0 : α) : List (α × β) → List β × List (α × β)
  | [] => ([], [])
  | (k1, v) :: kvs =>
    if cmp k0 k1 == .eq then
      let r := sameKey cmp k0 kvs
      (v :: r.1, r.2)
    else ([], (k1, v) :: kvs)

theorem sameKey_length (cmp : α → α → Ordering) (k0 : α) (l : List (α × β)) :
    (sameKey cmp k0 l).2.length ≤ l.length := by
  induction l with
  | nil => simp [sameKey]
  | cons p kvs ih =>
    obtain ⟨k1, v⟩ := p
    simp only [sameKey]
    split
    · simp only [List.length_cons]; omega
    · simp

/-- `group_pairs_by_key/2`: runs of adjacent pairs with `==` keys are joined. -/
def groupPairsByKey (cmp : α → α → Ordering) : List (α × β) → List (α × List β)
  | [] => []
  | (k, v) :: kvs =>
    (k, v :: (sameKey cmp k kvs).1) :: groupPairsByKey cmp (sameKey cmp k kvs).2
termination_by l => l.length
decreasing_by
  have := sameKey_length cmp k kvs
  simp only [List.length_cons]; omega

end Scryer.ListLib
