import ScryerModel.Model.Term
/-
C13 — the standard order of terms as scryer-prolog implements it.

Mirrors (src/heap_iter.rs `ParallelHeapIter::next`, src/types.rs `order_category`,
src/machine/machine_state_impl.rs `compare_term_test`, src/arithmetic.rs `Ord for Number`,
src/atom_table.rs `Ord for Atom`):

* every pair is first compared by `order_category`
  (`Variable < FloatingPoint < Integer < Atom < Compound`, rationals are in `Integer`);
* same category: variables by their heap address (model: an `age : String → Nat` supplied
  from outside), floats by IEEE value with `-0.0 = 0.0` (`OrderedFloat`: all NaNs equal and
  above everything), integers/rationals by exact value, atoms by `as_str()` comparison,
  compounds by `(arity, name)` and then the arguments, first difference in pre-order
  (the LIFO stack of pairs is popped left-to-right) decides;
* `Lis`, `PStrLoc` and `Str` cells are three heap representations of compounds; in the model
  a list cell IS the compound `'.'(H,T)` and a (partial) string IS the list of its
  one-char atoms (`Term.ofChars`), so the 9 representation pairings collapse into the one
  `str/str` clause. That the pairings behave alike is what the correspondence run checks.

Abstracted: heap layout, dereferencing, the tabu list for cyclic terms (model terms are
finite trees), attributed variables (ordinary variables here).
Import-free (only the shared Term model).
-/
namespace Scryer.Order
open Scryer

/-- `TermOrderCategory` as a number: Variable 0, FloatingPoint 1, Integer (and Rational) 2,
    Atom 3, Compound 4. -/
def cat : Term → Nat
  | .var _ => 0
  | .flt _ => 1
  | .int _ => 2
  | .rat _ _ => 2
  | .atom _ => 3
  | .str _ _ => 4

/-- lexicographic comparison of two lists, a proper prefix is smaller. -/
def cmpList {α : Type} (cmp : α → α → Ordering) : List α → List α → Ordering
  | [], [] => .eq
  | [], _ :: _ => .lt
  | _ :: _, [] => .gt
  | a :: as, b :: bs => (cmp a b).then (cmpList cmp as bs)

/-! ### atoms -/

/-- the code points of an atom's text. -/
def codes (s : String) : List Nat := s.toList.map Char.toNat

/-- atoms compare by their code-point sequences (the statement's wording). -/
def atomCmp (s t : String) : Ordering := cmpList compare (codes s) (codes t)

/-- UTF-8 encoding of one code point (as Rust `str` stores it), bytes as `Nat`. -/
def utf8 (c : Nat) : List Nat :=
  if c < 0x80 then [c]
  else if c < 0x800 then [0xC0 + c / 64, 0x80 + c % 64]
  else if c < 0x10000 then [0xE0 + c / 4096, 0x80 + c / 64 % 64, 0x80 + c % 64]
  else [0xF0 + c / 262144, 0x80 + c / 4096 % 64, 0x80 + c / 64 % 64, 0x80 + c % 64]

def utf8s (cs : List Nat) : List Nat := cs.flatMap utf8

/-- what `Ord for Atom` literally does: byte-wise lexicographic comparison of the UTF-8
    texts (`self.as_str().cmp(other.as_str())`). Proved equal to `atomCmp`. -/
def atomCmpBytes (s t : String) : Ordering := cmpList compare (utf8s (codes s)) (utf8s (codes t))

/-! ### numbers -/

/-- exact comparison of `n₁/d₁` and `n₂/d₂` (denominators positive) by cross-multiplication. -/
def ratCmp (a b : Int × Nat) : Ordering := compare (a.1 * (b.2 : Int)) (b.1 * (a.2 : Int))

/-- value of an integer or rational term as numerator/denominator. -/
def numVal : Term → Int × Nat
  | .int v => (v, 1)
  | .rat n d => (n, d)
  | _ => (0, 1)

def fltSign (b : Nat) : Bool := (b / 2 ^ 63) % 2 == 1
def fltExp (b : Nat) : Nat := (b / 2 ^ 52) % 2048
def fltMant (b : Nat) : Nat := b % 2 ^ 52

/-- the value of a non-NaN IEEE-754 binary64 bit pattern multiplied by `2^1075` — an integer
    (`±significand · 2^exponent-field`, subnormals use exponent field 1 and no hidden bit).
    `none` for NaN. The infinities get `±2^52 · 2^2047`, i.e. the value `±2^1024` that the
    finite formula yields, which orders them correctly against every finite double. Total:
    bits above 2^64 are ignored. -/
def fltScaled (b : Nat) : Option Int :=
  let e := fltExp b
  let m := fltMant b
  if e = 2047 ∧ m ≠ 0 then none
  else
    let sig : Nat := if e = 0 then m else m + 2 ^ 52
    let ex : Nat := if e = 0 then 1 else e
    let mag : Nat := sig * 2 ^ ex
    some (if fltSign b then -(mag : Int) else (mag : Int))

/-- exact value of a double as numerator/denominator (`none` for NaN): `fltScaled / 2^1075`
    (not in lowest terms). -/
def fltToRat (b : Nat) : Option (Int × Nat) := (fltScaled b).map fun n => (n, 2 ^ 1075)

/-- `OrderedFloat<f64>::cmp`: by value (`-0.0 = 0.0`), every NaN equal to every NaN and
    greater than every number. -/
def fltCmp (x y : Nat) : Ordering :=
  match fltToRat x, fltToRat y with
  | some a, some b => ratCmp a b
  | none, none => .eq
  | none, some _ => .gt
  | some _, none => .lt

/-! ### terms -/

/-- comparison inside one category for the non-compound categories. (The last clause is
    only relevant for two numbers: for any other pair the categories already differ.) -/
def leafCompare (age : String → Nat) : Term → Term → Ordering
  | .var x, .var y => compare (age x) (age y)
  | .flt x, .flt y => fltCmp x y
  | .atom s, .atom t => atomCmp s t
  | a, b => ratCmp (numVal a) (numVal b)

mutual
/-- `compare_term_test`: category first; compounds by `(arity, name)`, then arguments. -/
def termCompare (age : String → Nat) : Term → Term → Ordering
  | .str f as, .str g bs =>
      (compare as.length bs.length).then ((atomCmp f g).then (argsCompare age as bs))
  | a, b => (compare (cat a) (cat b)).then (leafCompare age a b)
/-- the argument pairs in pre-order: the first non-equal pair decides. -/
def argsCompare (age : String → Nat) : List Term → List Term → Ordering
  | [], [] => .eq
  | [], _ :: _ => .lt
  | _ :: _, [] => .gt
  | a :: as, b :: bs => (termCompare age a b).then (argsCompare age as bs)
end

/-- `==`, `\==`, `@<`, `@=<`, `@>`, `@>=` as dispatch.rs derives them from
    `compare_term_test`. -/
def termEq (age : String → Nat) (a b : Term) : Bool := termCompare age a b == .eq
def termNe (age : String → Nat) (a b : Term) : Bool := termCompare age a b != .eq
def termLt (age : String → Nat) (a b : Term) : Bool := termCompare age a b == .lt
def termLe (age : String → Nat) (a b : Term) : Bool := termCompare age a b != .gt
def termGt (age : String → Nat) (a b : Term) : Bool := termCompare age a b == .gt
def termGe (age : String → Nat) (a b : Term) : Bool := termCompare age a b != .lt

/-! ### where a partial string's tail cell is (heap.rs, finding C13-2)

`compare_pstr_slices` walks two byte slices; when a slice reaches its terminating zero byte it
returns `Continue(TailIndex(i), …)` and `ParallelHeapIter` goes on with the heap cell
`i + cell_index!(l)` (`PStrContinuable::offset_by`), `l` being the byte offset at which that
string was entered. Mirrored here: the index arithmetic only (cells are 8 bytes; the heap base
is 8-aligned, so alignment of an address = alignment of the byte offset). -/

/-- `cell_index!`. -/
def cellIndex (b : Nat) : Nat := b / 8

/-- `pstr_sentinel_length e`: the zero bytes that follow a text ending at byte `e`
    (up to the next cell boundary; a full cell when `e` is on a boundary). -/
def sentinelLen (e : Nat) : Nat := if e % 8 = 0 then 8 else 8 - e % 8

/-- where the writer (`push_pstr_segment`, then the tail cell is pushed) puts the tail cell of
    a string whose text ends at byte `e`: after the sentinel, and after one further cell of
    zeroes when the sentinel is a single byte. -/
def tailCellWritten (e : Nat) : Nat :=
  cellIndex (e + sentinelLen e) + (if sentinelLen e = 1 then 1 else 0)

/-- `scan_slice_to_str(slice).tail_idx` for a slice that begins AT the terminating zero byte
    (which lies at byte `e`): `cell_index!((0 + sentinel).next_multiple_of(8) + (if sentinel ≤ 1
    then 8 else 0))`. -/
def tailIdxFromZero (e : Nat) : Nat :=
  cellIndex ((sentinelLen e + 7) / 8 * 8 + (if sentinelLen e ≤ 1 then 8 else 0))

/-- the cell taken as the tail of the LEFT string in the branch "`slice1` ends after `pos`
    common bytes, `slice2` goes on"; the left string was entered at byte `l1`
    (`offset_pos_1 = l1 % 8`). `fixed = false`: the pinned code, which leaves `offset_pos_1`
    out; `fixed = true`: with the patch of finding C13-2. -/
def leftTailCell (fixed : Bool) (l1 pos : Nat) : Nat :=
  tailIdxFromZero (l1 + pos) + cellIndex (if fixed then pos + l1 % 8 else pos) + cellIndex l1

/-- the same for the other two branches (both end / the right one ends), which already add the
    misalignment (`offset_pos_1`, `offset_pos_2`) in the pinned code. -/
def otherTailCell (l pos : Nat) : Nat :=
  tailIdxFromZero (l + pos) + cellIndex (pos + l % 8) + cellIndex l

end Scryer.Order
