import ScryerModel.Model.Unify
/-
C26 — executable model of the coroutining constraints dif/2, freeze/2 and when/2.

What is modelled (specification level; the Prolog libraries src/lib/dif.pl, freeze.pl, when.pl and
the wake-up mechanism src/machine/attributed_variables.{rs,pl} are tied to it by the correspondence
run only):

* a *store* is a substitution `σ` (triangular, from `Model.Unify`; always a most general unifier of
  all equations posted so far — field `eqs` keeps those equations, nothing ever reads it: it is
  the "logical content" the theorems talk about), the list `difs` of pending disequations, the
  list `allDifs` of all disequations ever posted (again only for the theorems), the suspended
  goals `susps` and the goals already woken `fired` (the run log is `fired.map id`);
* `dif(s,t)` under the current `σ` (dif.pl: `X \== Y, ( X \= Y -> true ; suspend on the variables )`):
  *violated* when `sσ` and `tσ` are identical (failure), *entailed* when they are not unifiable
  (dropped), otherwise *pending*: stored as posted and re-examined after every later unification
  (dif.pl re-posts `dif(L,R)` from `verify_attributes/3` for the variables that were bound; a
  pending dif none of whose variables was touched is unchanged, so re-examining all of them gives
  the same store);
* `freeze(X,G)` is `when(nonvar(X),G)`; `when(Cond,G)` with `Cond` built from `nonvar/1`,
  `ground/1`, `,`/2 and `;`/2 (these are the conditions accepted by `when_condition/1` of when.pl;
  `?=/2` is NOT accepted by the pinned library: domain_error).  A goal `G` is abstract: an
  identifier (what the side channel logs) plus a body, a list of unifications and dif/2 posts
  that are executed when the goal is woken (the body may wake further goals);
* `exec agenda store`: executes the operations of the agenda from left to right.  After a
  unification every pending dif is re-examined and every suspended goal whose condition now holds
  is removed from `susps`, recorded in `fired`, and its body is put in front of the agenda (the
  implementation calls the goals collected by `verify_attributes/3` right after the unification,
  depth first).  `none` is failure.

Import-free apart from `Model.Unify` (Lean core only).
-/
namespace Scryer
namespace Coroutine
open Term Unify

/-! ### decidable identity of terms (`==/2` on finite terms) -/

mutual
def eqb : Term → Term → Bool
  | .var a, .var b => decide (a = b)
  | .int a, .int b => decide (a = b)
  | .rat a b, .rat c d => decide (a = c) && decide (b = d)
  | .flt a, .flt b => decide (a = b)
  | .atom a, .atom b => decide (a = b)
  | .str f as, .str g bs => decide (f = g) && eqbL as bs
  | _, _ => false
def eqbL : List Term → List Term → Bool
  | [], [] => true
  | a :: as, b :: bs => eqb a b && eqbL as bs
  | _, _ => false
end

/-! ### syntax of postings -/

/-- conditions of `when/2` (when.pl `when_condition/1`). -/
inductive Cond where
  | nonvar (t : Term)
  | ground (t : Term)
  | and (a b : Cond)
  | or (a b : Cond)
  deriving Repr, Inhabited

/-- what a woken goal does: unifications and dif/2 posts. -/
inductive Basic where
  | unify (s t : Term)
  | dif (s t : Term)
  deriving Repr, Inhabited

/-- a suspended goal: `when(cond, G)`; `id` is what `G` writes to the run log. -/
structure Susp where
  cond : Cond
  id : Nat
  body : List Basic
  deriving Repr, Inhabited

inductive Op where
  | basic (b : Basic)
  | susp (s : Susp)
  deriving Repr, Inhabited

/-- `freeze(X, G)`. -/
def freeze (x : String) (id : Nat) (body : List Basic) : Op :=
  .susp ⟨.nonvar (.var x), id, body⟩

def isVar : Term → Bool
  | .var _ => true
  | _ => false

/-- the condition evaluated under the bindings `σ` (when.pl calls `Condition` itself:
    `nonvar/1`, `ground/1`, conjunction, disjunction). -/
def Cond.holds (σ : Subst) : Cond → Bool
  | .nonvar t => !(isVar (applyS σ t))
  | .ground t => (applyS σ t).vars.isEmpty
  | .and a b => a.holds σ && b.holds σ
  | .or a b => a.holds σ || b.holds σ

/-! ### the store -/

structure Store where
  σ : Subst
  /-- all equations posted so far (never read by `exec`). -/
  eqs : Eqs
  /-- pending disequations, as posted. -/
  difs : List (Term × Term)
  /-- all disequations posted so far (never read by `exec`). -/
  allDifs : List (Term × Term)
  /-- suspended goals. -/
  susps : List Susp
  /-- goals that have been woken, in the order of waking. -/
  fired : List Susp
  deriving Repr, Inhabited

def Store.init : Store := ⟨[], [], [], [], [], []⟩

/-- the side-channel log: identifiers of the goals run so far. -/
def Store.log (st : Store) : List Nat := st.fired.map (·.id)

/-- `sσ == tσ`. -/
def identical (σ : Subst) (d : Term × Term) : Bool := eqb (applyS σ d.1) (applyS σ d.2)

/-- `\+ sσ \= tσ` (finite terms). -/
def unifiable (σ : Subst) (d : Term × Term) : Bool := (unifyOC (applyS σ d.1) (applyS σ d.2)).isSome

def bodyOps (s : Susp) : List Op := s.body.map Op.basic

/-! ### termination measure of `exec` -/

def opWeight : Op → Nat
  | .basic _ => 1
  | .susp s => s.body.length + 2

def agendaWeight : List Op → Nat
  | [] => 0
  | o :: r => opWeight o + agendaWeight r

def suspWeight : List Susp → Nat
  | [] => 0
  | s :: r => (s.body.length + 1) + suspWeight r

theorem agendaWeight_append (a b : List Op) :
    agendaWeight (a ++ b) = agendaWeight a + agendaWeight b := by
  induction a with
  | nil => simp [agendaWeight]
  | cons o a ih => simp [agendaWeight, ih]; omega

theorem agendaWeight_bodyOps (s : Susp) : agendaWeight (bodyOps s) = s.body.length := by
  unfold bodyOps
  induction s.body with
  | nil => simp [agendaWeight]
  | cons b l ih => simp [agendaWeight, opWeight, ih]; omega

theorem weight_filter (p : Susp → Bool) (l : List Susp) :
    agendaWeight ((l.filter p).flatMap bodyOps) + suspWeight (l.filter fun s => !p s)
      ≤ suspWeight l := by
  induction l with
  | nil => simp [agendaWeight, suspWeight]
  | cons s l ih =>
      by_cases h : p s = true
      · simp [h, agendaWeight_append, agendaWeight_bodyOps, suspWeight]
        omega
      · simp only [Bool.not_eq_true] at h
        simp [h, suspWeight]
        omega

/-- the suspended goals whose condition holds under `σ` … -/
def ready (σ : Subst) (l : List Susp) : List Susp := l.filter fun sp => sp.cond.holds σ
/-- … and the others. -/
def waiting (σ : Subst) (l : List Susp) : List Susp := l.filter fun sp => !sp.cond.holds σ
/-- the bodies of the woken goals, in the order of the goals. -/
def readyOps (σ : Subst) (l : List Susp) : List Op := (ready σ l).flatMap bodyOps

theorem weight_ready (σ : Subst) (l : List Susp) :
    agendaWeight (readyOps σ l) + suspWeight (waiting σ l) ≤ suspWeight l :=
  weight_filter (fun sp => sp.cond.holds σ) l

/-! ### execution -/

/-- the store after the unification `s = t` succeeded with the additional bindings `δ`:
    new substitution, pending difs that are still unifiable, goals still waiting. -/
def afterUnify (st : Store) (s t : Term) (δ : Subst) : Store :=
  { σ := δ ++ st.σ
    eqs := st.eqs ++ [(s, t)]
    difs := st.difs.filter (unifiable (δ ++ st.σ))
    allDifs := st.allDifs
    susps := waiting (δ ++ st.σ) st.susps
    fired := st.fired ++ ready (δ ++ st.σ) st.susps }

/-- the store after posting a dif/2 that is not violated. -/
def afterDif (st : Store) (s t : Term) : Store :=
  { st with
    difs := if unifiable st.σ (s, t) then st.difs ++ [(s, t)] else st.difs
    allDifs := st.allDifs ++ [(s, t)] }

/-- Executes the agenda.  `none` = failure. -/
def exec : List Op → Store → Option Store
  | [], st => some st
  | .basic (.unify s t) :: rest, st =>
      match unifyOC (applyS st.σ s) (applyS st.σ t) with
      | none => none
      | some δ =>
          if st.difs.any (identical (δ ++ st.σ)) then none
          else
            exec (readyOps (δ ++ st.σ) st.susps ++ rest) (afterUnify st s t δ)
  | .basic (.dif s t) :: rest, st =>
      if identical st.σ (s, t) then none
      else exec rest (afterDif st s t)
  | .susp sp :: rest, st =>
      if sp.cond.holds st.σ then exec (bodyOps sp ++ rest) { st with fired := st.fired ++ [sp] }
      else exec rest { st with susps := st.susps ++ [sp] }
termination_by ag st => agendaWeight ag + suspWeight st.susps
decreasing_by
  · have := weight_ready (δ ++ st.σ) st.susps
    simp only [afterUnify, agendaWeight_append, agendaWeight, opWeight]
    omega
  · simp only [afterDif, agendaWeight, opWeight]
    omega
  · simp only [agendaWeight_append, agendaWeight_bodyOps, agendaWeight, opWeight]
    omega
  · have : ∀ (l : List Susp) (s : Susp), suspWeight (l ++ [s]) = suspWeight l + (s.body.length + 1) := by
      intro l s
      induction l with
      | nil => simp [suspWeight]
      | cons a l ih => simp [suspWeight, ih]; omega
    simp only [this, agendaWeight, opWeight]
    omega

/-- a whole history of postings run from the empty store. -/
def run (ops : List Op) : Option Store := exec ops Store.init

/-! ### what is observed at the end -/

/-- residual dif/2 goals: the pending disequations under the final bindings. -/
def Store.residualDifs (st : Store) : List (Term × Term) :=
  st.difs.map fun d => (applyS st.σ d.1, applyS st.σ d.2)

def Cond.apply (σ : Subst) : Cond → Cond
  | .nonvar t => .nonvar (applyS σ t)
  | .ground t => .ground (applyS σ t)
  | .and a b => .and (Cond.apply σ a) (Cond.apply σ b)
  | .or a b => .or (Cond.apply σ a) (Cond.apply σ b)

end Coroutine
end Scryer
