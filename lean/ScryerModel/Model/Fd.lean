/-
  C27 — reference semantics of clp(Z) constraint systems over bounded domains
  (src/lib/clpz.pl).  Import-free executable model.

  What is modelled is the SPECIFICATION of clpz, not its propagators (≈ 8000 lines of
  Prolog): the syntax of constraints, the truth of a constraint under an integer
  assignment (`sat`), the reference solver `solutions` (filter of the lexicographic
  product of the domains = the order of `label/1`, i.e. `labeling([leftmost,up,step])`),
  and a generic labeling search tree `tree` parametrised by an arbitrary branching rule
  (variable selection × value order × step/enum/bisect).

  Conventions taken from clpz.pl:
  * undefined arithmetic (`X // 0`, `X mod 0`, `X rem 0`, `X div 0`, `X / 0`, inexact `/`,
    `0 ^ (-1)`, `2 ^ (-1)`) makes the ATOMIC relation containing it false, both at top
    level (`X #= 7 // 0` fails) and under reification (`B #<==> (X #= 7 // 0)` gives B = 0);
    see `parse_clpz/2` (`B #\= 0` side constraints) and `parse_reified/4` (definedness `D`).
  * `A / B` is exact division: `R * B = A`, `B ≠ 0`.
  * `A div B` is `(A - (A mod B)) // B`; `mod` has the sign of the divisor, `rem`/`//` truncate.
  * `A ^ B` with `B < 0` is defined only for `A = ±1`.
  * a variable used as a Boolean (`#\ B`, `B #==> …`) is constrained to `0..1`
    unconditionally (`reify/2` posts `B in 0..1`).
-/
namespace Scryer.Fd

/-! ### domains (`N`, `L..H`, `D1 \/ D2`; `inf`/`sup` excluded: bounded-domain hypothesis) -/

inductive Dom where
  | single (n : Int)
  | range (l h : Int)
  | union (a b : Dom)
  deriving Repr

/-- membership in the set denoted by a domain expression. -/
def Dom.mem (x : Int) : Dom → Bool
  | .single n => x == n
  | .range l h => decide (l ≤ x) && decide (x ≤ h)
  | .union a b => a.mem x || b.mem x

/-- `[l, l+1, …, h]` (empty when `h < l`). -/
def rangeList (l h : Int) : List Int :=
  (List.range (h - l + 1).toNat).map (fun (k : Nat) => l + (k : Int))

/-- union of two strictly ascending lists, strictly ascending. -/
def merge : List Int → List Int → List Int
  | [], ys => ys
  | x :: xs, [] => x :: xs
  | x :: xs, y :: ys =>
      if x < y then x :: merge xs (y :: ys)
      else if y < x then y :: merge (x :: xs) ys
      else x :: merge xs ys
termination_by xs ys => xs.length + ys.length

/-- intersection of two value lists (keeps the order of the first). -/
def inter (xs ys : List Int) : List Int := xs.filter (fun x => ys.contains x)

/-- the elements of a domain in ascending order, each once. -/
def Dom.toList : Dom → List Int
  | .single n => [n]
  | .range l h => rangeList l h
  | .union a b => merge a.toList b.toList

/-! ### arithmetic expressions -/

inductive UnOp where
  | neg | abs | sign
  deriving Repr, DecidableEq

inductive BinOp where
  | add | sub | mul | tdiv | fdiv | mod | rem | exdiv | pow | min | max
  deriving Repr, DecidableEq

inductive Expr where
  | var (i : Nat)
  | lit (v : Int)
  | un (op : UnOp) (e : Expr)
  | bin (op : BinOp) (l r : Expr)
  deriving Repr

/-- `a ^ n`, computable also for `(±1) ^ huge`, `0 ^ huge` (= `a ^ n`). -/
def powZ (a : Int) (n : Nat) : Int :=
  if a = 1 then 1
  else if a = 0 then (if n = 0 then 1 else 0)
  else if a = -1 then (if n % 2 = 0 then 1 else -1)
  else a ^ n

def evalUn : UnOp → Int → Int
  | .neg, a => -a
  | .abs, a => a.natAbs
  | .sign, a => Int.sign a

/-- `none` = undefined (the enclosing atomic constraint is false). -/
def evalBin : BinOp → Int → Int → Option Int
  | .add, a, b => some (a + b)
  | .sub, a, b => some (a - b)
  | .mul, a, b => some (a * b)
  | .tdiv, a, b => if b = 0 then none else some (Int.tdiv a b)
  | .fdiv, a, b => if b = 0 then none else some (Int.fdiv a b)
  | .mod, a, b => if b = 0 then none else some (Int.fmod a b)
  | .rem, a, b => if b = 0 then none else some (Int.tmod a b)
  | .exdiv, a, b => if b = 0 then none else if Int.tmod a b = 0 then some (Int.tdiv a b) else none
  | .pow, a, b =>
      if b < 0 ∧ a ≠ 1 ∧ a ≠ -1 then none else some (powZ a b.natAbs)
  | .min, a, b => some (if a ≤ b then a else b)
  | .max, a, b => some (if a ≤ b then b else a)

/-- value of an expression under an assignment (variable `i` ↦ `env[i]`); an index
    outside the assignment is undefined (no default value). -/
def eval (env : List Int) : Expr → Option Int
  | .var i => env[i]?
  | .lit v => some v
  | .un op e =>
      match eval env e with
      | none => none
      | some a => some (evalUn op a)
  | .bin op l r =>
      match eval env l with
      | none => none
      | some a =>
        match eval env r with
        | none => none
        | some b => evalBin op a b

def Expr.ground : Expr → Bool
  | .var _ => false
  | .lit _ => true
  | .un _ e => e.ground
  | .bin _ l r => l.ground && r.ground

/-- largest variable index + 1. -/
def Expr.bound : Expr → Nat
  | .var i => i + 1
  | .lit _ => 0
  | .un _ e => e.bound
  | .bin _ l r => Nat.max l.bound r.bound

/-! ### relations and reifiable formulas -/

inductive Rel where
  | eq | ne | lt | le | gt | ge
  deriving Repr, DecidableEq

def Rel.holds : Rel → Int → Int → Bool
  | .eq, a, b => decide (a = b)
  | .ne, a, b => decide (a ≠ b)
  | .lt, a, b => decide (a < b)
  | .le, a, b => decide (a ≤ b)
  | .gt, a, b => decide (a > b)
  | .ge, a, b => decide (a ≥ b)

/-- an atomic relation: false when a side is undefined. -/
def relSat (env : List Int) (r : Rel) (l rt : Expr) : Bool :=
  match eval env l, eval env rt with
  | some a, some b => r.holds a b
  | _, _ => false

inductive Conn where
  | and | or | imp | rimp | iff | xor
  deriving Repr, DecidableEq

def Conn.apply : Conn → Bool → Bool → Bool
  | .and, p, q => p && q
  | .or, p, q => p || q
  | .imp, p, q => !p || q
  | .rimp, p, q => !q || p
  | .iff, p, q => p == q
  | .xor, p, q => p != q

/-- reifiable formulas (`reifiable/1` in clpz.pl). -/
inductive Form where
  | bvar (i : Nat)                    -- a variable used as truth value
  | const (b : Bool)                  -- the integers 1 / 0
  | rel (r : Rel) (l rt : Expr)       -- `L #= R` …
  | inD (i : Nat) (d : Dom)           -- `V in D`
  | not (f : Form)                    -- `#\ F`
  | bin (c : Conn) (f g : Form)       -- `#/\ #\/ #==> #<== #<==> #\`
  deriving Repr

/-- every variable used as a truth value is 0 or 1 (`reify/2` posts `B in 0..1`). -/
def Form.boolOk (env : List Int) : Form → Bool
  | .bvar i => match env[i]? with
      | some v => v == 0 || v == 1
      | none => false
  | .const _ => true
  | .rel _ _ _ => true
  | .inD _ _ => true
  | .not f => f.boolOk env
  | .bin _ f g => f.boolOk env && g.boolOk env

def Form.truth (env : List Int) : Form → Bool
  | .bvar i => env[i]? == some 1
  | .const b => b
  | .rel r l rt => relSat env r l rt
  | .inD i d => match env[i]? with
      | some v => d.mem v
      | none => false
  | .not f => !(f.truth env)
  | .bin c f g => c.apply (f.truth env) (g.truth env)

def Form.bound : Form → Nat
  | .bvar i => i + 1
  | .const _ => 0
  | .rel _ l rt => Nat.max l.bound rt.bound
  | .inD i _ => i + 1
  | .not f => f.bound
  | .bin _ f g => Nat.max f.bound g.bound

/-! ### constraints -/

inductive Constraint where
  | form (f : Form)
  | allDifferent (es : List Expr)                    -- all_different/1 and all_distinct/1
  | sum (es : List Expr) (r : Rel) (e : Expr)        -- sum/3
  | scalar (cs : List Int) (es : List Expr) (r : Rel) (e : Expr)   -- scalar_product/4
  | tuplesIn (ts : List (List Expr)) (rel : List (List Int))       -- tuples_in/2
  | element (i : Expr) (es : List Expr) (v : Expr)   -- element/3 (1-based)
  deriving Repr

/-- values of a list of expressions, `none` if one is undefined. -/
def evalList (env : List Int) : List Expr → Option (List Int)
  | [] => some []
  | e :: es =>
      match eval env e with
      | none => none
      | some v =>
        match evalList env es with
        | none => none
        | some vs => some (v :: vs)

def allDiff : List Int → Bool
  | [] => true
  | x :: xs => !xs.contains x && allDiff xs

def sumZ : List Int → Int
  | [] => 0
  | x :: xs => x + sumZ xs

/-- Σ cᵢ·xᵢ; `none` when the lists differ in length (scalar_product/4 fails or errs). -/
def dot : List Int → List Int → Option Int
  | [], [] => some 0
  | c :: cs, x :: xs => (dot cs xs).map (fun s => c * x + s)
  | _, _ => none

def sat (env : List Int) : Constraint → Bool
  | .form f => f.boolOk env && f.truth env
  | .allDifferent es =>
      match evalList env es with
      | some vs => allDiff vs
      | none => false
  | .sum es r e =>
      match evalList env es, eval env e with
      | some vs, some b => r.holds (sumZ vs) b
      | _, _ => false
  | .scalar cs es r e =>
      match evalList env es, eval env e with
      | some vs, some b =>
          match dot cs vs with
          | some s => r.holds s b
          | none => false
      | _, _ => false
  | .tuplesIn ts rel =>
      ts.all fun t =>
        match evalList env t with
        | some vs => rel.contains vs
        | none => false
  | .element i es v =>
      match eval env i, evalList env es, eval env v with
      | some k, some vs, some x =>
          decide (1 ≤ k) && (vs[(k - 1).toNat]? == some x)
      | _, _, _ => false

/-! ### systems and the reference solver -/

structure System where
  doms : List Dom          -- variable `i` ranges over `doms[i]`
  cs : List Constraint
  deriving Repr

/-- lexicographic product: leftmost component varies slowest, values in list order. -/
def product : List (List Int) → List (List Int)
  | [] => [[]]
  | d :: ds => d.flatMap (fun v => (product ds).map (fun t => v :: t))

def System.box (s : System) : List (List Int) := product (s.doms.map Dom.toList)

def System.holds (s : System) (a : List Int) : Bool := s.cs.all (sat a)

/-- the reference solver = the answers of `label/1` in order. -/
def solutions (s : System) : List (List Int) := s.box.filter s.holds

/-- solution sequence of `labeling([down], Vs)`. -/
def solutionsDown (s : System) : List (List Int) :=
  (product (s.doms.map (fun d => d.toList.reverse))).filter s.holds

/-- lexicographic strict order on assignments. -/
def lexLt : List Int → List Int → Prop
  | [], [] => False
  | [], _ :: _ => True
  | _ :: _, [] => False
  | x :: xs, y :: ys => x < y ∨ (x = y ∧ lexLt xs ys)

/-! ### generic labeling search tree

A store holds the remaining candidate values of every variable.  A branching rule looks
at the store and splits the candidates of ONE variable into two non-empty parts
(`step`: {first value} / rest; `bisect`: ≤ mid / > mid; `enum` visits leaves in the same
order as `step`).  The implementation's variable selection (`leftmost`, `ff`, `ffc`,
`min`, `max`) depends on the domains after propagation; here ANY selection function is
allowed, so the permutation theorem covers whatever propagation makes them choose. -/

abbrev Store := List (List Int)

structure Branch where
  i : Nat
  left : List Int
  right : List Int

def Store.done (st : Store) : Bool := st.all (fun d => decide (d.length ≤ 1))

def Store.size (st : Store) : Nat := (st.map List.length).sum

def tree (br : Store → Branch) : Nat → Store → List Store
  | 0, st => [st]
  | f+1, st =>
      if st.done then [st]
      else
        let b := br st
        tree br f (st.set b.i b.left) ++ tree br f (st.set b.i b.right)

def single? : List Int → Option Int
  | [v] => some v
  | _ => none

def Store.assignment : Store → Option (List Int)
  | [] => some []
  | d :: ds =>
      match single? d with
      | none => none
      | some v => (Store.assignment ds).map (fun t => v :: t)

/-- a branching rule is valid when it splits an open variable into two non-empty parts. -/
def ValidBranch (br : Store → Branch) : Prop :=
  ∀ st : Store, st.done = false →
    (br st).i < st.length ∧ (br st).left ≠ [] ∧ (br st).right ≠ [] ∧
    ((br st).left ++ (br st).right).Perm (st.getD (br st).i [])

def labelWith (br : Store → Branch) (s : System) : List (List Int) :=
  let st : Store := s.doms.map Dom.toList
  ((tree br st.size st).filterMap Store.assignment).filter s.holds

/-! concrete strategies -/

inductive Sel where
  | leftmost | ff | min | max
  deriving Repr, DecidableEq

inductive Ord where
  | up | down
  deriving Repr, DecidableEq

inductive Choice where
  | step | bisect
  deriving Repr, DecidableEq

/-- index of the first open variable (≥ 2 candidates) from position `k`. -/
def firstOpen : Store → Nat → Nat
  | [], k => k
  | d :: ds, k => if 2 ≤ d.length then k else firstOpen ds (k + 1)

def isOpen (st : Store) (i : Nat) : Bool := decide (2 ≤ (st.getD i []).length)

/-- best open index w.r.t. a strict "better" test, leftmost on ties (`find_min` etc.). -/
def pickBest (better : List Int → List Int → Bool) (st : Store) : Nat :=
  let rec go : List (List Int) → Nat → Option (Nat × List Int) → Option (Nat × List Int)
    | [], _, cur => cur
    | d :: ds, k, cur =>
        if 2 ≤ d.length then
          match cur with
          | none => go ds (k + 1) (some (k, d))
          | some (j, c) => if better d c then go ds (k + 1) (some (k, d)) else go ds (k + 1) (some (j, c))
        else go ds (k + 1) cur
  match go st 0 none with
  | some (j, _) => j
  | none => 0

def listMin (d : List Int) : Int := d.foldl (fun a b => if b < a then b else a) (d.headD 0)
def listMax (d : List Int) : Int := d.foldl (fun a b => if a < b then b else a) (d.headD 0)

def selIndex : Sel → Store → Nat
  | .leftmost, st => firstOpen st 0
  | .ff, st => pickBest (fun d c => decide (d.length < c.length)) st
  | .min, st => pickBest (fun d c => decide (listMin d < listMin c)) st
  | .max, st => pickBest (fun d c => decide (listMax c < listMax d)) st

/-- make any selection function total and valid: fall back to the first open variable. -/
def fixSel (sel : Store → Nat) (st : Store) : Nat :=
  if isOpen st (sel st) then sel st else firstOpen st 0

def ordered (o : Ord) (d : List Int) : List Int :=
  match o with
  | .up => d
  | .down => d.reverse

/-- `step`: first value in the value order / the others (kept in the value order). -/
def stepBranch (sel : Store → Nat) (o : Ord) (st : Store) : Branch :=
  let i := fixSel sel st
  match ordered o (st.getD i []) with
  | [] => ⟨i, [], []⟩
  | v :: rest => ⟨i, [v], rest⟩

/-- the two halves of `bisect`: `X #=< Mid` / `X #> Mid` with `Mid = (inf+sup)//2`
    (and `Mid-1` if that is sup), as in `choice_order_variable(bisect, …)`. -/
def bisectParts (d : List Int) : List Int × List Int :=
  let lo := listMin d
  let hi := listMax d
  let mid0 := Int.tdiv (lo + hi) 2
  let mid := if mid0 = hi then mid0 - 1 else mid0
  (d.filter (fun x => decide (x ≤ mid)), d.filter (fun x => !decide (x ≤ mid)))

/-- `bisect` (falls back to `step` if a half is empty, which cannot happen for a duplicate-free
    candidate list with two or more values; the fallback keeps the rule valid on every store). -/
def bisectBranch (sel : Store → Nat) (o : Ord) (st : Store) : Branch :=
  let i := fixSel sel st
  let p := bisectParts (st.getD i [])
  if p.1.isEmpty || p.2.isEmpty then stepBranch sel o st
  else
    match o with
    | .up => ⟨i, p.1, p.2⟩
    | .down => ⟨i, p.2, p.1⟩

def strategy (sel : Store → Nat) (o : Ord) : Choice → Store → Branch
  | .step => stepBranch sel o
  | .bisect => bisectBranch sel o

/-- well-formedness of a system: every variable index that occurs has a domain. -/
def Constraint.bound : Constraint → Nat
  | .form f => f.bound
  | .allDifferent es => (es.map Expr.bound).foldl Nat.max 0
  | .sum es _ e => Nat.max ((es.map Expr.bound).foldl Nat.max 0) e.bound
  | .scalar _ es _ e => Nat.max ((es.map Expr.bound).foldl Nat.max 0) e.bound
  | .tuplesIn ts _ => (ts.map (fun t => (t.map Expr.bound).foldl Nat.max 0)).foldl Nat.max 0
  | .element i es v => Nat.max i.bound (Nat.max ((es.map Expr.bound).foldl Nat.max 0) v.bound)

def System.wf (s : System) : Bool := s.cs.all (fun c => decide (c.bound ≤ s.doms.length))

end Scryer.Fd
