import ScryerModel.Model.Unify
/-
C54 — library(reif): reified conditions over the theory of syntactic equality / disequality.

* `Store`   a constraint store at the specification level: the equations posted so far (`=`) and
            the disequalities posted so far (`dif/2`).  `dif(X,Y)` mirrors src/lib/dif.pl: it FAILS
            iff the terms are identical, SUCCEEDS WITHOUT RESIDUE iff they are not unifiable,
            otherwise it stays (pending disequality, re-checked by every later unification).
* `Cond`    reified conditions: `X = Y`, `dif(X,Y)`, `(A , B)`, `(A ; B)`  (each with the truth
            value as additional last argument in Prolog).
* `evalC`   mirrors the clauses of src/lib/reif.pl for `call(C, T)`: `(=)/3` (the four-way
            if-then-else `X == Y -> … ; X \= Y -> … ; T = true, X = Y ; T = false, dif(X,Y)`),
            `dif/3` (= `(=)/3` then `non/2`), `(,)/3` and `(;)/3` (through `if_/3`); `tb` is the
            instantiation of `T` at call time (unbound / `true` / `false`).  The result is the
            answer sequence in the order Prolog delivers it: truth value and store.
* `ifT`     `if_/3`;  `ifRaw` its indexing on an arbitrary truth-value term incl. the two errors.
* `tfilterM`, `tpartitionM`, `memberdM`, `tmemberM`, `tmemberTM`, `condTM`: the list predicates.
Imports only Model.Unify (C10).
-/
namespace Scryer.Reif
open Scryer Scryer.Unify

structure Store where
  /-- posted equations, newest first -/
  eqs : Eqs
  /-- posted disequalities, newest first -/
  ds : Eqs
  deriving Repr, Inhabited

def Store.empty : Store := ⟨[], []⟩
def Store.addEq (s : Store) (x y : Term) : Store := ⟨(x, y) :: s.eqs, s.ds⟩
def Store.addDif (s : Store) (x y : Term) : Store := ⟨s.eqs, (x, y) :: s.ds⟩

/-- the bindings of the store (most general unifier of the posted equations). -/
def Store.mgu (s : Store) : Option Subst := unify s.eqs []

/-- `A == B`: unifiable without binding anything. -/
def identical (a b : Term) : Bool :=
  match unify [(a, b)] [] with
  | some [] => true
  | _ => false

/-- `A \= B`. -/
def notUnifiable (a b : Term) : Bool := (unify [(a, b)] []).isNone

/-- the equations are solvable and no pending disequality has become an identity. -/
def Store.consistent (s : Store) : Bool :=
  match s.mgu with
  | none => false
  | some σ => s.ds.all fun p => !identical (applyS σ p.1) (applyS σ p.2)

/-- a goal `= / dif` that changed the store succeeds iff the new store is consistent
    (unification wakes the pending `dif/2` goals). -/
def post (t : Bool) (s : Store) : List (Bool × Store) := if s.consistent then [(t, s)] else []

/-- does `T = t` succeed for the truth-value argument as instantiated at call time? -/
def unifT (tb : Option Bool) (t : Bool) : Bool :=
  match tb with
  | none => true
  | some b => b == t

/-- `=(X, Y, T)`. -/
def eqT (x y : Term) (tb : Option Bool) (s : Store) : List (Bool × Store) :=
  match s.mgu with
  | none => []
  | some σ =>
    if identical (applyS σ x) (applyS σ y) then          -- X == Y -> T = true
      (if unifT tb true then [(true, s)] else [])
    else if notUnifiable (applyS σ x) (applyS σ y) then  -- X \= Y -> T = false
      (if unifT tb false then [(false, s)] else [])
    else                                                   -- T = true, X = Y ; T = false, dif(X,Y)
      (if unifT tb true then post true (s.addEq x y) else []) ++
      (if unifT tb false then post false (s.addDif x y) else [])

inductive Cond where
  | eq (x y : Term)
  | dif (x y : Term)
  | and (a b : Cond)
  | or (a b : Cond)
  deriving Repr, Inhabited

/-- `call(C, T)` with `T` instantiated as `tb`. -/
def evalC : Cond → Option Bool → Store → List (Bool × Store)
  | .eq x y, tb, s => eqT x y tb s
  | .dif x y, tb, s =>
      -- =(X, Y, NT), non(NT, T).
      (eqT x y none s).filterMap fun p => if unifT tb (!p.1) then some (!p.1, p.2) else none
  | .and a b, tb, s =>
      -- if_(A_1, call(B_1, T), T = false).
      (evalC a none s).flatMap fun p =>
        if p.1 then evalC b tb p.2 else (if unifT tb false then [(false, p.2)] else [])
  | .or a b, tb, s =>
      -- if_(A_1, T = true, call(B_1, T)).
      (evalC a none s).flatMap fun p =>
        if p.1 then (if unifT tb true then [(true, p.2)] else []) else evalC b tb p.2

/-- `if_(C, Then, Else)`: `call(C, T)`, then the branch selected by `T`. -/
def ifT {α : Type} (c : Cond) (thenK elseK : Store → List α) (s : Store) : List α :=
  (evalC c none s).flatMap fun p => if p.1 then thenK p.2 else elseK p.2

/-- the explicit disjunction `( call(C, true), Then ; call(C, false), Else )`. -/
def ifSpec {α : Type} (c : Cond) (thenK elseK : Store → List α) (s : Store) : List α :=
  ((evalC c (some true) s).flatMap fun p => thenK p.2) ++
  ((evalC c (some false) s).flatMap fun p => elseK p.2)

/-! ### `if_/3` on an arbitrary condition: the indexing on the truth value, with the errors -/

inductive IfOut (α : Type) where
  | ans (a : α)
  | typeErrorBoolean (t : Term)      -- nonvar(T), not a boolean
  | instantiationError               -- T still unbound
  deriving Repr

/-- answers of `call(If_1, T)` are given as (`T` after the call, state); an error ends the run. -/
def ifRaw {α σ : Type} (condAnswers : List (Term × σ)) (thenK elseK : σ → List α) : List (IfOut α) :=
  match condAnswers with
  | [] => []
  | (t, s) :: rest =>
    match t with
    | .atom "true" => (thenK s).map .ans ++ ifRaw rest thenK elseK
    | .atom "false" => (elseK s).map .ans ++ ifRaw rest thenK elseK
    | .var _ => [.instantiationError]
    | t => [.typeErrorBoolean t]

def boolTerm (b : Bool) : Term := .atom (if b then "true" else "false")

/-! ### the list predicates (output arguments unbound at call time) -/

/-- `tfilter(C_2, Es, Fs)`; `p e` is the condition `call(C_2, e)`. -/
def tfilterM (p : Term → Cond) : List Term → Store → List (List Term × Store)
  | [], s => [([], s)]
  | e :: es, s =>
      ifT (p e) (fun s1 => (tfilterM p es s1).map fun q => (e :: q.1, q.2))
                (fun s1 => tfilterM p es s1) s

/-- `tpartition(P_2, Xs, Ts, Fs)`. -/
def tpartitionM (p : Term → Cond) : List Term → Store → List ((List Term × List Term) × Store)
  | [], s => [(([], []), s)]
  | x :: xs, s =>
      ifT (p x) (fun s1 => (tpartitionM p xs s1).map fun q => ((x :: q.1.1, q.1.2), q.2))
                (fun s1 => (tpartitionM p xs s1).map fun q => ((q.1.1, x :: q.1.2), q.2)) s

/-- `tmember_t(P_2, Xs, T)`. -/
def tmemberTM (p : Term → Cond) : List Term → Store → List (Bool × Store)
  | [], s => [(false, s)]
  | x :: xs, s => ifT (p x) (fun s1 => [(true, s1)]) (fun s1 => tmemberTM p xs s1) s

/-- `memberd_t(E, Xs, T)`: `if_( X = E, T = true, i_memberd_t(Xs, E, T) )`. -/
def memberdM (e : Term) (xs : List Term) (s : Store) : List (Bool × Store) :=
  tmemberTM (fun x => .eq x e) xs s

/-- `tmember(P_2, Xs)`. -/
def tmemberM (p : Term → Cond) : List Term → Store → List Store
  | [], _ => []
  | x :: xs, s => ifT (p x) (fun s1 => [s1]) (fun s1 => tmemberM p xs s1) s

/-- `cond_t(If_1, Then_0, T)` with `Then_0` given by its answers. -/
def condTM (c : Cond) (thenK : Store → List Store) (s : Store) : List (Bool × Store) :=
  ifT c (fun s1 => (thenK s1).map fun s2 => (true, s2)) (fun s1 => [(false, s1)]) s

/-! ### explicit-disjunction specifications of the list predicates -/

/-- `( call(C,E,true), Fs0 = [E|Fs] ; call(C,E,false), Fs0 = Fs ), tfilter(C, Es, Fs)`. -/
def tfilterSpec (p : Term → Cond) : List Term → Store → List (List Term × Store)
  | [], s => [([], s)]
  | e :: es, s =>
      ifSpec (p e) (fun s1 => (tfilterSpec p es s1).map fun q => (e :: q.1, q.2))
                   (fun s1 => tfilterSpec p es s1) s

def tpartitionSpec (p : Term → Cond) : List Term → Store → List ((List Term × List Term) × Store)
  | [], s => [(([], []), s)]
  | x :: xs, s =>
      ifSpec (p x) (fun s1 => (tpartitionSpec p xs s1).map fun q => ((x :: q.1.1, q.1.2), q.2))
                   (fun s1 => (tpartitionSpec p xs s1).map fun q => ((q.1.1, x :: q.1.2), q.2)) s

def tmemberTSpec (p : Term → Cond) : List Term → Store → List (Bool × Store)
  | [], s => [(false, s)]
  | x :: xs, s => ifSpec (p x) (fun s1 => [(true, s1)]) (fun s1 => tmemberTSpec p xs s1) s

def tmemberSpec (p : Term → Cond) : List Term → Store → List Store
  | [], _ => []
  | x :: xs, s => ifSpec (p x) (fun s1 => [s1]) (fun s1 => tmemberSpec p xs s1) s

end Scryer.Reif
