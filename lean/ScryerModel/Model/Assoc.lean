import ScryerModel.Model.Sort
/-
C14 — library(assoc) (src/lib/assoc.pl): AVL trees `t` / `t(K,V,Balance,L,R)` with balance tags
`<` (left deeper), `-`, `>` (right deeper). Transcribed clause by clause over an arbitrary
three-way comparison `cmp` on keys (the library uses `compare/3`).

A Prolog predicate that can fail (no clause matches, e.g. `avl_geq/3` on a shape that cannot
occur in a valid tree) returns `Option`: the failure is modelled, not totalised away; the theorems
show it does not happen on valid trees.
Imports only the sorting model (keysort inside list_to_assoc).
-/
namespace Scryer.Assoc

/-- the balance tag: `lt` is `<` (left subtree deeper), `eq` is `-`, `gt` is `>`. -/
inductive Bal where
  | lt | eq | gt
  deriving Repr, BEq, DecidableEq

inductive Side where
  | left | right
  deriving Repr, BEq, DecidableEq

inductive Tree (κ ν : Type) where
  | t : Tree κ ν
  | node (k : κ) (v : ν) (b : Bal) (l r : Tree κ ν) : Tree κ ν
  deriving Repr, BEq

variable {κ ν : Type}
open Tree

/-! ### reading -/

/-- `assoc_to_list/2`: in-order. -/
def toList : Tree κ ν → List (κ × ν)
  | t => []
  | node k v _ l r => toList l ++ (k, v) :: toList r

/-- `assoc_to_keys/2`. -/
def toKeys : Tree κ ν → List κ
  | t => []
  | node k _ _ l r => toKeys l ++ k :: toKeys r

/-- `assoc_to_values/2`. -/
def toValues : Tree κ ν → List ν
  | t => []
  | node _ v _ l r => toValues l ++ v :: toValues r

/-- `get_assoc/3` (`get_assoc_/3` has no clause for `t`: failure = `none`). -/
def get (cmp : κ → κ → Ordering) (key : κ) : Tree κ ν → Option ν
  | t => none
  | node k v _ l r =>
    match cmp key k with
    | .eq => some v
    | .lt => get cmp key l
    | .gt => get cmp key r

/-- `max_assoc/3`. -/
def maxAssoc : Tree κ ν → Option (κ × ν)
  | t => none
  | node k v _ _ r => match maxAssoc r with
    | none => some (k, v)
    | some p => some p

/-- `min_assoc/3`. -/
def minAssoc : Tree κ ν → Option (κ × ν)
  | t => none
  | node k v _ l _ => match minAssoc l with
    | none => some (k, v)
    | some p => some p

/-! ### put_assoc: insert / adjust / table / rebalance / avl_geq / table2 -/

/-- `table(B0, LoR, B1, WhatHasChanged, ToBeRebalanced)`. -/
def table : Bal → Side → Bal × Bool × Bool
  | .eq, .left => (.lt, true, false)
  | .eq, .right => (.gt, true, false)
  | .lt, .left => (.eq, false, true)
  | .lt, .right => (.eq, false, false)
  | .gt, .left => (.eq, false, false)
  | .gt, .right => (.eq, false, true)

/-- `table2(B1, B2, B3)`. -/
def table2 : Bal → Bal × Bal
  | .lt => (.eq, .gt)
  | .gt => (.lt, .eq)
  | .eq => (.eq, .eq)

/-- `avl_geq(OldTree, NewTree, RealChange)`: the four single and two double rotations, in clause
    order; `none` when no clause matches. -/
def avlGeq : Tree κ ν → Option (Tree κ ν × Bool)
  | node a va .gt alpha (node b vb .gt beta gamma) =>
      some (node b vb .eq (node a va .eq alpha beta) gamma, true)
  | node a va .gt alpha (node b vb .eq beta gamma) =>
      some (node b vb .lt (node a va .gt alpha beta) gamma, false)
  | node b vb .lt (node a va .lt alpha beta) gamma =>
      some (node a va .eq alpha (node b vb .eq beta gamma), true)
  | node b vb .lt (node a va .eq alpha beta) gamma =>
      some (node a va .gt alpha (node b vb .lt beta gamma), false)
  | node a va .gt alpha (node b vb .lt (node x vx b1 beta gamma) delta) =>
      some (node x vx .eq (node a va (table2 b1).1 alpha beta) (node b vb (table2 b1).2 gamma delta), true)
  | node b vb .lt (node a va .gt alpha (node x vx b1 beta gamma)) delta =>
      some (node x vx .eq (node a va (table2 b1).1 alpha beta) (node b vb (table2 b1).2 gamma delta), true)
  | _ => none

/-- `rebalance(ToBeRebalanced, Tree, B1, NewTree, Changed, RealChange)`. -/
def rebalance (toBe : Bool) (tree : Tree κ ν) (b1 : Bal) (changed : Bool) : Option (Tree κ ν × Bool) :=
  if toBe then avlGeq tree
  else match tree with
    | node k v _ l r => some (node k v b1 l r, changed)
    | t => none

/-- `adjust(HasChanged, Tree, LoR, NewTree, WhatHasChanged)`; the change flags returned by
    `rebalance` are ignored there (`_`), `WhatHasChanged` comes from `table`. -/
def adjust (hasChanged : Bool) (tree : Tree κ ν) (lor : Side) : Option (Tree κ ν × Bool) :=
  if hasChanged then
    match tree with
    | node k v b0 l r =>
      let tb := table b0 lor
      match rebalance tb.2.2 (node k v b0 l r) tb.1 tb.2.1 with
      | some p => some (p.1, tb.2.1)
      | none => none
    | t => none
  else some (tree, false)

/-- `insert(Tree, Key, Val, NewTree, WhatHasChanged)`. -/
def insert (cmp : κ → κ → Ordering) : Tree κ ν → κ → ν → Option (Tree κ ν × Bool)
  | t, k, v => some (node k v .eq t t, true)
  | node key val b l r, k, v =>
    match cmp k key with
    | .eq => some (node key v b l r, false)
    | .lt =>
      match insert cmp l k v with
      | some (nl, ch) => adjust ch (node key val b nl r) .left
      | none => none
    | .gt =>
      match insert cmp r k v with
      | some (nr, ch) => adjust ch (node key val b l nr) .right
      | none => none

/-- `put_assoc(Key, A0, Value, A)`. -/
def putAssoc (cmp : κ → κ → Ordering) (k : κ) (a : Tree κ ν) (v : ν) : Option (Tree κ ν) :=
  (insert cmp a k v).map (·.1)

/-! ### del_assoc, del_min_assoc, del_max_assoc -/

/-- `deltable(B0, LoR, B1, WhatHasChanged, ToBeRebalanced)`. -/
def deltable : Bal → Side → Bal × Bool × Bool
  | .eq, .right => (.lt, false, false)
  | .eq, .left => (.gt, false, false)
  | .lt, .right => (.eq, true, true)
  | .lt, .left => (.eq, true, false)
  | .gt, .right => (.eq, true, false)
  | .gt, .left => (.eq, true, true)

/-- `deladjust(HasChanged, Tree, LoR, NewTree, RealChange)`. -/
def deladjust (hasChanged : Bool) (tree : Tree κ ν) (lor : Side) : Option (Tree κ ν × Bool) :=
  if hasChanged then
    match tree with
    | node k v b0 l r =>
      let tb := deltable b0 lor
      rebalance tb.2.2 (node k v b0 l r) tb.1 tb.2.1
    | t => none
  else some (tree, false)

/-- `del_min_assoc(Tree, Key, Val, NewTree, DepthChanged)`. -/
def delMin : Tree κ ν → Option (κ × ν × Tree κ ν × Bool)
  | t => none
  | node k v _ t r => some (k, v, r, true)
  | node k v b l r =>
    match delMin l with
    | some (mk, mv, nl, ch) =>
      (match deladjust ch (node k v b nl r) .left with
       | some (nt, c) => some (mk, mv, nt, c)
       | none => none)
    | none => none

/-- `del_max_assoc(Tree, Key, Val, NewTree, DepthChanged)`. -/
def delMax : Tree κ ν → Option (κ × ν × Tree κ ν × Bool)
  | t => none
  | node k v _ l t => some (k, v, l, true)
  | node k v b l r =>
    match delMax r with
    | some (mk, mv, nr, ch) =>
      (match deladjust ch (node k v b l nr) .right with
       | some (nt, c) => some (mk, mv, nt, c)
       | none => none)
    | none => none

/-- the fourth `delete(=, …)` clause: move the maximum of the left subtree to the root. -/
def delRootLeft (val : ν) (b : Bal) (l r : Tree κ ν) : Option (ν × Tree κ ν × Bool) :=
  match delMax l with
  | some (k, v, nl, ch) =>
    (match deladjust ch (node k v b nl r) .left with
     | some (nt, c) => some (val, nt, c)
     | none => none)
  | none => none

/-- `delete(Tree, Key, Val, NewTree, WhatHasChanged)`; result: the value that was stored. -/
def delete (cmp : κ → κ → Ordering) : Tree κ ν → κ → Option (ν × Tree κ ν × Bool)
  | t, _ => none
  | node key val b l r, k =>
    match cmp k key with
    | .eq =>
      (match l, r, b with
       | t, r, _ => some (val, r, true)
       | l, t, _ => some (val, l, true)
       | l, r, .gt =>
         -- right subtree deeper: its minimum becomes the root; on failure the next clause is tried
         (match (match delMin r with
                 | some (mk, mv, nr, ch) =>
                   (match deladjust ch (node mk mv .gt l nr) .right with
                    | some (nt, c) => some (val, nt, c)
                    | none => none)
                 | none => none) with
          | some res => some res
          | none => delRootLeft val .gt l r)
       | l, r, b => delRootLeft val b l r)
    | .lt =>
      (match delete cmp l k with
       | some (dv, nl, ch) =>
         (match deladjust ch (node key val b nl r) .left with
          | some (nt, c) => some (dv, nt, c)
          | none => none)
       | none => none)
    | .gt =>
      (match delete cmp r k with
       | some (dv, nr, ch) =>
         (match deladjust ch (node key val b l nr) .right with
          | some (nt, c) => some (dv, nt, c)
          | none => none)
       | none => none)

/-- `del_assoc(Key, A0, Value, A)`. -/
def delAssoc (cmp : κ → κ → Ordering) (k : κ) (a : Tree κ ν) : Option (ν × Tree κ ν) :=
  (delete cmp a k).map fun r => (r.1, r.2.1)

/-! ### list_to_assoc / ord_list_to_assoc -/

/-- `ord_pairs/1`: non-empty and the keys strictly ascending. -/
def ordPairsFrom (cmp : κ → κ → Ordering) : List (κ × ν) → κ → Bool
  | [], _ => true
  | (k, _) :: rest, k0 => cmp k0 k == .lt && ordPairsFrom cmp rest k

def ordPairs (cmp : κ → κ → Ordering) : List (κ × ν) → Bool
  | [] => false
  | (k, _) :: rest => ordPairsFrom cmp rest k

/-- `balance(Rel, B)` after `compare(Rel, RDepth, LDepth)`. -/
def balanceOf (rdepth ldepth : Nat) : Bal :=
  match compare rdepth ldepth with
  | .eq => .eq
  | .lt => .lt
  | .gt => .gt

/-- `list_to_assoc(N, List, More, Depth, Tree)`: a balanced tree of the first `N` pairs, the
    remaining pairs, and the depth. `fuel` bounds the recursion (`N` suffices). -/
def buildN : Nat → Nat → List (κ × ν) → Option (Tree κ ν × List (κ × ν) × Nat)
  | 0, _, _ => none
  | fuel + 1, n, list =>
    if n == 1 then
      match list with
      | (k, v) :: more => some (node k v .eq t t, more, 1)
      | [] => none
    else if n == 2 then
      match list with
      | (k1, v1) :: (k2, v2) :: more => some (node k2 v2 .lt (node k1 v1 .eq t t) t, more, 2)
      | _ => none
    else
      let n0 := n - 1
      let rn := n0 / 2
      let rem := n0 % 2
      let ln := rn + rem
      match buildN fuel ln list with
      | some (l, (k, v) :: upper, ldepth) =>
        (match buildN fuel rn upper with
         | some (r, more, rdepth) => some (node k v (balanceOf rdepth ldepth) l r, more, ldepth + 1)
         | none => none)
      | _ => none

inductive L2A (κ ν : Type) where
  | ok (tree : Tree κ ν)
  /-- `domain_error(unique_key_pairs, List)` / `domain_error(key_ordered_pairs, List)`. -/
  | domainError
  /-- the recursive builder failed (cannot happen). -/
  | failed

/-- `ord_list_to_assoc/2` (the input must already be strictly ascending by key). -/
def ordListToAssoc (cmp : κ → κ → Ordering) (sorted : List (κ × ν)) : L2A κ ν :=
  match sorted with
  | [] => .ok t
  | _ =>
    if ordPairs cmp sorted then
      match buildN (sorted.length + 1) sorted.length sorted with
      | some (tree, [], _) => .ok tree
      | _ => .failed
    else .domainError

/-- `list_to_assoc/2`: keysort, then the keys must be strictly ascending (no duplicate keys). -/
def listToAssoc (cmp : κ → κ → Ordering) (l : List (κ × ν)) : L2A κ ν :=
  match l with
  | [] => .ok t
  | _ => ordListToAssoc cmp (Sort.msort (fun a b => cmp a.1 b.1) l)

end Scryer.Assoc
